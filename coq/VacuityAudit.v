(* VacuityAudit.v — TASK A1: are the hypotheses of the property theorems (Prop*.v) jointly
   satisfiable?  This file only gathers the parts and prints the assumptions of every instance
   (all `Closed under the global context`); the instances themselves are in

     VacBase.v     helpers: bounded checks by computation, encoding lengths, *_bound from a
                   computation, the invariant along a history of calls with its ghost log
     VacRestart.v  PropC01 (all 16), PropC04 / PropC18 (restart halves)     [RestartFinal.Example]
     VacCrash.v    PropC02 Inv-based (crash_atomic, history, call_entries_atomic, call_trace,
                   crash_image_shape)                                       [CrashAtomic.CrashExample]
     VacDamage.v   PropC09 end to end (damage_costs_one_entry, from_fresh, damaged_dir_exists)
                                                                            [DamageAtomic.Example]
     VacStream.v   stream level: PropC02 torn_*, PropC07, PropC08, PropC09, PropC12
     VacFiles.v    file level: open_one_damaged, open_damaged (C08/C09/C12), open_torn (C02/C12),
                   PropC07 files
     VacLive.v     PropC03, PropC04 (live), PropC05, PropC06, PropC08/09/12 entry level, PropC10, PropC11
     VacLive2.v    PropC13 .. PropC18 (live)
     VacCrc.v      FINDING: no_zero_collision (also the bounded repair) is false for Crc.crc32, and
                   the C02 property itself fails in the model with the real CRC (counterexample)

   Convention: `<thm>_inst` = the Prop theorem applied to concrete data with ALL premises
   discharged (its conclusion, or a part of it, as a closed fact);
   `<thm>_premises_satisfiable` = exists witnesses, all premises;
   `<thm>_other_premises_satisfiable` = all premises except TornProofs.no_zero_collision (which
   NzcVacuous.nzc_inconsistent shows contradictory with the 32-bit checksum bound; theorems
   C02_crash_atomic, C02_history, C02_torn_read_nocoll, C02_open_torn, C12_torn_entry_all_or_nothing,
   C12_open_torn).  The coverage table is at the end of the file. *)
From MRL Require Export VacBase VacRestart VacCrash VacDamage VacStream VacFiles VacLive VacLive2 VacCrc.

Print Assumptions VacRestart.C01_restart_identity_inst.
Print Assumptions VacRestart.C01_history_spec_inst.
Print Assumptions VacRestart.C01_inv_reopen_premises_satisfiable.
Print Assumptions VacRestart.C01_inv_reopen_inst.
Print Assumptions VacRestart.C01_step_premises_satisfiable.
Print Assumptions VacRestart.C01_no_io_needed_inst.
Print Assumptions VacRestart.C01_inv_step_inst.
Print Assumptions VacRestart.C01_inv_fresh_inst.
Print Assumptions VacRestart.C01_live_is_replay_inst.
Print Assumptions VacRestart.C01_logged_entries_roundtrip_inst.
Print Assumptions VacRestart.C01_history_is_replay_inst.
Print Assumptions VacRestart.C01_replay_refines_spec_inst.
Print Assumptions VacRestart.C01_suffix_simulation_inst.
Print Assumptions VacRestart.C01_suffix_is_list_suffix_inst.
Print Assumptions VacRestart.C01_covered_suffix_equal_inst.
Print Assumptions VacRestart.C01_model_covered_suffix_equal_inst.
Print Assumptions VacRestart.C04_positions_fresh_with_restarts_inst.
Print Assumptions VacRestart.C04_after_truncate_with_restarts_inst.
Print Assumptions VacRestart.C04_restart_keeps_next_inst.
Print Assumptions VacRestart.C04_next_position_survives_restart_inst.
Print Assumptions VacRestart.C18_projection_with_restarts_inst.
Print Assumptions VacRestart.C18_others_and_restarts_invisible_inst.
Print Assumptions VacCrash.C02_crash_atomic_other_premises_satisfiable.
Print Assumptions VacCrash.C02_history_other_premises_satisfiable.
Print Assumptions VacCrash.C02_call_entries_atomic_inst.
Print Assumptions VacCrash.C02_call_trace_inst.
Print Assumptions VacCrash.C02_crash_image_shape_inst.
Print Assumptions VacDamage.ghost_ex.
Print Assumptions VacDamage.C09_damage_costs_one_entry_premises_satisfiable.
Print Assumptions VacDamage.C09_damage_costs_one_entry_inst.
Print Assumptions VacDamage.C09_from_fresh_inst.
Print Assumptions VacStream.C02_torn_read_premises_satisfiable.
Print Assumptions VacStream.C02_torn_read_inst.
Print Assumptions VacStream.C02_torn_read_written_inst.
Print Assumptions VacStream.C02_torn_resume_inst.
Print Assumptions VacStream.C02_torn_then_append_inst.
Print Assumptions VacStream.C07_roundtrip_mem_inst.
Print Assumptions VacStream.C07_write_count_inst.
Print Assumptions VacStream.C07_entry_codec_inst.
Print Assumptions VacStream.C07_batch_codec_inst.
Print Assumptions VacStream.C08_entry_deser_sound_inst.
Print Assumptions VacStream.C08_append_deser_exact_inst.
Print Assumptions VacStream.C12_batch_decodes_whole_inst.
Print Assumptions VacStream.C12_multi_parse_sound_inst.
Print Assumptions VacStream.C12_append_entry_roundtrip_inst.
Print Assumptions VacStream.C09_one_damaged_entry_inst.
Print Assumptions VacStream.C12_damaged_entry_dropped_whole_inst.
Print Assumptions VacStream.encs_any_damaged_exists.
Print Assumptions VacStream.C09_general_inst.
Print Assumptions VacStream.C08_detected_damage_subsequence_inst.
Print Assumptions VacStream.C09_bad_crc_frame_inst.
Print Assumptions VacFiles.C09_open_one_damaged_premises_satisfiable.
Print Assumptions VacFiles.C09_open_one_damaged_inst.
Print Assumptions VacFiles.open_damaged_premises_satisfiable.
Print Assumptions VacFiles.C09_open_damaged_inst.
Print Assumptions VacFiles.C08_open_damaged_replays_only_written_inst.
Print Assumptions VacFiles.C12_open_damaged_inst.
Print Assumptions VacFiles.open_torn_other_premises_satisfiable.
Print Assumptions VacFiles.open_torn_computed.
Print Assumptions VacFiles.C07_roundtrip_files_inst.
Print Assumptions VacFiles.C07_restart_continues_stream_inst.
Print Assumptions VacFiles.C07_reader_is_stream_reader_inst.
Print Assumptions VacLive.C03_fsync_durable_inst.
Print Assumptions VacLive.C03_power_loss_keeps_synced_prefix_inst.
Print Assumptions VacLive.C03_flush_in_os_inst.
Print Assumptions VacLive.C03_flush_bytes_inst.
Print Assumptions VacLive.C03_other_files_synced_inst.
Print Assumptions VacLive.C03_unlinks_after_sync_inst.
Print Assumptions VacLive.C03_unlink_guarded_inst.
Print Assumptions VacLive.C03_no_write_between_inst.
Print Assumptions VacLive.C03_open_establishes_inst.
Print Assumptions VacLive.C03_policy_independent_content_inst.
Print Assumptions VacLive.C04_spec_next_monotone_inst.
Print Assumptions VacLive.C04_log_positions_fresh_inst.
Print Assumptions VacLive.C04_log_lasts_increasing_inst.
Print Assumptions VacLive.C04_append_fresh_inst.
Print Assumptions VacLive.C04_truncate_next_inst.
Print Assumptions VacLive.C04_after_truncate_inst.
Print Assumptions VacLive.C04_step_positions_inst.
Print Assumptions VacLive.C05_refines_inst.
Print Assumptions VacLive.C05_run_refines_inst.
Print Assumptions VacLive.C05_open_establishes_inv_inst.
Print Assumptions VacLive.C05_range_all_bounds_inst.
Print Assumptions VacLive.C05_last_record_inst.
Print Assumptions VacLive.C05_ring_inst.
Print Assumptions VacLive.C05_past_only_guard_inst.
Print Assumptions VacLive.C06_gc_loop_inst.
Print Assumptions VacLive.C06_contiguous_preserved_inst.
Print Assumptions VacLive.C06_tight_inst.
Print Assumptions VacLive.C06_disk_used_inst.
Print Assumptions VacLive.C06_directory_is_tracker_inst.
Print Assumptions VacLive.C06_gc_no_err_inst.
Print Assumptions VacLive.C06_handles_cover_records_inst.
Print Assumptions VacLive.C06_unreferenced_file_is_empty_inst.
Print Assumptions VacLive.C06_live_handles_inst.
Print Assumptions VacLive.C06_attrs_ge_first_kept_inst.
Print Assumptions VacLive.C08_positions_increasing_any_directory_inst.
Print Assumptions VacLive.C10_result_wellformed_inst.
Print Assumptions VacLive.C08_replay_inserts_only_entry_records_inst.
Print Assumptions VacLive.C12_apply_all_or_nothing_inst.
Print Assumptions VacLive.C09_deletion_replay_some_inst.
Print Assumptions VacLive.C09_replay_tolerates_lost_entry_inst.
Print Assumptions VacLive.C10_open_terminates_inst.
Print Assumptions VacLive.C10_fuel_bound_inst.
Print Assumptions VacLive.C10_fuel_irrelevant_inst.
Print Assumptions VacLive.C11_ok_means_not_fired_inst.
Print Assumptions VacLive.C11_fired_is_io_inst.
Print Assumptions VacLive.C11_corruption_means_not_fired_inst.
Print Assumptions VacLive.C11_absorbed_computed.
Print Assumptions VacLive.C11_fired_is_io_fails_absorbed.
Print Assumptions VacLive.C11_absorbed_eof_only_first_read_inst.
Print Assumptions VacLive2.C13_no_trace_inst.
Print Assumptions VacLive2.C13_zero_bytes_inst.
Print Assumptions VacLive2.C13_shapes_complete_inst.
Print Assumptions VacLive2.C13_erasable_inst.
Print Assumptions VacLive2.C13_world_unchanged_inst.
Print Assumptions VacLive2.C14_step_policy_independent_inst.
Print Assumptions VacLive2.C14_run_policy_independent_inst.
Print Assumptions VacLive2.C14_drop_policy_independent_inst.
Print Assumptions VacLive2.C14_restart_policy_independent_inst.
Print Assumptions VacLive2.C14_open_ok_seqw_inst.
Print Assumptions VacLive2.C15_record_count_generic_inst.
Print Assumptions VacLive2.C15_bytes_exact_inst.
Print Assumptions VacLive2.C15_zero_iff_inst.
Print Assumptions VacLive2.C15_bytes_in_write_events_inst.
Print Assumptions VacLive2.C15_running_sum_inst.
Print Assumptions VacLive2.C16_used_exact_inst.
Print Assumptions VacLive2.C16_used_bounds_inst.
Print Assumptions VacLive2.C16_truncate_releases_inst.
Print Assumptions VacLive2.C16_baseline_when_empty_inst.
Print Assumptions VacLive2.C16_buffer_is_retained_payload_inst.
Print Assumptions VacLive2.C17_parse_print_inst.
Print Assumptions VacLive2.C17_parse_exact_inst.
Print Assumptions VacLive2.C17_filename_inj_inst.
Print Assumptions VacLive2.C17_foreign_never_named_inst.
Print Assumptions VacLive2.C17_step_events_wal_named_inst.
Print Assumptions VacLive2.C17_step_foreign_untouched_inst.
Print Assumptions VacLive2.C17_drop_foreign_untouched_inst.
Print Assumptions VacLive2.C17_open_foreign_untouched_inst.
Print Assumptions VacLive2.C17_run_foreign_untouched_inst.
Print Assumptions VacLive2.C17_listing_sound_inst.
Print Assumptions VacLive2.C17_unparsed_untouched_inst.
Print Assumptions VacLive2.C18_spec_projection_inst.
Print Assumptions VacLive2.C18_log_projection_inst.
Print Assumptions VacLive2.C18_log_step_other_inst.
Print Assumptions VacLive2.C18_replay_other_untouched_inst.
Print Assumptions VacCrc.T8_collides.
Print Assumptions VacCrc.crc32_zero_collision.
Print Assumptions VacCrc.crc32_refutes_nzc.
Print Assumptions VacCrc.crc32_refutes_nzc_bounded.
Print Assumptions VacCrc.crash_counterexample.
Print Assumptions VacCrc.C02_conclusion_false_for_crc32.
Print Assumptions VacCrc.production_params.

(* ======================================================================================
   COVERAGE TABLE   theorem -> covering instance (new, in Vac*.v, unless another file is named)
   "params" = only the parameter premises (7 < BS <= 65542, 1 <= NB, crcf < 2^32, L_* = false):
   satisfied by RestartFinal.Example.Px (constant checksum), CrashExample.Pe / VacStream.Ps (CRC-32).
   "-" = no premise at all.
   --------------------------------------------------------------------------------------
   PropC01
    C01_restart_identity            VacRestart.C01_restart_identity_inst (= RestartFinal.Example.C01_ex)
    C01_history_spec                VacRestart.C01_history_spec_inst
    C01_inv_reopen                  VacRestart.C01_inv_reopen_premises_satisfiable, _inst
    C01_no_io_needed                VacRestart.C01_step_premises_satisfiable, C01_no_io_needed_inst
    C01_inv_step                    VacRestart.C01_inv_step_inst
    C01_inv_fresh                   VacRestart.C01_inv_fresh_inst
    C01_instrumentation_erases      -
    C01_live_is_replay              VacRestart.C01_live_is_replay_inst
    C01_history_is_replay           VacRestart.C01_history_is_replay_inst
    C01_logged_entries_roundtrip    VacRestart.C01_logged_entries_roundtrip_inst
    C01_replay_refines_spec         VacRestart.C01_replay_refines_spec_inst (non-empty state)
    C01_suffix_simulation           VacRestart.C01_suffix_simulation_inst (ReplaySpec.ex_legal)
    C01_suffix_is_list_suffix       VacRestart.C01_suffix_is_list_suffix_inst
    C01_covered_suffix_equal        VacRestart.C01_covered_suffix_equal_inst
    C01_model_covered_suffix_equal  VacRestart.C01_model_covered_suffix_equal_inst (= ReplaySpec.ex_equal)
    C01_example                     -
   PropC02
    C02_crash_atomic                VACUOUS (no_zero_collision); all other premises:
                                    VacCrash.C02_crash_atomic_other_premises_satisfiable;
                                    conclusion FALSE for crc32: VacCrc.C02_conclusion_false_for_crc32
    C02_history                     VACUOUS (idem); VacCrash.C02_history_other_premises_satisfiable
    C02_call_entries_atomic         VacCrash.C02_call_entries_atomic_inst
    C02_torn_read                   VacStream.C02_torn_read_premises_satisfiable, _inst
    C02_torn_read_nocoll            VACUOUS (idem); other premises = those of C02_torn_read
    C02_torn_read_written           VacStream.C02_torn_read_written_inst
    C02_torn_resume                 VacStream.C02_torn_resume_inst
    C02_torn_then_append            VacStream.C02_torn_then_append_inst
    C02_one_call_one_logged_suffix  -
    C02_call_trace                  VacCrash.C02_call_trace_inst
    C02_crash_image_shape           VacCrash.C02_crash_image_shape_inst
    C02_open_torn                   VACUOUS (idem); VacFiles.open_torn_other_premises_satisfiable
                                    (lo > base, short last file, cut inside a frame)
   PropC03   (all in VacLive)
    C03_fsync_durable _inst; C03_power_loss_keeps_synced_prefix _inst; C03_flush_in_os _inst;
    C03_flush_bytes _inst; C03_other_files_synced _inst; C03_unlinks_after_sync _inst (3 unlinks);
    C03_unlink_guarded _inst; C03_no_write_between _inst (a trace with unlinks);
    C03_open_establishes _inst; C03_policy_independent_content _inst
   PropC04
    C04_spec_next_monotone, C04_log_positions_fresh, C04_log_lasts_increasing, C04_append_fresh,
    C04_truncate_next, C04_after_truncate, C04_step_positions           VacLive.<name>_inst
                                    (also QueueIso.QueueIso_nonvacuous / QueueIso_applied)
    C04_positions_fresh_with_restarts  VacRestart._inst (= ExampleCorollaries.positions_fresh_ex)
    C04_after_truncate_with_restarts   VacRestart._inst
    C04_restart_keeps_next             VacRestart._inst
    C04_next_position_survives_restart VacRestart._inst
   PropC05   VacLive.C05_{refines,run_refines,open_establishes_inv,range_all_bounds,last_record,
             ring,past_only_guard}_inst; C05_last_position: -; C05_nonvacuous: -
   PropC06   VacLive.C06_{gc_loop,contiguous_preserved,tight,disk_used,directory_is_tracker,
             gc_no_err,handles_cover_records,unreferenced_file_is_empty,live_handles,
             attrs_ge_first_kept}_inst (HandleProofs.ex_attr for the handle theorems)
   PropC07   VacStream.C07_{roundtrip_mem,write_count,entry_codec,batch_codec}_inst
             (C07_write_never_fails: params, used in C07_write_count_inst);
             VacFiles.C07_{roundtrip_files,restart_continues_stream,reader_is_stream_reader}_inst
   PropC08   C08_positions_increasing_any_directory VacLive._inst; C08_entry_deser_sound,
             C08_append_deser_exact, C08_detected_damage_subsequence VacStream._inst (real damage);
             C08_replay_inserts_only_entry_records VacLive._inst;
             C08_open_damaged_replays_only_written VacFiles._inst (real damage, lo > base)
   PropC09   C09_damage_costs_one_entry VacDamage._premises_satisfiable, _inst;
             C09_from_fresh VacDamage._inst (= DamageAtomic.Example.C09_ex);
             C09_damaged_dir_exists used in VacDamage; C09_bad_crc_frame, C09_one_damaged_entry,
             C09_general, C09_damage_exists VacStream; C09_open_one_damaged, C09_open_damaged VacFiles;
             C09_replay_tolerates_lost_entry, C09_deletion_replay_some VacLive (DeletionSim dx examples)
   PropC10   VacLive.C10_{open_terminates,fuel_bound,fuel_irrelevant,result_wellformed}_inst
   PropC11   VacLive.C11_{ok_means_not_fired,corruption_means_not_fired,fired_is_io}_inst (plans
             reportable: plan_{far,hit}_reportable); the excluded plans (site Read, kind
             UnexpectedEof): VacLive.C11_absorbed_computed, C11_fired_is_io_fails_absorbed,
             C11_absorbed_first_read_computed, C11_absorbed_eof_only_first_read_inst
   PropC12   C12_batch_decodes_whole, C12_multi_parse_sound, C12_append_entry_roundtrip,
             C12_damaged_entry_dropped_whole VacStream; C12_apply_all_or_nothing VacLive;
             C12_open_damaged VacFiles; C12_torn_entry_all_or_nothing, C12_open_torn: VACUOUS
             (no_zero_collision), other premises as C02_torn_read / C02_open_torn
   PropC13   VacLive2.C13_{no_trace,zero_bytes,shapes_complete,erasable,world_unchanged}_inst
   PropC14   VacLive2.C14_{step,run,drop,restart}_policy_independent_inst, C14_open_ok_seqw_inst;
             C14_open_policy_independent: -
   PropC15   VacLive2.C15_{record_count_generic,bytes_exact,zero_iff,bytes_in_write_events,
             running_sum}_inst
   PropC16   VacLive2.C16_{used_exact,used_bounds,truncate_releases,baseline_when_empty,
             buffer_is_retained_payload}_inst
   PropC17   VacLive2.C17_{parse_print,parse_exact,filename_inj,foreign_never_named,
             step_events_wal_named,step_foreign_untouched,drop_foreign_untouched,
             open_foreign_untouched,run_foreign_untouched,listing_sound,unparsed_untouched}_inst;
             C17_bad_shape_foreign used (foreign_s); C17_name_length, C17_open_events_wal_named,
             C17_listing_sorted: -
   PropC18   C18_spec_projection, C18_log_projection, C18_log_step_other,
             C18_replay_other_untouched VacLive2; C18_projection_with_restarts,
             C18_others_and_restarts_invisible VacRestart
   ====================================================================================== *)
