(* PropC07.v — C07: entries of any size round-trip at any block or file alignment (in-memory record log and the rolling WAL files; every block size 7 < B <= 65542, any number of blocks per file, any checksum function).
   Statements only; each theorem is closed by `exact <lemma>`; proofs live in the imported files. *)
From Coq Require Import Lia NArith List.
From MRL Require Import Bytes Params Names Frame Record Mem Rolling Log Driver StreamProofs RecordProofs FileStream.

(* any list of entries of any sizes: read back identical and in order, then end of log; no fuel exhausted; byte counts add up to the stream length *)
Theorem C07_roundtrip_mem :
    forall P : params,
    7 < BS P ->
    BS P <= 65542 ->
    (forall (t : byte) (p : bytes), crcf P t p < 2 ^ 32) ->
    forall entries : list bytes,
    exists (ns : list N) (written : bytes),
    mem_roundtrip P entries = (ns, written, map MrEntry entries ++ [MrEnd]) /\
    length ns = length entries /\ fold_right N.add 0 ns = lenN written.
Proof. exact mem_roundtrip_ok. Qed.
Print Assumptions C07_roundtrip_mem.

(* the writer loop terminates and never fails *)
Theorem C07_write_never_fails :
    forall P : params,
    7 < BS P ->
    BS P <= 65542 ->
    (forall (t : byte) (p : bytes), crcf P t p < 2 ^ 32) ->
    forall (w : vecw) (p : bytes),
    exists (w' : vecw) (n : N), write_record P vecw vw_write (vw_rem P) w p = (w', Ok n).
Proof. exact write_record_never_fails. Qed.
Print Assumptions C07_write_never_fails.

(* the count returned is the growth of the stream *)
Theorem C07_write_count :
    forall P : params,
    7 < BS P ->
    BS P <= 65542 ->
    (forall (t : byte) (p : bytes), crcf P t p < 2 ^ 32) ->
    forall (w : vecw) (p : bytes) (w' : vecw) (n : N),
    write_record P vecw vw_write (vw_rem P) w p = (w', Ok n) ->
    vw_cursor w' = vw_cursor w + n /\ (exists e : list byte, vw_buf w' = vw_buf w ++ e /\ lenN e = n).
Proof. exact write_record_count. Qed.
Print Assumptions C07_write_count.

(* the entry codec on top: every well-formed entry decodes to itself *)
Theorem C07_entry_codec :
    forall e : entry, wf_entry e -> entry_deser (entry_ser e) = Some e.
Proof. exact entry_roundtrip. Qed.
Print Assumptions C07_entry_codec.

(* and every batch of records *)
Theorem C07_batch_codec :
    forall recs : list (N * bytes),
    Forall wf_rec recs -> multi_parse (multi_fuel (multi_ser recs)) (multi_ser recs) = Some recs.
Proof. exact multi_roundtrip. Qed.
Print Assumptions C07_batch_codec.

(* through the rolling files, from a fresh directory: writing never fails, returns the same byte counts as the in-memory writer; after a clean drop the rolling reader returns exactly the entries, in order, then end of log; the writer rebuilt from the reader has the same files, the same current file and the same offset up to the zero padding the writer would emit anyway (entries spanning several blocks and files included; total size below 2^64 files) *)
Theorem C07_roundtrip_files :
    forall P : params,
    7 < BS P ->
    BS P <= 65542 ->
    1 <= NB P ->
    (forall (t : byte) (p : bytes), crcf P t p < 2 ^ 32) ->
    forall (pol : policy) (st0 : state) (es : list bytes),
    open P [] None pol [] = OpenOk st0 ->
    vw_cursor (fst (mem_write_all P {| vw_cursor := 0; vw_buf := [] |} es)) <= MAXLEN P ->
    exists w' : rwriter,
    file_write_all P (s_wr st0) es =
    (w', Ok (snd (mem_write_all P {| vw_cursor := 0; vw_buf := [] |} es))) /\
    (forall (qs : queues) (pol' : policy),
    let fs' := c_fs (drop_log {| s_wr := w'; s_qs := qs; s_pol := pol' |}) in
    exists (c : ioctx) (rd : rreaderS),
    rd_open P (ctx_init fs' None) = (c, Ok rd) /\
    (forall fuel gofuel : nat,
    (length es < fuel)%nat ->
    lenN (w_files w') * FILE_BYTES P <= 7 * N.of_nat gofuel ->
    exists rr : rreader rreaderS,
    file_read_all P fuel gofuel (rr_open rreaderS rd) = (map FrEntry es ++ [FrEnd], rr) /\
    (let wr := rd_into_writer P (fr_rd (rr_fr rr)) (fr_cursor (rr_fr rr)) in
    w_files wr = w_files w' /\
    w_file wr = w_file w' /\
    w_off wr = norm_off P (w_off w') /\
    w_pending wr = [] /\ c_fs (w_ctx wr) = fs' /\ c_plan (w_ctx wr) = None))).
Proof. exact file_roundtrip. Qed.
Print Assumptions C07_roundtrip_files.

(* the rolling reader over full-size files is the block reader over their concatenation *)
Theorem C07_reader_is_stream_reader :
    forall P : params,
    0 < BS P ->
    1 <= NB P ->
    forall (fs : fsT) (files : list N),
    Sorted.StronglySorted N.lt files ->
    (forall n : N,
    In n files -> exists b : bytes, fs_get fs (filename n) = Some (FFile b) /\ lenN b = FILE_BYTES P) ->
    forall (r : rreaderS) (v : vecr),
    rd_rel P fs files r v ->
    snd (rd_next P r) = snd (vr_next P v) /\ rd_rel P fs files (fst (rd_next P r)) (fst (vr_next P v)).
Proof. exact rd_next_sim. Qed.
Print Assumptions C07_reader_is_stream_reader.

(* after the restart the writer continues the same stream *)
Theorem C07_restart_continues_stream :
    forall P : params,
    7 < BS P ->
    BS P <= 65542 ->
    1 <= NB P ->
    (forall (t : byte) (p : bytes), crcf P t p < 2 ^ 32) ->
    forall (pol : policy) (st0 : state) (es : list bytes),
    open P [] None pol [] = OpenOk st0 ->
    vw_cursor (fst (mem_write_all P {| vw_cursor := 0; vw_buf := [] |} es)) <= MAXLEN P ->
    exists (w' : rwriter) (c : ioctx) (rd : rreaderS),
    file_write_all P (s_wr st0) es =
    (w', Ok (snd (mem_write_all P {| vw_cursor := 0; vw_buf := [] |} es))) /\
    rd_open P (ctx_init (PolicyProofs.vfs w') None) = (c, Ok rd) /\
    (forall fuel gofuel : nat,
    (length es < fuel)%nat ->
    lenN (w_files w') * FILE_BYTES P <= 7 * N.of_nat gofuel ->
    exists rr : rreader rreaderS,
    file_read_all P fuel gofuel (rr_open rreaderS rd) = (map FrEntry es ++ [FrEnd], rr) /\
    (let wr := rd_into_writer P (fr_rd (rr_fr rr)) (fr_cursor (rr_fr rr)) in
    let v' := fst (mem_write_all P {| vw_cursor := 0; vw_buf := [] |} es) in
    let pad := norm_off P (w_off w') - w_off w' in
    wsim' P (MAXLEN P) wr {| vw_cursor := vw_cursor v' + pad; vw_buf := vw_buf v' ++ zerosN pad |})).
Proof. exact file_roundtrip_reopen. Qed.
Print Assumptions C07_restart_continues_stream.

