(* PropC07.v — C07: entries of any size round-trip at any block alignment (in-memory record log, every block size 7 < B <= 65542, any checksum function).
   Statements only; each theorem is closed by `exact <lemma>`; proofs live in the imported files. *)
From Coq Require Import Lia NArith List.
From MRL Require Import Bytes Params Frame Driver StreamProofs RecordProofs.

(* any list of entries of any sizes: read back identical and in order, then end of log; no fuel exhausted; byte counts add up to the stream length *)
Theorem C07_roundtrip_mem :
    forall P : params,
    7 < BS P ->
    BS P <= 65542 ->
    (forall (t : byte) (p : bytes), crcf P t p < 2 ^ 32) ->
    forall entries : list bytes,
    exists (ns : list N) (written : bytes),
    mem_roundtrip P entries = (ns, written, map MrEntry entries ++ [MrEnd]) /\
    length ns = length entries /\ fold_right N.add 0 ns = lenN written.
Proof. exact mem_roundtrip_ok. Qed.
Print Assumptions C07_roundtrip_mem.

(* the writer loop terminates and never fails *)
Theorem C07_write_never_fails :
    forall P : params,
    7 < BS P ->
    BS P <= 65542 ->
    (forall (t : byte) (p : bytes), crcf P t p < 2 ^ 32) ->
    forall (w : vecw) (p : bytes),
    exists (w' : vecw) (n : N), write_record P vecw vw_write (vw_rem P) w p = (w', Ok n).
Proof. exact write_record_never_fails. Qed.
Print Assumptions C07_write_never_fails.

(* the count returned is the growth of the stream *)
Theorem C07_write_count :
    forall P : params,
    7 < BS P ->
    BS P <= 65542 ->
    (forall (t : byte) (p : bytes), crcf P t p < 2 ^ 32) ->
    forall (w : vecw) (p : bytes) (w' : vecw) (n : N),
    write_record P vecw vw_write (vw_rem P) w p = (w', Ok n) ->
    vw_cursor w' = vw_cursor w + n /\ (exists e : list byte, vw_buf w' = vw_buf w ++ e /\ lenN e = n).
Proof. exact write_record_count. Qed.
Print Assumptions C07_write_count.

(* the entry codec on top: every well-formed entry decodes to itself *)
Theorem C07_entry_codec :
    forall e : Record.entry, wf_entry e -> Record.entry_deser (Record.entry_ser e) = Some e.
Proof. exact entry_roundtrip. Qed.
Print Assumptions C07_entry_codec.

(* and every batch of records *)
Theorem C07_batch_codec :
    forall recs : list (N * bytes),
    Forall wf_rec recs ->
    Record.multi_parse (Record.multi_fuel (Record.multi_ser recs)) (Record.multi_ser recs) = Some recs.
Proof. exact multi_roundtrip. Qed.
Print Assumptions C07_batch_codec.

