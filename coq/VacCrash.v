(* VacCrash.v — vacuity audit, part 2: the Inv-based theorems of PropC02.
   Instance: CrashAtomic.CrashExample (BS = 32, NB = 2, the real CRC-32): a history with
   roll-overs and a restart under PAlways true, then a truncate whose GC writes two position
   entries and unlinks four files.
   C02_crash_atomic and C02_history also assume TornProofs.no_zero_collision, which is
   inconsistent with the 32-bit checksum bound (NzcVacuous.nzc_inconsistent - known, being
   repaired): for these two we show that ALL THE OTHER premises are jointly satisfiable. *)
From Coq Require Import Lia ZArith ZifyN ZifyNat ZifyBool List.
From MRL Require Import Bytes BytesProofs Params Names Frame Record Mem Spec Rolling Log Driver Hist
  WriterProofs SpecRefine RecordProofs StreamProofs ResyncProofs GhostLog ReplaySpec
  RestartInv RestartWrite RestartStep OpenReplay RestartFinal CrashTrace CrashAtomic VacBase.
From MRL Require PropC02.
Import ListNotations.
Import CrashAtomic.CrashExample.

Arguments N.add : simpl never.
Arguments N.sub : simpl never.
Arguments N.mul : simpl never.
Arguments N.eqb : simpl never.
Arguments N.ltb : simpl never.
Arguments N.leb : simpl never.
Arguments N.div : simpl never.
Arguments N.modulo : simpl never.

Lemma Pe_BS_lo : 7 < BS Pe. Proof. reflexivity. Qed.
Lemma Pe_BS_hi : BS Pe <= 65542. Proof. intros H; discriminate H. Qed.
Lemma Pe_NB : 1 <= NB Pe. Proof. intros H; discriminate H. Qed.
Lemma Pe_crc : forall t p, crcf Pe t p < 2 ^ 32.
Proof.
  intros t p. cbn [Pe crcf]. unfold Crc.crc32. change 4294967295 with (N.ones 32).
  rewrite N.land_ones. apply N.mod_lt. discriminate.
Qed.

(* crash_phys_bound from a computation *)
Lemma crash_phys_bound_by (P : params) (H1 : 7 < BS P) (H2 : BS P <= 65542) (H3 : 1 <= NB P)
      (H4 : forall t p, crcf P t p < 2 ^ 32) K w X m :
  enc_len_ok P K (map pos_ser (map fst m)) = true ->
  cursor_after P (wabs P w) (map entry_ser X) + BS P + K * N.of_nat (length m)
    <= FILE_BYTES P * (U64_MAX + 1) ->
  crash_phys_bound P w X m.
Proof.
  intros HK Hb c extra Hx _ Hc.
  pose proof (pos_extra_bound P H1 H2 H3 H4 m K c extra HK Hx). lia.
Qed.

Ltac wf_tac :=
  cbn [op_wf_strict];
  repeat match goal with
         | |- _ /\ _ => split
         | |- Forall _ _ => repeat constructor
         | |- name_ok _ => split; vm_compute; reflexivity
         | |- forall m, qs_get _ _ = Some m -> _ =>
             let m := fresh "m" in let H := fresh "H" in
             intros m H; vm_compute in H; injection H as <-; vm_compute; reflexivity
         | |- _ < _ => vm_compute; reflexivity
         | |- True => exact I
         end.
Ltac le_tac := vm_compute; let H := fresh in intro H; discriminate H.
Ltac bound_tac := unfold phys_bound; le_tac.
Ltac call_tac := eapply hist_ok_call; [vm_compute; reflexivity | wf_tac | bound_tac | ].

(* ---------- the history of CrashExample satisfies hist_ok / always_hist ---------- *)
Lemma open_st0 : open Pe [] None (PAlways true) [] = OpenOk st0.
Proof. vm_compute. reflexivity. Qed.

Definition outs_ex : list outcome :=
  Eval vm_compute in match hrun Pe st0 h_ex with Some (_, o) => o | None => [] end.
Lemma hrun_ex : hrun Pe st0 h_ex = Some (st_ex, outs_ex).
Proof. vm_compute. reflexivity. Qed.

Lemma hist_ok_ex : hist_ok Pe st0 h_ex.
Proof.
  unfold h_ex.
  call_tac. call_tac. call_tac. call_tac. call_tac.
  eapply hist_ok_restart; [vm_compute; reflexivity| |].
  { apply (restart_bound_by Pe Pe_BS_lo Pe_BS_hi Pe_NB Pe_crc 64); [vm_compute; reflexivity|le_tac]. }
  call_tac. exact I.
Qed.

Lemma always_ex : always_hist true h_ex.
Proof. cbn. auto. Qed.

Lemma inv_ex : exists G, Inv Pe st_ex G /\ gh_base G = 0.
Proof.
  pose proof (inv_fresh Pe Pe_BS_lo Pe_BS_hi Pe_NB (PAlways true) st0 open_st0) as HI0.
  destruct (hrun_inv Pe Pe_BS_lo Pe_BS_hi Pe_NB Pe_crc eq_refl eq_refl h_ex st0 gh_fresh
              HI0 hist_ok_ex) as (st' & outs & G & Er & HI & Eb & _).
  rewrite hrun_ex in Er. injection Er as <- <-. exists G. split; [exact HI|exact Eb].
Qed.

(* ---------- the call in flight: truncate(qa, ..=6), GC hint [qb] ---------- *)
Definition o_cr : op := OTruncate qa 6 [qb].
Definition st_cr : state := Eval vm_compute in fst (step Pe st_ex o_cr false).
Definition out_cr : outcome := Eval vm_compute in snd (step Pe st_ex o_cr false).
Lemma step_cr : step Pe st_ex o_cr false = (st_cr, out_cr).
Proof. vm_compute. reflexivity. Qed.

Example cr_shape :
  out_cr = OutTruncate 5 67 /\ w_files (s_wr st_ex) = [0; 1; 2; 3; 4] /\ w_files (s_wr st_cr) = [4; 5] /\
  map snd (step_log Pe st_ex o_cr) = [ETruncate qa 6; EPosition qb 0; EPosition qa 7] /\
  abs_qs (s_qs st_cr) = [(qa, ([], 7)); (qb, ([], 0))].
Proof. vm_compute. repeat split; reflexivity. Qed.

Lemma op_wf_cr : op_wf_strict (s_qs st_ex) o_cr.
Proof. unfold o_cr. wf_tac. Qed.
Lemma no_io_cr : forall e, out_cr <> OutIo e.
Proof. intros e H. discriminate H. Qed.

Lemma crash_phys_before :
  crash_phys_bound Pe (s_wr st_ex) (map snd (step_log Pe st_ex o_cr)) (abs_qs (s_qs st_ex)).
Proof.
  apply (crash_phys_bound_by Pe Pe_BS_lo Pe_BS_hi Pe_NB Pe_crc 64); [vm_compute; reflexivity|le_tac].
Qed.
Lemma crash_phys_after :
  crash_phys_bound Pe (s_wr st_ex) (map snd (step_log Pe st_ex o_cr)) (abs_qs (s_qs st_cr)).
Proof.
  apply (crash_phys_bound_by Pe Pe_BS_lo Pe_BS_hi Pe_NB Pe_crc 64); [vm_compute; reflexivity|le_tac].
Qed.

(* C02_crash_atomic: every premise except no_zero_collision *)
Lemma C02_crash_atomic_other_premises_satisfiable :
  exists G,
    Inv Pe st_ex G /\ w_pending (s_wr st_ex) = [] /\ s_pol st_ex = PAlways true /\
    op_wf_strict (s_qs st_ex) o_cr /\
    RestartWrite.stream_bound Pe G (map snd (step_log Pe st_ex o_cr)) /\
    crash_bound Pe G (map snd (step_log Pe st_ex o_cr)) (abs_qs (s_qs st_ex)) /\
    crash_bound Pe G (map snd (step_log Pe st_ex o_cr)) (abs_qs (s_qs st_cr)) /\
    step Pe st_ex o_cr false = (st_cr, out_cr) /\ (forall e, out_cr <> OutIo e).
Proof.
  destruct inv_ex as (G & HI & _). exists G.
  pose proof (crash_phys_bound_ghost Pe Pe_BS_lo Pe_BS_hi Pe_NB Pe_crc _ G _ _ (proj1 HI)
                crash_phys_before) as Hb1.
  pose proof (crash_phys_bound_ghost Pe Pe_BS_lo Pe_BS_hi Pe_NB Pe_crc _ G _ _ (proj1 HI)
                crash_phys_after) as Hb2.
  split; [exact HI|]. split; [reflexivity|]. split; [reflexivity|]. split; [exact op_wf_cr|].
  split; [exact (crash_bound_stream_bound Pe Pe_BS_lo Pe_BS_hi Pe_NB Pe_crc _ _ _ Hb1)|].
  split; [exact Hb1|]. split; [exact Hb2|]. split; [exact step_cr|exact no_io_cr].
Qed.

(* C02_history: every premise except no_zero_collision *)
Lemma C02_history_other_premises_satisfiable :
  open Pe [] None (PAlways true) [] = OpenOk st0 /\
  hrun Pe st0 h_ex = Some (st_ex, outs_ex) /\ hist_ok Pe st0 h_ex /\ always_hist true h_ex /\
  op_wf_strict (s_qs st_ex) o_cr /\
  crash_phys_bound Pe (s_wr st_ex) (map snd (step_log Pe st_ex o_cr)) (abs_qs (s_qs st_ex)) /\
  crash_phys_bound Pe (s_wr st_ex) (map snd (step_log Pe st_ex o_cr)) (abs_qs (s_qs st_cr)) /\
  step Pe st_ex o_cr false = (st_cr, out_cr).
Proof.
  split; [exact open_st0|]. split; [exact hrun_ex|]. split; [exact hist_ok_ex|].
  split; [exact always_ex|]. split; [exact op_wf_cr|]. split; [exact crash_phys_before|].
  split; [exact crash_phys_after|exact step_cr].
Qed.
(* (the conclusion of both, for this very call, is checked by computation on all 83 crash images
   in CrashAtomic.CrashExample.crash_census_ex) *)

(* C02_call_entries_atomic: the three entries of the call split as [truncate] ++ [pos b; pos a] *)
Example C02_call_entries_atomic_inst :
  exists G qs',
    replay_entries [] (combine (repeat 0 (length (gh_E G) + 1))
                               (map snd (gh_E G) ++ [ETruncate qa 6])) = Some qs' /\
    forall q, s_get (abs_qs qs') q = s_get (abs_qs (s_qs st_cr)) q.
Proof.
  destruct C02_crash_atomic_other_premises_satisfiable as (G & HI & _ & _ & Hop & Hsb & _ & _ & Hs & Hno).
  destruct (PropC02.C02_call_entries_atomic Pe Pe_BS_lo Pe_BS_hi Pe_NB Pe_crc eq_refl st_ex G o_cr
              false st_cr out_cr HI Hop Hsb Hs Hno [ETruncate qa 6] [EPosition qb 0; EPosition qa 7]
              ltac:(vm_compute; reflexivity) (repeat 0 (length (gh_E G) + 1))
              ltac:(rewrite repeat_length; reflexivity))
    as (qs' & Hr & _ & _ & _ & Ha).
  exists G, qs'. split; [exact Hr|]. apply Ha. discriminate.
Qed.

(* C02_call_trace / C02_crash_image_shape *)
Example C02_call_trace_inst :
  exists evs,
    c_ev (w_ctx (s_wr st_cr)) = rev evs ++ c_ev (w_ctx (s_wr st_ex)) /\
    c_fs (w_ctx (s_wr st_cr)) = fold_left apply_event evs (c_fs (w_ctx (s_wr st_ex))) /\
    w_pending (s_wr st_cr) = [].
Proof.
  destruct C02_crash_atomic_other_premises_satisfiable as (G & HI & Hp & Hpol & Hop & Hsb & _ & _ & Hs & Hno).
  destruct (PropC02.C02_call_trace Pe Pe_BS_lo Pe_BS_hi Pe_NB Pe_crc eq_refl st_ex G true o_cr
              false st_cr out_cr HI Hp Hpol Hsb Hs Hno) as (evs & H1 & H2 & _ & H4).
  exists evs. auto.
Qed.

Example C02_crash_image_shape_inst :
  exists evs,
    c_ev (w_ctx (s_wr st_cr)) = rev evs ++ c_ev (w_ctx (s_wr st_ex)) /\
    forall cut k, GcProofs.nodup_keys (fold_left apply_event (crash_events evs cut k)
                                                 (c_fs (w_ctx (s_wr st_ex)))).
Proof.
  destruct C02_crash_atomic_other_premises_satisfiable as (G & HI & Hp & Hpol & Hop & Hsb & _ & _ & Hs & Hno).
  destruct (PropC02.C02_crash_image_shape Pe Pe_BS_lo Pe_BS_hi Pe_NB Pe_crc eq_refl st_ex G true o_cr
              false st_cr out_cr HI Hp Hpol Hop Hsb Hs Hno) as (evs & H1 & _ & _ & Hall).
  exists evs. split; [exact H1|]. intros cut k.
  destruct (Hall cut k) as (nu & hi & short & z & _ & _ & _ & _ & Hnd & _). exact Hnd.
Qed.
