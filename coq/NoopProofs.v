(* NoopProofs.v — property C13: rejected and no-op calls leave no trace. *)
From Coq Require Import Lia ZArith ZifyN ZifyNat ZifyBool.
From MRL Require Import Bytes BytesProofs Params Names Frame Record Mem Rolling Log Driver.
From MRL Require Export Hist.

Arguments N.add : simpl never.
Arguments N.eqb : simpl never.
Arguments N.ltb : simpl never.

Section WithParams.
Variable P : params.

(* the seven shapes of a rejected or acknowledged-no-op call, with the outcome the API reports *)
Inductive noop_call (st : state) : op -> outcome -> Prop :=
| NoopCreateExisting q :
    qs_contains (s_qs st) q = true -> noop_call st (OCreate q) OutAlreadyExists
| NoopDeleteMissing q hint :
    qs_get (s_qs st) q = None -> noop_call st (ODelete q hint) OutMissing
| NoopAppendMissing q pos payloads :
    qs_get (s_qs st) q = None -> noop_call st (OAppend q pos payloads) OutMissing
| NoopTruncateMissing q p hint :
    qs_get (s_qs st) q = None -> noop_call st (OTruncate q p hint) OutMissing
| NoopRetry q m p payloads :
    qs_get (s_qs st) q = Some m -> p + 1 = next_position m ->
    noop_call st (OAppend q (Some p) payloads) (OutAppend None 0)
| NoopPast q m p payloads :
    qs_get (s_qs st) q = Some m -> p + 1 < next_position m ->
    noop_call st (OAppend q (Some p) payloads) OutPast
| NoopEmptyBatch q m pos :
    qs_get (s_qs st) q = Some m ->
    (match pos with Some p => next_position m <= p | None => True end) ->
    noop_call st (OAppend q pos []) (OutAppend None 0).

(* the call returns the very same state: file contents, buffered bytes, trace, cursor, queues *)
Theorem noop_same_state : forall st o out tick,
  noop_call st o out -> step P st o tick = (st, out).
Proof.
  intros st o out tick H. destruct H as
    [q Hq | q hint Hq | q pos payloads Hq | q p hint Hq | q m p payloads Hq Hp
     | q m p payloads Hq Hp | q m pos Hq Hp]; cbn [step].
  - unfold create_queue. now rewrite Hq.
  - unfold delete_queue. now rewrite Hq.
  - unfold append_records. now rewrite Hq.
  - unfold truncate. now rewrite Hq.
  - unfold append_records. rewrite Hq.
    destruct (N.eqb_spec (p + 1) (next_position m)) as [_|Hne]; [reflexivity|contradiction].
  - unfold append_records. rewrite Hq.
    destruct (N.eqb_spec (p + 1) (next_position m)) as [He|_]; [lia|].
    destruct (N.ltb_spec p (next_position m)) as [_|Hge]; [reflexivity|lia].
  - unfold append_records. rewrite Hq. destruct pos as [p|]; [|reflexivity].
    destruct (N.eqb_spec (p + 1) (next_position m)) as [He|_]; [lia|].
    destruct (N.ltb_spec p (next_position m)) as [Hlt|_]; [lia|reflexivity].
Qed.


Theorem noop_zero_bytes : forall st o out,
  noop_call st o out -> outcome_bytes out = Some 0 \/ outcome_bytes out = None.
Proof. intros st o out H; destruct H; cbn; auto. Qed.

Lemma append_record_next m f p x :
  next_position m <= p ->
  exists m', append_record m f p x = Some m' /\ next_position m' = p + 1.
Proof.
  intros H. unfold append_record. destruct (N.ltb_spec p (next_position m)) as [Hlt|_]; [lia|].
  eexists; split; [reflexivity|]. unfold next_position. cbn [q_metas]. now rewrite last_opt_app.
Qed.

Lemma append_all_some : forall r m f p,
  next_position m <= p -> exists m', append_all m f (number_from p r) = Some m'.
Proof.
  induction r as [|x r IH]; intros m f p H; cbn [number_from append_all].
  - eexists; reflexivity.
  - destruct (append_record_next m f p x H) as (m1 & -> & Hn). apply IH. lia.
Qed.

(* conversely: a call that the API rejects or acknowledges as a no-op is one of the shapes
   — so the seven shapes are all the rejected / no-op calls there are *)
Definition rejected_or_noop (o : outcome) : Prop :=
  match o with
  | OutAlreadyExists | OutMissing | OutPast | OutAppend None _ => True
  | _ => False
  end.

Theorem rejected_is_noop_call : forall st o tick,
  rejected_or_noop (snd (step P st o tick)) -> exists out, noop_call st o out.
Proof.
  intros st o tick H. destruct o as [q | q hint | q pos payloads | q p hint | fs]; cbn [step] in H.
  - unfold create_queue in H. destruct (qs_contains (s_qs st) q) eqn:E.
    + eexists; now apply NoopCreateExisting.
    + destruct (write_entry P st (EPosition q 0)) as [st1 [n|e]]; cbn in H; contradiction.
  - unfold delete_queue in H. destruct (qs_get (s_qs st) q) as [m|] eqn:E.
    + destruct (write_entry P st _) as [st1 [n|e]]; cbn in H; [|contradiction].
      destruct (run_gc_if_necessary P _ hint) as [st3 [k|e]]; cbn in H; contradiction.
    + eexists; now apply NoopDeleteMissing.
  - revert H. unfold append_records. destruct (qs_get (s_qs st) q) as [m|] eqn:E.
    2:{ intros _. eexists; now apply NoopAppendMissing. }
    destruct pos as [p|].
    + destruct (N.eqb_spec (p + 1) (next_position m)) as [He|Hne].
      { intros _. eexists; eapply NoopRetry; eauto. }
      destruct (N.ltb_spec p (next_position m)) as [Hlt|Hge].
      { intros _. eexists; eapply NoopPast; eauto. lia. }
      destruct payloads as [|x r].
      { intros _. eexists; eapply NoopEmptyBatch; eauto. }
      destruct (append_all_some (x :: r) m (w_file (s_wr st)) p Hge) as (m' & Em).
      cbn [number_from] in *. rewrite Em.
      destruct (write_entry P st _) as [st1 [n|e]]; cbn; contradiction.
    + destruct payloads as [|x r].
      { intros _. eexists; eapply NoopEmptyBatch; eauto. }
      destruct (append_all_some (x :: r) m (w_file (s_wr st)) (next_position m) (N.le_refl _)) as (m' & Em).
      cbn [number_from] in *. rewrite Em.
      destruct (write_entry P st _) as [st1 [n|e]]; cbn; contradiction.
  - unfold truncate in H. destruct (qs_get (s_qs st) q) as [m|] eqn:E.
    + destruct (write_entry P st _) as [st1 [n|e]]; cbn in H; [|contradiction].
      destruct (truncate_head m p) as [m' ev].
      destruct (run_gc_if_necessary P _ hint) as [st3 [k|e]]; cbn in H; contradiction.
    + eexists; now apply NoopTruncateMissing.
  - cbn in H. contradiction.
Qed.

Theorem noop_erasable : forall st h1 o tick h2 out,
  noop_call (fst (run P st h1)) o out ->
  fst (run P st (h1 ++ (o, tick) :: h2)) = fst (run P st (h1 ++ h2)).
Proof.
  intros st h1 o tick h2 out H. rewrite !run_app.
  destruct (run P st h1) as [st1 o1]. cbn [fst] in H. cbn [run].
  rewrite (noop_same_state _ _ _ tick H).
  destruct (run P st1 h2) as [st2 o2]. reflexivity.
Qed.

(* the world of the drivers: nothing is added to the trace, the directory is unchanged *)
Definition drained (st : state) : Prop :=
  c_ev (w_ctx (s_wr st)) = [] /\ c_plan (w_ctx (s_wr st)) = None.

Lemma drain_drained st : drained st -> drain_state st = (st, []).
Proof.
  intros [He Hp]. unfold drain_state, drain_ctx. destruct st as [w qs pol]. cbn in *.
  destruct w as [c files f off pend]. cbn in *. destruct c as [fs ev plan a b d]. cbn in *.
  subst. reflexivity.
Qed.

Theorem noop_world_unchanged : forall w st o out,
  wd_log w = Some st -> drained st -> wd_fs w = c_fs (w_ctx (s_wr st)) ->
  noop_call st o out ->
  world_step P w (COp o) = (w, WOp out).
Proof.
  intros w st o out Hl Hd Hfs H. unfold world_step. rewrite Hl.
  rewrite (noop_same_state _ _ _ (wd_tick w) H). rewrite (drain_drained _ Hd).
  rewrite app_nil_r. destruct w; cbn in *. subst. reflexivity.
Qed.
End WithParams.
