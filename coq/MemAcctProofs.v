(* MemAcctProofs.v — property C16: corollaries of the memory formula of SpecRefine.v *)
From Coq Require Import Lia ZArith ZifyN ZifyNat ZifyBool.
From MRL Require Import Bytes BytesProofs Params Names Frame Record Mem Spec Rolling Log Hist SpecRefine.

Arguments N.add : simpl never.
Arguments N.sub : simpl never.
Arguments N.mul : simpl never.
Arguments N.eqb : simpl never.
Arguments N.ltb : simpl never.
Arguments N.leb : simpl never.

(* spec-level quantities *)
Definition s_names (m : smap) : N := fold_right (fun '(n, _) acc => lenN n + acc) 0 m.
Definition s_payload (m : smap) : N :=
  fold_right (fun '(_, (recs, _)) acc => payload_bytes recs + acc) 0 m.
Definition s_nrecs (m : smap) : N := fold_right (fun '(_, (recs, _)) acc => lenN recs + acc) 0 m.

Lemma formula_split K (m : smap) :
  fold_right (fun '(n, (recs, _)) acc => lenN n + payload_bytes recs + K * lenN recs + acc) 0 m
  = s_names m + s_payload m + K * s_nrecs m.
Proof.
  induction m as [|[n [recs nx]] m IH]; cbn [fold_right s_names s_payload s_nrecs]; [lia|].
  fold (s_names m) (s_payload m) (s_nrecs m). rewrite IH. lia.
Qed.

Theorem used_is_names_payload_meta P st :
  qs_inv (s_qs st) ->
  log_memory_used P st =
  s_names (abs_qs (s_qs st)) + s_payload (abs_qs (s_qs st)) + RMS P * s_nrecs (abs_qs (s_qs st)).
Proof. intros Hi. rewrite log_memory_used_formula by exact Hi. apply formula_split. Qed.

Theorem used_bounds P st :
  qs_inv (s_qs st) ->
  s_names (abs_qs (s_qs st)) + s_payload (abs_qs (s_qs st)) <= log_memory_used P st /\
  log_memory_used P st <=
    s_names (abs_qs (s_qs st)) + s_payload (abs_qs (s_qs st)) + RMS P * s_nrecs (abs_qs (s_qs st)).
Proof. intros Hi. rewrite (used_is_names_payload_meta P st Hi). lia. Qed.

Definition all_empty (m : smap) : Prop := forall n recs nx, In (n, (recs, nx)) m -> recs = [].

Lemma all_empty_zero m : all_empty m -> s_payload m = 0 /\ s_nrecs m = 0.
Proof.
  induction m as [|[n [recs nx]] m IH]; intros H; cbn [s_payload s_nrecs fold_right]; [split; reflexivity|].
  fold (s_payload m) (s_nrecs m).
  assert (recs = []) by (eapply H; left; reflexivity). subst.
  destruct IH as [I1 I2]; [intros n' r' x' Hin; eapply H; right; exact Hin|].
  rewrite I1, I2. cbn. split; reflexivity.
Qed.

(* when every queue has been emptied, usage is back to the names-only baseline *)
Theorem used_baseline_when_empty P st :
  qs_inv (s_qs st) -> all_empty (abs_qs (s_qs st)) ->
  log_memory_used P st = s_names (abs_qs (s_qs st)).
Proof.
  intros Hi He. rewrite (used_is_names_payload_meta P st Hi).
  destruct (all_empty_zero _ He) as [-> ->]. lia.
Qed.

(* replacing a queue changes the total by exactly the difference of the queue's share *)
Lemma qs_size_put K : forall qs n q q',
  qs_get qs n = Some q -> qs_size K (qs_put qs n q') + mq_size K q = qs_size K qs + mq_size K q'.
Proof.
  induction qs as [|[n0 q0] qs IH]; intros n q q'; cbn [qs_get qs_put]; [discriminate|].
  destruct (bytes_eqb n0 n).
  - intros H; inversion H; subst. cbn [qs_size fold_right]. fold (qs_size K qs). lia.
  - intros H. cbn [qs_size fold_right]. fold (qs_size K qs) (qs_size K (qs_put qs n q')).
    specialize (IH n q q' H). lia.
Qed.

Lemma truncate_qs P st q p hint tick st' ev n :
  step P st (OTruncate q p hint) tick = (st', OutTruncate ev n) ->
  exists m, qs_get (s_qs st) q = Some m /\
            s_qs st' = qs_put (s_qs st) q (fst (truncate_head m p)) /\ ev = snd (truncate_head m p).
Proof.
  cbn [step]. unfold truncate. destruct (qs_get (s_qs st) q) as [m|] eqn:Hq; [|discriminate].
  pose proof (write_entry_qs P st (ETruncate q p)) as Hw.
  destruct (write_entry P st (ETruncate q p)) as [st1 [k|e]]; [|discriminate]. cbn [fst] in Hw.
  destruct (truncate_head m p) as [m' ev'] eqn:Et.
  pose proof (run_gc_qs P (set_qs st1 (qs_put (s_qs st1) q m')) hint) as Hg.
  destruct (run_gc_if_necessary P _ hint) as [st3 [k2|e]]; [|discriminate]. cbn [fst] in Hg.
  intros H; inversion H; subst. exists m. rewrite Et. cbn [fst snd].
  split; [reflexivity|]. split; [|reflexivity].
  rewrite persist_on_policy_qs, Hg. cbn [set_qs s_qs fst]. now rewrite Hw.
Qed.

(* a truncation lowers the usage by exactly the evicted payload bytes plus one RecordMeta each *)
Theorem truncate_releases P st q p hint tick st' ev n :
  qs_inv (s_qs st) ->
  step P st (OTruncate q p hint) tick = (st', OutTruncate ev n) ->
  exists recs nx,
    s_get (abs_qs (s_qs st)) q = Some (recs, nx) /\
    ev = lenN (filter (fun r => fst r <=? p) recs) /\
    log_memory_used P st =
      log_memory_used P st' + payload_bytes (filter (fun r => fst r <=? p) recs) + RMS P * ev.
Proof.
  intros Hi Hs. destruct (truncate_qs _ _ _ _ _ _ _ _ _ Hs) as (m & Hq & Hqs & Hev).
  pose proof (qs_inv_get _ _ _ Hi Hq) as Hm.
  pose proof (truncate_head_refines m p Hm) as Ht.
  destruct (truncate_head m p) as [m' k] eqn:Et. cbn [fst snd] in *.
  destruct Ht as (Hm' & Hrecs & Hk & _).
  exists (records_of (q_buf m) (q_metas m)), (next_position m).
  split; [rewrite abs_get, Hq; reflexivity|].
  set (recs := records_of (q_buf m) (q_metas m)) in *.
  set (recs' := records_of (q_buf m') (q_metas m')) in *.
  assert (Hsplit : forall l : list (N * bytes),
             lenN l = lenN (filter (fun r => fst r <=? p) l) + lenN (filter (fun r => p <? fst r) l) /\
             payload_bytes l = payload_bytes (filter (fun r => fst r <=? p) l)
                               + payload_bytes (filter (fun r => p <? fst r) l)).
  { induction l as [|[a b] l [I1 I2]]; [split; reflexivity|]. cbn [filter fst].
    destruct (N.leb_spec a p) as [Hle|Hgt].
    - destruct (N.ltb_spec p a) as [?|_]; [lia|]. rewrite !lenN_cons. cbn [payload_bytes fold_right snd].
      fold (payload_bytes l) (payload_bytes (filter (fun r => fst r <=? p) l)). split; lia.
    - destruct (N.ltb_spec p a) as [_|?]; [|lia]. rewrite !lenN_cons. cbn [payload_bytes fold_right snd].
      fold (payload_bytes l) (payload_bytes (filter (fun r => p <? fst r) l)). split; lia. }
  destruct (Hsplit recs) as [Hl Hp]. rewrite <- Hrecs in Hl, Hp.
  split; [lia|].
  unfold log_memory_used. rewrite Hqs.
  pose proof (qs_size_put (RMS P) (s_qs st) q m m' Hq) as Hput.
  rewrite (mq_size_formula _ _ Hm), (mq_size_formula _ _ Hm') in Hput.
  fold recs recs' in Hput. lia.
Qed.
