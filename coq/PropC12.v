(* PropC12.v — C12: a batch append is all-or-nothing (one call = one entry; the codec validates the whole batch; replay applies all records of an entry or fails; a torn or damaged entry is delivered whole or not at all by the record reader).
   Statements only; each theorem is closed by `exact <lemma>`; proofs live in the imported files. *)
From Coq Require Import Lia NArith List.
From MRL Require Import Bytes Params Names Frame Record Mem Rolling Log Driver SpecRefine RecordProofs StreamProofs TornProofs DamageProofs OpenReplay TornFile DamageFile CrashCorollaries PersistSurvive CrashAtomic DamageAtomic RestartInv RestartFinal PowerLoss PowerCorollaries HeaderDamageEv HeaderDamage HeaderDamageFile BatchHeaderDamage BatchHeaderDamageEx.

(* whatever decodes as an AppendRecords entry is exactly the serialization of the batch it decodes to: no partial batch *)
Theorem C12_batch_decodes_whole :
    forall (buf q : bytes) (pos : N) (recs : list (N * bytes)),
    entry_deser buf = Some (EAppend q pos recs) ->
    buf = entry_ser (EAppend q pos recs) /\ wf_entry (EAppend q pos recs).
Proof. exact entry_deser_sound_append. Qed.
Print Assumptions C12_batch_decodes_whole.

(* the batch parser accepts only complete batches *)
Theorem C12_multi_parse_sound :
    forall (fuel : nat) (buf : bytes) (recs : list (N * bytes)),
    multi_parse fuel buf = Some recs -> buf = multi_ser recs /\ Forall wf_rec recs.
Proof. exact multi_parse_sound. Qed.
Print Assumptions C12_multi_parse_sound.

(* replaying an AppendRecords entry appends all of its records after the retained ones, or fails as a whole *)
Theorem C12_apply_all_or_nothing :
    forall (qs : queues) (file : N) (q : bytes) (pos : N) (recs : list (N * bytes)) (qs' : queues),
    qs_inv qs ->
    apply_entry qs file (EAppend q pos recs) = Some qs' ->
    exists m' : mq,
    qs_get qs' q = Some m' /\
    records_of (q_buf m') (q_metas m') =
    match qs_get qs q with
    | Some m => records_of (q_buf m) (q_metas m)
    | None => []
    end ++ recs.
Proof. exact apply_append_all_or_nothing. Qed.
Print Assumptions C12_apply_all_or_nothing.

(* the entry written by append_records decodes back to the full batch *)
Theorem C12_append_entry_roundtrip :
    forall (q : bytes) (p : N) (payloads : list (list byte)),
    utf8_valid q = true ->
    lenN q < 2 ^ 16 ->
    p + lenN payloads <= 2 ^ 64 ->
    p < 2 ^ 64 ->
    Forall (fun x : list byte => lenN x < 2 ^ 32) payloads ->
    entry_deser (entry_ser (EAppend q p (number_from p payloads))) =
    Some (EAppend q p (number_from p payloads)).
Proof. exact append_entry_roundtrip. Qed.
Print Assumptions C12_append_entry_roundtrip.

(* crash inside the batch's entry (any byte cut): the entry is delivered whole or not at all (stream level) *)
Theorem C12_torn_entry_all_or_nothing :
    forall P : params,
    7 < BS P ->
    BS P <= 65542 ->
    (forall (t : byte) (p : bytes), crcf P t p < 2 ^ 32) ->
    forall (es : list bytes) (t x e : bytes) (k : nat) (j : N) (fuel gofuel : nat) (S0 : bytes),
    no_zero_collision P ->
    encs_rel P 0 es t ->
    enc_rel P (lenN t) true x e k ->
    j < lenN e ->
    S0 = mem_stream P (t ++ takeN j e) ->
    (length es + 3 <= fuel)%nat ->
    lenN S0 <= 7 * N.of_nat gofuel ->
    exists tail : list mem_read,
    mem_read_all P fuel gofuel (rr_start P S0) = map MrEntry es ++ tail /\
    (tail = [MrEnd] \/
    tail = [MrCorrupt; MrEnd] \/ tail = [MrEntry x; MrEnd] /\ all_zero (dropN j e) = true).
Proof. exact torn_read_nocoll. Qed.
Print Assumptions C12_torn_entry_all_or_nothing.

(* CRC-detected damage of any frame of the batch's entry: the entry is dropped as a whole, never delivered in part *)
Theorem C12_damaged_entry_dropped_whole :
    forall P : params,
    7 < BS P ->
    BS P <= 65542 ->
    (forall (t : byte) (p : bytes), crcf P t p < 2 ^ 32) ->
    forall (es1 : list bytes) (x : bytes) (es2 : list bytes) (w : vecw) (ns : list N),
    mem_write_all P {| vw_cursor := 0; vw_buf := [] |} (es1 ++ [x] ++ es2) = (w, ns) ->
    exists (t1 ex0 : list byte) (k : nat) (t2 : list byte),
    vw_buf w = t1 ++ ex0 ++ t2 /\
    enc_rel P (lenN t1) true x ex0 k /\
    (forall ed : bytes,
    enc_dmg P (lenN t1) true x ex0 ed k ->
    lenN ed = lenN ex0 /\
    mem_read_stream P (mem_stream P (t1 ++ ed ++ t2)) =
    map MrEntry es1 ++ [MrCorrupt] ++ map MrEntry es2 ++ [MrEnd]).
Proof. exact C09_one_damaged_entry. Qed.
Print Assumptions C12_damaged_entry_dropped_whole.

(* through files: after a crash inside the batch's call, open replays the batch's entry whole or not at all *)
Theorem C12_open_torn :
    forall P : params,
    7 < BS P ->
    BS P <= 65542 ->
    1 <= NB P ->
    (forall (t : byte) (p : bytes), crcf P t p < 2 ^ 32) ->
    no_zero_collision P ->
    forall (fs : fsT) (lo : N) (n : nat),
    list_wal_numbers fs = GcProofs.iota lo (S n) ->
    (forall f : N,
    In f (GcProofs.iota lo (S n)) ->
    exists b : bytes,
    fs_get fs (filename f) = Some (FFile b) /\
    lenN b <= FILE_BYTES P /\ (f <> lo + N.of_nat n -> lenN b = FILE_BYTES P)) ->
    forall base : N,
    base <= lo ->
    forall (E_all X : list entry) (T : bytes) (c0 j z : N) (pol : policy) (hint : list bytes),
    L_IO P = false ->
    L_SHORT P = false ->
    Forall wf_entry E_all ->
    Forall wf_entry X ->
    encs_rel P 0 (map entry_ser E_all) T ->
    lenN T <= c0 ->
    c0 <= ResyncProofs.first_frame_pos P (lenN T) ->
    (lo - base) * FILE_BYTES P <= c0 ->
    j <= lenN (ResyncProofs.encs_of P c0 (map entry_ser X)) ->
    let S_all :=
    T ++ zerosN (c0 - lenN T) ++ takeN j (ResyncProofs.encs_of P c0 (map entry_ser X)) ++ zerosN z in
    FileStream.stream_of (fs_ext P fs lo n) (GcProofs.iota lo (S n)) =
    dropN ((lo - base) * FILE_BYTES P) S_all ->
    lenN S_all = (lo + N.of_nat n - base + 1) * FILE_BYTES P ->
    exists (w0 : rwriter) (tags : list N) (E_pre E_suf X1 Xr Xd : list entry)
    (pf : N),
    E_all = E_pre ++ E_suf /\
    map entry_ser E_pre =
    ResyncProofs.skipped_before P ((lo - base) * FILE_BYTES P) 0 (map entry_ser E_all) /\
    map entry_ser E_suf =
    ResyncProofs.delivered_from P ((lo - base) * FILE_BYTES P) 0 (map entry_ser E_all) /\
    X = X1 ++ Xr /\
    lenN (ResyncProofs.encs_of P c0 (map entry_ser X1)) <= j /\
    match Xr with
    | [] => j = lenN (ResyncProofs.encs_of P c0 (map entry_ser X))
    | x :: _ => j < lenN (ResyncProofs.encs_of P c0 (map entry_ser (X1 ++ [x])))
    end /\
    (Xd = X1 \/
    (exists (x : entry) (X2 : list entry),
    Xr = x :: X2 /\
    Xd = X1 ++ [x] /\
    all_zero (dropN j (ResyncProofs.encs_of P c0 (map entry_ser (X1 ++ [x])))) = true)) /\
    fspec P lo n base (fs_ext P fs lo n) w0 tags
    (ResyncProofs.starts P
    (ResyncProofs.cursor_after P 0
    (ResyncProofs.skipped_before P ((lo - base) * FILE_BYTES P) 0 (map entry_ser E_all)))
    (map entry_ser (E_suf ++ Xd))) pf /\
    lenN T <= pf /\
    (Xd <> [] -> c0 + lenN (ResyncProofs.encs_of P c0 (map entry_ser Xd)) <= pf) /\
    pf <= lenN S_all /\
    (forall m : N, c0 + j <= m * BS P -> (lo - base) * FILE_BYTES P <= m * BS P -> pf <= m * BS P) /\
    resume_ok P S_all pf /\
    match GhostLog.replay_entries [] (combine tags (E_suf ++ Xd)) with
    | Some qs => open P fs None pol hint = open_finish P w0 qs pol hint
    | None => exists c' : ioctx, open P fs None pol hint = OpenCorruption c'
    end.
Proof. exact open_torn. Qed.
Print Assumptions C12_open_torn.

(* through files: with frames of the batch's entry damaged (CRC fails), open drops the entry as a whole *)
Theorem C12_open_damaged :
    forall P : params,
    7 < BS P ->
    BS P <= 65542 ->
    1 <= NB P ->
    (forall (t : byte) (p : bytes), crcf P t p < 2 ^ 32) ->
    forall (fs : fsT) (lo : N) (n : nat),
    (forall f : N,
    In f (GcProofs.iota lo (S n)) ->
    exists b : bytes, fs_get fs (filename f) = Some (FFile b) /\ lenN b = FILE_BYTES P) ->
    forall (base : N) (E_all : list entry) (pxs : list (bytes * list DamageProofs.fspec))
    (T' : bytes) (z : N) (pol : policy) (hint : list bytes),
    L_IO P = false ->
    base <= lo ->
    list_wal_numbers fs = GcProofs.iota lo (S n) ->
    Forall wf_entry E_all ->
    map fst pxs = map entry_ser E_all ->
    encs_any P 0 pxs T' ->
    FileStream.stream_of fs (GcProofs.iota lo (S n)) = dropN ((lo - base) * FILE_BYTES P) (T' ++ zerosN z) ->
    lenN (T' ++ zerosN z) = (lo + N.of_nat n - base + 1) * FILE_BYTES P ->
    let b := (lo - base) * FILE_BYTES P in
    exists
    (w0 : rwriter) (tags : list N) (E_pre E_suf : list entry) (pxs1
    pxs2 : list
    (bytes * list DamageProofs.fspec)),
    E_all = E_pre ++ E_suf /\
    pxs = pxs1 ++ pxs2 /\
    map fst pxs1 = map entry_ser E_pre /\
    map fst pxs2 = map entry_ser E_suf /\
    map entry_ser E_pre = ResyncProofs.skipped_before P b 0 (map entry_ser E_all) /\
    map entry_ser E_suf = ResyncProofs.delivered_from P b 0 (map entry_ser E_all) /\
    lenN T' = lenN (ResyncProofs.encs_of P 0 (map entry_ser E_all)) /\
    (let E_ok := ok_entries P pxs2 E_suf in
    dmg_spec P fs lo n base w0 tags
    (ok_sts P (ResyncProofs.cursor_after P 0 (map entry_ser E_pre)) pxs2)
    (N.max b (lenN T')) /\
    match GhostLog.replay_entries [] (combine tags E_ok) with
    | Some qs => open P fs None pol hint = open_finish P w0 qs pol hint
    | None => exists c : ioctx, open P fs None pol hint = OpenCorruption c
    end).
Proof. exact open_damaged. Qed.
Print Assumptions C12_open_damaged.

(* specification: in every later state of the incarnation the records of a batch still present are a suffix of the batch (the batch minus a leading part removed by truncation); in every earlier state none *)
Theorem C12_batch_all_or_nothing_spec :
    forall (m0 : Spec.smap) (h1 : list Spec.sop) (q : bytes) (pos : option N)
    (pl : list bytes) (h2 : list Spec.sop) (last : N),
    QueueIso.s_inv m0 ->
    let m1 := fst (s_run m0 h1) in
    snd (Spec.s_step m1 (Spec.SAppend q pos pl)) = Spec.SAppended (Some last) ->
    let b := last + 1 - lenN pl in
    let m2 := fst (Spec.s_step m1 (Spec.SAppend q pos pl)) in
    let h := h1 ++ Spec.SAppend q pos pl :: h2 in
    forall k : nat,
    (k <= length h)%nat ->
    let mk := fst (s_run m0 (firstn k h)) in
    (k <= length h1)%nat /\
    (QueueIso.never_deleted q (skipn k h1) (snd (s_run mk (skipn k h1))) ->
    forall (recs : list (N * bytes)) (next : N),
    Spec.s_get mk q = Some (recs, next) ->
    next <= b /\ filter (CrashCorollaries.in_span b (last + 1)) recs = []) \/
    (length h1 < k)%nat /\
    (let k2 := (k - S (length h1))%nat in
    mk = fst (s_run m2 (firstn k2 h2)) /\
    (QueueIso.never_deleted q (firstn k2 h2) (snd (s_run m2 (firstn k2 h2))) ->
    exists (recs : list (N * bytes)) (next : N) (j : nat),
    Spec.s_get mk q = Some (recs, next) /\
    last < next /\ filter (CrashCorollaries.in_span b (last + 1)) recs = skipn j (Spec.s_number b pl))).
Proof. exact batch_all_or_nothing_spec. Qed.
Print Assumptions C12_batch_all_or_nothing_spec.

(* END TO END, crash, any policy: after any crash the recovered records of the batch are none, or all, or all above the highest later truncation - never a hole, never a missing tail *)
Theorem C12_batch_crash :
    forall P : params,
    7 < BS P ->
    BS P <= 65542 ->
    1 <= NB P ->
    (forall (t : byte) (p : bytes), crcf P t p < 2 ^ 32) ->
    L_GC P = false ->
    L_IO P = false ->
    L_SHORT P = false ->
    no_zero_collision P ->
    forall (st0 : state) (G0 : ghost),
    Inv P st0 G0 ->
    w_pending (s_wr st0) = [] ->
    forall h : list (op * bool),
    GhostLog.hist_wf P st0 h ->
    RestartWrite.stream_bound P G0 (map snd (GhostLog.run_log P st0 h)) ->
    CB P st0 h ->
    forall evs : list event,
    c_ev (w_ctx (s_wr (fst (Hist.run P st0 h)))) = rev evs ++ c_ev (w_ctx (s_wr st0)) ->
    forall (h1 : list (op * bool)) (q : bytes) (pos : option N) (pl : list bytes)
    (t : bool) (h2 : list (op * bool)) (last nb : N),
    h = h1 ++ (OAppend q pos pl, t) :: h2 ->
    let st1 := fst (Hist.run P st0 h1) in
    snd (step P st1 (OAppend q pos pl) t) = OutAppend (Some last) nb ->
    let st2 := fst (step P st1 (OAppend q pos pl) t) in
    forall (cut k : N) (pol : policy) (hint : list bytes),
    exists (m : nat) (st_r : state),
    (m <= length h)%nat /\
    open P (fold_left apply_event (crash_events evs cut k) (c_fs (w_ctx (s_wr st0)))) None pol hint =
    OpenOk st_r /\
    (forall q' : bytes,
    Spec.s_get (abs_qs (s_qs st_r)) q' =
    Spec.s_get (abs_qs (s_qs (fst (Hist.run P st0 (firstn m h))))) q') /\
    batch_at P st0 h1 q pl h2 st2 last m (Spec.s_get (abs_qs (s_qs st_r)) q).
Proof. exact batch_crash. Qed.
Print Assumptions C12_batch_crash.

(* if the batch append had persisted before the crash, the batch is there (up to later truncation) *)
Theorem C12_batch_crash_persisted :
    forall P : params,
    7 < BS P ->
    BS P <= 65542 ->
    1 <= NB P ->
    (forall (t : byte) (p : bytes), crcf P t p < 2 ^ 32) ->
    L_GC P = false ->
    L_IO P = false ->
    L_SHORT P = false ->
    no_zero_collision P ->
    forall (st0 : state) (G0 : ghost),
    Inv P st0 G0 ->
    w_pending (s_wr st0) = [] ->
    forall h : list (op * bool),
    GhostLog.hist_wf P st0 h ->
    RestartWrite.stream_bound P G0 (map snd (GhostLog.run_log P st0 h)) ->
    CB P st0 h ->
    forall evs : list event,
    c_ev (w_ctx (s_wr (fst (Hist.run P st0 h)))) = rev evs ++ c_ev (w_ctx (s_wr st0)) ->
    forall (h1 : list (op * bool)) (q : bytes) (pos : option N) (pl : list bytes)
    (t : bool) (h2 : list (op * bool)) (last nb : N) (evs_i : list event),
    h = h1 ++ (OAppend q pos pl, t) :: h2 ->
    let st1 := fst (Hist.run P st0 h1) in
    snd (step P st1 (OAppend q pos pl) t) = OutAppend (Some last) nb ->
    let st2 := fst (step P st1 (OAppend q pos pl) t) in
    let b := last + 1 - lenN pl in
    w_pending (s_wr st2) = [] ->
    c_ev (w_ctx (s_wr st2)) = rev evs_i ++ c_ev (w_ctx (s_wr st0)) ->
    forall (cut k : N) (pol : policy) (hint : list bytes),
    lenN evs_i <= cut ->
    exists (m : nat) (st_r : state),
    (length h1 < m)%nat /\
    (m <= length h)%nat /\
    open P (fold_left apply_event (crash_events evs cut k) (c_fs (w_ctx (s_wr st0)))) None pol hint =
    OpenOk st_r /\
    (let k2 := (m - S (length h1))%nat in
    QueueIso.log_never_deleted q (firstn k2 h2) (snd (Hist.run P st2 (firstn k2 h2))) ->
    exists (recs : list (N * bytes)) (next : N) (j : nat),
    Spec.s_get (abs_qs (s_qs st_r)) q = Some (recs, next) /\
    last < next /\ filter (CrashCorollaries.in_span b (last + 1)) recs = skipn j (Spec.s_number b pl)).
Proof. exact batch_crash_persisted. Qed.
Print Assumptions C12_batch_crash_persisted.

(* the same under Always policies from a fresh directory *)
Theorem C12_batch_crash_always :
    forall P : params,
    7 < BS P ->
    BS P <= 65542 ->
    1 <= NB P ->
    (forall (t : byte) (p : bytes), crcf P t p < 2 ^ 32) ->
    L_GC P = false ->
    L_IO P = false ->
    L_SHORT P = false ->
    no_zero_collision P ->
    forall (a : bool) (st0 : state) (h : list hop) (st : state) (outs : list Log.outcome)
    (o : op) (tick : bool) (st' : state) (out : Log.outcome),
    open P [] None (PAlways a) [] = OpenOk st0 ->
    hrun P st0 h = Some (st, outs) ->
    hist_ok P st0 h ->
    always_hist a h ->
    GhostLog.op_wf_strict (s_qs st) o ->
    crash_phys_bound P (s_wr st) (map snd (GhostLog.step_log P st o)) (abs_qs (s_qs st)) ->
    crash_phys_bound P (s_wr st) (map snd (GhostLog.step_log P st o)) (abs_qs (s_qs st')) ->
    step P st o tick = (st', out) ->
    forall (c1 : list op) (q : bytes) (pos : option N) (pl : list bytes) (c2 : list op) (last nb : N),
    hcalls h = c1 ++ OAppend q pos pl :: c2 ->
    nth_error outs (length c1) = Some (OutAppend (Some last) nb) ->
    QueueIso.log_never_deleted q (RestartCorollaries.hcalls_t h) outs ->
    let b := last + 1 - lenN pl in
    exists evs : list event,
    c_ev (w_ctx (s_wr st')) = rev evs ++ c_ev (w_ctx (s_wr st)) /\
    (forall (cut k : N) (pol : policy) (hint : list bytes),
    exists st_r : state,
    open P (fold_left apply_event (crash_events evs cut k) (c_fs (w_ctx (s_wr st)))) None pol hint =
    OpenOk st_r /\
    (QueueIso.l_deleted q (o, tick) out = true /\ Spec.s_get (abs_qs (s_qs st_r)) q = None \/
    (exists (recs : list (N * bytes)) (next : N) (j : nat),
    Spec.s_get (abs_qs (s_qs st_r)) q = Some (recs, next) /\
    last < next /\
    filter (CrashCorollaries.in_span b (last + 1)) recs = skipn j (Spec.s_number b pl)))).
Proof. exact batch_crash_always. Qed.
Print Assumptions C12_batch_crash_always.

(* END TO END, damage on the batch's own entry: every other retained record is recovered, every recovered record was appended by another entry, and no record of the batch is recovered (unless another entry appended the same record) *)
Theorem C12_batch_damage_self :
    forall P : params,
    7 < BS P ->
    BS P <= 65542 ->
    1 <= NB P ->
    (forall (t : byte) (p : bytes), crcf P t p < 2 ^ 32) ->
    L_GC P = false ->
    L_IO P = false ->
    forall (st : state) (G : ghost) (i : nat) (ex0 ed : bytes) (k : nat) (fs_d : fsT)
    (q : bytes) (b : N) (recs : list (N * bytes)),
    Inv P st G ->
    damaged_dir P st G i (EAppend q b recs) ex0 ed k fs_d ->
    dmg_bound P st G ->
    forall (pol : policy) (hint : list bytes),
    exists (st_r : state) (F : ReplaySpec.tmap),
    open P fs_d None pol hint = OpenOk st_r /\
    ReplaySpec.t_replay [] 0 (gh_ALL G) = Some F /\
    (forall (q' : bytes) (rf : list ReplaySpec.trec) (nf : N),
    ReplaySpec.t_get F q' = Some (rf, nf) ->
    forall r : ReplaySpec.trec,
    In r rf ->
    fst r <> (gh_k G + i)%nat ->
    exists m : mq, qs_get (s_qs st_r) q' = Some m /\ In (snd r) (records_of (q_buf m) (q_metas m))) /\
    (forall (q' : bytes) (m : mq) (rec : N * bytes),
    qs_get (s_qs st_r) q' = Some m ->
    In rec (records_of (q_buf m) (q_metas m)) ->
    exists (idx : nat) (pos : N) (recs' : list (N * bytes)),
    idx <> (gh_k G + i)%nat /\ nth_error (gh_ALL G) idx = Some (EAppend q' pos recs') /\ In rec recs') /\
    ((forall (idx : nat) (pos : N) (recs' : list (N * bytes)),
    idx <> (gh_k G + i)%nat ->
    nth_error (gh_ALL G) idx = Some (EAppend q pos recs') ->
    forall rec : N * bytes, In rec recs -> ~ In rec recs') ->
    forall (m : mq) (rec : N * bytes),
    qs_get (s_qs st_r) q = Some m -> In rec recs -> ~ In rec (records_of (q_buf m) (q_metas m))).
Proof. exact batch_damage_self. Qed.
Print Assumptions C12_batch_damage_self.

(* damage on another entry: every retained record of the batch is recovered *)
Theorem C12_batch_damage_other :
    forall P : params,
    7 < BS P ->
    BS P <= 65542 ->
    1 <= NB P ->
    (forall (t : byte) (p : bytes), crcf P t p < 2 ^ 32) ->
    L_GC P = false ->
    L_IO P = false ->
    forall (st : state) (G : ghost) (i : nat) (X : entry) (ex0 ed : bytes) (k : nat)
    (fs_d : fsT) (j : nat) (fB : N) (q : bytes) (b : N) (recs : list (N * bytes)),
    Inv P st G ->
    damaged_dir P st G i X ex0 ed k fs_d ->
    dmg_bound P st G ->
    nth_error (gh_E G) j = Some (fB, EAppend q b recs) ->
    j <> i ->
    forall (pol : policy) (hint : list bytes),
    exists (st_r : state) (F : ReplaySpec.tmap),
    open P fs_d None pol hint = OpenOk st_r /\
    ReplaySpec.t_replay [] 0 (gh_ALL G) = Some F /\
    (forall (rf : list ReplaySpec.trec) (nf : N),
    ReplaySpec.t_get F q = Some (rf, nf) ->
    forall r : ReplaySpec.trec,
    In r rf ->
    fst r = (gh_k G + j)%nat ->
    In (snd r) recs /\
    (exists m : mq, qs_get (s_qs st_r) q = Some m /\ In (snd r) (records_of (q_buf m) (q_metas m)))).
Proof. exact batch_damage_other. Qed.
Print Assumptions C12_batch_damage_other.

(* END TO END, power loss, any policy: after recovery from any power-loss image the batch is recovered as none, all, or all above the highest later truncation *)
Theorem C12_batch_power :
    forall P : params,
    7 < BS P ->
    BS P <= 65542 ->
    1 <= NB P ->
    (forall (t : byte) (p : bytes), crcf P t p < 2 ^ 32) ->
    L_GC P = false ->
    L_IO P = false ->
    L_SHORT P = false ->
    no_zero_collision P ->
    forall (st0 : state) (G0 : ghost),
    Inv P st0 G0 ->
    w_pending (s_wr st0) = [] ->
    forall h : list (op * bool),
    GhostLog.hist_wf P st0 h ->
    RestartWrite.stream_bound P G0 (map snd (GhostLog.run_log P st0 h)) ->
    forall evs : list event,
    c_ev (w_ctx (s_wr (fst (Hist.run P st0 h)))) = rev evs ++ c_ev (w_ctx (s_wr st0)) ->
    CB P st0 h ->
    forall (h1 : list (op * bool)) (q : bytes) (pos : option N) (pl : list bytes)
    (t : bool) (h2 : list (op * bool)) (last nb : N),
    h = h1 ++ (OAppend q pos pl, t) :: h2 ->
    let st1 := fst (Hist.run P st0 h1) in
    snd (step P st1 (OAppend q pos pl) t) = OutAppend (Some last) nb ->
    let st2 := fst (step P st1 (OAppend q pos pl) t) in
    forall (cut : N) (pol : policy) (hint : list bytes),
    exists (m : nat) (st_r : state),
    (m <= length h)%nat /\
    open P (fold_left apply_event (power_events evs cut) (c_fs (w_ctx (s_wr st0)))) None pol hint =
    OpenOk st_r /\
    (forall q' : bytes,
    Spec.s_get (abs_qs (s_qs st_r)) q' =
    Spec.s_get (abs_qs (s_qs (fst (Hist.run P st0 (firstn m h))))) q') /\
    batch_at P st0 h1 q pl h2 st2 last m (Spec.s_get (abs_qs (s_qs st_r)) q).
Proof. exact batch_power. Qed.
Print Assumptions C12_batch_power.

(* if the batch append had been flushed and synced before the power failed, the batch is there (up to later truncation) *)
Theorem C12_batch_power_persisted :
    forall P : params,
    7 < BS P ->
    BS P <= 65542 ->
    1 <= NB P ->
    (forall (t : byte) (p : bytes), crcf P t p < 2 ^ 32) ->
    L_GC P = false ->
    L_IO P = false ->
    L_SHORT P = false ->
    no_zero_collision P ->
    forall (st0 : state) (G0 : ghost),
    Inv P st0 G0 ->
    w_pending (s_wr st0) = [] ->
    forall h : list (op * bool),
    GhostLog.hist_wf P st0 h ->
    RestartWrite.stream_bound P G0 (map snd (GhostLog.run_log P st0 h)) ->
    forall evs : list event,
    c_ev (w_ctx (s_wr (fst (Hist.run P st0 h)))) = rev evs ++ c_ev (w_ctx (s_wr st0)) ->
    CB P st0 h ->
    forall (h1 : list (op * bool)) (q : bytes) (pos : option N) (pl : list bytes)
    (t : bool) (h2 : list (op * bool)) (last nb : N) (evs_i : list event),
    h = h1 ++ (OAppend q pos pl, t) :: h2 ->
    let st1 := fst (Hist.run P st0 h1) in
    snd (step P st1 (OAppend q pos pl) t) = OutAppend (Some last) nb ->
    let st2 := fst (step P st1 (OAppend q pos pl) t) in
    let b := last + 1 - lenN pl in
    w_pending (s_wr st2) = [] ->
    PersistProofs.wr_all_synced (s_wr st2) ->
    c_ev (w_ctx (s_wr st2)) = rev evs_i ++ c_ev (w_ctx (s_wr st0)) ->
    forall (cut : N) (pol : policy) (hint : list bytes),
    lenN evs_i <= cut ->
    exists (m : nat) (st_r : state),
    (length h1 < m)%nat /\
    (m <= length h)%nat /\
    open P (fold_left apply_event (power_events evs cut) (c_fs (w_ctx (s_wr st0)))) None pol hint =
    OpenOk st_r /\
    (let k2 := (m - S (length h1))%nat in
    QueueIso.log_never_deleted q (firstn k2 h2) (snd (Hist.run P st2 (firstn k2 h2))) ->
    exists (recs : list (N * bytes)) (next : N) (j : nat),
    Spec.s_get (abs_qs (s_qs st_r)) q = Some (recs, next) /\
    last < next /\ filter (CrashCorollaries.in_span b (last + 1)) recs = skipn j (Spec.s_number b pl)).
Proof. exact batch_power_persisted. Qed.
Print Assumptions C12_batch_power_persisted.

(* arbitrary damage inside one block, frame headers included (stream level): what is delivered is a sub-list of the written ENTRIES - a batch is one entry, so it is delivered whole or not at all - provided only genuine frames verify on the reader's path through that block (NoEmbeddedPath; false otherwise: F4) *)
Theorem C12_header_damage_entry_granular :
    forall P : params,
    7 < BS P ->
    BS P <= 65542 ->
    (forall (t : byte) (p : bytes), crcf P t p < 2 ^ 32) ->
    forall (es : list bytes) (t D : bytes) (b : N),
    encs_rel P 0 es t ->
    damaged_in_block P D t b ->
    NoEmbeddedPath P D b t ->
    let out := mem_read_stream P D in ~ In MrFuel out /\ sublist (delivered out) es.
Proof. exact header_damage_sublist. Qed.
Print Assumptions C12_header_damage_entry_granular.

(* END TO END, arbitrary damage inside one block, frame headers included (NoEmbeddedPath): whenever open succeeds, what every queue holds is a SUFFIX of the concatenation of the batches of a sub-list of the written entries - a batch is there whole, or cut only from its front (by a truncation), never with a hole or a missing tail *)
Theorem C12_header_damage_suffix :
    forall P : params,
    7 < BS P ->
    BS P <= 65542 ->
    1 <= NB P ->
    (forall (t : byte) (p : bytes), crcf P t p < 2 ^ 32) ->
    L_IO P = false ->
    forall (st : state) (G : ghost) (blk : N) (D : bytes) (fs_d : fsT),
    Inv P st G ->
    header_damaged_dir P st G blk D fs_d ->
    forall (pol : policy) (hint : list bytes) (st_r : state),
    open P fs_d None pol hint = OpenOk st_r ->
    exists Es' : list entry,
    sublist Es' (map snd (gh_E G)) /\
    (forall (q : bytes) (m : mq),
    qs_get (s_qs st_r) q = Some m ->
    exists k : nat, records_of (q_buf m) (q_metas m) = skipn k (appended q Es')).
Proof. exact C12_header_damage_suffix. Qed.
Print Assumptions C12_header_damage_suffix.

(* position form: the records at the batch's positions are a suffix of the batch, provided no other incarnation of the queue used those positions (batch_fresh) *)
Theorem C12_header_damage :
    forall P : params,
    7 < BS P ->
    BS P <= 65542 ->
    1 <= NB P ->
    (forall (t : byte) (p : bytes), crcf P t p < 2 ^ 32) ->
    L_IO P = false ->
    forall (st : state) (G : ghost) (blk : N) (D : bytes) (fs_d : fsT),
    Inv P st G ->
    header_damaged_dir P st G blk D fs_d ->
    forall (pol : policy) (hint : list bytes) (st_r : state),
    open P fs_d None pol hint = OpenOk st_r ->
    forall (j : nat) (fB : N) (q : bytes) (pos : N) (recs : list (N * bytes)),
    nth_error (gh_E G) j = Some (fB, EAppend q pos recs) ->
    batch_fresh G j q pos recs ->
    forall m : mq,
    qs_get (s_qs st_r) q = Some m ->
    exists k : nat,
    filter (in_span pos (pos + lenN recs)) (records_of (q_buf m) (q_metas m)) = skipn k recs.
Proof. exact C12_header_damage. Qed.
Print Assumptions C12_header_damage.

(* in particular for a queue that was never deleted *)
Theorem C12_header_damage_never_deleted :
    forall P : params,
    7 < BS P ->
    BS P <= 65542 ->
    1 <= NB P ->
    (forall (t : byte) (p : bytes), crcf P t p < 2 ^ 32) ->
    L_IO P = false ->
    forall (st : state) (G : ghost) (blk : N) (D : bytes) (fs_d : fsT),
    Inv P st G ->
    header_damaged_dir P st G blk D fs_d ->
    forall (pol : policy) (hint : list bytes) (st_r : state),
    open P fs_d None pol hint = OpenOk st_r ->
    forall (j : nat) (fB : N) (q : bytes) (pos : N) (recs : list (N * bytes)),
    nth_error (gh_E G) j = Some (fB, EAppend q pos recs) ->
    (forall f p : N, ~ In (f, EDelete q p) (gh_E G)) ->
    forall m : mq,
    qs_get (s_qs st_r) q = Some m ->
    exists k : nat,
    filter (in_span pos (pos + lenN recs)) (records_of (q_buf m) (q_metas m)) = skipn k recs.
Proof. exact C12_header_damage_never_deleted. Qed.
Print Assumptions C12_header_damage_never_deleted.

(* that proviso is needed: one damaged length byte can cost the DeleteQueue, the re-creation and the batch's first frame together; open then shows the DELETED incarnation's record at the batch's first position (the batch itself is gone as a whole) *)
Theorem C12_position_form_needs_fresh :
    exists (G : ghost) (j : nat) (fB : N),
    Inv Neg.Pd Neg.std G /\
    header_damaged_dir Neg.Pd Neg.std G 2 Neg.Dd Neg.fsdd /\
    nth_error (gh_E G) j = Some (fB, EAppend DamageAtomic.Example.qa 0 Neg.batch) /\
    length (gh_E G) = S j /\
    open Neg.Pd Neg.fsdd None PNothing [] = OpenOk Neg.st_rd /\
    qs_get (s_qs Neg.st_rd) DamageAtomic.Example.qa = Some Neg.m_d /\
    records_of (q_buf Neg.m_d) (q_metas Neg.m_d) = [(0, DamageAtomic.Example.pay "x")] /\
    (forall k : nat,
    filter (in_span 0 (0 + lenN Neg.batch)) (records_of (q_buf Neg.m_d) (q_metas Neg.m_d)) <>
    skipn k Neg.batch).
Proof. exact Neg.position_form_needs_fresh_e2e. Qed.
Print Assumptions C12_position_form_needs_fresh.

