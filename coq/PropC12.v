(* PropC12.v — C12: a batch append is all-or-nothing (entry level: one call = one entry; the codec validates the whole batch; replay applies all records of an entry or fails).
   Statements only; each theorem is closed by `exact <lemma>`; proofs live in the imported files. *)
From Coq Require Import Lia NArith List.
From MRL Require Import Bytes Params Names Frame Record Mem Rolling Log SpecRefine RecordProofs.

(* whatever decodes as an AppendRecords entry is exactly the serialization of the batch it decodes to: no partial batch *)
Theorem C12_batch_decodes_whole :
    forall (buf q : bytes) (pos : N) (recs : list (N * bytes)),
    entry_deser buf = Some (EAppend q pos recs) ->
    buf = entry_ser (EAppend q pos recs) /\ wf_entry (EAppend q pos recs).
Proof. exact entry_deser_sound_append. Qed.
Print Assumptions C12_batch_decodes_whole.

(* the batch parser accepts only complete batches *)
Theorem C12_multi_parse_sound :
    forall (fuel : nat) (buf : bytes) (recs : list (N * bytes)),
    multi_parse fuel buf = Some recs -> buf = multi_ser recs /\ Forall wf_rec recs.
Proof. exact multi_parse_sound. Qed.
Print Assumptions C12_multi_parse_sound.

(* replaying an AppendRecords entry appends all of its records after the retained ones, or fails as a whole *)
Theorem C12_apply_all_or_nothing :
    forall (qs : queues) (file : N) (q : bytes) (pos : N) (recs : list (N * bytes)) (qs' : queues),
    qs_inv qs ->
    apply_entry qs file (EAppend q pos recs) = Some qs' ->
    exists m' : mq,
    qs_get qs' q = Some m' /\
    records_of (q_buf m') (q_metas m') =
    match qs_get qs q with
    | Some m => records_of (q_buf m) (q_metas m)
    | None => []
    end ++ recs.
Proof. exact apply_append_all_or_nothing. Qed.
Print Assumptions C12_apply_all_or_nothing.

(* the entry written by append_records decodes back to the full batch *)
Theorem C12_append_entry_roundtrip :
    forall (q : bytes) (p : N) (payloads : list (list byte)),
    utf8_valid q = true ->
    lenN q < 2 ^ 16 ->
    p + lenN payloads <= 2 ^ 64 ->
    p < 2 ^ 64 ->
    Forall (fun x : list byte => lenN x < 2 ^ 32) payloads ->
    entry_deser (entry_ser (EAppend q p (number_from p payloads))) =
    Some (EAppend q p (number_from p payloads)).
Proof. exact append_entry_roundtrip. Qed.
Print Assumptions C12_append_entry_roundtrip.

