(* PropC12.v — C12: a batch append is all-or-nothing (one call = one entry; the codec validates the whole batch; replay applies all records of an entry or fails; a torn or damaged entry is delivered whole or not at all by the record reader).
   Statements only; each theorem is closed by `exact <lemma>`; proofs live in the imported files. *)
From Coq Require Import Lia NArith List.
From MRL Require Import Bytes Params Names Frame Record Mem Rolling Log Driver SpecRefine RecordProofs StreamProofs TornProofs DamageProofs.

(* whatever decodes as an AppendRecords entry is exactly the serialization of the batch it decodes to: no partial batch *)
Theorem C12_batch_decodes_whole :
    forall (buf q : bytes) (pos : N) (recs : list (N * bytes)),
    entry_deser buf = Some (EAppend q pos recs) ->
    buf = entry_ser (EAppend q pos recs) /\ wf_entry (EAppend q pos recs).
Proof. exact entry_deser_sound_append. Qed.
Print Assumptions C12_batch_decodes_whole.

(* the batch parser accepts only complete batches *)
Theorem C12_multi_parse_sound :
    forall (fuel : nat) (buf : bytes) (recs : list (N * bytes)),
    multi_parse fuel buf = Some recs -> buf = multi_ser recs /\ Forall wf_rec recs.
Proof. exact multi_parse_sound. Qed.
Print Assumptions C12_multi_parse_sound.

(* replaying an AppendRecords entry appends all of its records after the retained ones, or fails as a whole *)
Theorem C12_apply_all_or_nothing :
    forall (qs : queues) (file : N) (q : bytes) (pos : N) (recs : list (N * bytes)) (qs' : queues),
    qs_inv qs ->
    apply_entry qs file (EAppend q pos recs) = Some qs' ->
    exists m' : mq,
    qs_get qs' q = Some m' /\
    records_of (q_buf m') (q_metas m') =
    match qs_get qs q with
    | Some m => records_of (q_buf m) (q_metas m)
    | None => []
    end ++ recs.
Proof. exact apply_append_all_or_nothing. Qed.
Print Assumptions C12_apply_all_or_nothing.

(* the entry written by append_records decodes back to the full batch *)
Theorem C12_append_entry_roundtrip :
    forall (q : bytes) (p : N) (payloads : list (list byte)),
    utf8_valid q = true ->
    lenN q < 2 ^ 16 ->
    p + lenN payloads <= 2 ^ 64 ->
    p < 2 ^ 64 ->
    Forall (fun x : list byte => lenN x < 2 ^ 32) payloads ->
    entry_deser (entry_ser (EAppend q p (number_from p payloads))) =
    Some (EAppend q p (number_from p payloads)).
Proof. exact append_entry_roundtrip. Qed.
Print Assumptions C12_append_entry_roundtrip.

(* crash inside the batch's entry (any byte cut): the entry is delivered whole or not at all (stream level) *)
Theorem C12_torn_entry_all_or_nothing :
    forall P : params,
    7 < BS P ->
    BS P <= 65542 ->
    (forall (t : byte) (p : bytes), crcf P t p < 2 ^ 32) ->
    forall (es : list bytes) (t x e : bytes) (k : nat) (j : N) (fuel gofuel : nat) (S0 : bytes),
    no_zero_collision P ->
    encs_rel P 0 es t ->
    enc_rel P (lenN t) true x e k ->
    j < lenN e ->
    S0 = mem_stream P (t ++ takeN j e) ->
    (length es + 3 <= fuel)%nat ->
    lenN S0 <= 7 * N.of_nat gofuel ->
    exists tail : list mem_read,
    mem_read_all P fuel gofuel (rr_start P S0) = map MrEntry es ++ tail /\
    (tail = [MrEnd] \/
    tail = [MrCorrupt; MrEnd] \/ tail = [MrEntry x; MrEnd] /\ all_zero (dropN j e) = true).
Proof. exact torn_read_nocoll. Qed.
Print Assumptions C12_torn_entry_all_or_nothing.

(* CRC-detected damage of any frame of the batch's entry: the entry is dropped as a whole, never delivered in part *)
Theorem C12_damaged_entry_dropped_whole :
    forall P : params,
    7 < BS P ->
    BS P <= 65542 ->
    (forall (t : byte) (p : bytes), crcf P t p < 2 ^ 32) ->
    forall (es1 : list bytes) (x : bytes) (es2 : list bytes) (w : vecw) (ns : list N),
    mem_write_all P {| vw_cursor := 0; vw_buf := [] |} (es1 ++ [x] ++ es2) = (w, ns) ->
    exists (t1 ex0 : list byte) (k : nat) (t2 : list byte),
    vw_buf w = t1 ++ ex0 ++ t2 /\
    enc_rel P (lenN t1) true x ex0 k /\
    (forall ed : bytes,
    enc_dmg P (lenN t1) true x ex0 ed k ->
    lenN ed = lenN ex0 /\
    mem_read_stream P (mem_stream P (t1 ++ ed ++ t2)) =
    map MrEntry es1 ++ [MrCorrupt] ++ map MrEntry es2 ++ [MrEnd]).
Proof. exact C09_one_damaged_entry. Qed.
Print Assumptions C12_damaged_entry_dropped_whole.

