(* TornFile.v — `open` on a directory whose WAL stream ends with a TORN write (a crash inside a
   call): property C02 at the level of the rolling files.  Generalises OpenReplay.v (stream that
   ends cleanly) to a stream that ends with a byte-prefix of the encoding of further entries.

   Part 0: traced reading with Corruption steps (replay_loop ignores RCorrupt).
   Part 1: stream level (vecr): the torn frame / torn record with EXPLICIT final reader states
           (TornProofs hides them behind reads_at and needs a spare block after the torn data;
           in the last block of the last file there is none), the run of intact entries followed
           by the torn one, reading from a block boundary.
   Part 2: the replay loop is a fold over the trace.
   Part 3: the rolling files: short last file (ensure_last_full), open_torn.
   Part 4: the setting of the task (T, c0, X, cut j), corollaries.

   Deviations from the requested statement (see Module Corner at the end for the concrete
   counterexample):
   - "every stream byte from the writer's position on is zero" is FALSE when fewer than 7 bytes
     of a torn frame HEADER lie in the last block of the last file (no block follows): the
     reader, and hence the writer made of it, stays at the start of that header.  The resume
     property proved is resume_ok: zero from pf on, OR (only in the last block of the stream)
     zero from pf + 6 on with pf mod B + 7 <= B (the next header written at pf covers them).
   - extra hypothesis (lo - base) * FILE <= c0: the cursor of the writer in flight lies in a
     kept file (always true: the writer's file is never collected).
   - the tag facts are stated against `starts` of the list es_suf ++ ser Xd encoded from the
     cursor after the skipped entries; its first-frame positions (the only component used) are
     those of the task's numbering (starts_shift).
   - a lower bound c0 <= pf is not claimed when no entry of X is delivered (only lenN T <= pf);
     the lower block bound (m * B <= c0 + j -> m * B <= pf) of torn_resume is not restated: the
     zero tail from pf and pf <= every block boundary >= c0 + j are. *)
From Coq Require Import Lia ZArith ZifyN ZifyNat ZifyBool Sorted.
From MRL Require Import Bytes BytesProofs Params Names NamesProofs Frame Record Mem Rolling Log
  Driver StreamProofs DamageProofs TornProofs PolicyProofs GcProofs FileStream ResyncProofs
  RecordProofs GhostLog OpenTerm OpenReplay.

Arguments N.add : simpl never.
Arguments N.sub : simpl never.
Arguments N.mul : simpl never.
Arguments N.eqb : simpl never.
Arguments N.ltb : simpl never.
Arguments N.leb : simpl never.
Arguments N.div : simpl never.
Arguments N.modulo : simpl never.
Arguments N.min : simpl never.
Arguments N.max : simpl never.

(* ====================================================================== *)
(* Part 0. Traced reading with corruptions                                 *)
(* ====================================================================== *)
Section TraceC.
Variable P : params.
Variable R : Type.
Variable rnext : R -> R * res bool.
Variable rblock : R -> bytes.
Local Notation gonextR := (go_next P R rnext rblock).

(* from rr, go_next (fuel g) delivers the records of l (each with the reader it was read FROM),
   reports c Corruptions in between, and then End, leaving the reader rrf *)
Inductive reads_trc (g : nat) : rreader R -> list (rreader R * bytes) -> nat -> rreader R -> Prop :=
| RC_end rr rr' : gonextR g rr = (rr', REnd) -> reads_trc g rr [] 0 rr'
| RC_rec rr rr' l c rrf :
    gonextR g rr = (rr', RRecord) -> reads_trc g rr' l c rrf ->
    reads_trc g rr ((rr, rr_buf rr') :: l) c rrf
| RC_cor rr rr' l c rrf :
    gonextR g rr = (rr', RCorrupt) -> reads_trc g rr' l c rrf ->
    reads_trc g rr l (Datatypes.S c) rrf.

Lemma reads_tr_trc g rr l rrf :
  reads_tr P rnext rblock g rr l rrf -> reads_trc g rr l 0 rrf.
Proof.
  induction 1 as [rr rr' Hgo | rr rr' l rrf Hgo Htr IH].
  - apply RC_end. exact Hgo.
  - eapply RC_rec; eassumption.
Qed.

Lemma reads_trc_tr g rr l rrf :
  reads_trc g rr l 0 rrf -> reads_tr P rnext rblock g rr l rrf.
Proof.
  intros H. remember 0%nat as c eqn:Ec. induction H as [rr rr' Hgo | rr rr' l c rrf Hgo Htr IH | rr rr' l c rrf Hgo Htr IH].
  - apply RT_end. exact Hgo.
  - eapply RT_rec; [exact Hgo|]. apply IH. exact Ec.
  - discriminate.
Qed.
End TraceC.

Arguments reads_trc P {R} rnext rblock g _ _ _ _.

(* ====================================================================== *)
(* Part 1. Stream level                                                    *)
(* ====================================================================== *)
Section Stream.
Variable P : params.
Hypothesis HBS_lo : 7 < BS P.
Hypothesis HBS_hi : BS P <= 65542.
Hypothesis Hcrc : forall t p, crcf P t p < 2 ^ 32.
Hypothesis Hnc : no_zero_collision P.

Local Notation B := (BS P).
Local Notation rframe := (read_frame P vecr (vr_next P) vr_block).
Local Notation gonext := (go_next P vecr (vr_next P) vr_block).
Local Notation padof := (pad_of P).
Local Notation chunkof := (chunk_of P).
Local Notation encrel := (enc_rel P).
Local Notation encsrel := (encs_rel P).
Local Notation rdat := (rd_at P).
Local Notation rdof := (rd_of P).
Local Notation atpos := (at_pos P).
Local Notation sok := (stream_ok P).
Local Notation fbytes := (frame_bytes P).
Local Notation ffp := (first_frame_pos P).
Local Notation starts := (starts P).
Local Notation delivered_from := (delivered_from P).
Local Notation skipped_before := (skipped_before P).
Local Notation cursor_after := (cursor_after P).
Local Notation readsC := (reads_trc P (vr_next P) vr_block).
Local Notation H3 f := (f P HBS_lo HBS_hi Hcrc) (only parsing).
Local Notation H2 f := (f P HBS_lo HBS_hi) (only parsing).

(* ---------- explicit reader states ---------- *)
(* fr is the state (block k, cursor c, flag fl) at byte position p; its next read_frame
   examines position r (p itself, or the start of the next block when the block is flagged
   corrupt or has fewer than 7 bytes left) *)
Definition lands (S : bytes) (fr : freader vecr) (p r : N) : Prop :=
  exists k c fl, fr = mkFR (rdof S k) c fl /\ (k + 1) * B <= lenN S /\ c <= B /\ p = k * B + c /\
    ((fl = false /\ c + 7 <= B /\ r = p) \/ ((fl = true \/ B < c + 7) /\ r = (k + 1) * B)).

(* what lies after p: zeros — or, for a block flagged because of a torn header, at most 6 bytes
   of that header and then zeros *)
Definition tail_ok (S : bytes) (fr : freader vecr) (p r : N) : Prop :=
  (fr_corrupt fr = false /\ all_zero (dropN p S) = true) \/
  (fr_corrupt fr = true /\ all_zero (dropN (p + 6) S) = true /\ p + 7 <= r).

(* the reader where the record reader stopped, at byte position pf *)
Definition fin_at (S : bytes) (fr : freader vecr) (pf : N) : Prop :=
  exists k c fl, fr = mkFR (rdof S k) c fl /\ (k + 1) * B <= lenN S /\ c <= B /\ pf = k * B + c.

(* pf is a position where writing can resume: everything from pf on is zero, or — only in the
   LAST block of S — pf is the start of a torn header of which fewer than 7 bytes are there
   (the next frame header written at pf, without padding since pf mod B + 7 <= B, covers them) *)
Definition resume_ok (S : bytes) (pf : N) : Prop :=
  all_zero (dropN pf S) = true \/
  (all_zero (dropN (pf + 6) S) = true /\
   exists k c, pf = k * B + c /\ c + 7 <= B /\ lenN S = (k + 1) * B).

Lemma all_zero_dropN_more (S : bytes) p q :
  p <= q -> all_zero (dropN p S) = true -> all_zero (dropN q S) = true.
Proof.
  intros Hle H. replace q with (p + (q - p)) by lia. rewrite <- dropN_dropN.
  apply all_zero_dropN. exact H.
Qed.

Lemma sok_last S k : sok S -> (k + 1) * B <= lenN S -> lenN S < (k + 2) * B -> lenN S = (k + 1) * B.
Proof.
  intros [m Hm] Ha Hb. rewrite Hm in *.
  apply (H2 TornProofs.mulB_le_inv) in Ha. apply (H2 TornProofs.mulB_lt_inv) in Hb.
  f_equal. lia.
Qed.

Lemma header_zero_at S k c :
  c + 7 <= B -> all_zero (dropN (k * B + c) S) = true ->
  all_zero (sliceN c (c + 7) (sliceN (k * B) ((k + 1) * B) S)) = true.
Proof.
  intros Hc Hz. rewrite sliceN_sliceN by lia. unfold sliceN.
  apply all_zero_takeN. exact Hz.
Qed.

(* the End of the log from an explicit state *)
Lemma lands_end S fr p r buf w g :
  sok S -> lands S fr p r -> tail_ok S fr p r ->
  exists fr' pf,
    gonext (Datatypes.S g) (mkRR fr buf w) = (mkRR fr' buf w, REnd) /\
    fin_at S fr' pf /\ p <= pf /\ pf <= r /\ resume_ok S pf.
Proof.
  intros Hok (k & c & fl & -> & Hblk & Hc & Hp & Hcase) Htail.
  unfold tail_ok in Htail. cbn [fr_corrupt] in Htail.
  destruct Hcase as [(-> & Hc7 & ->) | (Hskip & ->)].
  - (* at p, room for a header: it is zero *)
    destruct Htail as [[_ Hz] | [Hf _]]; [|discriminate].
    exists (mkFR (rdof S k) c false), p. split; [|split; [|split; [lia|split; [lia|left; exact Hz]]]].
    + cbn [go_next rr_fr rr_buf rr_within].
      change (mkFR (rdof S k) c false) with (rdat S k c).
      rewrite (H3 StreamProofs.read_frame_zero) by (try lia; subst p; apply header_zero_at; assumption).
      reflexivity.
    + exists k, c, false. repeat split; assumption.
  - destruct (N.le_gt_cases ((k + 2) * B) (lenN S)) as [Hnext|Hlast].
    + (* the next block exists: the reader moves there and finds zeros *)
      assert (Hz : all_zero (dropN ((k + 1) * B) S) = true).
      { destruct Htail as [[_ Hz] | (_ & Hz & Hle)].
        - apply (all_zero_dropN_more S p); [lia | exact Hz].
        - apply (all_zero_dropN_more S (p + 6)); [lia | exact Hz]. }
      assert (Hrf : rframe (mkFR (rdof S k) c fl) = rframe (rdat S (k + 1) 0)).
      { destruct fl.
        - apply (H3 TornProofs.read_frame_corruptflag). exact Hnext.
        - destruct Hskip as [Hf|Hc7]; [discriminate|].
          apply (H3 StreamProofs.read_frame_skip); [lia | exact Hnext]. }
      exists (rdat S (k + 1) 0), ((k + 1) * B).
      split; [|split; [|split; [lia|split; [lia|left; exact Hz]]]].
      * cbn [go_next rr_fr rr_buf rr_within]. rewrite Hrf.
        rewrite (H3 StreamProofs.read_frame_zero); [reflexivity | lia |].
        apply header_zero_at; [lia|]. rewrite N.add_0_r. exact Hz.
      * exists (k + 1), 0, false. repeat split; lia.
    + (* no further block: the reader stays where it is *)
      pose proof (sok_last S k Hok Hblk Hlast) as HlenS.
      exists (mkFR (rdof S k) c fl), p.
      split; [|split; [|split; [lia|split; [lia|]]]].
      * cbn [go_next rr_fr rr_buf rr_within].
        rewrite read_frame_unfold. cbn [fr_corrupt fr_cursor fr_rd].
        assert (Hns : (fl || (B - c <? HEADER_LEN)) = true).
        { unfold HEADER_LEN. destruct fl; [reflexivity|]. destruct Hskip as [Hf|Hc7]; [discriminate|].
          cbn [orb]. apply N.ltb_lt. lia. }
        rewrite Hns. unfold vr_next, rd_of. cbn [vr_rest].
        rewrite lenN_dropN.
        destruct (N.ltb_spec (lenN S - (k + 1) * B) B) as [_|Hbad]; [|lia].
        reflexivity.
      * exists k, c, fl. repeat split; assumption.
      * destruct Htail as [[_ Hz] | (Hf & Hz & Hle)]; [left; exact Hz|].
        right. split; [exact Hz|]. exists k, c. repeat split; try assumption. lia.
Qed.


(* ---------- a torn frame, with the explicit reader states ---------- *)
Lemma torn_frame2 a ty fp j :
  lenN fp <= max_writable P (B - a mod B) ->
  j < lenN (padof a ++ fbytes ty fp) ->
  forall S pre z fr,
    sok S -> atpos S fr a ->
    S = pre ++ takeN j (padof a ++ fbytes ty fp) ++ zerosN z -> lenN pre = a ->
    exists p r,
      a <= p /\ p <= r /\ (forall m, a + j <= m * B -> r <= m * B) /\
      ( (lands S fr p r /\ tail_ok S fr p r)
        \/ (exists fr', rframe fr = (fr', FCorrupt) /\ lands S fr' p r /\ tail_ok S fr' p r)
        \/ (exists fr', rframe fr = (fr', FOk ty fp) /\ lands S fr' p r /\ tail_ok S fr' p r /\
              all_zero (dropN j (padof a ++ fbytes ty fp)) = true /\
              p = a + lenN (padof a) + 7 + lenN fp)).
Proof.
  intros Hfp Hj S pre z fr Hok Hat HS Hpre.
  destruct (H2 pad_geom a) as (k' & c' & Ha' & Hc' & Hmw & Hpadcase).
  rewrite Hmw in Hfp. clear Hmw.
  pose proof (pad_all_zero P a) as Hpadz.
  set (pad := padof a) in *. set (lp := lenN pad) in *.
  unfold frame_bytes in *.
  set (tyb := n2b (ft_code ty)) in *.
  set (crc := crcf P tyb fp) in *.
  set (hb := header_bytes crc (lenN fp) ty) in *.
  assert (Hlhb : lenN hb = 7) by apply lenN_header.
  set (L := lenN fp) in *.
  assert (Hjlen : j < lp + (7 + L)).
  { rewrite !lenN_app, Hlhb in Hj. fold lp L in Hj. exact Hj. }
  assert (HlenS : lenN S = a + j + z).
  { rewrite HS, !lenN_app, lenN_takeN, !lenN_app, lenN_zerosN, Hlhb. fold lp L. lia. }
  destruct (all_zero (takeN j (pad ++ hb ++ fp))) eqn:Hz.
  - (* everything present is zero: invisible *)
    destruct Hat as (k & c & Ha & Hc & Hblk & Hfr).
    exists a, (a + lp). split; [lia|]. split; [lia|]. split.
    { intros m Hm. destruct Hpadcase as [H0 | (Hc0 & Hlp & k0 & Hk' & Ha0)]; [lia|].
      rewrite Ha'. subst c' k'. rewrite N.add_0_r.
      apply (H2 TornProofs.blocks_above m k0 (B - lp + j)); lia. }
    left. split.
    + exists k, c, false. split; [rewrite Hfr; reflexivity|]. split; [exact Hblk|].
      split; [exact Hc|]. split; [exact Ha|].
      unfold lp, pad. rewrite (StreamProofs.lenN_pad_of P).
      destruct (N.eq_dec c B) as [Ec|Hne].
      * right. split; [right; lia|]. subst c. rewrite Ha, (H2 StreamProofs.mod_kB).
        destruct (N.ltb_spec (B - 0) 7); lia.
      * rewrite Ha, (H2 StreamProofs.mod_kc) by lia.
        destruct (N.ltb_spec (B - c) 7) as [Hlt|Hge].
        -- right. split; [right; lia | lia].
        -- left. repeat split; lia.
    + left. split; [rewrite Hfr; reflexivity|].
      rewrite HS, dropN_app_exact' by exact Hpre.
      apply all_zero_app_true; [exact Hz | apply all_zero_zerosN].
  - (* some nonzero byte of the frame is present *)
    assert (Hjl : lp < j).
    { destruct (N.le_gt_cases j lp) as [Hle|Hgt]; [|exact Hgt]. exfalso.
      rewrite takeN_app_le in Hz by (fold lp; exact Hle).
      rewrite (all_zero_takeN j pad Hpadz) in Hz. discriminate. }
    set (q := j - lp).
    assert (Htk : takeN j (pad ++ hb ++ fp) = pad ++ takeN q (hb ++ fp)).
    { rewrite takeN_app_ge by (fold lp; lia). reflexivity. }
    assert (Hqnz : all_zero (takeN q (hb ++ fp)) = false).
    { rewrite Htk, all_zero_app, Hpadz in Hz. exact Hz. }
    assert (Hblk : (k' + 1) * B <= lenN S).
    { apply (H3 TornProofs.block_exists S k' c' q Hok); lia. }
    assert (Hrf0 : rframe fr = rframe (rdat S k' c'))
      by (apply (H3 TornProofs.at_pos_pad S fr a k' c' Hok Hat Ha' Hc' Hblk)).
    assert (HpreL : lenN (pre ++ pad) = k' * B + c') by (rewrite lenN_app; fold lp; lia).
    assert (HS1 : S = (pre ++ pad) ++ takeN q (hb ++ fp) ++ zerosN z).
    { rewrite HS, Htk, <- !app_assoc. reflexivity. }
    assert (Hup : forall m, a + j <= m * B -> (k' + 1) * B <= m * B).
    { intros m Hm. apply (H2 TornProofs.blocks_above m k' (c' + q)); lia. }
    destruct (N.lt_ge_cases q 7) as [Hq7|Hq7].
    + (* cut inside the header: the type byte reads 0, the block is flagged *)
      assert (Htq : takeN q (hb ++ fp) = takeN q hb) by (apply takeN_app_le; lia).
      rewrite Htq in Hqnz, HS1.
      exists (k' * B + c'), ((k' + 1) * B). split; [lia|]. split; [lia|]. split; [exact Hup|].
      right. left. exists (mkFR (rdof S k') c' true).
      set (H := takeN q hb ++ zerosN (7 - q)).
      assert (HS' : S = (pre ++ pad) ++ H ++ zerosN (z - (7 - q))).
      { rewrite HS1 at 1. unfold H. rewrite (zerosN_split z (7 - q)) by lia.
        rewrite <- !app_assoc. reflexivity. }
      split; [|split].
      * rewrite Hrf0. apply (H3 TornProofs.read_frame_badtype S k' c' (pre ++ pad) H _ HS').
        -- exact HpreL.
        -- unfold H. rewrite lenN_app, lenN_takeN, lenN_zerosN, Hlhb. lia.
        -- exact Hc'.
        -- unfold H. rewrite all_zero_app, Hqnz. reflexivity.
        -- unfold H, hb. apply torn_header_type. exact Hq7.
      * exists k', c', true. repeat split; lia.
      * right. cbn [fr_corrupt]. split; [reflexivity|]. split; [|lia].
        rewrite HS1 at 1. rewrite dropN_app_ge by (rewrite HpreL; lia). rewrite HpreL.
        replace (k' * B + c' + 6 - (k' * B + c')) with 6 by lia.
        rewrite dropN_app_ge by (rewrite lenN_takeN, Hlhb; lia).
        apply all_zero_dropN, all_zero_zerosN.
    + (* the header is complete, the payload is cut *)
      set (n := q - 7).
      assert (Hn : n < L) by lia.
      assert (Htq : takeN q (hb ++ fp) = hb ++ takeN n fp).
      { rewrite takeN_app_ge by lia. rewrite Hlhb. reflexivity. }
      rewrite Htq in HS1.
      set (pl := takeN n fp ++ zerosN (L - n)).
      assert (Hlpl : lenN pl = L).
      { unfold pl. rewrite lenN_app, lenN_takeN, lenN_zerosN. fold L. lia. }
      assert (HS' : S = (pre ++ pad) ++ header_bytes crc (lenN pl) ty ++ pl ++ zerosN (z - (L - n))).
      { rewrite HS1 at 1. rewrite Hlpl. fold hb. unfold pl.
        rewrite (zerosN_split z (L - n)) by lia. rewrite <- !app_assoc. reflexivity. }
      assert (Hrf : rframe (rdat S k' c') =
                (rdat S k' (c' + 7 + L), if crcf P tyb pl =? crc then FOk ty pl else FCorrupt)).
      { rewrite <- Hlpl at 1.
        apply (H3 TornProofs.read_frame_payload S k' c' (pre ++ pad) crc ty pl _ HS').
        - exact HpreL.
        - lia.
        - apply Hcrc. }
      set (p := k' * B + (c' + 7 + L)).
      set (r := if c' + 7 + L + 7 <=? B then p else (k' + 1) * B).
      assert (Hpr : p <= r /\ r <= (k' + 1) * B).
      { unfold r, p. destruct (N.leb_spec (c' + 7 + L + 7) B); lia. }
      assert (Hlands : lands S (rdat S k' (c' + 7 + L)) p r).
      { exists k', (c' + 7 + L), false. split; [reflexivity|]. split; [exact Hblk|].
        split; [lia|]. split; [reflexivity|]. unfold r.
        destruct (N.leb_spec (c' + 7 + L + 7) B) as [Hle|Hgt].
        - left. repeat split; lia.
        - right. split; [right; lia | reflexivity]. }
      assert (Htail : tail_ok S (rdat S k' (c' + 7 + L)) p r).
      { left. split; [reflexivity|]. rewrite HS' at 1. rewrite !app_assoc.
        rewrite dropN_app_exact'; [apply all_zero_zerosN|].
        rewrite !lenN_app, lenN_header, Hlpl. fold lp. unfold p. lia. }
      exists p, r. split; [unfold p; lia|]. split; [lia|]. split.
      { intros m Hm. apply N.le_trans with ((k' + 1) * B); [lia | apply Hup; exact Hm]. }
      destruct (N.eqb_spec (crcf P tyb pl) crc) as [Heq|Hne].
      * assert (HL7 : L + 7 <= B) by lia.
        assert (Epl : pl = fp) by (apply (Hnc tyb fp n HL7 Hn Heq)).
        right. right. exists (rdat S k' (c' + 7 + L)).
        split; [rewrite Hrf0, Hrf, Epl; reflexivity|]. split; [exact Hlands|].
        split; [exact Htail|]. split; [|unfold p; fold lp; lia].
        rewrite dropN_app_ge by (fold lp; lia). fold lp. fold q.
        rewrite dropN_app_ge by lia. rewrite Hlhb. fold n.
        assert (E' : takeN n fp ++ zerosN (L - n) = takeN n fp ++ dropN n fp)
          by (rewrite takeN_dropN; exact Epl).
        apply app_inv_head in E'. rewrite <- E'. apply all_zero_zerosN.
      * right. left. exists (rdat S k' (c' + 7 + L)).
        split; [rewrite Hrf0, Hrf; reflexivity|]. split; [exact Hlands | exact Htail].
Qed.


(* ---------- a torn record ---------- *)
(* what the record reader does on the torn encoding: n complete frames are consumed, then the
   reader is in the explicit state rr1 (position p1, next read at r), after which only zeros
   follow: silently, or after reporting the torn frame corrupt, or after accepting the last
   frame (only possible when the missing bytes are all zero) *)
Definition walk2 (S : bytes) (a : N) (f : bool) (p e : bytes) (j : N) (k : nat)
    (fr : freader vecr) (rbuf : bytes) (within : bool) : Prop :=
  exists n rr1 p1 r,
    (n <= k)%nat /\ a <= p1 /\ p1 <= r /\ (forall m, a + j <= m * B -> r <= m * B) /\
    lands S (rr_fr rr1) p1 r /\ tail_ok S (rr_fr rr1) p1 r /\
    ( (forall fuel', gonext (n + fuel') (mkRR fr rbuf within) = gonext fuel' rr1)
      \/ (forall fuel', gonext (n + Datatypes.S fuel') (mkRR fr rbuf within) = (rr1, RCorrupt))
      \/ (rr_buf rr1 = (if f then [] else rbuf) ++ p /\ all_zero (dropN j e) = true /\
          a + lenN e <= p1 /\
          forall fuel', gonext (n + Datatypes.S fuel') (mkRR fr rbuf within) = (rr1, RRecord))).

Lemma torn_walk2 a f p e k :
  encrel a f p e k -> forall j, j < lenN e ->
  forall S pre z fr rbuf within,
    sok S -> atpos S fr a -> S = pre ++ takeN j e ++ zerosN z -> lenN pre = a ->
    (f = true \/ within = true) ->
    walk2 S a f p e j k fr rbuf within.
Proof.
  induction 1 as [a f p Hd | a f p e k Hd Hr IH]; intros j Hj S pre z fr rbuf within Hok Hat HS Hpre Hfw.
  - (* the torn frame is the last one of the record *)
    set (fp := takeN (chunkof a p) p) in *.
    assert (Hpfp : fp = p).
    { pose proof (takeN_dropN (chunkof a p) p) as Htd. rewrite Hd, app_nil_r in Htd. exact Htd. }
    assert (Hw : (if f then true else within) = true)
      by (destruct f; [reflexivity | destruct Hfw as [Hf|Hw]; [discriminate|exact Hw]]).
    destruct (torn_frame2 a (frame_type f true) fp j
                (H3 StreamProofs.chunk_le_maxw a p) Hj S pre z fr Hok Hat HS Hpre)
      as (p1 & r & Hap & Hpr & Hup & Hcase).
    destruct Hcase as [[Hl Ht] | [(fr' & Hrf & Hl & Ht) | (fr' & Hrf & Hl & Ht & Hz & Hp1)]].
    + exists 0%nat, (mkRR fr rbuf within), p1, r. repeat split; try assumption; try lia.
      left. intros fuel'. reflexivity.
    + exists 0%nat, (mkRR fr' rbuf false), p1, r. repeat split; try assumption; try lia.
      right. left. intros fuel'.
      cbn [Nat.add go_next rr_fr rr_buf rr_within]. rewrite Hrf. reflexivity.
    + exists 0%nat, (mkRR fr' ((if f then [] else rbuf) ++ fp) false), p1, r.
      repeat split; try assumption; try lia.
      right. right. cbn [rr_buf]. split; [rewrite Hpfp; reflexivity|]. split; [exact Hz|]. split.
      * rewrite Hp1, !lenN_app, (StreamProofs.lenN_frame_bytes P). lia.
      * intros fuel'. cbn [Nat.add go_next rr_fr rr_buf rr_within]. rewrite Hrf.
        rewrite is_first_frame_type, is_last_frame_type, Hw. reflexivity.
  - (* at least one more frame follows *)
    set (fp := takeN (chunkof a p) p) in *.
    set (fb := fbytes (frame_type f false) fp) in *.
    assert (Hlfp : lenN fp = chunkof a p) by apply (H3 StreamProofs.lenN_take_chunk).
    assert (Hl1 : lenN (padof a ++ fb) = lenN (padof a) + 7 + chunkof a p).
    { unfold fb. rewrite lenN_app, (StreamProofs.lenN_frame_bytes P), Hlfp. lia. }
    assert (Hw : (if f then true else within) = true)
      by (destruct f; [reflexivity | destruct Hfw as [Hf|Hw]; [discriminate|exact Hw]]).
    destruct (N.lt_ge_cases j (lenN (padof a ++ fb))) as [Hcut|Hcut].
    + (* the cut is in this frame *)
      assert (HS' : S = pre ++ takeN j (padof a ++ fb) ++ zerosN z).
      { rewrite HS. rewrite (app_assoc (padof a) fb e), takeN_app_le by lia. reflexivity. }
      destruct (torn_frame2 a (frame_type f false) fp j
                  (H3 StreamProofs.chunk_le_maxw a p) Hcut S pre z fr Hok Hat HS' Hpre)
        as (p1 & r & Hap & Hpr & Hup & Hcase).
      destruct Hcase as [[Hl Ht] | [(fr' & Hrf & Hl & Ht) | (fr' & Hrf & Hl & Ht & Hz & Hp1)]].
      * exists 0%nat, (mkRR fr rbuf within), p1, r. repeat split; try assumption; try lia.
        left. intros fuel'. reflexivity.
      * exists 0%nat, (mkRR fr' rbuf false), p1, r. repeat split; try assumption; try lia.
        right. left. intros fuel'.
        cbn [Nat.add go_next rr_fr rr_buf rr_within]. rewrite Hrf. reflexivity.
      * exists 1%nat, (mkRR fr' ((if f then [] else rbuf) ++ fp) true), p1, r.
        repeat split; try assumption; try lia.
        left. intros fuel'. cbn [Nat.add go_next rr_fr rr_buf rr_within]. rewrite Hrf.
        rewrite is_first_frame_type, is_last_frame_type, Hw. reflexivity.
    + (* this frame is complete *)
      set (l1 := lenN (padof a ++ fb)) in *.
      assert (Hj1 : j - l1 < lenN e).
      { rewrite app_assoc, lenN_app in Hj. fold l1 in Hj. lia. }
      set (a1 := a + lenN (padof a) + 7 + chunkof a p) in *.
      assert (Ha1 : a1 = a + l1) by lia.
      assert (HS1 : S = pre ++ padof a ++ fb ++ (takeN (j - l1) e ++ zerosN z)).
      { rewrite HS. rewrite (app_assoc (padof a) fb e), takeN_app_ge by (fold l1; lia).
        fold l1. rewrite <- !app_assoc. reflexivity. }
      destruct (H3 StreamProofs.read_frame_at S fr a pre _ _ _ Hok Hat HS1 Hpre
                  (H3 StreamProofs.chunk_le_maxw a p)) as (fr' & Hrf & Hat').
      fold fp in Hrf, Hat'. rewrite Hlfp in Hat'. fold a1 in Hat'.
      destruct (IH (j - l1) Hj1 S (pre ++ padof a ++ fb) z fr'
                  ((if f then [] else rbuf) ++ fp) true Hok Hat')
        as (n & rr1 & p1 & r & Hn & Hap & Hpr & Hup & Hl & Ht & Hout).
      { rewrite HS1, <- !app_assoc. reflexivity. }
      { rewrite lenN_app. fold l1. lia. }
      { right. reflexivity. }
      assert (Hstep : forall g, gonext (Datatypes.S n + g) (mkRR fr rbuf within) =
                                gonext (n + g) (mkRR fr' ((if f then [] else rbuf) ++ fp) true)).
      { intros g. cbn [Nat.add go_next rr_fr rr_buf rr_within]. rewrite Hrf.
        rewrite is_first_frame_type, is_last_frame_type, Hw. reflexivity. }
      exists (Datatypes.S n), rr1, p1, r.
      split; [lia|]. split; [lia|]. split; [exact Hpr|]. split.
      { intros m Hm. apply Hup. lia. }
      split; [exact Hl|]. split; [exact Ht|].
      destruct Hout as [Hsil | [Hcor | (Hbuf & Hz & Hend & Hrec)]].
      * left. intros fuel'. rewrite Hstep. apply Hsil.
      * right. left. intros fuel'. rewrite Hstep. apply Hcor.
      * right. right. split.
        { rewrite Hbuf. cbn match. rewrite <- app_assoc. f_equal. apply takeN_dropN. }
        split.
        { rewrite (app_assoc (padof a) fb e), dropN_app_ge by (fold l1; lia). exact Hz. }
        split.
        { rewrite (app_assoc (padof a) fb e), lenN_app. fold l1. lia. }
        intros fuel'. rewrite Hstep. apply Hrec.
Qed.


(* ---------- the torn entry x, then the end ---------- *)
Lemma torn_tail a x e k j S pre z gofuel :
  encrel a true x e k -> j < lenN e ->
  S = pre ++ takeN j e ++ zerosN z -> lenN pre = a -> sok S ->
  forall rr1 g rr,
    atpos S (rr_fr rr1) a -> gonext gofuel rr = gonext g rr1 ->
    (k + 2 <= g)%nat -> (1 <= gofuel)%nat ->
    exists l c rrf pf,
      readsC gofuel rr l c rrf /\ (c <= 1)%nat /\
      (l = [] \/ (l = [(rr, x)] /\ all_zero (dropN j e) = true /\ a + lenN e <= pf)) /\
      fin_at S (rr_fr rrf) pf /\ a <= pf /\
      (forall m, a + j <= m * B -> pf <= m * B) /\ resume_ok S pf.
Proof.
  intros He Hj HS Hpre Hok [fr rbuf within] g rr Hat Hgo Hg Hgf. cbn [rr_fr] in Hat.
  destruct (torn_walk2 a true x e k He j Hj S pre z fr rbuf within Hok Hat HS Hpre
              (or_introl eq_refl))
    as (n & [fr1 b1 w1] & p1 & r & Hn & Hap & Hpr & Hup & Hl & Ht & Hout).
  cbn [rr_fr rr_buf] in *.
  destruct Hout as [Hsil | [Hcor | (Hbuf & Hz & Hend & Hrec)]].
  - assert (Eg : g = (n + Datatypes.S (g - n - 1))%nat) by lia.
    destruct (lands_end S fr1 p1 r b1 w1 (g - n - 1) Hok Hl Ht)
      as (fr' & pf & Hgo' & Hfin & Hp1 & Hpf & Hres).
    exists [], 0%nat, (mkRR fr' b1 w1), pf.
    split; [|split; [lia|split; [left; reflexivity|]]].
    + apply RC_end. rewrite Hgo, Eg, Hsil. exact Hgo'.
    + cbn [rr_fr]. split; [exact Hfin|]. split; [lia|]. split; [|exact Hres].
      intros m Hm. specialize (Hup m Hm). lia.
  - assert (Eg : g = (n + Datatypes.S (g - n - 1))%nat) by lia.
    destruct gofuel as [|gf]; [lia|].
    destruct (lands_end S fr1 p1 r b1 w1 gf Hok Hl Ht)
      as (fr' & pf & Hgo' & Hfin & Hp1 & Hpf & Hres).
    exists [], 1%nat, (mkRR fr' b1 w1), pf.
    split; [|split; [lia|split; [left; reflexivity|]]].
    + eapply RC_cor; [rewrite Hgo, Eg; apply Hcor|]. apply RC_end. exact Hgo'.
    + cbn [rr_fr]. split; [exact Hfin|]. split; [lia|]. split; [|exact Hres].
      intros m Hm. specialize (Hup m Hm). lia.
  - assert (Eg : g = (n + Datatypes.S (g - n - 1))%nat) by lia.
    destruct gofuel as [|gf]; [lia|].
    destruct (lands_end S fr1 p1 r b1 w1 gf Hok Hl Ht)
      as (fr' & pf & Hgo' & Hfin & Hp1 & Hpf & Hres).
    exists [(rr, x)], 0%nat, (mkRR fr' b1 w1), pf.
    split; [|split; [lia|split; [right; repeat split; [exact Hz | lia]|]]].
    + cbn [app] in Hbuf. rewrite <- Hbuf.
      change b1 with (rr_buf (mkRR fr1 b1 w1)) at 1.
      eapply RC_rec; [rewrite Hgo, Eg; apply Hrec|]. apply RC_end. exact Hgo'.
    + cbn [rr_fr]. split; [exact Hfin|]. split; [lia|]. split; [|exact Hres].
      intros m Hm. specialize (Hup m Hm). lia.
Qed.

(* ---------- a run of intact entries, traced (continuation form) ---------- *)
Lemma run_trc a es t :
  encsrel a es t ->
  forall S pre post rr gofuel,
    sok S -> atpos S (rr_fr rr) a -> S = pre ++ t ++ post -> lenN pre = a ->
    lenN t <= 7 * N.of_nat gofuel ->
    exists rrs rr',
      length rrs = length es /\ atpos S (rr_fr rr') (a + lenN t) /\
      tr_ok P S rrs (starts a es) /\
      forall l' c rrf, readsC gofuel rr' l' c rrf -> readsC gofuel rr (combine rrs es ++ l') c rrf.
Proof.
  induction 1 as [a | a p ps e k t He Hes IH]; intros S pre post rr gofuel Hok Hat HS Hpre Hgf.
  - exists [], rr. rewrite (@lenN_nil byte), N.add_0_r. cbn [length combine app ResyncProofs.starts].
    repeat split; try assumption; [constructor | intros l' c rrf H; exact H].
  - destruct rr as [fr rbuf within]. cbn [rr_fr] in Hat.
    rewrite <- app_assoc in HS. rewrite lenN_app in Hgf.
    pose proof (H3 StreamProofs.enc_rel_frames _ _ _ _ _ He) as [Hk _].
    destruct (H3 StreamProofs.go_next_record a true p e k He S pre (t ++ post) fr rbuf within gofuel
                Hok Hat HS Hpre)
      as (fr' & Hgo & Hat'); [left; reflexivity | lia |].
    cbn [app] in Hgo.
    destruct (IH S (pre ++ e) post (mkRR fr' p false) gofuel Hok Hat')
      as (rrs & rr' & Hlen & Hat'' & Htr & Hcont).
    { rewrite HS, <- app_assoc. reflexivity. }
    { rewrite lenN_app. lia. }
    { lia. }
    exists (mkRR fr rbuf within :: rrs), rr'.
    split; [cbn [length]; now rewrite Hlen|].
    split; [rewrite lenN_app; replace (a + (lenN e + lenN t)) with (a + lenN e + lenN t) by lia;
            exact Hat''|].
    split.
    + rewrite (H3 starts_cons_rel a p ps e k He). constructor; [|exact Htr].
      cbn [rr_fr snd]. pose proof (at_pos_bpos P HBS_lo HBS_hi Hcrc S fr a Hat).
      pose proof (H2 ffp_ge a). lia.
    + intros l' c rrf Hl'. cbn [combine app].
      change p with (rr_buf (mkRR fr' p false)) at 1.
      eapply RC_rec; [exact Hgo|]. apply Hcont. exact Hl'.
Qed.

Lemma combine_app {A C} (l1 : list A) : forall (l1' : list C) l2 l2',
  length l1 = length l1' -> combine (l1 ++ l2) (l1' ++ l2') = combine l1 l1' ++ combine l2 l2'.
Proof.
  induction l1 as [|x l1 IH]; intros [|y l1'] l2 l2' H; cbn [length] in H; try discriminate;
    cbn [app combine]; [reflexivity|]. f_equal. apply IH. lia.
Qed.

(* ---------- a run of intact entries followed by the torn entry, when the first go_next
   behaves as a go_next (fuel g) of a reader rr1 positioned at the start r of the run ---------- *)
Lemma run_torn r es t x e k j S pre z gofuel :
  encsrel r es t -> encrel (r + lenN t) true x e k -> j < lenN e ->
  S = pre ++ t ++ takeN j e ++ zerosN z -> lenN pre = r -> sok S ->
  lenN t + lenN e + 14 <= 7 * N.of_nat gofuel ->
  forall rr1 g rr,
    atpos S (rr_fr rr1) r -> gonext gofuel rr = gonext g rr1 ->
    lenN t + lenN e + 14 <= 7 * N.of_nat g ->
    bpos P S (fr_rd (rr_fr rr)) <= ffp r ->
    exists rrs xd c rrf pf,
      length rrs = length (es ++ xd) /\
      readsC gofuel rr (combine rrs (es ++ xd)) c rrf /\ (c <= 1)%nat /\
      tr_ok P S rrs (starts r (es ++ xd)) /\
      (xd = [] \/ (xd = [x] /\ all_zero (dropN j e) = true /\ r + lenN t + lenN e <= pf)) /\
      fin_at S (rr_fr rrf) pf /\ r + lenN t <= pf /\
      (forall m, r + lenN t + j <= m * B -> pf <= m * B) /\ resume_ok S pf.
Proof.
  intros Hes He Hj HS Hpre Hok Hgf rr1 g rr Hat Hgo Hg Hb.
  pose proof (H3 StreamProofs.enc_rel_frames _ _ _ _ _ He) as [Hkx _].
  inversion Hes as [a0 Ha0 Hnil Ht | a0 p ps e1 k1 t' He1 Hps Ha0 Hcons Ht]; subst a0 es t.
  - cbn [app] in HS. rewrite (@lenN_nil byte), N.add_0_r in *.
    destruct (torn_tail r x e k j S pre z gofuel He Hj HS Hpre Hok rr1 g rr Hat Hgo)
      as (l & c & rrf & pf & Hrd & Hc & Hl & Hfin & Hpf & Hup & Hres); [lia | lia |].
    destruct Hl as [-> | (-> & Hz & Hend)].
    + exists [], [], c, rrf, pf. cbn [app length combine ResyncProofs.starts].
      repeat split; try assumption; [constructor | left; reflexivity].
    + exists [rr], [x], c, rrf, pf. cbn [app length combine].
      split; [reflexivity|]. split; [exact Hrd|]. split; [exact Hc|]. split.
      { cbn [ResyncProofs.starts]. constructor; [exact Hb | constructor]. }
      split; [right; repeat split; assumption|]. repeat split; assumption.
  - destruct rr1 as [fr1 rbuf1 within1]. cbn [rr_fr] in Hat.
    rewrite <- !app_assoc in HS. rewrite lenN_app in *.
    pose proof (H3 StreamProofs.enc_rel_frames _ _ _ _ _ He1) as [Hk1 _].
    destruct (H3 StreamProofs.go_next_record r true p e1 k1 He1 S pre (t' ++ takeN j e ++ zerosN z)
                fr1 rbuf1 within1 g Hok Hat HS Hpre)
      as (fr' & Hgo' & Hat'); [left; reflexivity | lia |].
    cbn [app] in Hgo'.
    destruct (run_trc (r + lenN e1) ps t' Hps S (pre ++ e1) (takeN j e ++ zerosN z)
                (mkRR fr' p false) gofuel Hok Hat')
      as (rrs & rr' & Hlen & Hat'' & Htr & Hcont).
    { rewrite HS, <- app_assoc. reflexivity. }
    { rewrite lenN_app. lia. }
    { lia. }
    replace (r + (lenN e1 + lenN t')) with (r + lenN e1 + lenN t') in * by lia.
    destruct (torn_tail (r + lenN e1 + lenN t') x e k j S (pre ++ e1 ++ t') z gofuel He Hj)
      with (rr1 := rr') (g := gofuel) (rr := rr')
      as (l & c & rrf & pf & Hrd & Hc & Hl & Hfin & Hpf & Hup & Hres).
    { rewrite HS, <- !app_assoc. reflexivity. }
    { rewrite !lenN_app. lia. }
    { exact Hok. }
    { exact Hat''. }
    { reflexivity. }
    { lia. }
    { lia. }
    assert (Hfirst : forall l0, readsC gofuel rr' l0 c rrf ->
                       readsC gofuel rr ((rr, p) :: combine rrs ps ++ l0) c rrf).
    { intros l0 Hl0. change p with (rr_buf (mkRR fr' p false)) at 1.
      eapply RC_rec; [rewrite Hgo; exact Hgo'|]. apply Hcont. exact Hl0. }
    assert (Hst0 : bpos P S (fr_rd (rr_fr rr)) <= snd (r, ffp r)) by exact Hb.
    destruct Hl as [-> | (-> & Hz & Hend)].
    + exists (rr :: rrs), [], c, rrf, pf. rewrite app_nil_r.
      split; [cbn [length]; now rewrite Hlen|]. split.
      { cbn [combine]. rewrite <- (app_nil_r (combine rrs ps)). apply Hfirst. exact Hrd. }
      split; [exact Hc|]. split.
      { rewrite (H3 starts_cons_rel r p ps e1 k1 He1). constructor; [exact Hst0 | exact Htr]. }
      split; [left; reflexivity|]. repeat split; assumption.
    + exists (rr :: rrs ++ [rr']), [x], c, rrf, pf.
      split; [cbn [length app]; rewrite !app_length, Hlen; reflexivity|]. split.
      { change ((p :: ps) ++ [x]) with (p :: (ps ++ [x])). cbn [combine].
        rewrite combine_app by exact Hlen. cbn [combine]. apply Hfirst. exact Hrd. }
      split; [exact Hc|]. split.
      { change ((p :: ps) ++ [x]) with (p :: (ps ++ [x])).
        rewrite (H3 starts_cons_rel r p (ps ++ [x]) e1 k1 He1).
        constructor; [exact Hst0|].
        rewrite (H3 starts_app). apply Forall2_app; [exact Htr|].
        cbn [ResyncProofs.starts]. constructor; [|constructor]. cbn [snd].
        rewrite (H3 cursor_after_rel _ _ _ Hps).
        pose proof (at_pos_bpos P HBS_lo HBS_hi Hcrc S _ _ Hat'').
        pose proof (H2 ffp_ge (r + lenN e1 + lenN t')). lia. }
      split; [right; repeat split; [exact Hz | lia]|]. repeat split; assumption.
Qed.


(* ---------- reading from a block boundary ---------- *)
Theorem read_from_boundary_torn a es1 es2 t1 t2 x e k j S pre z kb buf0 gofuel :
  encsrel a es1 t1 -> encsrel (a + lenN t1) es2 t2 ->
  encrel (a + lenN t1 + lenN t2) true x e k -> j < lenN e ->
  S = pre ++ (t1 ++ t2) ++ takeN j e ++ zerosN z -> lenN pre = a -> sok S ->
  a <= kb * B -> (kb + 1) * B <= lenN S ->
  Forall (fun s => snd s < kb * B) (starts a es1) ->
  kb * B <= ffp (a + lenN t1) ->
  lenN t1 + lenN t2 + lenN e + 14 <= 7 * N.of_nat gofuel ->
  exists rrs xd c rrf pf,
    length rrs = length (es2 ++ xd) /\
    readsC gofuel (mkRR (rdat S kb 0) buf0 false) (combine rrs (es2 ++ xd)) c rrf /\
    (c <= 1)%nat /\
    tr_ok P S rrs (starts (a + lenN t1) (es2 ++ xd)) /\
    (xd = [] \/
     (xd = [x] /\ all_zero (dropN j e) = true /\ a + lenN t1 + lenN t2 + lenN e <= pf)) /\
    fin_at S (rr_fr rrf) pf /\ a + lenN t1 + lenN t2 <= pf /\
    (forall m, a + lenN t1 + lenN t2 + j <= m * B -> pf <= m * B) /\ resume_ok S pf.
Proof.
  intros Hes1 Hes2 He Hj HS Hpre Hok Ha Hblk Hall Hsuf Hgf.
  pose proof (H3 at_pos_boundary S kb Hblk) as Hat_b.
  assert (Hbp : bpos P S (fr_rd (rdat S kb 0)) = kb * B)
    by (apply (bpos_rd_at P HBS_lo HBS_hi Hcrc); exact Hblk).
  destruct (H3 boundary_cases a es1 t1 kb Hes1 Ha Hall)
    as [HA | (t1' & e1 & e2 & p2 & k2 & Ht1 & Hl & Hrel)].
  - set (a1 := a + lenN t1) in *.
    assert (Hb : kb * B = ffp a1) by (apply (H2 boundary_is_ffp); assumption).
    assert (Hat_a : atpos S (rdat S (a1 / B) (a1 mod B)) a1).
    { pose proof (N.div_mod a1 B) as Hdm. pose proof (H2 StreamProofs.mod_lt_B a1) as Hm.
      exists (a1 / B), (a1 mod B). repeat split; lia. }
    set (fr_a := rdat S (a1 / B) (a1 mod B)) in *.
    assert (Hrf : rframe fr_a = rframe (rdat S kb 0)).
    { apply (H3 TornProofs.at_pos_pad S fr_a a1 kb 0 Hok Hat_a);
        [unfold first_frame_pos in Hb; lia | lia | exact Hblk]. }
    destruct gofuel as [|g0]; [lia|].
    destruct (run_torn a1 es2 t2 x e k j S (pre ++ t1) z (Datatypes.S g0) Hes2 He Hj)
      with (rr1 := mkRR fr_a buf0 false) (g := Datatypes.S g0)
           (rr := mkRR (rdat S kb 0) buf0 false)
      as (rrs & xd & c & rrf & pf & H).
    { rewrite HS, <- !app_assoc. reflexivity. }
    { rewrite lenN_app. lia. }
    { exact Hok. }
    { lia. }
    { exact Hat_a. }
    { apply (TornProofs.gonext_cong P). symmetry. exact Hrf. }
    { lia. }
    { cbn [rr_fr]. rewrite Hbp. lia. }
    exists rrs, xd, c, rrf, pf. exact H.
  - subst t1. rewrite !lenN_app in *.
    destruct (H3 go_next_skip (kb * B) false p2 e2 k2 Hrel eq_refl S (pre ++ t1' ++ e1)
                (t2 ++ takeN j e ++ zerosN z) (rdat S kb 0) Hok Hat_b) as (fr' & Hat' & Hskip).
    { rewrite HS, <- !app_assoc. reflexivity. }
    { rewrite !lenN_app. lia. }
    pose proof (H3 StreamProofs.enc_rel_frames _ _ _ _ _ Hrel) as [Hk2 _].
    destruct (run_torn (a + (lenN t1' + (lenN e1 + lenN e2))) es2 t2 x e k j S
                (pre ++ t1' ++ e1 ++ e2) z gofuel Hes2 He Hj)
      with (rr1 := mkRR fr' buf0 false) (g := (gofuel - k2)%nat)
           (rr := mkRR (rdat S kb 0) buf0 false)
      as (rrs & xd & c & rrf & pf & H).
    { rewrite HS, <- !app_assoc. reflexivity. }
    { rewrite !lenN_app. lia. }
    { exact Hok. }
    { lia. }
    { cbn [rr_fr]. replace (a + (lenN t1' + (lenN e1 + lenN e2))) with (kb * B + lenN e2) by lia.
      exact Hat'. }
    { replace gofuel with (k2 + (gofuel - k2))%nat at 1 by lia. apply Hskip. }
    { lia. }
    { cbn [rr_fr]. rewrite Hbp.
      pose proof (H2 ffp_ge (a + (lenN t1' + (lenN e1 + lenN e2)))). lia. }
    exists rrs, xd, c, rrf, pf. exact H.
Qed.

(* (1) the entries delivered from block kb of S = pre ++ t ++ (torn x) ++ zeros: those of es
   whose first frame is at or after the boundary, then possibly x itself *)
Theorem read_delivered_torn a es t x e k j S pre z kb buf0 gofuel :
  encsrel a es t -> encrel (a + lenN t) true x e k -> j < lenN e ->
  S = pre ++ t ++ takeN j e ++ zerosN z -> lenN pre = a -> sok S ->
  a <= kb * B -> (kb + 1) * B <= lenN S -> kb * B <= ffp (a + lenN t) ->
  lenN t + lenN e + 14 <= 7 * N.of_nat gofuel ->
  exists rrs xd c rrf pf,
    length rrs = length (delivered_from (kb * B) a es ++ xd) /\
    readsC gofuel (mkRR (rdat S kb 0) buf0 false)
           (combine rrs (delivered_from (kb * B) a es ++ xd)) c rrf /\
    (c <= 1)%nat /\
    tr_ok P S rrs (starts (cursor_after a (skipped_before (kb * B) a es))
                          (delivered_from (kb * B) a es ++ xd)) /\
    (xd = [] \/ (xd = [x] /\ all_zero (dropN j e) = true /\ a + lenN t + lenN e <= pf)) /\
    fin_at S (rr_fr rrf) pf /\ a + lenN t <= pf /\
    (forall m, a + lenN t + j <= m * B -> pf <= m * B) /\ resume_ok S pf.
Proof.
  intros Hes He Hj HS Hpre Hok Ha Hblk Hsuf Hgf.
  pose proof (skipped_delivered P (kb * B) es a) as Hsplit.
  pose proof (skipped_starts P (kb * B) es a) as Hss.
  pose proof (H3 delivered_head (kb * B) es a) as Hhead.
  set (es1 := skipped_before (kb * B) a es) in *.
  set (es2 := delivered_from (kb * B) a es) in *.
  clearbody es1 es2.
  rewrite Hsplit in Hes.
  destruct (H3 encs_rel_app_inv es1 a es2 t Hes) as (t1 & t2 & -> & Hes1 & Hes2).
  rewrite lenN_app in *.
  replace (a + (lenN t1 + lenN t2)) with (a + lenN t1 + lenN t2) in * by lia.
  rewrite (H3 cursor_after_rel _ _ _ Hes1) in *.
  apply (read_from_boundary_torn a es1 es2 t1 t2 x e k j S pre z kb buf0 gofuel);
    try assumption; try lia.
  destruct es2 as [|p2 ps2].
  - inversion Hes2; subst. rewrite (@lenN_nil byte), N.add_0_r in Hsuf. exact Hsuf.
  - apply Hhead. discriminate.
Qed.


(* ---------- along a trace the reader never goes back ---------- *)
Local Notation rest rr := (lenN (vr_rest (fr_rd (rr_fr rr)))).

Lemma reads_trc_rest g rr l c rrf :
  readsC g rr l c rrf ->
  rest rrf <= rest rr /\
  Forall (fun x => rest (fst x) <= rest rr /\ rest rrf <= rest (fst x)) l /\
  StronglySorted (fun x y => rest (fst y) <= rest (fst x)) l.
Proof.
  induction 1 as [rr rr' Hgo | rr rr' l c rrf Hgo Htr (IH1 & IH2 & IH3)
                 | rr rr' l c rrf Hgo Htr (IH1 & IH2 & IH3)].
  - pose proof (H2 go_next_rest g rr) as H. rewrite Hgo in H. cbn [fst] in H.
    split; [exact H|]. split; constructor.
  - pose proof (H2 go_next_rest g rr) as H. rewrite Hgo in H. cbn [fst] in H.
    split; [lia|]. split.
    + constructor; [cbn [fst]; lia|].
      eapply Forall_impl; [|exact IH2]. cbn beta. intros x [Hx1 Hx2]. lia.
    + constructor; [exact IH3|].
      eapply Forall_impl; [|exact IH2]. cbn beta. cbn [fst]. intros x [Hx1 Hx2]. lia.
  - pose proof (H2 go_next_rest g rr) as H. rewrite Hgo in H. cbn [fst] in H.
    split; [lia|]. split; [|exact IH3].
    eapply Forall_impl; [|exact IH2]. cbn beta. intros x [Hx1 Hx2]. lia.
Qed.

(* ---------- the clean end of OpenReplay in the same vocabulary ---------- *)
Lemma at_end_fin S written z fr e :
  S = written ++ zerosN z -> lenN written <= e -> at_end P S fr e ->
  exists pf, fin_at S fr pf /\ e <= pf /\ pf <= ffp e /\ resume_ok S pf.
Proof.
  intros HS Hw (k & c & -> & Hblk & Hc & Hcase).
  exists (k * B + c).
  assert (Hz : forall q, e <= q -> all_zero (dropN q S) = true).
  { intros q Hq. rewrite HS, dropN_app_ge by lia. apply all_zero_dropN, all_zero_zerosN. }
  pose proof (H2 ffp_ge e) as Hge.
  split; [exists k, c, false; repeat split; assumption|].
  destruct Hcase as [[Hp Hc7] | (Hp & Hc7 & Hlast)].
  - split; [lia|]. split; [lia|]. left. apply Hz. lia.
  - split; [lia|]. split; [lia|]. left. apply Hz. lia.
Qed.

End Stream.

(* ====================================================================== *)
(* Part 2. The replay loop is a fold over the trace (Corruptions ignored)  *)
(* ====================================================================== *)
Section Replay.
Variable P : params.
Local Notation readsFc := (reads_trc P (rd_next P) rd_block).

Theorem replay_loop_fold_c g rr l c rrf :
  readsFc g rr l c rrf ->
  forall es, Forall2 (fun x e => entry_deser (snd x) = Some e) l es ->
  forall fuel qs, (length l + c < fuel)%nat ->
  match replay_entries qs (combine (tags_of l) es) with
  | Some qs' => replay_loop P fuel g rr qs = (rrf, RpDone qs')
  | None => exists rr', replay_loop P fuel g rr qs = (rr', RpCorruption)
  end.
Proof.
  induction 1 as [rr rr' Hgo | rr rr' l c rrf Hgo Htr IH | rr rr' l c rrf Hgo Htr IH];
    intros es Hes fuel qs Hf;
    (destruct fuel as [|fuel]; [cbn [length] in Hf; lia|]); rewrite replay_loop_S; cbv zeta;
    rewrite Hgo.
  - inversion Hes; subst. cbn [tags_of map combine replay_entries]. reflexivity.
  - inversion Hes as [|x e l0 es0 He Hes0]; subst. cbn [snd] in He. rewrite He.
    cbn [tags_of map combine replay_entries fst]. fold (tag_of rr).
    destruct (apply_entry qs (tag_of rr) e) as [qs1|].
    + cbn [length] in Hf. apply IH; [exact Hes0 | lia].
    + exists rr'. reflexivity.
  - apply IH; [exact Hes | lia].
Qed.
End Replay.


(* ====================================================================== *)
(* Part 2b. Encodings from a cursor inside the padding; cutting a list     *)
(* ====================================================================== *)
Section Shift.
Variable P : params.
Hypothesis HBS_lo : 7 < BS P.
Hypothesis HBS_hi : BS P <= 65542.
Hypothesis Hcrc : forall t p, crcf P t p < 2 ^ 32.
Local Notation B := (BS P).
Local Notation ffp := (first_frame_pos P).
Local Notation encof := (enc_of P).
Local Notation encsof := (encs_of P).
Local Notation H3 f := (f P HBS_lo HBS_hi Hcrc) (only parsing).
Local Notation H2 f := (f P HBS_lo HBS_hi) (only parsing).

(* a cursor c inside the padding that the next frame written at a starts with *)
Lemma ffp_between a c : a <= c -> c <= ffp a -> ffp c = ffp a.
Proof.
  intros Hac Hc.
  pose proof (N.div_mod a B ltac:(lia)) as Hdm. pose proof (N.mod_lt a B ltac:(lia)) as Hm.
  set (q := a / B) in *. set (m := a mod B) in *. clearbody q m.
  assert (Ea : a = q * B + m) by lia. clear Hdm. subst a.
  rewrite (H2 ffp_kc q m) in * by lia.
  destruct (N.ltb_spec (B - m) 7) as [Hlt|Hge].
  - replace c with (q * B + (c - q * B)) by lia. rewrite (H2 ffp_kc) by lia.
    destruct (N.ltb_spec (B - (c - q * B)) 7); lia.
  - replace c with (q * B + m) by lia. rewrite (H2 ffp_kc) by lia.
    destruct (N.ltb_spec (B - m) 7); lia.
Qed.

Lemma pad_split a c : a <= c -> c <= ffp a -> pad_of P a = zerosN (c - a) ++ pad_of P c.
Proof.
  intros Hac Hc. rewrite !(H2 pad_of_zeros), (ffp_between a c Hac Hc), TornProofs.zerosN_app.
  f_equal. lia.
Qed.

Lemma enc_of_shift a c p : a <= c -> c <= ffp a -> encof a p = zerosN (c - a) ++ encof c p.
Proof.
  intros Hac Hc. rewrite (H3 enc_of_ffp_eq a p), (H3 enc_of_ffp_eq c p), (ffp_between a c Hac Hc).
  rewrite (pad_split a c Hac Hc), <- app_assoc. reflexivity.
Qed.

Lemma encs_of_shift a c es : a <= c -> c <= ffp a -> es <> [] ->
  encsof a es = zerosN (c - a) ++ encsof c es.
Proof.
  intros Hac Hc Hne. rewrite (H3 encs_of_ffp_eq a es Hne), (H3 encs_of_ffp_eq c es Hne).
  rewrite (ffp_between a c Hac Hc), (pad_split a c Hac Hc), <- app_assoc. reflexivity.
Qed.

(* the first-frame positions do not depend on where in the padding the writer started *)
Lemma starts_shift a c es : a <= c -> c <= ffp a ->
  map snd (starts P c es) = map snd (starts P a es).
Proof.
  intros Hac Hc. rewrite <- (H3 starts_ffp c es), <- (H3 starts_ffp a es).
  rewrite (ffp_between a c Hac Hc). reflexivity.
Qed.

(* ---------- cutting the encoding of a list of entries ---------- *)
Lemma cut_split xs : forall c j, j <= lenN (encsof c xs) ->
  j = lenN (encsof c xs) \/
  exists xs1 x xs2,
    xs = xs1 ++ x :: xs2 /\ lenN (encsof c xs1) <= j /\
    j < lenN (encsof c xs1) + lenN (encof (c + lenN (encsof c xs1)) x) /\
    takeN j (encsof c xs) =
      encsof c xs1 ++ takeN (j - lenN (encsof c xs1)) (encof (c + lenN (encsof c xs1)) x).
Proof.
  induction xs as [|p ps IH]; intros c j Hj; cbn [encs_of] in *.
  - left. rewrite (@lenN_nil byte) in *. lia.
  - rewrite lenN_app in Hj.
    destruct (N.lt_ge_cases j (lenN (encof c p))) as [Hlt|Hge].
    + right. exists [], p, ps. cbn [encs_of app]. rewrite (@lenN_nil byte), N.add_0_r, N.sub_0_r.
      repeat split; try lia. apply takeN_app_le. lia.
    + destruct (IH (c + lenN (encof c p)) (j - lenN (encof c p)) ltac:(lia))
        as [Hend | (xs1 & x & xs2 & Hxs & Hle & Hlt & Htk)].
      * left. rewrite lenN_app. lia.
      * right. exists (p :: xs1), x, xs2. cbn [encs_of app]. rewrite lenN_app.
        replace (c + (lenN (encof c p) + lenN (encsof (c + lenN (encof c p)) xs1)))
          with (c + lenN (encof c p) + lenN (encsof (c + lenN (encof c p)) xs1)) by lia.
        split; [rewrite Hxs; reflexivity|]. split; [lia|]. split; [lia|].
        rewrite takeN_app_ge by lia. rewrite Htk, <- app_assoc. do 3 f_equal. lia.
Qed.

(* ---------- delivered_from / skipped_before on an extended list ---------- *)
Lemma delivered_from_app b es1 : forall a es2,
  b <= ffp (cursor_after P a es1) ->
  delivered_from P b a (es1 ++ es2) = delivered_from P b a es1 ++ es2 /\
  skipped_before P b a (es1 ++ es2) = skipped_before P b a es1.
Proof.
  induction es1 as [|p ps IH]; intros a es2 Hb.
  - rewrite (H2 cursor_after_nil) in Hb. cbn [app delivered_from skipped_before].
    destruct es2 as [|q qs]; cbn [delivered_from skipped_before]; [split; reflexivity|].
    destruct (N.leb_spec b (ffp a)) as [_|Hgt]; [split; reflexivity | lia].
  - rewrite (H3 cursor_after_cons) in Hb. cbn [app delivered_from skipped_before].
    destruct (N.leb_spec b (ffp a)) as [_|Hgt]; [split; reflexivity|].
    destruct (IH (a + lenN (encof a p)) es2 Hb) as [E1 E2]. rewrite E1, E2. split; reflexivity.
Qed.

(* ---------- the setting of the task in normal form ---------- *)
(* T = encoding of es_all from 0; the writer, at cursor c0 inside the padding after T, was
   writing xs; j bytes of that are there.  Either nothing is torn (the body is the complete
   encoding of es_all ++ xs, possibly followed by padding zeros), or an entry x of xs is torn:
   the body is the complete encoding of es_all ++ xs1 followed by j' bytes of the encoding e of
   x written at the cursor where that encoding ends. *)
Lemma torn_normal (T : bytes) c0 es_all xs j :
  encs_rel P 0 es_all T -> lenN T <= c0 -> c0 <= ffp (lenN T) -> j <= lenN (encsof c0 xs) ->
  let body := T ++ zerosN (c0 - lenN T) ++ takeN j (encsof c0 xs) in
  (j = lenN (encsof c0 xs) /\
   exists z0, body = encsof 0 (es_all ++ xs) ++ zerosN z0 /\
              (xs <> [] -> z0 = 0 /\ lenN (encsof 0 (es_all ++ xs)) = c0 + lenN (encsof c0 xs)) /\
              (xs = [] -> lenN T + z0 = c0)) \/
  (exists xs1 x xs2 j',
     xs = xs1 ++ x :: xs2 /\
     let t := encsof 0 (es_all ++ xs1) in
     let e := encof (lenN t) x in
     let ex := encof (c0 + lenN (encsof c0 xs1)) x in
     j' < lenN e /\ body = t ++ takeN j' e /\ lenN t + j' = c0 + j /\
     lenN (encsof c0 xs1) <= j /\ j < lenN (encsof c0 xs1) + lenN ex /\
     dropN j' e = dropN (j - lenN (encsof c0 xs1)) ex /\
     lenN t + lenN e = c0 + lenN (encsof c0 xs1) + lenN ex /\
     lenN T <= lenN t /\ lenN t <= c0 + lenN (encsof c0 xs1) /\ c0 <= ffp (lenN t) /\
     (xs1 <> [] -> lenN t = c0 + lenN (encsof c0 xs1))).
Proof.
  intros HT Hlo Hhi Hj body.
  pose proof (H3 encs_rel_encs_of _ _ _ HT) as ET.
  assert (Eapp : forall ys, ys <> [] ->
            encsof 0 (es_all ++ ys) = T ++ zerosN (c0 - lenN T) ++ encsof c0 ys).
  { intros ys Hne. rewrite (H3 encs_of_app), ET, N.add_0_l.
    rewrite (encs_of_shift (lenN T) c0 ys Hlo Hhi Hne). reflexivity. }
  destruct (cut_split xs c0 j Hj) as [Hend | (xs1 & x & xs2 & Hxs & Hle & Hlt & Htk)].
  - left. split; [exact Hend|]. unfold body. rewrite Hend, takeN_all by lia.
    destruct xs as [|p ps].
    + exists (c0 - lenN T). cbn [encs_of]. rewrite !app_nil_r, ET.
      split; [reflexivity|]. split; [congruence | intros _; lia].
    + exists 0. rewrite (Eapp (p :: ps)) by discriminate. cbn [zerosN]. rewrite !app_nil_r.
      split; [reflexivity|]. split; [|discriminate]. intros _. split; [reflexivity|].
      rewrite !lenN_app, lenN_zerosN. lia.
  - right.
    destruct xs1 as [|p1 ps1].
    + (* the first entry of xs is the torn one: its encoding from lenN T starts with the padding *)
      exists [], x, xs2, (c0 - lenN T + j). split; [exact Hxs|].
      cbn [encs_of] in *. rewrite (@lenN_nil byte), N.add_0_r, N.sub_0_r in *.
      rewrite !app_nil_r, ET. cbv zeta.
      rewrite (enc_of_shift (lenN T) c0 x Hlo Hhi).
      rewrite !lenN_app, lenN_zerosN.
      split; [lia|]. split.
      { unfold body. rewrite Htk. cbn [app]. rewrite takeN_app_ge by (rewrite lenN_zerosN; lia).
        rewrite lenN_zerosN. do 3 f_equal. lia. }
      split; [lia|]. split; [lia|]. split; [lia|]. split.
      { rewrite dropN_app_ge by (rewrite lenN_zerosN; lia). rewrite lenN_zerosN. f_equal. lia. }
      split; [lia|]. split; [lia|]. split; [lia|]. split; [exact Hhi | congruence].
    + exists (p1 :: ps1), x, xs2, (j - lenN (encsof c0 (p1 :: ps1))). split; [exact Hxs|].
      cbv zeta. rewrite (Eapp (p1 :: ps1)) by discriminate.
      set (t1 := encsof c0 (p1 :: ps1)) in *.
      assert (Elen : lenN (T ++ zerosN (c0 - lenN T) ++ t1) = c0 + lenN t1).
      { rewrite !lenN_app, lenN_zerosN. lia. }
      rewrite Elen.
      split; [lia|]. split.
      { unfold body. rewrite Htk, <- !app_assoc. reflexivity. }
      split; [lia|]. split; [lia|]. split; [lia|]. split; [reflexivity|].
      split; [lia|]. split; [lia|]. split; [lia|]. split; [|intros _; reflexivity].
      pose proof (H2 ffp_ge (c0 + lenN t1)). lia.
Qed.

End Shift.


(* ====================================================================== *)
(* Part 2c. (1) Stream level, in the setting of the task                   *)
(* ====================================================================== *)
Section StreamSetting.
Variable P : params.
Hypothesis HBS_lo : 7 < BS P.
Hypothesis HBS_hi : BS P <= 65542.
Hypothesis Hcrc : forall t p, crcf P t p < 2 ^ 32.
Hypothesis Hnc : no_zero_collision P.
Local Notation B := (BS P).
Local Notation ffp := (first_frame_pos P).
Local Notation encof := (enc_of P).
Local Notation encsof := (encs_of P).
Local Notation readsC := (reads_trc P (vr_next P) vr_block).
Local Notation H3 f := (f P HBS_lo HBS_hi Hcrc) (only parsing).
Local Notation H2 f := (f P HBS_lo HBS_hi) (only parsing).

Lemma lenN_encs_snoc' c xs1 x :
  lenN (encsof c (xs1 ++ [x])) = lenN (encsof c xs1) + lenN (encof (c + lenN (encsof c xs1)) x).
Proof. rewrite (H3 encs_of_app), lenN_app. cbn [encs_of]. rewrite app_nil_r. reflexivity. Qed.

Lemma lenN_encs_mid c xs1 x xs2 :
  lenN (encsof c (xs1 ++ [x])) <= lenN (encsof c (xs1 ++ x :: xs2)).
Proof.
  rewrite !(H3 encs_of_app), !lenN_app. cbn [encs_of]. rewrite app_nil_r, lenN_app. lia.
Qed.

(* Reading, from block kb, the stream  T ++ zeros(c0 - |T|) ++ (first j bytes of TX) ++ zeros:
   the entries of es_all delivered from the boundary, then the entries xs1 of xs completely
   contained in the first j bytes, then — for the entry x in flight — nothing, or one
   Corruption, or x itself (only when the missing bytes of its encoding are all zero), then
   the end; the reader stops at a resume point pf. *)
Theorem read_torn_stream (T : bytes) c0 es_all xs j z kb buf0 gofuel (S : bytes) :
  encs_rel P 0 es_all T -> lenN T <= c0 -> c0 <= ffp (lenN T) ->
  j <= lenN (encsof c0 xs) ->
  S = T ++ zerosN (c0 - lenN T) ++ takeN j (encsof c0 xs) ++ zerosN z ->
  stream_ok P S -> (kb + 1) * B <= lenN S -> kb * B <= c0 ->
  c0 + lenN (encsof c0 xs) + 22 <= 7 * N.of_nat gofuel ->
  exists xs1 xr xd rrs c rrf pf,
    xs = xs1 ++ xr /\ lenN (encsof c0 xs1) <= j /\
    match xr with
    | [] => j = lenN (encsof c0 xs)
    | x :: _ => j < lenN (encsof c0 (xs1 ++ [x]))
    end /\
    (xd = xs1 \/
     exists x xs2, xr = x :: xs2 /\ xd = xs1 ++ [x] /\
                   all_zero (dropN j (encsof c0 (xs1 ++ [x]))) = true) /\
    length rrs = length (delivered_from P (kb * B) 0 es_all ++ xd) /\
    readsC gofuel (mkRR (rd_at P S kb 0) buf0 false)
           (combine rrs (delivered_from P (kb * B) 0 es_all ++ xd)) c rrf /\
    (c <= 1)%nat /\
    tr_ok P S rrs (starts P (cursor_after P 0 (skipped_before P (kb * B) 0 es_all))
                          (delivered_from P (kb * B) 0 es_all ++ xd)) /\
    fin_at P S (rr_fr rrf) pf /\
    lenN T <= pf /\ (xd <> [] -> c0 + lenN (encsof c0 xd) <= pf) /\
    (forall m, c0 + j <= m * B -> kb * B <= m * B -> pf <= m * B) /\
    resume_ok P S pf.
Proof.
  intros Henc Hlo Hhi Hj HS Hok Hblk Hb Hgf.
  assert (Hbf : kb * B <= ffp (cursor_after P 0 es_all)).
  { rewrite (H3 cursor_after_rel _ _ _ Henc), N.add_0_l. lia. }
  destruct (torn_normal P HBS_lo HBS_hi Hcrc T c0 es_all xs j Henc Hlo Hhi Hj)
    as [(Hend & z0 & Hbody & Hne & Hnil)
       | (xs1 & x & xs2 & j' & Hxs & Hj' & Hbody & Hcj & Hle & Hlt & Hdrop & Hlen & HTt & Htc & Hct & Hne1)].
  - (* nothing is torn *)
    set (t := encsof 0 (es_all ++ xs)) in *.
    assert (HS' : S = [] ++ t ++ zerosN (z0 + z)).
    { rewrite HS. cbn [app]. rewrite (FileStream.zerosN_app z0 z), (app_assoc t), <- Hbody, <- !app_assoc.
      reflexivity. }
    destruct (delivered_from_app P HBS_lo HBS_hi Hcrc (kb * B) es_all 0 xs Hbf) as [Edel Eskip].
    assert (Hlt_le : lenN t <= c0 + j /\ lenN T <= lenN t /\
                     (xs <> [] -> c0 + lenN (encsof c0 xs) <= lenN t)).
    { destruct xs as [|x0 xs0].
      - specialize (Hnil eq_refl). unfold t. rewrite app_nil_r.
        rewrite (H3 encs_rel_encs_of _ _ _ Henc). split; [lia|]. split; [lia | congruence].
      - destruct (Hne ltac:(discriminate)) as [_ Hl]. fold t in Hl.
        split; [lia|]. split; [lia|]. intros _. lia. }
    destruct Hlt_le as (Ht1 & Ht2 & Ht3).
    assert (Hg1 : 0 <= kb * B) by apply N.le_0_l.
    assert (Hg3 : lenN t + 7 <= 7 * N.of_nat gofuel) by lia.
    destruct (read_delivered_tr P HBS_lo HBS_hi Hcrc 0 (es_all ++ xs) t S [] (z0 + z) kb buf0 gofuel
                (H3 encs_of_rel _ _) HS' eq_refl Hok Hg1 Hblk Hg3)
      as (rrs & rrf & Hlen & Hrd & Htr & Hendp).
    rewrite N.add_0_l, Edel, Eskip in *.
    destruct (at_end_fin P HBS_lo HBS_hi Hcrc S t (z0 + z) (rr_fr rrf) (N.max (kb * B) (lenN t))
                HS' ltac:(lia) Hendp) as (pf & Hfin & Hpflo & Hpfhi & Hres).
    exists xs, [], xs, rrs, 0%nat, rrf, pf.
    split; [rewrite app_nil_r; reflexivity|]. split; [lia|]. split; [exact Hend|].
    split; [left; reflexivity|]. split; [exact Hlen|].
    split; [apply reads_tr_trc; exact Hrd|]. split; [lia|].
    split; [exact Htr|]. split; [exact Hfin|]. split; [lia|].
    split; [intros Hx; specialize (Ht3 Hx); lia|]. split; [|exact Hres].
    intros m Hm Hbm. apply N.le_trans with (ffp (N.max (kb * B) (lenN t))); [exact Hpfhi|].
    apply (H2 ffp_le_boundary). lia.
  - (* the entry x is torn *)
    set (t := encsof 0 (es_all ++ xs1)) in *.
    set (e := encof (lenN t) x) in *.
    set (ex := encof (c0 + lenN (encsof c0 xs1)) x) in *.
    assert (HS' : S = [] ++ t ++ takeN j' e ++ zerosN z).
    { rewrite HS. cbn [app]. rewrite (app_assoc t), <- Hbody, <- !app_assoc. reflexivity. }
    destruct (H3 enc_of_rel (lenN t) x) as [k Hk]. fold e in Hk.
    rewrite <- (N.add_0_l (lenN t)) in Hk.
    destruct (delivered_from_app P HBS_lo HBS_hi Hcrc (kb * B) es_all 0 xs1 Hbf) as [Edel Eskip].
    pose proof (lenN_encs_snoc' c0 xs1 x) as Hsnoc. fold ex in Hsnoc.
    pose proof (lenN_encs_mid c0 xs1 x xs2) as Hmid. rewrite <- Hxs in Hmid.
    assert (Hg1 : 0 <= kb * B) by apply N.le_0_l.
    assert (Hg2 : kb * B <= ffp (0 + lenN t)) by (rewrite N.add_0_l; lia).
    assert (Hg3 : lenN t + lenN e + 14 <= 7 * N.of_nat gofuel) by lia.
    destruct (read_delivered_torn P HBS_lo HBS_hi Hcrc Hnc 0 (es_all ++ xs1) t x e k j' S [] z kb
                buf0 gofuel (H3 encs_of_rel _ _) Hk Hj' HS' eq_refl Hok Hg1 Hblk Hg2 Hg3)
      as (rrs & xd' & c & rrf & pf & Hlenr & Hrd & Hc & Htr & Hxd & Hfin & Hpf & Hup & Hres).
    rewrite N.add_0_l, Edel, Eskip, <- !app_assoc in *.
    exists xs1, (x :: xs2), (xs1 ++ xd'), rrs, c, rrf, pf.
    split; [exact Hxs|]. split; [exact Hle|]. split; [rewrite Hsnoc; exact Hlt|].
    split.
    { destruct Hxd as [-> | (-> & Hz & _)]; [left; apply app_nil_r|].
      right. exists x, xs2. split; [reflexivity|]. split; [reflexivity|].
      rewrite (H3 encs_of_app). cbn [encs_of].
      rewrite app_nil_r, dropN_app_ge by exact Hle. fold ex. rewrite <- Hdrop. exact Hz. }
    split; [exact Hlenr|]. split; [exact Hrd|]. split; [exact Hc|].
    split; [exact Htr|]. split; [exact Hfin|]. split; [lia|]. split.
    { intros Hne. destruct Hxd as [-> | (-> & _ & Hend)].
      - rewrite app_nil_r in *. rewrite <- Hne1; [exact Hpf | exact Hne].
      - rewrite Hsnoc. lia. }
    split; [intros m Hm _; apply Hup; lia | exact Hres].
Qed.

End StreamSetting.

(* ====================================================================== *)
(* Part 3. The rolling files                                               *)
(* ====================================================================== *)
Lemma fs_put_same fs k e : fs_get fs k = Some e -> fs_put fs k e = fs.
Proof.
  induction fs as [|[n0 e0] r IH]; cbn [fs_get fs_put]; [discriminate|].
  destruct (bytes_eqb n0 k).
  - intros H. injection H as ->. reflexivity.
  - intros H. f_equal. apply IH. exact H.
Qed.

Lemma lenN_set_len (c : bytes) n : lenN (set_len c n) = n.
Proof.
  unfold set_len. destruct (N.leb_spec n (lenN c)) as [H|H].
  - rewrite lenN_takeN. lia.
  - rewrite lenN_app, lenN_zerosN. lia.
Qed.

Lemma set_len_ext (c : bytes) n : lenN c <= n -> set_len c n = c ++ zerosN (n - lenN c).
Proof.
  intros Hle. unfold set_len. destruct (N.leb_spec n (lenN c)) as [H|H]; [|reflexivity].
  replace (n - lenN c) with 0 by lia. cbn [zerosN]. rewrite app_nil_r. apply takeN_all. lia.
Qed.

Lemma iota_snoc m : forall lo, iota lo (Datatypes.S m) = iota lo m ++ [lo + N.of_nat m].
Proof.
  induction m as [|m IH]; intros lo.
  - cbn [iota app]. f_equal. lia.
  - change (iota lo (Datatypes.S (Datatypes.S m))) with (lo :: iota (lo + 1) (Datatypes.S m)).
    rewrite IH. cbn [iota app]. do 2 f_equal. f_equal. lia.
Qed.

Section Files.
Variable P : params.
Hypothesis HBS_lo : 7 < BS P.
Hypothesis HBS_hi : BS P <= 65542.
Hypothesis HNB : 1 <= NB P.
Hypothesis Hcrc : forall t p, crcf P t p < 2 ^ 32.
Local Notation B := (BS P).
Local Notation FB := (FILE_BYTES P).
Local Notation ffp := (first_frame_pos P).
Local Notation readsC := (reads_trc P (vr_next P) vr_block).
Local Notation readsFc := (reads_trc P (rd_next P) rd_block).
Local Notation gonextF := (go_next P rreaderS (rd_next P) rd_block).
Local Notation gonextV := (go_next P vecr (vr_next P) vr_block).
Local Notation H3 f := (f P HBS_lo HBS_hi Hcrc) (only parsing).
Local Notation H2 f := (f P HBS_lo HBS_hi) (only parsing).
Local Notation HN f := (f P HBS_lo HBS_hi HNB) (only parsing).

(* ---------- a directory whose files all have the full size ---------- *)
Section DirFull.
Variable fs : fsT.
Variable lo : N.
Variable n : nat.
Local Notation files := (iota lo (Datatypes.S n)).
Local Notation cur := (lo + N.of_nat n).
Hypothesis Hfull : forall f, In f files ->
  exists b, fs_get fs (filename f) = Some (FFile b) /\ lenN b = FB.

Local Notation St := (stream_of fs files).
Local Notation rsim := (rd_rel P fs files).
Local Notation rrsim := (rr_sim rreaderS vecr rsim).
Local Notation HD f := (f P HBS_lo HBS_hi HNB fs lo n Hfull) (only parsing).

Lemma reads_trc_FV g rrV l c rrfV :
  readsC g rrV l c rrfV -> forall rrF, rrsim rrF rrV ->
  exists lF rrfF,
    readsFc g rrF lF c rrfF /\
    Forall2 (fun x y => rrsim (fst x) (fst y) /\ snd x = snd y) lF l /\
    rrsim rrfF rrfV.
Proof.
  induction 1 as [rrV rrV' Hgo | rrV rrV' l c rrfV Hgo Htr IH | rrV rrV' l c rrfV Hgo Htr IH];
    intros rrF Hsim;
    destruct (go_next_FV P HBS_lo HBS_hi HNB fs files (iota_sorted _ _) Hfull g rrF rrV Hsim)
      as [Hres Hsim'];
    rewrite Hgo in Hres, Hsim'; cbn [fst snd] in Hres, Hsim';
    destruct (gonextF g rrF) as [rrF' r'] eqn:EgoF; cbn [fst snd] in Hres, Hsim'; subst r'.
  - exists [], rrF'. split; [apply RC_end; exact EgoF|]. split; [constructor | exact Hsim'].
  - destruct (IH rrF' Hsim') as (lF & rrfF & HtrF & Hall & Hfin).
    exists ((rrF, rr_buf rrF') :: lF), rrfF. split; [eapply RC_rec; eassumption|].
    split; [|exact Hfin]. constructor; [|exact Hall]. cbn [fst snd].
    split; [exact Hsim|]. destruct Hsim' as (_ & Hbuf & _). exact Hbuf.
  - destruct (IH rrF' Hsim') as (lF & rrfF & HtrF & Hall & Hfin).
    exists lF, rrfF. split; [eapply RC_cor; eassumption|]. split; assumption.
Qed.

(* The ghost setting: the WAL is one byte stream S_all numbered from file `base`; the directory
   holds the files lo..cur, which are the tail of S_all from the block boundary
   (lo - base) * FILE. *)
Section Kept.
Variables (base : N) (S_all : bytes).
Hypothesis Hbase : base <= lo.
Hypothesis HSt : St = dropN ((lo - base) * FB) S_all.
Hypothesis HlenS : lenN S_all = (cur - base + 1) * FB.

Local Notation b := ((lo - base) * FB).
Local Notation kb := ((lo - base) * NB P).

(* what `open` builds from a trace: the files `tags` the delivered entries are attributed to
   (sts: their (start cursor, first-frame position)), and the writer w0 made of the final
   reader, at the absolute byte position pf *)
Definition fspec (fsx : fsT) (w0 : rwriter) (tags : list N) (sts : list (N * N)) (pf : N) : Prop :=
  length tags = length sts /\
  Forall2 (fun f s => (f - base) * FB <= snd s) tags sts /\
  StronglySorted N.le tags /\
  Forall (fun f => lo <= f /\ f <= w_file w0) tags /\
  w_files w0 = files /\ lo <= w_file w0 /\ w_file w0 <= cur /\ w_off w0 <= FB /\
  (w_file w0 - base) * FB + w_off w0 = pf /\
  w_pending w0 = [] /\ c_fs (w_ctx w0) = fsx /\ c_plan (w_ctx w0) = None.

Lemma Hkb : kb * B = b.
Proof. rewrite (HN FB_eq). lia. Qed.

Lemma files_of_trace g rd rrs ds sts c rrfV pf :
  rsim rd (vec_at P fs files 0) ->
  length rrs = length ds ->
  readsC g (mkRR (rd_at P S_all kb 0) [] false) (combine rrs ds) c rrfV ->
  tr_ok P S_all rrs sts -> fin_at P S_all (rr_fr rrfV) pf ->
  exists lF rrfF,
    readsFc g (rr_open rreaderS rd) lF c rrfF /\
    map snd lF = ds /\
    fspec fs (rd_into_writer P (fr_rd (rr_fr rrfF)) (fr_cursor (rr_fr rrfF))) (tags_of lF) sts pf.
Proof.
  intros Hrel Hlen HrdV Htr Hfinat.
  pose proof Hkb as Hkb.
  assert (HlenSt : lenN St + kb * B = lenN S_all).
  { rewrite (HD lenN_St), HlenS, Hkb.
    replace (lo + N.of_nat n - base + 1) with ((N.of_nat n + 1) + (lo - base)) by lia. lia. }
  assert (HFB : B <= FB) by (rewrite (HN FB_eq); nia).
  assert (Hblk : (kb + 1) * B <= lenN S_all).
  { rewrite <- HlenSt, (HD lenN_St). nia. }
  pose proof (rr_open_sim rreaderS vecr rsim rd _ Hrel) as Hsim0.
  assert (Hstart : rr_open vecr (vec_at P fs files 0) = mkRR (rd_at P S_all kb 0) [] false).
  { unfold rr_open, fr_open. f_equal.
    change (mkFR (vec_at P fs files 0) 0 false) with (rd_at P St 0 0).
    rewrite HSt. rewrite <- Hkb, (rd_at_drop P HBS_lo HBS_hi HNB Hcrc). f_equal. lia. }
  rewrite Hstart in Hsim0.
  destruct (reads_trc_FV g _ _ _ _ HrdV _ Hsim0) as (lF & rrfF & HrdF & Hall & Hfin).
  pose proof (Forall2_length' _ _ _ Hall) as HlenF.
  rewrite combine_length, Hlen, Nat.min_id in HlenF.
  pose proof (Forall2_length' _ _ _ Htr) as HlenT.
  exists lF, rrfF. split; [exact HrdF|].
  split.
  { rewrite <- (map_snd_combine rrs ds) by exact Hlen.
    apply (map_snd_Forall2 _ _ _ Hall). }
  unfold fspec.
  set (w0 := rd_into_writer P (fr_rd (rr_fr rrfF)) (fr_cursor (rr_fr rrfF))).
  destruct (reads_trc_rest P HBS_lo HBS_hi g _ _ _ _ HrdV) as (Hrest_fin & Hrest_all & Hrest_sorted).
  destruct Hfinat as (k & c1 & fl & Hfr & Hkblk & Hc & Hpf).
  (* the final reader *)
  assert (Hkk : kb <= k).
  { cbn [rr_fr] in Hrest_fin. rewrite Hfr in Hrest_fin. unfold rd_at, rd_of in Hrest_fin.
    cbn [fr_rd vr_rest] in Hrest_fin. rewrite !lenN_dropN in Hrest_fin.
    apply (H2 TornProofs.mulB_le_inv). lia. }
  pose proof Hfin as Hfin0.
  destruct Hfin as ((Hrfin & Hcur & _) & _ & _).
  destruct (HD rd_rel_idx _ _ Hrfin) as (Hcok & Hfl & i & j & Hfile & Hi & Hj & Hid & Hl).
  rewrite Hfr in Hl, Hcur. unfold rd_of in Hl. cbn [fr_rd vr_rest fr_cursor] in Hl, Hcur.
  rewrite lenN_dropN in Hl.
  assert (Hk : k = kb + i * NB P + j).
  { assert (E : k * B = (kb + i * NB P + j) * B) by lia.
    apply N.mul_cancel_r in E; lia. }
  assert (Hwfile : w_file w0 = lo + i) by exact Hfile.
  assert (Hwoff : w_off w0 = j * B + c1).
  { unfold w0, rd_into_writer. cbn [w_off]. rewrite Hid, Hcur. reflexivity. }
  assert (Hpos : (w_file w0 - base) * FB + w_off w0 = k * B + c1).
  { rewrite Hwfile, Hwoff, Hk. replace (lo + i - base) with ((lo - base) + i) by lia.
    rewrite (HN FB_eq). lia. }
  split; [rewrite tags_of_length, HlenF, <- Hlen; exact HlenT|].
  split.
  { apply Forall2_map_l'.
    eapply Forall2_trans'; [|exact Hall|apply Forall2_combine_l; [|exact Htr]].
    - cbn beta. intros x y s [Hxy _] Hys.
      pose proof (sim_tag_bpos P HBS_lo HBS_hi HNB Hcrc fs lo n Hfull S_all base kb _ _ Hxy Hbase Hkb HlenSt).
      lia.
    - exact Hlen. }
  split.
  { apply StronglySorted_map.
    eapply StronglySorted_Forall2; [|exact Hall|exact Hrest_sorted].
    cbn beta. intros x y x' y' [Hxy _] [Hxy' _] Hle. eapply (HD sim_tag_le); eassumption. }
  split.
  { apply Forall_map.
    eapply Forall2_Forall_l; [|exact Hall|exact Hrest_all].
    cbn beta. intros x y [Hxy _] [_ Hle]. split.
    - apply (HD sim_tag_lo _ _ Hxy).
    - change (w_file w0) with (tag_of rrfF).
      eapply (HD sim_tag_le); [exact Hxy|exact Hfin0|exact Hle]. }
  split; [exact Hfl|]. split; [lia|]. split; [lia|].
  split.
  { rewrite Hwoff, (HN FB_eq).
    assert ((j + 1) * B <= NB P * B) by (apply N.mul_le_mono_r; lia). lia. }
  split; [lia|].
  split; [reflexivity|]. destruct Hcok as [Hcfs Hcplan].
  split; [exact Hcfs | exact Hcplan].
Qed.


(* `open` of the directory fs0 whose reader (after ensure_last_full) is the one over fs *)
Lemma open_of_trace F fs0 c0 rd rrs ds sts c rrfV pf Ds pol hint :
  L_IO P = false ->
  rd_open P (ctx_init fs0 None) = (c0, Ok rd) -> rsim rd (vec_at P fs files 0) ->
  length rrs = length ds ->
  readsC F (mkRR (rd_at P S_all kb 0) [] false) (combine rrs ds) c rrfV ->
  tr_ok P S_all rrs sts -> fin_at P S_all (rr_fr rrfV) pf ->
  ds = map entry_ser Ds -> Forall wf_entry Ds -> (length ds + c < F)%nat ->
  exists w0 tags,
    fspec fs w0 tags sts pf /\
    match replay_entries [] (combine tags Ds) with
    | Some qs => open P fs0 None pol hint = open_finish P w0 qs pol hint
    | None => exists c', open P fs0 None pol hint = OpenCorruption c'
    end.
Proof.
  intros Hio Hopen Hrel Hlen HrdV Htr Hfinat Hds Hwf HF.
  destruct (files_of_trace F rd rrs ds sts c rrfV pf Hrel Hlen HrdV Htr Hfinat)
    as (lF & rrfF & HrdF & Hsnd & Hspec).
  set (w0 := rd_into_writer P (fr_rd (rr_fr rrfF)) (fr_cursor (rr_fr rrfF))) in *.
  exists w0, (tags_of lF). split; [exact Hspec|].
  assert (Hdeser : Forall2 (fun x e0 => entry_deser (snd x) = Some e0) lF Ds).
  { apply deser_of_map_snd; [rewrite Hsnd; exact Hds | exact Hwf]. }
  assert (HlF : length lF = length ds) by (rewrite <- Hsnd, map_length; reflexivity).
  pose proof (replay_loop_fold_c P F _ _ _ _ HrdF Ds Hdeser F [] ltac:(lia)) as Hfold.
  destruct (replay_entries [] (combine (tags_of lF) Ds)) as [qs|].
  - apply (HD open_fuel_elim F); [exact Hio | | apply open_finish_not_fuel].
    unfold open_with. rewrite Hopen, Hfold. reflexivity.
  - destruct Hfold as [rr' Hfold]. exists (reader_ctx rr').
    apply (HD open_fuel_elim F); [exact Hio | | discriminate].
    unfold open_with. rewrite Hopen, Hfold. reflexivity.
Qed.

End Kept.
End DirFull.

(* ---------- a directory whose LAST file may be short ---------- *)
Section DirShort.
Variable fs : fsT.
Variable lo : N.
Variable n : nat.
Local Notation files := (iota lo (Datatypes.S n)).
Local Notation cur := (lo + N.of_nat n).
Hypothesis Hlist : list_wal_numbers fs = files.
Hypothesis Hfiles : forall f, In f files ->
  exists b, fs_get fs (filename f) = Some (FFile b) /\ lenN b <= FB /\ (f <> cur -> lenN b = FB).

(* the directory after Directory::ensure_last_file_has_full_size: the same, with the last file
   zero-extended to FILE bytes *)
Definition fs_ext : fsT := fs_put fs (filename cur) (FFile (set_len (fcontent fs cur) FB)).

Lemma In_cur : In cur files.
Proof. apply iota_In. lia. Qed.

Lemma files_bound f : In f files -> f <= U64_MAX.
Proof. intros H. apply (listed_bound fs). rewrite Hlist. exact H. Qed.

Lemma cur_content_le : lenN (fcontent fs cur) <= FB.
Proof.
  destruct (Hfiles cur In_cur) as (b & Hg & Hle & _). unfold fcontent. rewrite Hg. exact Hle.
Qed.

Lemma Hfull_ext : forall f, In f files ->
  exists b, fs_get fs_ext (filename f) = Some (FFile b) /\ lenN b = FB.
Proof.
  intros f Hf. unfold fs_ext. destruct (N.eq_dec f cur) as [->|Hne].
  - eexists. split; [apply GcProofs.fs_get_put_same | apply lenN_set_len].
  - destruct (Hfiles f Hf) as (b & Hg & _ & Hl). exists b. split; [|apply Hl; exact Hne].
    rewrite GcProofs.fs_get_put_other; [exact Hg|].
    intros E. apply Hne. symmetry.
    apply filename_inj; [apply files_bound, In_cur | apply files_bound, Hf | exact E].
Qed.

Lemma fs_ext_full : lenN (fcontent fs cur) = FB -> fs_ext = fs.
Proof.
  intros Hl. unfold fs_ext. apply fs_put_same.
  destruct (Hfiles cur In_cur) as (b & Hg & _). unfold fcontent in *. rewrite Hg in *.
  rewrite set_len_ext by lia. rewrite Hl, N.sub_diag. cbn [zerosN]. now rewrite app_nil_r.
Qed.

Lemma stream_ext :
  stream_of fs_ext files = stream_of fs files ++ zerosN (FB - lenN (fcontent fs cur)).
Proof.
  rewrite iota_snoc, !stream_of_app.
  assert (E1 : stream_of fs_ext (iota lo n) = stream_of fs (iota lo n)).
  { apply stream_of_ext. intros f Hf. apply iota_In in Hf. unfold fs_ext.
    apply fcontent_put_other. intros E.
    assert (Hin : In f files) by (apply iota_In; lia).
    apply filename_inj in E; [lia | apply files_bound, In_cur | apply files_bound, Hin]. }
  rewrite E1, <- app_assoc. f_equal.
  rewrite !stream_of_cons. cbn [stream_of flat_map]. rewrite !app_nil_r.
  unfold fs_ext. rewrite fcontent_put_same by reflexivity.
  apply set_len_ext. apply cur_content_le.
Qed.

Lemma ensure_last_full_ext c : cok fs c ->
  exists c', ensure_last_full P c files = (c', Ok tt) /\ cok fs_ext c'.
Proof.
  intros Hc. unfold ensure_last_full. rewrite (HN iota_last).
  rewrite file_content_fcontent. pose proof Hc as [Hcf Hcp]. rewrite Hcf.
  destruct (N.ltb_spec (lenN (fcontent fs cur)) FB) as [Hshort|Hlong].
  - destruct (Hfiles cur In_cur) as (b & Hg & _).
    destruct (open_file_none fs c cur b Hc Hg) as (c1 & -> & [Hf1 Hp1]).
    eexists. split; [reflexivity|]. split; cbn [c_fs c_plan ctx_ev ctx_fs].
    + rewrite Hf1. reflexivity.
    + exact Hp1.
  - exists c. split; [reflexivity|]. rewrite fs_ext_full; [exact Hc|].
    pose proof cur_content_le. lia.
Qed.

(* Directory::open + RollingReader::open: the reader is the vecr reader over the zero-extended
   directory *)
Lemma rd_open_short : L_SHORT P = false ->
  exists c rd, rd_open P (ctx_init fs None) = (c, Ok rd) /\
               rd_rel P fs_ext files rd (vec_at P fs_ext files 0).
Proof.
  intros Hshort. unfold rd_open.
  assert (Hc0 : cok fs (ctx_init fs None)) by (split; reflexivity).
  destruct (fault_point_none fs (ctx_ev (ctx_init fs None) EvReadDir) SReadDir
              (ctx_ev_cok _ _ _ Hc0)) as (c1 & -> & Hc1).
  pose proof Hc1 as [Hf1 Hp1]. rewrite Hf1, Hlist, Hshort.
  cbn [iota]. change (lo :: iota (lo + 1) n) with files.
  destruct (ensure_last_full_ext c1 Hc1) as (c2 & -> & Hc2).
  assert (Hin0 : In lo files) by (apply iota_In; lia).
  destruct (Hfull_ext lo Hin0) as (b0 & Hg0 & Hl0).
  destruct (open_file_none fs_ext c2 lo b0 Hc2 Hg0) as (c3 & -> & Hc3).
  assert (Hcont0 : lenN (fcontent fs_ext lo) = FB) by (unfold fcontent; rewrite Hg0; exact Hl0).
  destruct (read_block_none P fs_ext c3 lo 0 Hc3 Hcont0) as (c4 & Hc4 & ->).
  assert (HFB : B <= FB) by (rewrite (HN FB_eq); nia).
  destruct (N.leb_spec (0 + B) FB) as [_|Hbad]; [|lia].
  eexists; eexists. split; [reflexivity|].
  split; [exact Hc4|]. split; [reflexivity|].
  exists [], (iota (lo + 1) n), 0. cbn [rd_file rd_block_id rd_pos rd_block app].
  split; [reflexivity|]. split; [lia|]. split; [reflexivity|]. split; [lia|].
  rewrite (@lenN_nil N). split; [reflexivity|].
  unfold vec_at. cbn [vr_block].
  pose proof (block_in_file P ltac:(lia) HNB fs_ext files Hfull_ext [] lo (iota (lo + 1) n) 0 eq_refl)
    as Hb. rewrite (@lenN_nil N) in Hb.
  replace (0 * B) with ((0 * NB P + 0) * B) by lia.
  replace ((0 + 1) * B) with ((0 * NB P + 0 + 1) * B) by lia.
  rewrite Hb by lia. f_equal; lia.
Qed.

End DirShort.

(* ---------- `open` on the (possibly short-ended) directory: the two shapes of the stream ---------- *)
Section OpenCores.
Hypothesis Hnc : no_zero_collision P.
Variable fs : fsT.
Variable lo : N.
Variable n : nat.
Local Notation files := (iota lo (Datatypes.S n)).
Local Notation cur := (lo + N.of_nat n).
Hypothesis Hlist : list_wal_numbers fs = files.
Hypothesis Hfiles : forall f, In f files ->
  exists b, fs_get fs (filename f) = Some (FFile b) /\ lenN b <= FB /\ (f <> cur -> lenN b = FB).
Local Notation fsx := (fs_ext fs lo n).
Variable base : N.
Hypothesis Hbase : base <= lo.
Local Notation b := ((lo - base) * FB).
Local Notation kb := ((lo - base) * NB P).
Local Notation fspecx := (fspec lo n base fsx).

Lemma sok_all (S_all : bytes) : lenN S_all = (cur - base + 1) * FB -> stream_ok P S_all.
Proof. intros H. exists ((cur - base + 1) * NB P). rewrite H, (HN FB_eq). lia. Qed.

Lemma blk_all (S_all : bytes) : lenN S_all = (cur - base + 1) * FB -> (kb + 1) * B <= lenN S_all.
Proof.
  intros H. rewrite H, (HN FB_eq).
  replace (cur - base + 1) with ((lo - base) + (N.of_nat n + 1)) by lia. nia.
Qed.

(* the stream ends with a torn entry x (j bytes of its encoding e are there) *)
Theorem open_torn_core es t x e k j z Es X pol hint :
  L_IO P = false -> L_SHORT P = false ->
  encs_rel P 0 es t -> enc_rel P (lenN t) true x e k -> j < lenN e ->
  stream_of fsx files = dropN b (t ++ takeN j e ++ zerosN z) ->
  lenN (t ++ takeN j e ++ zerosN z) = (cur - base + 1) * FB ->
  b <= ffp (lenN t) ->
  delivered_from P b 0 es = map entry_ser Es -> Forall wf_entry Es ->
  x = entry_ser X -> wf_entry X ->
  exists w0 tags Xd pf,
    (Xd = [] \/ (Xd = [X] /\ all_zero (dropN j e) = true /\ lenN t + lenN e <= pf)) /\
    fspecx w0 tags (starts P (cursor_after P 0 (skipped_before P b 0 es))
                           (map entry_ser (Es ++ Xd))) pf /\
    lenN t <= pf /\ (forall m, lenN t + j <= m * B -> pf <= m * B) /\
    resume_ok P (t ++ takeN j e ++ zerosN z) pf /\
    match replay_entries [] (combine tags (Es ++ Xd)) with
    | Some qs => open P fs None pol hint = open_finish P w0 qs pol hint
    | None => exists c', open P fs None pol hint = OpenCorruption c'
    end.
Proof.
  intros Hio Hshort Henc Hx Hj HSt HlenS Hb HEs HwfEs HX HwfX.
  set (S_all := t ++ takeN j e ++ zerosN z) in *.
  assert (Hkb : kb * B = b) by (rewrite (HN FB_eq); lia).
  pose proof (sok_all S_all HlenS) as Hok.
  pose proof (blk_all S_all HlenS) as Hblk.
  set (F := N.to_nat (lenN t + lenN e + 22)).
  rewrite <- (N.add_0_l (lenN t)) in Hx.
  assert (Hg1 : 0 <= kb * B) by apply N.le_0_l.
  assert (Hg2 : kb * B <= ffp (0 + lenN t)) by (rewrite Hkb, N.add_0_l; exact Hb).
  assert (Hg3 : lenN t + lenN e + 14 <= 7 * N.of_nat F) by (unfold F; lia).
  destruct (read_delivered_torn P HBS_lo HBS_hi Hcrc Hnc 0 es t x e k j S_all [] z kb [] F
              Henc Hx Hj eq_refl eq_refl Hok Hg1 Hblk Hg2 Hg3)
    as (rrs & xd & c & rrfV & pf & Hlen & HrdV & Hc & Htr & Hxd & Hfin & Hpf & Hup & Hres).
  clear Hg1 Hg2 Hg3.
  rewrite Hkb, N.add_0_l in *.
  destruct (rd_open_short fs lo n Hlist Hfiles Hshort) as (c0 & rd & Hopen & Hrel).
  pose proof (H3 StreamProofs.encs_rel_len _ _ _ Henc) as Hcount.
  assert (Hdl : (length (delivered_from P b 0 es) <= length es)%nat).
  { pose proof (skipped_delivered P b es 0) as Hs.
    apply (f_equal (@length bytes)) in Hs. rewrite app_length in Hs. lia. }
  assert (Hgen : forall Xd, xd = map entry_ser Xd -> Forall wf_entry Xd -> (length Xd <= 1)%nat ->
            exists w0 tags,
              fspecx w0 tags (starts P (cursor_after P 0 (skipped_before P b 0 es))
                                     (map entry_ser (Es ++ Xd))) pf /\
              match replay_entries [] (combine tags (Es ++ Xd)) with
              | Some qs => open P fs None pol hint = open_finish P w0 qs pol hint
              | None => exists c', open P fs None pol hint = OpenCorruption c'
              end).
  { intros Xd Hxd' HwfXd HlXd.
    assert (Hds : delivered_from P b 0 es ++ xd = map entry_ser (Es ++ Xd))
      by (rewrite map_app, HEs, Hxd'; reflexivity).
    rewrite <- Hds.
    apply (open_of_trace fsx lo n (Hfull_ext fs lo n Hlist Hfiles) base S_all Hbase HSt HlenS
             F fs c0 rd rrs (delivered_from P b 0 es ++ xd) _ c rrfV pf (Es ++ Xd) pol hint);
      try assumption.
    - apply Forall_app. split; assumption.
    - rewrite app_length, Hxd', map_length. unfold F. lia. }
  destruct Hxd as [-> | (-> & Hz & Hend)].
  - destruct (Hgen [] eq_refl (Forall_nil _) ltac:(cbn; lia)) as (w0 & tags & Hspec & Hres').
    exists w0, tags, [], pf. split; [left; reflexivity|]. split; [exact Hspec|].
    split; [exact Hpf|]. split; [exact Hup|]. split; [exact Hres | exact Hres'].
  - destruct (Hgen [X] ltac:(cbn [map]; rewrite HX; reflexivity)
                (Forall_cons _ HwfX (Forall_nil _)) ltac:(cbn; lia)) as (w0 & tags & Hspec & Hres').
    exists w0, tags, [X], pf. split; [right; repeat split; assumption|]. split; [exact Hspec|].
    split; [exact Hpf|]. split; [exact Hup|]. split; [exact Hres | exact Hres'].
Qed.

(* the stream ends cleanly after the encodings t *)
Theorem open_clean_core es t z Es pol hint :
  L_IO P = false -> L_SHORT P = false ->
  encs_rel P 0 es t ->
  stream_of fsx files = dropN b (t ++ zerosN z) ->
  lenN (t ++ zerosN z) = (cur - base + 1) * FB ->
  delivered_from P b 0 es = map entry_ser Es -> Forall wf_entry Es ->
  exists w0 tags pf,
    fspecx w0 tags (starts P (cursor_after P 0 (skipped_before P b 0 es)) (map entry_ser Es)) pf /\
    N.max b (lenN t) <= pf /\ pf <= ffp (N.max b (lenN t)) /\
    resume_ok P (t ++ zerosN z) pf /\
    match replay_entries [] (combine tags Es) with
    | Some qs => open P fs None pol hint = open_finish P w0 qs pol hint
    | None => exists c', open P fs None pol hint = OpenCorruption c'
    end.
Proof.
  intros Hio Hshort Henc HSt HlenS HEs HwfEs.
  set (S_all := t ++ zerosN z) in *.
  assert (Hkb : kb * B = b) by (rewrite (HN FB_eq); lia).
  pose proof (sok_all S_all HlenS) as Hok.
  pose proof (blk_all S_all HlenS) as Hblk.
  set (F := N.to_nat (lenN t + 8)).
  assert (Hg1 : 0 <= kb * B) by apply N.le_0_l.
  assert (Hg3 : lenN t + 7 <= 7 * N.of_nat F) by (unfold F; lia).
  destruct (read_delivered_tr P HBS_lo HBS_hi Hcrc 0 es t S_all [] z kb [] F Henc eq_refl eq_refl Hok
              Hg1 Hblk Hg3)
    as (rrs & rrfV & Hlen & HrdV & Htr & Hend).
  clear Hg1 Hg3.
  rewrite Hkb, N.add_0_l in *.
  destruct (at_end_fin P HBS_lo HBS_hi Hcrc S_all t z (rr_fr rrfV) (N.max b (lenN t)) eq_refl
              ltac:(lia) Hend) as (pf & Hfin & Hlo & Hhi & Hres).
  destruct (rd_open_short fs lo n Hlist Hfiles Hshort) as (c0 & rd & Hopen & Hrel).
  pose proof (H3 StreamProofs.encs_rel_len _ _ _ Henc) as Hcount.
  assert (Hdl : (length (delivered_from P b 0 es) <= length es)%nat).
  { pose proof (skipped_delivered P b es 0) as Hs.
    apply (f_equal (@length bytes)) in Hs. rewrite app_length in Hs. lia. }
  destruct (open_of_trace fsx lo n (Hfull_ext fs lo n Hlist Hfiles) base S_all Hbase HSt HlenS
             F fs c0 rd rrs (delivered_from P b 0 es)
             (starts P (cursor_after P 0 (skipped_before P b 0 es)) (delivered_from P b 0 es))
             0%nat rrfV pf Es pol hint)
    as (w0 & tags & Hspec & Hres'); try assumption.
  - apply reads_tr_trc. exact HrdV.
  - unfold F. lia.
  - exists w0, tags, pf. rewrite <- HEs. split; [exact Hspec|]. split; [exact Hlo|].
    split; [exact Hhi|]. split; [exact Hres | exact Hres'].
Qed.

End OpenCores.

(* ---------- (2) the setting of the task ---------- *)
Lemma map_cons_inv {A C} (f : A -> C) (l : list A) y ys :
  map f l = y :: ys -> exists a l', l = a :: l' /\ f a = y /\ map f l' = ys.
Proof.
  destruct l as [|a l']; cbn [map]; [discriminate|]. intros H. injection H as H1 H2.
  exists a, l'. repeat split; assumption.
Qed.

Section Main.
Hypothesis Hnc : no_zero_collision P.
Variable fs : fsT.
Variable lo : N.
Variable n : nat.
Local Notation files := (iota lo (Datatypes.S n)).
Local Notation cur := (lo + N.of_nat n).
Hypothesis Hlist : list_wal_numbers fs = files.
Hypothesis Hfiles : forall f, In f files ->
  exists b, fs_get fs (filename f) = Some (FFile b) /\ lenN b <= FB /\ (f <> cur -> lenN b = FB).
Local Notation fsx := (fs_ext fs lo n).
Variable base : N.
Hypothesis Hbase : base <= lo.
Local Notation b := ((lo - base) * FB).
Local Notation fspecx := (fspec lo n base fsx).
Local Notation ser := (map entry_ser).
Local Notation encsof := (encs_of P).

Lemma fspec_pf_le w0 tags sts pf : fspecx w0 tags sts pf -> pf <= (cur - base + 1) * FB.
Proof.
  intros (_ & _ & _ & _ & _ & Hlo & Hcur & Hoff & Hpf & _).
  assert ((w_file w0 - base) * FB <= (cur - base) * FB) by (apply N.mul_le_mono_r; lia). lia.
Qed.

Lemma lenN_encs_snoc c xs1 x :
  lenN (encsof c (xs1 ++ [x])) = lenN (encsof c xs1) + lenN (enc_of P (c + lenN (encsof c xs1)) x).
Proof. rewrite (H3 encs_of_app), lenN_app. cbn [encs_of]. rewrite app_nil_r. reflexivity. Qed.

Theorem open_torn E_all X T c0 j z pol hint :
  L_IO P = false -> L_SHORT P = false ->
  Forall wf_entry E_all -> Forall wf_entry X ->
  encs_rel P 0 (ser E_all) T ->
  lenN T <= c0 -> c0 <= ffp (lenN T) -> b <= c0 ->
  j <= lenN (encsof c0 (ser X)) ->
  let S_all := T ++ zerosN (c0 - lenN T) ++ takeN j (encsof c0 (ser X)) ++ zerosN z in
  stream_of fsx files = dropN b S_all ->
  lenN S_all = (cur - base + 1) * FB ->
  exists w0 tags E_pre E_suf X1 Xr Xd pf,
    (* the entries of E_all whose first frame is in the kept files *)
    E_all = E_pre ++ E_suf /\
    ser E_pre = skipped_before P b 0 (ser E_all) /\
    ser E_suf = delivered_from P b 0 (ser E_all) /\
    (* X1: the entries of X completely contained in the first j bytes; the head of Xr is the
       entry in flight *)
    X = X1 ++ Xr /\ lenN (encsof c0 (ser X1)) <= j /\
    match Xr with
    | [] => j = lenN (encsof c0 (ser X))
    | x :: _ => j < lenN (encsof c0 (ser (X1 ++ [x])))
    end /\
    (* Xd: what is delivered of X *)
    (Xd = X1 \/
     exists x X2, Xr = x :: X2 /\ Xd = X1 ++ [x] /\
                  all_zero (dropN j (encsof c0 (ser (X1 ++ [x])))) = true) /\
    (* tags and writer *)
    fspecx w0 tags (starts P (cursor_after P 0 (skipped_before P b 0 (ser E_all)))
                           (ser (E_suf ++ Xd))) pf /\
    (* the writer's position pf is a resume point *)
    lenN T <= pf /\ (Xd <> [] -> c0 + lenN (encsof c0 (ser Xd)) <= pf) /\
    pf <= lenN S_all /\
    (forall m, c0 + j <= m * B -> b <= m * B -> pf <= m * B) /\
    resume_ok P S_all pf /\
    match replay_entries [] (combine tags (E_suf ++ Xd)) with
    | Some qs => open P fs None pol hint = open_finish P w0 qs pol hint
    | None => exists c', open P fs None pol hint = OpenCorruption c'
    end.
Proof.
  intros Hio Hshort HwfE HwfX Henc Hlo Hhi Hb Hj S_all HSt HlenS.
  set (es_all := ser E_all) in *. set (xs := ser X) in *.
  (* E_all = E_pre ++ E_suf *)
  pose proof (skipped_delivered P b es_all 0) as Hsplit.
  destruct (map_app_inv entry_ser E_all _ _ Hsplit) as (E_pre & E_suf & HE & Hpre & Hsuf).
  assert (Hwf_suf : Forall wf_entry E_suf).
  { rewrite HE in HwfE. apply Forall_app in HwfE. apply HwfE. }
  assert (Hbf : b <= ffp (cursor_after P 0 es_all)).
  { rewrite (H3 cursor_after_rel _ _ _ Henc), N.add_0_l. lia. }
  destruct (torn_normal P HBS_lo HBS_hi Hcrc T c0 es_all xs j Henc Hlo Hhi Hj)
    as [(Hend & z0 & Hbody & Hne & Hnil)
       | (xs1 & x & xs2 & j' & Hxs & Hj' & Hbody & Hcj & Hle & Hlt & Hdrop & Hlen & HTt & Htc & Hct & Hne1)].
  - (* nothing is torn *)
    set (t := encsof 0 (es_all ++ xs)) in *.
    assert (HS : S_all = t ++ zerosN (z0 + z)).
    { unfold S_all. rewrite (FileStream.zerosN_app z0 z), (app_assoc t), <- Hbody, <- !app_assoc.
      reflexivity. }
    destruct (delivered_from_app P HBS_lo HBS_hi Hcrc b es_all 0 xs Hbf) as [Edel Eskip].
    assert (HEs : delivered_from P b 0 (es_all ++ xs) = ser (E_suf ++ X)).
    { rewrite Edel, map_app, Hsuf. reflexivity. }
    rewrite HS in HSt, HlenS.
    destruct (open_clean_core fs lo n Hlist Hfiles base Hbase (es_all ++ xs) t (z0 + z)
                (E_suf ++ X) pol hint Hio Hshort (H3 encs_of_rel _ _) HSt HlenS HEs
                ltac:(apply Forall_app; split; assumption))
      as (w0 & tags & pf & Hspec & Hpflo & Hpfhi & Hres & Hopen).
    rewrite Eskip in Hspec.
    assert (Hlt_le : lenN t <= c0 + j /\ lenN T <= lenN t /\
                     (X <> [] -> c0 + lenN (encsof c0 xs) <= lenN t)).
    { destruct X as [|x0 X0].
      - specialize (Hnil eq_refl). unfold t, xs. cbn [map]. rewrite app_nil_r.
        rewrite (H3 encs_rel_encs_of _ _ _ Henc). split; [lia|]. split; [lia | congruence].
      - assert (Hxne : xs <> []) by (unfold xs; cbn [map]; discriminate).
        destruct (Hne Hxne) as [_ Hl]. fold t in Hl. split; [lia|]. split; [lia|]. intros _. lia. }
    destruct Hlt_le as (Ht1 & Ht2 & Ht3).
    exists w0, tags, E_pre, E_suf, X, [], X, pf.
    split; [exact HE|]. split; [exact Hpre|]. split; [exact Hsuf|].
    split; [rewrite app_nil_r; reflexivity|]. split; [fold xs; lia|]. split; [exact Hend|].
    split; [left; reflexivity|]. split; [exact Hspec|].
    split; [lia|]. split; [intros HX; specialize (Ht3 HX); fold xs; lia|].
    split; [rewrite HS, HlenS; apply (fspec_pf_le _ _ _ _ Hspec)|].
    split.
    { intros m Hm Hbm. apply N.le_trans with (ffp (N.max b (lenN t))); [exact Hpfhi|].
      apply (H2 ffp_le_boundary). lia. }
    split; [rewrite HS; exact Hres | exact Hopen].
  - (* the entry x of X is torn *)
    destruct (map_app_inv entry_ser X _ _ Hxs) as (X1 & Xr & HX & HX1 & HXr).
    destruct (map_cons_inv entry_ser Xr x xs2 HXr) as (Xx & X2 & -> & HXx & HX2).
    subst xs1.
    set (t := encsof 0 (es_all ++ ser X1)) in *.
    set (e := enc_of P (lenN t) x) in *.
    set (ex := enc_of P (c0 + lenN (encsof c0 (ser X1))) x) in *.
    assert (HS : S_all = t ++ takeN j' e ++ zerosN z).
    { unfold S_all. rewrite (app_assoc t), <- Hbody, <- !app_assoc. reflexivity. }
    destruct (H3 enc_of_rel (lenN t) x) as [k Hk]. fold e in Hk.
    assert (HwfX1 : Forall wf_entry X1 /\ wf_entry Xx).
    { rewrite HX in HwfX. apply Forall_app in HwfX as [H1 H2']. split; [exact H1|].
      inversion H2'; assumption. }
    destruct HwfX1 as [HwfX1 HwfXx].
    destruct (delivered_from_app P HBS_lo HBS_hi Hcrc b es_all 0 (ser X1) Hbf) as [Edel Eskip].
    assert (HEs : delivered_from P b 0 (es_all ++ ser X1) = ser (E_suf ++ X1)).
    { rewrite Edel, map_app, Hsuf. reflexivity. }
    rewrite HS in HSt, HlenS.
    destruct (open_torn_core Hnc fs lo n Hlist Hfiles base Hbase (es_all ++ ser X1) t x e k j' z
                (E_suf ++ X1) Xx pol hint Hio Hshort (H3 encs_of_rel _ _) Hk Hj' HSt HlenS
                ltac:(lia) HEs ltac:(apply Forall_app; split; assumption) (eq_sym HXx) HwfXx)
      as (w0 & tags & Xd' & pf & HXd & Hspec & Hpflo & Hup & Hres & Hopen).
    rewrite Eskip, <- app_assoc in Hspec. rewrite <- app_assoc in Hopen.
    assert (Hsnoc : lenN (encsof c0 (ser (X1 ++ [Xx]))) = lenN (encsof c0 (ser X1)) + lenN ex).
    { rewrite map_app. cbn [map]. rewrite HXx. apply lenN_encs_snoc. }
    exists w0, tags, E_pre, E_suf, X1, (Xx :: X2), (X1 ++ Xd'), pf.
    split; [exact HE|]. split; [exact Hpre|]. split; [exact Hsuf|].
    split; [exact HX|]. split; [exact Hle|]. split; [rewrite Hsnoc; exact Hlt|].
    split.
    { destruct HXd as [-> | (-> & Hz & _)]; [left; apply app_nil_r|].
      right. exists Xx, X2. split; [reflexivity|]. split; [reflexivity|].
      rewrite map_app. cbn [map]. rewrite HXx, (H3 encs_of_app). cbn [encs_of].
      rewrite app_nil_r, dropN_app_ge by exact Hle. fold ex. rewrite <- Hdrop. exact Hz. }
    split; [exact Hspec|]. split; [lia|]. split.
    { intros Hne. destruct HXd as [-> | (-> & _ & Hend)].
      - rewrite app_nil_r in *. rewrite <- Hne1; [exact Hpflo|].
        intros E. apply Hne. apply map_eq_nil in E. exact E.
      - rewrite Hsnoc. lia. }
    split; [rewrite HS, HlenS; apply (fspec_pf_le _ _ _ _ Hspec)|].
    split; [intros m Hm _; apply Hup; lia|].
    split; [rewrite HS; exact Hres | exact Hopen].
Qed.

(* (3) nothing torn: every entry of X is delivered *)
Corollary open_torn_complete E_all X T c0 z pol hint :
  L_IO P = false -> L_SHORT P = false ->
  Forall wf_entry E_all -> Forall wf_entry X ->
  encs_rel P 0 (ser E_all) T ->
  lenN T <= c0 -> c0 <= ffp (lenN T) -> b <= c0 ->
  let TX := encsof c0 (ser X) in
  let S_all := T ++ zerosN (c0 - lenN T) ++ TX ++ zerosN z in
  stream_of fsx files = dropN b S_all ->
  lenN S_all = (cur - base + 1) * FB ->
  exists w0 tags E_pre E_suf pf,
    E_all = E_pre ++ E_suf /\
    ser E_pre = skipped_before P b 0 (ser E_all) /\
    ser E_suf = delivered_from P b 0 (ser E_all) /\
    fspecx w0 tags (starts P (cursor_after P 0 (skipped_before P b 0 (ser E_all)))
                           (ser (E_suf ++ X))) pf /\
    lenN T <= pf /\ (X <> [] -> c0 + lenN TX <= pf) /\ pf <= lenN S_all /\
    (forall m, c0 + lenN TX <= m * B -> b <= m * B -> pf <= m * B) /\
    resume_ok P S_all pf /\
    match replay_entries [] (combine tags (E_suf ++ X)) with
    | Some qs => open P fs None pol hint = open_finish P w0 qs pol hint
    | None => exists c', open P fs None pol hint = OpenCorruption c'
    end.
Proof.
  intros Hio Hshort HwfE HwfX Henc Hlo Hhi Hb TX S_all HSt HlenS.
  assert (HS : S_all = T ++ zerosN (c0 - lenN T) ++ takeN (lenN TX) TX ++ zerosN z).
  { unfold S_all. rewrite takeN_all by lia. reflexivity. }
  rewrite HS in HSt, HlenS.
  destruct (open_torn E_all X T c0 (lenN TX) z pol hint Hio Hshort HwfE HwfX Henc Hlo Hhi Hb
              (N.le_refl _) HSt HlenS)
    as (w0 & tags & E_pre & E_suf & X1 & Xr & Xd & pf & HE & Hpre & Hsuf & HX & Hle & Hr & HXd &
        Hspec & Hpf1 & Hpf2 & Hpf3 & Hup & Hres & Hopen).
  assert (HXr : Xr = []).
  { destruct Xr as [|x X2]; [reflexivity|]. exfalso.
    assert (lenN (encsof c0 (ser (X1 ++ [x]))) <= lenN TX); [|lia].
    unfold TX. rewrite HX. rewrite !map_app, !(H3 encs_of_app), !lenN_app. cbn [map encs_of].
    rewrite app_nil_r, lenN_app. lia. }
  subst Xr. rewrite app_nil_r in HX. subst X1.
  assert (HXdX : Xd = X) by (destruct HXd as [E | (x & X2 & E & _)]; [exact E | discriminate]).
  subst Xd.
  exists w0, tags, E_pre, E_suf, pf. rewrite HS.
  repeat (split; [assumption|]). exact Hopen.
Qed.

End Main.
End Files.

Print Assumptions torn_frame2.
Print Assumptions torn_walk2.
Print Assumptions read_delivered_torn.
Print Assumptions read_torn_stream.
Print Assumptions replay_loop_fold_c.
Print Assumptions stream_ext.
Print Assumptions ensure_last_full_ext.
Print Assumptions rd_open_short.
Print Assumptions open_torn_core.
Print Assumptions open_clean_core.
Print Assumptions open_torn.
Print Assumptions open_torn_complete.

(* ---------- concrete instances ---------- *)
(* The requested resume property "every stream byte from the writer's position on is zero" is
   FALSE when the torn HEADER (fewer than 7 bytes of it) lies in the last block of the last
   file: read_frame flags the block corrupt and, there being no next block, the reader stays at
   the start of the torn header; rd_into_writer resumes THERE.  (resume_ok's second case.)
   BS = 16, one block per file; the directory is the single file holding the first 3 bytes of
   the encoding of one entry. With a spare block (NB = 2) the writer resumes at the next block. *)
Module Corner.
Definition Px : params := mkParams 16 1 (fun _ _ => 5) 0 false false false.
Definition Py : params := mkParams 16 2 (fun _ _ => 5) 0 false false false.
Definition qa : bytes := ["a"%byte].
Definition TX : bytes := encs_of Px 0 (map entry_ser [EPosition qa 0]).
Definition content : bytes := takeN 3 TX ++ zerosN 13.
Definition fs_ex : fsT := [(filename 0, FFile content)].
Definition fs_short : fsT := [(filename 0, FFile (takeN 3 TX))].
Definition fs_y : fsT := [(filename 0, FFile (takeN 3 TX ++ zerosN 29))].

Definition wpos (P : params) (fs : fsT) : option (N * N * fsT) :=
  match open P fs None PNothing [] with
  | OpenOk st => Some (w_file (s_wr st), w_off (s_wr st), c_fs (w_ctx (s_wr st)))
  | _ => None
  end.

Example corner_not_zero :
  list_wal_numbers fs_ex = [0] /\ lenN content = FILE_BYTES Px /\
  wpos Px fs_ex = Some (0, 0, fs_ex) /\
  all_zero (dropN 0 content) = false /\ all_zero (dropN (0 + 6) content) = true /\
  (* a short last file is zero-extended first: same outcome *)
  wpos Px fs_short = Some (0, 0, fs_ex) /\
  (* with a spare block the writer resumes at the next block, from where all is zero *)
  wpos Py fs_y = Some (0, 16, fs_y).
Proof. vm_compute. repeat split; reflexivity. Qed.
End Corner.
