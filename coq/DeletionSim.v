(* DeletionSim.v — replay tolerates the loss of one entry (entry level of property C09,
   "frame damage costs only the entry it hits").

   Setting: a legal log L = A ++ x :: B; F is the replay of L (tags = indices in L); the damaged
   replay runs over A ++ B but keeps the ORIGINAL indices as tags (t_replay_skip).  We prove:
     (1) the damaged replay does not fail;
     (2) per queue, every record of F whose tag is not [length A] (i.e. not appended by x) is a
         record of the damaged state D, in the same relative order (sub-sequence), and D's next
         position never runs ahead of F's;
     (3) the same for the model's replay (Log.apply_entry / GhostLog.replay_entries), for any
         file tags;
     (4) a concrete instance with a delete + re-create, a truncate and a lost EDelete. *)
From Coq Require Import Lia ZArith ZifyN ZifyNat ZifyBool List.
From MRL Require Import Bytes BytesProofs Params Record Mem Spec Log SpecRefine RecordProofs
  GhostLog ReplaySpec.
Import ListNotations.

Arguments N.add : simpl never.
Arguments N.sub : simpl never.
Arguments N.mul : simpl never.
Arguments N.eqb : simpl never.
Arguments N.ltb : simpl never.
Arguments N.leb : simpl never.
Arguments N.div : simpl never.
Arguments N.modulo : simpl never.

(* ====================================================================== *)
(* 0. sub-sequences                                                       *)
(* ====================================================================== *)

Inductive sublist {A : Type} : list A -> list A -> Prop :=
| sl_nil : sublist [] []
| sl_skip x l1 l2 : sublist l1 l2 -> sublist l1 (x :: l2)
| sl_keep x l1 l2 : sublist l1 l2 -> sublist (x :: l1) (x :: l2).

Lemma sublist_refl {A} (l : list A) : sublist l l.
Proof. induction l as [|x t IH]; constructor; exact IH. Qed.

Lemma sublist_nil_l {A} (l : list A) : sublist [] l.
Proof. induction l as [|x t IH]; constructor; exact IH. Qed.

Lemma sublist_In {A} (l1 l2 : list A) x : sublist l1 l2 -> In x l1 -> In x l2.
Proof.
  induction 1 as [|y l1 l2 H IH|y l1 l2 H IH]; intros Hin.
  - exact Hin.
  - right. now apply IH.
  - destruct Hin as [<-|Hin]; [now left|right; now apply IH].
Qed.

Lemma sublist_filter_l {A} (f : A -> bool) l1 l2 : sublist l1 l2 -> sublist (filter f l1) l2.
Proof.
  induction 1 as [|y l1 l2 H IH|y l1 l2 H IH]; cbn [filter].
  - constructor.
  - now constructor.
  - destruct (f y); now constructor.
Qed.

Lemma sublist_filter {A} (f : A -> bool) l : sublist (filter f l) l.
Proof. apply sublist_filter_l, sublist_refl. Qed.

Lemma sublist_filter_mono {A} (f : A -> bool) l1 l2 :
  sublist l1 l2 -> sublist (filter f l1) (filter f l2).
Proof.
  induction 1 as [|y l1 l2 H IH|y l1 l2 H IH]; cbn [filter].
  - constructor.
  - destruct (f y); [now constructor|exact IH].
  - destruct (f y); [now constructor|exact IH].
Qed.

Lemma sublist_app {A} (a1 a2 b1 b2 : list A) :
  sublist a1 a2 -> sublist b1 b2 -> sublist (a1 ++ b1) (a2 ++ b2).
Proof.
  intros Ha Hb. induction Ha as [|y l1 l2 H IH|y l1 l2 H IH]; cbn [app].
  - exact Hb.
  - now constructor.
  - now constructor.
Qed.

Lemma sublist_map {A B} (g : A -> B) l1 l2 : sublist l1 l2 -> sublist (map g l1) (map g l2).
Proof. induction 1; cbn [map]; now constructor. Qed.

Lemma sublist_length {A} (l1 l2 : list A) : sublist l1 l2 -> (length l1 <= length l2)%nat.
Proof. induction 1; cbn [length]; lia. Qed.

(* ====================================================================== *)
(* 1. the damaged replay, with the original tags                          *)
(* ====================================================================== *)

(* replay A with tags 0.., skip index [length A], replay B with tags length A + 1.. *)
Definition t_replay_skip (A B : list entry) : option tmap :=
  match t_replay [] 0 A with
  | Some m => t_replay m (S (length A)) B
  | None => None
  end.

(* the log with the lost entry, in the two spellings *)
Lemma log_with_lost_entry (A B : list entry) x : A ++ [x] ++ B = A ++ x :: B.
Proof. reflexivity. Qed.

(* records not appended by entry k *)
Definition not_x (k : nat) (r : trec) : bool := negb (fst r =? k)%nat.

(* F's view of a queue against D's view; k = index of the lost entry *)
Definition del_q (k : nat) (fq dq : option tqueue) : Prop :=
  match fq with
  | None => True
  | Some (rf, nf) =>
      match dq with
      | None => filter (not_x k) rf = []
      | Some (rd, nd) => sublist (filter (not_x k) rf) rd /\ nd <= nf
      end
  end.

Definition del (k : nat) (F D : tmap) : Prop := forall q, del_q k (t_get F q) (t_get D q).

Lemma del_q_refl k v : del_q k v v.
Proof.
  destruct v as [[rf nf]|]; cbn [del_q]; [|exact I]. split; [apply sublist_filter|lia].
Qed.

Lemma filter_not_x_tag_with k i new : i <> k -> filter (not_x k) (tag_with i new) = tag_with i new.
Proof.
  intros H. apply filter_all_true. intros r Hr. unfold tag_with in Hr.
  apply in_map_iff in Hr. destruct Hr as (a & <- & _). unfold not_x. cbn [fst].
  apply Bool.negb_true_iff. apply Nat.eqb_neq. exact H.
Qed.

Lemma filter_not_x_tag_same k new : filter (not_x k) (tag_with k new) = [].
Proof.
  apply filter_all_false. intros r Hr. unfold tag_with in Hr.
  apply in_map_iff in Hr. destruct Hr as (a & <- & _). unfold not_x. cbn [fst].
  now rewrite Nat.eqb_refl.
Qed.

(* ---------- one step, one queue ---------- *)

Lemma del_q_step k i fq dq e fq' :
  del_q k fq dq -> wfq i fq -> legal_q fq e -> i <> k ->
  q_apply fq i e = Some fq' ->
  exists dq', q_apply dq i e = Some dq' /\ del_q k fq' dq'.
Proof.
  intros Hs Hw Hl Hk Hf. destruct e as [q pos recs|q p|q p|q p]; cbn [legal_q q_apply] in *.
  - (* EAppend *)
    destruct Hl as (old & next & -> & Hle & Hne & payloads & ->).
    apply number_from_nonnil in Hne.
    rewrite t_append_all_eq, (chk_pos_number_from payloads pos next Hle Hne) in Hf.
    inversion Hf; subst fq'. clear Hf. cbn [del_q] in Hs.
    destruct dq as [[rd nd]|].
    + destruct Hs as (Hsub & Hn).
      rewrite t_append_all_eq, (chk_pos_number_from payloads pos nd) by (try lia; exact Hne).
      eexists. split; [reflexivity|]. cbn [del_q]. split; [|lia].
      rewrite filter_app, (filter_not_x_tag_with k i _ Hk).
      apply sublist_app; [exact Hsub|apply sublist_refl].
    + rewrite t_append_all_eq, (chk_pos_number_from payloads pos pos (N.le_refl _) Hne).
      eexists. split; [reflexivity|]. cbn [del_q]. split; [|lia].
      rewrite filter_app, (filter_not_x_tag_with k i _ Hk), Hs. apply sublist_refl.
  - (* ETruncate *)
    destruct fq as [[rf n]|]; [|congruence]. inversion Hf; subst fq'. clear Hf Hl.
    cbn [wfq] in Hw. destruct Hw as (_ & _ & Hpos). cbn [del_q] in Hs.
    destruct dq as [[rd nd]|].
    + destruct Hs as (Hsub & Hn). eexists. split; [reflexivity|].
      unfold t_truncate. cbn [del_q]. split.
      * rewrite filter_comm. now apply sublist_filter_mono.
      * destruct (N.leb_spec n (p + 1)) as [Hnp|Hnp].
        -- rewrite (filter_pos_nil p n rf Hpos Hnp). cbn [isnil andb].
           destruct (isnil _ && (nd <=? p + 1)); lia.
        -- rewrite andb_false_r.
           destruct (isnil (filter (fun r => p <? fst (snd r)) rd) && (nd <=? p + 1)); lia.
    + eexists. split; [reflexivity|]. unfold t_truncate. cbn [del_q].
      rewrite filter_comm, Hs. reflexivity.
  - (* EPosition *)
    destruct Hl as [(-> & ->)|(next & -> & ->)].
    + inversion Hf; subst fq'. clear Hf.
      destruct dq as [[rd nd]|].
      * destruct (negb (isnil rd) || negb (nd =? 0)) eqn:Ec.
        -- eexists. split; [reflexivity|]. cbn [del_q filter]. split; [constructor|lia].
        -- eexists. split; [reflexivity|]. cbn [del_q filter]. split; [apply sublist_nil_l|].
           apply Bool.orb_false_elim in Ec. destruct Ec as (_ & Ec).
           apply Bool.negb_false_iff in Ec. lia.
      * eexists. split; [reflexivity|]. cbn [del_q filter]. split; [constructor|lia].
    + cbn [isnil negb orb] in Hf. rewrite N.eqb_refl in Hf. cbn [negb] in Hf.
      inversion Hf; subst fq'. clear Hf. cbn [del_q filter] in *.
      destruct dq as [[rd nd]|].
      * destruct (negb (isnil rd) || negb (nd =? next)).
        -- eexists. split; [reflexivity|]. cbn [del_q filter]. split; [constructor|lia].
        -- eexists. split; [reflexivity|]. cbn [del_q filter]. exact Hs.
      * eexists. split; [reflexivity|]. cbn [del_q filter]. split; [constructor|lia].
  - (* EDelete *)
    inversion Hf; subst fq'. eexists. split; [reflexivity|]. exact I.
Qed.

(* ---------- one step, all queues ---------- *)

Lemma del_step k i F D e F' :
  del k F D -> wf_tmap i F -> legal F e -> i <> k ->
  t_apply F i e = Some F' ->
  exists D', t_apply D i e = Some D' /\ del k F' D'.
Proof.
  intros Hs Hw Hl Hk Hf. apply legal_legal_q in Hl.
  destruct (t_apply_some _ _ _ _ Hf) as (Hf1 & Hf2).
  destruct (del_q_step k i _ _ e _ (Hs (entry_queue e)) (Hw (entry_queue e)) Hl Hk Hf1)
    as (dq' & Hq & Hdq).
  destruct (q_apply_some_t_apply _ _ _ _ Hq) as (D' & HD & HD1 & HD2).
  exists D'. split; [exact HD|]. intros q.
  destruct (bytes_eqb (entry_queue e) q) eqn:E.
  - apply bytes_eqb_eq in E. subst q. rewrite HD1. exact Hdq.
  - apply bytes_eqb_neq in E. rewrite (Hf2 q E), (HD2 q E). apply Hs.
Qed.

Lemma del_lockstep k : forall suf i F D,
  del k F D -> wf_tmap i F -> (k < i)%nat -> legal_log F i suf ->
  exists F' D', t_replay F i suf = Some F' /\ t_replay D i suf = Some D' /\ del k F' D'.
Proof.
  induction suf as [|e r IH]; intros i F D Hs Hw Hk Hl; cbn [t_replay].
  - exists F, D. repeat split; try reflexivity. exact Hs.
  - destruct (legal_log_cons_inv _ _ _ _ Hl) as (Hle & F1 & HF1 & Hr).
    destruct (del_step k i F D e F1 Hs Hw Hle ltac:(lia) HF1) as (D1 & HD1 & Hs1).
    rewrite HF1, HD1. apply IH; [exact Hs1| |lia|exact Hr].
    eapply t_apply_wf; eauto.
Qed.

(* ---------- the lost entry itself: F takes the step, D does not ---------- *)

Lemma del_q_init k v e v' : legal_q v e -> q_apply v k e = Some v' -> del_q k v' v.
Proof.
  intros Hl Hf. destruct e as [q pos recs|q p|q p|q p]; cbn [legal_q q_apply] in *.
  - destruct Hl as (old & next & -> & Hle & Hne & payloads & ->).
    apply number_from_nonnil in Hne.
    rewrite t_append_all_eq, (chk_pos_number_from payloads pos next Hle Hne) in Hf.
    inversion Hf; subst v'. clear Hf. cbn [del_q]. split; [|lia].
    rewrite filter_app, filter_not_x_tag_same, app_nil_r. apply sublist_filter.
  - destruct v as [[rf n]|]; [|congruence]. inversion Hf; subst v'. clear Hf.
    unfold t_truncate. cbn [del_q]. split.
    + apply sublist_filter_l, sublist_filter.
    + destruct (isnil _ && (n <=? p + 1)) eqn:Ec; [|lia].
      apply andb_prop in Ec. destruct Ec as (_ & Ec). lia.
  - destruct Hl as [(-> & ->)|(next & -> & ->)].
    + inversion Hf; subst v'. reflexivity.
    + cbn [isnil negb orb] in Hf. rewrite N.eqb_refl in Hf. cbn [negb] in Hf.
      inversion Hf; subst v'. apply del_q_refl.
  - inversion Hf; subst v'. exact I.
Qed.

Lemma del_init k M e M' : legal M e -> t_apply M k e = Some M' -> del k M' M.
Proof.
  intros Hl Hf q. apply legal_legal_q in Hl.
  destruct (t_apply_some _ _ _ _ Hf) as (Hf1 & Hf2).
  destruct (bytes_eqb (entry_queue e) q) eqn:E.
  - apply bytes_eqb_eq in E. subst q. eapply del_q_init; eauto.
  - apply bytes_eqb_neq in E. rewrite (Hf2 q E). apply del_q_refl.
Qed.

(* ====================================================================== *)
(* 2. the theorems                                                        *)
(* ====================================================================== *)

Section Deletion.
Variables (A B : list entry) (x : entry).
Hypothesis Hlegal : legal_log [] 0 (A ++ x :: B).

Lemma deletion_split :
  exists M M1 F, t_replay [] 0 A = Some M /\ legal M x /\ t_apply M (length A) x = Some M1 /\
               wf_tmap (S (length A)) M1 /\ legal_log M1 (S (length A)) B /\
               t_replay M1 (S (length A)) B = Some F /\
               t_replay [] 0 (A ++ x :: B) = Some F.
Proof.
  destruct (legal_log_app _ _ _ _ Hlegal) as (M & HM & Hl). cbn [Nat.add] in Hl.
  destruct (legal_log_cons_inv _ _ _ _ Hl) as (Hlx & M1 & HM1 & HlB).
  destruct (legal_log_replay_some _ _ _ HlB) as (F & HF1).
  exists M, M1, F. split; [exact HM|]. split; [exact Hlx|]. split; [exact HM1|].
  pose proof (t_replay_wf A 0 [] M (wf_tmap_nil 0) HM) as HwM. cbn [Nat.add] in HwM.
  split; [eapply t_apply_wf; eauto|]. split; [exact HlB|]. split; [exact HF1|].
  rewrite t_replay_app, HM. cbn [Nat.add t_replay]. rewrite HM1. exact HF1.
Qed.

Lemma deletion_both :
  exists F D, t_replay [] 0 (A ++ x :: B) = Some F /\ t_replay_skip A B = Some D /\
              del (length A) F D.
Proof.
  destruct deletion_split as (M & M1 & F & HM & Hlx & HM1 & Hw1 & HlB & HF1 & HF).
  pose proof (del_init (length A) M x M1 Hlx HM1) as Hd0.
  destruct (del_lockstep (length A) B (S (length A)) M1 M Hd0 Hw1 (Nat.lt_succ_diag_r _) HlB)
    as (F' & D' & HF' & HD' & Hd).
  rewrite HF1 in HF'. inversion HF'; subst F'.
  exists F, D'. split; [exact HF|]. split; [|exact Hd]. unfold t_replay_skip. rewrite HM. exact HD'.
Qed.

(* (1) the damaged replay does not fail *)
Theorem deletion_replay_some : exists D, t_replay_skip A B = Some D.
Proof. destruct deletion_both as (F & D & _ & HD & _). exists D. exact HD. Qed.

Variables F D : tmap.
Hypothesis HF : t_replay [] 0 (A ++ x :: B) = Some F.
Hypothesis HD : t_replay_skip A B = Some D.

Theorem deletion_simulation_strong : del (length A) F D.
Proof.
  destruct deletion_both as (F' & D' & HF' & HD' & Hd). rewrite HD in HD'. rewrite HF in HF'.
  inversion HD'; inversion HF'; subst. exact Hd.
Qed.

(* (2) every record of F not appended by x is in D, same queue, same tag/position/payload,
       same relative order; D's next position never runs ahead of F's *)
Theorem deletion_simulation : forall q rf nf,
  t_get F q = Some (rf, nf) ->
  (forall r, In r rf -> fst r <> length A ->
     exists rd nd, t_get D q = Some (rd, nd) /\ In r rd) /\
  (forall rd nd, t_get D q = Some (rd, nd) ->
     sublist (filter (not_x (length A)) rf) rd /\ nd <= nf).
Proof.
  intros q rf nf EF. pose proof (deletion_simulation_strong q) as H. rewrite EF in H.
  cbn [del_q] in H. split.
  - intros r Hin Hne.
    assert (Hr : In r (filter (not_x (length A)) rf)).
    { apply filter_In. split; [exact Hin|]. unfold not_x. apply Bool.negb_true_iff.
      apply Nat.eqb_neq. exact Hne. }
    destruct (t_get D q) as [[rd nd]|].
    + destruct H as (Hsub & _). exists rd, nd. split; [reflexivity|].
      eapply sublist_In; eauto.
    + rewrite H in Hr. destruct Hr.
  - intros rd nd ED. rewrite ED in H. exact H.
Qed.

(* the damaged state holds no record tagged with the lost index, and is well formed *)
Theorem deletion_result_wf : wf_tmap (S (length A) + length B) D.
Proof.
  unfold t_replay_skip in HD. destruct (t_replay [] 0 A) as [M|] eqn:HM; [|discriminate].
  pose proof (t_replay_wf A 0 [] M (wf_tmap_nil 0) HM) as HwM. cbn [Nat.add] in HwM.
  eapply t_replay_wf; [|exact HD]. intros q. eapply wfq_mono; [|apply HwM]. lia.
Qed.
End Deletion.

(* ====================================================================== *)
(* 3. transfer to the model's replay                                      *)
(* ====================================================================== *)

Lemma apply_entries_is_replay_entries : forall fes qs, apply_entries qs fes = replay_entries qs fes.
Proof.
  induction fes as [|[f e] r IH]; intros qs; cbn [apply_entries replay_entries]; [reflexivity|].
  destruct (apply_entry qs f e); [apply IH|reflexivity].
Qed.

(* the model's replay of the damaged log, against the tagged one *)
Lemma replay_skip_refines (fA' fB' : list (N * entry)) D :
  t_replay_skip (map snd fA') (map snd fB') = Some D ->
  exists qD, replay_entries [] (fA' ++ fB') = Some qD /\ untag D = abs_qs qD /\ qs_inv qD.
Proof.
  unfold t_replay_skip. intros H.
  destruct (t_replay [] 0 (map snd fA')) as [M|] eqn:HM; [|discriminate].
  rewrite replay_app, <- apply_entries_is_replay_entries.
  pose proof (apply_entries_refines fA' [] 0 [] qs_inv_nil eq_refl) as H1.
  destruct (apply_entries [] fA') as [qA|].
  - destruct H1 as (tm & E & Hu & Hi). rewrite HM in E. inversion E; subst tm.
    cbn [obind]. rewrite <- apply_entries_is_replay_entries.
    pose proof (apply_entries_refines fB' qA (S (length (map snd fA'))) M Hi Hu) as H2.
    destruct (apply_entries qA fB') as [qD|].
    + destruct H2 as (tm & E2 & Hu2 & Hi2). rewrite H in E2. inversion E2; subst tm.
      exists qD. split; [reflexivity|]. split; assumption.
    + congruence.
  - congruence.
Qed.

(* The model's replay (open's replay loop) of the log with one entry lost, read from any files:
   it succeeds, and every record of the full result that was not appended by the lost entry
   is still there, in the same queue, with the same position and payload, in the same order. *)
Theorem model_deletion (fA fB fA' fB' : list (N * entry)) (fx : N * entry) F :
  let A := map snd fA in
  let B := map snd fB in
  let x := snd fx in
  map snd fA' = A -> map snd fB' = B ->
  legal_log [] 0 (A ++ x :: B) ->
  t_replay [] 0 (A ++ x :: B) = Some F ->
  exists qF qD,
    replay_entries [] (fA ++ fx :: fB) = Some qF /\
    replay_entries [] (fA' ++ fB') = Some qD /\
    qs_inv qF /\ qs_inv qD /\ abs_qs qF = untag F /\
    forall q rf nf, t_get F q = Some (rf, nf) ->
      (exists mF, qs_get qF q = Some mF /\
                  records_of (q_buf mF) (q_metas mF) = map snd rf /\ next_position mF = nf) /\
      (forall r, In r rf -> fst r <> length A ->
         exists mD, qs_get qD q = Some mD /\ In (snd r) (records_of (q_buf mD) (q_metas mD))) /\
      (forall mD, qs_get qD q = Some mD ->
         sublist (map snd (filter (not_x (length A)) rf)) (records_of (q_buf mD) (q_metas mD)) /\
         next_position mD <= nf).
Proof.
  intros A B x HA HB Hl HF.
  destruct (deletion_replay_some A B x Hl) as (D & HD).
  (* the full replay *)
  pose proof (apply_entries_refines (fA ++ fx :: fB) [] 0 [] qs_inv_nil eq_refl) as H1.
  rewrite map_app in H1. cbn [map] in H1. fold A B x in H1. rewrite HF in H1.
  rewrite apply_entries_is_replay_entries in H1.
  destruct (replay_entries [] (fA ++ fx :: fB)) as [qF|]; [|discriminate].
  destruct H1 as (tmF & EF & HuF & HiF). inversion EF; subst tmF.
  (* the damaged replay *)
  pose proof HD as HD'. rewrite <- HA, <- HB in HD'.
  destruct (replay_skip_refines fA' fB' D HD') as (qD & EqD & HuD & HiD).
  exists qF, qD. split; [reflexivity|]. split; [exact EqD|]. split; [exact HiF|].
  split; [exact HiD|]. split; [now symmetry|].
  intros q rf nf Eq.
  destruct (deletion_simulation A B x Hl F D HF HD q rf nf Eq) as (Hin & Hsub).
  pose proof (untag_abs_get F qF q HuF) as HgF. rewrite Eq in HgF.
  pose proof (untag_abs_get D qD q HuD) as HgD.
  split; [|split].
  - destruct (qs_get qF q) as [mF|]; [|destruct HgF]. exists mF. split; [reflexivity|].
    unfold untag_q, abs_q in HgF. cbn [fst snd] in HgF. injection HgF as Hr1 Hn1. split; congruence.
  - intros r Hr Hne. destruct (Hin r Hr Hne) as (rd & nd & ED & Hrd). rewrite ED in HgD.
    destruct (qs_get qD q) as [mD|]; [|destruct HgD]. exists mD. split; [reflexivity|].
    unfold untag_q, abs_q in HgD. cbn [fst snd] in HgD. injection HgD as Hr1 Hn1.
    rewrite <- Hr1. now apply in_map.
  - intros mD EmD. rewrite EmD in HgD.
    destruct (t_get D q) as [[rd nd]|]; [|destruct HgD].
    destruct (Hsub rd nd eq_refl) as (Hs & Hn).
    unfold untag_q, abs_q in HgD. cbn [fst snd] in HgD. injection HgD as Hr1 Hn1.
    split; [|lia]. rewrite <- Hr1. now apply sublist_map.
Qed.

(* ====================================================================== *)
(* 4. a concrete instance                                                 *)
(* ====================================================================== *)

(* qa: created, filled, deleted, re-created, filled, truncated; qb: created, filled, then the
   LOST entry deletes it; afterwards qa grows, qb is re-created and filled again. *)
Definition tr (i : nat) (p : N) (b : bytes) : trec := (i, (p, b)).

Definition dx_A : list entry :=
  [EPosition qa 0; EAppend qa 0 (number_from 0 [[x01]; [x02]]); EDelete qa 0;
   EPosition qa 0; EAppend qa 0 (number_from 0 [[x03]; [x04]; [x05]]); ETruncate qa 0;
   EPosition qb 0; EAppend qb 0 (number_from 0 [[x09]])].
Definition dx_x : entry := EDelete qb 0.
Definition dx_B1 : list entry := [EAppend qa 5 (number_from 5 [[x06]])].
Definition dx_B2 : list entry := [EPosition qb 0; EAppend qb 0 (number_from 0 [[x07]])].
Definition dx_B : list entry := dx_B1 ++ dx_B2.

Example dx_legal : legal_log [] 0 (dx_A ++ dx_x :: dx_B).
Proof.
  unfold dx_A, dx_x, dx_B, dx_B1, dx_B2. cbn [app]. repeat legal_step. apply ll_nil.
Qed.

(* the full state and the damaged state: here they agree on every record (the old incarnation
   of qb survives the lost EDelete but is reset by the re-creation's EPosition qb 0) *)
Definition dx_F : tmap :=
  [(qa, ([tr 4 1 [x04]; tr 4 2 [x05]; tr 9 5 [x06]], 6)); (qb, ([tr 11 0 [x07]], 1))].

Example dx_full : t_replay [] 0 (dx_A ++ dx_x :: dx_B) = Some dx_F.
Proof. vm_compute. reflexivity. Qed.

Example dx_damaged :
  t_replay_skip dx_A dx_B =
  Some [(qa, ([tr 4 1 [x04]; tr 4 2 [x05]; tr 9 5 [x06]], 6));
        (qb, ([tr 11 0 [x07]], 1))].
Proof. vm_compute. reflexivity. Qed.

(* cut before the re-creation: F has no qb, D keeps the old incarnation (allowed: extra) *)
Example dx_full_1 :
  t_replay [] 0 (dx_A ++ dx_x :: dx_B1) =
  Some [(qa, ([tr 4 1 [x04]; tr 4 2 [x05]; tr 9 5 [x06]], 6))].
Proof. vm_compute. reflexivity. Qed.

Example dx_damaged_1 :
  t_replay_skip dx_A dx_B1 =
  Some [(qa, ([tr 4 1 [x04]; tr 4 2 [x05]; tr 9 5 [x06]], 6));
        (qb, ([tr 7 0 [x09]], 1))].
Proof. vm_compute. reflexivity. Qed.

(* a lost ETruncate: D keeps the truncated record, F's records are a sub-sequence *)
Definition dy_A : list entry :=
  [EPosition qa 0; EAppend qa 0 (number_from 0 [[x01]; [x02]])].
Definition dy_x : entry := ETruncate qa 0.
Definition dy_B : list entry := [EAppend qa 2 (number_from 2 [[x03]])].

Example dy_full :
  t_replay [] 0 (dy_A ++ dy_x :: dy_B) = Some [(qa, ([tr 1 1 [x02]; tr 3 2 [x03]], 3))].
Proof. vm_compute. reflexivity. Qed.
Example dy_damaged :
  t_replay_skip dy_A dy_B =
  Some [(qa, ([tr 1 0 [x01]; tr 1 1 [x02]; tr 3 2 [x03]], 3))].
Proof. vm_compute. reflexivity. Qed.

(* the model theorem instantiated: hypotheses satisfiable, files differ between the two runs *)
Example dx_model :
  exists qF qD,
    replay_entries [] (map (pair 1) dx_A ++ (2, dx_x) :: map (pair 2) dx_B) = Some qF /\
    replay_entries [] (map (pair 1) dx_A ++ map (pair 3) dx_B) = Some qD /\
    (exists mF mD, qs_get qF qa = Some mF /\ qs_get qD qa = Some mD /\
       sublist (records_of (q_buf mF) (q_metas mF)) (records_of (q_buf mD) (q_metas mD))) /\
    (exists mF mD, qs_get qF qb = Some mF /\ qs_get qD qb = Some mD /\
       sublist (records_of (q_buf mF) (q_metas mF)) (records_of (q_buf mD) (q_metas mD))).
Proof.
  assert (Hsnd : forall (f : N) (l : list entry), map snd (map (pair f) l) = l).
  { intros f l. rewrite map_map. cbn [snd]. apply map_id. }
  pose proof (model_deletion (map (pair 1) dx_A) (map (pair 2) dx_B)
                (map (pair 1) dx_A) (map (pair 3) dx_B) (2, dx_x) dx_F) as H.
  cbn zeta in H. cbn [snd] in H. rewrite !Hsnd in H.
  destruct (H eq_refl eq_refl dx_legal dx_full) as (qF & qD & H1 & H2 & _ & _ & _ & H3).
  clear H.
  - exists qF, qD. split; [exact H1|]. split; [exact H2|].
    split.
    + destruct (H3 qa _ _ eq_refl) as ((mF & EF & HrF & _) & Hin & Hsub).
      destruct (Hin (tr 4 1 [x04])) as (mD & ED & _); [now left|cbv; lia|].
      exists mF, mD. split; [exact EF|]. split; [exact ED|].
      rewrite HrF. destruct (Hsub mD ED) as (Hs & _). exact Hs.
    + destruct (H3 qb _ _ eq_refl) as ((mF & EF & HrF & _) & Hin & Hsub).
      destruct (Hin (tr 11 0 [x07])) as (mD & ED & _); [now left|cbv; lia|].
      exists mF, mD. split; [exact EF|]. split; [exact ED|].
      rewrite HrF. destruct (Hsub mD ED) as (Hs & _). exact Hs.
Qed.

Print Assumptions deletion_replay_some.
Print Assumptions deletion_simulation_strong.
Print Assumptions deletion_simulation.
Print Assumptions deletion_result_wf.
Print Assumptions replay_skip_refines.
Print Assumptions model_deletion.
Print Assumptions dx_legal.
Print Assumptions dx_model.
