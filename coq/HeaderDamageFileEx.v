(* HeaderDamageFileEx.v — instances for HeaderDamageFile.v, by computation with the real CRC-32
   (params Pc of DamageAtomic.Example: BS = 32, two blocks per file).
   (A) non-vacuity of open_header_damaged: the dropped directory of DamageAtomic.Example (files
       1..6 kept, file 0 deleted by the GC, so the kept files begin with two continuation frames
       of an entry whose first frame is gone), ONE byte changed: the length field of the Last
       frame of ETruncate a 1, in block 6 of the ghost stream.  All premises discharged.
   (B) the Corruption branch is real: one damaged byte can lose TWO entries (a DeleteQueue and
       the re-creation of the queue), and the replay of what is left fails: open returns
       OpenCorruption although every delivered entry is genuine. *)
From Coq Require Import Lia ZArith ZifyN ZifyNat ZifyBool List.
From MRL Require Import Bytes BytesProofs Params Names Frame Record Mem Rolling Log Driver Hist
  StreamProofs DamageProofs TornProofs ResyncProofs RecordProofs PolicyProofs GhostLog GcProofs FileStream OpenReplay
  RestartFinal DamageFile DamageAtomic HeaderDamageEv HeaderDamage HeaderDamageFile.
From MRL Require VacBase VacDamage.
From MRL Require Import RestartInv.
Import ListNotations.
Import DamageAtomic.Example.

Arguments N.add : simpl never.
Arguments N.sub : simpl never.
Arguments N.mul : simpl never.

Local Notation rframe := (read_frame Pc vecr (vr_next Pc) vr_block).
Local Notation K f := (f Pc Pc_BS_lo Pc_BS_hi Pc_crc) (only parsing).
Local Notation KN f := (f Pc Pc_BS_lo Pc_BS_hi Pc_NB Pc_crc) (only parsing).

(* ---------- the frames of a written stream, by parsing; a checker for layout ---------- *)
Section Parse.
Variable P : params.

Fixpoint parse (fuel : nat) (a : N) (e : bytes) : list fspec :=
  match fuel with
  | O => []
  | S f =>
      match e with
      | [] => []
      | _ =>
          let e1 := dropN (lenN (pad_of P a)) e in
          let len := le_dec (sliceN 4 6 e1) in
          match ft_of_code (le_dec (sliceN 6 7 e1)) with
          | Some t => mkFS (takeN 4 e1) t (sliceN 7 (7 + len) e1)
                      :: parse f (a + lenN (pad_of P a) + 7 + len) (dropN (7 + len) e1)
          | None => []
          end
      end
  end.

Fixpoint layout_b (a : N) (xs : list fspec) (e : bytes) : bool :=
  match xs with
  | [] => isnil e
  | x :: r =>
      let pre := pad_of P a ++ fs_bytes x in
      (lenN (fs_c4 x) =? 4) && (lenN (fs_pl x) <=? max_writable P (BS P - a mod BS P)) &&
      bytes_eqb (takeN (lenN pre) e) pre &&
      layout_b (a + lenN (pad_of P a) + 7 + lenN (fs_pl x)) r (dropN (lenN pre) e)
  end.

Lemma layout_b_sound xs : forall a e, layout_b a xs e = true -> layout P a xs e.
Proof.
  induction xs as [|x r IH]; intros a e H; cbn [layout_b] in H.
  - destruct e; [constructor|discriminate].
  - apply andb_true_iff in H as [H Hr]. apply andb_true_iff in H as [H Hpre].
    apply andb_true_iff in H as [Hc4 Hfit].
    apply N.eqb_eq in Hc4. apply N.leb_le in Hfit. apply bytes_eqb_eq in Hpre.
    rewrite <- (takeN_dropN (lenN (pad_of P a ++ fs_bytes x)) e), Hpre, <- app_assoc.
    apply LY_cons; [exact Hc4|exact Hfit|]. apply IH. exact Hr.
Qed.
End Parse.

Definition fspec_eqb (x y : fspec) : bool :=
  bytes_eqb (fs_c4 x) (fs_c4 y) && (ft_code (fs_ty x) =? ft_code (fs_ty y)) &&
  bytes_eqb (fs_pl x) (fs_pl y).

Lemma fspec_eqb_eq x y : fspec_eqb x y = true -> x = y.
Proof.
  destruct x as [c ty pl], y as [c' ty' pl']. unfold fspec_eqb. cbn [fs_c4 fs_ty fs_pl].
  intros H. apply andb_true_iff in H as [H H3]. apply andb_true_iff in H as [H1 H2].
  apply bytes_eqb_eq in H1, H3. subst.
  assert (ty = ty') by (destruct ty, ty'; try reflexivity; discriminate H2). subst. reflexivity.
Qed.

(* is (position q, the CRC-valid frame t p) one of the frames of xs? *)
Definition genuine_b (xs : list fspec) (q : N) (t : ftype) (p : bytes) : bool :=
  existsb (fun qx => (fst qx =? q) && fspec_eqb (snd qx) (good_fs Pc t p)) (fpos Pc 0 xs).

Lemma genuine_b_sound xs q t p : genuine_b xs q t p = true -> In (q, good_fs Pc t p) (fpos Pc 0 xs).
Proof.
  intros H. apply existsb_exists in H as ([q' x] & Hin & Hq). cbn [fst snd] in Hq.
  apply andb_true_iff in Hq as [Hq1 Hq2]. apply N.eqb_eq in Hq1. apply fspec_eqb_eq in Hq2.
  subst. exact Hin.
Qed.

(* ====================== (A) an instance of open_header_damaged ====================== *)
Module A.
Definition h_ops : list (op * bool) :=
  flat_map (fun h => match h with HCall o t => [(o, t)] | _ => [] end) h_ex.
(* everything ever written, with the file each entry is attributed to *)
Definition L_ex : glog := Eval vm_compute in run_log Pc st0 h_ops.
Definition E_all : list entry := Eval vm_compute in map snd L_ex.
Definition E_pre : list entry := Eval vm_compute in firstn 3 E_all.
Definition E_1 : list entry := Eval vm_compute in firstn 1 (skipn 3 E_all).
Definition E_b : list entry := Eval vm_compute in firstn 2 (skipn 4 E_all).
Definition E_3 : list entry := Eval vm_compute in skipn 6 E_all.
Definition t0 : bytes := Eval vm_compute in encs_of Pc 0 (map entry_ser E_pre).
Definition t1 : bytes := Eval vm_compute in encs_of Pc (lenN t0) (map entry_ser E_1).
Definition tb : bytes := Eval vm_compute in encs_of Pc (lenN t0 + lenN t1) (map entry_ser E_b).
Definition t3 : bytes := Eval vm_compute in encs_of Pc (lenN t0 + lenN t1 + lenN tb) (map entry_ser E_3).
Definition T : bytes := Eval vm_compute in t0 ++ t1 ++ tb ++ t3.
Definition z : N := Eval vm_compute in 448 - lenN T.
Definition S : bytes := Eval vm_compute in T ++ zerosN z.

Example positions :
  starts Pc 0 (map entry_ser E_all) =
  [(0, 0); (19, 19); (45, 45);          (* E_pre; the third one ends at 122, in file 1 *)
   (122, 128);                           (* E_1: EAppend a [u], 128..176 *)
   (176, 176); (202, 202);               (* E_b: ETruncate a 1 (176..202), EPosition b 0 (202..221) *)
   (221, 224); (272, 272); (349, 352)]   (* E_3 *)
  /\ lenN T = 400 /\ dropN 64 S = S_ex.
Proof. vm_compute. repeat split; reflexivity. Qed.

(* ONE byte: the low byte of the length field of the Last frame of ETruncate a 1 (at 192, the
   start of block 6): 3 -> 4 *)
Definition D : bytes := Eval vm_compute in write_at S 196 ["004"%byte].
Definition fs_d : fsT :=
  Eval vm_compute in fs_put fs_ex (filename 3) (FFile (write_at (fcontent fs_ex 3) 4 ["004"%byte])).

Definition xs : list fspec := Eval vm_compute in parse Pc 100 0 T.

Lemma lay : layout Pc 0 xs T.
Proof. apply layout_b_sound. vm_compute. reflexivity. Qed.

Lemma reach_set o : reach Pc D 6 o -> o = 0 \/ o = 11.
Proof.
  induction 1 as [|c c' res Hr IH Hc E]; [left; reflexivity|].
  destruct IH as [->| ->]; vm_compute in E; inversion E; auto.
Qed.

Lemma path_ok : NoEmbeddedPath Pc D 6 T.
Proof.
  apply (K NoEmbeddedPath_of_X D 6 T xs lay).
  apply (K accepted_genuine_path); [vm_compute; congruence|].
  intros o Hr Ho fr' ty p E.
  destruct (reach_set o Hr) as [->| ->]; vm_compute in E; inversion E.
Qed.

Lemma full : forall f, In f (iota 1 6) ->
  exists b, fs_get fs_d (filename f) = Some (FFile b) /\ lenN b = FILE_BYTES Pc.
Proof.
  intros f Hf. cbn [iota In] in Hf.
  destruct Hf as [<-|[<-|[<-|[<-|[<-|[<-|[]]]]]]]; eexists; (split; [vm_compute; reflexivity|reflexivity]).
Qed.

Lemma wf_all : Forall wf_entry (E_1 ++ E_b ++ E_3).
Proof.
  assert (H : forall e, entry_deser (entry_ser e) = Some e -> wf_entry e).
  { intros e He. destruct (entry_deser_sound _ _ He) as (_ & _ & _ & Hw). exact Hw. }
  repeat constructor; apply H; vm_compute; reflexivity.
Qed.

Theorem instance : forall pol hint, exists w0 tags E_mid E_tail,
  DamageProofs.sublist E_mid E_b /\
  ((E_tail = E_3 /\
    ((6 + 1) * BS Pc <= lenN (t0 ++ t1 ++ tb ++ t3) ->
     exists sts, dmg_spec Pc fs_d 1 5 0 w0 tags sts (lenN (t0 ++ t1 ++ tb ++ t3)))) \/
   (E_tail = [] /\ stopped_in Pc D 6)) /\
  hd_spec fs_d 1 5 w0 tags (length (E_1 ++ E_mid ++ E_tail)) /\
  match replay_entries [] (combine tags (E_1 ++ E_mid ++ E_tail)) with
  | Some qs => open Pc fs_d None pol hint = open_finish Pc w0 qs pol hint
  | None => exists c, open Pc fs_d None pol hint = OpenCorruption c
  end.
Proof.
  intros pol hint.
  apply (KN open_header_damaged fs_d 1 5 full 0 E_pre E_1 E_b E_3 t0 t1 tb t3 z D 6 pol hint).
  - reflexivity.
  - vm_compute; congruence.
  - vm_compute; reflexivity.
  - exact wf_all.
  - change t0 with (encs_of Pc 0 (map entry_ser E_pre)). apply (K encs_of_rel).
  - change t1 with (encs_of Pc (lenN t0) (map entry_ser E_1)). apply (K encs_of_rel).
  - change tb with (encs_of Pc (lenN t0 + lenN t1) (map entry_ser E_b)). apply (K encs_of_rel).
  - change t3 with (encs_of Pc (lenN t0 + lenN t1 + lenN tb) (map entry_ser E_3)). apply (K encs_of_rel).
  - vm_compute; reflexivity.
  - vm_compute; reflexivity.
  - vm_compute; reflexivity.
  - vm_compute; reflexivity.
  - vm_compute; congruence.
  - vm_compute; congruence.
  - vm_compute; reflexivity.
  - vm_compute. repeat constructor.
  - vm_compute; congruence.
  - right. vm_compute; congruence.
  - right. vm_compute; congruence.
  - exact path_ok.
Qed.

(* what open actually does here: ETruncate a 1 is lost (its Last frame fails the CRC check and
   the damaged length makes the reader land one byte inside the frame of EPosition b 0, whose
   header then does not parse: that entry is lost too, the rest of the block is dropped); the
   reader resynchronises at block 7 and E_3 is replayed *)
Definition qs_of (fs : fsT) : option queues :=
  match open Pc fs None PNothing [] with OpenOk st => Some (s_qs st) | _ => None end.

Example what_open_does :
  qs_of fs_d = replay_entries [] (combine [1; 3; 4; 5] (E_1 ++ [] ++ E_3)) /\
  qs_of fs_ex = replay_entries [] (combine [1; 2; 3; 3; 4; 5] (E_1 ++ E_b ++ E_3)) /\
  qs_of fs_d <> None.
Proof. vm_compute. repeat split; try reflexivity; discriminate. Qed.
End A.

(* ====================== (B) one damaged byte, open fails with Corruption ====================== *)
Module B.
(* queue b keeps file 0 alive; queue a is created, filled, deleted, created again, filled again *)
Definition h2 : list (op * bool) :=
  [(OCreate qb, false); (OAppend qb None [pay "z"%byte], false);
   (OCreate qa, false); (OAppend qa None [pay "x"%byte], false); (ODelete qa [], false);
   (OCreate qa, false); (OAppend qa None [pay "y"%byte], false)].
Definition st2 : state := Eval vm_compute in fst (run Pc st0 h2).
Definition L2 : glog := Eval vm_compute in run_log Pc st0 h2.
Definition E_all : list entry := Eval vm_compute in map snd L2.
Definition fs2 : fsT := Eval vm_compute in c_fs (drop_log st2).
Definition T : bytes := Eval vm_compute in encs_of Pc 0 (map entry_ser E_all).
Definition z : N := Eval vm_compute in 256 - lenN T.
Definition S : bytes := Eval vm_compute in T ++ zerosN z.

Example setting :
  snd (run Pc st0 h2) =
    [OutCreate 19; OutAppend (Some 0) 55; OutCreate 19; OutAppend (Some 0) 51; OutDelete 26;
     OutCreate 19; OutAppend (Some 0) 51] /\
  E_all = [EPosition qb 0; EAppend qb 0 [(0, pay "z"%byte)];
           EPosition qa 0; EAppend qa 0 [(0, pay "x"%byte)];
           EDelete qa 1; EPosition qa 0; EAppend qa 0 [(0, pay "y"%byte)]] /\
  starts Pc 0 (map entry_ser E_all) =
    [(0, 0); (19, 19); (74, 74); (93, 96);
     (144, 144); (170, 170);      (* EDelete a 1: 144..170 (Last frame at 160); EPosition a 0: 170..189 *)
     (189, 192)] /\
  w_files (s_wr st2) = [0; 1; 2; 3] /\
  stream_of fs2 [0; 1; 2; 3] = S.
Proof. vm_compute. repeat split; reflexivity. Qed.

(* ONE byte of file 2 (offset 36 = byte 164 of the stream, in block 5): the low byte of the
   length field of the Last frame of EDelete a 1: 3 -> 4 *)
Definition D : bytes := Eval vm_compute in write_at S 164 ["004"%byte].
Definition fs2d : fsT :=
  Eval vm_compute in fs_put fs2 (filename 2) (FFile (write_at (fcontent fs2 2) 36 ["004"%byte])).

Definition xs : list fspec := Eval vm_compute in parse Pc 100 0 T.
Lemma lay : layout Pc 0 xs T.
Proof. apply layout_b_sound. vm_compute. reflexivity. Qed.

Lemma reach_set o : reach Pc D 5 o -> o = 0 \/ o = 11.
Proof.
  induction 1 as [|c c' res Hr IH Hc E]; [left; reflexivity|].
  destruct IH as [->| ->]; vm_compute in E; inversion E; auto.
Qed.

(* the damaged directory is within the scope of open_header_damaged / C08_header_damage:
   no frame at all verifies on the reader's path through block 5 *)
Lemma path_ok : NoEmbeddedPath Pc D 5 T.
Proof.
  apply (K NoEmbeddedPath_of_X D 5 T xs lay).
  apply (K accepted_genuine_path); [vm_compute; congruence|].
  intros o Hr Ho fr' ty p E.
  destruct (reach_set o Hr) as [->| ->]; vm_compute in E; inversion E.
Qed.

Lemma in_scope :
  encs_rel Pc 0 (map entry_ser E_all) T /\
  lenN D = lenN S /\ takeN (5 * 32) D = takeN (5 * 32) S /\ dropN (6 * 32) D = dropN (6 * 32) S /\
  stream_of fs2d [0; 1; 2; 3] = D /\ NoEmbeddedPath Pc D 5 T.
Proof.
  split; [change T with (encs_of Pc 0 (map entry_ser E_all)); apply (K encs_of_rel)|].
  split; [vm_compute; reflexivity|]. split; [vm_compute; reflexivity|].
  split; [vm_compute; reflexivity|]. split; [vm_compute; reflexivity|]. exact path_ok.
Qed.

Definition verdict (r : open_result) : N :=
  match r with OpenOk _ => 0 | OpenIo _ _ => 1 | OpenCorruption _ => 2 | OpenFuel _ => 3 end.

(* the clean directory opens; with the one byte changed open fails with Corruption: EDelete a 1
   (CRC mismatch) and EPosition a 0 (the reader lands one byte inside its frame) are both lost,
   and EAppend a 0 [y] is then replayed on the OLD queue a, whose next position is 1:
   AppendError::Past, reported as Corruption.  Every entry delivered was written. *)
Theorem one_byte_corruption :
  verdict (open Pc fs2 None PNothing []) = 0 /\
  verdict (open Pc fs2d None PNothing []) = 2 /\
  replay_entries [] (combine [0; 0; 1; 1; 3] (firstn 4 E_all ++ skipn 6 E_all)) = None /\
  DamageProofs.sublist (firstn 4 E_all ++ skipn 6 E_all) E_all.
Proof.
  split; [vm_compute; reflexivity|]. split; [vm_compute; reflexivity|].
  split; [vm_compute; reflexivity|].
  unfold E_all. cbn [firstn skipn app].
  do 4 apply SL_keep. do 2 apply SL_skip. apply SL_keep. apply SL_nil.
Qed.
End B.

(* ====================== (C) the end-to-end theorems, all premises ====================== *)
Module C.
(* the ghost state of VacDamage.ghost_ex for st_ex (DamageAtomic.Example): file 0 deleted, files
   1..6 kept, the ghost stream is 400 bytes long; block 6 (the first block of file 3) *)
Lemma premises_satisfiable :
  exists G D fs_d,
    Inv Pc st_ex G /\ header_damaged_dir Pc st_ex G 6 D fs_d /\ dmg_bound Pc st_ex G /\
    (6 + 1) * BS Pc <= lenN (gh_T Pc G) /\ ~ stopped_in Pc D 6.
Proof.
  destruct VacDamage.ghost_ex as (G & HI & Eb & Ed & El).
  assert (EA : gh_ALL G = map snd (VacBase.calls_log Pc st0 VacDamage.calls_ex))
    by (unfold gh_ALL; rewrite Ed, El; reflexivity).
  assert (ET : lenN (gh_T Pc G) = 400) by (unfold gh_T, gh_ser; rewrite EA; vm_compute; reflexivity).
  destruct (header_damaged_dir_exists Pc Pc_BS_lo Pc_BS_hi Pc_NB Pc_crc st_ex G 6 HI)
    as (D & fs_d & Hd & Hns).
  { rewrite Eb. vm_compute. congruence. }
  { rewrite Eb. vm_compute. reflexivity. }
  exists G, D, fs_d. split; [exact HI|]. split; [exact Hd|]. split.
  - apply (VacDamage.dmg_bound_by Pc Pc_BS_lo Pc_BS_hi Pc_NB Pc_crc 64 st_ex G [qa; qb]).
    + intros q Hq. apply VacBase.gh_E_names in Hq. rewrite El in Hq.
      vm_compute in Hq. vm_compute. intuition.
    + vm_compute. reflexivity.
    + vm_compute. intros H; discriminate H.
  - split; [rewrite ET; vm_compute; congruence|].
    apply Hns. destruct Hd as (_ & HlenD & _). cbv zeta in HlenD.
    rewrite HlenD, lenN_app, lenN_zerosN, ET, Eb. vm_compute. congruence.
Qed.

Theorem C08_header_damage_ok_inst :
  exists fs_d, forall pol hint, exists (G : ghost) tags Es',
    DamageProofs.sublist Es' (map snd (gh_E G)) /\ length tags = length Es' /\
    match replay_entries [] (combine tags Es') with
    | Some qD => exists st_r, open Pc fs_d None pol hint = OpenOk st_r /\ s_qs st_r = qD
    | None => exists c, open Pc fs_d None pol hint = OpenCorruption c
    end.
Proof.
  destruct premises_satisfiable as (G & D & fs_d & HI & Hd & Hb & Hbig & Hns).
  exists fs_d. intros pol hint. exists G.
  exact (C08_header_damage_ok Pc Pc_BS_lo Pc_BS_hi Pc_NB Pc_crc eq_refl eq_refl st_ex G 6 D fs_d
           HI Hd Hb Hbig Hns pol hint).
Qed.
End C.

Print Assumptions A.instance.
Print Assumptions C.premises_satisfiable.
Print Assumptions C.C08_header_damage_ok_inst.
Print Assumptions B.in_scope.
Print Assumptions B.one_byte_corruption.
