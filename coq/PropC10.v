(* PropC10.v — C10: open never hangs or panics on any directory content: termination for ALL directories (any names, kinds, lengths, bytes); panic freedom by enumeration of the panic sites of the Rust code (slices, indexing, unwrap, assert, split_at ...), each with a guard on the model values proved to hold: read half for ANY directory, write half (recovery-time GC) when no WAL file is longer than a full file (false otherwise: finding F9), arithmetic-overflow sites (debug builds) when positions and file numbers stay below 2^64-1 (false otherwise: finding F6); the read accessors from the representation invariant.
   Statements only; each theorem is closed by `exact <lemma>`; proofs live in the imported files. *)
From Coq Require Import Lia NArith List.
From MRL Require Import Bytes Params Names Frame Record Mem Rolling Log OpenTerm SpecRefine PanicFree AllocBound AllocBoundTest.

(* the replay loop always terminates: the model's fuel is never exhausted *)
Theorem C10_open_terminates :
    forall P : params,
    7 < BS P ->
    forall (fs : fsT) (plan : option fplan) (pol : policy) (hint : list bytes) (c : ioctx),
    L_IO P = false -> open P fs plan pol hint <> OpenFuel c.
Proof. exact open_never_out_of_fuel. Qed.
Print Assumptions C10_open_terminates.

(* explicit bound: about one step per 7 bytes of the directory plus one per entry *)
Theorem C10_fuel_bound :
    forall P : params,
    7 < BS P ->
    forall (fuel : nat) (fs : fsT) (plan : option fplan) (pol : policy) (hint : list bytes) (c : ioctx),
    L_IO P = false ->
    fs_bytes fs + 6 * lenN fs + 6 < 7 * N.of_nat fuel -> open_with P fuel fs plan pol hint <> OpenFuel c.
Proof. exact open_with_enough_fuel. Qed.
Print Assumptions C10_fuel_bound.

(* more fuel never changes the result: the fuel is a proof device, not behaviour *)
Theorem C10_fuel_irrelevant :
    forall (P : params) (f1 f2 : nat) (fs : fsT) (plan : option fplan) (pol : policy)
    (hint : list bytes) (r : open_result),
    open_with P f1 fs plan pol hint = r ->
    (forall c : ioctx, r <> OpenFuel c) -> (f1 <= f2)%nat -> open_with P f2 fs plan pol hint = r.
Proof. exact open_with_fuel_mono. Qed.
Print Assumptions C10_fuel_irrelevant.

(* whatever open returns satisfies the representation invariant (strictly increasing positions, offsets inside the buffer): the read accessors index inside bounds *)
Theorem C10_result_wellformed :
    forall (P : params) (fs : fsT) (plan : option fplan) (pol : policy) (hint : list bytes) (st : state),
    open P fs plan pol hint = OpenOk st -> qs_inv (s_qs st).
Proof. exact open_inv. Qed.
Print Assumptions C10_result_wellformed.

(* ANY directory, any fault plan: none of the panic sites of the directory scan, rolling reader, frame reader, record reader, entry/batch deserialisation, replay into the in-memory queues and reader-to-writer hand-over is reachable (release profile) *)
Theorem C10_open_read_panic_free :
    forall (P : params) (fs : fsT) (plan : option fplan),
    7 <= BS P -> open_read_guards P false (open_fuel P fs) fs plan.
Proof. exact open_read_panic_free. Qed.
Print Assumptions C10_open_read_panic_free.

(* the whole of open incl. the recovery-time GC and its writes, for directories in which no WAL-named file is longer than a full file *)
Theorem C10_open_panic_free :
    forall (P : params) (fs : fsT) (plan : option fplan) (pol : policy) (hint : list bytes),
    7 <= BS P -> 0 < NB P -> fs_bounded P fs -> open_guards P false fs plan pol hint.
Proof. exact open_panic_free. Qed.
Print Assumptions C10_open_panic_free.

(* that premise is needed: with an over-long last file the assert in RollingWriter::write is reached (finding F9, reproduced on the crate) *)
Theorem C10_open_panic_free_needs_bounded_files :
    ~
    (forall (P : params) (fs : fsT) (plan : option fplan) (pol : policy) (hint : list bytes),
    7 < BS P -> open_guards P false fs plan pol hint).
Proof. exact open_panic_free_needs_bounded_files. Qed.
Print Assumptions C10_open_panic_free_needs_bounded_files.

(* the read accessors (range for all bounds, last_record, last_position, summary) on whatever open returns, for any directory: no panic site reachable (release profile) *)
Theorem C10_accessors_after_open :
    forall (P : params) (fs : fsT) (plan : option fplan) (pol : policy) (hint : list bytes) (st : state),
    open P fs plan pol hint = OpenOk st ->
    forall (q : bytes) (lo hi : bound),
    log_range_guards st q lo hi /\
    log_last_record_guards st q /\ log_last_position_guards false st q /\ log_summary_guards false st.
Proof. exact accessors_after_open. Qed.
Print Assumptions C10_accessors_after_open.

(* the same from the representation invariant alone *)
Theorem C10_accessors_panic_free :
    forall st : state,
    qs_inv (s_qs st) ->
    forall (q : bytes) (lo hi : bound),
    log_range_guards st q lo hi /\
    log_last_record_guards st q /\ log_last_position_guards false st q /\ log_summary_guards false st.
Proof. exact accessors_panic_free. Qed.
Print Assumptions C10_accessors_panic_free.

(* debug profile (overflow checks): also no arithmetic overflow, provided every decoded position is below 2^64-1 and file numbers leave room for the GC's roll-overs *)
Theorem C10_open_debug_panic_free :
    forall (P : params) (fs : fsT) (plan : option fplan) (pol : policy) (hint : list bytes),
    7 <= BS P ->
    0 < NB P ->
    FILE_BYTES P + BS P + 65536 <= U64 ->
    fs_bounded P fs ->
    open_small P (open_fuel P fs) fs plan pol hint -> open_guards P true fs plan pol hint.
Proof. exact open_debug_panic_free. Qed.
Print Assumptions C10_open_debug_panic_free.

(* and that premise is needed: a CRC-valid record at position 2^64-1 makes next_position overflow (finding F6) *)
Theorem C10_f6_shape :
    exists (st : state) (q : mq),
    open P6 fs6 None (PAlways false) [] = OpenOk st /\
    qs_get (s_qs st) q6 = Some q /\
    next_position q = U64 /\
    next_position_u64 q = 0 /\ ~ log_last_position_guards true st q6 /\ ~ log_summary_guards true st.
Proof. exact f6_shape. Qed.
Print Assumptions C10_f6_shape.

(* "never allocates without bound": for ANY directory content and fault plan, the memory open builds (payload bytes + per-record metadata + queue names) is at most alloc_factor (= 2 for 24-byte record metadata) times the total length of the listed WAL files plus one file *)
Theorem C10_open_alloc_bound :
    forall (P : params) (fs : fsT) (plan : option fplan) (pol : policy) (hint : list bytes) (st : state),
    open P fs plan pol hint = OpenOk st ->
    log_memory_used P st <= alloc_factor (RMS P) * (wal_bytes fs + FILE_BYTES P).
Proof. exact open_alloc_bound. Qed.
Print Assumptions C10_open_alloc_bound.

(* the same against the number of files, when no WAL file is longer than a full file *)
Theorem C10_open_alloc_bound_count :
    forall (P : params) (fs : fsT) (plan : option fplan) (pol : policy) (hint : list bytes) (st : state),
    (forall n : N, In n (list_wal_numbers fs) -> lenN (fcontent fs n) <= FILE_BYTES P) ->
    open P fs plan pol hint = OpenOk st ->
    log_memory_used P st <=
    alloc_factor (RMS P) * (FILE_BYTES P * N.of_nat (length (list_wal_numbers fs))) +
    alloc_factor (RMS P) * FILE_BYTES P.
Proof. exact open_alloc_bound_count. Qed.
Print Assumptions C10_open_alloc_bound_count.

(* the largest transient allocation, the record reader's assembly buffer, never exceeds the bytes consumed so far (at every intermediate state of the replay loop) *)
Theorem C10_open_reader_buffer_bound :
    forall (P : params) (fs : fsT) (plan : option fplan) (c : ioctx) (rd : rreaderS)
    (f g : nat) (rr : rreader_t) (r : replay_result),
    rd_open P (ctx_init fs plan) = (c, Ok rd) ->
    replay_loop P f g (rr_open rreaderS rd) [] = (rr, r) ->
    lenN (rr_buf rr) + unread P (c_fs (rd_ctx rd)) rr <= wal_bytes fs + FILE_BYTES P.
Proof. exact open_reader_buffer_bound. Qed.
Print Assumptions C10_open_reader_buffer_bound.

(* the count form needs its premise: an over-long file is replayed in full *)
Theorem C10_alloc_count_bound_needs_premise :
    exists (P : params) (fs : fsT) (st : state),
    open P fs None PNothing [] = OpenOk st /\
    alloc_factor (RMS P) * (FILE_BYTES P * N.of_nat (length (list_wal_numbers fs))) +
    alloc_factor (RMS P) * FILE_BYTES P < log_memory_used P st.
Proof. exact alloc_count_bound_needs_premise. Qed.
Print Assumptions C10_alloc_count_bound_needs_premise.

(* and the factor 2 is needed: empty records cost 12 bytes on disk and 24 in memory *)
Theorem C10_alloc_factor_one_insufficient :
    exists (P : params) (fs : fsT) (st : state),
    open P fs None PNothing [] = OpenOk st /\
    1 * (wal_bytes fs + FILE_BYTES P) < log_memory_used P st /\
    1 * (fs_bytes fs + FILE_BYTES P) < log_memory_used P st.
Proof. exact alloc_factor_one_insufficient. Qed.
Print Assumptions C10_alloc_factor_one_insufficient.

