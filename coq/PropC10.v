(* PropC10.v — C10: open never hangs on any directory content (termination for ALL directories: any names, kinds, lengths, bytes); panics are outside the model (checked on the crate under catch_unwind).
   Statements only; each theorem is closed by `exact <lemma>`; proofs live in the imported files. *)
From Coq Require Import Lia NArith List.
From MRL Require Import Bytes Params Names Frame Record Mem Rolling Log OpenTerm SpecRefine.

(* the replay loop always terminates: the model's fuel is never exhausted *)
Theorem C10_open_terminates :
    forall P : params,
    7 < BS P ->
    forall (fs : fsT) (plan : option fplan) (pol : policy) (hint : list bytes) (c : ioctx),
    L_IO P = false -> open P fs plan pol hint <> OpenFuel c.
Proof. exact open_never_out_of_fuel. Qed.
Print Assumptions C10_open_terminates.

(* explicit bound: about one step per 7 bytes of the directory plus one per entry *)
Theorem C10_fuel_bound :
    forall P : params,
    7 < BS P ->
    forall (fuel : nat) (fs : fsT) (plan : option fplan) (pol : policy) (hint : list bytes) (c : ioctx),
    L_IO P = false ->
    fs_bytes fs + 6 * lenN fs + 6 < 7 * N.of_nat fuel -> open_with P fuel fs plan pol hint <> OpenFuel c.
Proof. exact open_with_enough_fuel. Qed.
Print Assumptions C10_fuel_bound.

(* more fuel never changes the result: the fuel is a proof device, not behaviour *)
Theorem C10_fuel_irrelevant :
    forall (P : params) (f1 f2 : nat) (fs : fsT) (plan : option fplan) (pol : policy)
    (hint : list bytes) (r : open_result),
    open_with P f1 fs plan pol hint = r ->
    (forall c : ioctx, r <> OpenFuel c) -> (f1 <= f2)%nat -> open_with P f2 fs plan pol hint = r.
Proof. exact open_with_fuel_mono. Qed.
Print Assumptions C10_fuel_irrelevant.

(* whatever open returns satisfies the representation invariant (strictly increasing positions, offsets inside the buffer): the read accessors index inside bounds *)
Theorem C10_result_wellformed :
    forall (P : params) (fs : fsT) (plan : option fplan) (pol : policy) (hint : list bytes) (st : state),
    open P fs plan pol hint = OpenOk st -> qs_inv (s_qs st).
Proof. exact open_inv. Qed.
Print Assumptions C10_result_wellformed.

