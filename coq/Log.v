(* Log.v — src/multi_record_log.rs: the public API over the rolling writer and MemQueues. *)
From MRL Require Import Bytes Params Names Frame Record Mem Rolling.

Inductive policy := PNothing | PDelay (fsync : bool) | PAlways (fsync : bool).

Record state := mkSt { s_wr : rwriter; s_qs : queues; s_pol : policy }.

Inductive op :=
| OCreate (q : bytes)
| ODelete (q : bytes) (gc : list bytes)
| OAppend (q : bytes) (pos : option N) (payloads : list bytes)
| OTruncate (q : bytes) (p : N) (gc : list bytes)
| OPersist (fsync : bool).

Inductive outcome :=
| OutCreate (n : N)
| OutDelete (n : N)
| OutAppend (last : option N) (n : N)
| OutTruncate (evicted n : N)
| OutPersist
| OutAlreadyExists
| OutMissing
| OutPast
| OutIo (e : ioerr).

Section WithParams.
Variable P : params.

Definition set_wr (st : state) (w : rwriter) : state := mkSt w (s_qs st) (s_pol st).
Definition set_qs (st : state) (qs : queues) : state := mkSt (s_wr st) qs (s_pol st).

(* record_log_writer.write_record(entry) *)
Definition write_entry (st : state) (e : entry) : state * res N :=
  let '(w, r) := write_record P rwriter (wr_write P) (wr_rem P) (s_wr st) (entry_ser e) in
  (set_wr st w, r).

Definition persist (st : state) (fsync : bool) : state := set_wr st (wr_persist (s_wr st) fsync).

(* persist_on_policy; `tick` answers `next_persist < Instant::now()` *)
Definition persist_on_policy (st : state) (tick : bool) : state :=
  match s_pol st with
  | PAlways a => persist st a
  | PDelay a => if tick then persist st a else st
  | PNothing => st
  end.

Definition empty_names (qs : queues) : list bytes :=
  map fst (filter (fun '(_, q) => mq_is_empty q) qs).

Fixpoint name_mem (n : bytes) (l : list bytes) : bool :=
  match l with [] => false | x :: r => bytes_eqb x n || name_mem n r end.
Fixpoint name_remove (n : bytes) (l : list bytes) : list bytes :=
  match l with [] => [] | x :: r => if bytes_eqb x n then r else x :: name_remove n r end.

(* HashMap iteration order over the empty queues: the hint, as far as it is one *)
Fixpoint pick_order (hint remaining : list bytes) : list bytes :=
  match hint with
  | [] => remaining
  | h :: r => if name_mem h remaining then h :: pick_order r (name_remove h remaining)
              else pick_order r remaining
  end.

Fixpoint record_positions (st : state) (names : list bytes) (acc : N) : state * res N :=
  match names with
  | [] => (st, Ok acc)
  | n :: r =>
      match qs_get (s_qs st) n with
      | None => record_positions st r acc
      | Some q =>
          match write_entry st (EPosition n (next_position q)) with
          | (st1, Err e) => (st1, Err e)
          | (st1, Ok k) => record_positions st1 r (acc + k)
          end
      end
  end.

Definition record_empty_queues_position (st : state) (hint : list bytes) : state * res N :=
  match record_positions st (pick_order hint (empty_names (s_qs st))) 0 with
  | (st1, Err e) => (st1, Err e)
  | (st1, Ok n) =>
      if L_GC P && (n =? 0) then (st1, Ok n) else (persist st1 true, Ok n)
  end.

Definition referenced (st : state) (guard : N) (f : N) : bool :=
  (f =? guard) || (f =? w_file (s_wr st)) || qs_ref f (s_qs st).

Definition has_deletable (st : state) : bool :=
  match w_files (s_wr st) with
  | f :: _ :: _ => negb (referenced st (w_file (s_wr st)) f)
  | _ => false
  end.

Definition run_gc_if_necessary (st : state) (hint : list bytes) : state * res N :=
  if has_deletable st then
    let guard := w_file (s_wr st) in
    match record_empty_queues_position st hint with
    | (st1, Err e) => (st1, Err e)
    | (st1, Ok n) =>
        let w := s_wr st1 in
        match gc_loop (w_ctx w) (w_files w) (referenced st1 guard) with
        | (c, files, Err e) =>
            (set_wr st1 (mkWr c files (w_file w) (w_off w) (w_pending w)), Err e)
        | (c, files, Ok _) =>
            (set_wr st1 (mkWr c files (w_file w) (w_off w) (w_pending w)), Ok n)
        end
    end
  else (st, Ok 0).

Definition create_queue (st : state) (q : bytes) : state * outcome :=
  if qs_contains (s_qs st) q then (st, OutAlreadyExists)
  else match write_entry st (EPosition q 0) with
       | (st1, Err e) => (st1, OutIo e)
       | (st1, Ok n) =>
           let st2 := persist st1 true in
           (set_qs st2 (qs_put (s_qs st2) q mq_default), OutCreate n)
       end.

Definition delete_queue (st : state) (q : bytes) (hint : list bytes) : state * outcome :=
  match qs_get (s_qs st) q with
  | None => (st, OutMissing)
  | Some mqv =>
      match write_entry st (EDelete q (next_position mqv)) with
      | (st1, Err e) => (st1, OutIo e)
      | (st1, Ok n) =>
          let st2 := set_qs st1 (qs_remove (s_qs st1) q) in
          match run_gc_if_necessary st2 hint with
          | (st3, Err e) => (st3, OutIo e)
          | (st3, Ok k) => (persist st3 true, OutDelete (n + k))
          end
      end
  end.

Fixpoint append_all (q : mq) (file : N) (recs : list (N * bytes)) : option mq :=
  match recs with
  | [] => Some q
  | (p, payload) :: r =>
      match append_record q file p payload with
      | Some q' => append_all q' file r
      | None => None
      end
  end.

Definition last_pos_of (position : N) (recs : list (N * bytes)) : N :=
  match last_opt recs with Some (p, _) => p | None => position end.

Definition append_records (st : state) (q : bytes) (pos_opt : option N) (payloads : list bytes)
           (tick : bool) : state * outcome :=
  match qs_get (s_qs st) q with
  | None => (st, OutMissing)
  | Some mqv =>
      let next := next_position mqv in
      let early :=
        match pos_opt with
        | Some p => if p + 1 =? next then Some (OutAppend None 0)
                    else if p <? next then Some OutPast else None
        | None => None
        end in
      match early with
      | Some o => (st, o)
      | None =>
          let position := match pos_opt with Some p => p | None => next end in
          let file := w_file (s_wr st) in
          let recs := number_from position payloads in
          match recs with
          | [] => (st, OutAppend None 0)
          | _ =>
              match write_entry st (EAppend q position recs) with
              | (st1, Err e) => (st1, OutIo e)
              | (st1, Ok n) =>
                  let st2 := persist_on_policy st1 tick in
                  match append_all mqv file recs with
                  | Some mq' =>
                      (set_qs st2 (qs_put (s_qs st2) q mq'),
                       OutAppend (Some (last_pos_of position recs)) n)
                  | None => (st2, OutPast)
                  end
              end
          end
      end
  end.

Definition truncate (st : state) (q : bytes) (p : N) (hint : list bytes) (tick : bool)
  : state * outcome :=
  match qs_get (s_qs st) q with
  | None => (st, OutMissing)
  | Some mqv =>
      match write_entry st (ETruncate q p) with
      | (st1, Err e) => (st1, OutIo e)
      | (st1, Ok n) =>
          let '(mq', evicted) := truncate_head mqv p in
          let st2 := set_qs st1 (qs_put (s_qs st1) q mq') in
          match run_gc_if_necessary st2 hint with
          | (st3, Err e) => (st3, OutIo e)
          | (st3, Ok k) => (persist_on_policy st3 tick, OutTruncate evicted (n + k))
          end
      end
  end.

Definition step (st : state) (o : op) (tick : bool) : state * outcome :=
  match o with
  | OCreate q => create_queue st q
  | ODelete q hint => delete_queue st q hint
  | OAppend q pos payloads => append_records st q pos payloads tick
  | OTruncate q p hint => truncate st q p hint tick
  | OPersist fsync => (persist st fsync, OutPersist)
  end.

(* what Drop does: the BufWriter is flushed, errors ignored (no File::flush, no sync) *)
Definition drop_log (st : state) : ioctx := w_ctx (flush_buf (s_wr st)).

(* ---------- open: replay ---------- *)

(* the body of the replay loop for one decoded entry; None = ReadRecordError::Corruption *)
Definition apply_entry (qs : queues) (file : N) (e : entry) : option queues :=
  match e with
  | EAppend q pos recs =>
      let qs1 := if qs_contains qs q then qs else ack_position qs q pos in
      match qs_get qs1 q with
      | None => None
      | Some mqv =>
          match append_all mqv file recs with
          | Some mq' => Some (qs_put qs1 q mq')
          | None => None
          end
      end
  | ETruncate q p =>
      match qs_get qs q with
      | Some mqv => Some (qs_put qs q (fst (truncate_head mqv p)))
      | None => Some qs
      end
  | EPosition q p => Some (ack_position qs q p)
  | EDelete q _ => Some (qs_remove qs q)
  end.

Inductive replay_result :=
| RpDone (qs : queues)
| RpCorruption
| RpIo (e : ioerr)
| RpFuel.

Definition rreader_t := rreader rreaderS.

Definition reader_ctx (rr : rreader_t) : ioctx := rd_ctx (fr_rd (rr_fr rr)).

Fixpoint replay_loop (fuel gofuel : nat) (rr : rreader_t) (qs : queues)
  : rreader_t * replay_result :=
  match fuel with
  | O => (rr, RpFuel)
  | S fuel' =>
      let file := rd_file (fr_rd (rr_fr rr)) in
      match go_next P rreaderS (rd_next P) rd_block gofuel rr with
      | (rr', RRecord) =>
          match entry_deser (rr_buf rr') with
          | None => replay_loop fuel' gofuel rr' qs
          | Some e =>
              match apply_entry qs file e with
              | Some qs' => replay_loop fuel' gofuel rr' qs'
              | None => (rr', RpCorruption)
              end
          end
      | (rr', REnd) => (rr', RpDone qs)
      | (rr', RCorrupt) => replay_loop fuel' gofuel rr' qs
      | (rr', RIo e) => if L_IO P then replay_loop fuel' gofuel rr' qs else (rr', RpIo e)
      | (rr', RFuel) => (rr', RpFuel)
      end
  end.

Inductive open_result :=
| OpenOk (st : state)
| OpenIo (e : ioerr) (c : ioctx)
| OpenCorruption (c : ioctx)
| OpenFuel (c : ioctx).

(* total size of the regular files: bounds the work of replay *)
Definition fs_bytes (fs : fsT) : N :=
  fold_right (fun '(_, e) acc => match e with FFile b => lenN b + acc | _ => acc end) 0 fs.

Definition open_fuel (fs : fsT) : nat :=
  N.to_nat (fs_bytes fs / HEADER_LEN + lenN fs * (NB P + 2) + 8).

Definition open_with (fuel : nat) (fs : fsT) (plan : option fplan) (pol : policy)
           (hint : list bytes) : open_result :=
  match rd_open P (ctx_init fs plan) with
  | (c, Err e) => OpenIo e c
  | (_, Ok rd) =>
      match replay_loop fuel fuel (rr_open rreaderS rd) [] with
      | (rr, RpFuel) => OpenFuel (reader_ctx rr)
      | (rr, RpIo e) => OpenIo e (reader_ctx rr)
      | (rr, RpCorruption) => OpenCorruption (reader_ctx rr)
      | (rr, RpDone qs) =>
          let fr := rr_fr rr in
          let w := rd_into_writer P (fr_rd fr) (fr_cursor fr) in
          let st := mkSt w qs pol in
          match run_gc_if_necessary st hint with
          | (st1, Err e) => OpenIo e (w_ctx (s_wr st1))
          | (st1, Ok _) => OpenOk st1
          end
      end
  end.

Definition open (fs : fsT) (plan : option fplan) (pol : policy) (hint : list bytes)
  : open_result := open_with (open_fuel fs) fs plan pol hint.

(* ---------- read API ---------- *)
Definition log_range (st : state) (q : bytes) (lo hi : bound) : option (list (N * bytes)) :=
  match qs_get (s_qs st) q with Some m => Some (mq_range m lo hi) | None => None end.

Definition log_last_position (st : state) (q : bytes) : option (option N) :=
  match qs_get (s_qs st) q with Some m => Some (last_position m) | None => None end.

Definition log_last_record (st : state) (q : bytes) : option (option (N * bytes)) :=
  match qs_get (s_qs st) q with Some m => Some (mq_last_record m) | None => None end.

Definition log_memory_used (st : state) : N := qs_size (RMS P) (s_qs st).
Definition log_disk_used (st : state) : N := lenN (w_files (s_wr st)) * FILE_BYTES P.
End WithParams.
