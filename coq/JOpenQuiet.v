(* JOpenQuiet.v — the events that the READING phase of `open` (rd_open, then replay_loop) appends to
   the I/O trace do not change the directory, except for the one set_len of a short last file
   (ensure_last_full).  Consequently every crash prefix of the trace of the reading phase replays,
   on the initial directory fs, either to fs itself or to the directory at the end of the phase. *)
From Coq Require Import Lia ZArith ZifyN ZifyNat ZifyBool List.
From MRL Require Import Bytes Params Names Frame Record Mem Rolling Log Driver CrashTrace.
Import ListNotations.

Arguments N.add : simpl never.
Arguments N.sub : simpl never.
Arguments N.mul : simpl never.
Arguments N.eqb : simpl never.
Arguments N.ltb : simpl never.
Arguments N.leb : simpl never.
Arguments N.div : simpl never.
Arguments N.modulo : simpl never.
Arguments N.min : simpl never.
Arguments N.max : simpl never.

(* ====================================================================== *)
(* 1. quiet events                                                        *)
(* ====================================================================== *)

Definition quiet (e : event) : Prop :=
  match e with EvReadDir | EvOpenRw _ | EvRead _ _ _ _ => True | _ => False end.

Lemma quiet_fold l : Forall quiet l -> forall fs, fold_left apply_event l fs = fs.
Proof.
  induction 1 as [|e l He _ IH]; intros fs; [reflexivity|].
  destruct e; try destruct He; cbn [fold_left apply_event]; apply IH.
Qed.

Lemma quiet_cpre pe l : cpre pe l -> Forall quiet l -> Forall quiet pe.
Proof.
  intros Hc Hl. induction Hc as [evs|n off d k evs|e pe evs _ IH].
  - constructor.
  - inversion Hl as [|? ? H _]; subst. destruct H.
  - inversion Hl; subst. constructor; auto.
Qed.

Lemma quiet_rev l : Forall quiet l -> Forall quiet (rev l).
Proof.
  intros H. apply Forall_forall. intros x Hx. apply in_rev in Hx.
  exact (proj1 (Forall_forall _ _) H x Hx).
Qed.

(* ====================================================================== *)
(* 2. the reader steps only append quiet events                           *)
(* ====================================================================== *)

Definition qext (c c' : ioctx) : Prop :=
  exists Q, c_ev c' = Q ++ c_ev c /\ Forall quiet Q /\ c_fs c' = c_fs c /\ c_plan c' = c_plan c.

Lemma qext_refl c : qext c c.
Proof. exists []. repeat split. constructor. Qed.

Lemma qext_trans a b c : qext a b -> qext b c -> qext a c.
Proof.
  intros (Q1 & E1 & F1 & G1 & P1) (Q2 & E2 & F2 & G2 & P2).
  exists (Q2 ++ Q1). repeat split.
  - now rewrite E2, E1, app_assoc.
  - apply Forall_app. now split.
  - congruence.
  - congruence.
Qed.

Lemma qext_ev c e : quiet e -> qext c (ctx_ev c e).
Proof. intros H. exists [e]. repeat split. now constructor. Qed.

Section Q.
Variable P : params.

Lemma fault_point_qext c s : qext c (fst (fault_point c s)).
Proof.
  exists []. unfold fault_point.
  destruct (c_plan c) as [p|] eqn:Ep.
  - destruct (site_eqb (fp_site p) s && _); destruct s; cbn [fst c_ev c_fs c_plan app];
      repeat split; auto.
  - destruct s; cbn [fst c_ev c_fs c_plan app]; repeat split; auto.
Qed.

Lemma fault_point_none c s : c_plan c = None -> snd (fault_point c s) = None.
Proof. intros H. unfold fault_point. now rewrite H. Qed.

Lemma open_file_qext c n : qext c (fst (open_file c n)).
Proof.
  unfold open_file. pose proof (fault_point_qext c SOpen) as Hq.
  destruct (fault_point c SOpen) as [c1 [e|]]; cbn [fst] in *; [exact Hq|].
  destruct (fs_get (c_fs c1) (filename n)) as [[b| |]|]; cbn [fst]; try exact Hq.
  eapply qext_trans; [exact Hq|]. now apply qext_ev.
Qed.

Lemma read_block_qext c n pos : qext c (fst (fst (read_block P c n pos))).
Proof.
  unfold read_block. pose proof (fault_point_qext c SRead) as Hq.
  destruct (fault_point c SRead) as [c1 [e|]]; cbn [fst] in *.
  - eapply qext_trans; [exact Hq|]. now apply qext_ev.
  - destruct (pos + BS P <=? lenN (file_content c1 n)); cbn [fst];
      (eapply qext_trans; [exact Hq|]; now apply qext_ev).
Qed.

Lemma next_file_loop_qext : forall cands c rd,
  qext c (rd_ctx (fst (next_file_loop P c cands rd))).
Proof.
  induction cands as [|n rest IH]; intros c rd; cbn [next_file_loop].
  - cbn [fst rd_ctx]. apply qext_refl.
  - pose proof (open_file_qext c n) as H1.
    destruct (open_file c n) as [c1 [u|e]]; cbn [fst] in H1; [|exact H1].
    pose proof (read_block_qext c1 n 0) as H2.
    destruct (read_block P c1 n 0) as [[c2 pos'] [[blk|]|e]]; cbn [fst] in H2.
    + cbn [fst rd_ctx]. eapply qext_trans; eassumption.
    + eapply qext_trans; [exact H1|]. eapply qext_trans; [exact H2|]. apply IH.
    + cbn [fst rd_ctx]. eapply qext_trans; eassumption.
Qed.

Lemma rd_next_qext rd : qext (rd_ctx rd) (rd_ctx (fst (rd_next P rd))).
Proof.
  unfold rd_next. pose proof (read_block_qext (rd_ctx rd) (rd_file rd) (rd_pos rd)) as H1.
  destruct (read_block P (rd_ctx rd) (rd_file rd) (rd_pos rd)) as [[c1 pos'] [[blk|]|e]];
    cbn [fst] in H1; cbn [fst rd_ctx]; try exact H1.
  eapply qext_trans; [exact H1|]. apply next_file_loop_qext.
Qed.

(* read_frame touches the block reader at most once *)
Lemma read_frame_rd (R : Type) (rnext : R -> R * res bool) (rblock : R -> bytes) fr :
  fr_rd (fst (read_frame P R rnext rblock fr)) = fr_rd fr \/
  fr_rd (fst (read_frame P R rnext rblock fr)) = fst (rnext (fr_rd fr)).
Proof.
  unfold read_frame.
  destruct (fr_corrupt fr || (BS P - fr_cursor fr <? HEADER_LEN)).
  - destruct (rnext (fr_rd fr)) as [r' [[|]|e]]; cbn [fst fr_rd]; auto.
    repeat match goal with
    | |- context [if ?b then _ else _] => destruct b
    | |- context [match ft_of_code ?x with _ => _ end] => destruct (ft_of_code x)
    end; cbn [fst fr_rd]; auto.
  - repeat match goal with
    | |- context [if ?b then _ else _] => destruct b
    | |- context [match ft_of_code ?x with _ => _ end] => destruct (ft_of_code x)
    end; cbn [fst fr_rd]; auto.
Qed.

Lemma read_frame_qext fr :
  qext (rd_ctx (fr_rd fr))
       (rd_ctx (fr_rd (fst (read_frame P rreaderS (rd_next P) rd_block fr)))).
Proof.
  destruct (read_frame_rd rreaderS (rd_next P) rd_block fr) as [E|E]; rewrite E.
  - apply qext_refl.
  - apply rd_next_qext.
Qed.

Lemma go_next_qext : forall fuel rr,
  qext (reader_ctx rr) (reader_ctx (fst (go_next P rreaderS (rd_next P) rd_block fuel rr))).
Proof.
  induction fuel as [|fuel IH]; intros rr; cbn [go_next].
  - apply qext_refl.
  - pose proof (read_frame_qext (rr_fr rr)) as H1.
    destruct (read_frame P rreaderS (rd_next P) rd_block (rr_fr rr)) as [fr' [t pl|e| |]];
      cbn [fst] in H1.
    + destruct (if is_first_frame t then true else rr_within rr).
      * destruct (is_last_frame t).
        -- exact H1.
        -- eapply qext_trans; [|apply IH]. exact H1.
      * eapply qext_trans; [|apply IH]. exact H1.
    + exact H1.
    + exact H1.
    + exact H1.
Qed.

Lemma replay_loop_qext : forall f g rr qs,
  qext (reader_ctx rr) (reader_ctx (fst (replay_loop P f g rr qs))).
Proof.
  induction f as [|f IH]; intros g rr qs; cbn [replay_loop].
  - apply qext_refl.
  - pose proof (go_next_qext g rr) as H1.
    destruct (go_next P rreaderS (rd_next P) rd_block g rr) as [rr' [| | |e|]]; cbn [fst] in H1.
    + destruct (entry_deser (rr_buf rr')) as [e|].
      * destruct (apply_entry qs (rd_file (fr_rd (rr_fr rr))) e) as [qs'|].
        -- eapply qext_trans; [exact H1|apply IH].
        -- exact H1.
      * eapply qext_trans; [exact H1|apply IH].
    + exact H1.
    + eapply qext_trans; [exact H1|apply IH].
    + destruct (L_IO P).
      * eapply qext_trans; [exact H1|apply IH].
      * exact H1.
    + exact H1.
Qed.

(* ====================================================================== *)
(* 3. rd_open                                                             *)
(* ====================================================================== *)

(* the trace of c, replayed on fs, gives c_fs c, and every crash prefix of it gives fs or c_fs c *)
Definition two_state (fs : fsT) (c : ioctx) : Prop :=
  exists A, c_ev c = rev A /\ c_plan c = None /\
    fold_left apply_event A fs = c_fs c /\
    forall pe, cpre pe A -> fold_left apply_event pe fs = fs \/ fold_left apply_event pe fs = c_fs c.

Lemma two_state_init fs : two_state fs (ctx_init fs None).
Proof.
  exists []. repeat split. intros pe H. inversion H; subst. now left.
Qed.

Lemma two_state_qext fs c c' : two_state fs c -> qext c c' -> two_state fs c'.
Proof.
  intros (A & EA & PA & FA & CA) (Q & EQ & FQ & GQ & PQ).
  exists (A ++ rev Q). repeat split.
  - now rewrite rev_app_distr, rev_involutive, EQ, EA.
  - congruence.
  - rewrite fold_left_app, FA, GQ. apply quiet_fold. now apply quiet_rev.
  - intros pe Hpe. destruct (cpre_app_inv _ _ _ Hpe) as [Hl|(pt & -> & Hr)].
    + rewrite GQ. now apply CA.
    + right. rewrite fold_left_app, FA, GQ. apply quiet_fold.
      eapply quiet_cpre; [exact Hr|]. now apply quiet_rev.
Qed.

Lemma two_state_setlen fs c name len :
  two_state fs c -> c_fs c = fs ->
  two_state fs (ctx_ev (ctx_fs c (apply_event fs (EvSetLen name len))) (EvSetLen name len)).
Proof.
  intros (A & EA & PA & FA & CA) Hfs.
  exists (A ++ [EvSetLen name len]). repeat split.
  - rewrite rev_app_distr. cbn [rev app ctx_ev ctx_fs c_ev]. now rewrite EA.
  - exact PA.
  - rewrite fold_left_app, FA, Hfs. reflexivity.
  - intros pe Hpe. cbn [ctx_ev ctx_fs c_fs].
    destruct (cpre_app_inv _ _ _ Hpe) as [Hl|(pt & -> & Hr)].
    + left. destruct (CA _ Hl) as [E|E]; rewrite E; congruence.
    + rewrite fold_left_app, FA, Hfs.
      inversion Hr as [evs|n off d k evs|e pe' evs H']; subst.
      * now left.
      * inversion H'; subst. now right.
Qed.

Lemma ensure_last_full_two_state fs c files c' u :
  two_state fs c -> c_fs c = fs ->
  ensure_last_full P c files = (c', Ok u) -> two_state fs c'.
Proof.
  intros HT Hfs H. unfold ensure_last_full in H.
  destruct (last_opt files) as [n|]; [|inversion H; subst; exact HT].
  destruct (lenN (file_content c n) <? FILE_BYTES P); [|inversion H; subst; exact HT].
  pose proof (open_file_qext c n) as Hq.
  assert (Hget : forall c1 u1, open_file c n = (c1, Ok u1) ->
                 exists b, fs_get (c_fs c1) (filename n) = Some (FFile b)).
  { intros c1 u1 Ho. unfold open_file in Ho.
    destruct (fault_point c SOpen) as [cx [e|]]; [discriminate|].
    destruct (fs_get (c_fs cx) (filename n)) as [[b| |]|] eqn:Eg; try discriminate.
    inversion Ho; subst. cbn [ctx_ev c_fs]. now exists b. }
  destruct (open_file c n) as [c1 [u1|e]]; [|discriminate]. cbn [fst] in Hq.
  destruct (Hget c1 u1 eq_refl) as [b Hb]. inversion H; subst c' u. clear H Hget.
  pose proof (two_state_qext _ _ _ HT Hq) as HT1.
  assert (Hfs1 : c_fs c1 = fs).
  { destruct Hq as (Q & _ & _ & G & _). congruence. }
  assert (Hc : file_content c n = b).
  { unfold file_content. rewrite Hfs, <- Hfs1, Hb. reflexivity. }
  pose proof (two_state_setlen fs c1 (filename n) (FILE_BYTES P) HT1 Hfs1) as HT2.
  replace (apply_event fs (EvSetLen (filename n) (FILE_BYTES P)))
    with (fs_put (c_fs c1) (filename n) (FFile (set_len (file_content c n) (FILE_BYTES P)))) in HT2.
  - exact HT2.
  - cbn [apply_event]. rewrite <- Hfs1, Hb, Hc. reflexivity.
Qed.

Lemma rd_open_ctx c0 c rd : rd_open P c0 = (c, Ok rd) -> c = rd_ctx rd.
Proof.
  unfold rd_open. intros H.
  destruct (fault_point (ctx_ev c0 EvReadDir) SReadDir) as [c1 [e|]]; [discriminate|].
  destruct (match list_wal_numbers (c_fs c1) with
            | [] => match create_file P c1 0 with
                    | (c', Ok _) => (c', Ok [0])
                    | (c', Err e) => (c', Err e)
                    end
            | _ :: _ => (c1, Ok (list_wal_numbers (c_fs c1)))
            end) as [c2 [files|e]]; [|discriminate].
  destruct (if L_SHORT P then (c2, Ok tt) else ensure_last_full P c2 files) as [c2' [u|e]];
    [|discriminate].
  destruct (open_file c2' _) as [c3 [u3|e]]; [|discriminate].
  destruct (read_block P c3 _ 0) as [[c4 pos'] [[blk|]|e]]; try discriminate.
  inversion H; subst. reflexivity.
Qed.

Lemma rd_open_two_state fs c rd :
  rd_open P (ctx_init fs None) = (c, Ok rd) -> list_wal_numbers fs <> [] ->
  two_state fs (rd_ctx rd).
Proof.
  intros H Hne. unfold rd_open in H.
  set (c0 := ctx_ev (ctx_init fs None) EvReadDir) in H.
  assert (HT0 : two_state fs c0).
  { eapply two_state_qext; [apply two_state_init|]. now apply qext_ev. }
  assert (Hfs0 : c_fs c0 = fs) by reflexivity. clearbody c0.
  pose proof (fault_point_qext c0 SReadDir) as Hq.
  destruct (fault_point c0 SReadDir) as [c1 [e|]]; [discriminate|]. cbn [fst] in Hq.
  pose proof (two_state_qext _ _ _ HT0 Hq) as HT1.
  assert (Hfs1 : c_fs c1 = fs).
  { destruct Hq as (Q & _ & _ & G & _). congruence. }
  rewrite Hfs1 in H.
  destruct (list_wal_numbers fs) as [|f files'] eqn:El; [contradiction|].
  set (files := f :: files') in *.
  assert (HT2 : forall c2 u, (if L_SHORT P then (c1, Ok tt) else ensure_last_full P c1 files)
                              = (c2, Ok u) -> two_state fs c2).
  { intros c2 u E. destruct (L_SHORT P).
    - inversion E; subst. exact HT1.
    - eapply ensure_last_full_two_state; eassumption. }
  destruct (if L_SHORT P then (c1, Ok tt) else ensure_last_full P c1 files) as [c2 [u|e]];
    [|discriminate].
  specialize (HT2 c2 u eq_refl).
  pose proof (open_file_qext c2 f) as Hq3.
  unfold files in H.
  destruct (open_file c2 f) as [c3 [u3|e]]; [|discriminate]. cbn [fst] in Hq3.
  pose proof (read_block_qext c3 f 0) as Hq4.
  destruct (read_block P c3 f 0) as [[c4 pos'] [[blk|]|e]]; try discriminate. cbn [fst] in Hq4.
  inversion H; subst. cbn [rd_ctx].
  eapply two_state_qext; [|exact Hq4]. eapply two_state_qext; [|exact Hq3]. exact HT2.
Qed.

Lemma rd_open_events fs c rd :
  rd_open P (ctx_init fs None) = (c, Ok rd) -> list_wal_numbers fs <> [] ->
  exists A, c_ev (rd_ctx rd) = rev A /\ c_plan (rd_ctx rd) = None /\
    fold_left apply_event A fs = c_fs (rd_ctx rd) /\
    forall pe, cpre pe A ->
      fold_left apply_event pe fs = fs \/ fold_left apply_event pe fs = c_fs (rd_ctx rd).
Proof. exact (rd_open_two_state fs c rd). Qed.

(* ====================================================================== *)
(* 4. rd_open followed by the replay                                      *)
(* ====================================================================== *)

Theorem open_read_events F fs c rd rr qs :
  rd_open P (ctx_init fs None) = (c, Ok rd) -> list_wal_numbers fs <> [] ->
  replay_loop P F F (rr_open rreaderS rd) [] = (rr, RpDone qs) ->
  let w0 := rd_into_writer P (fr_rd (rr_fr rr)) (fr_cursor (rr_fr rr)) in
  exists A, c_ev (w_ctx w0) = rev A /\ c_plan (w_ctx w0) = None /\
    fold_left apply_event A fs = c_fs (w_ctx w0) /\
    forall pe, cpre pe A ->
      fold_left apply_event pe fs = fs \/ fold_left apply_event pe fs = c_fs (w_ctx w0).
Proof.
  intros Ho Hne Hr w0.
  change (two_state fs (w_ctx w0)). unfold w0, rd_into_writer. cbn [w_ctx].
  change (rd_ctx (fr_rd (rr_fr rr))) with (reader_ctx rr).
  pose proof (replay_loop_qext F F (rr_open rreaderS rd) []) as Hq. rewrite Hr in Hq.
  cbn [fst] in Hq. eapply two_state_qext; [|exact Hq].
  change (reader_ctx (rr_open rreaderS rd)) with (rd_ctx rd).
  eapply rd_open_two_state; eassumption.
Qed.

End Q.

Print Assumptions rd_open_events.
Print Assumptions open_read_events.
