(* PropC13.v — C13: rejected and no-op calls leave no trace.  Statements only; proofs in NoopProofs.v *)
From MRL Require Import Bytes Params Mem Rolling Log Driver NoopProofs.

(* Every rejected / acknowledged-no-op call returns the *same state term*: same file contents,
   same buffered bytes, same I/O trace, same write cursor, same queues. *)
Theorem C13_no_trace : forall (P : params) st o out tick,
  noop_call st o out -> step P st o tick = (st, out).
Proof. exact noop_same_state. Qed.
Print Assumptions C13_no_trace.

(* ... and reports wal_bytes_written = 0 where the outcome has that field. *)
Theorem C13_zero_bytes : forall st o out,
  noop_call st o out -> outcome_bytes out = Some 0 \/ outcome_bytes out = None.
Proof. exact noop_zero_bytes. Qed.
Print Assumptions C13_zero_bytes.

(* The shapes are complete: whenever the API answers AlreadyExists / MissingQueue / Past or
   acknowledges an append without a position, the call was one of them. *)
Theorem C13_shapes_complete : forall (P : params) st o tick,
  rejected_or_noop (snd (step P st o tick)) -> exists out, noop_call st o out.
Proof. exact rejected_is_noop_call. Qed.
Print Assumptions C13_shapes_complete.

(* Histories: the call can be erased from any history without changing the final state
   (hence nothing after a restart either, the restart image being a function of the state). *)
Theorem C13_erasable : forall (P : params) st h1 o tick h2 out,
  noop_call (fst (run P st h1)) o out ->
  fst (run P st (h1 ++ (o, tick) :: h2)) = fst (run P st (h1 ++ h2)).
Proof. exact noop_erasable. Qed.
Print Assumptions C13_erasable.

(* The drivers' world: no event is added to the trace and the directory is unchanged. *)
Theorem C13_world_unchanged : forall (P : params) w st o out,
  wd_log w = Some st -> drained st -> wd_fs w = c_fs (w_ctx (s_wr st)) ->
  noop_call st o out -> world_step P w (COp o) = (w, WOp out).
Proof. exact noop_world_unchanged. Qed.
Print Assumptions C13_world_unchanged.

(* non-vacuity: a concrete state and a call of each family *)
Example C13_nonvacuous :
  let st := mkSt (mkWr (ctx_init [] None) [0] 0 100 [])
                 [(["q"%byte], mkMq [] 5 [])] (PAlways false) in
  noop_call st (OCreate ["q"%byte]) OutAlreadyExists /\
  noop_call st (OAppend ["q"%byte] (Some 4) [[]]) (OutAppend None 0) /\
  noop_call st (OAppend ["q"%byte] (Some 2) [[]]) OutPast /\
  noop_call st (OTruncate ["z"%byte] 3 []) OutMissing.
Proof.
  cbv zeta. repeat split.
  - now apply NoopCreateExisting.
  - now eapply NoopRetry.
  - eapply NoopPast; [reflexivity|]. now vm_compute.
  - now apply NoopTruncateMissing.
Qed.
Print Assumptions C13_nonvacuous.
