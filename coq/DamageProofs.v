(* DamageProofs.v — properties C09 / detected-damage half of C08, stream level:
   damage confined to the checksum / payload bytes of frames costs exactly the entries hit.
   Same setting as StreamProofs.v (in-memory writer vecw / block reader vecr of Driver.v). *)
From Coq Require Import Lia ZArith ZifyN ZifyNat ZifyBool.
From MRL Require Import Bytes BytesProofs Params Frame Driver StreamProofs.

Arguments N.add : simpl never.
Arguments N.sub : simpl never.
Arguments N.mul : simpl never.
Arguments N.eqb : simpl never.
Arguments N.ltb : simpl never.
Arguments N.leb : simpl never.
Arguments N.div : simpl never.
Arguments N.modulo : simpl never.
Arguments N.min : simpl never.

(* ---------- a frame whose checksum field holds arbitrary bytes ---------- *)
(* c4: the 4 checksum bytes as found in the stream; len field and type byte are those of the
   payload p / type t, i.e. intact *)
Definition dframe (c4 : bytes) (t : ftype) (p : bytes) : bytes :=
  c4 ++ le_enc 2 (lenN p) ++ [n2b (ft_code t)] ++ p.

Definition dheader (c4 : bytes) (len : N) (t : ftype) : bytes :=
  c4 ++ le_enc 2 len ++ [n2b (ft_code t)].

Lemma dframe_header c4 t p : dframe c4 t p = dheader c4 (lenN p) t ++ p.
Proof. unfold dframe, dheader. now rewrite <- !app_assoc. Qed.

Lemma lenN_dheader c4 len t : lenN c4 = 4 -> lenN (dheader c4 len t) = 7.
Proof. intros H. unfold dheader. rewrite !lenN_app, length_le_enc, H. reflexivity. Qed.

Lemma lenN_dframe c4 t p : lenN c4 = 4 -> lenN (dframe c4 t p) = 7 + lenN p.
Proof. intros H. rewrite dframe_header, lenN_app, lenN_dheader by exact H. reflexivity. Qed.

Lemma dheader_not_zero c4 len t : all_zero (dheader c4 len t) = false.
Proof.
  unfold dheader. rewrite !all_zero_app.
  replace (all_zero [n2b (ft_code t)]) with false by (destruct t; reflexivity).
  now rewrite !andb_false_r.
Qed.

Lemma dheader_crc c4 len t : lenN c4 = 4 -> takeN 4 (dheader c4 len t) = c4.
Proof. intros H. unfold dheader. apply takeN_app_exact'. exact H. Qed.

Lemma dheader_len c4 len t :
  lenN c4 = 4 -> len < 2 ^ 16 -> le_dec (sliceN 4 6 (dheader c4 len t)) = len.
Proof.
  intros H Hl. unfold dheader.
  rewrite sliceN_app_mid' by (first [exact H | rewrite length_le_enc; reflexivity]).
  apply le_dec_enc_small. exact Hl.
Qed.

Lemma dheader_type c4 len t : lenN c4 = 4 -> le_dec (dropN 6 (dheader c4 len t)) = ft_code t.
Proof.
  intros H. unfold dheader. rewrite app_assoc.
  rewrite dropN_app_exact' by (rewrite lenN_app, length_le_enc, H; reflexivity).
  destruct t; reflexivity.
Qed.

Section C09.
Variable P : params.
Hypothesis HBS_lo : 7 < BS P.
Hypothesis HBS_hi : BS P <= 65542.
Hypothesis Hcrc : forall t p, crcf P t p < 2 ^ 32.

Local Notation B := (BS P).
Local Notation rframe := (read_frame P vecr (vr_next P) vr_block).
Local Notation gonext := (go_next P vecr (vr_next P) vr_block).
Local Notation pad_of := (pad_of P).
Local Notation chunk_of := (chunk_of P).
Local Notation enc_rel := (enc_rel P).
Local Notation encs_rel := (encs_rel P).
Local Notation rd_at := (rd_at P).
Local Notation at_pos := (at_pos P).
Local Notation stream_ok := (stream_ok P).
Local Notation H3 f := (f P HBS_lo HBS_hi Hcrc) (only parsing).
Local Notation H2 f := (f P HBS_lo HBS_hi) (only parsing).
Local Notation mod_kB := (H2 StreamProofs.mod_kB).
Local Notation mod_kc := (H2 StreamProofs.mod_kc).
Local Notation mod_lt_B := (H2 StreamProofs.mod_lt_B).
Local Notation blocks_room := (H2 StreamProofs.blocks_room).
Local Notation read_all_end := (H2 StreamProofs.read_all_end).
Local Notation read_frame_skip := (H3 StreamProofs.read_frame_skip).
Local Notation read_frame_at := (H3 StreamProofs.read_frame_at).
Local Notation read_frame_here := (H3 StreamProofs.read_frame_here).
Local Notation read_frame_end := (H3 StreamProofs.read_frame_end).
Local Notation go_next_record := (H3 StreamProofs.go_next_record).
Local Notation read_all_entries := (H3 StreamProofs.read_all_entries).
Local Notation mem_stream_shape := (H3 StreamProofs.mem_stream_shape).
Local Notation enc_rel_frames := (H3 StreamProofs.enc_rel_frames).
Local Notation encs_rel_len := (H3 StreamProofs.encs_rel_len).
Local Notation lenN_take_chunk := (H3 StreamProofs.lenN_take_chunk).
Local Notation chunk_le_maxw := (H3 StreamProofs.chunk_le_maxw).
Local Notation chunk_le := (H3 StreamProofs.chunk_le).
Local Notation mem_write_all_spec := (H3 StreamProofs.mem_write_all_spec).

(* an intact frame is the special case c4 = the encoded checksum *)
Lemma frame_bytes_dframe t p :
  frame_bytes P t p = dframe (le_enc 4 (crcf P (n2b (ft_code t)) p)) t p.
Proof. unfold frame_bytes, header_bytes, dframe. now rewrite <- !app_assoc. Qed.

(* what read_frame answers for a frame with intact len / type fields *)
Definition frame_verdict (c4 : bytes) (t : ftype) (p : bytes) : fresult :=
  if crcf P (n2b (ft_code t)) p =? le_dec c4 then FOk t p else FCorrupt.

(* ---------- (1) frame level ---------- *)
(* reading a frame (any checksum bytes) that lies inside block k at offset c *)
Lemma read_frame_gen_here S k c pre c4 t p post :
  S = pre ++ dframe c4 t p ++ post -> lenN c4 = 4 -> lenN pre = k * B + c ->
  c + 7 + lenN p <= B -> (k + 1) * B <= lenN S ->
  rframe (rd_at S k c) = (rd_at S k (c + 7 + lenN p), frame_verdict c4 t p).
Proof.
  intros HS Hc4 Hpre Hfit Hlen.
  assert (Hhdr : sliceN c (c + 7) (sliceN (k * B) ((k + 1) * B) S) = dheader c4 (lenN p) t).
  { rewrite sliceN_sliceN by lia. rewrite HS, dframe_header.
    rewrite <- app_assoc. apply sliceN_app_mid'; [exact Hpre|]. rewrite lenN_dheader by exact Hc4. lia. }
  assert (Hpay : sliceN (c + 7) (c + 7 + lenN p) (sliceN (k * B) ((k + 1) * B) S) = p).
  { rewrite sliceN_sliceN by lia. rewrite HS, dframe_header.
    rewrite <- app_assoc. rewrite (app_assoc pre).
    apply sliceN_app_mid'; [rewrite lenN_app, lenN_dheader by exact Hc4; lia|]. lia. }
  unfold read_frame, StreamProofs.rd_at, HEADER_LEN. cbn [fr_corrupt fr_cursor fr_rd orb vr_block].
  destruct (N.ltb_spec (B - c) 7) as [Hlt|_]; [lia|].
  cbn [fr_corrupt fr_cursor fr_rd orb vr_block].
  rewrite Hhdr, dheader_not_zero, dheader_type, ft_of_code_code by exact Hc4.
  rewrite dheader_len by (try exact Hc4; change (2 ^ 16) with 65536; lia).
  rewrite dheader_crc by exact Hc4.
  destruct (N.ltb_spec B (c + 7 + lenN p)) as [Hlt|_]; [lia|].
  rewrite Hpay. unfold frame_verdict.
  destruct (crcf P (n2b (ft_code t)) p =? le_dec c4); reflexivity.
Qed.

(* the same at a writer position a: the reader first skips the zero padding, if any *)
Lemma read_frame_gen_at S fr a pre c4 t fp post :
  stream_ok S -> at_pos S fr a ->
  S = pre ++ pad_of a ++ dframe c4 t fp ++ post -> lenN pre = a -> lenN c4 = 4 ->
  lenN fp <= max_writable P (B - a mod B) ->
  exists fr', rframe fr = (fr', frame_verdict c4 t fp) /\
              at_pos S fr' (a + lenN (pad_of a) + 7 + lenN fp).
Proof.
  intros [m Hm] (k & c & Ha & Hc & Hblk & Hfr) HS Hpre Hc4 Hfp. subst fr.
  assert (HlenS : lenN S = a + lenN (pad_of a) + 7 + lenN fp + lenN post).
  { rewrite HS, !lenN_app, lenN_dframe by exact Hc4. lia. }
  rewrite max_writable_eq in Hfp. rewrite lenN_pad_of in HlenS.
  destruct (N.ltb_spec (B - c) 7) as [Hskip|Hno].
  - (* the reader moves to the next block *)
    assert (Hnext : a + lenN (pad_of a) = (k + 1) * B /\ lenN fp <= B - 7).
    { rewrite lenN_pad_of. destruct (N.eq_dec c B) as [E|E].
      - assert (Hmod : a mod B = 0) by (rewrite Ha, E; apply mod_kB).
        rewrite Hmod in *.
        destruct (N.ltb_spec (B - 0) 7) as [Hlt|_]; [lia|].
        destruct (N.leb_spec 7 (B - 0)) as [_|Hlt]; lia.
      - assert (Hmod : a mod B = c) by (rewrite Ha; apply mod_kc; lia).
        rewrite Hmod in *.
        destruct (N.ltb_spec (B - c) 7) as [_|Hge]; [|lia].
        destruct (N.leb_spec 7 (B - c)) as [Hle|_]; lia. }
    destruct Hnext as [Hnext Hfp'].
    assert (Hroom : (k + 1 + 1) * B <= lenN S).
    { rewrite Hm. apply (blocks_room m (k + 1) 7); [|lia].
      rewrite <- Hm, HS, !lenN_app, lenN_dframe by exact Hc4. lia. }
    rewrite read_frame_skip by lia.
    rewrite (read_frame_gen_here S (k + 1) 0 (pre ++ pad_of a) c4 t fp post).
    + eexists. split; [reflexivity|].
      exists (k + 1), (0 + 7 + lenN fp). repeat split; lia.
    + rewrite HS, <- app_assoc. reflexivity.
    + exact Hc4.
    + rewrite lenN_app. lia.
    + lia.
    + exact Hroom.
  - (* the frame is in the current block *)
    assert (Hmod : a mod B = c) by (rewrite Ha; apply mod_kc; lia).
    assert (Hpad : pad_of a = []).
    { unfold StreamProofs.pad_of. rewrite Hmod. destruct (N.ltb_spec (B - c) 7); [lia|reflexivity]. }
    rewrite Hmod in *.
    destruct (N.leb_spec 7 (B - c)) as [_|Hlt]; [|lia].
    rewrite Hpad in *. cbn [app] in HS.
    rewrite (read_frame_gen_here S k c pre c4 t fp post HS) by (try exact Hc4; lia).
    eexists. split; [reflexivity|].
    exists k, (c + 7 + lenN fp). rewrite (@lenN_nil byte). repeat split; lia.
Qed.

Lemma frame_verdict_bad c4 t p :
  le_dec c4 <> crcf P (n2b (ft_code t)) p -> frame_verdict c4 t p = FCorrupt.
Proof.
  intros H. unfold frame_verdict.
  destruct (N.eqb_spec (crcf P (n2b (ft_code t)) p) (le_dec c4)) as [E|_]; [congruence|reflexivity].
Qed.

Lemma frame_verdict_good c4 t p :
  le_dec c4 = crcf P (n2b (ft_code t)) p -> frame_verdict c4 t p = FOk t p.
Proof. intros H. unfold frame_verdict. rewrite H, N.eqb_refl. reflexivity. Qed.

(* (1), block-relative form (cf. StreamProofs.read_frame_here) *)
Lemma read_frame_bad_crc S k c pre c4 t p' post :
  S = pre ++ (c4 ++ le_enc 2 (lenN p') ++ [n2b (ft_code t)] ++ p') ++ post ->
  lenN c4 = 4 -> le_dec c4 <> crcf P (n2b (ft_code t)) p' ->
  lenN pre = k * B + c -> c + 7 + lenN p' <= B -> (k + 1) * B <= lenN S ->
  rframe (rd_at S k c) = (rd_at S k (c + 7 + lenN p'), FCorrupt) /\
  fr_corrupt (rd_at S k (c + 7 + lenN p')) = false /\
  at_pos S (rd_at S k (c + 7 + lenN p')) (lenN pre + 7 + lenN p').
Proof.
  intros HS Hc4 Hbad Hpre Hfit Hlen.
  rewrite (read_frame_gen_here S k c pre c4 t p' post HS Hc4 Hpre Hfit Hlen).
  rewrite frame_verdict_bad by exact Hbad.
  split; [reflexivity|]. split; [reflexivity|].
  exists k, (c + 7 + lenN p'). repeat split; lia.
Qed.

(* (1), writer-position form (cf. StreamProofs.read_frame_at): the reader ends exactly where
   the undamaged frame would have left it, and the block is not flagged *)
Lemma read_frame_bad_crc_at S fr a pre c4 t p' post :
  stream_ok S -> at_pos S fr a ->
  S = pre ++ pad_of a ++ dframe c4 t p' ++ post -> lenN pre = a ->
  lenN c4 = 4 -> le_dec c4 <> crcf P (n2b (ft_code t)) p' ->
  lenN p' <= max_writable P (B - a mod B) ->
  exists fr', rframe fr = (fr', FCorrupt) /\ fr_corrupt fr' = false /\
              at_pos S fr' (a + lenN (pad_of a) + 7 + lenN p').
Proof.
  intros Hok Hat HS Hpre Hc4 Hbad Hfit.
  destruct (read_frame_gen_at S fr a pre c4 t p' post Hok Hat HS Hpre Hc4 Hfit) as (fr' & Hrf & Hat').
  rewrite frame_verdict_bad in Hrf by exact Hbad.
  exists fr'. split; [exact Hrf|]. split; [|exact Hat'].
  destruct Hat' as (k & c & _ & _ & _ & ->). reflexivity.
Qed.

(* ---------- (2) entry level ---------- *)
(* frames that are not first frames are ignored while within = false: the rest of an entry
   (written by the writer from a, first-flag false) is skipped, one fuel unit per frame *)
Lemma go_next_skip a f p e k :
  enc_rel a f p e k -> f = false ->
  forall S pre post fr,
    stream_ok S -> at_pos S fr a -> S = pre ++ e ++ post -> lenN pre = a ->
    exists fr',
      at_pos S fr' (a + lenN e) /\
      forall fuel rbuf,
        gonext (k + fuel) (mkRR fr rbuf false) = gonext fuel (mkRR fr' rbuf false).
Proof.
  induction 1 as [a f p Hd | a f p e k Hd Hr IH];
    intros Hf S pre post fr Hok Hat HS Hpre; subst f.
  - rewrite <- app_assoc in HS.
    destruct (read_frame_at S fr a pre _ _ post Hok Hat HS Hpre (chunk_le_maxw a p))
      as (fr' & Hrf & Hat').
    exists fr'. split.
    + rewrite lenN_app, lenN_frame_bytes.
      replace (a + (lenN (pad_of a) + (7 + lenN (takeN (chunk_of a p) p))))
        with (a + lenN (pad_of a) + 7 + lenN (takeN (chunk_of a p) p)) by lia.
      exact Hat'.
    + intros fuel rbuf. cbn [Nat.add go_next rr_fr rr_buf rr_within]. rewrite Hrf.
      cbn [frame_type is_first_frame]. reflexivity.
  - rewrite <- !app_assoc in HS.
    destruct (read_frame_at S fr a pre _ _ (e ++ post) Hok Hat HS Hpre (chunk_le_maxw a p))
      as (fr' & Hrf & Hat').
    set (fb := frame_bytes P (frame_type false false) (takeN (chunk_of a p) p)) in *.
    rewrite lenN_take_chunk in Hat'.
    destruct (IH eq_refl S (pre ++ pad_of a ++ fb) post fr') as (fr'' & Hat'' & Hgo).
    + exact Hok.
    + exact Hat'.
    + rewrite HS, <- !app_assoc. reflexivity.
    + rewrite !lenN_app. unfold fb. rewrite lenN_frame_bytes, lenN_take_chunk. lia.
    + exists fr''. split.
      * rewrite !lenN_app. unfold fb. rewrite lenN_frame_bytes, lenN_take_chunk.
        replace (a + (lenN (pad_of a) + (7 + chunk_of a p + lenN e)))
          with (a + lenN (pad_of a) + 7 + chunk_of a p + lenN e) by lia.
        exact Hat''.
      * intros fuel rbuf. cbn [Nat.add go_next rr_fr rr_buf rr_within]. rewrite Hrf.
        cbn [frame_type is_first_frame]. apply Hgo.
Qed.

(* enc_dmg a f p e e' k: e is what the writer emits for payload p at cursor a (as enc_rel),
   and e' is e with exactly one frame damaged in its checksum and / or payload bytes only
   (same length; len field and type byte intact) so that the CRC check fails *)
Inductive enc_dmg : N -> bool -> bytes -> bytes -> bytes -> nat -> Prop :=
| ED_last a f p c4 p' :
    dropN (chunk_of a p) p = [] ->
    lenN c4 = 4 -> lenN p' = chunk_of a p ->
    le_dec c4 <> crcf P (n2b (ft_code (frame_type f true))) p' ->
    enc_dmg a f p
      (pad_of a ++ frame_bytes P (frame_type f true) (takeN (chunk_of a p) p))
      (pad_of a ++ dframe c4 (frame_type f true) p') 1
| ED_here a f p c4 p' e k :
    dropN (chunk_of a p) p <> [] ->
    lenN c4 = 4 -> lenN p' = chunk_of a p ->
    le_dec c4 <> crcf P (n2b (ft_code (frame_type f false))) p' ->
    enc_rel (a + lenN (pad_of a) + 7 + chunk_of a p) false (dropN (chunk_of a p) p) e k ->
    enc_dmg a f p
      (pad_of a ++ frame_bytes P (frame_type f false) (takeN (chunk_of a p) p) ++ e)
      (pad_of a ++ dframe c4 (frame_type f false) p' ++ e) (S k)
| ED_later a f p e e' k :
    dropN (chunk_of a p) p <> [] ->
    enc_dmg (a + lenN (pad_of a) + 7 + chunk_of a p) false (dropN (chunk_of a p) p) e e' k ->
    enc_dmg a f p
      (pad_of a ++ frame_bytes P (frame_type f false) (takeN (chunk_of a p) p) ++ e)
      (pad_of a ++ frame_bytes P (frame_type f false) (takeN (chunk_of a p) p) ++ e') (S k).

Lemma enc_dmg_orig a f p e e' k : enc_dmg a f p e e' k -> enc_rel a f p e k.
Proof.
  induction 1 as [a f p c4 p' Hd Hc4 Hl Hbad | a f p c4 p' e k Hd Hc4 Hl Hbad Hr
                 | a f p e e' k Hd Hr IH].
  - now apply ER_last.
  - now apply ER_more.
  - now apply ER_more.
Qed.

Lemma enc_dmg_len a f p e e' k : enc_dmg a f p e e' k -> lenN e' = lenN e.
Proof.
  induction 1 as [a f p c4 p' Hd Hc4 Hl Hbad | a f p c4 p' e k Hd Hc4 Hl Hbad Hr
                 | a f p e e' k Hd Hr IH].
  - rewrite !lenN_app, lenN_frame_bytes, lenN_dframe, lenN_take_chunk by exact Hc4. lia.
  - rewrite !lenN_app, lenN_frame_bytes, lenN_dframe, lenN_take_chunk by exact Hc4. lia.
  - rewrite !lenN_app, IH. reflexivity.
Qed.

(* (2) reading the damaged encoding of one entry: go_next returns RCorrupt (whatever rbuf and
   within were), leaving a reader fr1 with within = false just after the damaged frame; the
   j remaining frames of the entry are then skipped by the NEXT call, which behaves as if
   started at the end of the entry (position a + lenN e) with within = false. *)
Lemma go_next_damaged a f p e e' k :
  enc_dmg a f p e e' k ->
  forall S pre post fr rbuf within fuel,
    stream_ok S -> at_pos S fr a -> S = pre ++ e' ++ post -> lenN pre = a ->
    (k <= fuel)%nat ->
    exists fr1 buf1 fr' j,
      gonext fuel (mkRR fr rbuf within) = (mkRR fr1 buf1 false, RCorrupt) /\
      fr_corrupt fr1 = false /\
      at_pos S fr' (a + lenN e) /\ (j < k)%nat /\
      forall fuel2 b, gonext (j + fuel2) (mkRR fr1 b false) = gonext fuel2 (mkRR fr' b false).
Proof.
  induction 1 as [a f p c4 p' Hd Hc4 Hl Hbad | a f p c4 p' e k Hd Hc4 Hl Hbad Hr
                 | a f p e e' k Hd Hr IH];
    intros S pre post fr rbuf within fuel Hok Hat HS Hpre Hfuel.
  - destruct fuel as [|fuel]; [lia|].
    rewrite <- app_assoc in HS.
    destruct (read_frame_bad_crc_at S fr a pre c4 _ p' post Hok Hat HS Hpre Hc4 Hbad)
      as (fr1 & Hrf & Hnc & Hat1).
    { rewrite Hl. unfold StreamProofs.chunk_of. lia. }
    exists fr1, rbuf, fr1, 0%nat. split; [|split; [exact Hnc|split; [|split; [lia|reflexivity]]]].
    + cbn [go_next rr_fr rr_buf rr_within]. rewrite Hrf. reflexivity.
    + rewrite lenN_app, lenN_frame_bytes, lenN_take_chunk. rewrite Hl in Hat1.
      replace (a + (lenN (pad_of a) + (7 + chunk_of a p)))
        with (a + lenN (pad_of a) + 7 + chunk_of a p) by lia.
      exact Hat1.
  - destruct fuel as [|fuel]; [lia|].
    rewrite <- !app_assoc in HS.
    destruct (read_frame_bad_crc_at S fr a pre c4 _ p' (e ++ post) Hok Hat HS Hpre Hc4 Hbad)
      as (fr1 & Hrf & Hnc & Hat1).
    { rewrite Hl. unfold StreamProofs.chunk_of. lia. }
    rewrite Hl in Hat1.
    destruct (go_next_skip _ _ _ _ _ Hr eq_refl S
                (pre ++ pad_of a ++ dframe c4 (frame_type f false) p') post fr1 Hok Hat1)
      as (fr' & Hat' & Hskip).
    { rewrite HS, <- !app_assoc. reflexivity. }
    { rewrite !lenN_app, lenN_dframe by exact Hc4. lia. }
    exists fr1, rbuf, fr', k. split; [|split; [exact Hnc|split; [|split; [lia|exact Hskip]]]].
    + cbn [go_next rr_fr rr_buf rr_within]. rewrite Hrf. reflexivity.
    + rewrite !lenN_app, lenN_frame_bytes, lenN_take_chunk.
      replace (a + (lenN (pad_of a) + (7 + chunk_of a p + lenN e)))
        with (a + lenN (pad_of a) + 7 + chunk_of a p + lenN e) by lia.
      exact Hat'.
  - destruct fuel as [|fuel]; [lia|].
    rewrite <- !app_assoc in HS.
    destruct (read_frame_at S fr a pre _ _ (e' ++ post) Hok Hat HS Hpre (chunk_le_maxw a p))
      as (fr0 & Hrf & Hat0).
    set (fb := frame_bytes P (frame_type f false) (takeN (chunk_of a p) p)) in *.
    rewrite lenN_take_chunk in Hat0.
    assert (HS' : S = (pre ++ pad_of a ++ fb) ++ e' ++ post)
      by (rewrite HS, <- !app_assoc; reflexivity).
    assert (Hpre' : lenN (pre ++ pad_of a ++ fb) = a + lenN (pad_of a) + 7 + chunk_of a p).
    { rewrite !lenN_app. unfold fb. rewrite lenN_frame_bytes, lenN_take_chunk. lia. }
    assert (Hend : a + lenN (pad_of a ++ fb ++ e) =
                   a + lenN (pad_of a) + 7 + chunk_of a p + lenN e).
    { rewrite !lenN_app. unfold fb. rewrite lenN_frame_bytes, lenN_take_chunk. lia. }
    rewrite Hend.
    cbn [go_next rr_fr rr_buf rr_within]. rewrite Hrf.
    rewrite is_first_frame_type, is_last_frame_type.
    destruct (if f then true else within).
    + destruct (IH S _ post fr0 ((if f then [] else rbuf) ++ takeN (chunk_of a p) p) true fuel
                  Hok Hat0 HS' Hpre') as (fr1 & buf1 & fr' & j & Hgo & Hnc & Hat' & Hj & Hskip);
        [lia|].
      exists fr1, buf1, fr', j. repeat split; try assumption. lia.
    + destruct (IH S _ post fr0 (if f then [] else rbuf) false fuel
                  Hok Hat0 HS' Hpre') as (fr1 & buf1 & fr' & j & Hgo & Hnc & Hat' & Hj & Hskip);
        [lia|].
      exists fr1, buf1, fr', j. repeat split; try assumption. lia.
Qed.

(* ---------- (3) list level ---------- *)
Lemma encs_rel_app_inv es1 : forall a es2 t,
  encs_rel a (es1 ++ es2) t ->
  exists t1 t2, t = t1 ++ t2 /\ encs_rel a es1 t1 /\ encs_rel (a + lenN t1) es2 t2.
Proof.
  induction es1 as [|y es1 IH]; intros a es2 t H.
  - exists [], t. rewrite (@lenN_nil byte), N.add_0_r. repeat split; [constructor|exact H].
  - cbn [app] in H. inversion H as [|a' p ps e k t' He Hes]; subst.
    destruct (IH _ _ _ Hes) as (t1 & t2 & -> & H1 & H2).
    exists (e ++ t1), t2. rewrite <- app_assoc. split; [reflexivity|]. split.
    + econstructor; eassumption.
    + rewrite lenN_app. replace (a + (lenN e + lenN t1)) with (a + lenN e + lenN t1) by lia.
      exact H2.
Qed.

(* the open-style reading loop over a whole stream, with the fuel mem_roundtrip uses *)
Definition mem_open_reader (D : bytes) : rreader vecr :=
  rr_open vecr (mkVecR (dropN B D) (takeN B D)).
Definition mem_read_stream (D : bytes) : list mem_read :=
  let fuel := N.to_nat (lenN D / HEADER_LEN + lenN D / B + 4) in
  mem_read_all P fuel fuel (mem_open_reader D).

Lemma at_pos_open D : B <= lenN D -> at_pos D (rr_fr (mem_open_reader D)) 0.
Proof.
  intros H. exists 0, 0. repeat split; try lia.
  unfold mem_open_reader, rr_open, fr_open, StreamProofs.rd_at. cbn [rr_fr]. unfold sliceN.
  replace ((0 + 1) * B) with B by lia. replace (0 * B) with 0 by lia.
  rewrite dropN_0, N.sub_0_r. reflexivity.
Qed.

(* reading a run of intact entries followed by the zero tail *)
Lemma read_to_end a es t :
  encs_rel a es t ->
  forall S pre z nb rr gofuel fuel,
    S = pre ++ t ++ zerosN z -> lenN S = (nb + 1) * B -> lenN pre + lenN t <= nb * B ->
    lenN pre = a -> at_pos S (rr_fr rr) a ->
    lenN t <= 7 * N.of_nat gofuel -> (1 <= gofuel)%nat -> (length es + 1 <= fuel)%nat ->
    mem_read_all P fuel gofuel rr = map MrEntry es ++ [MrEnd].
Proof.
  intros Hes S pre z nb rr gofuel fuel HS HlenS Hnb Hpre Hat Hg Hg1 Hfuel.
  assert (Hok : stream_ok S) by (exists (nb + 1); exact HlenS).
  replace fuel with (length es + Datatypes.S (fuel - length es - 1))%nat by lia.
  destruct (read_all_entries a es t Hes S pre (zerosN z) rr gofuel
              (Datatypes.S (fuel - length es - 1)) Hok Hat HS Hpre Hg) as (rr' & Hat' & Hrd).
  rewrite Hrd. f_equal.
  destruct (read_frame_end S (pre ++ t) z nb (rr_fr rr')) as (fr' & Hrf).
  - rewrite HS, <- app_assoc. reflexivity.
  - exact HlenS.
  - rewrite lenN_app. exact Hnb.
  - rewrite lenN_app, Hpre. exact Hat'.
  - apply (read_all_end _ fr'); [exact Hrf | lia].
Qed.

(* the same when the reader still has j frames of a damaged entry to skip *)
Lemma read_after_skip a es t :
  encs_rel a es t ->
  forall S pre z nb fr1 fr' j b gofuel fuel,
    S = pre ++ t ++ zerosN z -> lenN S = (nb + 1) * B -> lenN pre + lenN t <= nb * B ->
    lenN pre = a -> at_pos S fr' a ->
    (forall fuel2 b, gonext (j + fuel2) (mkRR fr1 b false) = gonext fuel2 (mkRR fr' b false)) ->
    7 * N.of_nat j + lenN t + 7 <= 7 * N.of_nat gofuel -> (length es + 1 <= fuel)%nat ->
    mem_read_all P fuel gofuel (mkRR fr1 b false) = map MrEntry es ++ [MrEnd].
Proof.
  intros Hes S pre z nb fr1 fr' j b gofuel fuel HS HlenS Hnb Hpre Hat Hskip Hg Hfuel.
  assert (Hok : stream_ok S) by (exists (nb + 1); exact HlenS).
  destruct fuel as [|fuel]; [lia|].
  replace gofuel with (j + (gofuel - j))%nat by lia.
  inversion Hes as [a' Ea Ees Et | a' y ys e k t' He Hes' Ea Ees Et]; subst a' es t.
  - (* nothing follows: skip, then the zero tail *)
    cbn [mem_read_all map app]. rewrite Hskip.
    destruct (read_frame_end S pre z nb fr') as (fr2 & Hrf).
    + rewrite HS. reflexivity.
    + exact HlenS.
    + rewrite (@lenN_nil byte) in Hnb. lia.
    + rewrite Hpre. exact Hat.
    + destruct (gofuel - j)%nat as [|g] eqn:Eg; [lia|].
      cbn [go_next rr_fr]. rewrite Hrf. reflexivity.
  - (* skip, then the next entry is read normally *)
    pose proof (enc_rel_frames _ _ _ _ _ He) as [Hk _].
    rewrite lenN_app in Hg, Hnb. rewrite <- app_assoc in HS.
    destruct (go_next_record _ _ _ _ _ He S pre (t' ++ zerosN z) fr' b false (gofuel - j)
                Hok Hat HS Hpre) as (fr2 & Hgo & Hat2); [left; reflexivity | lia |].
    cbn [mem_read_all]. rewrite Hskip, Hgo. cbn [rr_buf map app]. f_equal.
    apply (read_to_end _ _ _ Hes' S (pre ++ e) z nb).
    + rewrite HS, <- app_assoc. reflexivity.
    + exact HlenS.
    + rewrite lenN_app. lia.
    + rewrite lenN_app, Hpre. reflexivity.
    + exact Hat2.
    + lia.
    + lia.
    + cbn [length] in Hfuel. lia.
Qed.

(* (3) one entry of the log has one frame damaged (checksum and / or payload bytes): every
   other entry is read back intact, the reader does not stop, and the damaged entry is
   reported as exactly one Corruption *)
Theorem read_one_damaged es1 x es2 t1 ex ed k t2 :
  encs_rel 0 es1 t1 ->
  enc_dmg (lenN t1) true x ex ed k ->
  encs_rel (lenN t1 + lenN ex) es2 t2 ->
  forall fuel gofuel,
    (length es1 + length es2 + 2 <= fuel)%nat ->
    lenN (t1 ++ ed ++ t2) + 7 <= 7 * N.of_nat gofuel ->
    mem_read_all P fuel gofuel (mem_open_reader (mem_stream P (t1 ++ ed ++ t2))) =
      map MrEntry es1 ++ [MrCorrupt] ++ map MrEntry es2 ++ [MrEnd].
Proof.
  intros Hes1 Hdmg Hes2 fuel gofuel Hfuel Hg.
  destruct (mem_stream_shape (t1 ++ ed ++ t2)) as (z & nb & Hshape & HlenS & Hnb).
  set (S := mem_stream P (t1 ++ ed ++ t2)) in *.
  assert (Hok : stream_ok S) by (exists (nb + 1); exact HlenS).
  pose proof (enc_dmg_len _ _ _ _ _ _ Hdmg) as Hlen.
  pose proof (enc_rel_frames _ _ _ _ _ (enc_dmg_orig _ _ _ _ _ _ Hdmg)) as [Hk _].
  rewrite !lenN_app in Hg, Hnb. rewrite Hlen in Hg, Hnb.
  assert (HS : S = [] ++ t1 ++ (ed ++ t2 ++ zerosN z)).
  { rewrite Hshape, <- !app_assoc. reflexivity. }
  assert (Hat0 : at_pos S (rr_fr (mem_open_reader S)) 0) by (apply at_pos_open; lia).
  replace fuel with (length es1 + Datatypes.S (fuel - length es1 - 1))%nat by lia.
  destruct (read_all_entries 0 es1 t1 Hes1 S [] _ (mem_open_reader S) gofuel
              (Datatypes.S (fuel - length es1 - 1)) Hok Hat0 HS eq_refl) as (rr1 & Hat1 & Hrd);
    [lia|].
  rewrite Hrd. f_equal. rewrite N.add_0_l in Hat1.
  destruct rr1 as [fr rbuf within]. cbn [rr_fr] in Hat1.
  destruct (go_next_damaged _ _ _ _ _ _ Hdmg S t1 (t2 ++ zerosN z) fr rbuf within gofuel
              Hok Hat1) as (fr1 & buf1 & fr' & j & Hgo & _ & Hat' & Hj & Hskip).
  { rewrite Hshape, <- !app_assoc. reflexivity. }
  { reflexivity. }
  { lia. }
  cbn [mem_read_all]. rewrite Hgo. cbn [app]. f_equal.
  apply (read_after_skip _ _ _ Hes2 S (t1 ++ ed) z nb fr1 fr' j).
  - rewrite Hshape, <- !app_assoc. reflexivity.
  - exact HlenS.
  - rewrite lenN_app, Hlen. lia.
  - rewrite lenN_app, Hlen. reflexivity.
  - exact Hat'.
  - exact Hskip.
  - lia.
  - lia.
Qed.

(* the fuel mem_roundtrip gives itself is enough *)
Lemma stream_fuel_ok t :
  lenN t + 7 <=
  7 * N.of_nat (N.to_nat (lenN (mem_stream P t) / HEADER_LEN + lenN (mem_stream P t) / B + 4)).
Proof.
  destruct (mem_stream_shape t) as (z & nb & _ & HlenS & Hnb).
  unfold HEADER_LEN. set (D := mem_stream P t) in *.
  pose proof (N.div_mod (lenN D) 7) as Hdm. pose proof (N.mod_lt (lenN D) 7) as Hlt.
  set (r := lenN D mod 7) in *. clearbody r. nodiv. lia.
Qed.

Theorem read_one_damaged_stream es1 x es2 t1 ex ed k t2 :
  encs_rel 0 es1 t1 ->
  enc_dmg (lenN t1) true x ex ed k ->
  encs_rel (lenN t1 + lenN ex) es2 t2 ->
  mem_read_stream (mem_stream P (t1 ++ ed ++ t2)) =
    map MrEntry es1 ++ [MrCorrupt] ++ map MrEntry es2 ++ [MrEnd].
Proof.
  intros Hes1 Hdmg Hes2. unfold mem_read_stream.
  pose proof (stream_fuel_ok (t1 ++ ed ++ t2)) as Hf.
  apply (read_one_damaged es1 x es2 t1 ex ed k t2 Hes1 Hdmg Hes2); [|exact Hf].
  pose proof (encs_rel_len _ _ _ Hes1) as H1. pose proof (encs_rel_len _ _ _ Hes2) as H2.
  pose proof (enc_rel_frames _ _ _ _ _ (enc_dmg_orig _ _ _ _ _ _ Hdmg)) as [Hk Hk1].
  rewrite !lenN_app, (enc_dmg_len _ _ _ _ _ _ Hdmg) in Hf. lia.
Qed.

(* (3) stated from the writer: the log written for es1 ++ [x] ++ es2 splits as t1 ++ ex ++ t2
   with ex the frames of x, and replacing ex by ANY single-frame damaged version of it gives a
   stream that reads back as es1, one Corruption, es2, End *)
Theorem C09_one_damaged_entry es1 x es2 w ns :
  mem_write_all P (mkVecW 0 []) (es1 ++ [x] ++ es2) = (w, ns) ->
  exists t1 ex k t2,
    vw_buf w = t1 ++ ex ++ t2 /\
    enc_rel (lenN t1) true x ex k /\
    forall ed, enc_dmg (lenN t1) true x ex ed k ->
      lenN ed = lenN ex /\
      mem_read_stream (mem_stream P (t1 ++ ed ++ t2)) =
        map MrEntry es1 ++ [MrCorrupt] ++ map MrEntry es2 ++ [MrEnd].
Proof.
  intros Hw.
  destruct (mem_write_all_spec (es1 ++ [x] ++ es2) (mkVecW 0 [])) as (ns' & t & Hall & Hes & _ & _).
  rewrite Hw in Hall. inversion Hall as [[Ew Ens]]. cbn [vw_cursor vw_buf app] in *.
  destruct (encs_rel_app_inv _ _ _ _ Hes) as (t1 & t' & -> & Hes1 & Hes').
  rewrite N.add_0_l in Hes'.
  inversion Hes' as [|a' p ps ex k t2 He Hes2]; subst.
  exists t1, ex, k, t2. split; [reflexivity|]. split; [exact He|].
  intros ed Hdmg. split; [exact (enc_dmg_len _ _ _ _ _ _ Hdmg)|].
  exact (read_one_damaged_stream es1 x es2 t1 ex ed k t2 Hes1 Hdmg Hes2).
Qed.

(* ====================================================================================== *)
(* (4) any number of damaged frames, in any entries.
   The stream is described as a sequence of frames laid out at the writer's positions
   (layout); the reader is then shown to follow an abstract machine on the list of frames
   (ago / aread), whatever the payload bytes are. *)

Record fspec := mkFS { fs_c4 : bytes; fs_ty : ftype; fs_pl : bytes }.
Definition fs_bytes (x : fspec) : bytes := dframe (fs_c4 x) (fs_ty x) (fs_pl x).
Definition fs_good (x : fspec) : bool :=
  crcf P (n2b (ft_code (fs_ty x))) (fs_pl x) =? le_dec (fs_c4 x).

Lemma frame_verdict_fs x :
  frame_verdict (fs_c4 x) (fs_ty x) (fs_pl x) =
  if fs_good x then FOk (fs_ty x) (fs_pl x) else FCorrupt.
Proof. reflexivity. Qed.

(* frames (each preceded by the padding the writer inserts) from position a on *)
Inductive layout : N -> list fspec -> bytes -> Prop :=
| LY_nil a : layout a [] []
| LY_cons a x xs e :
    lenN (fs_c4 x) = 4 ->
    lenN (fs_pl x) <= max_writable P (B - a mod B) ->
    layout (a + lenN (pad_of a) + 7 + lenN (fs_pl x)) xs e ->
    layout a (x :: xs) (pad_of a ++ fs_bytes x ++ e).

Lemma layout_app a xs e1 : layout a xs e1 ->
  forall ys e2, layout (a + lenN e1) ys e2 -> layout a (xs ++ ys) (e1 ++ e2).
Proof.
  induction 1 as [a | a x xs e Hc4 Hfit Hl IH]; intros ys e2 H2.
  - rewrite (@lenN_nil byte), N.add_0_r in H2. exact H2.
  - cbn [app]. rewrite <- !app_assoc. apply LY_cons; [exact Hc4|exact Hfit|].
    apply IH. unfold fs_bytes in H2. rewrite !lenN_app, lenN_dframe in H2 by exact Hc4.
    replace (a + lenN (pad_of a) + 7 + lenN (fs_pl x) + lenN e)
      with (a + (lenN (pad_of a) + (7 + lenN (fs_pl x) + lenN e))) by lia.
    exact H2.
Qed.

Lemma layout_len a xs e : layout a xs e -> 7 * N.of_nat (length xs) <= lenN e.
Proof.
  induction 1 as [a | a x xs e Hc4 Hfit Hl IH].
  - cbn [length]. rewrite (@lenN_nil byte). lia.
  - cbn [length]. unfold fs_bytes. rewrite !lenN_app, lenN_dframe by exact Hc4. lia.
Qed.

(* one go_next call on a list of frames: remaining frames, buffer, within, result *)
Fixpoint ago (xs : list fspec) (buf : bytes) (w : bool) : list fspec * bytes * bool * rresult :=
  match xs with
  | [] => ([], buf, w, REnd)
  | x :: xs' =>
      if fs_good x then
        let w1 := if is_first_frame (fs_ty x) then true else w in
        let b0 := if is_first_frame (fs_ty x) then [] else buf in
        if w1 then
          if is_last_frame (fs_ty x) then (xs', b0 ++ fs_pl x, false, RRecord)
          else ago xs' (b0 ++ fs_pl x) true
        else ago xs' b0 w1
      else (xs', buf, false, RCorrupt)
  end.

(* the whole reading loop on a list of frames *)
Fixpoint aread (xs : list fspec) (buf : bytes) (w : bool) : list mem_read :=
  match xs with
  | [] => [MrEnd]
  | x :: xs' =>
      if fs_good x then
        let w1 := if is_first_frame (fs_ty x) then true else w in
        let b0 := if is_first_frame (fs_ty x) then [] else buf in
        if w1 then
          if is_last_frame (fs_ty x)
          then MrEntry (b0 ++ fs_pl x) :: aread xs' (b0 ++ fs_pl x) false
          else aread xs' (b0 ++ fs_pl x) true
        else aread xs' b0 w1
      else MrCorrupt :: aread xs' buf false
  end.

Lemma ago_shape xs : forall buf w xs' b' w' r,
  ago xs buf w = (xs', b', w', r) ->
  (r = REnd \/ ((r = RRecord \/ r = RCorrupt) /\ (length xs' < length xs)%nat)).
Proof.
  induction xs as [|x xs IH]; intros buf w xs' b' w' r H; cbn [ago] in H.
  - inversion H; subst. left; reflexivity.
  - destruct (fs_good x).
    + destruct (if is_first_frame (fs_ty x) then true else w).
      * destruct (is_last_frame (fs_ty x)).
        -- inversion H; subst. right. cbn [length]. split; [left; reflexivity|lia].
        -- apply IH in H. cbn [length]. destruct H as [H|[H1 H2]]; [left; exact H|right; split; [exact H1|lia]].
      * apply IH in H. cbn [length]. destruct H as [H|[H1 H2]]; [left; exact H|right; split; [exact H1|lia]].
    + inversion H; subst. right. cbn [length]. split; [right; reflexivity|lia].
Qed.

Lemma aread_ago xs : forall buf w,
  aread xs buf w =
  match ago xs buf w with
  | (xs', b', w', RRecord) => MrEntry b' :: aread xs' b' w'
  | (xs', b', w', RCorrupt) => MrCorrupt :: aread xs' b' w'
  | _ => [MrEnd]
  end.
Proof.
  induction xs as [|x xs IH]; intros buf w; cbn [ago aread].
  - reflexivity.
  - destruct (fs_good x); [|reflexivity].
    destruct (if is_first_frame (fs_ty x) then true else w).
    + destruct (is_last_frame (fs_ty x)); [reflexivity|apply IH].
    + apply IH.
Qed.

(* the reader sits at a writer frame boundary of the stream S, with frames xs still ahead *)
Definition on_boundary (S : bytes) (z nb : N) (fr : freader vecr) (xs : list fspec) : Prop :=
  exists pre e,
    S = pre ++ e ++ zerosN z /\ lenN S = (nb + 1) * B /\ lenN pre + lenN e <= nb * B /\
    layout (lenN pre) xs e /\ at_pos S fr (lenN pre).

(* go_next follows ago, and stops on a frame boundary again: the reader never looks at the
   stream anywhere else, so nothing needs to be assumed about payload contents
   ("no embedded frames" is not needed here) *)
Lemma go_next_layout a xs e :
  layout a xs e ->
  forall S pre z nb fr buf w g xs' b' w' r,
    S = pre ++ e ++ zerosN z -> lenN S = (nb + 1) * B -> lenN pre + lenN e <= nb * B ->
    lenN pre = a -> at_pos S fr a -> (length xs + 1 <= g)%nat ->
    ago xs buf w = (xs', b', w', r) ->
    exists fr',
      gonext g (mkRR fr buf w) = (mkRR fr' b' w', r) /\
      (r <> REnd -> on_boundary S z nb fr' xs').
Proof.
  induction 1 as [a | a x xs e Hc4 Hfit Hl IH];
    intros S pre z nb fr buf w g xs' b' w' r HS HlenS Hnb Hpre Hat Hg Hago.
  - cbn [ago] in Hago. inversion Hago; subst xs' b' w' r.
    destruct g as [|g]; [cbn [length] in Hg; lia|].
    destruct (read_frame_end S pre z nb fr) as (fr' & Hrf).
    + rewrite HS. reflexivity.
    + exact HlenS.
    + rewrite (@lenN_nil byte) in Hnb. lia.
    + rewrite Hpre. exact Hat.
    + exists fr'. split; [|congruence].
      cbn [go_next rr_fr rr_buf rr_within]. rewrite Hrf. reflexivity.
  - destruct g as [|g]; [lia|]. cbn [length] in Hg.
    assert (Hok : stream_ok S) by (exists (nb + 1); exact HlenS).
    rewrite <- !app_assoc in HS. unfold fs_bytes in HS.
    destruct (read_frame_gen_at S fr a pre _ _ _ (e ++ zerosN z) Hok Hat HS Hpre Hc4 Hfit)
      as (fr1 & Hrf & Hat1).
    rewrite frame_verdict_fs in Hrf.
    set (pre1 := pre ++ pad_of a ++ dframe (fs_c4 x) (fs_ty x) (fs_pl x)).
    assert (HS1 : S = pre1 ++ e ++ zerosN z).
    { unfold pre1. rewrite HS, <- !app_assoc. reflexivity. }
    assert (Hpre1 : lenN pre1 = a + lenN (pad_of a) + 7 + lenN (fs_pl x)).
    { unfold pre1. rewrite !lenN_app, lenN_dframe by exact Hc4. lia. }
    assert (Hnb1 : lenN pre1 + lenN e <= nb * B).
    { unfold fs_bytes in Hnb. rewrite !lenN_app, lenN_dframe in Hnb by exact Hc4. lia. }
    assert (Hbd : on_boundary S z nb fr1 xs).
    { exists pre1, e. rewrite <- Hpre1 in Hl, Hat1.
      split; [exact HS1|]. split; [exact HlenS|]. split; [exact Hnb1|]. split; [exact Hl|exact Hat1]. }
    cbn [ago] in Hago. cbn [go_next rr_fr rr_buf rr_within]. rewrite Hrf.
    destruct (fs_good x).
    + destruct (if is_first_frame (fs_ty x) then true else w) eqn:Ew.
      * destruct (is_last_frame (fs_ty x)).
        -- inversion Hago; subst xs' b' w' r. exists fr1. split; [reflexivity|].
           intros _. exact Hbd.
        -- apply (IH S pre1 z nb fr1 _ _ g xs' b' w' r HS1 HlenS Hnb1 Hpre1 Hat1); [lia|exact Hago].
      * apply (IH S pre1 z nb fr1 _ _ g xs' b' w' r HS1 HlenS Hnb1 Hpre1 Hat1); [lia|exact Hago].
    + inversion Hago; subst xs' b' w' r. exists fr1. split; [reflexivity|].
      intros _. exact Hbd.
Qed.

Lemma mem_read_all_layout fuel : forall S z nb fr xs buf w g,
  on_boundary S z nb fr xs ->
  (length xs + 1 <= fuel)%nat -> (length xs + 1 <= g)%nat ->
  mem_read_all P fuel g (mkRR fr buf w) = aread xs buf w.
Proof.
  induction fuel as [|fuel IH]; intros S z nb fr xs buf w g Hbd Hfuel Hg; [lia|].
  destruct Hbd as (pre & e & HS & HlenS & Hnb & Hl & Hat).
  destruct (ago xs buf w) as [[[xs' b'] w'] r] eqn:Hago.
  destruct (go_next_layout _ _ _ Hl S pre z nb fr buf w g xs' b' w' r HS HlenS Hnb eq_refl Hat Hg Hago)
    as (fr' & Hgo & Hbd').
  cbn [mem_read_all]. rewrite Hgo, aread_ago, Hago.
  destruct (ago_shape _ _ _ _ _ _ _ Hago) as [->|[[->| ->] Hlt]].
  - reflexivity.
  - cbn [rr_buf]. f_equal. apply (IH S z nb); [apply Hbd'; discriminate|lia|lia].
  - f_equal. apply (IH S z nb); [apply Hbd'; discriminate|lia|lia].
Qed.

(* reading a whole stream made of frames xs (then zeros) = running the abstract reader *)
Theorem read_stream_layout xs t :
  layout 0 xs t -> mem_read_stream (mem_stream P t) = aread xs [] false.
Proof.
  intros Hl. unfold mem_read_stream.
  pose proof (stream_fuel_ok t) as Hf. pose proof (layout_len _ _ _ Hl) as Hn.
  destruct (mem_stream_shape t) as (z & nb & Hshape & HlenS & Hnb).
  set (S := mem_stream P t) in *.
  unfold mem_open_reader, rr_open.
  apply (mem_read_all_layout _ S z nb); [|lia|lia].
  exists [], t. rewrite (@lenN_nil byte), N.add_0_l.
  split; [exact Hshape|]. split; [exact HlenS|]. split; [exact Hnb|]. split; [exact Hl|].
  apply (at_pos_open S). lia.
Qed.

(* ---------- entries whose frames are damaged arbitrarily (detected damage only) ---------- *)
(* frame x stands where the writer put the frame (first-flag f, last-flag l) of payload p at
   cursor a: type byte and len field intact, 4 checksum bytes and chunk-many payload bytes of
   any value, such that either the CRC check fails or the payload is the original one *)
Definition frame_for (a : N) (f l : bool) (p : bytes) (x : fspec) : Prop :=
  fs_ty x = frame_type f l /\ lenN (fs_c4 x) = 4 /\ lenN (fs_pl x) = chunk_of a p /\
  (fs_good x = true -> fs_pl x = takeN (chunk_of a p) p).

Inductive enc_any : N -> bool -> bytes -> list fspec -> bytes -> Prop :=
| EA_last a f p x :
    dropN (chunk_of a p) p = [] -> frame_for a f true p x ->
    enc_any a f p [x] (pad_of a ++ fs_bytes x)
| EA_more a f p x xs e :
    dropN (chunk_of a p) p <> [] -> frame_for a f false p x ->
    enc_any (a + lenN (pad_of a) + 7 + chunk_of a p) false (dropN (chunk_of a p) p) xs e ->
    enc_any a f p (x :: xs) (pad_of a ++ fs_bytes x ++ e).

Fixpoint countbad (xs : list fspec) : nat :=
  match xs with
  | [] => 0
  | x :: r => if fs_good x then countbad r else Datatypes.S (countbad r)
  end.

Lemma chunk_fits a p : chunk_of a p <= max_writable P (B - a mod B).
Proof. unfold StreamProofs.chunk_of. lia. Qed.

Lemma enc_any_layout a f p xs e : enc_any a f p xs e -> layout a xs e.
Proof.
  induction 1 as [a f p x Hd (Ht & Hc4 & Hl & Hg) | a f p x xs e Hd (Ht & Hc4 & Hl & Hg) Hr IH].
  - rewrite <- (app_nil_r (fs_bytes x)). apply LY_cons; [exact Hc4| |constructor].
    rewrite Hl. apply chunk_fits.
  - apply LY_cons; [exact Hc4| |rewrite Hl; exact IH].
    rewrite Hl. apply chunk_fits.
Qed.

(* the damaged bytes occupy exactly the place of the bytes the writer emitted *)
Lemma enc_any_orig a f p xs e :
  enc_any a f p xs e -> exists e0, enc_rel a f p e0 (length xs) /\ lenN e0 = lenN e.
Proof.
  induction 1 as [a f p x Hd (Ht & Hc4 & Hl & Hg) | a f p x xs e Hd (Ht & Hc4 & Hl & Hg) Hr IH].
  - eexists. split; [apply ER_last; exact Hd|].
    unfold fs_bytes. rewrite !lenN_app, lenN_frame_bytes, lenN_dframe, lenN_take_chunk by exact Hc4. lia.
  - destruct IH as (e0 & He0 & Hlen0).
    eexists. split; [apply ER_more; [exact Hd|exact He0]|]. cbn [length].
    unfold fs_bytes. rewrite !lenN_app, lenN_frame_bytes, lenN_dframe, lenN_take_chunk by exact Hc4. lia.
Qed.

(* pure facts about the abstract reader *)
Lemma aread_buf_false xs : forall b1 b2, aread xs b1 false = aread xs b2 false.
Proof.
  induction xs as [|x xs IH]; intros b1 b2; cbn [aread]; [reflexivity|].
  destruct (fs_good x).
  - destruct (is_first_frame (fs_ty x)); [reflexivity|]. apply IH.
  - f_equal. apply IH.
Qed.

Lemma aread_tail_skip a f p xs e :
  enc_any a f p xs e -> f = false ->
  forall rest buf,
    aread (xs ++ rest) buf false = repeat MrCorrupt (countbad xs) ++ aread rest buf false.
Proof.
  induction 1 as [a f p x Hd (Ht & Hc4 & Hl & Hg) | a f p x xs e Hd (Ht & Hc4 & Hl & Hg) Hr IH];
    intros Hf rest buf; subst f; cbn [app aread countbad]; rewrite Ht;
    cbn [frame_type is_first_frame]; destruct (fs_good x); cbn [repeat app];
    rewrite ?IH by reflexivity; reflexivity.
Qed.

Lemma aread_entry_good a f p xs e :
  enc_any a f p xs e -> forallb fs_good xs = true ->
  forall rest buf w, f = true \/ w = true ->
    aread (xs ++ rest) buf w =
    MrEntry ((if f then [] else buf) ++ p) :: aread rest ((if f then [] else buf) ++ p) false.
Proof.
  induction 1 as [a f p x Hd (Ht & Hc4 & Hl & Hg) | a f p x xs e Hd (Ht & Hc4 & Hl & Hg) Hr IH];
    intros Hall rest buf w Hfw; cbn [forallb] in Hall; apply andb_true_iff in Hall as [Hgx Hall];
    assert (Hw : (if f then true else w) = true)
      by (destruct f; [reflexivity | destruct Hfw as [Hf|Hw]; [discriminate|exact Hw]]);
    cbn [app aread]; rewrite Hgx, Ht, is_first_frame_type, is_last_frame_type, Hw, (Hg Hgx).
  - pose proof (takeN_dropN (chunk_of a p) p) as Htd. rewrite Hd, app_nil_r in Htd.
    rewrite Htd. reflexivity.
  - rewrite (IH Hall rest _ true) by (right; reflexivity).
    cbn match. rewrite <- app_assoc, takeN_dropN. reflexivity.
Qed.

Lemma aread_entry_bad a f p xs e :
  enc_any a f p xs e -> forallb fs_good xs = false ->
  forall rest buf w,
    aread (xs ++ rest) buf w = repeat MrCorrupt (countbad xs) ++ aread rest [] false.
Proof.
  induction 1 as [a f p x Hd (Ht & Hc4 & Hl & Hg) | a f p x xs e Hd (Ht & Hc4 & Hl & Hg) Hr IH];
    intros Hall rest buf w; cbn [forallb] in Hall; cbn [app aread countbad].
  - rewrite andb_true_r in Hall. rewrite Hall. cbn [repeat app]. f_equal. apply aread_buf_false.
  - destruct (fs_good x) eqn:Hgx.
    + cbn [andb] in Hall. rewrite Ht, is_first_frame_type, is_last_frame_type.
      destruct (if f then true else w); apply (IH Hall).
    + cbn [repeat app]. f_equal.
      rewrite (aread_tail_skip _ _ _ _ _ Hr eq_refl). f_equal. apply aread_buf_false.
Qed.

(* a list of entries, each written at the writer's position, each frame intact or damaged *)
Inductive encs_any : N -> list (bytes * list fspec) -> bytes -> Prop :=
| EAS_nil a : encs_any a [] []
| EAS_cons a p xs e pxs t :
    enc_any a true p xs e -> encs_any (a + lenN e) pxs t ->
    encs_any a ((p, xs) :: pxs) (e ++ t).

(* what the reader reports for one entry: the entry if no frame was hit, otherwise one
   Corruption per damaged frame (and nothing else) *)
Definition entry_out (px : bytes * list fspec) : list mem_read :=
  if forallb fs_good (snd px) then [MrEntry (fst px)]
  else repeat MrCorrupt (countbad (snd px)).

Lemma encs_any_layout a pxs t : encs_any a pxs t -> layout a (flat_map snd pxs) t.
Proof.
  induction 1 as [a | a p xs e pxs t He Hes IH]; cbn [flat_map snd].
  - constructor.
  - apply layout_app; [exact (enc_any_layout _ _ _ _ _ He)|exact IH].
Qed.

Lemma encs_any_orig a pxs t :
  encs_any a pxs t -> exists t0, encs_rel a (map fst pxs) t0 /\ lenN t0 = lenN t.
Proof.
  induction 1 as [a | a p xs e pxs t He Hes (t0 & Ht0 & Hlen0)]; cbn [map fst].
  - exists []. split; [constructor|reflexivity].
  - destruct (enc_any_orig _ _ _ _ _ He) as (e0 & He0 & Hlen).
    exists (e0 ++ t0). split.
    + econstructor; [exact He0|]. rewrite Hlen. exact Ht0.
    + rewrite !lenN_app. lia.
Qed.

Lemma aread_entries a pxs t :
  encs_any a pxs t ->
  forall buf, aread (flat_map snd pxs) buf false = flat_map entry_out pxs ++ [MrEnd].
Proof.
  induction 1 as [a | a p xs e pxs t He Hes IH]; intros buf; cbn [flat_map snd].
  - reflexivity.
  - unfold entry_out at 1. cbn [fst snd]. destruct (forallb fs_good xs) eqn:Hall.
    + rewrite (aread_entry_good _ _ _ _ _ He Hall) by (left; reflexivity).
      cbn [app]. f_equal. apply IH.
    + rewrite (aread_entry_bad _ _ _ _ _ He Hall), <- app_assoc. f_equal. apply IH.
Qed.

(* (4) any entries damaged, each in any number of frames: the reader delivers exactly the
   entries none of whose frames were hit, in order and intact, reports one Corruption per
   damaged frame at the place of the entry it belongs to, and reaches the end of the log *)
Theorem read_damaged_general pxs t :
  encs_any 0 pxs t ->
  mem_read_stream (mem_stream P t) = flat_map entry_out pxs ++ [MrEnd].
Proof.
  intros H. rewrite (read_stream_layout _ _ (encs_any_layout _ _ _ H)).
  apply (aread_entries _ _ _ H).
Qed.

(* ---------- consequences ---------- *)
Definition delivered (out : list mem_read) : list bytes :=
  flat_map (fun r => match r with MrEntry b => [b] | _ => [] end) out.
Definition corruptions (out : list mem_read) : nat :=
  length (filter (fun r => match r with MrCorrupt => true | _ => false end) out).

Inductive sublist {A} : list A -> list A -> Prop :=
| SL_nil : sublist [] []
| SL_skip x l1 l2 : sublist l1 l2 -> sublist l1 (x :: l2)
| SL_keep x l1 l2 : sublist l1 l2 -> sublist (x :: l1) (x :: l2).

Definition intact (px : bytes * list fspec) : bool := forallb fs_good (snd px).

Lemma delivered_app a b : delivered (a ++ b) = delivered a ++ delivered b.
Proof. unfold delivered. apply flat_map_app. Qed.

Lemma delivered_repeat n : delivered (repeat MrCorrupt n) = [].
Proof. induction n as [|n IH]; [reflexivity|exact IH]. Qed.

Lemma corruptions_app a b : (corruptions (a ++ b) = corruptions a + corruptions b)%nat.
Proof. unfold corruptions. rewrite filter_app, app_length. reflexivity. Qed.

Lemma corruptions_repeat n : corruptions (repeat MrCorrupt n) = n.
Proof. induction n as [|n IH]; [reflexivity|]. unfold corruptions in *. cbn [repeat filter length]. now rewrite IH. Qed.

Lemma delivered_out pxs :
  delivered (flat_map entry_out pxs ++ [MrEnd]) = map fst (filter intact pxs).
Proof.
  rewrite delivered_app. cbn [delivered flat_map app]. rewrite app_nil_r.
  induction pxs as [|[p xs] pxs IH]; [reflexivity|].
  cbn [flat_map filter]. rewrite delivered_app, IH. unfold entry_out, intact. cbn [fst snd].
  destruct (forallb fs_good xs); [reflexivity|]. rewrite delivered_repeat. reflexivity.
Qed.

Lemma corruptions_out pxs :
  corruptions (flat_map entry_out pxs ++ [MrEnd]) =
  fold_right Nat.add 0%nat (map (fun px => countbad (snd px)) pxs).
Proof.
  rewrite corruptions_app. replace (corruptions [MrEnd]) with 0%nat by reflexivity.
  rewrite Nat.add_0_r.
  induction pxs as [|[p xs] pxs IH]; [reflexivity|].
  cbn [flat_map map fold_right snd]. rewrite corruptions_app, IH. f_equal.
  unfold entry_out. cbn [fst snd].
  destruct (forallb fs_good xs) eqn:Hall; [|apply corruptions_repeat].
  clear -Hall. induction xs as [|x xs IHx]; [reflexivity|].
  cbn [forallb] in Hall. apply andb_true_iff in Hall as [Hx Hall].
  cbn [countbad]. rewrite Hx. apply IHx. exact Hall.
Qed.

Lemma sublist_filter_map {A C} (g : A -> C) (h : A -> bool) l :
  sublist (map g (filter h l)) (map g l).
Proof.
  induction l as [|x l IH]; cbn [filter map]; [constructor|].
  destruct (h x); cbn [map]; constructor; exact IH.
Qed.

(* the entries delivered are exactly the untouched ones: a subsequence of the entries written;
   a damaged entry is never turned into data; the Corruptions count the damaged frames *)
Theorem C09_general pxs t :
  encs_any 0 pxs t ->
  exists t0,
    encs_rel 0 (map fst pxs) t0 /\ lenN t0 = lenN t /\
    let out := mem_read_stream (mem_stream P t) in
    out = flat_map entry_out pxs ++ [MrEnd] /\
    delivered out = map fst (filter intact pxs) /\
    sublist (delivered out) (map fst pxs) /\
    corruptions out = fold_right Nat.add 0%nat (map (fun px => countbad (snd px)) pxs).
Proof.
  intros H. destruct (encs_any_orig _ _ _ H) as (t0 & Ht0 & Hlen).
  exists t0. split; [exact Ht0|]. split; [exact Hlen|].
  cbv zeta. rewrite (read_damaged_general _ _ H).
  split; [reflexivity|]. rewrite delivered_out.
  split; [reflexivity|]. split; [apply sublist_filter_map|apply corruptions_out].
Qed.

(* ---------- enc_any covers the intact and the single-damage encodings ---------- *)
Definition good_fs (t : ftype) (p : bytes) : fspec :=
  mkFS (le_enc 4 (crcf P (n2b (ft_code t)) p)) t p.

Lemma good_fs_good t p : fs_good (good_fs t p) = true.
Proof.
  unfold fs_good, good_fs. cbn [fs_c4 fs_ty fs_pl].
  rewrite le_dec_enc_small by apply Hcrc. apply N.eqb_refl.
Qed.

Lemma good_fs_bytes t p : fs_bytes (good_fs t p) = frame_bytes P t p.
Proof. unfold fs_bytes, good_fs. cbn [fs_c4 fs_ty fs_pl]. now rewrite frame_bytes_dframe. Qed.

Lemma frame_for_good a f l p :
  frame_for a f l p (good_fs (frame_type f l) (takeN (chunk_of a p) p)).
Proof.
  unfold frame_for, good_fs. cbn [fs_c4 fs_ty fs_pl].
  split; [reflexivity|]. split; [apply length_le_enc|]. split; [apply lenN_take_chunk|reflexivity].
Qed.

Lemma frame_for_bad a f l p c4 p' :
  lenN c4 = 4 -> lenN p' = chunk_of a p ->
  le_dec c4 <> crcf P (n2b (ft_code (frame_type f l))) p' ->
  frame_for a f l p (mkFS c4 (frame_type f l) p') /\ fs_good (mkFS c4 (frame_type f l) p') = false.
Proof.
  intros Hc4 Hl Hbad.
  assert (Hg : fs_good (mkFS c4 (frame_type f l) p') = false).
  { unfold fs_good. cbn [fs_c4 fs_ty fs_pl].
    destruct (N.eqb_spec (crcf P (n2b (ft_code (frame_type f l))) p') (le_dec c4)); [congruence|reflexivity]. }
  split; [|exact Hg]. unfold frame_for. rewrite Hg. cbn [fs_c4 fs_ty fs_pl].
  repeat split; [exact Hc4|exact Hl|discriminate].
Qed.

Lemma enc_rel_any a f p e k :
  enc_rel a f p e k ->
  exists xs, enc_any a f p xs e /\ forallb fs_good xs = true /\ length xs = k.
Proof.
  induction 1 as [a f p Hd | a f p e k Hd Hr (xs & Hany & Hall & Hlen)].
  - eexists [_]. rewrite <- good_fs_bytes. split; [apply EA_last; [exact Hd|apply frame_for_good]|].
    cbn [forallb length]. rewrite good_fs_good. split; reflexivity.
  - eexists (_ :: xs). rewrite <- good_fs_bytes.
    split; [apply EA_more; [exact Hd|apply frame_for_good|exact Hany]|].
    cbn [forallb length]. rewrite good_fs_good, Hall, Hlen. split; reflexivity.
Qed.

Lemma countbad_allgood xs : forallb fs_good xs = true -> countbad xs = 0%nat.
Proof.
  induction xs as [|x xs IH]; [reflexivity|]. cbn [forallb countbad].
  intros H. apply andb_true_iff in H as [Hx H]. rewrite Hx. exact (IH H).
Qed.

Lemma enc_dmg_any a f p e e' k :
  enc_dmg a f p e e' k ->
  exists xs, enc_any a f p xs e' /\ forallb fs_good xs = false /\ countbad xs = 1%nat /\ length xs = k.
Proof.
  induction 1 as [a f p c4 p' Hd Hc4 Hl Hbad | a f p c4 p' e k Hd Hc4 Hl Hbad Hr
                 | a f p e e' k Hd Hr (xs & Hany & Hall & Hcnt & Hlen)].
  - destruct (frame_for_bad a f true p c4 p' Hc4 Hl Hbad) as [Hff Hg].
    exists [mkFS c4 (frame_type f true) p'].
    split; [exact (EA_last _ _ _ _ Hd Hff)|]. cbn [forallb countbad length]. rewrite Hg.
    repeat split.
  - destruct (frame_for_bad a f false p c4 p' Hc4 Hl Hbad) as [Hff Hg].
    destruct (enc_rel_any _ _ _ _ _ Hr) as (xs & Hany & Hall & Hlen).
    exists (mkFS c4 (frame_type f false) p' :: xs).
    split; [exact (EA_more _ _ _ _ _ _ Hd Hff Hany)|]. cbn [forallb countbad length]. rewrite Hg.
    rewrite (countbad_allgood _ Hall), Hlen. repeat split.
  - eexists (_ :: xs). rewrite <- good_fs_bytes.
    split; [apply EA_more; [exact Hd|apply frame_for_good|exact Hany]|].
    cbn [forallb countbad length]. rewrite good_fs_good, Hall, Hcnt, Hlen. repeat split.
Qed.

(* non-vacuity: every encoding has a damaged version (e.g. flip the checksum of a frame) *)
Lemma enc_dmg_exists a f p e k : enc_rel a f p e k -> exists e', enc_dmg a f p e e' k.
Proof.
  assert (Hflip : forall t q, le_dec (le_enc 4 ((crcf P t q + 1) mod 2 ^ 32)) <> crcf P t q).
  { intros t q. rewrite le_dec_enc_small by (apply N.mod_lt; discriminate).
    pose proof (Hcrc t q) as Hlt. change (2 ^ 32) with 4294967296 in *.
    destruct (N.eq_dec (crcf P t q + 1) 4294967296) as [E|E].
    - rewrite E, N.mod_same by discriminate. lia.
    - rewrite N.mod_small by lia. lia. }
  intros H. destruct H as [a f p Hd | a f p e k Hd Hr].
  - eexists. apply (ED_last a f p (le_enc 4 ((crcf P (n2b (ft_code (frame_type f true))) (takeN (chunk_of a p) p) + 1) mod 2 ^ 32)) (takeN (chunk_of a p) p) Hd);
      [apply length_le_enc|apply lenN_take_chunk|apply Hflip].
  - eexists. apply (ED_here a f p (le_enc 4 ((crcf P (n2b (ft_code (frame_type f false))) (takeN (chunk_of a p) p) + 1) mod 2 ^ 32)) (takeN (chunk_of a p) p) e k Hd);
      [apply length_le_enc|apply lenN_take_chunk|apply Hflip|exact Hr].
Qed.

End C09.

Print Assumptions read_frame_bad_crc.
Print Assumptions read_frame_bad_crc_at.
Print Assumptions go_next_skip.
Print Assumptions go_next_damaged.
Print Assumptions read_one_damaged.
Print Assumptions read_one_damaged_stream.
Print Assumptions C09_one_damaged_entry.
Print Assumptions go_next_layout.
Print Assumptions read_stream_layout.
Print Assumptions read_damaged_general.
Print Assumptions C09_general.
Print Assumptions enc_dmg_any.
Print Assumptions enc_dmg_exists.
Check read_frame_bad_crc.
Check go_next_damaged.
Check C09_one_damaged_entry.
Check C09_general.
