(* PropC17.v — C17: only wal-<20 digits> files are WAL files.  Proofs in NamesProofs.v *)
From MRL Require Import Bytes Names NamesProofs.

(* every u64 file number prints to a name that parses back to it *)
Theorem C17_parse_print : forall n, n <= U64_MAX -> filename_to_position (filename n) = Some n.
Proof. exact parse_print. Qed.
Print Assumptions C17_parse_print.

(* a name is accepted only if it is exactly `wal-` + the 20 decimal digits of a u64:
   other lengths, prefixes, non-ASCII digits and 20-digit values above u64::MAX are rejected *)
Theorem C17_parse_exact : forall s n,
  filename_to_position s = Some n -> s = filename n /\ n <= U64_MAX.
Proof. exact parse_exact. Qed.
Print Assumptions C17_parse_exact.

Theorem C17_name_length : forall n, lenN (filename n) = 24.
Proof. exact filename_length. Qed.
Print Assumptions C17_name_length.

(* distinct numbers give distinct names; a rejected name is never the name of a WAL file the
   library creates, opens or removes *)
Theorem C17_filename_inj : forall a b,
  a <= U64_MAX -> b <= U64_MAX -> filename a = filename b -> a = b.
Proof. exact filename_inj. Qed.
Print Assumptions C17_filename_inj.

Theorem C17_foreign_never_named : forall s,
  filename_to_position s = None -> forall n, n <= U64_MAX -> s <> filename n.
Proof. exact parse_none_not_filename. Qed.
Print Assumptions C17_foreign_never_named.

(* ---- effect-level theorems (EffectsProofs.v) ---- *)
From MRL Require Import Bytes Params Names NamesProofs Frame Record Mem Rolling Log Hist EffectsProofs.

(* every event a call adds to the I/O trace names a file of the form wal-<20 digits> *)
Theorem C17_step_events_wal_named :
    forall (P : params) (st : state) (o : op) (tick : bool),
    Forall wal_named (c_ev (w_ctx (s_wr st))) ->
    Forall wal_named (c_ev (w_ctx (s_wr (fst (step P st o tick))))).
Proof. exact step_events_wal_named. Qed.
Print Assumptions C17_step_events_wal_named.

(* same for open (all outcomes) *)
Theorem C17_open_events_wal_named :
    forall (P : params) (fs : fsT) (plan : option fplan) (pol : policy) (hint : list bytes),
    Forall wal_named (c_ev (open_ctx (open P fs plan pol hint))).
Proof. exact open_events_wal_named. Qed.
Print Assumptions C17_open_events_wal_named.

(* an entry whose name is not of that form is unchanged (kind and content) by every call *)
Theorem C17_step_foreign_untouched :
    forall (P : params) (st : state) (o : op) (tick : bool) (s : bytes),
    (forall n : N, s <> filename n) ->
    fs_get (c_fs (w_ctx (s_wr (fst (step P st o tick))))) s = fs_get (c_fs (w_ctx (s_wr st))) s.
Proof. exact step_foreign_untouched. Qed.
Print Assumptions C17_step_foreign_untouched.

(* by drop *)
Theorem C17_drop_foreign_untouched :
    forall (st : state) (s : bytes),
    (forall n : N, s <> filename n) -> fs_get (c_fs (drop_log st)) s = fs_get (c_fs (w_ctx (s_wr st))) s.
Proof. exact drop_foreign_untouched. Qed.
Print Assumptions C17_drop_foreign_untouched.

(* by open *)
Theorem C17_open_foreign_untouched :
    forall (P : params) (fs : fsT) (plan : option fplan) (pol : policy) (hint : list bytes) (s : bytes),
    (forall n : N, s <> filename n) -> fs_get (c_fs (open_ctx (open P fs plan pol hint))) s = fs_get fs s.
Proof. exact open_foreign_untouched. Qed.
Print Assumptions C17_open_foreign_untouched.

(* by any history *)
Theorem C17_run_foreign_untouched :
    forall (P : params) (h : list (op * bool)) (st : state) (s : bytes),
    (forall n : N, s <> filename n) ->
    fs_get (c_fs (w_ctx (s_wr (fst (run P st h))))) s = fs_get (c_fs (w_ctx (s_wr st))) s.
Proof. exact run_foreign_untouched. Qed.
Print Assumptions C17_run_foreign_untouched.

(* only regular files whose name parses are listed as WAL files *)
Theorem C17_listing_sound :
    forall (fs : fsT) (n : N),
    In n (list_wal_numbers fs) -> n <= U64_MAX /\ (exists b : bytes, In (filename n, FFile b) fs).
Proof. exact list_wal_numbers_sound_exact. Qed.
Print Assumptions C17_listing_sound.

(* ordered by number, gaps allowed *)
Theorem C17_listing_sorted :
    forall fs : fsT, Sorted.StronglySorted N.lt (list_wal_numbers fs).
Proof. exact list_wal_numbers_sorted. Qed.
Print Assumptions C17_listing_sorted.

(* names of another length / prefix / with a non-digit are never names the library forms *)
Theorem C17_bad_shape_foreign :
    forall s : list byte,
    lenN s <> 24 \/ takeN 4 s <> wal_prefix \/ forallb is_digit (dropN 4 s) = false ->
    forall n : N, s <> filename n.
Proof. exact bad_shape_foreign. Qed.
Print Assumptions C17_bad_shape_foreign.

(* names that do not parse (including 20 digits above u64::MAX) are untouched as long as file numbers stay below 2^64 *)
Theorem C17_unparsed_untouched :
    forall (P : params) (st : state) (o : op) (tick : bool) (evs : list event) (s : bytes),
    c_ev (w_ctx (s_wr (fst (step P st o tick)))) = evs ++ c_ev (w_ctx (s_wr st)) ->
    Forall wal_named_u64 evs ->
    filename_to_position s = None ->
    fs_get (c_fs (w_ctx (s_wr (fst (step P st o tick))))) s = fs_get (c_fs (w_ctx (s_wr st))) s.
Proof. exact step_unparsed_untouched. Qed.
Print Assumptions C17_unparsed_untouched.

