(* PropC17.v — C17: only wal-<20 digits> files are WAL files.  Proofs in NamesProofs.v *)
From MRL Require Import Bytes Names NamesProofs.

(* every u64 file number prints to a name that parses back to it *)
Theorem C17_parse_print : forall n, n <= U64_MAX -> filename_to_position (filename n) = Some n.
Proof. exact parse_print. Qed.
Print Assumptions C17_parse_print.

(* a name is accepted only if it is exactly `wal-` + the 20 decimal digits of a u64:
   other lengths, prefixes, non-ASCII digits and 20-digit values above u64::MAX are rejected *)
Theorem C17_parse_exact : forall s n,
  filename_to_position s = Some n -> s = filename n /\ n <= U64_MAX.
Proof. exact parse_exact. Qed.
Print Assumptions C17_parse_exact.

Theorem C17_name_length : forall n, lenN (filename n) = 24.
Proof. exact filename_length. Qed.
Print Assumptions C17_name_length.

(* distinct numbers give distinct names; a rejected name is never the name of a WAL file the
   library creates, opens or removes *)
Theorem C17_filename_inj : forall a b,
  a <= U64_MAX -> b <= U64_MAX -> filename a = filename b -> a = b.
Proof. exact filename_inj. Qed.
Print Assumptions C17_filename_inj.

Theorem C17_foreign_never_named : forall s,
  filename_to_position s = None -> forall n, n <= U64_MAX -> s <> filename n.
Proof. exact parse_none_not_filename. Qed.
Print Assumptions C17_foreign_never_named.
