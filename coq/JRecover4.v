(* JRecover4.v — TASK T14 follow-up: JRecover3.recover_vcall_setup PER CRASH POINT.  The (virtual) call
   may roll over to a new file or end in the last block of its file; the premises are on the
   crash prefix pe itself:
     no EvCreate in pe                         (the crash is before any roll-over of the call)
     w_off + |data of pe| + BS <= FILE_BYTES   (the cut leaves a whole block in the file).
   [compile-time rework] now a corollary of JRecover3.recover_vcall_setup_gen. *)
From Coq Require Import Lia ZArith ZifyN ZifyNat ZifyBool List Sorted.
From MRL Require Import Bytes BytesProofs Params Names NamesProofs Frame Record Mem Spec Rolling Log
  Driver Hist NoopProofs SpecRefine RecordProofs StreamProofs PolicyProofs GcProofs GhostLog ReplaySpec
  HandleProofs FileStream ResyncProofs QueueIso RestartInv RestartWrite RestartGc RestartStep
  OpenReplay RestartFinal TornProofs TornFile CrashTrace CrashAtomic
  JInv JGc JStep JunkStream JReopen JRecoverL JRecoverS JRecoverP JRecover JRecoverS2 JRecoverL2
  JCrashShape JRecover2 JRecoverP2 JRecoverPk JRecover3 JRecoverS3.

Arguments N.add : simpl never.
Arguments N.sub : simpl never.
Arguments N.mul : simpl never.
Arguments N.eqb : simpl never.
Arguments N.ltb : simpl never.
Arguments N.leb : simpl never.
Arguments N.div : simpl never.
Arguments N.modulo : simpl never.
Arguments N.min : simpl never.
Arguments N.max : simpl never.
Arguments N.pow : simpl never.

Section Recover4.
Variable P : params.
Hypothesis HBS_lo : 7 < BS P.
Hypothesis HBS_hi : BS P <= 65542.
Hypothesis HNB : 1 <= NB P.
Hypothesis Hcrc : forall t p, crcf P t p < 2 ^ 32.
Hypothesis HGC : L_GC P = false.
Hypothesis HIO : L_IO P = false.
Hypothesis HSHORT : L_SHORT P = false.
Hypothesis Hnc : no_zero_collision P.

Local Notation B := (BS P).
Local Notation FB := (FILE_BYTES P).
Local Notation ffp := (first_frame_pos P).
Local Notation enc_of := (enc_of P).
Local Notation encs_of := (encs_of P).
Local Notation cursor_after := (cursor_after P).
Local Notation starts := (starts P).
Local Notation ser := (map entry_ser).
Local Notation H3 f := (f P HBS_lo HBS_hi Hcrc) (only parsing).
Local Notation H2 f := (f P HBS_lo HBS_hi) (only parsing).
Local Notation HW f := (f P HBS_lo HBS_hi HNB Hcrc) (only parsing).
Local Notation HN f := (f P HBS_lo HBS_hi HNB) (only parsing).
Local Notation HG f := (f P HBS_lo HBS_hi HNB Hcrc HGC) (only parsing).

Variable PRE0 : bytes.
Variable OLD0 : list entry.
Variable opos0 : list (N * N).
Variable adm0 : N -> Prop.
Variable cmax0 : nat.
Variable rm0 : N.
Hypothesis Hpre0 : pre_ok PRE0 OLD0 opos0.
Hypothesis Hpc0 : pre_cont P PRE0 (ser OLD0) opos0 adm0 cmax0 rm0.
Hypothesis Hrm0 : rm0 <= 7.
Hypothesis Hadm0 : forall m, adm0 (m * NB P).

Local Notation InvJ0 := (InvJ P PRE0 OLD0 opos0).
Local Notation PInvJ0 := (PInvJ P PRE0 OLD0 opos0).
Local Notation jT0 := (jT P PRE0 OLD0).
Local Notation jpos0 := (jpos P PRE0 OLD0 opos0).
Local Notation jNEW0 := (jNEW OLD0).
Local Notation jser0 := (jser OLD0).
Local Notation crash_boundJ := (crash_boundJ P PRE0 OLD0).

Definition no_create (pe : list event) : Prop :=
  Forall (fun e => match e with EvCreate _ => False | _ => True end) pe.

(* without an EvCreate no file appears *)
Lemma no_create_absent pe : no_create pe -> forall fs name,
  fs_get fs name = None -> fs_get (fold_left apply_event pe fs) name = None.
Proof.
  clear. induction 1 as [|e pe He _ IH]; intros fs name Hn; cbn [fold_left]; [exact Hn|].
  apply IH. destruct e; cbn [apply_event]; try exact Hn.
  - contradiction.
  - destruct (fs_get fs name0) as [[b| |]|] eqn:E; try exact Hn.
    rewrite fs_get_put_other; [exact Hn|]. intros ->. congruence.
  - destruct (fs_get fs name0) as [[b| |]|] eqn:E; try exact Hn.
    rewrite fs_get_put_other; [exact Hn|]. intros ->. congruence.
  - now apply fs_get_remove_none.
Qed.

(* the recovery of a crash image of a virtual call st -> st' logging the entries X *)
Theorem recover_vcall_setup_at st G (X : list entry) st' G' evs :
  InvJ0 st G -> w_pending (s_wr st) = [] ->
  InvJ0 st' G' -> gh_base G' = gh_base G -> gh_ALL G' = gh_ALL G ++ X ->
  w_pending (s_wr st') = [] -> Forall wf_entry X ->
  call_trace P (wlo (s_wr st)) (w_file (s_wr st)) (w_off (s_wr st))
             (encs_of (call_cursor P st G) (ser X)) (w_file (s_wr st')) (w_off (s_wr st')) evs ->
  c_fs (w_ctx (s_wr st')) = fold_left apply_event evs (c_fs (w_ctx (s_wr st))) ->
  (* logical atomicity of every prefix of X *)
  (forall Xd Xr, X = Xd ++ Xr ->
     exists Gd qsd,
       LInv qsd (wlo (s_wr st)) Gd /\ gh_base Gd = gh_base G /\ gh_before Gd = gh_before G /\
       map snd (gh_E Gd) = map snd (gh_E G) ++ Xd /\
       (Xd = [] -> forall q, s_get (abs_qs qsd) q = s_get (abs_qs (s_qs st)) q) /\
       (Xd <> [] -> forall q, s_get (abs_qs qsd) q = s_get (abs_qs (s_qs st')) q)) ->
  (X = [] -> forall q, s_get (abs_qs (s_qs st')) q = s_get (abs_qs (s_qs st)) q) ->
  crash_boundJ G X (abs_qs (s_qs st)) ->
  crash_boundJ G X (abs_qs (s_qs st')) ->
  forall pe, cpre pe evs ->
      no_create pe -> w_off (s_wr st) + lenN (ev_data pe) + B <= FB ->
      let img := fold_left apply_event pe (c_fs (w_ctx (s_wr st))) in
      exists PRE OLD opos adm cmax rm lo' n zz qs_log lo_log Glog,
        pre_ok PRE OLD opos /\ pre_cont P PRE (ser OLD) opos adm cmax rm /\ rm <= 7 /\
        (forall m, adm (m * NB P)) /\
        rc_hyps P PRE OLD opos adm rm img lo' n (gh_base G) zz qs_log lo_log Glog /\
        lo' + N.of_nat n = w_file (s_wr st) /\
        ((forall q, s_get (abs_qs qs_log) q = s_get (abs_qs (s_qs st)) q) \/
         (forall q, s_get (abs_qs qs_log) q = s_get (abs_qs (s_qs st')) q)).
Proof.
  intros HI Hp0 HI' Eb EALL' Hp0' HwfX Hct Hfs Hprefix Hnilabs Hcb Hcb'
         pe Hcpre Hnocr Hfitpe. cbn zeta.
  destruct (recover_vcall_setup_gen P HBS_lo HBS_hi HNB Hcrc Hnc PRE0 OLD0 opos0 adm0 cmax0 rm0
              Hpre0 Hpc0 Hrm0 Hadm0 st G X st' G' evs HI Hp0 HI' Eb EALL' Hp0' HwfX Hct Hfs Hprefix Hnilabs
              Hcb Hcb' pe Hcpre)
    as (PRE & OLD & opos & adm & cmax & rm & lo' & n & zz & qs_log & lo_log & Glog &
        H1 & H2' & H3' & H4 & H5 & (_ & (bb & Hbb) & _) & H6 & _ & H7).
  { right. intros hi _ Hle. left.
    assert ((w_file (s_wr st) + 1) * FB <= (hi + 1) * FB) by (apply N.mul_le_mono_r; clear - Hle; lia).
    rewrite N.mul_add_distr_r in H. clear - H Hfitpe. lia. }
  exists PRE, OLD, opos, adm, cmax, rm, lo', n, zz, qs_log, lo_log, Glog.
  repeat (split; [assumption|]). split; [|exact H7].
  (* no EvCreate: the top file is still the file of the writer *)
  destruct (N.eq_dec (lo' + N.of_nat n) (w_file (s_wr st))) as [E|Hne]; [exact E|exfalso].
  pose proof HI as (HP & _). pose proof HP as (Hw & _).
  pose proof Hw as (_ & _ & _ & _ & _ & _ & Hfresh).
  rewrite (vfs_nil _ Hp0) in Hfresh.
  pose proof H5 as (_ & _ & _ & Hmax & _). cbv zeta in Hmax.
  rewrite (no_create_absent pe Hnocr _ (filename (lo' + N.of_nat n))) in Hbb; [discriminate|].
  apply Hfresh; [clear - H6 Hne; lia|exact Hmax].
Qed.

End Recover4.

Print Assumptions recover_vcall_setup_at.
