(* PropC08.v — C08: damaged WAL bytes never surface as records that were not appended. Proved: (a) for ANY directory content, whatever open returns has strictly increasing positions per queue (representation invariant); (b) whatever decodes as an entry is exactly the serialization of that entry (nothing invented by the codec); (c) CRC-detected damage of any set of frames delivers a subsequence of the written entries. (d) ARBITRARY damage inside one block, frame headers (length, type byte) included: under the hypothesis NoEmbeddedPath (the only CRC-valid frames on the reader's path through the damaged block are genuine, untouched frames: what a CRC promises up to collisions) the delivered entries are a sub-list of the written ones. The general statement is false without that hypothesis (known finding F4: NoEmbedded_necessary).
   Statements only; each theorem is closed by `exact <lemma>`; proofs live in the imported files. *)
From Coq Require Import Lia NArith List.
From MRL Require Import Bytes Params Names Frame Record Mem Spec Rolling Log Driver SpecRefine RecordProofs StreamProofs DamageProofs OpenReplay DamageFile HeaderDamageEv HeaderDamage HeaderDamageEx HeaderDamageFile HeaderDamageFileEx.

(* any directory content: the returned queues satisfy the invariant (positions strictly increasing, payload offsets consistent) *)
Theorem C08_positions_increasing_any_directory :
    forall (P : params) (fs : fsT) (plan : option fplan) (pol : policy) (hint : list bytes) (st : state),
    open P fs plan pol hint = OpenOk st -> qs_inv (s_qs st).
Proof. exact open_inv. Qed.
Print Assumptions C08_positions_increasing_any_directory.

(* a decoded entry is the serialization of itself (plus ignored trailing bytes for control entries): queue, position and payload come from the bytes read *)
Theorem C08_entry_deser_sound :
    forall (buf : bytes) (e : entry),
    entry_deser buf = Some e ->
    exists extra : list byte,
    buf = entry_ser e ++ extra /\ (entry_has_payload e = true -> extra = []) /\ wf_entry e.
Proof. exact entry_deser_sound. Qed.
Print Assumptions C08_entry_deser_sound.

(* for AppendRecords exactly *)
Theorem C08_append_deser_exact :
    forall (buf q : bytes) (pos : N) (recs : list (N * bytes)),
    entry_deser buf = Some (EAppend q pos recs) ->
    buf = entry_ser (EAppend q pos recs) /\ wf_entry (EAppend q pos recs).
Proof. exact entry_deser_sound_append. Qed.
Print Assumptions C08_append_deser_exact.

(* detected damage: delivered entries are a subsequence of the written ones *)
Theorem C08_detected_damage_subsequence :
    forall P : params,
    7 < BS P ->
    BS P <= 65542 ->
    (forall (t : byte) (p : bytes), crcf P t p < 2 ^ 32) ->
    forall (pxs : list (bytes * list fspec)) (t : bytes),
    encs_any P 0 pxs t ->
    exists t0 : bytes,
    encs_rel P 0 (map fst pxs) t0 /\
    lenN t0 = lenN t /\
    (let out := mem_read_stream P (mem_stream P t) in
    out = flat_map (entry_out P) pxs ++ [MrEnd] /\
    delivered out = map fst (filter (intact P) pxs) /\
    sublist (delivered out) (map fst pxs) /\
    corruptions out =
    fold_right PeanoNat.Nat.add 0%nat (map (fun px : bytes * list fspec => countbad P (snd px)) pxs)).
Proof. exact C09_general. Qed.
Print Assumptions C08_detected_damage_subsequence.

(* replay inserts exactly the records carried by the entries it is given *)
Theorem C08_replay_inserts_only_entry_records :
    forall (qs : queues) (file : N) (q : bytes) (pos : N) (recs : list (N * bytes)) (qs' : queues),
    qs_inv qs ->
    apply_entry qs file (EAppend q pos recs) = Some qs' ->
    exists m' : mq,
    qs_get qs' q = Some m' /\
    records_of (q_buf m') (q_metas m') =
    match qs_get qs q with
    | Some m => records_of (q_buf m) (q_metas m)
    | None => []
    end ++ recs.
Proof. exact apply_append_all_or_nothing. Qed.
Print Assumptions C08_replay_inserts_only_entry_records.

(* through files, detected damage: what open replays is a sub-list of the entries that were written (ok_entries_sublist) *)
Theorem C08_open_damaged_replays_only_written :
    forall P : params,
    7 < BS P ->
    BS P <= 65542 ->
    1 <= NB P ->
    (forall (t : byte) (p : bytes), crcf P t p < 2 ^ 32) ->
    forall (fs : fsT) (lo : N) (n : nat),
    (forall f : N,
    In f (GcProofs.iota lo (S n)) ->
    exists b : bytes, fs_get fs (filename f) = Some (FFile b) /\ lenN b = FILE_BYTES P) ->
    forall (base : N) (E_all : list entry) (pxs : list (bytes * list fspec)) (T' : bytes)
    (z : N) (pol : policy) (hint : list bytes),
    L_IO P = false ->
    base <= lo ->
    list_wal_numbers fs = GcProofs.iota lo (S n) ->
    Forall wf_entry E_all ->
    map fst pxs = map entry_ser E_all ->
    encs_any P 0 pxs T' ->
    FileStream.stream_of fs (GcProofs.iota lo (S n)) = dropN ((lo - base) * FILE_BYTES P) (T' ++ zerosN z) ->
    lenN (T' ++ zerosN z) = (lo + N.of_nat n - base + 1) * FILE_BYTES P ->
    let b := (lo - base) * FILE_BYTES P in
    exists
    (w0 : rwriter) (tags : list N) (E_pre E_suf : list entry) (pxs1 pxs2 : list (bytes * list fspec)),
    E_all = E_pre ++ E_suf /\
    pxs = pxs1 ++ pxs2 /\
    map fst pxs1 = map entry_ser E_pre /\
    map fst pxs2 = map entry_ser E_suf /\
    map entry_ser E_pre = ResyncProofs.skipped_before P b 0 (map entry_ser E_all) /\
    map entry_ser E_suf = ResyncProofs.delivered_from P b 0 (map entry_ser E_all) /\
    lenN T' = lenN (ResyncProofs.encs_of P 0 (map entry_ser E_all)) /\
    (let E_ok := ok_entries P pxs2 E_suf in
    dmg_spec P fs lo n base w0 tags
    (ok_sts P (ResyncProofs.cursor_after P 0 (map entry_ser E_pre)) pxs2)
    (N.max b (lenN T')) /\
    match GhostLog.replay_entries [] (combine tags E_ok) with
    | Some qs => open P fs None pol hint = open_finish P w0 qs pol hint
    | None => exists c : ioctx, open P fs None pol hint = OpenCorruption c
    end).
Proof. exact open_damaged. Qed.
Print Assumptions C08_open_damaged_replays_only_written.

(* arbitrary bytes in one block (headers included): the reader terminates and delivers a sub-list of the written entries, provided only genuine frames verify on its path through that block *)
Theorem C08_header_damage_sublist :
    forall P : params,
    7 < BS P ->
    BS P <= 65542 ->
    (forall (t : byte) (p : bytes), crcf P t p < 2 ^ 32) ->
    forall (es : list bytes) (t D : bytes) (b : N),
    encs_rel P 0 es t ->
    damaged_in_block P D t b ->
    NoEmbeddedPath P D b t ->
    let out := mem_read_stream P D in ~ In MrFuel out /\ sublist (delivered out) es.
Proof. exact header_damage_sublist. Qed.
Print Assumptions C08_header_damage_sublist.

(* and the damage is local: entries before the block are all delivered, entries after it are all delivered unless the reader met a zero header inside the block (then it takes it for the end of the log) *)
Theorem C08_header_damage_local :
    forall P : params,
    7 < BS P ->
    BS P <= 65542 ->
    (forall (t : byte) (p : bytes), crcf P t p < 2 ^ 32) ->
    forall (es1 esb es3 : list bytes) (t1 tb t3 D : bytes) (b : N),
    encs_rel P 0 es1 t1 ->
    encs_rel P (lenN t1) esb tb ->
    encs_rel P (lenN t1 + lenN tb) es3 t3 ->
    damaged_in_block P D (t1 ++ tb ++ t3) b ->
    lenN t1 <= b * BS P ->
    es3 = [] \/ (b + 1) * BS P <= ResyncProofs.first_frame_pos P (lenN t1 + lenN tb) ->
    NoEmbeddedPath P D b (t1 ++ tb ++ t3) ->
    let out := mem_read_stream P D in
    ~ In MrFuel out /\
    sublist (delivered out) (es1 ++ esb ++ es3) /\
    (exists mid tail : list bytes,
    delivered out = es1 ++ mid ++ tail /\
    sublist mid esb /\ (tail = es3 \/ tail = [] /\ stopped_in P D b)).
Proof. exact header_damage_local. Qed.
Print Assumptions C08_header_damage_local.

(* if it did not, everything outside the block is delivered *)
Theorem C08_header_damage_resync :
    forall P : params,
    7 < BS P ->
    BS P <= 65542 ->
    (forall (t : byte) (p : bytes), crcf P t p < 2 ^ 32) ->
    forall (es1 esb es3 : list bytes) (t1 tb t3 D : bytes) (b : N),
    encs_rel P 0 es1 t1 ->
    encs_rel P (lenN t1) esb tb ->
    encs_rel P (lenN t1 + lenN tb) es3 t3 ->
    damaged_in_block P D (t1 ++ tb ++ t3) b ->
    lenN t1 <= b * BS P ->
    es3 = [] \/ (b + 1) * BS P <= ResyncProofs.first_frame_pos P (lenN t1 + lenN tb) ->
    NoEmbeddedPath P D b (t1 ++ tb ++ t3) ->
    ~ stopped_in P D b ->
    exists mid : list bytes, delivered (mem_read_stream P D) = es1 ++ mid ++ es3 /\ sublist mid esb.
Proof. exact header_damage_resync. Qed.
Print Assumptions C08_header_damage_resync.

(* the hypothesis is necessary: a payload embedding a CRC-valid frame image + one overwritten length byte makes the reader deliver an entry that was never written (finding F4, at stream level, real CRC-32) *)
Theorem C08_NoEmbedded_necessary :
    encs_rel DamageAtomic.Example.Pc 0 A.es A.t /\
    damaged_in_block DamageAtomic.Example.Pc HeaderDamageEx.A.D A.t 0 /\
    ~ sublist (delivered (mem_read_stream DamageAtomic.Example.Pc HeaderDamageEx.A.D)) A.es /\
    ~ NoEmbeddedPath DamageAtomic.Example.Pc HeaderDamageEx.A.D 0 A.t.
Proof. exact A.NoEmbedded_necessary. Qed.
Print Assumptions C08_NoEmbedded_necessary.

(* and locality cannot be improved: one damaged length byte can make the reader land in a zero payload and end the log there, losing intact entries of later blocks *)
Theorem C08_header_damage_later_entries_can_be_lost :
    encs_rel DamageAtomic.Example.Pc 0 C.es C.t /\
    damaged_in_block DamageAtomic.Example.Pc C.D C.t 0 /\
    NoEmbedded DamageAtomic.Example.Pc C.D 0 C.t /\
    sliceN 32 64 C.D = sliceN 32 64 C.S /\
    sliceN 32 44 C.S = frame_bytes DamageAtomic.Example.Pc Full e3 /\
    ~ In e3 (delivered (mem_read_stream DamageAtomic.Example.Pc C.D)).
Proof. exact C.later_entries_can_be_lost. Qed.
Print Assumptions C08_header_damage_later_entries_can_be_lost.

(* THROUGH open OVER FILES: a directory whose kept files hold the written stream with arbitrary bytes in one block (headers included, NoEmbeddedPath): open replays a sub-list of the entries a clean open would replay (all entries before the block; those after it unless the reader met a zero header inside it), or fails with Corruption when the replay of that sub-list fails - never anything else *)
Theorem C08_open_header_damaged :
    forall P : params,
    7 < BS P ->
    BS P <= 65542 ->
    1 <= NB P ->
    (forall (t : byte) (p : bytes), crcf P t p < 2 ^ 32) ->
    forall (fs : fsT) (lo : N) (n : nat),
    (forall f : N,
    In f (GcProofs.iota lo (S n)) ->
    exists b : bytes, fs_get fs (filename f) = Some (FFile b) /\ lenN b = FILE_BYTES P) ->
    forall (base : N) (E_pre E_1 E_b E_3 : list entry) (t0 t1 tb t3 : bytes) (z : N)
    (D : list byte) (blk : N) (pol : policy) (hint : list bytes),
    L_IO P = false ->
    base <= lo ->
    list_wal_numbers fs = GcProofs.iota lo (S n) ->
    Forall wf_entry (E_1 ++ E_b ++ E_3) ->
    encs_rel P 0 (map entry_ser E_pre) t0 ->
    encs_rel P (lenN t0) (map entry_ser E_1) t1 ->
    encs_rel P (lenN t0 + lenN t1) (map entry_ser E_b) tb ->
    encs_rel P (lenN t0 + lenN t1 + lenN tb) (map entry_ser E_3) t3 ->
    let T := t0 ++ t1 ++ tb ++ t3 in
    let b := (lo - base) * FILE_BYTES P in
    lenN (T ++ zerosN z) = (lo + N.of_nat n - base + 1) * FILE_BYTES P ->
    lenN D = lenN (T ++ zerosN z) ->
    takeN (blk * BS P) D = takeN (blk * BS P) (T ++ zerosN z) ->
    dropN ((blk + 1) * BS P) D = dropN ((blk + 1) * BS P) (T ++ zerosN z) ->
    (blk + 1) * BS P <= lenN D ->
    (lo - base) * NB P <= blk ->
    FileStream.stream_of fs (GcProofs.iota lo (S n)) = dropN b D ->
    Forall (fun s : N * N => snd s < b) (ResyncProofs.starts P 0 (map entry_ser E_pre)) ->
    b <= ResyncProofs.first_frame_pos P (lenN t0) ->
    E_1 = [] \/ lenN t0 + lenN t1 <= blk * BS P ->
    E_3 = [] \/ (blk + 1) * BS P <= ResyncProofs.first_frame_pos P (lenN t0 + lenN t1 + lenN tb) ->
    NoEmbeddedPath P D blk T ->
    exists (w0 : rwriter) (tags : list N) (E_mid E_tail : list entry),
    sublist E_mid E_b /\
    (E_tail = E_3 /\
    ((blk + 1) * BS P <= lenN T ->
    exists sts : list (N * N), dmg_spec P fs lo n base w0 tags sts (lenN T)) \/
    E_tail = [] /\ stopped_in P D blk) /\
    hd_spec fs lo n w0 tags (length (E_1 ++ E_mid ++ E_tail)) /\
    match GhostLog.replay_entries [] (combine tags (E_1 ++ E_mid ++ E_tail)) with
    | Some qs => open P fs None pol hint = open_finish P w0 qs pol hint
    | None => exists c : ioctx, open P fs None pol hint = OpenCorruption c
    end.
Proof. exact open_header_damaged. Qed.
Print Assumptions C08_open_header_damaged.

(* END TO END from the global invariant: after such damage open either fails with Corruption or returns queues every record of which was appended (it belongs to an AppendRecords entry of the ghost log that was delivered) *)
Theorem C08_header_damage :
    forall P : params,
    7 < BS P ->
    BS P <= 65542 ->
    1 <= NB P ->
    (forall (t : byte) (p : bytes), crcf P t p < 2 ^ 32) ->
    L_IO P = false ->
    forall (st : state) (G : RestartInv.ghost) (blk : N) (D : bytes) (fs_d : fsT),
    RestartInv.Inv P st G ->
    header_damaged_dir P st G blk D fs_d ->
    forall (pol : policy) (hint : list bytes),
    exists (w0 : rwriter) (tags : list N) (Es' : list entry),
    sublist Es' (map snd (RestartInv.gh_E G)) /\
    length tags = length Es' /\
    match GhostLog.replay_entries [] (combine tags Es') with
    | Some qD =>
    open P fs_d None pol hint = open_finish P w0 qD pol hint /\
    (forall st_r : state, open P fs_d None pol hint = OpenOk st_r -> s_qs st_r = qD) /\
    (forall (q : bytes) (m : mq) (rec : N * bytes),
    qs_get qD q = Some m ->
    In rec (records_of (q_buf m) (q_metas m)) ->
    exists (pos : N) (recs : list (N * bytes)), In (EAppend q pos recs) Es' /\ In rec recs)
    | None => exists c : ioctx, open P fs_d None pol hint = OpenCorruption c
    end.
Proof. exact C08_header_damage. Qed.
Print Assumptions C08_header_damage.

(* and when the reader gets through the damaged block, open succeeds (or fails with Corruption only through the replay of the sub-log) *)
Theorem C08_header_damage_ok :
    forall P : params,
    7 < BS P ->
    BS P <= 65542 ->
    1 <= NB P ->
    (forall (t : byte) (p : bytes), crcf P t p < 2 ^ 32) ->
    L_IO P = false ->
    L_GC P = false ->
    forall (st : state) (G : RestartInv.ghost) (blk : N) (D : bytes) (fs_d : fsT),
    RestartInv.Inv P st G ->
    header_damaged_dir P st G blk D fs_d ->
    DamageAtomic.dmg_bound P st G ->
    (blk + 1) * BS P <= lenN (RestartInv.gh_T P G) ->
    ~ stopped_in P D blk ->
    forall (pol : policy) (hint : list bytes),
    exists (tags : list N) (Es' : list entry),
    sublist Es' (map snd (RestartInv.gh_E G)) /\
    length tags = length Es' /\
    match GhostLog.replay_entries [] (combine tags Es') with
    | Some qD => exists st_r : state, open P fs_d None pol hint = OpenOk st_r /\ s_qs st_r = qD
    | None => exists c : ioctx, open P fs_d None pol hint = OpenCorruption c
    end.
Proof. exact C08_header_damage_ok. Qed.
Print Assumptions C08_header_damage_ok.

(* such directories exist for every state and every kept block (one type byte set to 0xFF): the premises are satisfiable for any checksum function *)
Theorem C08_header_damaged_dir_exists :
    forall P : params,
    7 < BS P ->
    BS P <= 65542 ->
    1 <= NB P ->
    (forall (t : byte) (p : bytes), crcf P t p < 2 ^ 32) ->
    forall (st : state) (G : RestartInv.ghost) (blk : N),
    RestartInv.Inv P st G ->
    (FileStream.wlo (s_wr st) - RestartInv.gh_base G) * NB P <= blk ->
    blk < (FileStream.wlo (s_wr st) - RestartInv.gh_base G + lenN (w_files (s_wr st))) * NB P ->
    exists (D : bytes) (fs_d : fsT),
    header_damaged_dir P st G blk D fs_d /\ ((blk + 2) * BS P <= lenN D -> ~ stopped_in P D blk).
Proof. exact header_damaged_dir_exists. Qed.
Print Assumptions C08_header_damaged_dir_exists.

(* sharpness: with ONE damaged length byte the replay of the delivered sub-log can fail (a lost DeleteQueue + lost re-creation make a later append 'Past'): open then reports Corruption - damage is reported, not turned into data *)
Theorem C08_one_byte_can_fail_open :
    B.verdict (open DamageAtomic.Example.Pc B.fs2 None PNothing []) = 0 /\
    B.verdict (open DamageAtomic.Example.Pc B.fs2d None PNothing []) = 2 /\
    GhostLog.replay_entries [] (combine [0; 0; 1; 1; 3] (firstn 4 B.E_all ++ skipn 6 B.E_all)) = None /\
    sublist (firstn 4 B.E_all ++ skipn 6 B.E_all) B.E_all.
Proof. exact B.one_byte_corruption. Qed.
Print Assumptions C08_one_byte_can_fail_open.

