(* PropC08.v — C08: damaged WAL bytes never surface as records that were not appended. Proved: (a) for ANY directory content, whatever open returns has strictly increasing positions per queue (representation invariant); (b) whatever decodes as an entry is exactly the serialization of that entry (nothing invented by the codec); (c) CRC-detected damage of any set of frames delivers a subsequence of the written entries. The general statement is false without the NoEmbedded hypothesis (known finding F4).
   Statements only; each theorem is closed by `exact <lemma>`; proofs live in the imported files. *)
From Coq Require Import Lia NArith List.
From MRL Require Import Bytes Params Names Frame Record Mem Spec Rolling Log Driver SpecRefine RecordProofs StreamProofs DamageProofs.

(* any directory content: the returned queues satisfy the invariant (positions strictly increasing, payload offsets consistent) *)
Theorem C08_positions_increasing_any_directory :
    forall (P : params) (fs : fsT) (plan : option fplan) (pol : policy) (hint : list bytes) (st : state),
    open P fs plan pol hint = OpenOk st -> qs_inv (s_qs st).
Proof. exact open_inv. Qed.
Print Assumptions C08_positions_increasing_any_directory.

(* a decoded entry is the serialization of itself (plus ignored trailing bytes for control entries): queue, position and payload come from the bytes read *)
Theorem C08_entry_deser_sound :
    forall (buf : bytes) (e : entry),
    entry_deser buf = Some e ->
    exists extra : list byte,
    buf = entry_ser e ++ extra /\ (entry_has_payload e = true -> extra = []) /\ wf_entry e.
Proof. exact entry_deser_sound. Qed.
Print Assumptions C08_entry_deser_sound.

(* for AppendRecords exactly *)
Theorem C08_append_deser_exact :
    forall (buf q : bytes) (pos : N) (recs : list (N * bytes)),
    entry_deser buf = Some (EAppend q pos recs) ->
    buf = entry_ser (EAppend q pos recs) /\ wf_entry (EAppend q pos recs).
Proof. exact entry_deser_sound_append. Qed.
Print Assumptions C08_append_deser_exact.

(* detected damage: delivered entries are a subsequence of the written ones *)
Theorem C08_detected_damage_subsequence :
    forall P : params,
    7 < BS P ->
    BS P <= 65542 ->
    (forall (t : byte) (p : bytes), crcf P t p < 2 ^ 32) ->
    forall (pxs : list (bytes * list fspec)) (t : bytes),
    encs_any P 0 pxs t ->
    exists t0 : bytes,
    encs_rel P 0 (map fst pxs) t0 /\
    lenN t0 = lenN t /\
    (let out := mem_read_stream P (mem_stream P t) in
    out = flat_map (entry_out P) pxs ++ [MrEnd] /\
    delivered out = map fst (filter (intact P) pxs) /\
    sublist (delivered out) (map fst pxs) /\
    corruptions out =
    fold_right PeanoNat.Nat.add 0%nat (map (fun px : bytes * list fspec => countbad P (snd px)) pxs)).
Proof. exact C09_general. Qed.
Print Assumptions C08_detected_damage_subsequence.

(* replay inserts exactly the records carried by the entries it is given *)
Theorem C08_replay_inserts_only_entry_records :
    forall (qs : queues) (file : N) (q : bytes) (pos : N) (recs : list (N * bytes)) (qs' : queues),
    qs_inv qs ->
    apply_entry qs file (EAppend q pos recs) = Some qs' ->
    exists m' : mq,
    qs_get qs' q = Some m' /\
    records_of (q_buf m') (q_metas m') =
    match qs_get qs q with
    | Some m => records_of (q_buf m) (q_metas m)
    | None => []
    end ++ recs.
Proof. exact apply_append_all_or_nothing. Qed.
Print Assumptions C08_replay_inserts_only_entry_records.

