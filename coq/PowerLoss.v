(* PowerLoss.v — property C03, POWER-LOSS model, end to end.
   The power-loss model of the drivers (Driver.power_events): at cut c ALL the metadata events
   (create, set_len, unlink) before c are applied, but an EvWrite survives only if an EvSyncData of
   the same file follows it before c.
   Part 1 (pure, on event lists): the I/O discipline of the log (disc: every write goes to the
   current file; a file is created / sized / unlinked only when the current file has NO unsynced
   write, which is what roll_group and the guarded unlinks of the GC do) implies that the image of
   a power loss at cut c IS the process-crash image at a cut c' <= c: c' is the position of the
   first write that is lost (everything after it, up to c, is lost writes to the same file and
   flushes), so the surviving data is a byte PREFIX of the data written, and every
   create / set_len / unlink / sync_data before c is also before c'.
   Part 2: the trace of a history from a persist point has that discipline (from
   PersistShape.btrace), hence (1) the shape of power-loss images, (2) C03_power_loss,
   (3) C03_fsynced_survives_power_loss. *)
From Coq Require Import Lia ZArith ZifyN ZifyNat ZifyBool List Sorted.
From MRL Require Import Bytes BytesProofs Params Names NamesProofs Frame Record Mem Spec Rolling Log
  Driver Hist SpecRefine RecordProofs StreamProofs PolicyProofs GcProofs GhostLog ReplaySpec
  HandleProofs FileStream ResyncProofs TornProofs PersistProofs WriterProofs EffectsProofs
  RestartInv RestartWrite RestartGc RestartStep OpenReplay RestartFinal TornFile CrashTrace
  PersistTrace PersistGc PersistLogic PersistRecover PersistSurvive PersistShape PersistImage.

Arguments N.add : simpl never.
Arguments N.sub : simpl never.
Arguments N.mul : simpl never.
Arguments N.eqb : simpl never.
Arguments N.ltb : simpl never.
Arguments N.leb : simpl never.
Arguments N.div : simpl never.
Arguments N.modulo : simpl never.
Arguments N.min : simpl never.
Arguments N.max : simpl never.

(* ====================================================================== *)
(* Part 1. the I/O discipline and the power-loss filter                     *)
(* ====================================================================== *)

(* the events the log issues only when the current file has no unsynced write, and the syncs *)
Definition meta_ev (e : event) : Prop :=
  match e with EvCreate _ | EvSetLen _ _ | EvUnlink _ | EvSyncData _ => True | _ => False end.

(* disc cur dirty evs: cur = the number of the file being written, dirty = it may hold writes that
   no sync_data has followed yet.  Writes and syncs concern the current file only; a create (the
   roll-over to the next file), a set_len and an unlink happen only when dirty = false. *)
Fixpoint disc (cur : N) (dirty : bool) (evs : list event) : Prop :=
  match evs with
  | [] => True
  | EvWrite n _ _ :: r => n = filename cur /\ disc cur true r
  | EvSyncData n :: r => n = filename cur /\ disc cur false r
  | EvFlush _ :: r => disc cur dirty r
  | EvSyncDir :: r => disc cur dirty r
  | EvCreate _ :: r => dirty = false /\ disc (cur + 1) false r
  | EvSetLen _ _ :: r => dirty = false /\ disc cur false r
  | EvUnlink _ :: r => dirty = false /\ disc cur false r
  | _ :: _ => False
  end.

Lemma disc_mono l : forall cur, disc cur true l -> disc cur false l.
Proof.
  induction l as [|e l IH]; intros cur H; [exact I|].
  destruct e; cbn [disc] in *; try exact H; try (destruct H as [H _]; discriminate H).
  - now apply IH.
  - now apply IH.
Qed.

Lemma disc_any l cur d : disc cur true l -> disc cur d l.
Proof. destruct d; [auto|apply disc_mono]. Qed.

(* a dirty current file with no sync in sight: only writes to it and flushes; all is lost *)
Lemma lost_tail l : forall cur n,
  disc cur true l -> synced_later (filename cur) (firstn n l) = false ->
  (forall fs, fold_left apply_event (power_filter (firstn n l)) fs = fs) /\
  ev_data (power_filter (firstn n l)) = [] /\
  Forall (fun e => ~ meta_ev e) (firstn n l).
Proof.
  induction l as [|e l IH]; intros cur n Hd Hs.
  - rewrite firstn_nil. repeat split; constructor.
  - destruct n as [|n]; [cbn [firstn power_filter]; repeat split; constructor|].
    cbn [firstn] in *.
    destruct e; cbn [disc] in Hd; try (destruct Hd as [Hd _]; discriminate Hd); try contradiction.
    + (* write *)
      destruct Hd as [-> Hd]. cbn [synced_later] in Hs.
      destruct (IH cur n Hd Hs) as (I1 & I2 & I3).
      cbn [power_filter]. rewrite Hs. split; [exact I1|]. split; [exact I2|].
      constructor; [intros []|exact I3].
    + (* flush *)
      cbn [synced_later] in Hs. destruct (IH cur n Hd Hs) as (I1 & I2 & I3).
      cbn [power_filter fold_left apply_event ev_data].
      split; [exact I1|]. split; [exact I2|]. constructor; [intros []|exact I3].
    + (* sync of the current file: excluded *)
      destruct Hd as [-> _]. cbn [synced_later] in Hs. rewrite bytes_eqb_refl in Hs. discriminate Hs.
    + (* sync_dir *)
      cbn [synced_later] in Hs. destruct (IH cur n Hd Hs) as (I1 & I2 & I3).
      cbn [power_filter fold_left apply_event ev_data].
      split; [exact I1|]. split; [exact I2|]. constructor; [intros []|exact I3].
Qed.

(* THE KEY FACT: under the discipline, a power loss at cut n leaves the same directory as a
   process crash at some cut n' <= n (between two events), with the same surviving data, and no
   create / set_len / unlink / sync_data between n' and n. *)
Lemma power_as_crash l : forall cur d n,
  disc cur d l ->
  exists n', (n' <= n)%nat /\
    (forall fs, fold_left apply_event (power_filter (firstn n l)) fs =
                fold_left apply_event (firstn n' l) fs) /\
    ev_data (power_filter (firstn n l)) = ev_data (firstn n' l) /\
    Forall (fun e => ~ meta_ev e) (skipn n' (firstn n l)).
Proof.
  induction l as [|e l IH]; intros cur d n Hd.
  - exists 0%nat. rewrite !firstn_nil. cbn [power_filter skipn]. repeat split; [lia|constructor].
  - destruct n as [|n].
    { exists 0%nat. cbn [firstn power_filter skipn]. repeat split; [lia|constructor]. }
    assert (Hkeep : forall cur' d', disc cur' d' l ->
              power_filter (e :: firstn n l) = e :: power_filter (firstn n l) ->
              exists n', (n' <= S n)%nat /\
                (forall fs, fold_left apply_event (power_filter (firstn (S n) (e :: l))) fs =
                            fold_left apply_event (firstn n' (e :: l)) fs) /\
                ev_data (power_filter (firstn (S n) (e :: l))) = ev_data (firstn n' (e :: l)) /\
                Forall (fun e => ~ meta_ev e) (skipn n' (firstn (S n) (e :: l)))).
    { intros cur' d' Hd' Hpf. destruct (IH cur' d' n Hd') as (n' & Hn' & I1 & I2 & I3).
      exists (S n'). cbn [firstn skipn]. rewrite Hpf. split; [lia|].
      split; [intros fs; cbn [fold_left]; apply I1|]. split; [|exact I3].
      destruct e; cbn [ev_data]; try exact I2. now rewrite I2. }
    destruct e; cbn [disc] in Hd; try contradiction.
    + destruct Hd as [_ Hd]. exact (Hkeep _ _ Hd eq_refl).
    + destruct Hd as [_ Hd]. exact (Hkeep _ _ Hd eq_refl).
    + (* write *)
      destruct Hd as [-> Hd].
      destruct (synced_later (filename cur) (firstn n l)) eqn:Es.
      * apply (Hkeep _ _ Hd). cbn [power_filter]. now rewrite Es.
      * destruct (lost_tail l cur n Hd Es) as (L1 & L2 & L3).
        exists 0%nat. cbn [firstn skipn power_filter]. rewrite Es. split; [lia|].
        split; [intros fs; rewrite L1; reflexivity|]. split; [rewrite L2; reflexivity|].
        constructor; [intros []|exact L3].
    + exact (Hkeep _ _ Hd eq_refl).
    + destruct Hd as [_ Hd]. exact (Hkeep _ _ Hd eq_refl).
    + exact (Hkeep _ _ Hd eq_refl).
    + destruct Hd as [_ Hd]. exact (Hkeep _ _ Hd eq_refl).
Qed.

Lemma cpre_firstn n : forall l, cpre (firstn n l) l.
Proof.
  induction n as [|n IH]; intros l; [constructor|].
  destruct l as [|e l]; [constructor|]. cbn [firstn]. constructor. apply IH.
Qed.

(* a cut between two events is a process-crash cut *)
Lemma crash_events_k0 evs cut : crash_events evs cut 0 = takeN cut evs.
Proof. unfold crash_events. cbn. apply app_nil_r. Qed.

(* the same, on the driver's functions *)
Theorem power_is_crash evs cur d cut :
  disc cur d evs ->
  exists cut', cut' <= cut /\
    (forall fs, fold_left apply_event (power_events evs cut) fs =
                fold_left apply_event (crash_events evs cut' 0) fs) /\
    ev_data (power_events evs cut) = ev_data (crash_events evs cut' 0) /\
    Forall (fun e => ~ meta_ev e) (dropN cut' (takeN cut evs)).
Proof.
  intros Hd. destruct (power_as_crash evs cur d (N.to_nat cut) Hd) as (n' & Hn' & I1 & I2 & I3).
  exists (N.of_nat n'). unfold power_events. rewrite crash_events_k0, dropN_skipn, !takeN_firstn.
  rewrite Nnat.Nat2N.id. split; [lia|]. auto.
Qed.

Lemma all_synced_app_r a b : all_synced (a ++ b) -> all_synced b.
Proof.
  intros H name pre off d post E. apply (H name (a ++ pre) off d post).
  rewrite E, app_assoc. reflexivity.
Qed.

(* a power loss after a fully synced prefix keeps the whole prefix *)
Lemma power_events_app_ge a b cut :
  all_synced a -> lenN a <= cut ->
  power_events (a ++ b) cut = a ++ power_events b (cut - lenN a).
Proof.
  intros Ha Hc. unfold power_events. rewrite takeN_app_ge by exact Hc.
  now apply power_filter_all_synced_app.
Qed.

(* ====================================================================== *)
(* Part 1b. process-crash images with the number of surviving bytes explicit *)
(* ====================================================================== *)
(* PersistImage.seg_image / C03_image_shape again, exposing that the length j of the byte prefix
   of the image description IS the number of bytes of the (partial) write events that reached
   the image.  (Same proof; PersistImage hides j behind an existential.) *)
Section ImageJ.
Variable P : params.
Hypothesis HBS_lo : 7 < BS P.
Hypothesis HBS_hi : BS P <= 65542.
Hypothesis HNB : 1 <= NB P.
Hypothesis Hcrc : forall t p, crcf P t p < 2 ^ 32.
Hypothesis HGC : L_GC P = false.

Local Notation B := (BS P).
Local Notation FB := (FILE_BYTES P).
Local Notation encs_of := (encs_of P).
Local Notation sr := (map entry_ser).
Local Notation wtrace := (wtrace P).
Local Notation HW f := (f P HBS_lo HBS_hi HNB Hcrc) (only parsing).
Local Notation HG f := (f P HBS_lo HBS_hi HNB Hcrc HGC) (only parsing).
Local Notation HN f := (f P HBS_lo HBS_hi HNB) (only parsing).
Local Notation H3 f := (f P HBS_lo HBS_hi Hcrc) (only parsing).
Local Notation wabs := (wabs P).
Local Notation Inv := (Inv P).
Local Notation PInv := (PInv P).
Local Notation stream_bound := (stream_bound P).
Local Notation stN st h m := (fst (run P st (firstn m h))).
Local Notation ccur w G := ((wlo w - gh_base G) * FB + wpos P w).
Local Notation Sg w G := (gh_T P G ++ zerosN (ccur w G - lenN (gh_T P G))).
Local Notation IShape := (IShape P).

Section Global.
Variables (st0 : state) (G0 : ghost) (H : list (op * bool)).
Hypothesis HI0 : Inv st0 G0.

Local Notation w0 := (s_wr st0).
Local Notation base0 := (gh_base G0).
Local Notation c0 := (ccur w0 G0).
Local Notation S0 := (Sg w0 G0).
Local Notation NA := (NA P st0 G0).
Local Notation GH := (GH P st0 G0).

Definition ShapeJ (img : fsT) (j : N) : Prop :=
  exists lo' hi short z (g : nat),
    IShape base0 S0 (NA H) img lo' hi short z j /\
    (g <= length H)%nat /\ lenN (NA (firstn g H)) <= j /\
    lo' <= wlo (s_wr (stN st0 H g)) /\ wlo w0 <= lo'.

Lemma seg_image_j : forall h h_pre hg st_g G_g st_i G_i D_i M,
  H = hg ++ h_pre ++ h -> GH hg st_g G_g ->
  fst (run P st_g h_pre) = st_i ->
  hist_wf P st_g (h_pre ++ h) ->
  stream_bound G_g (map snd (run_log P st_g (h_pre ++ h))) ->
  Inv st_i G_i -> stream_bound G_i (map snd (run_log P st_i h)) ->
  gh_ALL G_i = gh_ALL G_g ++ map snd (run_log P st_g h_pre) -> gh_base G_i = gh_base G_g ->
  M = wpos P (s_wr st_g) +
      lenN (encs_of (wpos P (s_wr st_g)) (sr (map snd (run_log P st_g (h_pre ++ h))))) ->
  ATI P st_g M (s_wr st_i) D_i ->
  D_i = encs_of (wpos P (s_wr st_g)) (sr (map snd (run_log P st_g h_pre))) ->
  forall evs, c_ev (w_ctx (s_wr (fst (run P st_i h)))) = rev evs ++ c_ev (w_ctx (s_wr st_i)) ->
  forall pt, cpre pt evs ->
  ShapeJ (fold_left apply_event pt (c_fs (w_ctx (s_wr st_i))))
         (lenN (NA hg) + (lenN D_i - lenN (w_pending (s_wr st_i))) + lenN (ev_data pt)).
Proof.
  induction h as [|[o t] h IH];
    intros h_pre hg st_g G_g st_i G_i D_i M EH HGH Hrun Hwf Hbg HIi Hbi EGi Ebi EM Ht ED evs Hev pt Hc.
  - (* the crash is at st_i *)
    cbn [run fst] in Hev. apply app_self_nil in Hev.
    assert (evs = []) by (apply rev_inj; exact Hev). subst evs.
    apply cpre_nil_inv in Hc. subst pt. cbn [fold_left]. rewrite app_nil_r in *.
    pose proof HGH as (Erg & HIg & Hpg & Ebg & ESg & Hlog).
    destruct (tinv_facts _ _ _ _ _ _ _ _ _ _ _ Ht) as (Hwi & _ & (E & _ & HevE & _)).
    destruct (HW TI_trace _ _ _ _ _ _ _ _ _ _ _ Ht HevE) as (Dos & Htr & HD & Hos & Hoff & Hfs).
    pose proof (wtrace_snoc_write P _ _ _ _ _ _ (w_pending (s_wr st_i)) Htr ltac:(lia)) as Htr'.
    rewrite Hos, <- HD in Htr'.
    pose proof Hwi as (_ & _ & _ & _ & Hu & _).
    destruct (seg_shape_plain P HBS_lo HBS_hi HNB Hcrc base0 S0 (NA hg) [] st_g G_g D_i _ _ _ [] E
                HIg Hpg Ebg ESg Htr' (Forall_nil _) Hu) as (hi & short & z & HS & _).
    { rewrite app_nil_r. apply cpre_app_l, cpre_refl. }
    assert (Ej : lenN (NA hg) + (lenN D_i - lenN (w_pending (s_wr st_i))) + lenN (ev_data (@nil event)) =
                 lenN (NA hg) + lenN (ev_data E)).
    { rewrite (wtrace_data P _ _ _ _ _ _ Htr), HD, lenN_app. cbn [ev_data].
      rewrite (@lenN_nil byte). lia. }
    rewrite Ej, Hfs. exists (wlo (s_wr st_g)), hi, short, z, (length hg).
    split.
    { rewrite EH, (HW NA_app st0 G0 HI0 hg h_pre st_g G_g HGH), <- ED. rewrite app_nil_r in HS. exact HS. }
    split; [rewrite EH, app_length; lia|].
    rewrite EH, firstn_all_app, Erg. split; [lia|]. split; [lia|exact Hlog].
  - (* one more call *)
    pose proof HGH as (Erg & HIg & Hpg & Ebg & ESg & Hlog).
    pose proof Hwf as Hwf0. apply (hist_wf_app P) in Hwf0. destruct Hwf0 as (Hwf_pre & Hwf_i).
    rewrite Hrun in Hwf_i. cbn [hist_wf] in Hwf_i. destruct Hwf_i as (Hop & Hwf_h).
    cbn [run_log] in Hbi. rewrite map_app in Hbi.
    assert (Hb1 : stream_bound G_i (map snd (step_log P st_i o))).
    { eapply (HW stream_bound_prefix); eassumption. }
    pose proof (HG step_no_io st_i G_i o t HIi Hop Hb1) as Hno.
    destruct (ev_split P st_i o t h evs Hev) as (evs1 & evs2 & Eevs & Hev1 & Hev2).
    destruct (step P st_i o t) as [st' out] eqn:Es. cbn [fst snd] in *.
    destruct (HG inv_step st_i G_i o t st' out HIi Hop Hb1 Es Hno) as (G' & HI' & Eb' & Ed' & El').
    assert (Hb2 : stream_bound G' (map snd (run_log P st' h))).
    { unfold RestartWrite.stream_bound in *. rewrite Eb'.
      unfold gh_ALL in *. rewrite Ed', El'.
      replace ((gh_dropped G_i ++ map snd (gh_log G_i ++ step_log P st_i o)) ++ map snd (run_log P st' h))
        with ((gh_dropped G_i ++ map snd (gh_log G_i)) ++
              map snd (step_log P st_i o) ++ map snd (run_log P st' h)); [exact Hbi|].
      rewrite map_app, !app_assoc. reflexivity. }
    set (hx := h_pre ++ [(o, t)]).
    assert (Er' : fst (run P st_g hx) = st').
    { unfold hx. rewrite (run_app_fst P), Hrun, run_cons_fst, Es. reflexivity. }
    assert (Eapp : hx ++ h = h_pre ++ (o, t) :: h)
      by (unfold hx; rewrite <- app_assoc; reflexivity).
    set (cur0 := wpos P (s_wr st_g)) in *.
    set (NEW1 := encs_of (cur0 + lenN D_i) (sr (map snd (step_log P st_i o)))).
    set (D' := D_i ++ NEW1).
    assert (Elog1 : run_log P st_g hx = run_log P st_g h_pre ++ step_log P st_i o).
    { unfold hx. rewrite (run_log_app P), Hrun. cbn [run_log]. now rewrite app_nil_r. }
    assert (ED' : D' = encs_of cur0 (sr (map snd (run_log P st_g hx)))).
    { unfold D', NEW1. rewrite Elog1, !map_app, (H3 encs_of_app), <- ED. reflexivity. }
    assert (HM : cur0 + lenN D_i + lenN NEW1 <= M).
    { rewrite EM, <- Eapp, (run_log_app P), Er', !map_app, (H3 encs_of_app), <- ED', lenN_app.
      unfold D'. rewrite lenN_app. lia. }
    assert (EG' : gh_ALL G' = gh_ALL G_g ++ map snd (run_log P st_g hx)).
    { unfold gh_ALL at 1. rewrite Ed', El', map_app, app_assoc. fold (gh_ALL G_i).
      rewrite EGi, Elog1, map_app, app_assoc. reflexivity. }
    assert (Ebg' : gh_base G' = gh_base G_g) by congruence.
    destruct (tinv_facts _ _ _ _ _ _ _ _ _ _ _ Ht) as (_ & Hloi & (E_i & _ & HevEi & _)).
    destruct (HW TI_trace _ _ _ _ _ _ _ _ _ _ _ Ht HevEi) as (Dos_i & Htri & HDi & Hosi & Hoffi & Hfsi).
    destruct (call_kinds P HBS_lo HBS_hi HNB Hcrc HGC _ _ _ _ _ _ _ _ st_i D_i o t st' out E_i evs1
                Ht HM Es Hno HevEi Hev1) as (Habs' & Hfs1 & Hk).
    fold NEW1 in Habs', Hk. fold D' in Hk.
    pose proof HI' as (((_ & _ & _ & _ & Hu' & _) & _) & _).
    (* the bytes in the events from the anchor to st_i *)
    assert (EdE : ev_data E_i = Dos_i) by exact (wtrace_data P _ _ _ _ _ _ Htri).
    assert (ElD : lenN D_i - lenN (w_pending (s_wr st_i)) = lenN Dos_i) by (rewrite HDi, lenN_app; lia).
    rewrite ElD.
    (* the bytes of the whole history, split at the anchor and at the end of this call *)
    assert (EHx : H = (hg ++ hx) ++ h) by (rewrite EH, <- app_assoc, Eapp; reflexivity).
    assert (ENA : NA (hg ++ hx) = NA hg ++ D').
    { rewrite (HW NA_app st0 G0 HI0 hg hx st_g G_g HGH). fold cur0. now rewrite <- ED'. }
    assert (ENH : exists rest, NA H = NA hg ++ D' ++ rest).
    { exists (encs_of (c0 + lenN (NA (hg ++ hx))) (sr (map snd (run_log P (fst (run P st0 (hg ++ hx))) h)))).
      rewrite EHx at 1. unfold PersistImage.NA at 1. rewrite (run_log_app P), map_app, map_app, (H3 encs_of_app).
      fold (NA (hg ++ hx)). rewrite ENA, <- app_assoc. reflexivity. }
    destruct ENH as (rest & ENH).
    (* a crash while the data of the segment (up to this call) is written *)
    assert (Hplain : forall wevs tail pe f1 off1,
              wtrace (w_file (s_wr st_g)) (w_off (s_wr st_g)) wevs D' f1 off1 -> Forall noop_ev tail ->
              f1 <= U64_MAX -> cpre pe (wevs ++ tail) ->
              exists hi short z,
                IShape base0 S0 (NA H) (fold_left apply_event pe (c_fs (w_ctx (s_wr st_g))))
                       (wlo (s_wr st_g)) hi short z (lenN (NA hg) + lenN (ev_data pe)) /\
                (cpre pe wevs \/ (hi = f1 /\ short = false))).
    { intros wevs tail pe f1 off1 Hw Htl Hf1 Hpe. rewrite ENH.
      exact (seg_shape_plain P HBS_lo HBS_hi HNB Hcrc base0 S0 (NA hg) rest st_g G_g D' f1 off1 wevs tail pe
               HIg Hpg Ebg ESg Hw Htl Hf1 Hpe). }
    assert (Hpack : forall img hi short z j,
              IShape base0 S0 (NA H) img (wlo (s_wr st_g)) hi short z (lenN (NA hg) + j) ->
              ShapeJ img (lenN (NA hg) + j)).
    { intros img hi short z j HS. exists (wlo (s_wr st_g)), hi, short, z, (length hg).
      split; [exact HS|]. split; [rewrite EH, app_length; lia|].
      rewrite EH, firstn_all_app, Erg. split; [lia|]. split; [lia|exact Hlog]. }
    (* continuations *)
    assert (ContN : ATI P st_g M (s_wr st') D' -> forall pt2, cpre pt2 evs2 ->
              ShapeJ (fold_left apply_event pt2 (c_fs (w_ctx (s_wr st'))))
                     (lenN (NA hg) + (lenN D' - lenN (w_pending (s_wr st'))) + lenN (ev_data pt2))).
    { intros Ht' pt2 Hc2.
      specialize (IH hx hg st_g G_g st' G' D' M).
      rewrite Eapp in IH. exact (IH EH HGH Er' Hwf Hbg HI' Hb2 EG' Ebg' EM Ht' ED' evs2 Hev2 pt2 Hc2). }
    assert (ContA : w_pending (s_wr st') = [] -> wlo (s_wr st_g) <= wlo (s_wr st') ->
              forall pt2, cpre pt2 evs2 ->
              ShapeJ (fold_left apply_event pt2 (c_fs (w_ctx (s_wr st'))))
                     (lenN (NA hg) + lenN D' + lenN (ev_data pt2))).
    { intros Hp' Hlo' pt2 Hc2.
      assert (HGH' : GH (hg ++ hx) st' G').
      { split; [rewrite (run_app_fst P), Erg; exact Er'|]. split; [exact HI'|]. split; [exact Hp'|].
        split; [congruence|]. split; [|lia].
        pose proof HIg as (HPg & _). pose proof HI' as (HP' & _).
        transitivity (Sg (s_wr st_g) G_g ++ D').
        2:{ rewrite ENA, app_assoc. f_equal. exact ESg. }
        apply (HW ghi_step (s_wr st_g) G_g (s_wr st') G' _ D' HPg HP' EG' Ebg' ED').
        destruct (HW TI_wabs _ _ _ _ _ _ _ _ _ _ Ht) as (Ha_i & _).
        destruct (HW TI_wabs _ _ _ _ _ _ _ _ _ _
                    (anchor_ATI P HBS_lo HBS_hi HNB Hcrc st_g G_g (h_pre ++ (o, t) :: h)
                       HIg Hpg Hbg)) as (Ha_g & _).
        rewrite (@lenN_nil byte), N.add_0_r in Ha_g.
        rewrite Habs', Ha_i, Ha_g. unfold D', NEW1. rewrite lenN_app. fold cur0. lia. }
      pose proof (IH [] (hg ++ hx) st' G' st' G' [] _ EHx HGH' eq_refl Hwf_h Hb2 HI' Hb2
               ltac:(cbn [run_log map]; now rewrite app_nil_r) eq_refl eq_refl
               (anchor_ATI P HBS_lo HBS_hi HNB Hcrc st' G' h HI' Hp' Hb2) eq_refl evs2 Hev2 pt2 Hc2) as R.
      rewrite ENA, lenN_app, Hp', (@lenN_nil byte), N.sub_0_r, N.add_0_r in R. exact R. }
    rewrite Eevs in Hc.
    destruct Hk as [(HNk & D1 & Hw1 & HD1)|[(Hp' & Hlo' & w1 & a & Eev1 & Hw1)|(Hp' & w1 & mg & tailf & Eev1 & Hw1 & Hmg & Htl & Hlo')]].
    + (* N *)
      destruct (cpre_app_inv _ _ _ Hc) as [Hc1|(pt2 & -> & Hc2)].
      2:{ rewrite fold_left_app, <- Hfs1.
          assert (Ej : lenN (NA hg) + lenN Dos_i + lenN (ev_data (evs1 ++ pt2)) =
                       lenN (NA hg) + (lenN D' - lenN (w_pending (s_wr st'))) + lenN (ev_data pt2)).
          { rewrite ev_data_app, lenN_app, (wtrace_data P _ _ _ _ _ _ Hw1).
            unfold D'. rewrite lenN_app, HDi, lenN_app.
            apply (f_equal (@lenN byte)) in HD1. rewrite !lenN_app in HD1.
            unfold NEW1, cur0. lia. }
          rewrite Ej. now apply ContN. }
      assert (HE' : c_ev (w_ctx (s_wr st')) = rev (E_i ++ evs1) ++ c_ev (w_ctx (s_wr st_g))).
      { rewrite Hev1, HevEi, rev_app_distr, app_assoc. reflexivity. }
      destruct (HW TI_trace _ _ _ _ _ _ _ _ _ _ _ HNk HE') as (Dos' & Htr' & HD2 & Hos' & Hoff' & _).
      pose proof (wtrace_snoc_write P _ _ _ _ _ _ (w_pending (s_wr st')) Htr' ltac:(lia)) as Htr2.
      rewrite Hos', <- HD2 in Htr2.
      destruct (Hplain _ [] (E_i ++ pt) _ _ Htr2 (Forall_nil _) Hu') as (hi & short & z & HS & _).
      { rewrite app_nil_r. apply cpre_app_l. now apply cpre_app_r. }
      rewrite Hfsi, <- fold_left_app.
      rewrite ev_data_app, lenN_app, EdE in HS. rewrite <- N.add_assoc.
      exact (Hpack _ _ _ _ _ HS).
    + (* P *)
      subst evs1.
      assert (Edw : ev_data (w1 ++ flush_group (w_file (s_wr st')) a) = w_pending (s_wr st_i) ++ NEW1).
      { rewrite ev_data_app, (wtrace_data P _ _ _ _ _ _ Hw1),
          (proj2 (noop_fold _ (flush_group_noop _ a))). apply app_nil_r. }
      destruct (cpre_app_inv _ _ _ Hc) as [Hc1|(pt2 & -> & Hc2)].
      2:{ rewrite fold_left_app, <- Hfs1.
          assert (Ej : lenN (NA hg) + lenN Dos_i +
                         lenN (ev_data ((w1 ++ flush_group (w_file (s_wr st')) a) ++ pt2)) =
                       lenN (NA hg) + lenN D' + lenN (ev_data pt2)).
          { rewrite ev_data_app, lenN_app, Edw. unfold D'. rewrite HDi, !lenN_app. lia. }
          rewrite Ej. apply ContA; [exact Hp'|lia|exact Hc2]. }
      pose proof (wtrace_app P _ _ _ _ _ _ _ _ _ _ Htri Hw1) as Htr2.
      assert (EDD : Dos_i ++ w_pending (s_wr st_i) ++ NEW1 = D').
      { unfold D'. rewrite HDi, <- app_assoc. reflexivity. }
      assert (Htr3 : wtrace (w_file (s_wr st_g)) (w_off (s_wr st_g)) (E_i ++ w1) D'
                            (w_file (s_wr st')) (w_off (s_wr st'))) by (rewrite <- EDD; exact Htr2).
      destruct (Hplain _ (flush_group (w_file (s_wr st')) a) (E_i ++ pt) _ _ Htr3
                  (flush_group_noop _ _) Hu') as (hi & short & z & HS & _).
      { rewrite <- app_assoc. now apply cpre_app_r. }
      rewrite Hfsi, <- fold_left_app.
      rewrite ev_data_app, lenN_app, EdE in HS. rewrite <- N.add_assoc.
      exact (Hpack _ _ _ _ _ HS).
    + (* G *)
      subst evs1.
      assert (Htlf : Forall noop_ev tailf).
      { destruct Htl as [->|(a & ->)]; [constructor|apply flush_group_noop]. }
      assert (Edw : ev_data (w1 ++ flush_group (w_file (s_wr st')) true ++
                             unlinks (wlo (s_wr st_g)) mg ++ tailf) = w_pending (s_wr st_i) ++ NEW1).
      { rewrite !ev_data_app, (wtrace_data P _ _ _ _ _ _ Hw1),
          (proj2 (noop_fold _ (flush_group_noop _ true))), unlinks_data, (proj2 (noop_fold _ Htlf)).
        apply app_nil_r. }
      destruct (cpre_app_inv _ _ _ Hc) as [Hc1|(pt2 & -> & Hc2)].
      2:{ rewrite fold_left_app, <- Hfs1.
          assert (Ej : lenN (NA hg) + lenN Dos_i +
                         lenN (ev_data ((w1 ++ flush_group (w_file (s_wr st')) true ++
                                          unlinks (wlo (s_wr st_g)) mg ++ tailf) ++ pt2)) =
                       lenN (NA hg) + lenN D' + lenN (ev_data pt2)).
          { rewrite ev_data_app, lenN_app, Edw. unfold D'. rewrite HDi, !lenN_app. lia. }
          rewrite Ej. apply ContA; [exact Hp'|lia|exact Hc2]. }
      pose proof (wtrace_app P _ _ _ _ _ _ _ _ _ _ Htri Hw1) as Htr2.
      assert (EDD : Dos_i ++ w_pending (s_wr st_i) ++ NEW1 = D').
      { unfold D'. rewrite HDi, <- app_assoc. reflexivity. }
      assert (Htr3 : wtrace (w_file (s_wr st_g)) (w_off (s_wr st_g)) (E_i ++ w1) D'
                            (w_file (s_wr st')) (w_off (s_wr st'))) by (rewrite <- EDD; exact Htr2).
      clear Htr2. rename Htr3 into Htr2.
      rewrite Hfsi, <- fold_left_app.
      assert (Ej0 : lenN (NA hg) + lenN Dos_i + lenN (ev_data pt) = lenN (NA hg) + lenN (ev_data (E_i ++ pt))).
      { rewrite ev_data_app, lenN_app, EdE. lia. }
      rewrite Ej0.
      assert (Hc1' : cpre (E_i ++ pt) ((E_i ++ w1) ++ flush_group (w_file (s_wr st')) true ++
                                       unlinks (wlo (s_wr st_g)) mg ++ tailf)).
      { rewrite <- app_assoc. now apply cpre_app_r. }
      destruct (cpre_app_inv _ _ _ Hc1') as [Hcw|(ptu & Eptu & Hcu)].
      * destruct (Hplain _ [] (E_i ++ pt) _ _ Htr2 (Forall_nil _) Hu') as (hi & short & z & HS & _).
        { rewrite app_nil_r. exact Hcw. }
        exact (Hpack _ _ _ _ _ HS).
      * assert (Hcu2 : exists a', cpre ptu (flush_group (w_file (s_wr st')) true ++
                                            unlinks (wlo (s_wr st_g)) mg ++
                                            flush_group (w_file (s_wr st')) a')).
        { destruct Htl as [->|(a & ->)]; [|now exists a].
          exists false. rewrite app_nil_r in Hcu. rewrite app_assoc. now apply cpre_app_l. }
        destruct Hcu2 as (a' & Hcu2).
        destruct (HN tail_prefix _ _ _ _ _ _ Hcu2) as (mu & Hmu & Hfoldu & Hdu).
        rewrite Eptu, ev_data_app, Hdu, app_nil_r, fold_left_app, Hfoldu.
        rewrite (wtrace_data P _ _ _ _ _ _ Htr2).
        destruct (Hplain _ [EvSyncDir] ((E_i ++ w1) ++ [EvSyncDir]) _ _ Htr2
                    ltac:(repeat constructor) Hu' (cpre_refl _)) as (hi & short & z & HS & Halt).
        destruct Halt as [Hbad|(-> & ->)].
        { exfalso. apply (HW cpre_length) in Hbad. rewrite app_length in Hbad. cbn [length] in Hbad. lia. }
        rewrite fold_left_app in HS. cbn [fold_left apply_event] in HS.
        rewrite ev_data_app in HS. cbn [ev_data] in HS. rewrite app_nil_r in HS.
        rewrite (wtrace_data P _ _ _ _ _ _ Htr2) in HS.
        pose proof HIg as ((_ & _ & _ & Hbg0 & _) & _). rewrite Ebg in Hbg0.
        pose proof (HW IShape_remove _ _ _ _ _ _ _ _ _ mu HS Hbg0 ltac:(lia)) as HS2.
        exists (wlo (s_wr st_g) + N.of_nat mu), (w_file (s_wr st')), false, z, (length (hg ++ hx)).
        split; [exact HS2|].
        split; [rewrite EHx, !app_length; lia|].
        rewrite EHx, firstn_all_app, ENA, lenN_app.
        split; [lia|].
        rewrite (run_app_fst P), Erg, Er'. split; [lia|lia].
Qed.
End Global.

(* every process-crash image, with j explicit: the number of bytes of the surviving events *)
Theorem C03_image_shape_j st0 G0 H evs :
  Inv st0 G0 -> w_pending (s_wr st0) = [] ->
  hist_wf P st0 H -> stream_bound G0 (map snd (run_log P st0 H)) ->
  c_ev (w_ctx (s_wr (fst (run P st0 H)))) = rev evs ++ c_ev (w_ctx (s_wr st0)) ->
  forall pt, cpre pt evs ->
  let w0 := s_wr st0 in
  let img := fold_left apply_event pt (c_fs (w_ctx w0)) in
  let base := gh_base G0 in
  let T0 := gh_T P G0 in
  let c0 := (wlo w0 - base) * FB + wpos P w0 in
  let NEW := fun hh => encs_of c0 (sr (map snd (run_log P st0 hh))) in
  let j := lenN (ev_data pt) in
  exists (lo' hi : N) (short : bool) (z : N) (g : nat),
    wlo w0 <= lo' /\ lo' <= hi /\ hi <= U64_MAX /\
    nodup_keys img /\ dir_of img (nfiles lo' hi) /\ list_wal_numbers img = nfiles lo' hi /\
    (forall n, lo' <= n <= hi ->
       exists b, fs_get img (filename n) = Some (FFile b) /\
                 lenN b = if short && (n =? hi) then 0 else FB) /\
    j <= lenN (NEW H) /\
    stream_of (zext P img hi) (nfiles lo' hi) =
      dropN ((lo' - base) * FB) (T0 ++ zerosN (c0 - lenN T0) ++ takeN j (NEW H) ++ zerosN z) /\
    c0 + j + z = (hi + 1 - base) * FB /\
    (g <= length H)%nat /\ lenN (NEW (firstn g H)) <= j /\
    lo' <= wlo (s_wr (stN st0 H g)).
Proof.
  intros HI0 Hp0 Hwf Hb Hevs pt Hc w0 img base T0 c0 NEW j. subst w0 img base T0 c0 NEW j.
  assert (HGH : GH P st0 G0 [] st0 G0).
  { split; [reflexivity|]. split; [exact HI0|]. split; [exact Hp0|]. split; [reflexivity|].
    split; [|lia]. unfold NA. cbn [run_log map ResyncProofs.encs_of]. now rewrite app_nil_r. }
  destruct (seg_image_j st0 G0 H HI0 H [] [] st0 G0 st0 G0 [] _ eq_refl HGH eq_refl Hwf Hb HI0 Hb
              ltac:(cbn [run_log map]; now rewrite app_nil_r) eq_refl eq_refl
              (anchor_ATI P HBS_lo HBS_hi HNB Hcrc st0 G0 H HI0 Hp0 Hb) eq_refl evs Hevs pt Hc)
    as (lo' & hi & short & z & g & HS & Hg & Hj & Hlo & Hlo0).
  assert (E0 : lenN (NA P st0 G0 []) + (lenN (@nil byte) - lenN (w_pending (s_wr st0))) +
               lenN (ev_data pt) = lenN (ev_data pt)).
  { unfold NA. cbn [run_log map ResyncProofs.encs_of]. rewrite (@lenN_nil byte). lia. }
  rewrite E0 in *.
  destruct HS as (H1 & H2 & H3' & H4 & H5 & H6 & H7 & H8 & H9).
  destruct HI0 as (HP0 & _). rewrite (HN lenN_Sg _ _ HP0) in H9.
  exists lo', hi, short, z, g.
  repeat (split; [assumption|]).
  split; [rewrite H8, <- app_assoc; reflexivity|].
  repeat (split; [assumption|]). exact Hlo.
Qed.
End ImageJ.

(* ====================================================================== *)
(* Part 2. histories                                                        *)
(* ====================================================================== *)
Section Main.
Variable P : params.
Hypothesis HBS_lo : 7 < BS P.
Hypothesis HBS_hi : BS P <= 65542.
Hypothesis HNB : 1 <= NB P.
Hypothesis Hcrc : forall t p, crcf P t p < 2 ^ 32.
Hypothesis HGC : L_GC P = false.
Hypothesis HIO : L_IO P = false.
Hypothesis HSHORT : L_SHORT P = false.
Hypothesis Hnc : no_zero_collision P.

Local Notation B := (BS P).
Local Notation FB := (FILE_BYTES P).
Local Notation encs_of := (encs_of P).
Local Notation sr := (map entry_ser).
Local Notation HW f := (f P HBS_lo HBS_hi HNB Hcrc) (only parsing).
Local Notation HG f := (f P HBS_lo HBS_hi HNB Hcrc HGC) (only parsing).
Local Notation HN f := (f P HBS_lo HBS_hi HNB) (only parsing).
Local Notation HA f := (f P HBS_lo HBS_hi HNB Hcrc HGC HIO HSHORT Hnc) (only parsing).
Local Notation Inv := (Inv P).
Local Notation stream_bound := (stream_bound P).
Local Notation absq st := (abs_qs (s_qs st)).
Local Notation stN st h m := (fst (run P st (firstn m h))).
Local Notation wabs := (wabs P).
Local Notation CB := (CB P).

(* ---------- the traces of the log have the discipline ---------- *)
Lemma wtrace_disc f off wevs D f' off' :
  wtrace P f off wevs D f' off' -> forall d rest, disc f' true rest -> disc f d (wevs ++ rest).
Proof.
  induction 1 as [f off|f off dd evs D f' off' _ _ IH|f evs D f' off' _ IH]; intros d rest Hr.
  - cbn [app]. now apply disc_any.
  - cbn [app disc]. split; [reflexivity|]. now apply IH.
  - unfold roll_group. cbn [app disc]. split; [reflexivity|]. split; [reflexivity|].
    split; [reflexivity|]. now apply IH.
Qed.

Lemma flush_group_disc f a d rest : disc f false rest -> (a = false -> disc f d rest) ->
  disc f d (flush_group f a ++ rest).
Proof.
  intros H1 H2. unfold flush_group. destruct a; cbn [app disc].
  - split; [reflexivity|exact H1].
  - now apply H2.
Qed.

Lemma unlinks_disc f rest m : forall lo, disc f false rest -> disc f false (unlinks lo m ++ rest).
Proof.
  unfold unlinks. induction m as [|m IH]; intros lo Hr; cbn [iota map app disc]; [exact Hr|].
  split; [reflexivity|]. now apply IH.
Qed.

Lemma btrace_disc lo f off evs D lo' f' off' :
  btrace P lo f off evs D lo' f' off' -> disc f true evs.
Proof.
  induction 1 as [lo f off wevs D f' off' Hw
                 |lo f off wevs D1 f1 off1 a rest D2 lo' f' off' Hw _ IH
                 |lo f off wevs D1 f1 off1 m tailf rest D2 lo' f' off' Hw _ Ht _ IH].
  - rewrite <- (app_nil_r wevs). apply (wtrace_disc _ _ _ _ _ _ Hw). exact I.
  - apply (wtrace_disc _ _ _ _ _ _ Hw). apply flush_group_disc; [now apply disc_mono|now intros _].
  - apply (wtrace_disc _ _ _ _ _ _ Hw). apply flush_group_disc; [|discriminate].
    apply unlinks_disc.
    assert (Hrest : disc f1 false rest) by now apply disc_mono.
    destruct Ht as [->|(a & ->)]; [exact Hrest|].
    apply flush_group_disc; [exact Hrest|now intros _].
Qed.

Section Setting.
(* a persist point: the restart invariant holds and nothing is buffered.  (For the image to be
   the directory after a REAL power loss, everything written before st0 must also have been
   synced - a POWER persist point: see C03_power_loss_total below; relative to the directory fs0
   that the OS holds at st0 this plays no role.) *)
Variables (st0 : state) (G0 : ghost).
Hypothesis HI0 : Inv st0 G0.
Hypothesis Hp0 : w_pending (s_wr st0) = [].
(* any further history, under any policy *)
Variable h : list (op * bool).
Hypothesis Hwf : hist_wf P st0 h.
Hypothesis Hb : stream_bound G0 (map snd (run_log P st0 h)).
(* the events it adds *)
Variable evs : list event.
Hypothesis Hevs : c_ev (w_ctx (s_wr (fst (run P st0 h)))) = rev evs ++ c_ev (w_ctx (s_wr st0)).

Local Notation fs0 := (c_fs (w_ctx (s_wr st0))).

Lemma history_disc : disc (w_file (s_wr st0)) true evs.
Proof.
  destruct (HG C03_trace_shape st0 G0 h evs HI0 Hp0 Hwf Hb Hevs) as (Dos & Hbt & _).
  exact (btrace_disc _ _ _ _ _ _ _ _ Hbt).
Qed.

(* ---------- (1) the shape of power-loss images ---------- *)
(* the image of a power loss at cut c is the process-crash image at a cut c' <= c between two
   events; between c' and c nothing was created, sized, unlinked or synced (so every file that an
   unlink before c removed is removed, every roll-over before c has happened, and all the bytes
   written before any of these events or before any sync_data are in the image); the data that
   survives is the byte prefix of length j of what the history writes *)
Theorem C03_power_image_is_crash_image : forall cut,
  let NEWALL := encs_of (wabs (s_wr st0)) (sr (map snd (run_log P st0 h))) in
  let j := lenN (ev_data (power_events evs cut)) in
  exists cut', cut' <= cut /\
    fold_left apply_event (power_events evs cut) fs0 =
      fold_left apply_event (crash_events evs cut' 0) fs0 /\
    Forall (fun e => ~ meta_ev e) (dropN cut' (takeN cut evs)) /\
    ev_data (power_events evs cut) = takeN j NEWALL /\ j <= lenN NEWALL /\
    j = lenN (ev_data (takeN cut' evs)).
Proof.
  intros cut NEWALL j. subst NEWALL j.
  destruct (power_is_crash evs _ _ cut history_disc) as (cut' & Hc & I1 & I2 & I3).
  exists cut'. split; [exact Hc|]. split; [apply I1|]. split; [exact I3|].
  destruct (HG C03_trace_shape st0 G0 h evs HI0 Hp0 Hwf Hb Hevs) as (Dos & _ & HD & Hed).
  cbn zeta in HD. rewrite <- HD, I2.
  destruct (cpre_data_take _ _ (crash_events_cpre evs cut' 0)) as (E1 & E2).
  rewrite Hed in E1, E2. rewrite crash_events_k0 in *.
  split; [rewrite takeN_app_le by exact E2; exact E1|]. split; [rewrite lenN_app; lia|reflexivity].
Qed.

(* hence a power-loss image has the image description of a process-crash image
   (PersistImage.C03_image_shape), with j = the (smaller) number of bytes that were synced in
   time: the bytes of the write events that the power filter keeps *)
Theorem C03_power_image_shape : forall cut,
  let w0 := s_wr st0 in
  let img := fold_left apply_event (power_events evs cut) (c_fs (w_ctx w0)) in
  let base := gh_base G0 in
  let T0 := gh_T P G0 in
  let c0 := (wlo w0 - base) * FB + wpos P w0 in
  let NEW := fun hh => encs_of c0 (sr (map snd (run_log P st0 hh))) in
  let j := lenN (ev_data (power_events evs cut)) in
  exists (lo' hi : N) (short : bool) (z : N) (g : nat),
    (* the file set: contiguous, only the last file possibly still empty *)
    wlo w0 <= lo' /\ lo' <= hi /\ hi <= U64_MAX /\
    nodup_keys img /\ dir_of img (nfiles lo' hi) /\ list_wal_numbers img = nfiles lo' hi /\
    (forall n, lo' <= n <= hi ->
       exists b, fs_get img (filename n) = Some (FFile b) /\
                 lenN b = if short && (n =? hi) then 0 else FB) /\
    (* the stream: the old stream + a byte prefix of what the history writes + zeros *)
    j <= lenN (NEW h) /\
    stream_of (zext P img hi) (nfiles lo' hi) =
      dropN ((lo' - base) * FB) (T0 ++ zerosN (c0 - lenN T0) ++ takeN j (NEW h) ++ zerosN z) /\
    c0 + j + z = (hi + 1 - base) * FB /\
    (* unlinks come after flush + sync: all the bytes of the calls 1..g are in the image, and no
       file is missing that the live log still had after call g *)
    (g <= length h)%nat /\ lenN (NEW (firstn g h)) <= j /\
    lo' <= wlo (s_wr (stN st0 h g)).
Proof.
  intros cut. destruct (C03_power_image_is_crash_image cut) as (cut' & _ & E & _ & _ & _ & Ej).
  cbn zeta in Ej. rewrite crash_events_k0 in E.
  assert (Hc : cpre (takeN cut' evs) evs) by (rewrite <- crash_events_k0; apply crash_events_cpre).
  pose proof (HG C03_image_shape_j st0 G0 h evs HI0 Hp0 Hwf Hb Hevs _ Hc) as HS.
  cbn zeta in *. rewrite <- E, <- Ej in HS. exact HS.
Qed.

(* ---------- (2) every power-loss image is recovered ---------- *)
Hypothesis Hcb : CB st0 h.

Theorem C03_power_loss : forall cut pol hint,
  exists m st_r, (m <= length h)%nat /\
    open P (fold_left apply_event (power_events evs cut) fs0) None pol hint = OpenOk st_r /\
    forall q, s_get (absq st_r) q = s_get (absq (fst (run P st0 (firstn m h)))) q.
Proof.
  intros cut pol hint. destruct (C03_power_image_is_crash_image cut) as (cut' & _ & E & _).
  rewrite E. exact (HA C03_process_crash st0 G0 HI0 Hp0 h Hwf Hb Hcb evs Hevs cut' 0 pol hint).
Qed.

(* the same with the image built as the drivers do (CPower): the power filter applied to the
   WHOLE chronological trace, replayed over the seed directory.  Everything before st0 survives
   because st0 is a POWER persist point: everything written before it has been synced. *)
Theorem C03_power_loss_total (seeds : fsT) :
  wr_all_synced (s_wr st0) ->
  fs0 = replay_events seeds (chrono (w_ctx (s_wr st0))) ->
  forall cut pol hint, lenN (chrono (w_ctx (s_wr st0))) <= cut ->
  exists m st_r, (m <= length h)%nat /\
    open P (replay_events seeds (power_events (chrono (w_ctx (s_wr (fst (run P st0 h))))) cut))
         None pol hint = OpenOk st_r /\
    forall q, s_get (absq st_r) q = s_get (absq (fst (run P st0 (firstn m h)))) q.
Proof.
  intros Hall Hfs cut pol hint Hcut. unfold chrono in *. rewrite Hevs, rev_app_distr, rev_involutive.
  rewrite power_events_app_ge by assumption. unfold replay_events in *.
  rewrite fold_left_app, <- Hfs. apply C03_power_loss.
Qed.

End Setting.

(* ---------- (3) once fsynced, never undone by a power loss ---------- *)
(* the events a fully synced call boundary has added since st0 are fully synced *)
Lemma boundary_synced st0 st_i evs_i :
  c_ev (w_ctx (s_wr st_i)) = rev evs_i ++ c_ev (w_ctx (s_wr st0)) ->
  wr_all_synced (s_wr st_i) -> all_synced evs_i.
Proof.
  unfold wr_all_synced, chrono. intros -> H. rewrite rev_app_distr, rev_involutive in H.
  exact (all_synced_app_r _ _ H).
Qed.

Theorem C03_fsynced_survives_power_loss st0 G0 h evs i evs_i :
  Inv st0 G0 -> w_pending (s_wr st0) = [] ->
  hist_wf P st0 h -> stream_bound G0 (map snd (run_log P st0 h)) -> CB st0 h ->
  c_ev (w_ctx (s_wr (fst (run P st0 h)))) = rev evs ++ c_ev (w_ctx (s_wr st0)) ->
  (i <= length h)%nat ->
  let st_i := fst (run P st0 (firstn i h)) in
  (* call number i is itself a POWER persist point: it leaves nothing buffered and everything
     written so far synced (PersistProofs.durable) *)
  w_pending (s_wr st_i) = [] -> wr_all_synced (s_wr st_i) ->
  (* the events up to the end of call i *)
  c_ev (w_ctx (s_wr st_i)) = rev evs_i ++ c_ev (w_ctx (s_wr st0)) ->
  (* the power fails after call i returned *)
  forall cut pol hint, lenN evs_i <= cut ->
  exists m st_r, (i <= m)%nat /\ (m <= length h)%nat /\
    open P (fold_left apply_event (power_events evs cut) (c_fs (w_ctx (s_wr st0)))) None pol hint
      = OpenOk st_r /\
    forall q, s_get (absq st_r) q = s_get (absq (fst (run P st0 (firstn m h)))) q.
Proof.
  intros HI0 Hp0 Hwf Hb Hcb Hevs Hi st_i Hpi Hsi Hevi cut pol hint Hcut.
  pose proof (boundary_synced _ _ _ Hevi Hsi) as Hall.
  pose proof (firstn_skipn i h) as Eh.
  set (h1 := firstn i h) in *. set (h2 := skipn i h) in *.
  assert (Hl1 : length h1 = i) by (unfold h1; rewrite firstn_length; lia).
  rewrite <- Eh in Hwf, Hb, Hcb, Hevs.
  apply (hist_wf_app P) in Hwf. destruct Hwf as (Hwf1 & Hwf2). fold st_i in Hwf2.
  pose proof (stream_bound_app P HBS_lo HBS_hi HNB Hcrc _ _ _ _ Hb) as Hb1.
  destruct (HG run_inv h1 st0 G0 HI0 Hwf1 Hb1) as (G_i & HI_i & Eb & Ed & El). fold st_i in HI_i.
  assert (Hb2 : stream_bound G_i (map snd (run_log P st_i h2))).
  { unfold RestartWrite.stream_bound in *. rewrite Eb. unfold gh_ALL in *. rewrite Ed, El.
    rewrite (run_log_app P) in Hb. fold st_i in Hb.
    replace ((gh_dropped G0 ++ map snd (gh_log G0 ++ run_log P st0 h1)) ++ map snd (run_log P st_i h2))
      with ((gh_dropped G0 ++ map snd (gh_log G0)) ++ map snd (run_log P st0 h1 ++ run_log P st_i h2));
      [exact Hb|].
    rewrite !map_app, !app_assoc. reflexivity. }
  pose proof (HN CB_suffix _ _ _ Hcb) as Hcb2. fold st_i in Hcb2.
  rewrite (run_app_fst P) in Hevs. fold st_i in Hevs.
  destruct (run_events P st_i h2) as (evs2 & Hev2).
  assert (Eevs : evs = evs_i ++ evs2).
  { rewrite Hev2, Hevi, app_assoc in Hevs. apply app_inv_tail in Hevs.
    apply rev_inj. rewrite rev_app_distr. now symmetry. }
  pose proof (HA C03_directory_is_replay st0 G0 HI0 Hp0 h1 Hwf1 Hb1 (HN CB_prefix _ _ _ Hcb) evs_i Hevi)
    as Hfs_i.
  fold st_i in Hfs_i.
  destruct (C03_power_loss st_i G_i HI_i Hpi h2 Hwf2 Hb2 evs2 Hev2 Hcb2 (cut - lenN evs_i) pol hint)
    as (m & st_r & Hm & Ho & Hq).
  exists (i + m)%nat, st_r. split; [lia|].
  split; [rewrite <- Eh, app_length, Hl1; lia|].
  split.
  - rewrite Eevs, power_events_app_ge by assumption. rewrite fold_left_app, <- Hfs_i. exact Ho.
  - intros q. rewrite Hq, <- Eh, <- Hl1, (HN stN_app_ge). reflexivity.
Qed.

End Main.

Print Assumptions power_is_crash.
Print Assumptions C03_image_shape_j.
Print Assumptions C03_power_image_is_crash_image.
Print Assumptions C03_power_image_shape.
Print Assumptions C03_power_loss.
Print Assumptions C03_power_loss_total.
Print Assumptions C03_fsynced_survives_power_loss.
