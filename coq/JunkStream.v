(* JunkStream.v — TASK T14: reading a WAL stream that contains junk (stream level, block reader
   vecr of Driver.v).

   The stream is  PRE ++ post  where PRE is built from
     - clean framed encodings (encs_rel),
     - junk segments (junk_at: a reader positioned at their start walks over them without
       delivering a record, reporting at most one corruption, and then reads at their end r).
   pre_cont PRE ops opos adm cmax rm  says, in continuation form, what a reader started at an
   admissible block boundary inside PRE delivers before it arrives at the end of PRE.
   Constructors: pre_cont_nil, pre_cont_clean (append a clean encoding), pre_cont_junk
   (append a junk segment).  Closed form: pre_reads (PRE followed by a clean encoding and
   zeros), the premise needed by `open` (JReopen.v). *)
From Coq Require Import Lia ZArith ZifyN ZifyNat ZifyBool List Sorted.
From MRL Require Import Bytes BytesProofs Params Frame Driver StreamProofs DamageProofs TornProofs
  ResyncProofs OpenTerm OpenReplay TornFile.

Arguments N.add : simpl never.
Arguments N.sub : simpl never.
Arguments N.mul : simpl never.
Arguments N.eqb : simpl never.
Arguments N.ltb : simpl never.
Arguments N.leb : simpl never.
Arguments N.div : simpl never.
Arguments N.modulo : simpl never.
Arguments N.min : simpl never.
Arguments N.max : simpl never.

Lemma combine_app' {A C} (l1 : list A) : forall (l1' : list C) l2 l2',
  length l1 = length l1' -> combine (l1 ++ l2) (l1' ++ l2') = combine l1 l1' ++ combine l2 l2'.
Proof.
  induction l1 as [|x l1 IH]; intros [|y l1'] l2 l2' H; cbn [length] in H; try discriminate;
    cbn [app combine]; [reflexivity|]. f_equal. apply IH. lia.
Qed.

Section JunkStream.
Variable P : params.
Hypothesis HBS_lo : 7 < BS P.
Hypothesis HBS_hi : BS P <= 65542.
Hypothesis Hcrc : forall t p, crcf P t p < 2 ^ 32.

Local Notation B := (BS P).
Local Notation rframe := (read_frame P vecr (vr_next P) vr_block).
Local Notation gonext := (go_next P vecr (vr_next P) vr_block).
Local Notation padof := (pad_of P).
Local Notation encrel := (enc_rel P).
Local Notation encsrel := (encs_rel P).
Local Notation rdat := (rd_at P).
Local Notation atpos := (at_pos P).
Local Notation atposn := (at_posn P).
Local Notation readsat := (reads_at P).
Local Notation sok := (stream_ok P).
Local Notation ffp := (first_frame_pos P).
Local Notation starts := (starts P).
Local Notation delivered_from := (delivered_from P).
Local Notation skipped_before := (skipped_before P).
Local Notation cursor_after := (cursor_after P).
Local Notation bpos := (bpos P).
Local Notation tr_ok := (tr_ok P).
Local Notation readsC := (reads_trc P (vr_next P) vr_block).
Local Notation H3 f := (f P HBS_lo HBS_hi Hcrc) (only parsing).
Local Notation H2 f := (f P HBS_lo HBS_hi) (only parsing).

(* ====================================================================== *)
(* 0. small facts                                                         *)
(* ====================================================================== *)

(* a reader positioned anywhere strictly inside the stream *)
Lemma at_pos_in S a : sok S -> a < lenN S -> atpos S (rdat S (a / B) (a mod B)) a.
Proof.
  intros [m Hm] Ha. pose proof (N.div_mod a B ltac:(lia)) as Hdm.
  pose proof (N.mod_lt a B ltac:(lia)) as Hlt.
  exists (a / B), (a mod B). repeat split; try lia.
  rewrite Hm in *. apply (H2 TornProofs.blocks_above m (a / B) (a mod B + 1)); lia.
Qed.

(* a reader at a block boundary between the cursor a and the first-frame position of a reads
   like a reader at a *)
Lemma boundary_reads_like S a kb buf w g :
  sok S -> a <= kb * B -> kb * B <= ffp a -> (kb + 1) * B <= lenN S ->
  exists fr_a, atpos S fr_a a /\
    gonext (Datatypes.S g) (mkRR (rdat S kb 0) buf w) = gonext (Datatypes.S g) (mkRR fr_a buf w).
Proof.
  intros Hok H1 H2' Hblk.
  assert (Hb : kb * B = ffp a) by (apply (H2 boundary_is_ffp); assumption).
  assert (Ha : a < lenN S) by lia.
  exists (rdat S (a / B) (a mod B)). split; [apply at_pos_in; assumption|].
  apply (TornProofs.gonext_cong P). symmetry.
  apply (H3 TornProofs.at_pos_pad S _ a kb 0 Hok (at_pos_in S a Hok Ha));
    [unfold first_frame_pos in Hb; lia | lia | exact Hblk].
Qed.

(* fuel monotonicity of traces *)
Lemma readsC_mono g1 rr l c rrf :
  readsC g1 rr l c rrf -> forall g2, (g1 <= g2)%nat -> readsC g2 rr l c rrf.
Proof.
  induction 1 as [rr rr' Hgo | rr rr' l c rrf Hgo Htr IH | rr rr' l c rrf Hgo Htr IH]; intros g2 Hle.
  - apply RC_end. apply (go_next_mono P vecr _ _ _ _ _ _ _ Hgo); [discriminate|exact Hle].
  - eapply RC_rec; [|apply IH; exact Hle].
    apply (go_next_mono P vecr _ _ _ _ _ _ _ Hgo); [discriminate|exact Hle].
  - eapply RC_cor; [|apply IH; exact Hle].
    apply (go_next_mono P vecr _ _ _ _ _ _ _ Hgo); [discriminate|exact Hle].
Qed.

(* the position of the block of a reader that reads at r *)
Lemma at_posn_ffp S fr r : atposn S fr r -> ffp r = r.
Proof.
  intros (k & c & Hr & Hc & _ & _). subst r. rewrite (H2 ffp_kc) by lia.
  destruct (N.ltb_spec (B - c) 7); lia.
Qed.

(* ---------- the entries at or after a threshold, as a filter ---------- *)
Definition dfilter (b : N) (es : list bytes) (pos : list (N * N)) : list (bytes * (N * N)) :=
  filter (fun x => b <=? snd (snd x)) (combine es pos).

Lemma dfilter_none b es pos :
  Forall (fun s => snd s < b) pos -> dfilter b es pos = [].
Proof.
  unfold dfilter. revert pos. induction es as [|e es IH]; intros [|s pos] H; cbn [combine filter];
    try reflexivity.
  inversion H as [|? ? Hs Hr]; subst. cbn [snd]. destruct (N.leb_spec b (snd s)); [lia|]. now apply IH.
Qed.

Lemma dfilter_all b es pos :
  Forall (fun s => b <= snd s) pos -> dfilter b es pos = combine es pos.
Proof.
  unfold dfilter. revert pos. induction es as [|e es IH]; intros [|s pos] H; cbn [combine filter];
    try reflexivity.
  inversion H as [|? ? Hs Hr]; subst. cbn [snd]. destruct (N.leb_spec b (snd s)); [|lia].
  f_equal. now apply IH.
Qed.

Lemma dfilter_app b es1 es2 pos1 pos2 :
  length es1 = length pos1 ->
  dfilter b (es1 ++ es2) (pos1 ++ pos2) = dfilter b es1 pos1 ++ dfilter b es2 pos2.
Proof.
  intros H. unfold dfilter. rewrite (combine_app' es1 pos1 es2 pos2 H). apply filter_app.
Qed.

Lemma dfilter_starts b es : forall a,
  dfilter b es (starts a es) =
  combine (delivered_from b a es)
          (starts (cursor_after a (skipped_before b a es)) (delivered_from b a es)).
Proof.
  induction es as [|p ps IH]; intros a; cbn [ResyncProofs.starts ResyncProofs.delivered_from
    ResyncProofs.skipped_before]; [reflexivity|].
  unfold dfilter. cbn [combine filter snd].
  destruct (N.leb_spec b (ffp a)) as [Hle|Hgt].
  - rewrite (H2 cursor_after_nil). cbn [ResyncProofs.starts combine]. f_equal.
    apply dfilter_all.
    pose proof (H3 starts_sorted (p :: ps) a) as Hs. cbn [ResyncProofs.starts] in Hs.
    inversion Hs as [|s l _ Hall]; subst.
    eapply Forall_impl; [|exact Hall]. cbn beta. cbn [snd]. intros s Hlt. lia.
  - rewrite (H3 cursor_after_cons). apply IH.
Qed.

(* ====================================================================== *)
(* 1. arrival: the reader is about to read at position a                  *)
(* ====================================================================== *)
(* rr is the reader from which the next go_next is issued; that call behaves as a go_next with
   fuel g of the reader rr1, which sits exactly at a; the fuel consumed so far is paid for by
   the bytes before a *)
Definition arrive (S : bytes) (gofuel : nat) (a : N) (rr rr1 : rreader vecr) (g : nat) : Prop :=
  gonext gofuel rr = gonext g rr1 /\ atpos S (rr_fr rr1) a /\
  bpos S (fr_rd (rr_fr rr)) <= ffp a /\
  (g <= gofuel)%nat /\ 7 * N.of_nat (gofuel - g) <= a.

(* S1: a run of intact entries from an arrival *)
Lemma arrive_clean a es t :
  encsrel a es t ->
  forall S pre post gofuel rr rr1 g,
    sok S -> S = pre ++ t ++ post -> lenN pre = a ->
    a + lenN t + 7 <= 7 * N.of_nat gofuel ->
    arrive S gofuel a rr rr1 g ->
    exists rrs rr' rr1' g',
      length rrs = length es /\ tr_ok S rrs (starts a es) /\
      arrive S gofuel (a + lenN t) rr' rr1' g' /\
      forall l' c' rrf, readsC gofuel rr' l' c' rrf -> readsC gofuel rr (combine rrs es ++ l') c' rrf.
Proof.
  intros Hes S pre post gofuel rr rr1 g Hok HS Hpre Hgf (Hgo & Hat & Hb & Hg & Hpaid).
  inversion Hes as [a0 Ha0 Hnil Ht | a0 p ps e k t' He Hps Ha0 Hcons Ht]; subst a0 es t.
  - exists [], rr, rr1, g. rewrite (@lenN_nil byte), N.add_0_r.
    cbn [length combine app ResyncProofs.starts].
    split; [reflexivity|]. split; [constructor|]. split; [repeat split; assumption|].
    intros l' c' rrf H. exact H.
  - destruct rr1 as [fr1 rbuf1 within1]. cbn [rr_fr] in Hat.
    rewrite <- !app_assoc in HS. rewrite lenN_app in *.
    pose proof (H3 StreamProofs.enc_rel_frames _ _ _ _ _ He) as [Hk Hk'].
    destruct (H3 StreamProofs.go_next_record a true p e k He S pre (t' ++ post) fr1 rbuf1 within1 g
                Hok Hat HS Hpre)
      as (fr' & Hgo' & Hat'); [left; reflexivity | lia |].
    cbn [app] in Hgo'.
    destruct (run_trc P HBS_lo HBS_hi Hcrc (a + lenN e) ps t' Hps S (pre ++ e) post
                (mkRR fr' p false) gofuel Hok Hat')
      as (rrs & rr' & Hlen & Hat'' & Htr & Hcont).
    { rewrite HS, <- app_assoc. reflexivity. }
    { rewrite lenN_app. lia. }
    { lia. }
    exists (rr :: rrs), rr', rr', gofuel.
    split; [cbn [length]; now rewrite Hlen|].
    split.
    { rewrite (H3 starts_cons_rel a p ps e k He). constructor; [exact Hb | exact Htr]. }
    split.
    { replace (a + (lenN e + lenN t')) with (a + lenN e + lenN t') by lia.
      split; [reflexivity|]. split; [exact Hat''|].
      split.
      { pose proof (at_pos_bpos P HBS_lo HBS_hi Hcrc S _ _ Hat'').
        pose proof (H2 ffp_ge (a + lenN e + lenN t')). lia. }
      split; [lia|]. replace (gofuel - gofuel)%nat with 0%nat by lia. lia. }
    intros l' c' rrf Hl'. cbn [combine app].
    change p with (rr_buf (mkRR fr' p false)) at 1.
    eapply RC_rec; [rewrite Hgo; exact Hgo'|]. apply Hcont. exact Hl'.
Qed.

(* the trivial arrival: the boundary lies between the cursor and its first-frame position *)
Lemma arrive_after S a kb buf0 gofuel :
  sok S -> a <= kb * B -> kb * B <= ffp a -> (kb + 1) * B <= lenN S -> (1 <= gofuel)%nat ->
  exists rr1, arrive S gofuel a (mkRR (rdat S kb 0) buf0 false) rr1 gofuel.
Proof.
  intros Hok H1 H2' Hblk Hg. destruct gofuel as [|g]; [lia|].
  destruct (boundary_reads_like S a kb buf0 false g Hok H1 H2' Hblk) as (fr_a & Hat & Hgo).
  exists (mkRR fr_a buf0 false). split; [exact Hgo|]. split; [exact Hat|].
  split; [cbn [rr_fr]; rewrite (bpos_rd_at P HBS_lo HBS_hi Hcrc) by exact Hblk; exact H2'|].
  split; [lia|]. replace (Datatypes.S g - Datatypes.S g)%nat with 0%nat by lia. lia.
Qed.

Lemma starts_ge_ffp es : forall a, Forall (fun s => ffp a <= snd s) (starts a es).
Proof.
  intros a. destruct es as [|p ps]; [constructor|].
  pose proof (H3 starts_sorted (p :: ps) a) as Hs. cbn [ResyncProofs.starts] in *.
  inversion Hs as [|s l _ Hall]; subst. constructor; [cbn [snd]; lia|].
  eapply Forall_impl; [|exact Hall]. cbn beta. cbn [snd]. intros s Hlt. lia.
Qed.

Lemma starts_lt_end es a t : encsrel a es t -> Forall (fun s => snd s < a + lenN t) (starts a es).
Proof.
  intros Hes. pose proof (H3 starts_bounds es a) as Hb.
  rewrite (H3 cursor_after_rel _ _ _ Hes) in Hb.
  eapply Forall_impl; [|exact Hb]. cbn beta. intros s (_ & _ & H). lia.
Qed.

(* ====================================================================== *)
(* 2. what a reader delivers out of a prefix of the stream                *)
(* ====================================================================== *)
Definition pre_shape (PRE : bytes) (ops : list bytes) (opos : list (N * N)) : Prop :=
  length ops = length opos /\ Forall (fun s => snd s < lenN PRE) opos.

Definition pre_cont (PRE : bytes) (ops : list bytes) (opos : list (N * N)) (adm : N -> Prop)
    (cmax : nat) (rm : N) : Prop :=
  pre_shape PRE ops opos /\
  forall kb post S buf0 gofuel,
    S = PRE ++ post -> sok S -> (kb + 1) * B <= lenN S -> adm kb -> kb * B <= ffp (lenN PRE) ->
    lenN PRE + rm <= lenN S -> lenN PRE + 14 <= 7 * N.of_nat gofuel ->
    exists rrs c rr rr1 g,
      length rrs = length (dfilter (kb * B) ops opos) /\
      tr_ok S rrs (map snd (dfilter (kb * B) ops opos)) /\ (c <= cmax)%nat /\
      arrive S gofuel (lenN PRE) rr rr1 g /\
      forall l' c' rrf, readsC gofuel rr l' c' rrf ->
        readsC gofuel (mkRR (rdat S kb 0) buf0 false)
               (combine rrs (map fst (dfilter (kb * B) ops opos)) ++ l') (c + c') rrf.

Lemma pre_cont_weaken PRE ops opos (adm adm' : N -> Prop) cmax cmax' rm rm' :
  pre_cont PRE ops opos adm cmax rm ->
  (forall kb, adm' kb -> adm kb) -> (cmax <= cmax')%nat -> rm <= rm' ->
  pre_cont PRE ops opos adm' cmax' rm'.
Proof.
  intros (Hsh & H) Ha Hc Hr. split; [exact Hsh|].
  intros kb post S buf0 gofuel HS Hok Hblk Hadm Hkb Hroom Hgf.
  destruct (H kb post S buf0 gofuel HS Hok Hblk (Ha kb Hadm) Hkb ltac:(lia) Hgf)
    as (rrs & c & rr & rr1 & g & H1 & H2' & H3' & H4 & H5).
  exists rrs, c, rr, rr1, g. split; [exact H1|]. split; [exact H2'|]. split; [lia|].
  split; [exact H4|exact H5].
Qed.

Lemma pre_cont_nil : pre_cont [] [] [] (fun _ => True) 0 0.
Proof.
  split; [split; [reflexivity|constructor]|].
  intros kb post S buf0 gofuel HS Hok Hblk _ Hkb _ Hgf.
  change (lenN (@nil byte)) with 0 in *.
  destruct (arrive_after S 0 kb buf0 gofuel Hok ltac:(lia) Hkb Hblk ltac:(lia)) as (rr1 & Harr).
  exists [], 0%nat, (mkRR (rdat S kb 0) buf0 false), rr1, gofuel.
  cbn [dfilter combine filter length map app Nat.add].
  split; [reflexivity|]. split; [constructor|]. split; [lia|]. split; [exact Harr|].
  intros l' c' rrf H. exact H.
Qed.

(* appending a clean encoding *)
Theorem pre_cont_clean PRE ops opos adm cmax rm es t rm' :
  pre_cont PRE ops opos adm cmax rm -> encsrel (lenN PRE) es t -> rm <= lenN t + rm' ->
  pre_cont (PRE ++ t) (ops ++ es) (opos ++ starts (lenN PRE) es) adm cmax rm'.
Proof.
  intros ((Hlen & Hpos) & Hcont) Hes Hrm.
  set (a := lenN PRE) in *.
  assert (Ha2 : lenN (PRE ++ t) = a + lenN t) by (rewrite lenN_app; reflexivity).
  assert (Hposall : Forall (fun s => snd s < a + lenN t) (opos ++ starts a es)).
  { apply Forall_app. split; [|exact (starts_lt_end es a t Hes)].
    eapply Forall_impl; [|exact Hpos]. cbn beta. intros s H. lia. }
  split.
  { split; [rewrite !app_length, (ResyncProofs.starts_length P), Hlen; reflexivity|].
    rewrite Ha2. exact Hposall. }
  intros kb post S buf0 gofuel HS Hok Hblk Hadm Hkb Hroom Hgf.
  rewrite Ha2 in *. rewrite <- app_assoc in HS.
  rewrite (dfilter_app (kb * B) ops es opos (starts a es) Hlen).
  destruct (N.le_gt_cases (a + lenN t) (kb * B)) as [HA|HA].
  - (* the boundary is at or after the end of the prefix *)
    destruct (arrive_after S (a + lenN t) kb buf0 gofuel Hok HA Hkb Hblk ltac:(lia)) as (rr1 & Harr).
    rewrite <- (dfilter_app (kb * B) ops es opos (starts a es) Hlen).
    rewrite (dfilter_none (kb * B) (ops ++ es) (opos ++ starts a es)).
    2:{ eapply Forall_impl; [|exact Hposall]. cbn beta. intros s H. lia. }
    exists [], 0%nat, (mkRR (rdat S kb 0) buf0 false), rr1, gofuel.
    cbn [combine length map app Nat.add].
    split; [reflexivity|]. split; [constructor|]. split; [lia|]. split; [exact Harr|].
    intros l' c' rrf H. exact H.
  - destruct (N.le_gt_cases (kb * B) (ffp a)) as [HB|HC].
    + (* the boundary is inside the old prefix *)
      destruct (Hcont kb (t ++ post) S buf0 gofuel HS Hok Hblk Hadm HB)
        as (rrs0 & c & rr & rr1 & g & Hl0 & Htr0 & Hc & Harr & Hk0).
      { rewrite HS, !lenN_app in *. fold a in Hroom |- *. lia. }
      { lia. }
      destruct (arrive_clean a es t Hes S PRE post gofuel rr rr1 g Hok HS eq_refl ltac:(lia) Harr)
        as (rrs1 & rr' & rr1' & g' & Hl1 & Htr1 & Harr' & Hk1).
      assert (Hd2 : dfilter (kb * B) es (starts a es) = combine es (starts a es)).
      { apply dfilter_all. eapply Forall_impl; [|exact (starts_ge_ffp es a)].
        cbn beta. intros s H. lia. }
      rewrite Hd2.
      assert (Hle : length es = length (starts a es)) by (now rewrite (ResyncProofs.starts_length P)).
      exists (rrs0 ++ rrs1), c, rr', rr1', g'.
      rewrite !map_app, (map_fst_combine es (starts a es) Hle), (map_snd_combine es (starts a es) Hle).
      split; [rewrite !app_length, combine_length, <- Hle, Nat.min_id, Hl0, Hl1; reflexivity|].
      split; [apply Forall2_app; assumption|]. split; [exact Hc|]. split; [exact Harr'|].
      intros l' c' rrf Hl'.
      rewrite (combine_app' rrs0 (map fst (dfilter (kb * B) ops opos)) rrs1 es)
        by (rewrite map_length; exact Hl0).
      rewrite <- app_assoc. apply Hk0. apply Hk1. exact Hl'.
    + (* the boundary is inside the new encoding *)
      rewrite (dfilter_none (kb * B) ops opos).
      2:{ eapply Forall_impl; [|exact Hpos]. cbn beta. fold a. intros s H.
          pose proof (H2 ffp_ge a). lia. }
      cbn [app]. rewrite (dfilter_starts (kb * B) es a).
      pose proof (skipped_delivered P (kb * B) es a) as Hsplit.
      pose proof (skipped_starts P (kb * B) es a) as Hss.
      pose proof (H3 delivered_head (kb * B) es a) as Hhead.
      set (es_s := skipped_before (kb * B) a es) in *.
      set (es_d := delivered_from (kb * B) a es) in *.
      clearbody es_s es_d.
      rewrite Hsplit in Hes.
      destruct (H3 encs_rel_app_inv es_s a es_d t Hes) as (t_s & t_d & -> & Hes_s & Hes_d).
      rewrite (H3 cursor_after_rel _ _ _ Hes_s) in *.
      rewrite lenN_app in *. rewrite <- app_assoc in HS.
      set (a1 := a + lenN t_s) in *.
      assert (Hle : length es_d = length (starts a1 es_d)) by (now rewrite (ResyncProofs.starts_length P)).
      rewrite (map_fst_combine es_d (starts a1 es_d) Hle), (map_snd_combine es_d (starts a1 es_d) Hle).
      rewrite combine_length, <- Hle, Nat.min_id.
      pose proof (H2 ffp_ge a) as Hffa.
      assert (Harr1 : exists rr1 g, arrive S gofuel a1 (mkRR (rdat S kb 0) buf0 false) rr1 g).
      { destruct (H3 boundary_cases a es_s t_s kb Hes_s ltac:(lia) Hss)
          as [HA1 | (t1' & e1 & e2 & p2 & k2 & Ht1 & Hl & Hrel)].
        - assert (Hne : es_d <> []).
          { intros ->. inversion Hes_d; subst. rewrite (@lenN_nil byte) in *. unfold a1 in *. lia. }
          destruct (arrive_after S a1 kb buf0 gofuel Hok HA1 (Hhead Hne) Hblk ltac:(lia)) as (rr1 & H).
          exists rr1, gofuel. exact H.
        - pose proof (H3 at_pos_boundary S kb Hblk) as Hat_b.
          destruct (H3 go_next_skip (kb * B) false p2 e2 k2 Hrel eq_refl S (PRE ++ t1' ++ e1)
                      (t_d ++ post) (rdat S kb 0) Hok Hat_b) as (fr' & Hat' & Hskip).
          { rewrite HS, Ht1, <- !app_assoc. reflexivity. }
          { rewrite !lenN_app. fold a. lia. }
          pose proof (H3 StreamProofs.enc_rel_frames _ _ _ _ _ Hrel) as [Hk2 _].
          assert (Ea1 : kb * B + lenN e2 = a1).
          { unfold a1. rewrite Ht1, !lenN_app. lia. }
          exists (mkRR fr' buf0 false), (gofuel - k2)%nat.
          assert (Hk2g : (k2 <= gofuel)%nat) by (unfold a1 in *; lia).
          split.
          { replace gofuel with (k2 + (gofuel - k2))%nat at 1 by lia. apply Hskip. }
          split; [cbn [rr_fr]; rewrite <- Ea1; exact Hat'|].
          split.
          { cbn [rr_fr]. rewrite (bpos_rd_at P HBS_lo HBS_hi Hcrc) by exact Hblk.
            pose proof (H2 ffp_ge a1). lia. }
          split; [lia|]. replace (gofuel - (gofuel - k2))%nat with k2 by lia. lia. }
      destruct Harr1 as (rr1 & g & Harr1).
      destruct (arrive_clean a1 es_d t_d Hes_d S (PRE ++ t_s) post gofuel
                  (mkRR (rdat S kb 0) buf0 false) rr1 g Hok)
        as (rrs1 & rr' & rr1' & g' & Hl1 & Htr1 & Harr' & Hk1).
      { rewrite HS, <- app_assoc. reflexivity. }
      { rewrite lenN_app. reflexivity. }
      { unfold a1. lia. }
      { exact Harr1. }
      exists rrs1, 0%nat, rr', rr1', g'.
      split; [exact Hl1|]. split; [exact Htr1|]. split; [lia|].
      split; [unfold a1 in Harr'; replace (a + (lenN t_s + lenN t_d)) with (a + lenN t_s + lenN t_d) by lia;
              exact Harr'|].
      intros l' c' rrf Hl'. cbn [Nat.add]. apply Hk1. exact Hl'.
Qed.

(* ====================================================================== *)
(* 2b. junk                                                               *)
(* ====================================================================== *)
(* W, lying at [a, r), is junk: a reader positioned at a walks over it without delivering a
   record, reporting at most one corruption, and then reads at r *)
Definition junk_at (a r : N) (W : bytes) : Prop :=
  a <= r /\ lenN W = r - a /\
  forall S pre post fr rbuf within,
    sok S -> atpos S fr a -> S = pre ++ W ++ post -> lenN pre = a -> r + 7 <= lenN S ->
    exists n rr1 c, (c <= 1)%nat /\ 7 * N.of_nat n <= r - a /\ readsat S (rr_fr rr1) r /\
      ((c = 0%nat /\ forall fuel', gonext (n + Datatypes.S fuel') (mkRR fr rbuf within) =
                                   gonext (Datatypes.S fuel') rr1) \/
       (c = 1%nat /\ forall fuel', gonext (n + Datatypes.S fuel') (mkRR fr rbuf within) =
                                   (rr1, RCorrupt))).

(* the torn encoding of an entry whose missing bytes are not all zero is junk *)
Theorem junk_of_torn a x e k j :
  no_zero_collision P ->
  encrel a true x e k -> j < lenN e -> all_zero (dropN j e) = false ->
  exists r W,
    junk_at a r W /\
    (forall z, r <= a + j + z -> takeN j e ++ zerosN z = W ++ zerosN (a + j + z - r)) /\
    (forall m, a + j <= m * B -> r <= m * B) /\
    (forall m, m * B <= a + j -> m * B <= r).
Proof.
  intros Hnc He Hj Hnz.
  destruct (H3 TornProofs.torn_walk a true x e k He j Hj) as (r & W & Har & HlW & Hspec & Hup & Hlo & Hrd).
  exists r, W. split; [|split; [exact Hspec|split; [exact Hup|exact Hlo]]].
  split; [exact Har|]. split; [exact HlW|].
  intros S pre post fr rbuf within Hok Hat HS Hpre Hroom.
  destruct (Hrd S pre post fr rbuf within Hok Hat HS Hpre Hroom (or_introl eq_refl))
    as (n & rr1 & Hn & Hra & Hout).
  destruct Hout as [Hsil | [[Hn7 Hcor] | (Hn7 & p' & Hbuf & Hrec & Hcase)]].
  - exists n, rr1, 0%nat. split; [lia|]. split; [exact Hn|]. split; [exact Hra|].
    left. split; [reflexivity|]. intros fuel'. apply Hsil.
  - exists n, rr1, 1%nat. split; [lia|]. split; [exact Hn|]. split; [exact Hra|].
    right. split; [reflexivity|]. exact Hcor.
  - exfalso. destruct Hcase as [[_ Hz] | [_ Hcol]].
    + rewrite Hz in Hnz. discriminate.
    + exact (TornProofs.no_collision P Hnc Hcol).
Qed.

Lemma ffp_mono a b : a <= b -> ffp a <= ffp b.
Proof.
  intros Hab. pose proof (H2 ffp_ge b) as Hb.
  destruct (N.le_gt_cases (ffp a) b) as [H|H]; [lia|].
  assert (E : ffp b = ffp a); [|lia].
  unfold first_frame_pos in *. rewrite !(StreamProofs.lenN_pad_of P) in *.
  destruct (N.ltb_spec (B - a mod B) 7) as [Hp|Hp]; [|lia].
  pose proof (N.div_mod' a B) as Ea. pose proof (N.mod_lt a B ltac:(lia)) as Hr.
  assert (Ec : b mod B = a mod B + (b - a)).
  { replace b with ((a / B) * B + (a mod B + (b - a))) at 1 by lia.
    apply (H2 StreamProofs.mod_kc). lia. }
  rewrite Ec. destruct (N.ltb_spec (B - (a mod B + (b - a))) 7); lia.
Qed.

(* the block of a reader that reads at r starts at or before r *)
Lemma reads_at_bpos S fr r : readsat S fr r -> bpos S (fr_rd fr) <= r.
Proof.
  intros (fr0 & (k & c & Hr & Hc & Hblk & Hfr0) & Hrf).
  pose proof (read_frame_rest P HBS_lo HBS_hi fr) as Hrest. rewrite Hrf in Hrest.
  assert (E : fr_rd (fst (rframe fr0)) = fr_rd fr0).
  { rewrite FileStream.read_frame_unfold. subst fr0. unfold StreamProofs.rd_at.
    cbn [fr_corrupt fr_cursor fr_rd orb]. unfold HEADER_LEN.
    destruct (N.ltb_spec (B - c) 7) as [Hlt|_]; [lia|].
    apply (read_here_rd P). }
  rewrite E in Hrest. subst fr0. unfold StreamProofs.rd_at in Hrest. cbn [fr_rd vr_rest] in Hrest.
  rewrite lenN_dropN in Hrest. unfold OpenReplay.bpos. lia.
Qed.

(* appending a junk segment *)
Theorem pre_cont_junk PRE ops opos adm cmax rm r W :
  pre_cont PRE ops opos adm cmax rm -> junk_at (lenN PRE) r W -> rm <= r - lenN PRE + 7 ->
  pre_cont (PRE ++ W) ops opos
           (fun kb => adm kb /\ (kb * B <= ffp (lenN PRE) \/ r <= kb * B)) (Datatypes.S cmax) 7.
Proof.
  intros ((Hlen & Hpos) & Hcont) (Har & HlW & Hwalk) Hrm.
  set (a := lenN PRE) in *.
  assert (Ha2 : lenN (PRE ++ W) = r) by (rewrite lenN_app; fold a; lia).
  split.
  { split; [exact Hlen|]. rewrite Ha2. eapply Forall_impl; [|exact Hpos]. cbn beta. intros s H. lia. }
  intros kb post S buf0 gofuel HS Hok Hblk (Hadm & Hcase) Hkb Hroom Hgf.
  rewrite Ha2 in *. rewrite <- app_assoc in HS.
  destruct (N.le_gt_cases r (kb * B)) as [HR|HR].
  - (* the boundary is at the end of the junk *)
    destruct (arrive_after S r kb buf0 gofuel Hok HR Hkb Hblk ltac:(lia)) as (rr1 & Harr).
    rewrite (dfilter_none (kb * B) ops opos).
    2:{ eapply Forall_impl; [|exact Hpos]. cbn beta. fold a. intros s H. lia. }
    exists [], 0%nat, (mkRR (rdat S kb 0) buf0 false), rr1, gofuel.
    cbn [combine length map app Nat.add].
    split; [reflexivity|]. split; [constructor|]. split; [lia|]. split; [exact Harr|].
    intros l' c' rrf H. exact H.
  - destruct Hcase as [HB|HB]; [|lia].
    destruct (Hcont kb (W ++ post) S buf0 gofuel HS Hok Hblk Hadm HB ltac:(lia) ltac:(lia))
      as (rrs & c & rr & rr1 & g & Hl0 & Htr0 & Hc & (Hgo & Hat & Hb & Hg & Hpaid) & Hk0).
    destruct rr1 as [fr1 rbuf1 within1]. cbn [rr_fr] in Hat.
    destruct (Hwalk S PRE post fr1 rbuf1 within1 Hok Hat HS eq_refl Hroom)
      as (n & rr2 & cj & Hcj & Hn & Hra & Hout).
    pose proof (reads_at_bpos S _ r Hra) as Hbp2.
    destruct Hra as (fr0 & Hat0 & Hrf).
    pose proof (H3 TornProofs.at_posn_at_pos S fr0 r Hat0) as Hatr.
    assert (Hgn : (n + 2 <= g)%nat) by lia.
    destruct Hout as [(-> & Hsil) | (-> & Hcor)].
    + exists rrs, c, rr, (mkRR fr0 (rr_buf rr2) (rr_within rr2)), (g - n)%nat.
      split; [exact Hl0|]. split; [exact Htr0|]. split; [lia|].
      split.
      { split.
        { rewrite Hgo. remember (g - n - 1)%nat as f' eqn:Ef'.
          assert (Eg : g = (n + Datatypes.S f')%nat) by lia.
          assert (Egn : (g - n)%nat = Datatypes.S f') by lia.
          rewrite Egn. rewrite Eg at 1. rewrite Hsil.
          destruct rr2 as [fr2 b2 w2]. cbn [rr_fr rr_buf rr_within] in *.
          apply (TornProofs.gonext_cong P). exact Hrf. }
        split; [exact Hatr|].
        split; [pose proof (ffp_mono a r Har); lia|].
        split; [lia|]. lia. }
      exact Hk0.
    + exists rrs, (Datatypes.S c), rr2, (mkRR fr0 (rr_buf rr2) (rr_within rr2)), gofuel.
      split; [exact Hl0|]. split; [exact Htr0|]. split; [lia|].
      split.
      { split.
        { destruct gofuel as [|gf]; [lia|].
          destruct rr2 as [fr2 b2 w2]. cbn [rr_fr rr_buf rr_within] in *.
          apply (TornProofs.gonext_cong P). exact Hrf. }
        split; [exact Hatr|].
        split; [pose proof (H2 ffp_ge r); lia|].
        split; [lia|]. replace (gofuel - gofuel)%nat with 0%nat by lia. lia. }
      intros l' c' rrf Hl'.
      replace (Datatypes.S c + c')%nat with (c + Datatypes.S c')%nat by lia.
      apply Hk0. eapply RC_cor; [|exact Hl'].
      rewrite Hgo. replace g with (n + Datatypes.S (g - n - 1))%nat by lia. apply Hcor.
Qed.

(* ====================================================================== *)
(* 3. the closed form: the prefix, a clean encoding, zeros                 *)
(* ====================================================================== *)
(* what `open` needs (JReopen.v): reading  PRE ++ t2 ++ zeros  from an admissible block boundary
   delivers the entries of ops ++ es2 whose first frame is at or after the boundary, with at
   most cmax corruptions, and ends at the end of t2 *)
Definition pre_reads (PRE : bytes) (ops : list bytes) (opos : list (N * N)) (adm : N -> Prop)
    (cmax : nat) (rm : N) : Prop :=
  forall kb es2 t2 z S buf0 gofuel,
    encsrel (lenN PRE) es2 t2 -> S = PRE ++ t2 ++ zerosN z -> sok S ->
    (kb + 1) * B <= lenN S -> adm kb -> lenN PRE + rm <= lenN S ->
    lenN S + 14 <= 7 * N.of_nat gofuel ->
    exists rrs c rrf,
      let D := dfilter (kb * B) (ops ++ es2) (opos ++ starts (lenN PRE) es2) in
      length rrs = length D /\
      readsC gofuel (mkRR (rdat S kb 0) buf0 false) (combine rrs (map fst D)) c rrf /\
      (c <= cmax)%nat /\ tr_ok S rrs (map snd D) /\
      at_end P S (rr_fr rrf) (N.max (kb * B) (lenN PRE + lenN t2)).

Theorem pre_reads_of_cont PRE ops opos adm cmax rm :
  pre_cont PRE ops opos adm cmax rm -> pre_reads PRE ops opos adm cmax rm.
Proof.
  intros Hc kb es2 t2 z S buf0 gofuel Hes2 HS Hok Hblk Hadm Hroom Hgf.
  set (a := lenN PRE) in *. set (a2 := a + lenN t2).
  destruct (pre_cont_clean PRE ops opos adm cmax rm es2 t2 (rm - lenN t2) Hc Hes2 ltac:(lia))
    as ((Hlen2 & Hpos2) & Hc2).
  fold a in Hpos2, Hc2. rewrite lenN_app in Hpos2, Hc2. fold a in Hpos2, Hc2. fold a2 in Hpos2, Hc2.
  assert (HlS : lenN S = a2 + z).
  { rewrite HS, !lenN_app, lenN_zerosN. unfold a2, a. lia. }
  assert (HS' : S = (PRE ++ t2) ++ zerosN z) by (rewrite HS, <- app_assoc; reflexivity).
  assert (Hwr : lenN (PRE ++ t2) <= a2) by (rewrite lenN_app; unfold a2, a; lia).
  destruct (N.le_gt_cases (kb * B) (ffp a2)) as [Hkb|Hkb].
  - destruct (Hc2 kb (zerosN z) S buf0 gofuel HS' Hok Hblk Hadm Hkb ltac:(lia) ltac:(lia))
      as (rrs & c & rr & rr1 & g & Hl0 & Htr0 & Hcc & (Hgo & Hat & Hb & Hg & Hpaid) & Hk0).
    destruct g as [|g']; [lia|].
    destruct (H3 go_next_end_gen S (PRE ++ t2) z rr1 a2 g' HS' Hwr Hat) as (fr' & Hend & Hp).
    exists rrs, c, (mkRR fr' (rr_buf rr1) (rr_within rr1)).
    cbv zeta. split; [exact Hl0|]. split.
    { rewrite <- (app_nil_r (combine rrs _)). replace c with (c + 0)%nat by lia.
      apply Hk0. apply RC_end. rewrite Hgo. exact Hend. }
    split; [exact Hcc|]. split; [exact Htr0|]. cbn [rr_fr].
    destruct (N.le_gt_cases (kb * B) a2) as [Hle|Hgt].
    + replace (N.max (kb * B) a2) with a2 by lia. exact Hp.
    + replace (N.max (kb * B) a2) with (kb * B) by lia.
      assert (Eb : kb * B = ffp a2) by (apply (H2 boundary_is_ffp); lia).
      destruct Hp as (k & c0 & Hfr & Hk & Hc0 & Hcase). exists k, c0.
      split; [exact Hfr|]. split; [exact Hk|]. split; [exact Hc0|].
      destruct Hcase as [[H1 H2'] | (H1 & H2' & H3')].
      * left. split; [|exact H2']. rewrite (H2 ffp_aligned). lia.
      * exfalso. rewrite <- H1, (H2 ffp_kc) in Eb by exact Hc0.
        destruct (N.ltb_spec (B - c0) 7) as [_|Hge]; [|lia].
        assert ((k + 1 + 1) * B <= lenN S); [|lia].
        replace ((k + 1) * B) with (kb * B) by lia. lia.
  - (* the boundary lies in the zeros after the stream *)
    pose proof (H2 ffp_ge a2) as Hge.
    rewrite (dfilter_none (kb * B) (ops ++ es2) (opos ++ starts a es2)).
    2:{ eapply Forall_impl; [|exact Hpos2]. cbn beta. intros s H. lia. }
    destruct gofuel as [|g']; [lia|].
    pose proof (H3 at_pos_boundary S kb Hblk) as Hat_b.
    destruct (H3 go_next_end_gen S (PRE ++ t2) z (mkRR (rdat S kb 0) buf0 false) (kb * B) g' HS'
                ltac:(lia) Hat_b) as (fr' & Hend & Hp).
    exists [], 0%nat, (mkRR fr' buf0 false). cbn [combine map length].
    split; [reflexivity|]. split; [apply RC_end; exact Hend|]. split; [lia|].
    split; [constructor|]. cbn [rr_fr].
    replace (N.max (kb * B) a2) with (kb * B) by lia. exact Hp.
Qed.

End JunkStream.

Print Assumptions pre_cont_clean.
Print Assumptions pre_cont_junk.
Print Assumptions junk_of_torn.
Print Assumptions pre_reads_of_cont.
