(* Bytes.v — byte strings, little-endian integers, N-indexed slicing.
   Model layer 0.  Definitions only; lemmas live in BytesProofs.v. *)
From Coq Require Export List NArith Bool.
From Coq Require Export Strings.Byte.
Export ListNotations.
Open Scope N_scope.

Definition bytes := list byte.

Definition b2n (b : byte) : N := Byte.to_N b.
Definition n2b (n : N) : byte :=
  match Byte.of_N (n mod 256) with Some b => b | None => x00 end.

Fixpoint lenN_acc {A} (l : list A) (acc : N) : N :=
  match l with [] => acc | _ :: r => lenN_acc r (N.succ acc) end.
Definition lenN {A} (l : list A) : N := lenN_acc l 0.

Fixpoint takeN {A} (n : N) (l : list A) : list A :=
  match l with
  | [] => []
  | x :: r => if n =? 0 then [] else x :: takeN (N.pred n) r
  end.

Fixpoint dropN {A} (n : N) (l : list A) : list A :=
  match l with
  | [] => []
  | x :: r => if n =? 0 then l else dropN (N.pred n) r
  end.

Definition sliceN {A} (lo hi : N) (l : list A) : list A := takeN (hi - lo) (dropN lo l).

(* n zero bytes; recursion on a positive so that no unary number is built *)
Fixpoint zeros_pos (p : positive) : bytes :=
  match p with
  | xH => [x00]
  | xO q => let z := zeros_pos q in z ++ z
  | xI q => let z := zeros_pos q in x00 :: z ++ z
  end.
Definition zerosN (n : N) : bytes := match n with N0 => [] | Npos p => zeros_pos p end.

Fixpoint le_enc (k : nat) (n : N) : bytes :=
  match k with O => [] | S k' => n2b n :: le_enc k' (n / 256) end.
Fixpoint le_dec (bs : bytes) : N :=
  match bs with [] => 0 | b :: r => b2n b + 256 * le_dec r end.

Fixpoint bytes_eqb (a b : bytes) : bool :=
  match a, b with
  | [], [] => true
  | x :: a', y :: b' => Byte.eqb x y && bytes_eqb a' b'
  | _, _ => false
  end.

Fixpoint all_zero (bs : bytes) : bool :=
  match bs with [] => true | b :: r => Byte.eqb b x00 && all_zero r end.

(* pwrite: data written at offset off; a gap beyond the end is zero-filled *)
Definition write_at (content : bytes) (off : N) (data : bytes) : bytes :=
  let n := lenN content in
  let head := if off <=? n then takeN off content else content ++ zerosN (off - n) in
  head ++ data ++ dropN (off + lenN data) content.

(* ftruncate *)
Definition set_len (content : bytes) (n : N) : bytes :=
  let l := lenN content in
  if n <=? l then takeN n content else content ++ zerosN (n - l).

Definition isnil {A} (l : list A) : bool := match l with [] => true | _ => false end.

Fixpoint last_opt {A} (l : list A) : option A :=
  match l with [] => None | [x] => Some x | _ :: r => last_opt r end.

(* bytewise lexicographic order on names (for canonical listings) *)
Fixpoint bytes_ltb (a b : bytes) : bool :=
  match a, b with
  | [], [] => false
  | [], _ :: _ => true
  | _ :: _, [] => false
  | x :: a', y :: b' =>
      if b2n x <? b2n y then true else if b2n y <? b2n x then false else bytes_ltb a' b'
  end.
