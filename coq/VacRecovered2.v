(* VacRecovered2.v — vacuity audit of the stage-3 theorems of TASK T14
   (CrashRecovered2.crash_recovered_crash, CrashRecovered3.crash_recovered_self).
   Instance (BS = 32, NB = 8): create qa, seven appends (the log rolls over to file 1), then the
   interrupted call truncate(qa, ..=4), whose GC unlinks file 0.
   (1) params P_sat 32 8 (no_zero_collision holds): ALL premises of both theorems are jointly
       satisfiable and the theorems are applied; the first crash is taken after the data of the
       call is flushed and before its unlink, so that the RECOVERY itself garbage-collects.
   (2) the real CRC-32: the conclusions checked by computation on every crash image:
       - every crash image of the recovery's own events is recovered to the same abstract state;
       - after recovery and a continuation, every crash image of a further append is recovered
         to the state before or after it. *)
From Coq Require Import Lia ZArith ZifyN ZifyNat ZifyBool List.
From MRL Require Import Bytes BytesProofs Params Names Frame Record Mem Spec Rolling Log Driver Hist
  WriterProofs SpecRefine RecordProofs StreamProofs ResyncProofs GhostLog ReplaySpec TornProofs
  RestartInv RestartWrite RestartStep OpenReplay RestartFinal CrashTrace CrashAtomic NzcVacuous
  VacBase VacCrash JRecoverSelf CrashRecovered CrashRecovered2 CrashRecovered3 CrashHistories VacRecovered.
Import ListNotations.
Import CrashAtomic.CrashExample.

Arguments N.add : simpl never.
Arguments N.sub : simpl never.
Arguments N.mul : simpl never.
Arguments N.eqb : simpl never.
Arguments N.ltb : simpl never.
Arguments N.leb : simpl never.
Arguments N.div : simpl never.
Arguments N.modulo : simpl never.

Definition hm : list hop :=
  [HCall (OCreate qa) false;
   HCall (OAppend qa None [pay "1"%byte]) false; HCall (OAppend qa None [pay "2"%byte]) false;
   HCall (OAppend qa None [pay "3"%byte]) false; HCall (OAppend qa None [pay "4"%byte]) false;
   HCall (OAppend qa None [pay "5"%byte]) false; HCall (OAppend qa None [pay "6"%byte]) false;
   HCall (OAppend qa None [pay "7"%byte]) false].
Definition o_t : op := OTruncate qa 4 [].

(* ====================================================================== *)
(* (1) all premises, params P_sat 32 8                                    *)
(* ====================================================================== *)
Definition tm : state :=
  Eval vm_compute in match hrun Pv sv0 hm with Some (s, _) => s | None => st_dummy end.
Definition outs_m : list outcome :=
  Eval vm_compute in match hrun Pv sv0 hm with Some (_, o) => o | None => [] end.
Definition tm' : state := Eval vm_compute in fst (step Pv tm o_t false).
Definition out_t : outcome := Eval vm_compute in snd (step Pv tm o_t false).
Lemma hrun_m : hrun Pv sv0 hm = Some (tm, outs_m). Proof. vm_compute. reflexivity. Qed.
Lemma step_t : step Pv tm o_t false = (tm', out_t). Proof. vm_compute. reflexivity. Qed.

Lemma hist_ok_m : hist_ok Pv sv0 hm.
Proof. unfold hm. do 8 call_tacv. exact I. Qed.

Lemma inv_m : exists G, Inv Pv tm G.
Proof.
  pose proof (inv_fresh Pv Pv_BS_lo Pv_BS_hi Pv_NB (PAlways true) sv0 open_sv0) as HI0.
  destruct (hrun_inv Pv Pv_BS_lo Pv_BS_hi Pv_NB Pv_crc eq_refl eq_refl hm sv0 gh_fresh HI0 hist_ok_m)
    as (st' & outs & G & Er & HI & _).
  rewrite hrun_m in Er. injection Er as <- <-. now exists G.
Qed.

Example setting_m :
  w_files (s_wr tm) = [0; 1] /\ w_off (s_wr tm) = 112 /\ w_files (s_wr tm') = [1] /\
  w_off (s_wr tm') = 138 /\ FILE_BYTES Pv = 256.
Proof. vm_compute. repeat split; reflexivity. Qed.

Lemma phys_before : crash_phys_bound Pv (s_wr tm) (map snd (step_log Pv tm o_t)) (abs_qs (s_qs tm)).
Proof. apply (crash_phys_bound_by Pv Pv_BS_lo Pv_BS_hi Pv_NB Pv_crc 64); [vm_compute; reflexivity|le_tacv]. Qed.
Lemma phys_after : crash_phys_bound Pv (s_wr tm) (map snd (step_log Pv tm o_t)) (abs_qs (s_qs tm')).
Proof. apply (crash_phys_bound_by Pv Pv_BS_lo Pv_BS_hi Pv_NB Pv_crc 64); [vm_compute; reflexivity|le_tacv]. Qed.

Theorem crash_setting_m : exists G, crash_setting Pv tm G true o_t false tm' out_t.
Proof.
  destruct inv_m as (G & HI). exists G.
  pose proof (crash_phys_bound_ghost Pv Pv_BS_lo Pv_BS_hi Pv_NB Pv_crc _ G _ _ (proj1 HI) phys_before) as Hc1.
  pose proof (crash_phys_bound_ghost Pv Pv_BS_lo Pv_BS_hi Pv_NB Pv_crc _ G _ _ (proj1 HI) phys_after) as Hc2.
  split; [exact HI|]. split; [reflexivity|]. split; [reflexivity|].
  split; [unfold o_t; wf_tacv|].
  split; [exact (crash_bound_stream_bound Pv Pv_BS_lo Pv_BS_hi Pv_NB Pv_crc _ _ _ Hc1)|].
  split; [exact Hc1|]. split; [exact Hc2|]. split; [exact step_t|].
  split; [intros e H; discriminate H|].
  split; [reflexivity|]. le_tacv.
Qed.

(* the events of the call, and the first crash: after the flush group, before the unlink *)
Definition evs_t : list event := Eval vm_compute in new_events tm tm'.
Lemma evs_t_eq : c_ev (w_ctx (s_wr tm')) = rev evs_t ++ c_ev (w_ctx (s_wr tm)).
Proof. vm_compute. reflexivity. Qed.
Definition img1 : fsT :=
  Eval vm_compute in fold_left apply_event (crash_events evs_t 4 0) (c_fs (w_ctx (s_wr tm))).
Definition tr : state :=
  Eval vm_compute in match open Pv img1 None (PAlways true) [] with OpenOk s => s | _ => st_dummy end.
Lemma open_img1 : open Pv img1 None (PAlways true) [] = OpenOk tr.
Proof. vm_compute. reflexivity. Qed.

(* the recovery itself unlinks file 0 *)
Example recovery_gcs :
  list_wal_numbers img1 = [0; 1] /\ w_files (s_wr tr) = [1] /\ w_off (s_wr tr) = 138 /\
  existsb (fun e => match e with EvUnlink _ => true | _ => false end) (c_ev (w_ctx (s_wr tr))) = true.
Proof. vm_compute. repeat split; reflexivity. Qed.

Lemma rec_bound_tr : rec_bound Pv tr.
Proof.
  intros c extra Hx Hc.
  pose proof (pos_extra_bound Pv Pv_BS_lo Pv_BS_hi Pv_NB Pv_crc (abs_qs (s_qs tr)) 64 c extra
                ltac:(vm_compute; reflexivity) Hx) as H.
  assert (Hw : wabs Pv (s_wr tr) + BS Pv + 64 * N.of_nat (length (abs_qs (s_qs tr))) <=
               FILE_BYTES Pv * (U64_MAX + 1)) by le_tacv.
  lia.
Qed.

Lemma evs_unique evs :
  c_ev (w_ctx (s_wr tm')) = rev evs ++ c_ev (w_ctx (s_wr tm)) -> evs = evs_t.
Proof.
  intros H. rewrite evs_t_eq in H. apply app_inv_tail in H. apply (f_equal (@rev event)) in H.
  rewrite !rev_involutive in H. now symmetry.
Qed.

(* crash_recovered_self applies: every crash image of the recovery's own events is recovered to
   the abstract state of tr *)
Theorem crash_recovered_self_inst :
  forall cut2 k2 pol3 hint3, exists st_r2,
    open Pv (fold_left apply_event (crash_events (rev (c_ev (w_ctx (s_wr tr)))) cut2 k2) img1)
         None pol3 hint3 = OpenOk st_r2 /\
    (forall q, s_get (abs_qs (s_qs st_r2)) q = s_get (abs_qs (s_qs tr)) q).
Proof.
  destruct crash_setting_m as (G & Hset).
  destruct (crash_recovered_self Pv Pv_BS_lo Pv_BS_hi Pv_NB Pv_crc eq_refl eq_refl eq_refl Pv_nzc
              tm G true o_t false tm' out_t Hset phys_before phys_after) as (evs & Hev & Hall).
  pose proof (evs_unique evs Hev) as ->.
  intros cut2 k2 pol3 hint3.
  destruct (Hall 4 0 (PAlways true) [] tr open_img1 ltac:(vm_compute; reflexivity) ltac:(le_tacv)
              rec_bound_tr cut2 k2 pol3 hint3) as (st_r2 & Ho & Ha & _).
  exists st_r2. split; [exact Ho|exact Ha].
Qed.

(* the continuation after the recovery, and the second interrupted call *)
Definition h2m : list hop := [HCall (OCreate qb) false].
Definition t2 : state :=
  Eval vm_compute in match hrun Pv tr h2m with Some (s, _) => s | None => st_dummy end.
Definition outs_2 : list outcome :=
  Eval vm_compute in match hrun Pv tr h2m with Some (_, o) => o | None => [] end.
Definition o_2 : op := OAppend qb None [pay "9"%byte].
Definition t2' : state := Eval vm_compute in fst (step Pv t2 o_2 false).
Definition out_2 : outcome := Eval vm_compute in snd (step Pv t2 o_2 false).
Lemma hrun_2 : hrun Pv tr h2m = Some (t2, outs_2). Proof. vm_compute. reflexivity. Qed.
Lemma step_2 : step Pv t2 o_2 false = (t2', out_2). Proof. vm_compute. reflexivity. Qed.
Lemma hist_ok_2 : hist_ok Pv tr h2m.
Proof. unfold h2m. call_tacv. exact I. Qed.

(* crash_recovered_crash applies: every crash image of the further call o_2 is recovered to the
   state before or after it *)
Theorem crash_recovered_crash_inst :
  exists evs2, c_ev (w_ctx (s_wr t2')) = rev evs2 ++ c_ev (w_ctx (s_wr t2)) /\
    forall cut2 k2 pol3 hint3, exists st_r2,
      open Pv (fold_left apply_event (crash_events evs2 cut2 k2) (c_fs (w_ctx (s_wr t2)))) None pol3 hint3
        = OpenOk st_r2 /\
      ((forall q, s_get (abs_qs (s_qs st_r2)) q = s_get (abs_qs (s_qs t2)) q) \/
       (forall q, s_get (abs_qs (s_qs st_r2)) q = s_get (abs_qs (s_qs t2')) q)).
Proof.
  destruct crash_setting_m as (G & Hset).
  destruct (crash_recovered_crash Pv Pv_BS_lo Pv_BS_hi Pv_NB Pv_crc eq_refl eq_refl eq_refl Pv_nzc
              tm G true o_t false tm' out_t Hset) as (evs & Hev & Hall).
  pose proof (evs_unique evs Hev) as ->.
  destruct (Hall 4 0 true [] tr open_img1 h2m t2 outs_2 hist_ok_2 ltac:(cbn; auto) hrun_2
              o_2 false t2' out_2) as (evs2 & Hev2 & Hall2).
  - unfold o_2. wf_tacv.
  - apply (crash_phys_bound_by Pv Pv_BS_lo Pv_BS_hi Pv_NB Pv_crc 64); [vm_compute; reflexivity|le_tacv].
  - apply (crash_phys_bound_by Pv Pv_BS_lo Pv_BS_hi Pv_NB Pv_crc 64); [vm_compute; reflexivity|le_tacv].
  - exact step_2.
  - vm_compute. reflexivity.
  - le_tacv.
  - exists evs2. split; [exact Hev2|]. intros cut2 k2 pol3 hint3.
    destruct (Hall2 cut2 k2 pol3 hint3) as (st_r2 & Ho & Ha & _). exists st_r2. auto.
Qed.


(* ---------- crash_histories: a history with two crashes ---------- *)
Definition hc : list chop :=
  [CCrash o_t false 4 0 (PAlways true) []; CCall (OCreate qb) false;
   CCrash o_2 false 1 3 (PAlways true) []].

Lemma crash_img_1 : crash_img Pv tm o_t false 4 0 = img1.
Proof.
  unfold crash_img. rewrite step_t. cbn [fst]. rewrite (new_evs_spec tm tm' evs_t evs_t_eq).
  vm_compute. reflexivity.
Qed.
Lemma step_qb : step Pv tr (OCreate qb) false = (t2, OutCreate 19).
Proof. vm_compute. reflexivity. Qed.

Lemma chist_ok_hc : chist_ok Pv tm hc.
Proof.
  unfold hc. cbn [chist_ok]. rewrite step_t. cbn [fst snd]. split.
  { exists true. split; [reflexivity|]. split; [reflexivity|]. split; [unfold o_t; wf_tacv|].
    split; [exact phys_before|]. split; [exact phys_after|]. split; [exact step_t|].
    split; [reflexivity|]. le_tacv. }
  rewrite crash_img_1, open_img1. rewrite step_qb. cbn [fst snd].
  split; [wf_tacv|]. split; [unfold phys_bound; le_tacv|].
  rewrite step_2. cbn [fst snd]. split.
  { exists true. split; [reflexivity|]. split; [reflexivity|]. split; [unfold o_2; wf_tacv|].
    split; [apply (crash_phys_bound_by Pv Pv_BS_lo Pv_BS_hi Pv_NB Pv_crc 64); [vm_compute; reflexivity|le_tacv]|].
    split; [apply (crash_phys_bound_by Pv Pv_BS_lo Pv_BS_hi Pv_NB Pv_crc 64); [vm_compute; reflexivity|le_tacv]|].
    split; [exact step_2|]. split; [vm_compute; reflexivity|]. le_tacv. }
  destruct (open Pv (crash_img Pv t2 o_2 false 1 3) None (PAlways true) []); exact I.
Qed.

Theorem crash_histories_inst :
  exists st' m', crun Pv tm hc = Some st' /\ jstate Pv st' /\
    chist_spec (abs_qs (s_qs tm)) hc m' /\ forall q, s_get m' q = s_get (abs_qs (s_qs st')) q.
Proof.
  destruct inv_m as (G & HI).
  exact (crash_histories Pv Pv_BS_lo Pv_BS_hi Pv_NB Pv_crc eq_refl eq_refl eq_refl Pv_nzc hc tm
           (jstate_inv Pv Pv_BS_lo Pv_BS_hi Pv_NB Pv_crc tm G HI) chist_ok_hc).
Qed.

(* ====================================================================== *)
(* (2) the real CRC-32, by computation                                    *)
(* ====================================================================== *)
Definition rm_ : state :=
  Eval vm_compute in match hrun Pr sr0 hm with Some (s, _) => s | None => st_dummy end.
Definition rm' : state := Eval vm_compute in fst (step Pr rm_ o_t false).

Definition open_abs (img : fsT) : option (state) :=
  match open Pr img None (PAlways true) [] with OpenOk s => Some s | _ => None end.

(* every crash image of the call; for each, every crash image of the recovery's own events:
   (pairs, pairs recovered to the abstract state of the first recovery, pairs whose second image
    differs from the first as a directory, i.e. the crash cut a mutating effect of the recovery) *)
Definition self_census : N * N * N :=
  let evs := new_events rm_ rm' in
  let fs0 := c_fs (w_ctx (s_wr rm_)) in
  let vs := flat_map (fun ck =>
      let img := fold_left apply_event (crash_events evs (fst ck) (snd ck)) fs0 in
      match open_abs img with
      | None => [(0, false)]
      | Some st_r =>
          let evr := rev (c_ev (w_ctx (s_wr st_r))) in
          map (fun ck2 =>
                 let img2 := fold_left apply_event (crash_events evr (fst ck2) (snd ck2)) img in
                 let changed := negb (lenN (list_wal_numbers img2) =? lenN (list_wal_numbers img)) in
                 match open_abs img2 with
                 | Some st_r2 =>
                     (if smap_ext_eqb (abs_qs (s_qs st_r2)) (abs_qs (s_qs st_r)) then 1 else 0, changed)
                 | None => (0, changed)
                 end) (crash_points evr)
      end) (crash_points evs) in
  (lenN vs, lenN (filter (fun v => fst v =? 1) vs), lenN (filter (fun v => snd v) vs)).

(* second crash: recover every crash image of the call, run the continuation, then crash the
   further append everywhere: (images, recovered = before, recovered = after, failures) *)
Definition second_census : N * N * N * N :=
  let evs := new_events rm_ rm' in
  let fs0 := c_fs (w_ctx (s_wr rm_)) in
  let vs := flat_map (fun ck =>
      let img := fold_left apply_event (crash_events evs (fst ck) (snd ck)) fs0 in
      match open_abs img with
      | None => [0]
      | Some st_r =>
          match hrun Pr st_r h2m with
          | None => [0]
          | Some (s2, _) =>
              let '(s2', _) := step Pr s2 o_2 false in
              let evs2 := new_events s2 s2' in
              map (fun ck2 =>
                     let img2 := fold_left apply_event (crash_events evs2 (fst ck2) (snd ck2))
                                           (c_fs (w_ctx (s_wr s2))) in
                     match open_abs img2 with
                     | Some st_r2 =>
                         if smap_ext_eqb (abs_qs (s_qs st_r2)) (abs_qs (s_qs s2)) then 1
                         else if smap_ext_eqb (abs_qs (s_qs st_r2)) (abs_qs (s_qs s2')) then 2 else 0
                     | None => 0
                     end) (crash_points evs2)
          end
      end) (crash_points evs) in
  (lenN vs, lenN (filter (N.eqb 1) vs), lenN (filter (N.eqb 2) vs), lenN (filter (N.eqb 0) vs)).

Example self_census_ex : self_census = (593, 593, 4).
Proof. vm_compute. reflexivity. Qed.
Example second_census_ex : second_census = (1955, 1819, 136, 0).
Proof. vm_compute. reflexivity. Qed.

Print Assumptions crash_setting_m.
Print Assumptions crash_recovered_self_inst.
Print Assumptions crash_recovered_crash_inst.
Print Assumptions crash_histories_inst.
