(* NzcVacuous.v — why TornProofs.no_zero_collision / crc_collision bound the payload length.
   An earlier version of TornProofs.no_zero_collision P quantified over payloads of ANY length:
       forall ty fp n, n < lenN fp ->
         crcf P ty (takeN n fp ++ zerosN (lenN fp - n)) = crcf P ty fp ->
         takeN n fp ++ zerosN (lenN fp - n) = fp.
   Together with the 32-bit range of the checksum (forall t p, crcf P t p < 2^32) that formula is
   contradictory, by the pigeonhole principle: the 2^32 + 1 strings  1^n 0^(2^32 - n)
   (n = 0 .. 2^32) are pairwise "zero-completed proper prefixes" of one another, so the formula
   makes their checksums pairwise distinct (nzc_inconsistent below, stated about the OLD formula
   written out in full).  Every theorem assuming both was therefore vacuous.
   The repair made in TornProofs.v bounds the payload length in both definitions
   (lenN fp + 7 <= BS P: every payload whose checksum the reader verifies fits in a block after
   its 7-byte header).  This file also shows that the repaired hypothesis IS satisfiable together
   with the 32-bit range, for every admissible block size (nzc_bounded_sat), so the theorems that
   assume it (TornProofs.torn_read_nocoll, TornFile.open_torn, CrashAtomic.C02_crash_atomic, ...)
   are no longer vacuous on that account. *)
From Coq Require Import Lia ZArith ZifyN ZifyNat ZifyBool List.
From MRL Require Import Bytes BytesProofs Params FileStream TornProofs.

Arguments N.add : simpl never.
Arguments N.sub : simpl never.
Arguments N.mul : simpl never.
Arguments N.eqb : simpl never.
Arguments N.ltb : simpl never.
Arguments N.leb : simpl never.
Arguments N.div : simpl never.
Arguments N.modulo : simpl never.

(* ---------- a bounded search and the pigeonhole principle on N ---------- *)
Lemma bounded_search (p : N -> bool) : forall n,
  (exists i, i <= n /\ p i = true) \/ (forall i, i <= n -> p i = false).
Proof.
  induction n as [|n IH] using N.peano_ind.
  - destruct (p 0) eqn:E.
    + left. exists 0. split; [lia|exact E].
    + right. intros i Hi. assert (i = 0) by lia. now subst.
  - destruct IH as [(i & Hi & Hp)|Hall].
    + left. exists i. split; [lia|exact Hp].
    + destruct (p (N.succ n)) eqn:E.
      * left. exists (N.succ n). split; [lia|exact E].
      * right. intros i Hi. destruct (N.eq_dec i (N.succ n)) as [->|Hne]; [exact E|].
        apply Hall. lia.
Qed.

Lemma pigeonhole : forall (M : N) (g : N -> N),
  (forall i, i <= M -> g i < M) -> exists i j, i < j /\ j <= M /\ g i = g j.
Proof.
  induction M as [|M IH] using N.peano_ind; intros g Hg.
  - specialize (Hg 0 ltac:(lia)). lia.
  - set (v := g (N.succ M)).
    destruct (bounded_search (fun i => g i =? v) M) as [(i & Hi & Hp)|Hall].
    + exists i, (N.succ M). split; [lia|]. split; [lia|]. apply N.eqb_eq in Hp. exact Hp.
    + assert (Hne : forall i, i <= M -> g i <> v).
      { intros i Hi E. specialize (Hall i Hi). cbn beta in Hall. apply N.eqb_neq in Hall. contradiction. }
      assert (Hv : v < N.succ M) by (apply Hg; lia).
      set (g' := fun i => if g i =? M then v else g i).
      destruct (IH g') as (i & j & Hij & Hj & E).
      { intros i Hi. unfold g'. pose proof (Hg i ltac:(lia)). pose proof (Hne i Hi).
        destruct (N.eqb_spec (g i) M); lia. }
      exists i, j. split; [exact Hij|]. split; [lia|].
      unfold g' in E. pose proof (Hne i ltac:(lia)). pose proof (Hne j ltac:(lia)).
      destruct (N.eqb_spec (g i) M), (N.eqb_spec (g j) M); congruence.
Qed.

(* ---------- the strings 1^n 0^(M-n) ---------- *)
Definition onesN (n : N) : bytes := map (fun _ => x01) (zerosN n).

Lemma lenN_onesN n : lenN (onesN n) = n.
Proof. unfold onesN. rewrite lenN_length, map_length, <- lenN_length. apply lenN_zerosN. Qed.

Lemma takeN_onesN n m : n <= m -> takeN n (onesN m) = onesN n.
Proof.
  intros H. unfold onesN. rewrite takeN_firstn, firstn_map, <- takeN_firstn.
  now rewrite takeN_zerosN.
Qed.

Lemma dropN_onesN n m : dropN n (onesN m) = onesN (m - n).
Proof.
  unfold onesN. rewrite dropN_skipn, skipn_map, <- dropN_skipn. now rewrite dropN_zerosN.
Qed.

Lemma all_zero_onesN n : 0 < n -> all_zero (onesN n) = false.
Proof.
  intros H. unfold onesN. destruct (zerosN n) as [|b r] eqn:E.
  - apply (f_equal lenN) in E. rewrite lenN_zerosN, (@lenN_nil byte) in E. lia.
  - reflexivity.
Qed.

Definition step_str (M n : N) : bytes := onesN n ++ zerosN (M - n).

Lemma lenN_step_str M n : n <= M -> lenN (step_str M n) = M.
Proof. intros H. unfold step_str. rewrite lenN_app, lenN_onesN, lenN_zerosN. lia. Qed.

(* step_str M i is the zero-completed i-prefix of step_str M j *)
Lemma step_str_prefix M i j : i <= j -> j <= M ->
  takeN i (step_str M j) ++ zerosN (lenN (step_str M j) - i) = step_str M i.
Proof.
  intros Hij Hj. rewrite lenN_step_str by exact Hj. unfold step_str.
  rewrite takeN_app_le by (rewrite lenN_onesN; lia).
  now rewrite takeN_onesN.
Qed.

Lemma step_str_neq M i j : i < j -> j <= M -> step_str M i <> step_str M j.
Proof.
  intros Hij Hj E. apply (f_equal (fun l => all_zero (dropN i l))) in E. unfold step_str in E.
  rewrite dropN_app_ge in E by (rewrite lenN_onesN; lia).
  rewrite dropN_app_le in E by (rewrite lenN_onesN; lia).
  rewrite lenN_onesN, N.sub_diag, dropN_0, all_zero_zerosN, dropN_onesN, all_zero_app in E.
  rewrite all_zero_onesN in E by lia. discriminate.
Qed.

(* THE FINDING: the unbounded formula (the former definition of no_zero_collision P) is
   inconsistent with a 32-bit checksum.  It is NOT TornProofs.no_zero_collision any more. *)
Theorem nzc_inconsistent (P : params) :
  (forall t p, crcf P t p < 2 ^ 32) ->
  (forall ty fp n, n < lenN fp ->
     crcf P ty (takeN n fp ++ zerosN (lenN fp - n)) = crcf P ty fp ->
     takeN n fp ++ zerosN (lenN fp - n) = fp) ->
  False.
Proof.
  intros Hcrc Hnc. set (M := 2 ^ 32) in *.
  destruct (pigeonhole M (fun n => crcf P x00 (step_str M n))) as (i & j & Hij & Hj & E).
  { intros i _. apply Hcrc. }
  cbn beta in E.
  apply (step_str_neq M i j Hij Hj).
  pose proof (step_str_prefix M i j ltac:(lia) Hj) as Hp.
  rewrite <- Hp. apply (Hnc x00 (step_str M j) i).
  - rewrite lenN_step_str by exact Hj. lia.
  - rewrite Hp. exact E.
Qed.

(* the unbounded formula implies the repaired definition (so the repair only weakens the
   hypothesis of the torn-write theorems) *)
Lemma nzc_unbounded_bounded (P : params) :
  (forall ty fp n, n < lenN fp ->
     crcf P ty (takeN n fp ++ zerosN (lenN fp - n)) = crcf P ty fp ->
     takeN n fp ++ zerosN (lenN fp - n) = fp) ->
  no_zero_collision P.
Proof. intros H ty fp n _ Hn E. exact (H ty fp n Hn E). Qed.

(* ---------- the bounded property is satisfiable with a 32-bit checksum ---------- *)
(* 1 + the index of the last non-zero byte (0 for an all-zero string) *)
Fixpoint last_nz (bs : bytes) : N :=
  match bs with
  | [] => 0
  | b :: r => let k := last_nz r in
              if k =? 0 then (if Byte.eqb b x00 then 0 else 1) else k + 1
  end.

Lemma last_nz_le bs : last_nz bs <= lenN bs.
Proof.
  induction bs as [|b r IH]; [cbn [last_nz]; rewrite (@lenN_nil byte); lia|].
  cbn [last_nz]. rewrite lenN_cons. destruct (N.eqb_spec (last_nz r) 0); [destruct (Byte.eqb b x00)|]; lia.
Qed.

Lemma last_nz_zero bs : last_nz bs = 0 <-> all_zero bs = true.
Proof.
  induction bs as [|b r IH]; [cbn; tauto|].
  cbn [last_nz all_zero]. destruct (N.eqb_spec (last_nz r) 0) as [E|E].
  - destruct (Byte.eqb b x00); cbn [andb]; [tauto|]. split; [lia|discriminate].
  - split; [lia|]. intros H. apply andb_true_iff in H. tauto.
Qed.

(* everything from last_nz on is zero *)
Lemma last_nz_tail bs : all_zero (dropN (last_nz bs) bs) = true.
Proof.
  induction bs as [|b r IH]; [reflexivity|].
  cbn [last_nz]. destruct (N.eqb_spec (last_nz r) 0) as [E|E].
  - apply last_nz_zero in E. destruct (Byte.eqb b x00) eqn:Eb.
    + rewrite dropN_0. cbn [all_zero]. now rewrite Eb, E.
    + rewrite dropN_skipn. cbn. exact E.
  - rewrite dropN_skipn. replace (N.to_nat (last_nz r + 1)) with (S (N.to_nat (last_nz r))) by lia.
    cbn [skipn]. rewrite <- dropN_skipn. exact IH.
Qed.

(* last_nz of a zero-completed prefix is at most the length of the prefix *)
Lemma last_nz_app_zeros a z : last_nz (a ++ zerosN z) <= lenN a.
Proof.
  induction a as [|b r IH]; cbn [app].
  - rewrite (@lenN_nil byte). assert (last_nz (zerosN z) = 0); [|lia].
    apply last_nz_zero, all_zero_zerosN.
  - cbn [last_nz]. rewrite lenN_cons.
    destruct (N.eqb_spec (last_nz (r ++ zerosN z)) 0); [destruct (Byte.eqb b x00)|]; lia.
Qed.

Definition crc_sat : byte -> bytes -> N := fun _ p => N.min (last_nz p) (2 ^ 32 - 1).

Definition P_sat (bs nb : N) : params := mkParams bs nb crc_sat 24 false false false.

Lemma lenN_app_zeros_take (fp : bytes) n : n <= lenN fp ->
  lenN (takeN n fp ++ zerosN (lenN fp - n)) = lenN fp.
Proof. intros H. rewrite lenN_app, lenN_takeN, lenN_zerosN. lia. Qed.

Lemma crc_sat_lt t p : crc_sat t p < 2 ^ 32.
Proof.
  assert (Hpos : 0 < 2 ^ 32) by (vm_compute; reflexivity).
  unfold crc_sat. lia.
Qed.

Lemma nzc_P_sat bs nb : bs <= 65542 -> no_zero_collision (P_sat bs nb).
Proof.
  intros Hbs.
  assert (Hpow : 65542 < 2 ^ 32 - 1) by (vm_compute; reflexivity).
  intros ty fp n Hlen Hn E. cbn [crcf P_sat BS] in *. unfold crc_sat in E.
  pose proof (last_nz_le fp) as L1.
  pose proof (last_nz_le (takeN n fp ++ zerosN (lenN fp - n))) as L2.
  rewrite lenN_app_zeros_take in L2 by lia.
  rewrite !N.min_l in E by lia.
  pose proof (last_nz_app_zeros (takeN n fp) (lenN fp - n)) as H1.
  rewrite lenN_takeN in H1. rewrite E in H1.
  (* fp is zero from n on *)
  pose proof (last_nz_tail fp) as Ht.
  assert (Hz : all_zero (dropN n fp) = true).
  { replace n with (last_nz fp + (n - last_nz fp)) by lia.
    rewrite <- dropN_dropN. set (l := dropN (last_nz fp) fp) in *.
    rewrite <- (takeN_dropN (n - last_nz fp) l), all_zero_app in Ht.
    apply andb_true_iff in Ht. tauto. }
  rewrite <- (takeN_dropN n fp) at 3. f_equal.
  rewrite (all_zero_is_zeros _ Hz), lenN_dropN. reflexivity.
Qed.

(* the repaired hypothesis is satisfiable together with the 32-bit range of the checksum, for
   every block size allowed by the other standing hypotheses (7 < BS <= 65542) *)
Theorem nzc_bounded_sat : forall BSv NBv, 7 < BSv -> BSv <= 65542 ->
  exists crc, (forall t p, crc t p < 2 ^ 32) /\
              no_zero_collision (mkParams BSv NBv crc 24 false false false).
Proof.
  intros BSv NBv _ Hhi. exists crc_sat. split; [exact crc_sat_lt|].
  exact (nzc_P_sat BSv NBv Hhi).
Qed.

(* in particular the hypotheses of the torn-write theorems are jointly satisfiable *)
Corollary torn_hyps_sat : forall BSv NBv, 7 < BSv -> BSv <= 65542 ->
  exists P, BS P = BSv /\ NB P = NBv /\ 7 < BS P /\ BS P <= 65542 /\
            (forall t p, crcf P t p < 2 ^ 32) /\ no_zero_collision P /\
            L_GC P = false /\ L_IO P = false /\ L_SHORT P = false.
Proof.
  intros BSv NBv Hlo Hhi. exists (P_sat BSv NBv).
  repeat split; try assumption; try reflexivity.
  - intros t p. apply crc_sat_lt.
  - apply nzc_P_sat. exact Hhi.
Qed.

Print Assumptions nzc_inconsistent.
Print Assumptions nzc_bounded_sat.
Print Assumptions torn_hyps_sat.
