(* KAlign.v — TASK T14 follow-up (gap): the encoding of an entry cut exactly at a block boundary
   m*B that lies after its first frame position.  What is present is a run of COMPLETE frames
   (First/Middle, never Last): a reader walks over them silently - in record mode (A), in skip
   mode (C), and from every interior block boundary (D) - and ends AT the boundary, needing
   nothing after it.  This is the case where the data of a crash prefix end exactly at the end
   of a file whose successor has not been created. *)
From Coq Require Import Lia ZArith ZifyN ZifyNat ZifyBool List.
From MRL Require Import Bytes BytesProofs Params Frame Driver StreamProofs DamageProofs TornProofs ResyncProofs.

Arguments N.add : simpl never.
Arguments N.sub : simpl never.
Arguments N.mul : simpl never.
Arguments N.eqb : simpl never.
Arguments N.ltb : simpl never.
Arguments N.leb : simpl never.
Arguments N.div : simpl never.
Arguments N.modulo : simpl never.
Arguments N.min : simpl never.
Arguments N.max : simpl never.

Section Align.
Variable P : params.
Hypothesis HBS_lo : 7 < BS P.
Hypothesis HBS_hi : BS P <= 65542.
Hypothesis Hcrc : forall t p, crcf P t p < 2 ^ 32.

Local Notation B := (BS P).
Local Notation rframe := (read_frame P vecr (vr_next P) vr_block).
Local Notation gonext := (go_next P vecr (vr_next P) vr_block).
Local Notation padof := (pad_of P).
Local Notation chunkof := (chunk_of P).
Local Notation encrel := (enc_rel P).
Local Notation rdat := (rd_at P).
Local Notation atpos := (at_pos P).
Local Notation sok := (stream_ok P).
Local Notation fbytes := (frame_bytes P).
Local Notation ffp := (first_frame_pos P).
Local Notation H3 f := (f P HBS_lo HBS_hi Hcrc) (only parsing).
Local Notation H2 f := (f P HBS_lo HBS_hi) (only parsing).

(* from rr, n frames are consumed silently and the reader rr1 sits exactly at r *)
Definition q_walk (S : bytes) (len r : N) (rr : rreader vecr) (w1 : bool) : Prop :=
  exists n rr1, 7 * N.of_nat n <= len /\ atpos S (rr_fr rr1) r /\ rr_within rr1 = w1 /\
    forall g, gonext (n + g) rr = gonext g rr1.

Theorem aligned_walk a f p e k :
  encrel a f p e k -> forall j m, j < lenN e -> a + j = m * B -> ffp a < m * B ->
  a + 7 <= m * B /\
  forall S pre post,
    sok S -> S = pre ++ takeN j e ++ post -> lenN pre = a -> m * B <= lenN S ->
    (forall fr rbuf within, atpos S fr a -> (f = true \/ within = true) ->
       q_walk S j (m * B) (mkRR fr rbuf within) true) /\
    (f = false -> forall fr rbuf, atpos S fr a -> q_walk S j (m * B) (mkRR fr rbuf false) false) /\
    (forall kb rbuf, ffp a < kb * B -> kb * B < m * B ->
       q_walk S (m * B - kb * B) (m * B) (mkRR (rdat S kb 0) rbuf false) false).
Proof.
  induction 1 as [a f p Hd | a f p e k Hd Hr IH]; intros j m Hj Haj Hffp.
  - (* a single (last) frame cannot reach a later block boundary *)
    exfalso. set (fp := takeN (chunkof a p) p) in *.
    pose proof (H3 StreamProofs.chunk_le_maxw a p) as Hmw. fold fp in Hmw.
    destruct (H2 TornProofs.pad_geom a) as (k' & c' & Hp & Hc' & Hmw' & _).
    rewrite Hmw' in Hmw.
    rewrite lenN_app, (StreamProofs.lenN_frame_bytes P) in Hj.
    unfold first_frame_pos in Hffp. rewrite Hp in Hffp.
    assert (Hk1 : k' * B < m * B) by lia. apply (H2 TornProofs.mulB_lt_inv) in Hk1.
    assert (Hk2 : m * B < (k' + 1) * B) by lia. apply (H2 TornProofs.mulB_lt_inv) in Hk2. lia.
  - set (fp := takeN (chunkof a p) p) in *.
    set (fb := fbytes (frame_type f false) fp) in *.
    assert (Hlfp : lenN fp = chunkof a p) by apply (H3 StreamProofs.lenN_take_chunk).
    assert (Hl1 : lenN (padof a ++ fb) = lenN (padof a) + 7 + chunkof a p).
    { unfold fb. rewrite lenN_app, (StreamProofs.lenN_frame_bytes P), Hlfp. lia. }
    destruct (H2 TornProofs.pad_geom a) as (k' & c' & Hp & Hc' & Hmw & _).
    pose proof (H3 chunk_full a p Hd) as Hch.
    set (a1 := a + lenN (padof a) + 7 + chunkof a p) in *.
    assert (Ha1 : a1 = (k' + 1) * B) by (unfold a1; lia).
    set (l1 := lenN (padof a ++ fb)) in *.
    assert (Ea1 : a1 = a + l1) by lia.
    assert (Hm1 : a1 <= m * B).
    { unfold first_frame_pos in Hffp. rewrite Hp in Hffp. rewrite Ha1.
      assert (Hk1 : k' * B < m * B) by lia. apply (H2 TornProofs.mulB_lt_inv) in Hk1.
      apply (TornProofs.mulB_le P). lia. }
    split; [lia|].
    assert (Hframe : forall S pre post', sok S -> S = pre ++ padof a ++ fb ++ post' -> lenN pre = a ->
              forall fr, atpos S fr a ->
                exists fr', rframe fr = (fr', FOk (frame_type f false) fp) /\ atpos S fr' a1).
    { intros S pre post' Hok HS Hpre fr Hat.
      destruct (H3 StreamProofs.read_frame_at S fr a pre _ _ post' Hok Hat HS Hpre
                  (H3 StreamProofs.chunk_le_maxw a p)) as (fr' & Hrf & Hat').
      fold fp in Hrf, Hat'. rewrite Hlfp in Hat'. fold a1 in Hat'. exists fr'. split; assumption. }
    assert (Hno : forall kb, ffp a < kb * B -> kb * B < a1 -> False).
    { intros kb H1 H2'. unfold first_frame_pos in H1. rewrite Hp in H1. rewrite Ha1 in H2'.
      assert (Hk1 : k' * B < kb * B) by lia. apply (H2 TornProofs.mulB_lt_inv) in Hk1.
      apply (H2 TornProofs.mulB_lt_inv) in H2'. lia. }
    destruct (N.eq_dec a1 (m * B)) as [Eend|Hne].
    + (* the cut is right after this frame *)
      assert (Ej : j = l1) by lia.
      intros S pre post Hok HS Hpre Hlen.
      rewrite Ej in HS. unfold l1 in HS.
      rewrite (app_assoc (padof a) fb e), takeN_app_exact, <- app_assoc in HS.
      rewrite <- Eend.
      split; [|split].
      * intros fr rbuf within Hat Hfw.
        assert (Hw : (if f then true else within) = true)
          by (destruct f; [reflexivity | destruct Hfw as [Hf|Hw]; [discriminate|exact Hw]]).
        destruct (Hframe S pre post Hok HS Hpre fr Hat) as (fr' & Hrf & Hat').
        exists 1%nat, (mkRR fr' ((if f then [] else rbuf) ++ fp) true).
        split; [lia|]. split; [exact Hat'|]. split; [reflexivity|].
        intros g. cbn [Nat.add go_next rr_fr rr_buf rr_within]. rewrite Hrf.
        rewrite is_first_frame_type, is_last_frame_type, Hw. reflexivity.
      * intros -> fr rbuf Hat.
        destruct (Hframe S pre post Hok HS Hpre fr Hat) as (fr' & Hrf & Hat').
        exists 1%nat, (mkRR fr' rbuf false).
        split; [lia|]. split; [exact Hat'|]. split; [reflexivity|].
        intros g. cbn [Nat.add go_next rr_fr rr_buf rr_within]. rewrite Hrf. reflexivity.
      * intros kb rbuf H1 H2'. exfalso. exact (Hno kb H1 H2').
    + assert (Hlt1 : a1 < m * B) by lia.
      assert (Hj1 : j - l1 < lenN e).
      { rewrite app_assoc, lenN_app in Hj. fold l1 in Hj. lia. }
      assert (Ef1 : ffp a1 = a1) by (rewrite Ha1; apply (H2 ffp_aligned)).
      destruct (IH (j - l1) m Hj1 ltac:(lia) ltac:(lia)) as (_ & IHw).
      intros S pre post Hok HS Hpre Hlen.
      rewrite (app_assoc (padof a) fb e), takeN_app_ge in HS by (fold l1; lia).
      fold l1 in HS. rewrite <- !app_assoc in HS.
      assert (HS1 : S = (pre ++ padof a ++ fb) ++ takeN (j - l1) e ++ post)
        by (rewrite HS, <- !app_assoc; reflexivity).
      assert (Hpre1 : lenN (pre ++ padof a ++ fb) = a1) by (rewrite lenN_app; fold l1; lia).
      destruct (IHw S (pre ++ padof a ++ fb) post Hok HS1 Hpre1 Hlen) as (IHA & IHC & IHD).
      split; [|split].
      * intros fr rbuf within Hat Hfw.
        assert (Hw : (if f then true else within) = true)
          by (destruct f; [reflexivity | destruct Hfw as [Hf|Hw]; [discriminate|exact Hw]]).
        destruct (Hframe S pre _ Hok HS Hpre fr Hat) as (fr' & Hrf & Hat').
        destruct (IHA fr' ((if f then [] else rbuf) ++ fp) true Hat' (or_intror eq_refl))
          as (n & rr1 & Hn & Hat1 & Hw1 & Hgo).
        exists (Datatypes.S n), rr1. split; [lia|]. split; [exact Hat1|]. split; [exact Hw1|].
        intros g. cbn [Nat.add go_next rr_fr rr_buf rr_within]. rewrite Hrf.
        rewrite is_first_frame_type, is_last_frame_type, Hw. apply Hgo.
      * intros -> fr rbuf Hat.
        destruct (Hframe S pre _ Hok HS Hpre fr Hat) as (fr' & Hrf & Hat').
        destruct (IHC eq_refl fr' rbuf Hat') as (n & rr1 & Hn & Hat1 & Hw1 & Hgo).
        exists (Datatypes.S n), rr1. split; [lia|]. split; [exact Hat1|]. split; [exact Hw1|].
        intros g. cbn [Nat.add go_next rr_fr rr_buf rr_within]. rewrite Hrf. apply Hgo.
      * intros kb rbuf H1 H2'.
        destruct (N.lt_ge_cases (kb * B) a1) as [Hlt|Hge]; [exfalso; exact (Hno kb H1 Hlt)|].
        destruct (N.eq_dec (kb * B) a1) as [E|Hne'].
        -- assert (Hblk : (kb + 1) * B <= lenN S).
           { assert (Hk2 : kb * B < m * B) by lia. apply (H2 TornProofs.mulB_lt_inv) in Hk2.
             assert ((kb + 1) * B <= m * B) by (apply (TornProofs.mulB_le P); lia). lia. }
           pose proof (H3 at_pos_boundary S kb Hblk) as Hatb. rewrite E in Hatb.
           destruct (IHC eq_refl (rdat S kb 0) rbuf Hatb) as (n & rr1 & Hn & Hat1 & Hw1 & Hgo).
           exists n, rr1. split; [lia|]. split; [exact Hat1|]. split; [exact Hw1|exact Hgo].
        -- apply IHD; [rewrite Ef1; lia|exact H2'].
Qed.

End Align.

Print Assumptions aligned_walk.
