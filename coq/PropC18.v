(* PropC18.v — C18: queues are isolated from one another, live and across clean restarts (histories from a fresh directory, hist_ok); the crash part rests on C02.
   Statements only; each theorem is closed by `exact <lemma>`; proofs live in the imported files. *)
From Coq Require Import Lia NArith List.
From MRL Require Import Bytes Params Names Frame Record Mem Spec Rolling Log Hist SpecRefine QueueIso RecordProofs RestartInv RestartFinal RestartCorollaries CrashCorollaries PersistSurvive CrashAtomic DamageAtomic PowerLoss PowerCorollaries.

(* specification level: removing the calls addressed to other queues changes neither q's content nor the outcomes of q's calls *)
Theorem C18_spec_projection :
    forall (h : list sop) (m1 m2 : smap) (q : bytes),
    s_get m1 q = s_get m2 q ->
    s_get (fst (s_run m1 h)) q = s_get (fst (s_run m2 (filter (addressed q) h))) q /\
    keep_outs (addressed q) h (snd (s_run m1 h)) = snd (s_run m2 (filter (addressed q) h)).
Proof. exact s_run_projection. Qed.
Print Assumptions C18_spec_projection.

(* the log: same for any history without I/O failure; range, last_position and last_record of q agree too *)
Theorem C18_log_projection :
    forall (P : params) (h : list (op * bool)) (st1 st2 : state) (q : bytes) (st1' : state)
    (outs1 : list outcome) (st2' : state) (outs2 : list outcome),
    qs_inv (s_qs st1) ->
    qs_inv (s_qs st2) ->
    s_get (abs_qs (s_qs st1)) q = s_get (abs_qs (s_qs st2)) q ->
    run P st1 h = (st1', outs1) ->
    run P st2 (filter (on_queue q) h) = (st2', outs2) ->
    forallb (fun o : outcome => negb (WriterProofs.is_io o)) outs1 = true ->
    forallb (fun o : outcome => negb (WriterProofs.is_io o)) outs2 = true ->
    s_get (abs_qs (s_qs st1')) q = s_get (abs_qs (s_qs st2')) q /\
    map out_logical (keep_outs (on_queue q) h outs1) = map out_logical outs2 /\
    (forall lo hi : bound, log_range st1' q lo hi = log_range st2' q lo hi) /\
    log_last_position st1' q = log_last_position st2' q /\ log_last_record st1' q = log_last_record st2' q.
Proof. exact log_projection_no_io. Qed.
Print Assumptions C18_log_projection.

(* one call addressed to another queue leaves q's content and all three reads unchanged *)
Theorem C18_log_step_other :
    forall (P : params) (st : state) (o : op) (tick : bool) (st' : state) (out : outcome) (q : bytes),
    qs_inv (s_qs st) ->
    step P st o tick = (st', out) ->
    WriterProofs.is_io out = false ->
    sop_queue (sop_of o) <> Some q ->
    s_get (abs_qs (s_qs st')) q = s_get (abs_qs (s_qs st)) q /\
    (forall lo hi : bound, log_range st' q lo hi = log_range st q lo hi) /\
    log_last_position st' q = log_last_position st q /\ log_last_record st' q = log_last_record st q.
Proof. exact log_step_other. Qed.
Print Assumptions C18_log_step_other.

(* replay: an entry only touches the queue it names (restart side, entry level) *)
Theorem C18_replay_other_untouched :
    forall (qs : queues) (file : N) (e : entry) (qs' : queues) (q' : bytes),
    entry_queue e <> q' -> apply_entry qs file e = Some qs' -> qs_get qs' q' = qs_get qs q'.
Proof. exact apply_other_queue_untouched. Qed.
Print Assumptions C18_replay_other_untouched.

(* histories with restarts anywhere: removing the calls addressed to other queues (keeping the restarts) changes neither q's final content (range, last_position, last_record) nor the logical outcomes of q's calls *)
Theorem C18_projection_with_restarts :
    forall P : params,
    7 < BS P ->
    BS P <= 65542 ->
    1 <= NB P ->
    (forall (t : byte) (p : bytes), crcf P t p < 2 ^ 32) ->
    L_GC P = false ->
    L_IO P = false ->
    forall (pol0 : policy) (st0 : state) (h : list hop) (q : bytes),
    open P [] None pol0 [] = OpenOk st0 ->
    hist_ok P st0 h ->
    hist_ok P st0 (hproj q h) ->
    exists (st1 : state) (outs1 : list outcome) (st2 : state) (outs2 : list outcome)
    (souts2 : list sout),
    hrun P st0 h = Some (st1, outs1) /\
    hrun P st0 (hproj q h) = Some (st2, outs2) /\
    s_get (abs_qs (s_qs st1)) q = s_get (abs_qs (s_qs st2)) q /\
    (forall lo hi : bound, log_range st1 q lo hi = log_range st2 q lo hi) /\
    log_last_position st1 q = log_last_position st2 q /\
    log_last_record st1 q = log_last_record st2 q /\
    map out_logical outs2 = map Some souts2 /\
    map out_logical (keep_outs (on_queue q) (hcalls_t h) outs1) = map Some souts2.
Proof. exact projection_with_restarts. Qed.
Print Assumptions C18_projection_with_restarts.

(* a history of restarts and calls on other queues leaves q untouched, file deletion included *)
Theorem C18_others_and_restarts_invisible :
    forall P : params,
    7 < BS P ->
    BS P <= 65542 ->
    1 <= NB P ->
    (forall (t : byte) (p : bytes), crcf P t p < 2 ^ 32) ->
    L_GC P = false ->
    L_IO P = false ->
    forall (h : list hop) (q : bytes) (st : state) (G : ghost) (st' : state) (outs : list outcome),
    Inv P st G ->
    hist_ok P st h ->
    hrun P st h = Some (st', outs) ->
    (forall o : op, In o (hcalls h) -> sop_queue (sop_of o) <> Some q) ->
    s_get (abs_qs (s_qs st')) q = s_get (abs_qs (s_qs st)) q /\
    (forall lo hi : bound, log_range st' q lo hi = log_range st q lo hi) /\
    log_last_position st' q = log_last_position st q /\ log_last_record st' q = log_last_record st q.
Proof. exact others_and_restarts_invisible. Qed.
Print Assumptions C18_others_and_restarts_invisible.

(* crash half: after recovery from any crash image, the content of q (range, last_position, last_record, next position) is that of the specification run over the calls addressed to q alone, up to some prefix: other queues' calls, including those whose truncations/deletions deleted files before the crash, do not influence what q recovers to *)
Theorem C18_crash_projection :
    forall P : params,
    7 < BS P ->
    BS P <= 65542 ->
    1 <= NB P ->
    (forall (t : byte) (p : bytes), crcf P t p < 2 ^ 32) ->
    L_GC P = false ->
    L_IO P = false ->
    L_SHORT P = false ->
    TornProofs.no_zero_collision P ->
    forall (st0 : state) (G0 : ghost),
    Inv P st0 G0 ->
    w_pending (s_wr st0) = [] ->
    forall h : list (op * bool),
    GhostLog.hist_wf P st0 h ->
    RestartWrite.stream_bound P G0 (map snd (GhostLog.run_log P st0 h)) ->
    CB P st0 h ->
    forall evs : list event,
    c_ev (w_ctx (s_wr (fst (run P st0 h)))) = rev evs ++ c_ev (w_ctx (s_wr st0)) ->
    forall (cut k : N) (pol : policy) (hint : list bytes),
    exists (m : nat) (st_r : state),
    (m <= length h)%nat /\
    open P (fold_left Driver.apply_event (Driver.crash_events evs cut k) (c_fs (w_ctx (s_wr st0)))) None
    pol hint = OpenOk st_r /\
    (forall (q : bytes) (m0 : smap),
    s_get m0 q = s_get (abs_qs (s_qs st0)) q ->
    let mq := fst (s_run m0 (filter (addressed q) (firstn m (sops h)))) in
    s_get (abs_qs (s_qs st_r)) q = s_get mq q /\
    (forall lo hi : bound, log_range st_r q lo hi = s_range mq q lo hi) /\
    log_last_position st_r q = s_last_position mq q /\
    log_last_record st_r q = s_last_record mq q /\ log_next st_r q = next_or0 (s_get mq q)).
Proof. exact crash_projection. Qed.
Print Assumptions C18_crash_projection.

(* the same for Always policies from a fresh directory *)
Theorem C18_crash_projection_always :
    forall P : params,
    7 < BS P ->
    BS P <= 65542 ->
    1 <= NB P ->
    (forall (t : byte) (p : bytes), crcf P t p < 2 ^ 32) ->
    L_GC P = false ->
    L_IO P = false ->
    L_SHORT P = false ->
    TornProofs.no_zero_collision P ->
    forall (a : bool) (st0 : state) (h : list hop) (st : state) (outs : list outcome)
    (o : op) (tick : bool) (st' : state) (out : outcome),
    open P [] None (PAlways a) [] = OpenOk st0 ->
    hrun P st0 h = Some (st, outs) ->
    hist_ok P st0 h ->
    always_hist a h ->
    GhostLog.op_wf_strict (s_qs st) o ->
    crash_phys_bound P (s_wr st) (map snd (GhostLog.step_log P st o)) (abs_qs (s_qs st)) ->
    crash_phys_bound P (s_wr st) (map snd (GhostLog.step_log P st o)) (abs_qs (s_qs st')) ->
    step P st o tick = (st', out) ->
    exists evs : list event,
    c_ev (w_ctx (s_wr st')) = rev evs ++ c_ev (w_ctx (s_wr st)) /\
    (forall (cut k : N) (pol : policy) (hint : list bytes),
    exists (st_r : state) (calls_r : list sop),
    open P (fold_left Driver.apply_event (Driver.crash_events evs cut k) (c_fs (w_ctx (s_wr st))))
    None pol hint = OpenOk st_r /\
    (calls_r = map sop_of (hcalls h) \/ calls_r = map sop_of (hcalls h) ++ [sop_of o]) /\
    (forall q : bytes,
    let mq := fst (s_run [] (filter (addressed q) calls_r)) in
    s_get (abs_qs (s_qs st_r)) q = s_get mq q /\
    (forall lo hi : bound, log_range st_r q lo hi = s_range mq q lo hi) /\
    log_last_position st_r q = s_last_position mq q /\
    log_last_record st_r q = s_last_record mq q /\ log_next st_r q = next_or0 (s_get mq q))).
Proof. exact crash_projection_always. Qed.
Print Assumptions C18_crash_projection_always.

(* power loss: after recovery from any power-loss image, the content of q is that of the specification run over the calls addressed to q in some prefix of the history *)
Theorem C18_power_projection :
    forall P : params,
    7 < BS P ->
    BS P <= 65542 ->
    1 <= NB P ->
    (forall (t : byte) (p : bytes), crcf P t p < 2 ^ 32) ->
    L_GC P = false ->
    L_IO P = false ->
    L_SHORT P = false ->
    TornProofs.no_zero_collision P ->
    forall (st0 : state) (G0 : ghost),
    Inv P st0 G0 ->
    w_pending (s_wr st0) = [] ->
    forall h : list (op * bool),
    GhostLog.hist_wf P st0 h ->
    RestartWrite.stream_bound P G0 (map snd (GhostLog.run_log P st0 h)) ->
    forall evs : list event,
    c_ev (w_ctx (s_wr (fst (run P st0 h)))) = rev evs ++ c_ev (w_ctx (s_wr st0)) ->
    CB P st0 h ->
    forall (cut : N) (pol : policy) (hint : list bytes),
    exists (m : nat) (st_r : state),
    (m <= length h)%nat /\
    open P (fold_left Driver.apply_event (Driver.power_events evs cut) (c_fs (w_ctx (s_wr st0)))) None
    pol hint = OpenOk st_r /\
    (forall (q : bytes) (m0 : smap),
    s_get m0 q = s_get (abs_qs (s_qs st0)) q ->
    let mq := fst (s_run m0 (filter (addressed q) (firstn m (sops h)))) in
    s_get (abs_qs (s_qs st_r)) q = s_get mq q /\
    (forall lo hi : bound, log_range st_r q lo hi = s_range mq q lo hi) /\
    log_last_position st_r q = s_last_position mq q /\
    log_last_record st_r q = s_last_record mq q /\ log_next st_r q = next_or0 (s_get mq q)).
Proof. exact power_projection. Qed.
Print Assumptions C18_power_projection.

(* and that prefix includes every call up to a point where everything was flushed and synced before the power failed *)
Theorem C18_power_projection_after_persist :
    forall P : params,
    7 < BS P ->
    BS P <= 65542 ->
    1 <= NB P ->
    (forall (t : byte) (p : bytes), crcf P t p < 2 ^ 32) ->
    L_GC P = false ->
    L_IO P = false ->
    L_SHORT P = false ->
    TornProofs.no_zero_collision P ->
    forall (st0 : state) (G0 : ghost),
    Inv P st0 G0 ->
    w_pending (s_wr st0) = [] ->
    forall h : list (op * bool),
    GhostLog.hist_wf P st0 h ->
    RestartWrite.stream_bound P G0 (map snd (GhostLog.run_log P st0 h)) ->
    forall evs : list event,
    c_ev (w_ctx (s_wr (fst (run P st0 h)))) = rev evs ++ c_ev (w_ctx (s_wr st0)) ->
    CB P st0 h ->
    forall (i : nat) (evs_i : list event),
    (i <= length h)%nat ->
    let st_i := fst (run P st0 (firstn i h)) in
    w_pending (s_wr st_i) = [] ->
    PersistProofs.wr_all_synced (s_wr st_i) ->
    c_ev (w_ctx (s_wr st_i)) = rev evs_i ++ c_ev (w_ctx (s_wr st0)) ->
    forall (cut : N) (pol : policy) (hint : list bytes),
    lenN evs_i <= cut ->
    exists (m : nat) (st_r : state),
    (i <= m)%nat /\
    (m <= length h)%nat /\
    open P (fold_left Driver.apply_event (Driver.power_events evs cut) (c_fs (w_ctx (s_wr st0)))) None
    pol hint = OpenOk st_r /\
    (forall (q : bytes) (m0 : smap),
    s_get m0 q = s_get (abs_qs (s_qs st0)) q ->
    let mq := fst (s_run m0 (filter (addressed q) (firstn m (sops h)))) in
    s_get (abs_qs (s_qs st_r)) q = s_get mq q /\
    (forall lo hi : bound, log_range st_r q lo hi = s_range mq q lo hi) /\
    log_last_position st_r q = s_last_position mq q /\
    log_last_record st_r q = s_last_record mq q /\ log_next st_r q = next_or0 (s_get mq q)).
Proof. exact power_projection_after_persist. Qed.
Print Assumptions C18_power_projection_after_persist.

