(* JGc.v — TASK T14-A: port of RestartGc.v (sections 1,2,4,5) to the junk-tolerant invariant InvJ
   (JInv.v).  The ghost operations gh_move / gh_app, the GC geometry and all logical lemmas are
   reused from RestartGc.v unchanged. *)
From Coq Require Import Lia ZArith ZifyN ZifyNat ZifyBool List Sorted.
From MRL Require Import Bytes BytesProofs Params Names NamesProofs Frame Record Mem Spec Rolling Log
  Driver SpecRefine RecordProofs StreamProofs PolicyProofs GcProofs GhostLog ReplaySpec
  HandleProofs FileStream ResyncProofs RestartInv RestartWrite RestartGc JInv.

Arguments N.add : simpl never.
Arguments N.sub : simpl never.
Arguments N.mul : simpl never.
Arguments N.eqb : simpl never.
Arguments N.ltb : simpl never.
Arguments N.leb : simpl never.
Arguments N.div : simpl never.
Arguments N.modulo : simpl never.
Arguments N.min : simpl never.
Arguments N.max : simpl never.

(* ---------- small list facts ---------- *)
Lemma firstn_add_skipn {A} : forall k m (l : list A),
  firstn (k + m) l = firstn k l ++ firstn m (skipn k l).
Proof.
  induction k as [|k IH]; intros m l; [reflexivity|].
  destruct l as [|x l]; [cbn [Nat.add firstn skipn app]; now rewrite firstn_nil|].
  cbn [Nat.add firstn skipn app]. now rewrite IH.
Qed.

Lemma skipn_add_skipn {A} : forall k m (l : list A),
  skipn (k + m) l = skipn m (skipn k l).
Proof.
  induction k as [|k IH]; intros m l; [reflexivity|].
  destruct l as [|x l]; [cbn [Nat.add skipn]; now rewrite skipn_nil|].
  cbn [Nat.add skipn]. apply IH.
Qed.

Lemma nth_error_firstn_lt {A} : forall m (l : list A) j,
  (j < m)%nat -> nth_error (firstn m l) j = nth_error l j.
Proof.
  induction m as [|m IH]; intros l j H; [lia|].
  destruct l as [|x l]; [reflexivity|]. destruct j as [|j]; [reflexivity|].
  cbn [firstn nth_error]. apply IH. lia.
Qed.

Section JGc.
Variable P : params.
Hypothesis HBS_lo : 7 < BS P.
Hypothesis HBS_hi : BS P <= 65542.
Hypothesis HNB : 1 <= NB P.
Hypothesis Hcrc : forall t p, crcf P t p < 2 ^ 32.
Hypothesis HGC : L_GC P = false.      (* the current code: the GC persists before unlinking *)
Variable PRE : bytes.
Variable OLD : list entry.
Variable opos : list (N * N).
Hypothesis Hpre : pre_ok PRE OLD opos.

Local Notation B := (BS P).
Local Notation FB := (FILE_BYTES P).
Local Notation ffp := (first_frame_pos P).
Local Notation H3 f := (f P HBS_lo HBS_hi Hcrc) (only parsing).
Local Notation H2 f := (f P HBS_lo HBS_hi) (only parsing).
Local Notation HW f := (f P HBS_lo HBS_hi HNB Hcrc) (only parsing).
Local Notation HN f := (f P HBS_lo HBS_hi HNB) (only parsing).
Local Notation PInvJ := (PInvJ P PRE OLD opos).
Local Notation InvJ := (InvJ P PRE OLD opos).
Local Notation stream_boundJ := (stream_boundJ P PRE OLD).
Local Notation jT := (jT P PRE OLD).
Local Notation jpos := (jpos P PRE OLD opos).

(* ====================================================================== *)
(* 1. the invariant sees the writer through its key and its logical files *)
(* ====================================================================== *)

Lemma pinvJ_transfer w w' G :
  wkey w' = wkey w -> vfs w' = vfs w -> wf w' -> wd_ok w' -> nd w' -> PInvJ w G -> PInvJ w' G.
Proof.
  intros Hk Hv Hwf Hwd Hnd (Hw & _ & _ & Hrest).
  destruct (wkey_inv _ _ Hk) as (Ef & Ec & Eo & Em).
  unfold JInv.PInvJ, wlo, wpos, wstream in *. rewrite Hv, Ef, Ec, Eo.
  split; [exact (winv_transfer P w w' Hk Hv Hwf Hw)|]. split; [exact Hwd|]. split; [exact Hnd|].
  exact Hrest.
Qed.

Lemma pinvJ_persist w a G : PInvJ w G -> PInvJ (wr_persist w a) G.
Proof.
  intros HP. pose proof HP as ((_ & Hwf & _) & Hwd & Hnd & _).
  destruct (wr_persist_rel w a Hwf) as (_ & Hwf' & _).
  apply (pinvJ_transfer w); [apply wr_persist_key|apply wr_persist_vfs|exact Hwf'| | |exact HP].
  - now apply wr_persist_wd_ok.
  - now apply wr_persist_nd.
Qed.

Lemma invJ_persist st a G : InvJ st G -> InvJ (persist st a) G.
Proof.
  intros (HP & HL). split; cbn [persist set_wr s_wr s_qs].
  - now apply pinvJ_persist.
  - now rewrite wlo_persist.
Qed.

Lemma invJ_persist_on_policy st tick G : InvJ st G -> InvJ (persist_on_policy st tick) G.
Proof.
  intros H. unfold persist_on_policy. destruct (s_pol st) as [|a|a]; [exact H| |].
  - destruct tick; [now apply invJ_persist|exact H].
  - now apply invJ_persist.
Qed.

(* ====================================================================== *)
(* 2. the position records of the empty queues                            *)
(* ====================================================================== *)

Lemma invJ_record_positions names : forall st G acc st' r,
  InvJ st G -> names_empty (s_qs st) names ->
  stream_boundJ G (map snd (rp_log P st names)) ->
  record_positions P st names acc = (st', r) ->
  (exists n, r = Ok n) /\ s_qs st' = s_qs st /\ s_pol st' = s_pol st /\
  wlo (s_wr st') = wlo (s_wr st) /\ w_file (s_wr st) <= w_file (s_wr st') /\
  InvJ st' (gh_app G (rp_log P st names)) /\
  (forall n q, In n names -> qs_get (s_qs st) n = Some q ->
     exists f, In (f, EPosition n (next_position q)) (rp_log P st names) /\ w_file (s_wr st) <= f).
Proof.
  induction names as [|n names IH]; intros st G acc st' r HI Hne Hb Hrp.
  - cbn [record_positions] in Hrp. inversion Hrp; subst. cbn [rp_log]. rewrite gh_app_nil.
    split; [eexists; reflexivity|]. repeat (split; [reflexivity || lia || exact HI|]).
    intros n q [].
  - cbn [record_positions] in Hrp. cbn [rp_log] in *.
    assert (Hne' : names_empty (s_qs st) names).
    { intros n' q' Hin. apply Hne. now right. }
    destruct (qs_get (s_qs st) n) as [q|] eqn:Eq.
    + destruct (write_entry P st (EPosition n (next_position q))) as [st1 r1] eqn:Ew.
      pose proof HI as (HPJ & HL).
      pose proof (HW jlen_le PRE OLD opos _ _ HPJ) as Hjl.
      destruct (position_entry_facts _ _ _ n q HL Eq (Hne n q (or_introl eq_refl) Eq))
        as (Hwf & Hleg & Hap).
      cbn [map snd] in Hb.
      assert (Hb1 : stream_boundJ G [EPosition n (next_position q)]).
      { eapply (HW stream_boundJ_prefix). exact Hb. }
      destruct (HW invJ_write_entry PRE OLD opos st G _ st1 r1 (s_qs st) Hpre HI Hwf
                  Hb1 Hleg Ew (Hap _) (proj1 HL))
        as ((k & ->) & Eqs1 & Epol1 & Elo1 & Hm1 & HI1).
      rewrite (set_qs_same st1 _ Eqs1) in HI1.
      cbn [fst] in Hb. apply (JInv.stream_boundJ_snoc P PRE OLD G (w_file (s_wr st)) _ _ Hjl) in Hb.
      rewrite <- Eqs1 in Hne'.
      destruct (IH st1 _ (acc + k) st' r HI1 Hne' Hb Hrp)
        as (Hr & Eqs & Epol & Elo & Hm & HI' & Hcov).
      rewrite gh_app_snoc in HI'.
      split; [exact Hr|]. split; [congruence|]. split; [congruence|]. split; [congruence|].
      split; [lia|]. split; [exact HI'|].
      intros n' q' [<-|Hin] Eq'.
      * rewrite Eq in Eq'. inversion Eq'; subst q'. exists (w_file (s_wr st)). split; [now left|lia].
      * rewrite <- Eqs1 in Eq'. destruct (Hcov n' q' Hin Eq') as (f & Hf & Hle).
        exists f. split; [now right|lia].
    + destruct (IH st G acc st' r HI Hne' Hb Hrp) as (Hr & Eqs & Epol & Elo & Hm & HI' & Hcov).
      repeat (split; [assumption|]).
      intros n' q' [<-|Hin] Eq'; [congruence|]. now apply Hcov.
Qed.

(* ====================================================================== *)
(* 4. deleting a prefix of unreferenced files                             *)
(* ====================================================================== *)

Lemma jT_move G m : jT (gh_move G m) = jT G.
Proof. unfold JInv.jT, jser, jNEW. now rewrite gh_move_ALL. Qed.

Lemma jpos_move G m : jpos (gh_move G m) = jpos G.
Proof. unfold JInv.jpos, jser, jNEW. now rewrite gh_move_ALL. Qed.

Lemma invJ_gc_drop st G refd c files' g :
  InvJ st G -> w_pending (s_wr st) = [] ->
  gc_loop (w_ctx (s_wr st)) (w_files (s_wr st)) refd = (c, files', Ok tt) ->
  (forall x, refd x = false -> qs_ref x (s_qs st) = false) ->
  refd g = true -> wlo (s_wr st) <= g ->
  (forall q m, qs_get (s_qs st) q = Some m -> mq_is_empty m = true ->
     exists j f e, nth_error (gh_E G) j = Some (f, e) /\ creates e q = true /\ g <= f) ->
  exists m,
    InvJ (set_wr st (mkWr c files' (w_file (s_wr st)) (w_off (s_wr st)) (w_pending (s_wr st))))
        (gh_move G m).
Proof.
  intros (HP & HL) Hpend Hgc Hrefq Hg Hglo Hempty.
  set (w := s_wr st) in *. set (qs := s_qs st) in *.
  destruct HP as (Hw & Hwd & Hnd & Hbase & Hc1 & Hc2 & Hs & HWf & Hold & HD1 & HD2 & Htags).
  cbn zeta in *.
  pose proof Hw as (Hok & Hwfw & Hoff & Hpl & Hfile & Hfull & Hfresh).
  destruct (HN gc_geometry w refd c files' Hok Hgc)
    as (dropped & Ef & Hun & Hok' & Elo & Hrange & Hlt & Efs & Epl).
  set (w' := mkWr c files' (w_file w) (w_off w) (w_pending w)) in *.
  set (d := lenN dropped) in *.
  set (dl := wlo w - gh_base G) in *.
  assert (Edl' : wlo w' - gh_base G = dl + d) by lia.
  set (b' := (dl + d) * FB).
  set (posE := skipn (gh_k G) (jpos G)) in *.
  assert (HsortE : StronglySorted (fun s s' : N * N => snd s < snd s') posE).
  { unfold posE. apply StronglySorted_skipn. exact (HW jpos_sorted PRE OLD opos G Hpre). }
  destruct (sorted_split_at posE b' HsortE) as (m & Hm0 & Hsk & Hdv).
  assert (HlenE : length (gh_E G) = length posE) by exact (Forall2_length' _ _ _ HD2).
  assert (Hm : (m <= length (gh_E G))%nat) by lia.
  (* an entry of E tagged with a kept file stays in E *)
  assert (Hkept : forall j f e, nth_error (gh_E G) j = Some (f, e) -> wlo w' <= f -> (m <= j)%nat).
  { intros j f e Ej Hf. destruct (Nat.le_gt_cases m j) as [|Hlt']; [assumption|exfalso].
    destruct (Forall2_nth_error _ _ _ _ _ HD2 Ej) as (s & Es & _ & Hs2). cbn [fst] in Hs2.
    rewrite <- (nth_error_firstn_lt m posE j Hlt') in Es.
    rewrite Forall_forall in Hsk. pose proof (Hsk s (nth_error_In _ _ Es)) as Hlt2.
    assert (dl + d <= f - gh_base G) by lia.
    assert ((dl + d) * FB <= (f - gh_base G) * FB) by (apply N.mul_le_mono_r; assumption).
    unfold b' in Hlt2. lia. }
  (* the first kept file is not after a referenced one *)
  assert (Hkeep : forall x, refd x = true -> wlo w <= x -> wlo w' <= x).
  { intros x Hx Hxlo. destruct (N.le_gt_cases (wlo w') x) as [|Hxlt]; [assumption|exfalso].
    rewrite (Hrange x) in Hx by lia. discriminate. }
  exists m. split.
  - (* ---------- the physical half ---------- *)
    cbn [set_wr s_wr]. fold w'.
    assert (Evfs : vfs w = c_fs (w_ctx w)) by (apply vfs_nil; exact Hpend).
    assert (Evfs' : vfs w' = remove_files (vfs w) dropped).
    { rewrite Evfs, <- Efs. apply vfs_nil. exact Hpend. }
    assert (Hle : forall x, In x (w_files w) -> x <= U64_MAX).
    { intros x Hx. pose proof (wr_ok_le w x Hok Hx). lia. }
    assert (Hget : forall x, In x files' ->
              fs_get (vfs w') (filename x) = fs_get (vfs w) (filename x)).
    { intros x Hx. rewrite Evfs'. apply fs_get_remove_files_other. intros y Hy.
      pose proof (Hlt y Hy). pose proof (HN wr_ok_ge w' x Hok' Hx).
      apply filename_neq; [apply Hle|apply Hle|lia]; rewrite Ef; apply in_or_app; auto. }
    assert (Hw' : winv P w').
    { split; [exact Hok'|]. split; [exact Hwfw|]. split; [exact Hoff|].
      split; [cbn [w' w_ctx]; congruence|]. split; [exact Hfile|]. split.
      - intros x Hx. cbn [w' w_files] in Hx. rewrite (Hget x Hx). apply Hfull.
        rewrite Ef. apply in_or_app. now right.
      - intros x Hx1 Hx2. rewrite Evfs'. apply fs_get_remove_files_none. now apply Hfresh. }
    assert (En : lenN (w_files w) = d + lenN files') by (rewrite Ef, lenN_app; reflexivity).
    destruct (wr_ok_len P (HN HB0) HNB w' Hok') as (_ & Hn1'). cbn [w' w_files] in Hn1'.
    assert (Epos : (dl + d) * FB + wpos P w' = dl * FB + wpos P w).
    { unfold wpos. cbn [w' w_files w_off]. rewrite En. nia. }
    unfold JInv.PInvJ. cbn zeta. change (gh_base (gh_move G m)) with (gh_base G).
    rewrite Edl', Epos, jT_move, jpos_move, gh_move_ALL, (gh_move_k G m Hm).
    split; [exact Hw'|].
    split; [exact (gc_loop_wd_ok w refd c files' _ Hgc Hwd)|].
    split; [unfold nd; cbn [w' w_ctx]; exact (gc_loop_nd _ _ _ _ _ _ Hgc Hnd)|].
    split; [lia|]. split; [exact Hc1|]. split; [exact Hc2|].
    split.
    { unfold wstream. cbn [w' w_files]. fold w'.
      rewrite (stream_of_ext (vfs w) (vfs w') files').
      2:{ intros x Hx. unfold fcontent. now rewrite (Hget x Hx). }
      assert (Hsplit : wstream w = stream_of (vfs w) dropped ++ stream_of (vfs w) files').
      { unfold wstream. now rewrite Ef, stream_of_app. }
      assert (Hld : lenN (stream_of (vfs w) dropped) = d * FB).
      { apply lenN_stream_of. intros x Hx. apply (winv_content P w x Hw).
        rewrite Ef. apply in_or_app. now left. }
      rewrite <- (dropN_app_exact' (d * FB) _ _ Hld), <- Hsplit, Hs, dropN_dropN.
      rewrite En. f_equal; [lia|]. do 2 f_equal. lia. }
    split; [exact HWf|].
    split; [exact Hold|].
    split.
    { rewrite firstn_add_skipn. fold posE. apply Forall_app. split.
      - eapply Forall_impl; [|exact HD1]. cbn beta. intros s Hs0. nia.
      - exact Hsk. }
    split.
    { rewrite skipn_add_skipn. fold posE.
      change (gh_E (gh_move G m)) with (skipn m (gh_E G)).
      pose proof (Forall2_skipn _ m _ _ HD2) as H2'.
      pose proof (Forall2_Forall_r _ _ _ _ H2' Hdv) as H3'.
      eapply Forall2_impl'; [|exact H3']. cbn beta. intros fe s ((_ & Hx) & Hy). split; assumption. }
    rewrite gh_move_log. exact Htags.
  - (* ---------- the logical half ---------- *)
    cbn [set_wr s_wr s_qs]. fold w'. fold qs.
    pose proof HL as (Hqwf & Hleg & Hrep & F & EF & Hcov).
    destruct (LInv_views _ _ _ HL) as (F0 & S & EF0 & ES & Hp & _).
    rewrite EF in EF0. inversion EF0; subst F0. clear EF0.
    split; [exact Hqwf|]. split; [rewrite gh_move_ALL; exact Hleg|].
    split; [rewrite gh_move_log; exact Hrep|].
    exists F. split; [rewrite gh_move_ALL; exact EF|].
    intros q rf n Eq. destruct (Hcov q rf n Eq) as (Hc & Hr).
    change (gh_E (gh_move G m)) with (skipn m (gh_E G)). rewrite (gh_move_k G m Hm).
    assert (Hrec : Forall (fun r => exists j f e, fst r = (gh_k G + m + j)%nat /\
                     nth_error (skipn m (gh_E G)) j = Some (f, e) /\ wlo w' <= f /\
                     creates e q = true) rf).
    { apply Forall_forall. intros r Hin. rewrite Forall_forall in Hr.
      destruct (Hr r Hin) as (j & f & e & Ej & En & Hflo & Hcr).
      assert (Hf : wlo w' <= f).
      { apply Hkeep; [|exact Hflo].
        set (pre0 := map (pair 0) (gh_dropped G)).
        assert (ES' : t_replay [] (length pre0) (map snd (gh_log G)) = Some S).
        { unfold pre0. rewrite map_length. exact ES. }
        assert (EqS : t_get S q = Some (rf, n)) by (rewrite Hp; exact Eq).
        destruct (record_referenced pre0 (gh_log G) qs S q rf n r Hrep ES' EqS Hin)
          as (f' & Ef' & Href).
        assert (f' = f).
        { rewrite Ej in Ef'. unfold gh_log, gh_k in Ef'.
          rewrite !map_app in Ef'.
          rewrite nth_error_app2 in Ef' by (unfold pre0; rewrite !map_length; lia).
          rewrite nth_error_app2 in Ef' by (unfold pre0; rewrite !map_length; lia).
          unfold pre0 in Ef'. rewrite !map_length in Ef'.
          replace (length (gh_dropped G) + length (gh_pre G) + j - length (gh_dropped G) -
                   length (gh_pre G))%nat with j in Ef' by lia.
          rewrite (map_nth_error fst j (gh_E G) En) in Ef'. cbn [fst] in Ef'. congruence. }
        subst f'. destruct (refd f) eqn:Erf; [reflexivity|].
        rewrite (Hrefq f Erf) in Href. discriminate. }
      pose proof (Hkept j f e En Hf) as Hmj.
      exists (j - m)%nat, f, e. split; [lia|]. split; [|split; assumption].
      rewrite nth_error_skipn'. replace (m + (j - m))%nat with j by lia. exact En. }
    split; [|eapply Forall_impl; [|exact Hrec]; cbn beta;
             intros r (j & f & e & H1 & H2' & H3' & H4); now exists j, f, e].
    apply existsb_exists. destruct rf as [|r rf'].
    + pose proof (LInv_tget _ _ _ F HL EF q) as Ht. rewrite Eq in Ht.
      destruct (qs_get qs q) as [mq|] eqn:Eqq; [|contradiction].
      unfold untag_q, abs_q in Ht. cbn [fst snd map] in Ht. inversion Ht as [[Hrn Hnx]].
      symmetry in Hrn. apply records_of_nil in Hrn.
      assert (Hem : mq_is_empty mq = true) by (unfold mq_is_empty; now rewrite Hrn).
      destruct (Hempty q mq Eqq Hem) as (j & f & e & En & Hcr & Hgf).
      assert (Hf : wlo w' <= f) by (pose proof (Hkeep g Hg Hglo); lia).
      pose proof (Hkept j f e En Hf) as Hmj.
      exists e. split; [|exact Hcr]. apply (in_map snd _ (f, e)).
      apply (nth_error_In _ (j - m)). rewrite nth_error_skipn'.
      replace (m + (j - m))%nat with j by lia. exact En.
    + pose proof (Forall_inv Hrec) as (j & f & e & _ & En & _ & Hcr).
      exists e. split; [|exact Hcr]. apply (in_map snd _ (f, e)). exact (nth_error_In _ _ En).
Qed.

(* ====================================================================== *)
(* 5. (3) run_gc_if_necessary                                             *)
(* ====================================================================== *)

Theorem invJ_gc st G hint st' n :
  InvJ st G -> stream_boundJ G (map snd (gc_log P st hint)) ->
  run_gc_if_necessary P st hint = (st', Ok n) ->
  exists G', InvJ st' G' /\ s_qs st' = s_qs st /\ s_pol st' = s_pol st /\
    gh_base G' = gh_base G /\ gh_dropped G' = gh_dropped G /\
    gh_log G' = gh_log G ++ gc_log P st hint.
Proof.
  intros HI Hb Hgc. unfold run_gc_if_necessary in Hgc. unfold gc_log in *.
  destruct (has_deletable st) eqn:Hd.
  2:{ inversion Hgc; subst. exists G. rewrite app_nil_r. repeat (split; [reflexivity || exact HI|]).
      reflexivity. }
  set (names := pick_order hint (empty_names (s_qs st))) in *.
  unfold record_empty_queues_position in Hgc. fold names in Hgc.
  destruct (record_positions P st names 0) as [st0 r0] eqn:Erp.
  pose proof HI as (HP & HL).
  assert (Hne : names_empty (s_qs st) names).
  { apply pick_order_names_empty. exact (LInv_nodup _ _ _ HL). }
  destruct (invJ_record_positions names st G 0 st0 r0 HI Hne Hb Erp)
    as ((k & ->) & Eqs0 & Epol0 & Elo0 & Hm0 & HI0 & Hcov).
  rewrite HGC in Hgc. cbn [andb] in Hgc.
  set (st1 := persist st0 true) in *.
  set (guard := w_file (s_wr st)) in *.
  destruct (gc_loop (w_ctx (s_wr st1)) (w_files (s_wr st1)) (referenced st1 guard))
    as [[c files'] [[]|e]] eqn:Egc; inversion Hgc; subst st' n. clear Hgc.
  assert (HI1 : InvJ st1 (gh_app G (rp_log P st names))) by (apply invJ_persist; exact HI0).
  assert (Eqs1 : s_qs st1 = s_qs st) by exact Eqs0.
  destruct (invJ_gc_drop st1 _ (referenced st1 guard) c files' guard HI1) as (m & HI').
  - exact (synced_pending (s_wr st0)).
  - exact Egc.
  - intros x Hx. unfold referenced in Hx. apply orb_false_iff in Hx. tauto.
  - unfold referenced. now rewrite N.eqb_refl.
  - unfold st1. cbn [persist set_wr s_wr]. rewrite wlo_persist, Elo0.
    destruct HP as (Hw & _). exact (HN winv_wlo_le _ Hw).
  - intros q mq Eq Hem. rewrite Eqs1 in Eq.
    assert (Hin : In q names).
    { unfold names. apply In_pick_order_conv. exact (In_empty_names_conv _ _ _ Eq Hem). }
    destruct (Hcov q mq Hin Eq) as (f & Hf & Hle).
    destruct (In_nth_error _ _ (in_or_app (gh_E G) _ _ (or_intror Hf))) as (j & Ej).
    exists j, f, (EPosition q (next_position mq)). split; [exact Ej|]. split; [|exact Hle].
    cbn [creates]. apply bytes_eqb_refl.
  - exists (gh_move (gh_app G (rp_log P st names)) m). split; [exact HI'|].
    split; [exact Eqs1|]. split; [exact Epol0|]. split; [reflexivity|]. split; [reflexivity|].
    now rewrite gh_move_log, gh_app_log.
Qed.

End JGc.

Print Assumptions pinvJ_transfer.
Print Assumptions invJ_persist.
Print Assumptions invJ_persist_on_policy.
Print Assumptions invJ_record_positions.
Print Assumptions invJ_gc_drop.
Print Assumptions invJ_gc.
