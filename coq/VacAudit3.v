(* VacAudit3.v — TASK T21: vacuity audit, third pass: the newest Prop theorems applied to concrete,
   non-trivial data with ALL their premises discharged.
     Module Power : PowerCorollaries.v (power-loss halves of C04 / C18 / C12) in the setting
                    VacAudit2.SatCrash (P_sat 32 2, PDelay true, 14 calls, roll-overs, two GC passes,
                    a persist point in the middle), no_zero_collision included.
     Module Alloc : AllocBound.v (C10, allocation): a six-file directory with a damaged frame
                    header, records of two queues in memory; the reader stopped in the middle of
                    a three-block record; a directory on which the bound is less than 1.5 times
                    the memory actually used.
     Module HD    : HeaderDamage.v (C08): header_damage_resync and header_damage_written on a
                    stream whose damaged block is block 1 and the damage is the length field of
                    the header of the MIDDLE frame of a three-block entry; ~ stopped_in shown.
   Conventions of VacuityAudit.v / VacAudit2.v: <id>_<theorem>_inst; big checks by boolean
   reflection; no Prop goal containing `open` is ever vm_computed. *)
From Coq Require Import Lia ZArith ZifyN ZifyNat ZifyBool List.
From MRL Require Import Bytes BytesProofs Params Names Frame Record Mem Spec Rolling Log Driver Hist
  WriterProofs SpecRefine RecordProofs StreamProofs ResyncProofs GhostLog ReplaySpec QueueIso
  PersistProofs TornProofs DamageProofs RestartInv RestartWrite RestartStep OpenReplay RestartFinal
  RestartCorollaries CrashTrace NzcVacuous CrashAtomic DamageAtomic PersistRecover PersistSurvive
  PersistShape PersistImage CrashCorollaries PowerLoss PowerCorollaries OpenTerm AllocBound
  AllocBoundTest HeaderDamageEv HeaderDamage VacBase VacCrash VacAudit2.
Import ListNotations.

Arguments N.add : simpl never.
Arguments N.sub : simpl never.
Arguments N.mul : simpl never.
Arguments N.eqb : simpl never.
Arguments N.ltb : simpl never.
Arguments N.leb : simpl never.
Arguments N.div : simpl never.
Arguments N.modulo : simpl never.

(* ====================================================================== *)
(* 0. all_synced as a boolean                                              *)
(* ====================================================================== *)
Lemma synced_later_true name evs : synced_later name evs = true -> In (EvSyncData name) evs.
Proof.
  induction evs as [|e r IH]; cbn [synced_later]; [discriminate|].
  destruct e; try (intros H; right; exact (IH H)).
  intros H. apply orb_true_iff in H. destruct H as [H|H].
  - apply bytes_eqb_eq in H. subst. left. reflexivity.
  - right. exact (IH H).
Qed.

(* every write is followed by a sync of its file *)
Fixpoint all_synced_b (evs : list event) : bool :=
  match evs with
  | [] => true
  | EvWrite n _ _ :: r => synced_later n r && all_synced_b r
  | _ :: r => all_synced_b r
  end.

Lemma all_synced_b_tl e r : all_synced_b (e :: r) = true -> all_synced_b r = true.
Proof.
  destruct e; cbn [all_synced_b]; try (intros H; exact H).
  intros H. apply andb_true_iff in H. exact (proj2 H).
Qed.

Lemma all_synced_b_ok evs : all_synced_b evs = true -> all_synced evs.
Proof.
  induction evs as [|e r IH]; intros H name pre off d post E.
  - destruct pre; discriminate E.
  - destruct pre as [|e' pre'].
    + cbn [app] in E. inversion E; subst. cbn [all_synced_b] in H.
      apply andb_true_iff in H. apply synced_later_true. exact (proj1 H).
    + cbn [app] in E. inversion E; subst.
      exact (IH (all_synced_b_tl _ _ H) name pre' off d post eq_refl).
Qed.

Lemma wr_all_synced_by w : all_synced_b (chrono (w_ctx w)) = true -> wr_all_synced w.
Proof. intros H. unfold wr_all_synced. apply all_synced_b_ok. exact H. Qed.

(* ====================================================================== *)
(* 1. PowerCorollaries.v in the setting SatCrash                           *)
(* ====================================================================== *)
Module Power.
Import SatCrash.
Local Notation TH f := (f Ps Ps_BS_lo Ps_BS_hi Ps_NB Ps_crc eq_refl eq_refl eq_refl Ps_nzc) (only parsing).
Local Notation power_img cut :=
  (fold_left apply_event (power_events evs_cr cut) (c_fs (w_ctx (s_wr stp)))) (only parsing).

(* the setting is not degenerate for power loss: 75 events, 19 of them writes; at 31 of the 76
   cuts the power-loss trace is shorter than the process-crash trace at the same cut (unsynced
   writes are dropped) *)
Example power_setting_shape :
  length evs_cr = 75%nat /\
  length (filter (fun e => match e with EvWrite _ _ _ => true | _ => false end) evs_cr) = 19%nat /\
  length (filter (fun c => negb (Nat.eqb (length (power_events evs_cr c))
                                         (length (crash_events evs_cr c 0))))
                 (map N.of_nat (seq 0 76))) = 31%nat.
Proof. vm_compute. repeat split; reflexivity. Qed.

(* ---------- C04 ---------- *)
Lemma C04_power_next_positions_inst : forall cut pol hint,
  exists m st_r, (m <= length h_cr)%nat /\
    open Ps (power_img cut) None pol hint = OpenOk st_r /\
    (forall q, log_next st_r q =
               next_or0 (s_get (fst (s_run (abs_qs (s_qs stp)) (firstn m (sops h_cr)))) q) /\
               log_last_position st_r q =
               s_last_position (fst (s_run (abs_qs (s_qs stp)) (firstn m (sops h_cr)))) q) /\
    (forall q, log_next st_r q = log_next (fst (run Ps stp (firstn m h_cr))) q /\
               log_last_position st_r q = log_last_position (fst (run Ps stp (firstn m h_cr))) q) /\
    (* neither queue is deleted in h_cr: their next positions never fall below 3 and 0 *)
    3 <= log_next st_r qa /\ qs_get (s_qs st_r) qb <> None.
Proof.
  setting G0 HI Hp Hwf Hsb Hcb Hev. intros cut pol hint.
  destruct (TH power_next_positions stp G0 HI Hp h_cr Hwf Hsb evs_cr Hev Hcb cut pol hint)
    as (m & st_r & Hm & Ho & H1 & H2 & H3).
  exists m, st_r. split; [exact Hm|]. split; [exact Ho|]. split; [exact H1|]. split; [exact H2|].
  split.
  - destruct (H3 qa) as [Hn _]; [vm_compute; repeat split; reflexivity|].
    replace (log_next stp qa) with 3 in Hn by (vm_compute; reflexivity). exact Hn.
  - destruct (H3 qb) as [_ Hn]; [vm_compute; repeat split; reflexivity|].
    apply Hn. vm_compute. discriminate.
Qed.

(* call i = 4 (the explicit persist with fsync, after a buffered append) is a POWER persist
   point: nothing buffered (pend_i) and every write synced (synced_i); 29 events up to it *)
Lemma C04_power_next_after_persist_inst : forall cut pol hint, 29 <= cut ->
  exists m st_r, (4 <= m)%nat /\ (m <= length h_cr)%nat /\
    open Ps (power_img cut) None pol hint = OpenOk st_r /\
    (forall q, log_next st_r q =
               next_or0 (s_get (fst (s_run (abs_qs (s_qs stp)) (firstn m (sops h_cr)))) q)) /\
    (forall q, log_next st_r q = log_next (fst (run Ps stp (firstn m h_cr))) q) /\
    5 <= log_next st_r qa /\ 3 <= log_next st_r qb /\
    qs_get (s_qs st_r) qa <> None /\ qs_get (s_qs st_r) qb <> None.
Proof.
  setting G0 HI Hp Hwf Hsb Hcb Hev. intros cut pol hint Hcut.
  destruct (TH power_next_after_persist stp G0 HI Hp h_cr Hwf Hsb evs_cr Hev Hcb
              4%nat evs_i (proj2 evs_i_len) pend_i synced_i evs_i_ok cut pol hint
              ltac:(rewrite (proj1 evs_i_len); exact Hcut))
    as (m & st_r & Hm1 & Hm2 & Ho & H1 & H2 & H3).
  exists m, st_r. split; [exact Hm1|]. split; [exact Hm2|]. split; [exact Ho|]. split; [exact H1|].
  split; [exact H2|].
  destruct (H3 qa) as [Hna Hqa]; [vm_compute; repeat split; reflexivity|].
  destruct (H3 qb) as [Hnb Hqb]; [vm_compute; repeat split; reflexivity|].
  replace (log_next (fst (run Ps stp (firstn 4 h_cr))) qa) with 5 in Hna by (vm_compute; reflexivity).
  replace (log_next (fst (run Ps stp (firstn 4 h_cr))) qb) with 3 in Hnb by (vm_compute; reflexivity).
  split; [exact Hna|]. split; [exact Hnb|].
  split; [apply Hqa|apply Hqb]; vm_compute; discriminate.
Qed.

(* ---------- C18 ---------- *)
Lemma C18_power_projection_inst : forall cut pol hint,
  exists m st_r, (m <= length h_cr)%nat /\
    open Ps (power_img cut) None pol hint = OpenOk st_r /\
    (forall q m0, s_get m0 q = s_get (abs_qs (s_qs stp)) q ->
       let mq := fst (s_run m0 (filter (addressed q) (firstn m (sops h_cr)))) in
       s_get (abs_qs (s_qs st_r)) q = s_get mq q /\
       (forall lo hi, log_range st_r q lo hi = s_range mq q lo hi) /\
       log_last_position st_r q = s_last_position mq q /\
       log_last_record st_r q = s_last_record mq q /\ log_next st_r q = next_or0 (s_get mq q)).
Proof.
  setting G0 HI Hp Hwf Hsb Hcb Hev.
  exact (TH power_projection stp G0 HI Hp h_cr Hwf Hsb evs_cr Hev Hcb).
Qed.

Lemma C18_power_projection_after_persist_inst : forall cut pol hint, 29 <= cut ->
  exists m st_r, (4 <= m)%nat /\ (m <= length h_cr)%nat /\
    open Ps (power_img cut) None pol hint = OpenOk st_r /\
    (forall q m0, s_get m0 q = s_get (abs_qs (s_qs stp)) q ->
       let mq := fst (s_run m0 (filter (addressed q) (firstn m (sops h_cr)))) in
       s_get (abs_qs (s_qs st_r)) q = s_get mq q /\
       (forall lo hi, log_range st_r q lo hi = s_range mq q lo hi) /\
       log_last_position st_r q = s_last_position mq q /\
       log_last_record st_r q = s_last_record mq q /\ log_next st_r q = next_or0 (s_get mq q)).
Proof.
  setting G0 HI Hp Hwf Hsb Hcb Hev. intros cut pol hint Hcut.
  refine (TH power_projection_after_persist stp G0 HI Hp h_cr Hwf Hsb evs_cr Hev Hcb
            4%nat evs_i (proj2 evs_i_len) pend_i synced_i evs_i_ok cut pol hint _).
  rewrite (proj1 evs_i_len). exact Hcut.
Qed.

(* the projection is not the identity here: m0 knows qa as it is at the persist point and nothing
   of qb; running only the calls addressed to qa from m0 gives what qa holds after 4, 5, 10 calls *)
Definition m0_a : smap := match s_get (abs_qs (s_qs stp)) qa with Some v => [(qa, v)] | None => [] end.
Example projection_nontrivial :
  s_get m0_a qa = s_get (abs_qs (s_qs stp)) qa /\ s_get m0_a qb = None /\
  s_get (abs_qs (s_qs stp)) qb <> None /\
  map (fun m => option_map (fun rn => (map fst (fst rn), snd rn))
                  (s_get (fst (s_run m0_a (filter (addressed qa) (firstn m (sops h_cr))))) qa))
      [4; 5; 10]%nat =
    [Some ([0; 1; 2; 3; 4], 5); Some ([], 5); Some ([5; 6], 7)].
Proof. vm_compute. repeat split; try reflexivity. discriminate. Qed.

(* ---------- C12: the batch is the append of three records to qb (call 2 of h_cr) ---------- *)
Lemma C12_batch_power_inst : forall cut pol hint,
  exists m st_r, (m <= length h_cr)%nat /\
    open Ps (power_img cut) None pol hint = OpenOk st_r /\
    (forall q', s_get (abs_qs (s_qs st_r)) q' =
                s_get (abs_qs (s_qs (fst (run Ps stp (firstn m h_cr))))) q') /\
    batch_at Ps stp h1_b qb pl_b h2_b
      (fst (step Ps (fst (run Ps stp h1_b)) (OAppend qb None pl_b) true)) 2 m
      (s_get (abs_qs (s_qs st_r)) qb).
Proof.
  setting G0 HI Hp Hwf Hsb Hcb Hev.
  exact (TH batch_power stp G0 HI Hp h_cr Hwf Hsb evs_cr Hev Hcb h1_b qb None pl_b true
           h2_b 2 112 h_cr_split out_b).
Qed.

(* the timer ticks on the batch append under PDelay true: persist(FlushAndFsync), so the append
   itself leaves nothing buffered and every write synced; 24 events up to its return.
   (C03_fsync_durable does not cover this call — it is not an Always policy — so the premise is
   checked on the trace itself.) *)
Lemma synced_b :
  wr_all_synced (s_wr (fst (step Ps (fst (run Ps stp h1_b)) (OAppend qb None pl_b) true))).
Proof.
  replace (fst (step Ps (fst (run Ps stp h1_b)) (OAppend qb None pl_b) true)) with st_b
    by (vm_compute; reflexivity).
  apply wr_all_synced_by. vm_compute. reflexivity.
Qed.

(* ... whereas after calls 3, 8 and 10 (buffered appends that filled a block, which is written
   without sync) some write is not synced, and after calls 1 and 6 something is buffered: the
   two premises are real restrictions; (all written synced, bytes buffered) after 0..10 calls *)
Example not_synced_elsewhere :
  map (fun k => (all_synced_b (chrono (w_ctx (s_wr (fst (run Ps stp (firstn k h_cr)))))),
                 lenN (w_pending (s_wr (fst (run Ps stp (firstn k h_cr)))))))
      (seq 0 11) =
  [(true, 0); (true, 26); (true, 0); (false, 26); (true, 0); (true, 0); (true, 29); (true, 0);
   (false, 10); (true, 0); (false, 16)].
Proof. vm_compute. reflexivity. Qed.

Lemma C12_batch_power_persisted_inst : forall cut pol hint, 24 <= cut ->
  exists m st_r, (length h1_b < m)%nat /\ (m <= length h_cr)%nat /\
    open Ps (power_img cut) None pol hint = OpenOk st_r /\
    (* qb is never deleted: what is recovered of the batch is a suffix of it *)
    exists recs next j,
      s_get (abs_qs (s_qs st_r)) qb = Some (recs, next) /\ 2 < next /\
      filter (in_span (2 + 1 - lenN pl_b) (2 + 1)) recs = skipn j (s_number (2 + 1 - lenN pl_b) pl_b).
Proof.
  setting G0 HI Hp Hwf Hsb Hcb Hev. intros cut pol hint Hcut.
  destruct (TH batch_power_persisted stp G0 HI Hp h_cr Hwf Hsb evs_cr Hev Hcb h1_b qb None pl_b
              true h2_b 2 112 evs_b h_cr_split out_b pend_b synced_b evs_b_ok cut pol hint
              ltac:(rewrite evs_b_len; exact Hcut))
    as (m & st_r & Hm1 & Hm2 & Ho & Hb).
  exists m, st_r. split; [exact Hm1|]. split; [exact Hm2|]. split; [exact Ho|].
  apply Hb. unfold log_never_deleted.
  assert (Hnd : forall n, forallb (fun x => negb (l_deleted qb (fst x) (snd x)))
                           (combine (firstn n h2_b) (snd (run Ps st_b (firstn n h2_b)))) = true).
  { intros n. do 9 (destruct n as [|n]; [vm_compute; reflexivity|]). vm_compute. reflexivity. }
  replace (fst (step Ps (fst (run Ps stp h1_b)) (OAppend qb None pl_b) true)) with st_b
    by (vm_compute; reflexivity).
  apply Hnd.
Qed.

(* independent check by computation (not via the theorems): the power-loss image at EVERY cut
   0..75 is opened and the recovered abstract state compared with the states after the prefixes
   of h_cr: number of cuts recovered to the state after m calls (first matching m), m = 0..10,
   and number of cuts that fail; and the least m over the cuts >= 29 (after the persist point,
   call 4 — which does not change the abstract state, so the first match is 3) and >= 24 (after
   the batch append, call 2) *)
Definition pverdict (c : N) : option nat :=
  match open Ps (power_img c) None PNothing [] with
  | OpenOk st_r =>
      find (fun m => CrashExample.smap_ext_eqb (abs_qs (s_qs st_r))
                       (abs_qs (s_qs (fst (run Ps stp (firstn m h_cr))))))
           (seq 0 11)
  | _ => None
  end.
Definition pcensus : list nat * nat * list nat * list nat :=
  let cuts := map N.of_nat (seq 0 76) in
  let vs := map pverdict cuts in
  let least cs := fold_right (fun c acc => match pverdict c with Some m => Nat.min m acc | None => acc end)
                             99%nat cs in
  (map (fun m => length (filter (fun v => match v with Some m' => Nat.eqb m m' | None => false end) vs))
       (seq 0 11),
   length (filter (fun v => match v with None => true | _ => false end) vs),
   [least (filter (fun c => 29 <=? c) cuts)], [least (filter (fun c => 24 <=? c) cuts)]).
Example pcensus_cr : pcensus = ([10; 13; 5; 11; 0; 14; 0; 11; 0; 12; 0]%nat, 0%nat, [3%nat], [2%nat]).
Proof. vm_compute. reflexivity. Qed.
End Power.

(* ====================================================================== *)
(* 2. AllocBound.v                                                         *)
(* ====================================================================== *)
Module Alloc.
Import SatCrash.

Definition damage_file (fs : fsT) (n off : N) (d : bytes) : fsT :=
  map (fun kv => if bytes_eqb (fst kv) (filename n)
                 then (fst kv, match snd kv with FFile b => FFile (write_at b off d) | e => e end)
                 else kv) fs.

(* the directory after call 4 of SatCrash.h_cr (files 0-5 of 64 bytes = 2 blocks of 32; eight
   records of qa and qb, one entry spread over three blocks), with the checksum field of the
   first frame header of file 1 overwritten (the Last frame of the first batch of qa) *)
Definition fs_a : fsT := Eval vm_compute in damage_file (c_fs (w_ctx (s_wr st_i))) 1 0 ["007"%byte].
Definition st_a : state :=
  Eval vm_compute in match open Ps fs_a None PNothing [] with OpenOk s => s | _ => st_dummy end.
Lemma open_a : open Ps fs_a None PNothing [] = OpenOk st_a.
Proof. vm_compute. reflexivity. Qed.

Lemma C10_open_alloc_bound_inst :
  log_memory_used Ps st_a <= alloc_factor (RMS Ps) * (wal_bytes fs_a + FILE_BYTES Ps).
Proof. exact (open_alloc_bound Ps fs_a None PNothing [] st_a open_a). Qed.

(* six listed files, the damaged entry (records 0, 1 of qa) is lost, six records in memory:
   206 = 2 (names) + 60 (payloads) + 6 * 24 (metadata) <= 2 * (384 + 64) = 896 *)
Example alloc_inst_numbers :
  list_wal_numbers fs_a = [0; 1; 2; 3; 4; 5] /\
  show st_a = ([1; 2; 3; 4; 5], 58, 0, [(qa, [2; 3; 4], 5); (qb, [0; 1; 2], 3)]) /\
  show st_i = ([0; 1; 2; 3; 4; 5], 58, 0, [(qa, [0; 1; 2; 3; 4], 5); (qb, [0; 1; 2], 3)]) /\
  (log_memory_used Ps st_a, wal_bytes fs_a, FILE_BYTES Ps, alloc_factor (RMS Ps)) = (206, 384, 64, 2).
Proof. vm_compute. repeat split; reflexivity. Qed.

(* the bound is not trivially slack: on AllocBoundTest.fs_dense (four full files of blocks of
   nine empty records, real CRC-32, RMS = 24) memory 1729 against the bound 2 * (1016 + 254) =
   2540: more than two thirds of it *)
Lemma C10_open_alloc_bound_tight_inst :
  exists st, open Pd fs_dense None PNothing [] = OpenOk st /\
    log_memory_used Pd st <= alloc_factor (RMS Pd) * (wal_bytes fs_dense + FILE_BYTES Pd) /\
    alloc_factor (RMS Pd) * (wal_bytes fs_dense + FILE_BYTES Pd) < 2 * log_memory_used Pd st /\
    2 * (alloc_factor (RMS Pd) * (wal_bytes fs_dense + FILE_BYTES Pd)) < 3 * log_memory_used Pd st.
Proof.
  destruct (mem_of_some _ _ _ fs_dense_mem) as (st & Ho & Hm).
  exists st. split; [exact Ho|].
  split; [exact (open_alloc_bound Pd fs_dense None PNothing [] st Ho)|].
  rewrite Hm.
  replace (alloc_factor (RMS Pd) * (wal_bytes fs_dense + FILE_BYTES Pd)) with 2540
    by (vm_compute; reflexivity).
  split; lia.
Qed.

(* a longer directory of the same kind (NB = 8: each file has 8 blocks; 6 files): the constant
   term FILE_BYTES weighs less: memory 10369 against the bound 2 * (6096 + 1016) = 14224, more
   than 70% of it (the limit of this family is 216 / 254 = 85%) *)
Definition Pd8 : params := mkParams 127 8 Crc.crc32 24 false false false.
Definition dblk8 (i : N) : bytes :=
  frame_bytes Pd8 Full (entry_ser (EAppend ["q"%byte] (9 * i) (empties 9 (9 * i)))).
Definition dfile8 (j : N) : bytes := concat (map (fun k => dblk8 (8 * j + k)) [0; 1; 2; 3; 4; 5; 6; 7]).
Definition fs_dense8 : fsT := map (fun j => (filename j, FFile (dfile8 j))) [0; 1; 2; 3; 4; 5].
Lemma fs_dense8_mem :
  (mem_of Pd8 (open Pd8 fs_dense8 None PNothing []), wal_bytes fs_dense8, FILE_BYTES Pd8,
   alloc_factor (RMS Pd8)) = (Some 10369, 6096, 1016, 2).
Proof. vm_compute. reflexivity. Qed.

Lemma C10_open_alloc_bound_tight8_inst :
  exists st, open Pd8 fs_dense8 None PNothing [] = OpenOk st /\
    log_memory_used Pd8 st <= alloc_factor (RMS Pd8) * (wal_bytes fs_dense8 + FILE_BYTES Pd8) /\
    7 * (alloc_factor (RMS Pd8) * (wal_bytes fs_dense8 + FILE_BYTES Pd8)) < 10 * log_memory_used Pd8 st.
Proof.
  assert (Hmem : mem_of Pd8 (open Pd8 fs_dense8 None PNothing []) = Some 10369)
    by (vm_compute; reflexivity).
  destruct (mem_of_some _ _ _ Hmem) as (st & Ho & Hm).
  exists st. split; [exact Ho|].
  split; [exact (open_alloc_bound Pd8 fs_dense8 None PNothing [] st Ho)|].
  rewrite Hm.
  replace (alloc_factor (RMS Pd8) * (wal_bytes fs_dense8 + FILE_BYTES Pd8)) with 14224
    by (vm_compute; reflexivity).
  lia.
Qed.

(* ---------- the reader's buffer ---------- *)
Definition rd_dummy : rreaderS := mkRd (ctx_init [] None) [] 0 0 0 [].
Definition c_a : ioctx := Eval vm_compute in fst (rd_open Ps (ctx_init fs_a None)).
Definition rd_a : rreaderS :=
  Eval vm_compute in match snd (rd_open Ps (ctx_init fs_a None)) with Ok rd => rd | _ => rd_dummy end.
Lemma rd_open_a : rd_open Ps (ctx_init fs_a None) = (c_a, Ok rd_a).
Proof. vm_compute. reflexivity. Qed.

(* the replay stopped by the frame fuel (3 frames per record) in the middle of the three-record
   batch of qb, which takes 4 frames over 3 blocks and 2 files *)
Definition rr_a : rreader_t := Eval vm_compute in fst (replay_loop Ps 20 3 (rr_open rreaderS rd_a) []).
Lemma replay_a : replay_loop Ps 20 3 (rr_open rreaderS rd_a) [] = (rr_a, RpFuel).
Proof. vm_compute. reflexivity. Qed.

Lemma C10_open_reader_buffer_bound_inst :
  lenN (rr_buf rr_a) + unread Ps (c_fs (rd_ctx rd_a)) rr_a <= wal_bytes fs_a + FILE_BYTES Ps.
Proof. exact (open_reader_buffer_bound Ps fs_a None c_a rd_a 20 3 rr_a RpFuel rd_open_a replay_a). Qed.

(* 75 bytes assembled (three frames of 25), 64 bytes of the directory not yet passed, against
   384 + 64; at the start the potential is 384 - 32 (the first block is in hand) *)
Example buffer_inst_numbers :
  (lenN (rr_buf rr_a), rr_within rr_a, unread Ps (c_fs (rd_ctx rd_a)) rr_a,
   unread Ps (c_fs (rd_ctx rd_a)) (rr_open rreaderS rd_a), wal_bytes fs_a + FILE_BYTES Ps)
  = (75, true, 64, 384, 448).
Proof. vm_compute. reflexivity. Qed.

(* a second instance, with a fault plan: the third read fails persistently; rd_open succeeds
   (it makes one read) and the loop stops on the I/O error, 31 bytes of a record in the buffer *)
Definition plan_r : fplan := mkPlan SRead 2 true IoOther.
Definition c_f : ioctx := Eval vm_compute in fst (rd_open Ps (ctx_init fs_a (Some plan_r))).
Definition rd_f : rreaderS :=
  Eval vm_compute in match snd (rd_open Ps (ctx_init fs_a (Some plan_r))) with Ok rd => rd | _ => rd_dummy end.
Lemma rd_open_f : rd_open Ps (ctx_init fs_a (Some plan_r)) = (c_f, Ok rd_f).
Proof. vm_compute. reflexivity. Qed.
Definition rr_f : rreader_t := Eval vm_compute in fst (replay_loop Ps 20 20 (rr_open rreaderS rd_f) []).
Definition r_f : replay_result := Eval vm_compute in snd (replay_loop Ps 20 20 (rr_open rreaderS rd_f) []).
Lemma replay_f : replay_loop Ps 20 20 (rr_open rreaderS rd_f) [] = (rr_f, r_f).
Proof. vm_compute. reflexivity. Qed.
Lemma C10_open_reader_buffer_bound_fault_inst :
  lenN (rr_buf rr_f) + unread Ps (c_fs (rd_ctx rd_f)) rr_f <= wal_bytes fs_a + FILE_BYTES Ps.
Proof.
  exact (open_reader_buffer_bound Ps fs_a (Some plan_r) c_f rd_f 20 20 rr_f r_f rd_open_f replay_f).
Qed.
Example buffer_fault_numbers :
  (r_f, lenN (rr_buf rr_f), unread Ps (c_fs (rd_ctx rd_f)) rr_f, c_nread (rd_ctx (fr_rd (rr_fr rr_f)))) =
  (RpIo IoOther, 31, 320, 3).
Proof. vm_compute. reflexivity. Qed.
End Alloc.

(* ====================================================================== *)
(* 3. HeaderDamage.v: the damaged block is block 1, the damage hits the    *)
(*    header of the Middle frame of a three-block entry                    *)
(* ====================================================================== *)
Module HD.
Import DamageAtomic.Example.
Local Notation rframe := (read_frame Pc vecr (vr_next Pc) vr_block).
Local Notation K f := (f Pc Pc_BS_lo Pc_BS_hi Pc_crc) (only parsing).

(* layout by computation *)
Fixpoint lay_bytes (a : N) (xs : list fspec) : bytes :=
  match xs with
  | [] => []
  | x :: r => pad_of Pc a ++ fs_bytes x ++ lay_bytes (a + lenN (pad_of Pc a) + 7 + lenN (fs_pl x)) r
  end.
Fixpoint lay_chk (a : N) (xs : list fspec) : bool :=
  match xs with
  | [] => true
  | x :: r => (lenN (fs_c4 x) =? 4) && (lenN (fs_pl x) <=? max_writable Pc (BS Pc - a mod BS Pc)) &&
              lay_chk (a + lenN (pad_of Pc a) + 7 + lenN (fs_pl x)) r
  end.
Lemma lay_chk_ok xs : forall a, lay_chk a xs = true -> layout Pc a xs (lay_bytes a xs).
Proof.
  induction xs as [|x r IH]; intros a H; cbn [lay_bytes]; [constructor|].
  cbn [lay_chk] in H. apply andb_true_iff in H. destruct H as [H H3].
  apply andb_true_iff in H. destruct H as [H1 H2].
  apply N.eqb_eq in H1. apply N.leb_le in H2.
  apply LY_cons; [exact H1|exact H2|apply IH; exact H3].
Qed.

(* BS = 32, real CRC-32.  e1: one Full frame at 0..10 (block 0).  big (60 bytes): a First frame
   at 10..32 (15 bytes), a MIDDLE frame filling block 1 (32..64, 25 bytes), a Last frame at
   64..91 (20 bytes).  5 bytes of padding.  e3: one Full frame at 96..108 (block 3). *)
Definition e1 : bytes := ["a"; "b"; "c"]%byte.
Definition big : bytes := Eval vm_compute in map (fun k => n2b (N.of_nat k)) (seq 65 60).
Definition e3 : bytes := ["h"; "e"; "l"; "l"; "o"]%byte.

Definition w : vecw := Eval vm_compute in fst (mem_write_all Pc (mkVecW 0 []) ([e1] ++ [big] ++ [e3])).
Definition ns : list N := Eval vm_compute in snd (mem_write_all Pc (mkVecW 0 []) ([e1] ++ [big] ++ [e3])).
Lemma write_ok : mem_write_all Pc (mkVecW 0 []) ([e1] ++ [big] ++ [e3]) = (w, ns).
Proof. vm_compute. reflexivity. Qed.

Definition t1 : bytes := Eval vm_compute in encs_of Pc 0 [e1].
Definition tb : bytes := Eval vm_compute in encs_of Pc 10 [big].
Definition t3 : bytes := Eval vm_compute in encs_of Pc 91 [e3].
Definition t : bytes := Eval vm_compute in vw_buf w.
Lemma t_split : t = t1 ++ tb ++ t3.
Proof. vm_compute. reflexivity. Qed.
Definition S : bytes := Eval vm_compute in mem_stream Pc t.
(* ONE byte overwritten: the low byte of the length field of the Middle frame header (at 32 in
   the stream, i.e. offset 0 of block 1): 25 -> 5 *)
Definition D : bytes := Eval vm_compute in write_at S 36 ["005"%byte].

Example shape :
  (lenN t1, lenN tb, lenN t3, lenN t, lenN S) = (10, 81, 17, 108, 160) /\
  sliceN 32 39 S = le_enc 4 (crcf Pc (n2b (ft_code Middle)) (sliceN 15 40 big)) ++ le_enc 2 25 ++
                   [n2b (ft_code Middle)] /\
  sliceN 32 39 D = le_enc 4 (crcf Pc (n2b (ft_code Middle)) (sliceN 15 40 big)) ++ le_enc 2 5 ++
                   [n2b (ft_code Middle)] /\
  sliceN 64 71 S = le_enc 4 (crcf Pc (n2b (ft_code Last)) (dropN 40 big)) ++ le_enc 2 20 ++
                   [n2b (ft_code Last)].
Proof. vm_compute. repeat split; reflexivity. Qed.

Definition xs : list fspec :=
  [good_fs Pc Full e1; good_fs Pc First (takeN 15 big); good_fs Pc Middle (sliceN 15 40 big);
   good_fs Pc Last (dropN 40 big); good_fs Pc Full e3].

Lemma lay : layout Pc 0 xs t.
Proof.
  replace t with (lay_bytes 0 xs) by (vm_compute; reflexivity).
  apply lay_chk_ok. vm_compute. reflexivity.
Qed.

Lemma rel1 : encs_rel Pc 0 [e1] t1.
Proof. change t1 with (encs_of Pc 0 [e1]). apply (K encs_of_rel). Qed.
Lemma relb : encs_rel Pc (lenN t1) [big] tb.
Proof. change tb with (encs_of Pc 10 [big]). apply (K encs_of_rel). Qed.
Lemma rel3 : encs_rel Pc (lenN t1 + lenN tb) [e3] t3.
Proof. change t3 with (encs_of Pc 91 [e3]). apply (K encs_of_rel). Qed.

Lemma dmg : damaged_in_block Pc D (t1 ++ tb ++ t3) 1.
Proof. rewrite <- t_split. unfold damaged_in_block. repeat split; vm_compute; congruence. Qed.

(* the reader's way through block 1 of D: the damaged Middle header at 0 (valid type, length 5,
   CRC mismatch), then cursor 12, in the middle of the payload, where the type byte is not a
   frame type: the rest of the block is skipped *)
Lemma reach_set o : reach Pc D 1 o -> o = 0 \/ o = 12.
Proof.
  induction 1 as [|c c' res Hr IH Hc E]; [left; reflexivity|].
  destruct IH as [->| ->]; vm_compute in E; inversion E; auto.
Qed.

Example reach_12 : reach Pc D 1 12.
Proof.
  apply (reach_step Pc D 1 0 12 FCorrupt); [constructor|vm_compute; congruence|].
  vm_compute. reflexivity.
Qed.

Lemma path_ok : NoEmbeddedPath Pc D 1 t.
Proof.
  apply (K NoEmbeddedPath_of_X D 1 t xs lay).
  apply (K accepted_genuine_path); [vm_compute; congruence|].
  intros o Hr Ho fr' ty p E.
  destruct (reach_set o Hr) as [->| ->]; vm_compute in E; inversion E.
Qed.

Lemma not_stopped : ~ stopped_in Pc D 1.
Proof.
  intros [H|(o & Hr & Ho & Hz)].
  - vm_compute in H. discriminate H.
  - destruct (reach_set o Hr) as [->| ->]; vm_compute in Hz; discriminate Hz.
Qed.

(* header_damage_resync with ALL premises discharged: es1 = [e1] (block 0), esb = [big]
   (blocks 0-2, its Middle frame is block 1), es3 = [e3] (block 3) *)
Theorem C08_header_damage_resync_inst :
  exists mid, delivered (mem_read_stream Pc D) = [e1] ++ mid ++ [e3] /\ sublist mid [big].
Proof.
  apply (K header_damage_resync [e1] [big] [e3] t1 tb t3 D 1 rel1 relb rel3).
  - exact dmg.
  - vm_compute. congruence.
  - right. vm_compute. congruence.
  - rewrite <- t_split. exact path_ok.
  - exact not_stopped.
Qed.

(* what the reader actually delivers: the entry before, two corruptions (the damaged Middle
   frame; the Last frame without its beginning), the entry after *)
Lemma out : mem_read_stream Pc D = [MrEntry e1; MrCorrupt; MrCorrupt; MrEntry e3; MrEnd].
Proof. vm_compute. reflexivity. Qed.

(* header_damage_written: from the writer's call, the three pieces being those of the writer *)
Theorem C08_header_damage_written_inst :
  let out := mem_read_stream Pc D in
  ~ In MrFuel out /\
  sublist (delivered out) ([e1] ++ [big] ++ [e3]) /\
  exists mid tail,
    delivered out = [e1] ++ mid ++ tail /\ sublist mid [big] /\
    (tail = [e3] \/ (tail = [] /\ stopped_in Pc D 1)).
Proof.
  destruct (K header_damage_written [e1] [big] [e3] w ns D 1 write_ok)
    as (t1' & tb' & t3' & Ew & R1 & Rb & R3 & H).
  pose proof (K encs_rel_encs_of _ _ _ R1) as E1. subst t1'.
  pose proof (K encs_rel_encs_of _ _ _ Rb) as Eb. subst tb'.
  apply H.
  - change (vw_buf w) with t. rewrite t_split. exact dmg.
  - vm_compute. congruence.
  - right. vm_compute. congruence.
  - change (vw_buf w) with t. exact path_ok.
Qed.

(* the same with the damage on the TYPE byte of the Middle header (3 -> 9, not a frame type):
   the block is skipped at once; header_damage_resync again *)
Definition D2 : bytes := Eval vm_compute in write_at S 38 ["009"%byte].
Lemma dmg2 : damaged_in_block Pc D2 (t1 ++ tb ++ t3) 1.
Proof. rewrite <- t_split. unfold damaged_in_block. repeat split; vm_compute; congruence. Qed.
Lemma reach_set2 o : reach Pc D2 1 o -> o = 0.
Proof.
  induction 1 as [|c c' res Hr IH Hc E]; [reflexivity|].
  subst c. vm_compute in E. inversion E; auto.
Qed.
Lemma path_ok2 : NoEmbeddedPath Pc D2 1 t.
Proof.
  apply (K NoEmbeddedPath_of_X D2 1 t xs lay).
  apply (K accepted_genuine_path); [vm_compute; congruence|].
  intros o Hr Ho fr' ty p E.
  rewrite (reach_set2 o Hr) in E. vm_compute in E. inversion E.
Qed.
Lemma not_stopped2 : ~ stopped_in Pc D2 1.
Proof.
  intros [H|(o & Hr & Ho & Hz)].
  - vm_compute in H. discriminate H.
  - rewrite (reach_set2 o Hr) in Hz. vm_compute in Hz. discriminate Hz.
Qed.
Theorem C08_header_damage_resync_type_inst :
  exists mid, delivered (mem_read_stream Pc D2) = [e1] ++ mid ++ [e3] /\ sublist mid [big].
Proof.
  apply (K header_damage_resync [e1] [big] [e3] t1 tb t3 D2 1 rel1 relb rel3).
  - exact dmg2.
  - vm_compute. congruence.
  - right. vm_compute. congruence.
  - rewrite <- t_split. exact path_ok2.
  - exact not_stopped2.
Qed.
End HD.

Print Assumptions Power.C04_power_next_positions_inst.
Print Assumptions Power.C04_power_next_after_persist_inst.
Print Assumptions Power.C18_power_projection_inst.
Print Assumptions Power.C18_power_projection_after_persist_inst.
Print Assumptions Power.C12_batch_power_inst.
Print Assumptions Power.C12_batch_power_persisted_inst.
Print Assumptions Power.pcensus_cr.
Print Assumptions Alloc.C10_open_alloc_bound_inst.
Print Assumptions Alloc.C10_open_alloc_bound_tight_inst.
Print Assumptions Alloc.C10_open_alloc_bound_tight8_inst.
Print Assumptions Alloc.C10_open_reader_buffer_bound_inst.
Print Assumptions Alloc.C10_open_reader_buffer_bound_fault_inst.
Print Assumptions HD.C08_header_damage_resync_inst.
Print Assumptions HD.C08_header_damage_written_inst.
Print Assumptions HD.C08_header_damage_resync_type_inst.

(* ======================================================================================
   COVERAGE (pass 3)
   theorem                                   instance (all premises discharged)
   PowerCorollaries.power_next_positions      Power.C04_power_next_positions_inst
   PowerCorollaries.power_next_after_persist  Power.C04_power_next_after_persist_inst   (i = 4, 29 <= cut)
   PowerCorollaries.power_projection          Power.C18_power_projection_inst
   PowerCorollaries.power_projection_after_persist
                                              Power.C18_power_projection_after_persist_inst
   PowerCorollaries.batch_power               Power.C12_batch_power_inst
   PowerCorollaries.batch_power_persisted     Power.C12_batch_power_persisted_inst      (24 <= cut)
   AllocBound.open_alloc_bound                Alloc.C10_open_alloc_bound_inst, _tight_inst (68%),
                                              _tight8_inst (72%)
   AllocBound.open_reader_buffer_bound        Alloc.C10_open_reader_buffer_bound_inst (RpFuel, 75
                                              bytes assembled), _fault_inst (RpIo)
   HeaderDamage.header_damage_resync          HD.C08_header_damage_resync_inst (block 1, length
                                              field of a Middle header), _type_inst (type byte)
   HeaderDamage.header_damage_written         HD.C08_header_damage_written_inst
   No premise set was found unsatisfiable or only trivially satisfiable.  Remarks:
   - wr_all_synced after the batch append (batch_power_persisted) holds in SatCrash although the
     policy is PDelay true, because the timer ticks on that call; C03_fsync_durable does not
     derive it (its premise fsync_call wants an Always policy for appends), so it is checked on
     the trace by all_synced_b.  Along h_cr the two persist-point premises fail after calls
     1, 3, 6, 8, 10 (Power.not_synced_elsewhere).
   - ~ stopped_in (header_damage_resync) needs a block after the damaged one and no all-zero
     header on the reader's way through it: here the reader visits cursors 0 and 12 of block 1.
   ====================================================================================== *)
