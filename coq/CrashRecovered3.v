(* CrashRecovered3.v — TASK T14, stage 3b: a second crash during the recovery's own writes.
   jstate_crash_self: img a crash image of a call issued from a usable state (jstate), st_r the
   state `open` recovers from it; every crash image of the events that this `open` itself
   appended to the I/O trace (set_len of a short last file, position entries of the recovery-time
   GC, flush/syncs, unlinks), applied to img, is again recovered, to the abstract state of st_r,
   and the result is again usable.
   crash_recovered_self: the same from the setting of crash_recovered_usable. *)
From Coq Require Import Lia ZArith ZifyN ZifyNat ZifyBool List Sorted.
From MRL Require Import Bytes BytesProofs Params Names NamesProofs Frame Record Mem Spec Rolling Log
  Driver Hist NoopProofs SpecRefine RecordProofs StreamProofs PolicyProofs GcProofs GhostLog ReplaySpec
  HandleProofs FileStream ResyncProofs QueueIso RestartInv RestartWrite RestartGc RestartStep
  OpenReplay RestartFinal TornProofs TornFile CrashTrace CrashAtomic
  JInv JGc JStep JunkStream JReopen JRecoverL JRecoverS JRecoverP JRecover JRecoverS2 JRecoverL2
  JCrashShape JRecover2 JRecoverP2 JRecoverPk JRecover3 JRecoverGc JRecoverSelf
  CrashRecovered CrashRecovered2.

Arguments N.add : simpl never.
Arguments N.sub : simpl never.
Arguments N.mul : simpl never.

Section Self.
Variable P : params.
Hypothesis HBS_lo : 7 < BS P.
Hypothesis HBS_hi : BS P <= 65542.
Hypothesis HNB : 1 <= NB P.
Hypothesis Hcrc : forall t p, crcf P t p < 2 ^ 32.
Hypothesis HGC : L_GC P = false.
Hypothesis HIO : L_IO P = false.
Hypothesis HSHORT : L_SHORT P = false.
Hypothesis Hnc : no_zero_collision P.

Local Notation B := (BS P).
Local Notation FB := (FILE_BYTES P).
Local Notation ser := (map entry_ser).

Lemma recovered_jstate st : recovered P st -> jstate P st.
Proof. intros H. exact H. Qed.

Theorem jstate_crash_self st a o tick st' out :
  jstate P st -> crash_call_ok P st a o tick st' out ->
  exists evs, c_ev (w_ctx (s_wr st')) = rev evs ++ c_ev (w_ctx (s_wr st)) /\
    forall cut k pol hint st_r,
      let img := fold_left apply_event (crash_events evs cut k) (c_fs (w_ctx (s_wr st))) in
      open P img None pol hint = OpenOk st_r ->
      (* the recovery-time GC stays in the same file, before its last block, with room *)
      w_file (s_wr st_r) = w_file (s_wr st) -> w_off (s_wr st_r) + B <= FB -> rec_bound P st_r ->
      forall cut2 k2 pol3 hint3,
        exists st_r2,
          open P (fold_left apply_event (crash_events (rev (c_ev (w_ctx (s_wr st_r)))) cut2 k2) img)
               None pol3 hint3 = OpenOk st_r2 /\
          (forall q, s_get (abs_qs (s_qs st_r2)) q = s_get (abs_qs (s_qs st_r)) q) /\
          jstate P st_r2 /\ s_pol st_r2 = pol3 /\ w_pending (s_wr st_r2) = [].
Proof.
  intros (PRE0 & OLD0 & opos0 & adm0 & cmax0 & rm0 & G & Hpre0 & Hpc0 & Hrm0 & Hadm0 & HI & Hroom0)
         (Hp0 & Hpol & Hop & Hb1 & Hb2 & Hstep & Hroll & Hblk).
  pose proof HI as (HP & HL).
  pose proof (crash_phys_bound_ghostJ P HBS_lo HBS_hi HNB Hcrc PRE0 OLD0 opos0 _ G _ _ HP Hb1) as Hc1.
  pose proof (crash_phys_bound_ghostJ P HBS_lo HBS_hi HNB Hcrc PRE0 OLD0 opos0 _ G _ _ HP Hb2) as Hc2.
  assert (Hsb : stream_boundJ P PRE0 OLD0 G (map snd (step_log P st o)))
    by (eapply crash_boundJ_stream_boundJ; eassumption).
  pose proof (stepJ_no_io P HBS_lo HBS_hi HNB Hcrc HGC PRE0 OLD0 opos0 Hpre0 st G o tick HI Hop Hsb) as Hno.
  rewrite Hstep in Hno. cbn [snd] in Hno.
  (* the call as a virtual call *)
  destruct (invJ_step P HBS_lo HBS_hi HNB Hcrc HGC PRE0 OLD0 opos0 Hpre0 st G o tick st' out HI Hop Hsb Hstep Hno)
    as (G' & HI' & Eb & Ed & Elog).
  destruct (pinvJ_step_call_trace P HBS_lo HBS_hi HNB Hcrc HGC PRE0 OLD0 opos0 st G a o tick st' out
              HP Hp0 Hpol Hsb Hstep Hno) as (evs & Hev & Hfs & Hct & Hp0').
  cbn zeta in *.
  set (X := map snd (step_log P st o)) in *.
  assert (EALL' : gh_ALL G' = gh_ALL G ++ X).
  { unfold gh_ALL. rewrite Ed, Elog, map_app, app_assoc. reflexivity. }
  assert (HwfX : Forall wf_entry X).
  { pose proof (step_log_wf P st o (proj1 HL) (op_wf_strict_wf _ _ Hop)) as Hlw.
    unfold X. apply Forall_map. exact Hlw. }
  assert (Hnilabs : X = [] -> forall q, s_get (abs_qs (s_qs st')) q = s_get (abs_qs (s_qs st)) q).
  { intros E0 q. pose proof (LInv_nodup _ _ _ HL) as Hndn.
    pose proof (step_replay P st o tick Hndn) as Hrep. rewrite Hstep in Hrep. cbn [fst snd] in Hrep.
    specialize (Hrep Hno).
    assert (El : step_log P st o = []) by (apply map_eq_nil with (f := snd); exact E0).
    rewrite El in Hrep. cbn [replay_entries] in Hrep. injection Hrep as <-. reflexivity. }
  exists evs. split; [exact Hev|]. intros cut k pol hint st_r. cbn zeta.
  intros Hopen Hrollr Hblkr Hrb cut2 k2 pol3 hint3.
  destruct (recover_vcall_setup P HBS_lo HBS_hi HNB Hcrc Hnc PRE0 OLD0 opos0 adm0 cmax0 rm0
              Hpre0 Hpc0 Hrm0 Hadm0 st G X st' G' evs HI Hp0 HI' Eb EALL' Hp0' HwfX Hct Hfs
              (call_prefix_linvJ P HBS_lo HBS_hi HNB Hcrc HGC PRE0 OLD0 opos0 Hpre0 st G o tick st' out
                 HI Hop Hsb Hstep Hno)
              Hnilabs Hc1 Hc2 Hroll Hblk (crash_events evs cut k) (crash_events_cpre evs cut k))
    as (PRE & OLD & opos & adm & cmax & rm & lo' & n & zz & qs_log & lo_log & Glog &
        Hpre & Hpc & Hrm & Hadm & Hrc & Ehi & _).
  cbn zeta in Hrc.
  destruct (recover_self P HBS_lo HBS_hi HNB Hcrc HGC HIO HSHORT Hnc PRE OLD opos adm cmax rm _ lo' n
              (gh_base G) zz qs_log lo_log Glog pol hint st_r Hpre Hpc Hrm Hadm Hrc Hopen
              ltac:(rewrite Ehi; exact Hrollr) Hblkr Hrb)
    as (_ & _ & Hall2).
  destruct (Hall2 (crash_events (rev (c_ev (w_ctx (s_wr st_r)))) cut2 k2)
              (crash_events_cpre _ cut2 k2) pol3 hint3)
    as (st_r2 & Ho2 & Habs2 & Hrec2 & Hpol2 & Hpend2).
  exists st_r2. split; [exact Ho2|]. split; [exact Habs2|]. split; [exact Hrec2|].
  split; [exact Hpol2|exact Hpend2].
Qed.

(* in the setting of crash_recovered_usable *)
Theorem crash_recovered_self st G a o tick st' out :
  crash_setting P st G a o tick st' out ->
  crash_phys_bound P (s_wr st) (map snd (step_log P st o)) (abs_qs (s_qs st)) ->
  crash_phys_bound P (s_wr st) (map snd (step_log P st o)) (abs_qs (s_qs st')) ->
  exists evs, c_ev (w_ctx (s_wr st')) = rev evs ++ c_ev (w_ctx (s_wr st)) /\
    forall cut k pol hint st_r,
      let img := fold_left apply_event (crash_events evs cut k) (c_fs (w_ctx (s_wr st))) in
      open P img None pol hint = OpenOk st_r ->
      w_file (s_wr st_r) = w_file (s_wr st) -> w_off (s_wr st_r) + B <= FB -> rec_bound P st_r ->
      forall cut2 k2 pol3 hint3,
        exists st_r2,
          open P (fold_left apply_event (crash_events (rev (c_ev (w_ctx (s_wr st_r)))) cut2 k2) img)
               None pol3 hint3 = OpenOk st_r2 /\
          (forall q, s_get (abs_qs (s_qs st_r2)) q = s_get (abs_qs (s_qs st_r)) q) /\
          jstate P st_r2.
Proof.
  intros (HI & Hp0 & Hpol & Hop & Hb & _ & _ & Hstep & Hno & Hroll & Hblk) Hb1 Hb2.
  destruct (jstate_crash_self st a o tick st' out (jstate_inv P HBS_lo HBS_hi HNB Hcrc st G HI))
    as (evs & Hev & Hall).
  { split; [exact Hp0|]. split; [exact Hpol|]. split; [exact Hop|]. split; [exact Hb1|].
    split; [exact Hb2|]. split; [exact Hstep|]. split; [exact Hroll|exact Hblk]. }
  exists evs. split; [exact Hev|]. intros cut k pol hint st_r. cbn zeta.
  intros Hopen H1 H2 H3 cut2 k2 pol3 hint3.
  destruct (Hall cut k pol hint st_r Hopen H1 H2 H3 cut2 k2 pol3 hint3) as (st_r2 & Ho & Ha & Hj & _).
  exists st_r2. split; [exact Ho|]. split; [exact Ha|exact Hj].
Qed.

End Self.

Print Assumptions jstate_crash_self.
Print Assumptions crash_recovered_self.
