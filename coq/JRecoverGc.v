(* JRecoverGc.v — TASK T14, stage 3b: the garbage collection that `open` runs at the end of a
   recovery, seen as a virtual call (JRecover3.recover_vcall): its entries are position entries
   (identities), its file-system events are a prefix of a CrashTrace.call_trace.  Hence every
   crash image of the GC's own effects is recovered to the same abstract state. *)
From Coq Require Import Lia ZArith ZifyN ZifyNat ZifyBool List Sorted.
From MRL Require Import Bytes BytesProofs Params Names NamesProofs Frame Record Mem Spec Rolling Log
  Driver Hist NoopProofs SpecRefine RecordProofs StreamProofs PolicyProofs GcProofs GhostLog ReplaySpec
  HandleProofs FileStream ResyncProofs QueueIso RestartInv RestartWrite RestartGc RestartStep
  OpenReplay RestartFinal TornProofs TornFile CrashTrace CrashAtomic
  JInv JGc JStep JunkStream JReopen JRecoverL JRecoverS JRecoverP JRecover JRecoverS2 JRecoverL2
  JCrashShape JRecover2 JRecover3.

Arguments N.add : simpl never.
Arguments N.sub : simpl never.
Arguments N.mul : simpl never.
Arguments N.eqb : simpl never.
Arguments N.ltb : simpl never.
Arguments N.leb : simpl never.
Arguments N.div : simpl never.
Arguments N.modulo : simpl never.
Arguments N.min : simpl never.
Arguments N.max : simpl never.
Arguments N.pow : simpl never.

Section RecoverGc.
Variable P : params.
Hypothesis HBS_lo : 7 < BS P.
Hypothesis HBS_hi : BS P <= 65542.
Hypothesis HNB : 1 <= NB P.
Hypothesis Hcrc : forall t p, crcf P t p < 2 ^ 32.
Hypothesis HGC : L_GC P = false.
Hypothesis HIO : L_IO P = false.
Hypothesis HSHORT : L_SHORT P = false.
Hypothesis Hnc : no_zero_collision P.

Local Notation B := (BS P).
Local Notation FB := (FILE_BYTES P).
Local Notation ffp := (first_frame_pos P).
Local Notation encs_of := (encs_of P).
Local Notation cursor_after := (cursor_after P).
Local Notation ser := (map entry_ser).
Local Notation H3 f := (f P HBS_lo HBS_hi Hcrc) (only parsing).
Local Notation H2 f := (f P HBS_lo HBS_hi) (only parsing).
Local Notation HW f := (f P HBS_lo HBS_hi HNB Hcrc) (only parsing).
Local Notation HN f := (f P HBS_lo HBS_hi HNB) (only parsing).
Local Notation HG f := (f P HBS_lo HBS_hi HNB Hcrc HGC) (only parsing).

Variable PRE0 : bytes.
Variable OLD0 : list entry.
Variable opos0 : list (N * N).
Variable adm0 : N -> Prop.
Variable cmax0 : nat.
Variable rm0 : N.
Hypothesis Hpre0 : pre_ok PRE0 OLD0 opos0.
Hypothesis Hpc0 : pre_cont P PRE0 (ser OLD0) opos0 adm0 cmax0 rm0.
Hypothesis Hrm0 : rm0 <= 7.
Hypothesis Hadm0 : forall m, adm0 (m * NB P).

Local Notation InvJ0 := (InvJ P PRE0 OLD0 opos0).
Local Notation PInvJ0 := (PInvJ P PRE0 OLD0 opos0).
Local Notation jT0 := (jT P PRE0 OLD0).
Local Notation jser0 := (jser OLD0).
Local Notation crash_boundJ := (crash_boundJ P PRE0 OLD0).

(* ---------- the trace of a standalone GC (as JCrashShape.pinvJ_step_call_trace) ---------- *)
Theorem gcJ_call_trace st G hint st3 n :
  PInvJ0 (s_wr st) G -> w_pending (s_wr st) = [] ->
  stream_boundJ P PRE0 OLD0 G (map snd (gc_log P st hint)) ->
  run_gc_if_necessary P st hint = (st3, Ok n) ->
  let w := s_wr st in
  exists evs extra,
    c_ev (w_ctx (s_wr st3)) = rev evs ++ c_ev (w_ctx w) /\
    c_fs (w_ctx (s_wr st3)) = fold_left apply_event (evs ++ extra) (c_fs (w_ctx w)) /\
    call_trace P (wlo w) (w_file w) (w_off w)
               (encs_of (call_cursor P st G) (ser (map snd (gc_log P st hint))))
               (w_file (s_wr st3)) (w_off (s_wr st3)) (evs ++ extra) /\
    w_pending (s_wr st3) = [].
Proof.
  clear Hpc0 Hrm0 Hadm0 HIO HSHORT Hnc. clear adm0 cmax0 rm0.
  intros HP Hp0 Hbound Hgc w. subst w. set (w := s_wr st) in *.
  destruct (pinvJ_setup P HBS_lo HBS_hi HNB Hcrc PRE0 OLD0 opos0 w G HP)
    as (Hlb & Ebuf & HS & Hposn & Hn & Hn1). cbn zeta in *.
  pose proof HP as (Hw & _ & _ & Hbase & Hc1 & Hc2 & _). cbn zeta in Hc1, Hc2.
  set (dl := wlo w - gh_base G) in *.
  set (T := jT0 G) in *. set (a0 := lenN T) in *.
  set (c := dl * FB + wpos P w) in *.
  set (buf := takeN (wpos P w) (wstream w)) in *.
  set (X := map entry_ser (map snd (gc_log P st hint))) in *.
  assert (EX : encs_of (wpos P w) X = encs_of c X).
  { unfold c. symmetry. apply (HW CrashTrace.encs_of_shift). apply (mulFB_mod P HBS_lo HBS_hi HNB). }
  set (M := wpos P w + lenN (encs_of (wpos P w) X)).
  pose proof Hw as (Hok & Hwf' & Hoff & Hplan & Hu & Hfull & Hfresh).
  assert (HM : FB * wlo w + M <= FB * (U64_MAX + 1)).
  { unfold M. rewrite EX. destruct X as [|x X'] eqn:EXX.
    - cbn [ResyncProofs.encs_of]. rewrite (@lenN_nil byte).
      assert (FB * (wlo w + lenN (w_files w)) <= FB * (U64_MAX + 1)) by (apply N.mul_le_mono_l; lia).
      lia.
    - rewrite <- EXX in *.
      assert (Hne : X <> []) by (rewrite EXX; discriminate).
      unfold JInv.stream_boundJ in Hbound. rewrite map_app in Hbound. fold X in Hbound.
      rewrite (H3 cursor_after_app) in Hbound. fold (jser0 G) in Hbound.
      rewrite <- (jT_len P PRE0 OLD0 G) in Hbound. fold T in Hbound.
      fold a0 in Hbound. unfold ResyncProofs.cursor_after in Hbound.
      rewrite <- (HW encs_of_between a0 c X Hc1 Hc2 Hne), lenN_app, lenN_zerosN in Hbound.
      replace (wlo w) with (gh_base G + dl) by lia. unfold c in *. nia. }
  assert (Hcur : exists b, fs_get (c_fs (w_ctx w)) (filename (w_file w)) = Some (FFile b)).
  { rewrite <- (vfs_nil w Hp0). destruct (wr_ok_files w Hok) as (pre & Hpre' & _).
    destruct (Hfull (w_file w)) as (b & Hb & _); [rewrite Hpre'; apply in_or_app; right; now left|].
    now exists b. }
  assert (Ht : tinv P (c_ev (w_ctx w)) (c_fs (w_ctx w)) (w_file w) (w_off w) M buf (wlo w)
                    (wpos P w) w []).
  { unfold tinv, tsim. rewrite (@lenN_nil byte), N.add_0_r, app_nil_r.
    split.
    { split; [exact Hw|]. split; [reflexivity|]. split; [exact Hlb|]. split; [exact HS|exact HM]. }
    split; [reflexivity|]. exists []. split; [now rewrite app_nil_r|].
    exists [], []. cbn [rev app fold_left].
    split; [reflexivity|]. split; [reflexivity|]. split; [exact Hcur|].
    split; [|now rewrite Hp0].
    replace (os_pos w) with (w_off w); [constructor|].
    unfold os_pos. rewrite Hp0, (@lenN_nil byte). lia. }
  destruct (HG tinv_run_gc (c_ev (w_ctx w)) (c_fs (w_ctx w)) (w_file w) (w_off w) M buf (wlo w) (wpos P w)
              st [] hint st3 n Ht) as (_ & [(Ehd & ->)|(evs & m & Hgc')]).
  { rewrite (@lenN_nil byte), N.add_0_r. fold X. unfold M. lia. }
  { exact Hgc. }
  - (* nothing deletable: no effect *)
    exists [], []. cbn [app rev fold_left].
    assert (EX0 : X = []) by (unfold X, gc_log; rewrite Ehd; reflexivity).
    split; [reflexivity|]. split; [reflexivity|]. split; [|exact Hp0].
    fold X. rewrite EX0. cbn [ResyncProofs.encs_of]. now constructor.
  - cbn zeta in Hgc'. destruct Hgc' as (Hev & Hfs & Htr & Hm & Hp').
    rewrite (@lenN_nil byte), N.add_0_r in *. cbn [app] in Htr. fold X in Htr. rewrite EX in Htr.
    set (f1 := w_file (s_wr st3)) in *.
    exists (evs ++ flush_group f1 true ++ unlinks (wlo w) m), (flush_group f1 false).
    split; [exact Hev|].
    split.
    { rewrite (fold_left_app _ _ (flush_group f1 false)), fold_flush_group. exact Hfs. }
    split; [|exact Hp'].
    fold X. change (call_cursor P st G) with c.
    replace ((evs ++ flush_group f1 true ++ unlinks (wlo w) m) ++ flush_group f1 false)
      with (evs ++ flush_group f1 true ++ unlinks (wlo w) m ++ flush_group f1 false)
      by (rewrite <- !app_assoc; reflexivity).
    apply ct_gc; assumption.
Qed.

(* ---------- the GC as a virtual call ---------- *)
Theorem recover_gc st G hint st3 n :
  InvJ0 st G -> w_pending (s_wr st) = [] ->
  run_gc_if_necessary P st hint = (st3, Ok n) ->
  crash_boundJ G (map snd (gc_log P st hint)) (abs_qs (s_qs st)) ->
  w_file (s_wr st3) = w_file (s_wr st) ->
  w_off (s_wr st3) + B <= FB ->
  exists evs, c_ev (w_ctx (s_wr st3)) = rev evs ++ c_ev (w_ctx (s_wr st)) /\
    forall pe, cpre pe evs -> forall pol hint2,
      let img := fold_left apply_event pe (c_fs (w_ctx (s_wr st))) in
      exists PRE OLD opos adm cmax rm st_r G_r,
        open P img None pol hint2 = OpenOk st_r /\
        pre_ok PRE OLD opos /\ pre_cont P PRE (ser OLD) opos adm cmax rm /\ rm <= 7 /\
        (forall m, adm (m * NB P)) /\
        InvJ P PRE OLD opos st_r G_r /\
        lenN PRE + rm <= (w_file (s_wr st_r) + 1 - gh_base G_r) * FB /\
        s_pol st_r = pol /\ w_pending (s_wr st_r) = [] /\
        (forall q, s_get (abs_qs (s_qs st_r)) q = s_get (abs_qs (s_qs st)) q).
Proof.
  intros HI Hp0 Hgc Hcb Hroll Hblk.
  pose proof HI as (HP & HL).
  set (X := map snd (gc_log P st hint)) in *.
  assert (Hsb : stream_boundJ P PRE0 OLD0 G X)
    by (eapply crash_boundJ_stream_boundJ; eassumption).
  destruct (invJ_gc P HBS_lo HBS_hi HNB Hcrc HGC PRE0 OLD0 opos0 Hpre0 st G hint st3 n HI Hsb Hgc)
    as (G' & HI' & Eqs & Epol & Eb & Ed & Elog).
  destruct (gcJ_call_trace st G hint st3 n HP Hp0 Hsb Hgc) as (evs & extra & Hev & Hfs & Hct & Hp3).
  cbn zeta in *.
  assert (EALL' : gh_ALL G' = gh_ALL G ++ X).
  { unfold gh_ALL. rewrite Ed, Elog, map_app, app_assoc. reflexivity. }
  assert (HwfX : Forall wf_entry X).
  { destruct HI' as ((_ & _ & _ & _ & _ & _ & _ & HWf' & _) & _). cbn zeta in HWf'.
    rewrite EALL' in HWf'. apply Forall_app in HWf'. apply HWf'. }
  assert (Hxtra : pos_extra (abs_qs (s_qs st)) X).
  { exact (gc_log_pos_extra P st hint (LInv_nodup _ _ _ HL)). }
  assert (Habs3 : forall q, s_get (abs_qs (s_qs st3)) q = s_get (abs_qs (s_qs st)) q)
    by (intros q; now rewrite Eqs).
  exists evs. split; [exact Hev|]. intros pe Hcpre pol hint2. cbn zeta.
  destruct (recover_vcall P HBS_lo HBS_hi HNB Hcrc HGC HIO HSHORT Hnc PRE0 OLD0 opos0 adm0 cmax0 rm0
              Hpre0 Hpc0 Hrm0 Hadm0 st G X st3 G' (evs ++ extra) HI Hp0 HI' Eb EALL' Hp3 HwfX Hct Hfs)
    with (pe := pe) (pol := pol) (hint := hint2)
    as (PRE & OLD & opos & adm & cmax & rm & st_r & G_r & Hopen & H1 & H2' & H3' & H4 & H5 & H6 & H7 & H8 & Habs).
  - (* logical prefixes: position entries are identities *)
    intros Xd Xr HXs.
    assert (Hxd : pos_extra (abs_qs (s_qs st)) Xd).
    { rewrite HXs in Hxtra. exact (pos_extra_prefix _ _ _ Hxtra). }
    set (lo := wlo (s_wr st)).
    set (fx := map (pair lo) Xd).
    assert (Efx : map snd fx = Xd) by (unfold fx; rewrite map_map; cbn [snd]; apply map_id).
    destruct (linv_pos_extra (s_qs st) lo G fx HL) as (HL2 & _).
    { now rewrite Efx. }
    { unfold fx. apply Forall_forall. intros fe Hin. apply in_map_iff in Hin.
      destruct Hin as (y & <- & _). cbn [fst]. lia. }
    exists (gh_app G fx), (s_qs st).
    split; [exact HL2|]. split; [reflexivity|]. split; [reflexivity|].
    split; [cbn [gh_app gh_E]; now rewrite map_app, Efx|].
    split; [intros _ q; reflexivity|]. intros _ q. now rewrite Habs3.
  - intros _. exact Habs3.
  - exact Hcb.
  - intros c extra' Hx. apply Hcb. apply (pos_extra_ext (abs_qs (s_qs st3))); [intros q; symmetry; apply Habs3|exact Hx].
  - exact Hroll.
  - exact Hblk.
  - apply cpre_app_l. exact Hcpre.
  - exists PRE, OLD, opos, adm, cmax, rm, st_r, G_r.
    repeat (split; [assumption|]).
    destruct Habs as [Ha|Ha]; intros q; [exact (Ha q)|now rewrite Ha, Habs3].
Qed.

End RecoverGc.

Print Assumptions gcJ_call_trace.
Print Assumptions recover_gc.
