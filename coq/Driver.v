(* Driver.v — the "world" the two drivers script: a directory, an optional live log, and the
   chronological trace of everything that reached the OS, from which crash images are rebuilt.
   mrl-drive (Rust, real crate) and mrl-model (OCaml, extracted from this file) execute the
   same commands and must print the same transcript. *)
From MRL Require Import Bytes Params Names Frame Record Mem Rolling Log.

Inductive cmd :=
| CSeed (name : bytes) (e : fentry)
| COpen (pol : policy) (tick : bool) (hint : list bytes)
| COp (o : op)
| CDrop
| CCrash (cut k : N)
| CPower (cut : N)
| CDamage (file off : N) (data : bytes)
| CTruncFile (file len : N)
| CRmFile (file : N)
| CCpFile (src dst : N)
| CFault (plan : fplan).

Inductive wout :=
| WSeeded
| WOpenOk
| WOpenIo (e : ioerr)
| WOpenCorruption
| WOpenHang
| WOp (o : outcome)
| WNoLog
| WDropped
| WCrashed (nevents : N)
| WOob
| WArmed.

Record world := mkWorld {
  wd_fs : fsT;                  (* the directory as the OS has it *)
  wd_log : option state;
  wd_tick : bool;
  wd_events : list event;       (* chronological *)
  wd_seeds : fsT;
  wd_plan : option fplan
}.

Definition world_init : world := mkWorld [] None false [] [] None.

(* effect of one traced event on a directory *)
Definition apply_event (fs : fsT) (e : event) : fsT :=
  match e with
  | EvCreate n => fs_put fs n (FFile [])
  | EvSetLen n len =>
      match fs_get fs n with
      | Some (FFile b) => fs_put fs n (FFile (set_len b len))
      | _ => fs
      end
  | EvWrite n off data =>
      match fs_get fs n with
      | Some (FFile b) => fs_put fs n (FFile (write_at b off data))
      | _ => fs
      end
  | EvUnlink n => fs_remove fs n
  | _ => fs
  end.

Definition replay_events (seeds : fsT) (evs : list event) : fsT := fold_left apply_event evs seeds.

(* process crash: everything before `cut`, plus the first k bytes of event `cut` if a write *)
Definition crash_events (evs : list event) (cut k : N) : list event :=
  takeN cut evs ++
  (if k =? 0 then []
   else match dropN cut evs with
        | EvWrite n off data :: _ => [EvWrite n off (takeN k data)]
        | _ => []
        end).

Fixpoint synced_later (name : bytes) (evs : list event) : bool :=
  match evs with
  | [] => false
  | EvSyncData n :: r => bytes_eqb n name || synced_later name r
  | _ :: r => synced_later name r
  end.

(* power loss, worst case: a write survives only if its file was synced afterwards *)
Fixpoint power_filter (evs : list event) : list event :=
  match evs with
  | [] => []
  | EvWrite n off data :: r =>
      if synced_later n r then EvWrite n off data :: power_filter r else power_filter r
  | e :: r => e :: power_filter r
  end.
Definition power_events (evs : list event) (cut : N) : list event := power_filter (takeN cut evs).

Section WithParams.
Variable P : params.

(* moves the trace of the live log's context into the world *)
Definition drain_ctx (c : ioctx) : ioctx * list event :=
  (mkCtx (c_fs c) [] None (c_nreaddir c) (c_nopen c) (c_nread c), rev (c_ev c)).

Definition drain_state (st : state) : state * list event :=
  let w := s_wr st in
  let '(c, evs) := drain_ctx (w_ctx w) in
  (mkSt (mkWr c (w_files w) (w_file w) (w_off w) (w_pending w)) (s_qs st) (s_pol st), evs).

Definition oob (w : world) (evs : list event) : world :=
  mkWorld (fold_left apply_event evs (wd_fs w)) None (wd_tick w) (wd_events w ++ evs)
          (wd_seeds w) (wd_plan w).

Definition world_step (w : world) (c : cmd) : world * wout :=
  match c with
  | CSeed name e =>
      (mkWorld (fs_put (wd_fs w) name e) (wd_log w) (wd_tick w) (wd_events w)
               (fs_put (wd_seeds w) name e) (wd_plan w), WSeeded)
  | CFault plan =>
      (mkWorld (wd_fs w) (wd_log w) (wd_tick w) (wd_events w) (wd_seeds w) (Some plan), WArmed)
  | COpen pol tick hint =>
      match open P (wd_fs w) (wd_plan w) pol hint with
      | OpenOk st =>
          let '(st', evs) := drain_state st in
          (mkWorld (c_fs (w_ctx (s_wr st'))) (Some st') tick (wd_events w ++ evs)
                   (wd_seeds w) None, WOpenOk)
      | OpenIo e c =>
          (mkWorld (c_fs c) None tick (wd_events w ++ rev (c_ev c)) (wd_seeds w) None, WOpenIo e)
      | OpenCorruption c =>
          (mkWorld (c_fs c) None tick (wd_events w ++ rev (c_ev c)) (wd_seeds w) None,
           WOpenCorruption)
      | OpenFuel c =>
          (mkWorld (c_fs c) None tick (wd_events w ++ rev (c_ev c)) (wd_seeds w) None, WOpenHang)
      end
  | COp o =>
      match wd_log w with
      | None => (w, WNoLog)
      | Some st =>
          let '(st1, out) := step P st o (wd_tick w) in
          let '(st2, evs) := drain_state st1 in
          (mkWorld (c_fs (w_ctx (s_wr st2))) (Some st2) (wd_tick w) (wd_events w ++ evs)
                   (wd_seeds w) (wd_plan w), WOp out)
      end
  | CDrop =>
      match wd_log w with
      | None => (w, WNoLog)
      | Some st =>
          let '(c, evs) := drain_ctx (drop_log st) in
          (mkWorld (c_fs c) None (wd_tick w) (wd_events w ++ evs) (wd_seeds w) (wd_plan w),
           WDropped)
      end
  | CCrash cut k =>
      let kept := crash_events (wd_events w) cut k in
      (mkWorld (replay_events (wd_seeds w) kept) None (wd_tick w) kept (wd_seeds w) (wd_plan w),
       WCrashed (lenN kept))
  | CPower cut =>
      let kept := power_events (wd_events w) cut in
      (mkWorld (replay_events (wd_seeds w) kept) None (wd_tick w) kept (wd_seeds w) (wd_plan w),
       WCrashed (lenN kept))
  | CDamage file off data => (oob w [EvWrite (filename file) off data], WOob)
  | CTruncFile file len => (oob w [EvSetLen (filename file) len], WOob)
  | CRmFile file => (oob w [EvUnlink (filename file)], WOob)
  | CCpFile src dst =>
      let content := match fs_get (wd_fs w) (filename src) with Some (FFile b) => b | _ => [] end in
      let pre := match fs_get (wd_fs w) (filename dst) with
                 | Some _ => [EvUnlink (filename dst)] | None => [] end in
      (oob w (pre ++ [EvCreate (filename dst); EvWrite (filename dst) 0 content]), WOob)
  end.

(* ---------- in-memory record log (the `mem` command, C07) ---------- *)
Record vecw := mkVecW { vw_cursor : N; vw_buf : bytes }.   (* VecBlockWriter: what was written *)
Definition vw_write (w : vecw) (data : bytes) : vecw * res unit :=
  (mkVecW (vw_cursor w + lenN data) (vw_buf w ++ data), Ok tt).
Definition vw_rem (w : vecw) : N := BS P - vw_cursor w mod BS P.

(* blocks still to come, current block *)
Record vecr := mkVecR { vr_rest : bytes; vr_block : bytes }.
Definition vr_next (r : vecr) : vecr * res bool :=
  if lenN (vr_rest r) <? BS P then (r, Ok false)
  else (mkVecR (dropN (BS P) (vr_rest r)) (takeN (BS P) (vr_rest r)), Ok true).

Fixpoint mem_write_all (w : vecw) (entries : list bytes) : vecw * list N :=
  match entries with
  | [] => (w, [])
  | e :: r =>
      match write_record P vecw vw_write vw_rem w e with
      | (w1, Ok n) => let '(w2, ns) := mem_write_all w1 r in (w2, n :: ns)
      | (w1, Err _) => (w1, [])
      end
  end.

Inductive mem_read := MrEntry (b : bytes) | MrCorrupt | MrEnd | MrFuel.

Fixpoint mem_read_all (fuel gofuel : nat) (rr : rreader vecr) : list mem_read :=
  match fuel with
  | O => [MrFuel]
  | S fuel' =>
      match go_next P vecr vr_next vr_block gofuel rr with
      | (rr', RRecord) => MrEntry (rr_buf rr') :: mem_read_all fuel' gofuel rr'
      | (rr', RCorrupt) => MrCorrupt :: mem_read_all fuel' gofuel rr'
      | (_, REnd) => [MrEnd]
      | (_, RIo _) => [MrEnd]
      | (_, RFuel) => [MrFuel]
      end
  end.

(* the stream as the reader gets it: the written bytes, zero-padded to whole blocks + one *)
Definition mem_stream (written : bytes) : bytes :=
  let total := lenN written in
  let nblocks := (total + BS P - 1) / BS P in
  written ++ zerosN ((nblocks + 1) * BS P - total).

Definition mem_roundtrip (entries : list bytes) : list N * bytes * list mem_read :=
  let '(w, ns) := mem_write_all (mkVecW 0 []) entries in
  let stream := mem_stream (vw_buf w) in
  let fuel := N.to_nat (lenN stream / HEADER_LEN + lenN stream / BS P + 4) in
  (ns, vw_buf w,
   mem_read_all fuel fuel (rr_open vecr (mkVecR (dropN (BS P) stream) (takeN (BS P) stream)))).
End WithParams.

(* ---------- digests: the same function is evaluated by the kernel (vm_compute) and by the
   extracted code, on the same command lists, to cross-check the extraction on every run ---------- *)
Definition bytes_sum (b : bytes) : N :=
  fold_left (fun a x => (a * 31 + b2n x) mod 4294967296) b 7.

Definition queue_digest (nq : bytes * mq) : list N :=
  [bytes_sum (fst nq); next_position (snd nq); lenN (q_metas (snd nq)); bytes_sum (q_buf (snd nq))].

Definition fs_digest (fs : fsT) : list N :=
  flat_map (fun ne => [bytes_sum (fst ne);
                       match snd ne with FFile b => bytes_sum b | FDir => 1 | FOther => 2 end]) fs.

Definition world_digest (w : world) : list N :=
  lenN (wd_events w) :: fs_digest (wd_fs w) ++
  match wd_log w with Some st => flat_map queue_digest (s_qs st) | None => [] end.

Definition run_cmds (P : params) (cmds : list cmd) : list N :=
  world_digest (fold_left (fun w c => fst (world_step P w c)) cmds world_init).
