(* PropC05.v — C05: every call conforms to the sequential queue-map specification (Spec.v).
   Statements only; proofs in SpecRefine.v *)
From MRL Require Import Bytes Params Names Frame Record Mem Spec Rolling Log Hist SpecRefine.

(* One API call: the representation invariant is kept and, unless the call failed with an I/O
   error, outcome and new abstract state are exactly those of the specification's step. *)
Theorem C05_refines : forall (P : params) st o tick,
  qs_inv (s_qs st) ->
  let '(st', out) := step P st o tick in
  qs_inv (s_qs st') /\
  (forall so, out_logical out = Some so ->
              s_step (abs_qs (s_qs st)) (sop_of o) = (abs_qs (s_qs st'), so)).
Proof. exact step_refines. Qed.
Print Assumptions C05_refines.

(* Any history of calls *)
Theorem C05_run_refines : forall (P : params) h st,
  qs_inv (s_qs st) ->
  let '(st', outs) := run P st h in
  qs_inv (s_qs st') /\
  (forall souts, map out_logical outs = map Some souts ->
     s_run (abs_qs (s_qs st)) (map (fun ot => sop_of (fst ot)) h) = (abs_qs (s_qs st'), souts)).
Proof. exact run_refines. Qed.
Print Assumptions C05_run_refines.

(* The invariant holds for whatever `open` returns, on any directory: every reachable state *)
Theorem C05_open_establishes_inv : forall (P : params) fs plan pol hint st,
  open P fs plan pol hint = OpenOk st -> qs_inv (s_qs st).
Proof. exact open_inv. Qed.
Print Assumptions C05_open_establishes_inv.

(* range: for all nine shapes of bounds (inverted ones and Excluded(u64::MAX) included) the
   start-index + take_while of the code is the filter of the specification *)
Theorem C05_range_all_bounds : forall (P : params) st q lo hi,
  qs_inv (s_qs st) -> log_range st q lo hi = s_range (abs_qs (s_qs st)) q lo hi.
Proof. intros P. exact log_range_refines. Qed.
Print Assumptions C05_range_all_bounds.

Theorem C05_last_position : forall st q,
  log_last_position st q = s_last_position (abs_qs (s_qs st)) q.
Proof. exact log_last_position_refines. Qed.
Print Assumptions C05_last_position.

Theorem C05_last_record : forall st q,
  qs_inv (s_qs st) -> log_last_record st q = s_last_record (abs_qs (s_qs st)) q.
Proof. exact log_last_record_refines. Qed.
Print Assumptions C05_last_record.

(* the ring buffer: the three branches of RollingBuffer::get_range over the two VecDeque slices,
   for every split of the contents *)
Theorem C05_ring : forall (left right : bytes) s e,
  s <= e -> e <= lenN left + lenN right ->
  ring_get_range left right s e = sliceN s e (left ++ right).
Proof. exact ring_get_range_ok. Qed.
Print Assumptions C05_ring.

(* a Past outcome is only ever produced by the up-front guard: nothing has been written *)
Theorem C05_past_only_guard : forall (P : params) st q pos payloads tick,
  snd (append_records P st q pos payloads tick) = OutPast ->
  exists m p, qs_get (s_qs st) q = Some m /\ pos = Some p /\ p + 1 < next_position m.
Proof. exact append_past_only_guard. Qed.
Print Assumptions C05_past_only_guard.

(* non-vacuity: a queue with a truncated head and two retained records satisfies the invariant,
   and a range with an excluded lower bound returns the second record only *)
Example C05_nonvacuous :
  let q := mkMq [x01; x02; x03] 5 [mkMeta 0 None 7; mkMeta 1 (Some 0) 9] in
  mq_inv q /\ mq_range q (Excl 7) Unb = [(9, [x02; x03])] /\ next_position q = 10.
Proof. cbv zeta. split; [|split; reflexivity]. unfold mq_inv. cbn. repeat split; try discriminate; vm_compute; try discriminate; try reflexivity. Qed.
Print Assumptions C05_nonvacuous.
