(* AllocBound.v — property C10, "never allocates without bound":
   what `open` builds in memory is at most linear in the size of the directory, for ANY
   directory content and ANY fault plan (no invariant on fs, no constraint on the parameters).

   Route:
   1. applying a decoded entry to the queues costs at most C1 * (its serialised length);
   2. the reader has a potential `unread` (bytes of the listed files it has not yet gone past);
      a frame delivering a payload of n bytes lowers it by 7 + n, no step of the reader raises it;
      hence  (bytes of the record being assembled) + unread  never increases and the record
      handed to the replay loop is paid for by the decrease of `unread`;
   3. rd_open starts the reader with unread <= wal_bytes fs + FILE_BYTES;
   4. the recovery-time GC does not touch the queues. *)
From Coq Require Import Lia ZArith ZifyN ZifyNat ZifyBool.
From MRL Require Import Bytes BytesProofs Params Names NamesProofs Frame Record Mem Rolling Log
                        RecordProofs MemAcctProofs OpenTerm SpecRefine.

Arguments N.add : simpl never.
Arguments N.sub : simpl never.
Arguments N.mul : simpl never.
Arguments N.eqb : simpl never.
Arguments N.ltb : simpl never.
Arguments N.leb : simpl never.
Arguments N.div : simpl never.
Arguments N.modulo : simpl never.
Arguments N.min : simpl never.
Arguments N.max : simpl never.

(* ================================================================== *)
(* 0. The constant                                                     *)
(* ================================================================== *)
(* K = size_of::<RecordMeta>().  A record with an empty payload takes 12 bytes in the file and
   K bytes in memory, so the amplification factor is ceil(K/12) (and at least 1: payload and
   queue-name bytes are kept one for one). *)
Definition alloc_factor (K : N) : N := N.max 1 ((K + 11) / 12).

Lemma alloc_factor_ge1 K : 1 <= alloc_factor K.
Proof. unfold alloc_factor. lia. Qed.

Lemma alloc_factor_meta K : K <= 12 * alloc_factor K.
Proof.
  unfold alloc_factor.
  pose proof (N.div_mod (K + 11) 12 ltac:(lia)) as Hd.
  pose proof (N.mod_lt (K + 11) 12 ltac:(lia)) as Hm.
  lia.
Qed.

(* ================================================================== *)
(* 1. Memory cost of one entry                                         *)
(* ================================================================== *)
Section EntryCost.
Variable K : N.

Lemma lenN_map {A B} (f : A -> B) l : lenN (map f l) = lenN l.
Proof. rewrite !lenN_length, map_length. reflexivity. Qed.

Lemma lenN_take_last_file ms : lenN (take_last_file ms) = lenN ms.
Proof.
  induction ms as [|m r IH]; [reflexivity|].
  destruct r as [|m' r'].
  - cbn [take_last_file]. rewrite !lenN_cons. reflexivity.
  - change (take_last_file (m :: m' :: r')) with (m :: take_last_file (m' :: r')).
    rewrite (lenN_cons m), IH, (lenN_cons m (m' :: r')). reflexivity.
Qed.

Lemma append_record_size q file p payload q' :
  append_record q file p payload = Some q' ->
  mq_size K q' = mq_size K q + lenN payload + K.
Proof.
  unfold append_record. destruct (p <? next_position q); [discriminate|].
  intros H. inversion H; subst q'. clear H.
  unfold mq_size. cbn [q_buf q_metas]. rewrite !lenN_app, lenN_cons, lenN_nil.
  assert (Hm : lenN (match last_opt (q_metas q) with
                     | Some m => if opt_N_eqb (m_file m) file
                                 then take_last_file (q_metas q) else q_metas q
                     | None => q_metas q end) = lenN (q_metas q)).
  { destruct (last_opt (q_metas q)) as [m|]; [|reflexivity].
    destruct (opt_N_eqb (m_file m) file); [apply lenN_take_last_file|reflexivity]. }
  rewrite Hm. lia.
Qed.

Lemma append_all_size : forall recs q file q',
  append_all q file recs = Some q' ->
  mq_size K q' = mq_size K q + payload_bytes recs + K * lenN recs.
Proof.
  induction recs as [|[p x] r IH]; intros q file q' H; cbn [append_all] in H.
  - inversion H; subst. cbn [payload_bytes fold_right]. change (lenN (@nil (N * bytes))) with 0. lia.
  - destruct (append_record q file p x) as [q1|] eqn:E1; [|discriminate].
    apply append_record_size in E1. apply IH in H.
    rewrite payload_bytes_cons, lenN_cons. cbn [snd]. lia.
Qed.

Lemma truncate_head_size q p : mq_size K (fst (truncate_head q p)) <= mq_size K q.
Proof.
  unfold truncate_head. destruct (p <? q_start q); [cbn [fst]; lia|].
  destruct (next_position q <=? p + 1); cbn [fst]; unfold mq_size; cbn [q_buf q_metas].
  - change (lenN (@nil byte)) with 0. change (lenN (@nil meta)) with 0. lia.
  - rewrite lenN_map, !lenN_dropN.
    assert (lenN (q_metas q) - idx_ge (p + 1) (q_metas q) <= lenN (q_metas q)) by lia.
    nia.
Qed.

Lemma qs_size_cons n q qs : qs_size K ((n, q) :: qs) = lenN n + mq_size K q + qs_size K qs.
Proof. reflexivity. Qed.

Lemma qs_size_put_new : forall qs n q',
  qs_get qs n = None -> qs_size K (qs_put qs n q') = qs_size K qs + lenN n + mq_size K q'.
Proof.
  induction qs as [|[n0 q0] qs IH]; intros n q'; cbn [qs_get qs_put].
  - intros _. rewrite qs_size_cons. cbn [qs_size fold_right]. lia.
  - destruct (bytes_eqb n0 n); [discriminate|]. intros H.
    rewrite !qs_size_cons, (IH _ _ H). lia.
Qed.

Lemma qs_size_remove qs n : qs_size K (qs_remove qs n) <= qs_size K qs.
Proof.
  induction qs as [|[n0 q0] qs IH]; cbn [qs_remove]; [lia|].
  destruct (bytes_eqb n0 n); rewrite ?qs_size_cons; lia.
Qed.

Lemma mq_size_with_next n : mq_size K (mq_with_next n) = 0.
Proof. reflexivity. Qed.

Lemma ack_position_size qs n next :
  qs_size K (ack_position qs n next) <= qs_size K qs + lenN n.
Proof.
  unfold ack_position. destruct (qs_get qs n) as [q|] eqn:Eg.
  - destruct (negb (mq_is_empty q) || negb (next_position q =? next)); [|lia].
    pose proof (qs_size_put K qs n q (mq_with_next next) Eg) as H.
    rewrite mq_size_with_next in H. lia.
  - rewrite (qs_size_put_new _ _ _ Eg), mq_size_with_next. lia.
Qed.

(* what an entry can add to MemQueues::size *)
Definition entry_mem_cost (e : entry) : N :=
  lenN (entry_queue e) +
  match e with EAppend _ _ recs => payload_bytes recs + K * lenN recs | _ => 0 end.

(* (b), exact form *)
Lemma apply_entry_size qs file e qs' :
  apply_entry qs file e = Some qs' -> qs_size K qs' <= qs_size K qs + entry_mem_cost e.
Proof.
  destruct e as [q pos recs|q pos|q pos|q pos]; unfold entry_mem_cost; cbn [apply_entry entry_queue].
  - set (qs1 := if qs_contains qs q then qs else ack_position qs q pos).
    assert (H1 : qs_size K qs1 <= qs_size K qs + lenN q).
    { unfold qs1. destruct (qs_contains qs q); [lia|apply ack_position_size]. }
    destruct (qs_get qs1 q) as [mqv|] eqn:Eg; [|discriminate].
    destruct (append_all mqv file recs) as [mq'|] eqn:Ea; [|discriminate].
    intros H; inversion H; subst qs'.
    apply append_all_size in Ea.
    pose proof (qs_size_put K qs1 q mqv mq' Eg) as Hp. lia.
  - destruct (qs_get qs q) as [mqv|] eqn:Eg; intros H; inversion H; subst qs'; [|lia].
    pose proof (qs_size_put K qs q mqv (fst (truncate_head mqv pos)) Eg) as Hp.
    pose proof (truncate_head_size mqv pos). lia.
  - intros H; inversion H; subst qs'. pose proof (ack_position_size qs q pos). lia.
  - intros H; inversion H; subst qs'. pose proof (qs_size_remove qs q). lia.
Qed.

Lemma entry_mem_cost_ser e : entry_mem_cost e <= alloc_factor K * lenN (entry_ser e).
Proof.
  rewrite lenN_entry_ser. unfold entry_mem_cost.
  pose proof (alloc_factor_ge1 K) as H1. pose proof (alloc_factor_meta K) as H2.
  set (C := alloc_factor K) in *.
  destruct e as [q pos recs|q pos|q pos|q pos]; cbn [entry_queue entry_payload_bytes].
  - rewrite recs_bytes_payload. nia.
  - nia.
  - nia.
  - nia.
Qed.

(* (b): applying an entry decoded from buf costs at most alloc_factor * |buf| *)
Lemma apply_decoded_entry_size qs file buf e qs' :
  entry_deser buf = Some e -> apply_entry qs file e = Some qs' ->
  qs_size K qs' <= qs_size K qs + alloc_factor K * lenN buf.
Proof.
  intros Hd Ha. apply apply_entry_size in Ha. pose proof (entry_mem_cost_ser e) as Hc.
  apply entry_deser_sound in Hd. destruct Hd as (extra & Hb & _).
  rewrite Hb, lenN_app. nia.
Qed.
End EntryCost.

(* ================================================================== *)
(* 2. The reader's potential: bytes of the listed files not yet passed  *)
(* ================================================================== *)
Section ReadBlock2.
Variable P : params.

(* read_block on any directory: the position never moves back; a delivered block lies inside
   the file *)
Lemma read_block_spec2 c n pos c' pos' r :
  read_block P c n pos = (c', pos', r) ->
  c_fs c' = c_fs c /\ pos <= pos' /\
  match r with
  | Ok (Some blk) => pos' = pos + BS P /\ pos' <= lenN (fcontent (c_fs c) n)
  | _ => True
  end.
Proof.
  unfold read_block. pose proof (fault_point_fs c SRead) as Hf.
  destruct (fault_point c SRead) as [c1 [e|]]; cbn [fst] in Hf.
  - intros H; inversion H; subst. split; [exact Hf|]. split; [lia|destruct e; exact I].
  - rewrite file_content_fcontent, Hf.
    destruct (N.leb_spec (pos + BS P) (lenN (fcontent (c_fs c) n))) as [Hle|Hgt];
      intros H; inversion H; subst.
    + split; [exact Hf|]. split; [lia|]. split; [reflexivity|exact Hle].
    + split; [exact Hf|]. split; [lia|exact I].
Qed.
End ReadBlock2.

Lemma sumlen_cons fs x l : sumlen fs (x :: l) = lenN (fcontent fs x) + sumlen fs l.
Proof. reflexivity. Qed.

Lemma sumlen_filter_le fs (p q : N -> bool) l :
  (forall x, p x = true -> q x = true) -> sumlen fs (filter p l) <= sumlen fs (filter q l).
Proof.
  intros Hpq. induction l as [|x l IH]; cbn [filter]; [lia|].
  destruct (p x) eqn:Ep.
  - rewrite (Hpq x Ep), !sumlen_cons. lia.
  - destruct (q x); rewrite ?sumlen_cons; lia.
Qed.

Lemma sumlen_after fs files cur n :
  cur < n -> In n files ->
  lenN (fcontent fs n) + sumlen fs (files_after files n) <= sumlen fs (files_after files cur).
Proof.
  intros Hlt. unfold files_after.
  assert (Hmono : forall l, sumlen fs (filter (fun x => n <? x) l)
                            <= sumlen fs (filter (fun x => cur <? x) l)).
  { intros l. apply sumlen_filter_le. intros x Hx. lia. }
  induction files as [|x l IH]; intros Hin; [destruct Hin|].
  cbn [filter].
  destruct (N.eq_dec x n) as [->|Hne].
  - replace (n <? n) with false by lia. replace (cur <? n) with true by lia.
    rewrite sumlen_cons. specialize (Hmono l). lia.
  - destruct Hin as [He|Hin]; [congruence|]. specialize (IH Hin).
    destruct (n <? x) eqn:E1.
    + replace (cur <? x) with true by lia. rewrite !sumlen_cons. lia.
    + destruct (cur <? x); rewrite ?sumlen_cons; lia.
Qed.

Lemma sumlen_after_head fs first rest :
  sumlen fs (files_after (first :: rest) first) <= sumlen fs rest.
Proof.
  unfold files_after. cbn [filter]. replace (first <? first) with false by lia.
  induction rest as [|x l IH]; cbn [filter]; [lia|].
  destruct (first <? x); rewrite ?sumlen_cons; lia.
Qed.

Section Unread.
Variable P : params.
Variable fs : fsT.            (* the directory during replay (replay only reads) *)

Definition fsinv (rd : rreaderS) : Prop := c_fs (rd_ctx rd) = fs.

(* bytes of the current file beyond the OS position + the files still to come *)
Definition unread_rd (rd : rreaderS) : N :=
  (lenN (fcontent fs (rd_file rd)) - rd_pos rd)
  + sumlen fs (files_after (rd_files rd) (rd_file rd)).

(* ... + what is left of the block in hand *)
Definition unread_fr (fr : freader rreaderS) : N :=
  unread_rd (fr_rd fr) + (BS P - fr_cursor fr).

Definition unread (rr : rreader_t) : N := unread_fr (rr_fr rr).

Lemma next_file_loop_spec2 : forall cands c rd rd' r,
  c_fs c = fs ->
  next_file_loop P c cands rd = (rd', r) ->
  c_fs (rd_ctx rd') = fs /\ rd_files rd' = rd_files rd /\
  match r with
  | Ok true => In (rd_file rd') cands /\ rd_pos rd' = BS P /\
               BS P <= lenN (fcontent fs (rd_file rd'))
  | _ => rd_file rd' = rd_file rd /\ rd_pos rd' = rd_pos rd
  end.
Proof.
  induction cands as [|n rest IH]; intros c rd rd' r Hc H; cbn [next_file_loop] in H.
  - inversion H; subst. cbn [rd_ctx rd_files rd_file rd_pos]. repeat split; assumption.
  - destruct (open_file c n) as [c1 [u|e]] eqn:Ho; apply open_file_fs in Ho.
    2:{ inversion H; subst. cbn [rd_ctx rd_files rd_file rd_pos].
        repeat split; congruence. }
    destruct (read_block P c1 n 0) as [[c2 pos'] [[blk|]|e]] eqn:Hr;
      apply read_block_spec2 in Hr; destruct Hr as (Hfs & Hmono & Hr).
    + destruct Hr as [Hp Hlen]. inversion H; subst rd' r.
      cbn [rd_ctx rd_files rd_file rd_pos]. rewrite N.add_0_l in Hp.
      split; [congruence|]. split; [reflexivity|]. split; [now left|]. split; [exact Hp|].
      rewrite <- Hc, <- Ho. lia.
    + destruct (IH c2 rd rd' r) as (H1 & H2 & H3); [congruence|exact H|].
      split; [exact H1|]. split; [exact H2|].
      destruct r as [[|]|e]; [|exact H3|exact H3].
      destruct H3 as (H3 & H4). split; [now right|exact H4].
    + inversion H; subst. cbn [rd_ctx rd_files rd_file rd_pos].
      repeat split; congruence.
Qed.

(* next_block: a delivered block is paid for by BS bytes of `unread`; a failed call does not
   raise it *)
Lemma rd_next_unread rd rd' r :
  fsinv rd -> rd_next P rd = (rd', r) ->
  fsinv rd' /\
  match r with
  | Ok true => unread_rd rd' + BS P <= unread_rd rd
  | _ => unread_rd rd' <= unread_rd rd
  end.
Proof.
  unfold fsinv. intros Hfs H. unfold rd_next in H.
  destruct (read_block P (rd_ctx rd) (rd_file rd) (rd_pos rd)) as [[c1 pos'] [[blk|]|e]] eqn:Hr;
    apply read_block_spec2 in Hr; destruct Hr as (Hc1 & Hmono & Hr).
  - destruct Hr as [Hp Hlen]. inversion H; subst rd' r. unfold unread_rd.
    cbn [rd_ctx rd_files rd_file rd_pos]. split; [congruence|]. rewrite Hfs in Hlen. lia.
  - apply next_file_loop_spec2 in H; [|congruence].
    cbn [rd_ctx rd_files rd_file rd_pos] in H. destruct H as (H1 & H2 & H3).
    split; [exact H1|].
    destruct r as [[|]|e].
    + destruct H3 as (Hin & Hpos & Hlen). unfold files_after in Hin.
      apply filter_In in Hin. destruct Hin as [Hin Hlt].
      pose proof (sumlen_after fs (rd_files rd) (rd_file rd) (rd_file rd') ltac:(lia) Hin) as Hs.
      unfold unread_rd. rewrite H2, Hpos. lia.
    + destruct H3 as (Hf & Hp). unfold unread_rd. rewrite H2, Hf, Hp. lia.
    + destruct H3 as (Hf & Hp). unfold unread_rd. rewrite H2, Hf, Hp. lia.
  - inversion H; subst rd' r. unfold unread_rd.
    cbn [rd_ctx rd_files rd_file rd_pos]. split; [congruence|]. lia.
Qed.

Lemma lenN_sliceN_le {A} a b (l : list A) : lenN (sliceN a b l) <= b - a.
Proof. unfold sliceN. rewrite lenN_takeN. lia. Qed.

Lemma read_here_cursor (fr1 fr' : freader rreaderS) r :
  read_here P rd_block fr1 = (fr', r) ->
  fr_rd fr' = fr_rd fr1 /\ fr_cursor fr1 <= fr_cursor fr' /\
  match r with
  | FOk _ pl => fr_cursor fr1 + 7 + lenN pl <= fr_cursor fr' /\ fr_cursor fr' <= BS P
  | _ => True
  end.
Proof.
  unfold read_here, HEADER_LEN.
  destruct (all_zero (sliceN (fr_cursor fr1) (fr_cursor fr1 + 7) (rd_block (fr_rd fr1)))).
  - intros H; inversion H; subst. repeat split; lia.
  - destruct (ft_of_code _) as [t|].
    + destruct (N.ltb_spec (BS P) (fr_cursor fr1 + 7 +
         le_dec (sliceN 4 6 (sliceN (fr_cursor fr1) (fr_cursor fr1 + 7) (rd_block (fr_rd fr1))))))
        as [Hlt|Hge].
      * intros H; inversion H; subst. cbn [fr_rd fr_cursor]. repeat split; lia.
      * destruct (_ =? _); intros H; inversion H; subst; cbn [fr_rd fr_cursor].
        -- split; [reflexivity|]. split; [lia|].
           match goal with |- context [lenN (sliceN ?a ?b ?l)] =>
             pose proof (lenN_sliceN_le a b l) end. lia.
        -- repeat split; lia.
    + intros H; inversion H; subst. cbn [fr_rd fr_cursor]. repeat split; lia.
Qed.

(* (a), one frame: a payload of n bytes costs 7 + n bytes of `unread` *)
Lemma read_frame_unread fr fr' r :
  fsinv (fr_rd fr) -> read_frame P rreaderS (rd_next P) rd_block fr = (fr', r) ->
  fsinv (fr_rd fr') /\
  match r with
  | FOk _ pl => unread_fr fr' + 7 + lenN pl <= unread_fr fr
  | _ => unread_fr fr' <= unread_fr fr
  end.
Proof.
  intros Hinv H. rewrite read_frame_eq in H.
  assert (Hhere : forall fr1, fsinv (fr_rd fr1) -> unread_fr fr1 <= unread_fr fr ->
            read_here P rd_block fr1 = (fr', r) ->
            fsinv (fr_rd fr') /\
            match r with
            | FOk _ pl => unread_fr fr' + 7 + lenN pl <= unread_fr fr
            | _ => unread_fr fr' <= unread_fr fr
            end).
  { intros fr1 Hi Hle Hh. apply read_here_cursor in Hh. destruct Hh as (Hrd & Hc & Hr).
    split; [rewrite Hrd; exact Hi|].
    unfold unread_fr in *. rewrite Hrd.
    destruct r; try lia. }
  destruct (need_skip P fr).
  - destruct (rd_next P (fr_rd fr)) as [r' [[|]|e]] eqn:Hn;
      destruct (rd_next_unread _ _ _ Hinv Hn) as [Hinv' Hle].
    + apply (Hhere (mkFR r' 0 false)); [exact Hinv'| |exact H].
      unfold unread_fr. cbn [fr_rd fr_cursor]. lia.
    + inversion H; subst. cbn [fr_rd]. split; [exact Hinv'|].
      unfold unread_fr. cbn [fr_rd fr_cursor]. lia.
    + inversion H; subst. cbn [fr_rd]. split; [exact Hinv'|].
      unfold unread_fr. cbn [fr_rd fr_cursor]. lia.
  - apply (Hhere fr); [exact Hinv|lia|exact H].
Qed.

Definition rrinv2 (rr : rreader_t) : Prop := fsinv (fr_rd (rr_fr rr)).

(* the bytes of the record being assembled (0 once it has been handed over or dropped) *)
Definition pending (rr : rreader_t) : N := if rr_within rr then lenN (rr_buf rr) else 0.

(* (a) for go_next, with ANY fuel (so every intermediate state of the record reader is covered:
   with fuel k the result RFuel returns the state after k frames):
   - the accumulation buffer + unread never increases            (transient allocation)
   - the record being assembled + unread never increases
   - a delivered record is paid for, and nothing is pending after it *)
Lemma go_next_unread : forall fuel rr rr' r,
  rrinv2 rr -> go_next P rreaderS (rd_next P) rd_block fuel rr = (rr', r) ->
  rrinv2 rr' /\
  lenN (rr_buf rr') + unread rr' <= lenN (rr_buf rr) + unread rr /\
  pending rr' + unread rr' <= pending rr + unread rr /\
  (r = RRecord -> lenN (rr_buf rr') + unread rr' <= pending rr + unread rr /\ pending rr' = 0).
Proof.
  induction fuel as [|f IH]; intros rr rr' r Hinv H.
  - cbn [go_next] in H. inversion H; subst. split; [exact Hinv|]. split; [lia|]. split; [lia|].
    discriminate.
  - rewrite go_next_S in H.
    destruct (read_frame P rreaderS (rd_next P) rd_block (rr_fr rr)) as [fr' fres] eqn:Hrf.
    destruct (read_frame_unread _ _ _ Hinv Hrf) as [Hinv' Hle].
    destruct fres as [t pl|e| |].
    + cbv zeta in H. unfold pending, unread in *.
      destruct (is_first_frame t).
      * (* first frame of a record: the buffer restarts *)
        destruct (is_last_frame t).
        -- cbn [app] in H. inversion H; subst. cbn [rr_fr rr_buf rr_within].
           split; [exact Hinv'|]. split; [lia|]. split; [lia|]. intros _. split; [|reflexivity].
           destruct (rr_within rr); lia.
        -- cbn [app] in H. apply IH in H; [|exact Hinv']. destruct H as (I1 & I2 & I3 & I4).
           cbn [rr_fr rr_buf rr_within] in *.
           split; [exact I1|]. split; [lia|].
           split; [destruct (rr_within rr); lia|].
           intros Hr. destruct (I4 Hr) as [I5 I6]. split; [|exact I6].
           destruct (rr_within rr); lia.
      * destruct (rr_within rr) eqn:Ew.
        -- destruct (is_last_frame t).
           ++ inversion H; subst. cbn [rr_fr rr_buf rr_within]. rewrite lenN_app.
              split; [exact Hinv'|]. split; [lia|]. split; [lia|]. intros _. split; [lia|reflexivity].
           ++ apply IH in H; [|exact Hinv']. destruct H as (I1 & I2 & I3 & I4).
              cbn [rr_fr rr_buf rr_within] in *. rewrite lenN_app in *.
              split; [exact I1|]. split; [lia|]. split; [lia|].
              intros Hr. destruct (I4 Hr) as [I5 I6]. split; [lia|exact I6].
        -- apply IH in H; [|exact Hinv']. destruct H as (I1 & I2 & I3 & I4).
           cbn [rr_fr rr_buf rr_within] in *.
           split; [exact I1|]. split; [lia|]. split; [lia|].
           intros Hr. destruct (I4 Hr) as [I5 I6]. split; [lia|exact I6].
    + inversion H; subst. unfold pending, unread, rrinv2. cbn [rr_fr rr_buf rr_within].
      split; [exact Hinv'|]. split; [lia|]. split; [destruct (rr_within rr); lia|discriminate].
    + inversion H; subst. unfold pending, unread, rrinv2. cbn [rr_fr rr_buf rr_within].
      split; [exact Hinv'|]. split; [lia|]. split; [destruct (rr_within rr); lia|discriminate].
    + inversion H; subst. unfold pending, unread, rrinv2. cbn [rr_fr rr_buf rr_within].
      split; [exact Hinv'|]. split; [lia|]. split; [destruct (rr_within rr); lia|discriminate].
Qed.
End Unread.

(* ================================================================== *)
(* 3. The replay loop                                                  *)
(* ================================================================== *)
Section Replay.
Variable P : params.
Variable fs : fsT.
Let K := RMS P.
Let C := alloc_factor (RMS P).

(* (c) the queues built so far are paid for by what has been read:
       qs_size + C * (record being assembled + unread)  never increases *)
Lemma replay_loop_alloc : forall f g rr qs rr' r B,
  rrinv2 fs rr ->
  qs_size K qs + C * (pending rr + unread P fs rr) <= B ->
  replay_loop P f g rr qs = (rr', r) ->
  rrinv2 fs rr' /\
  match r with
  | RpDone qs' => qs_size K qs' + C * (pending rr' + unread P fs rr') <= B
  | _ => True
  end.
Proof.
  induction f as [|f IH]; intros g rr qs rr' r B Hinv HB H.
  - cbn [replay_loop] in H. inversion H; subst. split; [exact Hinv|exact I].
  - rewrite replay_loop_S in H. cbv zeta in H.
    destruct (go_next P rreaderS (rd_next P) rd_block g rr) as [rr1 gres] eqn:Hgo.
    destruct (go_next_unread P fs _ _ _ _ Hinv Hgo) as (Hinv1 & Hbuf & Hpend & Hrec).
    assert (Hsame : qs_size K qs + C * (pending rr1 + unread P fs rr1) <= B).
    { pose proof (N.mul_le_mono_l _ _ C Hpend). lia. }
    destruct gres as [| | |e|].
    + destruct (Hrec eq_refl) as [Hpaid Hp0].
      destruct (entry_deser (rr_buf rr1)) as [e|] eqn:Ed.
      * destruct (apply_entry qs (rd_file (fr_rd (rr_fr rr))) e) as [qs'|] eqn:Ea.
        -- eapply IH; [exact Hinv1| |exact H].
           pose proof (apply_decoded_entry_size K _ _ _ _ _ Ed Ea) as Hc.
           change (alloc_factor K) with C in Hc. rewrite Hp0.
           assert (Hq : C * (0 + unread P fs rr1) + C * lenN (rr_buf rr1)
                        <= C * (pending rr + unread P fs rr)).
           { rewrite <- N.mul_add_distr_l. apply N.mul_le_mono_l. lia. }
           clearbody C K. lia.
        -- inversion H; subst. split; [exact Hinv1|exact I].
      * eapply IH; [exact Hinv1|exact Hsame|exact H].
    + inversion H; subst. split; [exact Hinv1|exact Hsame].
    + eapply IH; [exact Hinv1|exact Hsame|exact H].
    + destruct (L_IO P).
      * eapply IH; [exact Hinv1|exact Hsame|exact H].
      * inversion H; subst. split; [exact Hinv1|exact I].
    + inversion H; subst. split; [exact Hinv1|exact I].
Qed.

(* the record reader's accumulation buffer (the largest transient allocation), at every state
   the loop can be stopped in (any fuel: RpFuel returns the state reached) *)
Lemma replay_loop_buffer : forall f g rr qs rr' r,
  rrinv2 fs rr ->
  replay_loop P f g rr qs = (rr', r) ->
  rrinv2 fs rr' /\
  lenN (rr_buf rr') + unread P fs rr' <= lenN (rr_buf rr) + unread P fs rr.
Proof.
  induction f as [|f IH]; intros g rr qs rr' r Hinv H.
  - cbn [replay_loop] in H. inversion H; subst. split; [exact Hinv|lia].
  - rewrite replay_loop_S in H. cbv zeta in H.
    destruct (go_next P rreaderS (rd_next P) rd_block g rr) as [rr1 gres] eqn:Hgo.
    destruct (go_next_unread P fs _ _ _ _ Hinv Hgo) as (Hinv1 & Hbuf & _).
    assert (Hrec : forall qs1, replay_loop P f g rr1 qs1 = (rr', r) ->
              rrinv2 fs rr' /\
              lenN (rr_buf rr') + unread P fs rr' <= lenN (rr_buf rr) + unread P fs rr).
    { intros qs1 H1. destruct (IH _ _ _ _ _ Hinv1 H1) as [I1 I2]. split; [exact I1|lia]. }
    assert (Hstop : (rr1, r) = (rr', r) ->
              rrinv2 fs rr' /\
              lenN (rr_buf rr') + unread P fs rr' <= lenN (rr_buf rr) + unread P fs rr).
    { intros E. inversion E; subst. split; [exact Hinv1|exact Hbuf]. }
    destruct gres as [| | |e|].
    + destruct (entry_deser (rr_buf rr1)) as [e|].
      * destruct (apply_entry qs (rd_file (fr_rd (rr_fr rr))) e) as [qs'|].
        -- eapply Hrec; exact H.
        -- inversion H; subst. apply Hstop. reflexivity.
      * eapply Hrec; exact H.
    + inversion H; subst. apply Hstop. reflexivity.
    + eapply Hrec; exact H.
    + destruct (L_IO P).
      * eapply Hrec; exact H.
      * inversion H; subst. apply Hstop. reflexivity.
    + inversion H; subst. apply Hstop. reflexivity.
Qed.
End Replay.

(* ================================================================== *)
(* 4. rd_open: the initial potential                                   *)
(* ================================================================== *)

(* total length of the WAL files of the directory listing *)
Definition wal_bytes (fs : fsT) : N := sumlen fs (list_wal_numbers fs).

Lemma wal_bytes_le_fs_bytes fs : wal_bytes fs <= fs_bytes fs.
Proof.
  unfold wal_bytes. apply sumlen_le_fs_bytes.
  - apply sorted_NoDup, listed_sorted.
  - apply listed_bound.
Qed.

Lemma sumlen_le_each fs (M : N) l :
  (forall x, In x l -> lenN (fcontent fs x) <= M) -> sumlen fs l <= M * lenN l.
Proof.
  induction l as [|x l IH]; intros H; [cbn; lia|].
  rewrite sumlen_cons, lenN_cons.
  pose proof (H x (or_introl eq_refl)). specialize (IH (fun y Hy => H y (or_intror Hy))). lia.
Qed.

Lemma fcontent_put fs name e n :
  fcontent (fs_put fs name e) n =
  if bytes_eqb name (filename n) then match e with FFile b => b | _ => [] end else fcontent fs n.
Proof. unfold fcontent. rewrite fs_get_put. destruct (bytes_eqb name (filename n)); reflexivity. Qed.

Lemma sumlen_put_nohit fs name e l :
  (forall x, In x l -> filename x <> name) -> sumlen (fs_put fs name e) l = sumlen fs l.
Proof.
  induction l as [|x l IH]; intros Hno; [reflexivity|].
  rewrite !sumlen_cons, IH by (intros y Hy; apply Hno; now right).
  rewrite fcontent_put.
  destruct (bytes_eqb name (filename x)) eqn:E; [|reflexivity].
  apply bytes_eqb_eq in E. exfalso. apply (Hno x); [now left|congruence].
Qed.

(* replacing one file adds at most its new length to the total of a duplicate-free listing *)
Lemma sumlen_put_le fs name b l :
  NoDup l -> (forall x, In x l -> x <= U64_MAX) ->
  sumlen (fs_put fs name (FFile b)) l <= sumlen fs l + lenN b.
Proof.
  induction l as [|x l IH]; intros Hnd Hb; [cbn; lia|].
  inversion Hnd as [|? ? Hnin Hnd']; subst.
  rewrite !sumlen_cons, fcontent_put.
  destruct (bytes_eqb name (filename x)) eqn:E.
  - apply bytes_eqb_eq in E. rewrite sumlen_put_nohit; [lia|].
    intros y Hy Hf. apply Hnin.
    assert (y = x); [|congruence].
    apply filename_inj; [apply Hb; now right|apply Hb; now left|congruence].
  - specialize (IH Hnd' (fun y Hy => Hb y (or_intror Hy))). lia.
Qed.

Lemma lenN_set_len b n : lenN (set_len b n) = n.
Proof.
  unfold set_len. destruct (N.leb_spec n (lenN b)).
  - rewrite lenN_takeN. lia.
  - rewrite lenN_app, lenN_zerosN. lia.
Qed.

Section OpenBound.
Variable P : params.

Lemma ensure_last_full_sumlen c files c' r :
  NoDup files -> (forall x, In x files -> x <= U64_MAX) ->
  ensure_last_full P c files = (c', r) ->
  sumlen (c_fs c') files <= sumlen (c_fs c) files + FILE_BYTES P.
Proof.
  intros Hnd Hb. unfold ensure_last_full.
  destruct (last_opt files) as [n|]; [|intros H; inversion H; subst; lia].
  destruct (lenN (file_content c n) <? FILE_BYTES P); [|intros H; inversion H; subst; lia].
  destruct (open_file c n) as [c1 [u|e]] eqn:Ho; apply open_file_fs in Ho;
    intros H; inversion H; subst; [|rewrite Ho; lia].
  cbn [c_fs ctx_ev ctx_fs]. rewrite Ho.
  pose proof (sumlen_put_le (c_fs c) (filename n) (set_len (file_content c n) (FILE_BYTES P))
                files Hnd Hb) as Hs.
  rewrite lenN_set_len in Hs. exact Hs.
Qed.

Lemma rd_open_tail_unread B c2 files c rd :
  files <> [] ->
  sumlen (c_fs c2) files <= B ->
  (forall c2' r, ensure_last_full P c2 files = (c2', r) -> sumlen (c_fs c2') files <= B) ->
  rd_open_tail P c2 files = (c, Ok rd) ->
  unread P (c_fs (rd_ctx rd)) (rr_open rreaderS rd) <= B.
Proof.
  intros Hne HB Hens. unfold rd_open_tail.
  destruct (if L_SHORT P then (c2, Ok tt) else ensure_last_full P c2 files) as [c2' [u|e]] eqn:He;
    [|intros H; inversion H].
  assert (HB' : sumlen (c_fs c2') files <= B).
  { destruct (L_SHORT P); [inversion He; subst; lia|]. eapply Hens. exact He. }
  destruct files as [|first rest]; [congruence|].
  destruct (open_file c2' first) as [c3 [u'|e]] eqn:Ho; [|intros H; inversion H].
  apply open_file_fs in Ho.
  destruct (read_block P c3 first 0) as [[c4 pos'] [[blk|]|e]] eqn:Hr;
    intros H; inversion H; subst.
  apply read_block_spec2 in Hr. destruct Hr as (Hfs & _ & Hp & Hlen).
  rewrite N.add_0_l in Hp. subst pos'.
  unfold unread, unread_fr, unread_rd, rr_open, fr_open.
  cbn [rr_fr fr_rd fr_cursor rd_ctx rd_files rd_file rd_pos].
  assert (Hfs4 : c_fs c = c_fs c2') by congruence.
  rewrite Hfs4. rewrite Ho in Hlen.
  pose proof (sumlen_after_head (c_fs c2') first rest) as H1.
  rewrite sumlen_cons in HB'. lia.
Qed.
End OpenBound.

(* ================================================================== *)
(* 5. open                                                             *)
(* ================================================================== *)
Section OpenAlloc.
Variable P : params.

(* the reader starts with at most (listed WAL files) + (one file size) bytes ahead of it:
   open extends a short last file to FILE_BYTES, or creates file 0 in an empty directory *)
Lemma rd_open_unread fs0 plan c rd :
  rd_open P (ctx_init fs0 plan) = (c, Ok rd) ->
  unread P (c_fs (rd_ctx rd)) (rr_open rreaderS rd) <= wal_bytes fs0 + FILE_BYTES P.
Proof.
  intros H. rewrite rd_open_eq in H.
  pose proof (fault_point_fs (ctx_ev (ctx_init fs0 plan) EvReadDir) SReadDir) as Hf.
  destruct (fault_point (ctx_ev (ctx_init fs0 plan) EvReadDir) SReadDir) as [c1 [e|]];
    [inversion H|]. cbn [fst c_fs ctx_ev ctx_init] in Hf.
  destruct (list_wal_numbers (c_fs c1)) as [|x l] eqn:El.
  - (* empty listing: file 0 is created with FILE_BYTES zeros *)
    destruct (create_file P c1 0) as [c' [u|e]] eqn:Hc; [|inversion H].
    assert (Hlen : lenN (fcontent (c_fs c') 0) = FILE_BYTES P).
    { unfold create_file in Hc. destruct (fs_get (c_fs c1) (filename 0)); [inversion Hc|].
      inversion Hc; subst c'. cbn [c_fs ctx_ev ctx_fs].
      rewrite fcontent_put, bytes_eqb_refl. apply lenN_zerosN. }
    assert (Hs : sumlen (c_fs c') [0] <= wal_bytes fs0 + FILE_BYTES P).
    { rewrite sumlen_cons. cbn [sumlen fold_right]. lia. }
    apply (rd_open_tail_unread P (wal_bytes fs0 + FILE_BYTES P) c' [0] c rd);
      [discriminate|exact Hs| |exact H].
    intros c2' r He. unfold ensure_last_full in He. cbn [last_opt] in He.
    rewrite file_content_fcontent, Hlen in He.
    replace (FILE_BYTES P <? FILE_BYTES P) with false in He by lia.
    inversion He; subst. exact Hs.
  - assert (Hnd : NoDup (x :: l)).
    { rewrite <- El. apply sorted_NoDup, listed_sorted. }
    assert (Hb : forall y, In y (x :: l) -> y <= U64_MAX).
    { rewrite <- El. apply listed_bound. }
    assert (Hs : sumlen (c_fs c1) (x :: l) = wal_bytes fs0).
    { rewrite <- El, Hf. reflexivity. }
    apply (rd_open_tail_unread P (wal_bytes fs0 + FILE_BYTES P) c1 (x :: l) c rd);
      [discriminate| | |exact H].
    + lia.
    + intros c2' r He. pose proof (ensure_last_full_sumlen P _ _ _ _ Hnd Hb He). lia.
Qed.

(* ---------- the record reader's buffer: the largest transient allocation ---------- *)
(* At every state the replay can be stopped in (any fuels f, g; the result RpFuel returns the
   state reached after f records / g frames), the accumulation buffer is no larger than the
   bytes of the directory the reader has gone past:
     |rr_buf| + unread <= wal_bytes fs + FILE_BYTES *)
Theorem open_reader_buffer_bound fs plan c rd f g rr r :
  rd_open P (ctx_init fs plan) = (c, Ok rd) ->
  replay_loop P f g (rr_open rreaderS rd) [] = (rr, r) ->
  lenN (rr_buf rr) + unread P (c_fs (rd_ctx rd)) rr <= wal_bytes fs + FILE_BYTES P.
Proof.
  intros Ho Hr. pose proof (rd_open_unread _ _ _ _ Ho) as Hu.
  destruct (replay_loop_buffer P (c_fs (rd_ctx rd)) f g (rr_open rreaderS rd) [] rr r
              eq_refl Hr) as [_ Hb].
  cbn [rr_open rr_buf] in Hb. change (lenN (@nil byte)) with 0 in Hb. lia.
Qed.

(* ---------- the queues ---------- *)
Theorem open_with_alloc_bound fuel fs plan pol hint st :
  open_with P fuel fs plan pol hint = OpenOk st ->
  log_memory_used P st <= alloc_factor (RMS P) * (wal_bytes fs + FILE_BYTES P).
Proof.
  unfold open_with.
  destruct (rd_open P (ctx_init fs plan)) as [c0 [rd|e]] eqn:Ho; [|discriminate].
  pose proof (rd_open_unread _ _ _ _ Ho) as Hu.
  destruct (replay_loop P fuel fuel (rr_open rreaderS rd) []) as [rr rp] eqn:Hrp.
  destruct rp as [qs| | |]; try discriminate.
  destruct (replay_loop_alloc P (c_fs (rd_ctx rd)) fuel fuel (rr_open rreaderS rd) [] rr (RpDone qs)
              (alloc_factor (RMS P) * (wal_bytes fs + FILE_BYTES P)) eq_refl
              ltac:(unfold pending; cbn [rr_open rr_within qs_size fold_right];
                    apply N.mul_le_mono_l with (p := alloc_factor (RMS P)) in Hu; lia)
              Hrp) as [_ Hq].
  set (st0 := mkSt _ qs pol).
  pose proof (run_gc_qs P st0 hint) as Hgc.
  destruct (run_gc_if_necessary P st0 hint) as [st1 [n|e]]; [|discriminate].
  intros H; inversion H; subst st1. cbn [fst] in Hgc.
  unfold log_memory_used. rewrite Hgc. cbn [s_qs st0]. lia.
Qed.

(* C10, allocation: for ANY directory content and ANY fault plan, what open leaves in memory is
   at most alloc_factor (RMS) * (bytes of the listed WAL files + one file size) *)
Theorem open_alloc_bound fs plan pol hint st :
  open P fs plan pol hint = OpenOk st ->
  log_memory_used P st <= alloc_factor (RMS P) * (wal_bytes fs + FILE_BYTES P).
Proof. apply open_with_alloc_bound. Qed.

(* against the total size of the regular files of the directory *)
Corollary open_alloc_bound_fs_bytes fs plan pol hint st :
  open P fs plan pol hint = OpenOk st ->
  log_memory_used P st <= alloc_factor (RMS P) * (fs_bytes fs + FILE_BYTES P).
Proof.
  intros H. apply open_alloc_bound in H. pose proof (wal_bytes_le_fs_bytes fs) as Hw.
  apply N.add_le_mono_r with (p := FILE_BYTES P) in Hw.
  apply N.mul_le_mono_l with (p := alloc_factor (RMS P)) in Hw. lia.
Qed.

(* against the number of WAL files, when no listed file is longer than FILE_BYTES (the crate
   never makes one longer; without this premise the bound is false: see the counterexample
   alloc_count_bound_needs_premise below) *)
Corollary open_alloc_bound_count fs plan pol hint st :
  (forall n, In n (list_wal_numbers fs) -> lenN (fcontent fs n) <= FILE_BYTES P) ->
  open P fs plan pol hint = OpenOk st ->
  log_memory_used P st <=
    alloc_factor (RMS P) * (FILE_BYTES P * N.of_nat (length (list_wal_numbers fs)))
    + alloc_factor (RMS P) * FILE_BYTES P.
Proof.
  intros Hlen H. apply open_alloc_bound in H.
  pose proof (sumlen_le_each fs (FILE_BYTES P) (list_wal_numbers fs) Hlen) as Hw.
  fold (wal_bytes fs) in Hw. rewrite lenN_length in Hw.
  rewrite <- N.mul_add_distr_l.
  apply N.add_le_mono_r with (p := FILE_BYTES P) in Hw.
  apply N.mul_le_mono_l with (p := alloc_factor (RMS P)) in Hw. lia.
Qed.
End OpenAlloc.

Print Assumptions apply_entry_size.
Print Assumptions apply_decoded_entry_size.
Print Assumptions read_frame_unread.
Print Assumptions go_next_unread.
Print Assumptions replay_loop_alloc.
Print Assumptions replay_loop_buffer.
Print Assumptions rd_open_unread.
Print Assumptions open_reader_buffer_bound.
Print Assumptions open_with_alloc_bound.
Print Assumptions open_alloc_bound.
Print Assumptions open_alloc_bound_fs_bytes.
Print Assumptions open_alloc_bound_count.
