(* Mem.v — src/mem/{queue,queues,rolling_buffer}.rs.
   MemQueue is modelled literally: one concatenated payload buffer, record metas carrying a
   start offset, an optional file handle (the Arc clone) and a position. *)
From MRL Require Import Bytes Params.

Record meta := mkMeta { m_off : N; m_file : option N; m_pos : N }.

Record mq := mkMq { q_buf : bytes; q_start : N; q_metas : list meta }.

Definition mq_default : mq := mkMq [] 0 [].
Definition mq_with_next (n : N) : mq := mkMq [] n [].

Definition mq_is_empty (q : mq) : bool := isnil (q_metas q).

Definition next_position (q : mq) : N :=
  match last_opt (q_metas q) with Some m => m_pos m + 1 | None => q_start q end.

Definition last_position (q : mq) : option N :=
  let n := next_position q in if n =? 0 then None else Some (n - 1).

Definition opt_N_eqb (a : option N) (b : N) : bool :=
  match a with Some x => x =? b | None => false end.

(* replaces the file handle of the last meta by None (Option::take) *)
Fixpoint take_last_file (ms : list meta) : list meta :=
  match ms with
  | [] => []
  | [m] => [mkMeta (m_off m) None (m_pos m)]
  | m :: r => m :: take_last_file r
  end.

(* MemQueue::append_record; None = AppendError::Past *)
Definition append_record (q : mq) (file : N) (target : N) (payload : bytes) : option mq :=
  if target <? next_position q then None
  else
    let start' := if (q_start q =? 0) && isnil (q_metas q) then target else q_start q in
    let metas' :=
      match last_opt (q_metas q) with
      | Some m => if opt_N_eqb (m_file m) file then take_last_file (q_metas q) else q_metas q
      | None => q_metas q
      end in
    Some (mkMq (q_buf q ++ payload) start'
               (metas' ++ [mkMeta (lenN (q_buf q)) (Some file) target])).

(* Vec::binary_search_by_key on strictly increasing positions, by its contract:
   the number of records with a smaller position *)
Fixpoint idx_ge (p : N) (ms : list meta) : N :=
  match ms with
  | [] => 0
  | m :: r => if m_pos m <? p then 1 + idx_ge p r else 0
  end.

Definition has_pos (p : N) (ms : list meta) : bool := existsb (fun m => m_pos m =? p) ms.

Definition rebase (k : N) (m : meta) : meta := mkMeta (m_off m - k) (m_file m) (m_pos m).

(* MemQueue::truncate_head(..=p): (new queue, evicted count) *)
Definition truncate_head (q : mq) (p : N) : mq * N :=
  if p <? q_start q then (q, 0)
  else if next_position q <=? p + 1 then
    (mkMq [] (p + 1) [], lenN (q_metas q))
  else
    let k := idx_ge (p + 1) (q_metas q) in
    let kept := dropN k (q_metas q) in
    let off := match kept with m :: _ => m_off m | [] => 0 end in
    (mkMq (dropN off (q_buf q)) (p + 1) (map (rebase off) kept), k).

Inductive bound := Incl (n : N) | Excl (n : N) | Unb.

Definition in_bounds (lo hi : bound) (p : N) : bool :=
  (match lo with Incl a => a <=? p | Excl a => a <? p | Unb => true end) &&
  (match hi with Incl b => p <=? b | Excl b => p <? b | Unb => true end).

Definition range_start_idx (lo : bound) (ms : list meta) : N :=
  match lo with
  | Incl a => idx_ge a ms
  | Excl a => if has_pos a ms then idx_ge a ms + 1 else idx_ge a ms
  | Unb => 0
  end.

(* payloads of consecutive metas: each record ends where the next begins *)
Fixpoint records_of (buf : bytes) (ms : list meta) : list (N * bytes) :=
  match ms with
  | [] => []
  | m :: r =>
      let stop := match r with m' :: _ => m_off m' | [] => lenN buf end in
      (m_pos m, sliceN (m_off m) stop buf) :: records_of buf r
  end.

Fixpoint take_while {A} (f : A -> bool) (l : list A) : list A :=
  match l with [] => [] | x :: r => if f x then x :: take_while f r else [] end.

(* MemQueue::range *)
Definition mq_range (q : mq) (lo hi : bound) : list (N * bytes) :=
  let recs := records_of (q_buf q) (q_metas q) in
  take_while (fun r => in_bounds lo hi (fst r))
             (dropN (range_start_idx lo (q_metas q)) recs).

Definition mq_last_record (q : mq) : option (N * bytes) :=
  match last_opt (q_metas q) with
  | Some m => Some (m_pos m, dropN (m_off m) (q_buf q))
  | None => None
  end.

Fixpoint first_file (ms : list meta) : option N :=
  match ms with
  | [] => None
  | m :: r => match m_file m with Some f => Some f | None => first_file r end
  end.

Definition mq_size (K : N) (q : mq) : N := lenN (q_buf q) + lenN (q_metas q) * K.

(* ----- RollingBuffer::get_range over the two VecDeque slices (C05_ring) ----- *)
Definition ring_get_range (left right : bytes) (s e : N) : bytes :=
  if e <? lenN left then sliceN s e left
  else if lenN left <=? s then sliceN (s - lenN left) (e - lenN left) right
  else dropN s left ++ takeN (e - lenN left) right.

(* ----- MemQueues: HashMap<String, MemQueue> as an association list ----- *)
Definition queues := list (bytes * mq).

Fixpoint qs_get (qs : queues) (name : bytes) : option mq :=
  match qs with
  | [] => None
  | (n, q) :: r => if bytes_eqb n name then Some q else qs_get r name
  end.

Fixpoint qs_remove (qs : queues) (name : bytes) : queues :=
  match qs with
  | [] => []
  | (n, q) :: r => if bytes_eqb n name then qs_remove r name else (n, q) :: qs_remove r name
  end.

(* insert or replace, keeping the position of an existing key *)
Fixpoint qs_put (qs : queues) (name : bytes) (q : mq) : queues :=
  match qs with
  | [] => [(name, q)]
  | (n, q0) :: r => if bytes_eqb n name then (n, q) :: r else (n, q0) :: qs_put r name q
  end.

Definition qs_contains (qs : queues) (name : bytes) : bool :=
  match qs_get qs name with Some _ => true | None => false end.

(* MemQueues::ack_position *)
Definition ack_position (qs : queues) (name : bytes) (next : N) : queues :=
  match qs_get qs name with
  | Some q =>
      if negb (mq_is_empty q) || negb (next_position q =? next)
      then qs_put qs name (mq_with_next next)
      else qs
  | None => qs_put qs name (mq_with_next next)
  end.

(* MemQueues::size().0 *)
Definition qs_size (K : N) (qs : queues) : N :=
  fold_right (fun '(n, q) acc => lenN n + mq_size K q + acc) 0 qs.

(* does some record of some queue hold a handle on file f? *)
Definition metas_ref (f : N) (ms : list meta) : bool :=
  existsb (fun m => opt_N_eqb (m_file m) f) ms.
Definition qs_ref (f : N) (qs : queues) : bool :=
  existsb (fun '(_, q) => metas_ref f (q_metas q)) qs.
