(* QueueIso.v — queue isolation (C18) and position monotonicity (C04), first for the sequential
   specification (Spec.v), then transferred to the model of the log through SpecRefine.run_refines.

   Part 1  isolation:  a call addressed to one queue never changes what another queue holds or
           returns; erasing from a history every call addressed to other queues leaves the content
           of a queue and the outcomes of its own calls unchanged.
   Part 2  positions:  within one incarnation of a queue (no successful delete) the next position
           never decreases, newly assigned positions are fresh (>= the old next position), and the
           positions returned by successful appends are strictly increasing. *)
From Coq Require Import Lia ZArith ZifyN ZifyNat ZifyBool Sorted.
From MRL Require Import Bytes BytesProofs Params Names Frame Record Mem Spec Rolling Log Hist
                        NoopProofs WriterProofs SpecRefine.

Arguments N.add : simpl never.
Arguments N.sub : simpl never.
Arguments N.mul : simpl never.
Arguments N.eqb : simpl never.
Arguments N.ltb : simpl never.
Arguments N.leb : simpl never.
Arguments N.div : simpl never.
Arguments N.modulo : simpl never.

(* ====================================================================== *)
(* 0. the association list                                                *)
(* ====================================================================== *)

Lemma s_get_put_same m q v : s_get (s_put m q v) q = Some v.
Proof.
  induction m as [|[n v0] r IH]; cbn [s_put s_get].
  - now rewrite bytes_eqb_refl.
  - destruct (bytes_eqb n q) eqn:E; cbn [s_get]; rewrite E; [reflexivity|exact IH].
Qed.

Lemma s_get_put_other m q q' v : q' <> q -> s_get (s_put m q' v) q = s_get m q.
Proof.
  intros Hne. apply bytes_eqb_neq in Hne.
  induction m as [|[n v0] r IH]; cbn [s_put s_get].
  - now rewrite Hne.
  - destruct (bytes_eqb n q') eqn:E; cbn [s_get].
    + apply bytes_eqb_eq in E. subst n. now rewrite Hne.
    + destruct (bytes_eqb n q); [reflexivity|exact IH].
Qed.

Lemma s_get_remove_same m q : s_get (s_remove m q) q = None.
Proof.
  induction m as [|[n v0] r IH]; cbn [s_remove s_get]; [reflexivity|].
  destruct (bytes_eqb n q) eqn:E; [exact IH|]. cbn [s_get]. now rewrite E.
Qed.

Lemma s_get_remove_other m q q' : q' <> q -> s_get (s_remove m q') q = s_get m q.
Proof.
  intros Hne. apply bytes_eqb_neq in Hne.
  induction m as [|[n v0] r IH]; cbn [s_remove s_get]; [reflexivity|].
  destruct (bytes_eqb n q') eqn:E.
  - apply bytes_eqb_eq in E. subst n. now rewrite Hne.
  - cbn [s_get]. destruct (bytes_eqb n q); [reflexivity|exact IH].
Qed.

(* ====================================================================== *)
(* 1. isolation at the level of the specification                         *)
(* ====================================================================== *)

Definition sop_queue (o : sop) : option bytes :=
  match o with
  | SCreate q | SDelete q | SAppend q _ _ | STruncate q _ => Some q
  | SPersist => None
  end.

Definition addressed (q : bytes) (o : sop) : bool :=
  match sop_queue o with Some q' => bytes_eqb q' q | None => false end.

Lemma addressed_true q o : addressed q o = true <-> sop_queue o = Some q.
Proof.
  unfold addressed. destruct (sop_queue o) as [q'|]; split; intros H; try discriminate.
  - apply bytes_eqb_eq in H. now subst.
  - inversion H. apply bytes_eqb_refl.
Qed.

Lemma addressed_false q o : addressed q o = false <-> sop_queue o <> Some q.
Proof.
  split.
  - intros H E. apply addressed_true in E. congruence.
  - intros H. destruct (addressed q o) eqn:E; [|reflexivity]. apply addressed_true in E. contradiction.
Qed.

(* a call addressed elsewhere (or to no queue) leaves queue q alone *)
Lemma s_step_other m o q : sop_queue o <> Some q -> s_get (fst (s_step m o)) q = s_get m q.
Proof.
  intros Hne.
  destruct o as [q'|q'|q' pos pl|q' p|]; cbn [sop_queue] in Hne; cbn [s_step];
    try (assert (Hq : q' <> q) by congruence).
  - destruct (s_get m q'); cbn [fst]; [reflexivity|]. now apply s_get_put_other.
  - destruct (s_get m q'); cbn [fst]; [|reflexivity]. now apply s_get_remove_other.
  - destruct (s_get m q') as [[recs next]|]; [|reflexivity].
    destruct pos as [p|].
    + destruct (p + 1 =? next); [reflexivity|]. destruct (p <? next); [reflexivity|].
      destruct pl; cbn [fst]; [reflexivity|]. now apply s_get_put_other.
    + destruct pl; cbn [fst]; [reflexivity|]. now apply s_get_put_other.
  - destruct (s_get m q') as [[recs next]|]; cbn [fst]; [|reflexivity]. now apply s_get_put_other.
  - reflexivity.
Qed.

(* The step seen from one queue: what the call does to the content of the queue it addresses,
   as a function of that content alone. *)
Definition q_step (v : option squeue) (o : sop) : option squeue * sout :=
  match o with
  | SCreate _ =>
      match v with Some _ => (v, SAlreadyExists) | None => (Some ([], 0), SOk) end
  | SDelete _ =>
      match v with None => (None, SMissing) | Some _ => (None, SOk) end
  | SAppend _ pos payloads =>
      match v with
      | None => (None, SMissing)
      | Some (recs, next) =>
          match pos with
          | Some p =>
              if p + 1 =? next then (v, SAppended None)
              else if p <? next then (v, SPast)
              else match payloads with
                   | [] => (v, SAppended None)
                   | _ => (Some (recs ++ s_number p payloads, p + lenN payloads),
                           SAppended (Some (p + lenN payloads - 1)))
                   end
          | None =>
              match payloads with
              | [] => (v, SAppended None)
              | _ => (Some (recs ++ s_number next payloads, next + lenN payloads),
                      SAppended (Some (next + lenN payloads - 1)))
              end
          end
      end
  | STruncate _ p =>
      match v with
      | None => (None, SMissing)
      | Some (recs, next) =>
          let kept := filter (fun r => p <? fst r) recs in
          let next' := if isnil kept && (next <=? p + 1) then p + 1 else next in
          (Some (kept, next'), STruncated (lenN recs - lenN kept))
      end
  | SPersist => (v, SOk)
  end.

Lemma s_step_q_step m o q :
  sop_queue o = Some q ->
  s_get (fst (s_step m o)) q = fst (q_step (s_get m q) o) /\
  snd (s_step m o) = snd (q_step (s_get m q) o).
Proof.
  intros Hq.
  destruct o as [q'|q'|q' pos pl|q' p|]; cbn [sop_queue] in Hq; inversion Hq; subst q';
    cbn [s_step q_step].
  - destruct (s_get m q) eqn:E; cbn [fst snd]; [now rewrite E|]. now rewrite s_get_put_same.
  - destruct (s_get m q) eqn:E; cbn [fst snd]; [|now rewrite E]. now rewrite s_get_remove_same.
  - destruct (s_get m q) as [[recs next]|] eqn:E; cbn [fst snd]; [|now rewrite E].
    destruct pos as [p|].
    + destruct (p + 1 =? next); cbn [fst snd]; [now rewrite E|].
      destruct (p <? next); cbn [fst snd]; [now rewrite E|].
      destruct pl; cbn [fst snd]; [now rewrite E|]. now rewrite s_get_put_same.
    + destruct pl; cbn [fst snd]; [now rewrite E|]. now rewrite s_get_put_same.
  - destruct (s_get m q) as [[recs next]|] eqn:E; cbn [fst snd]; [|now rewrite E].
    now rewrite s_get_put_same.
Qed.

(* the outcome of a call on q and the new content of q depend only on the content of q *)
Lemma s_step_local m1 m2 o q :
  s_get m1 q = s_get m2 q -> sop_queue o = Some q ->
  snd (s_step m1 o) = snd (s_step m2 o) /\
  s_get (fst (s_step m1 o)) q = s_get (fst (s_step m2 o)) q.
Proof.
  intros Hg Hq.
  destruct (s_step_q_step m1 o q Hq) as (A1 & B1). destruct (s_step_q_step m2 o q Hq) as (A2 & B2).
  rewrite A1, A2, B1, B2, Hg. split; reflexivity.
Qed.

(* ---------- histories ---------- *)

(* the elements of outs at the positions of h selected by f *)
Definition keep_outs {A B} (f : A -> bool) (h : list A) (outs : list B) : list B :=
  map snd (filter (fun x => f (fst x)) (combine h outs)).

Lemma keep_outs_cons {A B} (f : A -> bool) a h (b : B) outs :
  keep_outs f (a :: h) (b :: outs) = if f a then b :: keep_outs f h outs else keep_outs f h outs.
Proof. unfold keep_outs. cbn [combine filter fst]. destruct (f a); reflexivity. Qed.

Lemma keep_outs_map_out {A B C} (f : A -> bool) (g : B -> C) h outs :
  map g (keep_outs f h outs) = keep_outs f h (map g outs).
Proof.
  revert outs; induction h as [|a h IH]; intros [|b outs]; try reflexivity.
  cbn [map]. rewrite !keep_outs_cons. destruct (f a); cbn [map]; now rewrite IH.
Qed.

Lemma keep_outs_map_in {A A' B} (f : A' -> bool) (k : A -> A') h (outs : list B) :
  keep_outs f (map k h) outs = keep_outs (fun a => f (k a)) h outs.
Proof.
  revert outs; induction h as [|a h IH]; intros [|b outs]; try reflexivity.
  cbn [map]. rewrite !keep_outs_cons. destruct (f (k a)); now rewrite IH.
Qed.

Lemma filter_map_comm {A A'} (f : A' -> bool) (k : A -> A') h :
  filter f (map k h) = map k (filter (fun a => f (k a)) h).
Proof.
  induction h as [|a h IH]; [reflexivity|]. cbn [map filter].
  destruct (f (k a)); cbn [map]; now rewrite IH.
Qed.

Lemma s_run_cons m o h :
  s_run m (o :: h) =
  (fst (s_run (fst (s_step m o)) h), snd (s_step m o) :: snd (s_run (fst (s_step m o)) h)).
Proof.
  cbn [s_run]. destruct (s_step m o) as [m1 out]. cbn [fst snd].
  destruct (s_run m1 h) as [m2 outs]. reflexivity.
Qed.

Lemma s_run_length h : forall m, length (snd (s_run m h)) = length h.
Proof.
  induction h as [|o h IH]; intros m; [reflexivity|].
  rewrite s_run_cons. cbn [snd length]. now rewrite IH.
Qed.

(* C18 for the specification: the content of q after a history, and the outcomes of the calls
   addressed to q, are those of the history from which every other call has been erased
   (started from any map that agrees on q). *)
Theorem s_run_projection : forall h m1 m2 q,
  s_get m1 q = s_get m2 q ->
  s_get (fst (s_run m1 h)) q = s_get (fst (s_run m2 (filter (addressed q) h))) q /\
  keep_outs (addressed q) h (snd (s_run m1 h)) = snd (s_run m2 (filter (addressed q) h)).
Proof.
  induction h as [|o h IH]; intros m1 m2 q Hg.
  - cbn [filter s_run fst snd]. split; [exact Hg|reflexivity].
  - rewrite s_run_cons. cbn [fst snd filter]. rewrite keep_outs_cons.
    destruct (addressed q o) eqn:Ea.
    + apply addressed_true in Ea. rewrite s_run_cons. cbn [fst snd].
      destruct (s_step_local m1 m2 o q Hg Ea) as (Ho & Hg').
      destruct (IH _ _ q Hg') as (I1 & I2). split; [exact I1|]. now rewrite Ho, I2.
    + apply addressed_false in Ea.
      apply IH. rewrite s_step_other by exact Ea. exact Hg.
Qed.

(* special case: calls addressed elsewhere never change what q holds *)
Corollary s_run_others_invisible h m q :
  (forall o, In o h -> sop_queue o <> Some q) -> s_get (fst (s_run m h)) q = s_get m q.
Proof.
  intros Hall. destruct (s_run_projection h m m q eq_refl) as (H & _).
  rewrite H. replace (filter (addressed q) h) with (@nil sop); [reflexivity|].
  symmetry. apply filter_all_false. intros o Hin. apply addressed_false. now apply Hall.
Qed.

(* ====================================================================== *)
(* 2. isolation transferred to the model of the log                       *)
(* ====================================================================== *)

(* a history without I/O failure has a list of logical outcomes *)
Lemma no_io_logical outs :
  forallb (fun o => negb (is_io o)) outs = true ->
  exists souts, map out_logical outs = map Some souts.
Proof.
  induction outs as [|o outs IH]; intros H; [exists []; reflexivity|].
  cbn [forallb] in H. apply andb_true_iff in H as [H1 H2]. destruct (IH H2) as (souts & E).
  destruct o; try discriminate H1; cbn [map out_logical]; rewrite E;
    eexists (_ :: souts); reflexivity.
Qed.

Lemma logical_no_io outs souts :
  map out_logical outs = map Some souts -> forallb (fun o => negb (is_io o)) outs = true.
Proof.
  revert souts; induction outs as [|o outs IH]; intros [|so souts] H; try discriminate; [reflexivity|].
  cbn [map] in H. inversion H as [[H1 H2]]. cbn [forallb]. rewrite (IH _ H2).
  destruct o; try reflexivity. discriminate H1.
Qed.

(* the queue a call of the API is addressed to *)
Definition on_queue (q : bytes) (ot : op * bool) : bool := addressed q (sop_of (fst ot)).

(* the three reads of the API on q are functions of the abstract content of q *)
Lemma reads_of_abs st1 st2 q :
  qs_inv (s_qs st1) -> qs_inv (s_qs st2) ->
  s_get (abs_qs (s_qs st1)) q = s_get (abs_qs (s_qs st2)) q ->
  (forall lo hi, log_range st1 q lo hi = log_range st2 q lo hi) /\
  log_last_position st1 q = log_last_position st2 q /\
  log_last_record st1 q = log_last_record st2 q.
Proof.
  intros H1 H2 Hg. repeat split; intros.
  - rewrite !log_range_refines by assumption. unfold s_range. now rewrite Hg.
  - rewrite !log_last_position_refines. unfold s_last_position. now rewrite Hg.
  - rewrite !log_last_record_refines by assumption. unfold s_last_record. now rewrite Hg.
Qed.

Section LogIso.
Variable P : params.

(* C18 for the log: run any history from st1, and from st2 (holding the same content for q) the
   history with every call not addressed to q erased; if neither run meets an I/O failure then q
   holds the same content at the end and the calls addressed to q returned the same logical
   outcomes.  (wal_bytes_written and the GC side effects legitimately differ.) *)
Theorem log_projection h st1 st2 q st1' outs1 st2' outs2 souts1 souts2 :
  qs_inv (s_qs st1) -> qs_inv (s_qs st2) ->
  s_get (abs_qs (s_qs st1)) q = s_get (abs_qs (s_qs st2)) q ->
  run P st1 h = (st1', outs1) ->
  run P st2 (filter (on_queue q) h) = (st2', outs2) ->
  map out_logical outs1 = map Some souts1 ->
  map out_logical outs2 = map Some souts2 ->
  qs_inv (s_qs st1') /\ qs_inv (s_qs st2') /\
  s_get (abs_qs (s_qs st1')) q = s_get (abs_qs (s_qs st2')) q /\
  map out_logical (keep_outs (on_queue q) h outs1) = map out_logical outs2.
Proof.
  intros Hi1 Hi2 Hg R1 R2 L1 L2.
  pose proof (run_refines P h st1 Hi1) as A1. rewrite R1 in A1. destruct A1 as (Hi1' & A1).
  specialize (A1 _ L1).
  pose proof (run_refines P (filter (on_queue q) h) st2 Hi2) as A2. rewrite R2 in A2. destruct A2 as (Hi2' & A2).
  specialize (A2 _ L2).
  set (k := fun ot : op * bool => sop_of (fst ot)) in *.
  change (on_queue q) with (fun a => addressed q (k a)) in *.
  rewrite <- filter_map_comm in A2.
  destruct (s_run_projection (map k h) _ _ q Hg) as (G & O).
  rewrite A1, A2 in G, O. cbn [fst snd] in G, O.
  split; [exact Hi1'|]. split; [exact Hi2'|]. split; [exact G|].
  rewrite keep_outs_map_out, L1, <- keep_outs_map_out, L2. f_equal.
  rewrite <- O. now rewrite keep_outs_map_in.
Qed.

(* the same with the absence of I/O failure stated on the outcomes *)
Corollary log_projection_no_io h st1 st2 q st1' outs1 st2' outs2 :
  qs_inv (s_qs st1) -> qs_inv (s_qs st2) ->
  s_get (abs_qs (s_qs st1)) q = s_get (abs_qs (s_qs st2)) q ->
  run P st1 h = (st1', outs1) ->
  run P st2 (filter (on_queue q) h) = (st2', outs2) ->
  forallb (fun o => negb (is_io o)) outs1 = true ->
  forallb (fun o => negb (is_io o)) outs2 = true ->
  s_get (abs_qs (s_qs st1')) q = s_get (abs_qs (s_qs st2')) q /\
  map out_logical (keep_outs (on_queue q) h outs1) = map out_logical outs2 /\
  (forall lo hi, log_range st1' q lo hi = log_range st2' q lo hi) /\
  log_last_position st1' q = log_last_position st2' q /\
  log_last_record st1' q = log_last_record st2' q.
Proof.
  intros Hi1 Hi2 Hg R1 R2 N1 N2.
  destruct (no_io_logical _ N1) as (souts1 & L1). destruct (no_io_logical _ N2) as (souts2 & L2).
  destruct (log_projection _ _ _ _ _ _ _ _ _ _ Hi1 Hi2 Hg R1 R2 L1 L2) as (Hi1' & Hi2' & G & O).
  split; [exact G|]. split; [exact O|]. now apply reads_of_abs.
Qed.

(* one call addressed elsewhere, not failing on I/O, changes nothing that q returns *)
Theorem log_step_other st o tick st' out q :
  qs_inv (s_qs st) -> step P st o tick = (st', out) -> is_io out = false ->
  sop_queue (sop_of o) <> Some q ->
  s_get (abs_qs (s_qs st')) q = s_get (abs_qs (s_qs st)) q /\
  (forall lo hi, log_range st' q lo hi = log_range st q lo hi) /\
  log_last_position st' q = log_last_position st q /\
  log_last_record st' q = log_last_record st q.
Proof.
  intros Hi Hs Hio Hne.
  pose proof (step_refines P st o tick Hi) as A. rewrite Hs in A. destruct A as (Hi' & A).
  assert (G : s_get (abs_qs (s_qs st')) q = s_get (abs_qs (s_qs st)) q).
  { destruct (out_logical out) as [so|] eqn:E; [|destruct out; discriminate].
    specialize (A so eq_refl). rewrite <- (s_step_other (abs_qs (s_qs st)) _ _ Hne). now rewrite A. }
  split; [exact G|]. now apply reads_of_abs.
Qed.
End LogIso.

(* ====================================================================== *)
(* 3. positions: one step of the specification                            *)
(* ====================================================================== *)

(* every retained position is below the next position *)
Definition sq_inv (v : squeue) : Prop := forall x, In x (fst v) -> fst x < snd v.
Definition s_inv (m : smap) : Prop := forall q v, s_get m q = Some v -> sq_inv v.

Lemma s_inv_nil : s_inv [].
Proof. intros q v H. discriminate. Qed.

Lemma s_number_pos : forall l p x, In x (s_number p l) -> p <= fst x < p + lenN l.
Proof.
  induction l as [|a l IH]; intros p x H; [destruct H|].
  cbn [s_number] in H. rewrite lenN_cons. destruct H as [<-|H].
  - cbn [fst]. lia.
  - apply IH in H. lia.
Qed.

(* what one call does to the content (recs, next) of the queue it addresses, when the queue is
   still there afterwards:
   (a) next does not decrease; (b) a record of the new content is an old record or carries a
   fresh position; (c) the invariant is kept; (d) a truncate at p leaves next > p and only
   positions > p; (e) the position returned by an append is fresh and next is just after it *)
Lemma q_step_facts recs next o recs' next' out :
  q_step (Some (recs, next)) o = (Some (recs', next'), out) ->
  next <= next' /\
  (forall x, In x recs' -> In x recs \/ next <= fst x) /\
  (sq_inv (recs, next) -> sq_inv (recs', next')) /\
  (forall q p, o = STruncate q p -> sq_inv (recs, next) ->
               p + 1 <= next' /\ forall x, In x recs' -> p < fst x) /\
  (forall last, out = SAppended (Some last) -> next <= last /\ last + 1 = next').
Proof.
  assert (Hid : forall (out0 : sout),
     (Some (recs, next), out0) = (Some (recs', next'), out) ->
     (forall last, out0 <> SAppended (Some last)) -> (forall q p, o <> STruncate q p) ->
     next <= next' /\
     (forall x, In x recs' -> In x recs \/ next <= fst x) /\
     (sq_inv (recs, next) -> sq_inv (recs', next')) /\
     (forall q p, o = STruncate q p -> sq_inv (recs, next) ->
                  p + 1 <= next' /\ forall x, In x recs' -> p < fst x) /\
     (forall last, out = SAppended (Some last) -> next <= last /\ last + 1 = next')).
  { intros out0 E Hno Hnt. inversion E; subst recs' next' out0.
    split; [lia|]. split; [intros x Hx; now left|]. split; [trivial|].
    split; [intros q p Eo; exfalso; exact (Hnt _ _ Eo)|].
    intros last El. exfalso. exact (Hno _ El). }
  assert (Happ : forall p pl, next <= p -> pl <> [] ->
     (Some (recs ++ s_number p pl, p + lenN pl), SAppended (Some (p + lenN pl - 1)))
       = (Some (recs', next'), out) -> (forall q p0, o <> STruncate q p0) ->
     next <= next' /\
     (forall x, In x recs' -> In x recs \/ next <= fst x) /\
     (sq_inv (recs, next) -> sq_inv (recs', next')) /\
     (forall q p, o = STruncate q p -> sq_inv (recs, next) ->
                  p + 1 <= next' /\ forall x, In x recs' -> p < fst x) /\
     (forall last, out = SAppended (Some last) -> next <= last /\ last + 1 = next')).
  { intros p pl Hp Hpl E Hnt. inversion E; subst recs' next' out.
    assert (Hlen : 1 <= lenN pl).
    { destruct pl as [|a pl]; [contradiction|]. rewrite lenN_cons. lia. }
    split; [lia|]. split.
    { intros x Hx. apply in_app_or in Hx as [Hx|Hx]; [now left|right].
      apply s_number_pos in Hx. lia. }
    split.
    { unfold sq_inv. cbn [fst snd]. intros Hinv x Hx. apply in_app_or in Hx as [Hx|Hx].
      - specialize (Hinv x Hx). lia.
      - apply s_number_pos in Hx. lia. }
    split; [intros q p0 Eo; exfalso; exact (Hnt _ _ Eo)|].
    intros last El. inversion El. lia. }
  destruct o as [q|q|q pos pl|q p|]; cbn [q_step].
  - intros E. apply (Hid _ E); intros; discriminate.
  - intros E. discriminate E.
  - destruct pos as [p|].
    + destruct (N.eqb_spec (p + 1) next) as [He|Hne].
      { intros E. apply (Hid _ E); intros; discriminate. }
      destruct (N.ltb_spec p next) as [Hlt|Hge].
      { intros E. apply (Hid _ E); intros; discriminate. }
      destruct pl as [|a pl].
      { intros E. apply (Hid _ E); intros; discriminate. }
      intros E. apply (Happ p (a :: pl)); try assumption; intros; discriminate.
    + destruct pl as [|a pl].
      { intros E. apply (Hid _ E); intros; discriminate. }
      intros E. apply (Happ next (a :: pl)); try assumption; try lia; intros; discriminate.
  - cbn zeta. intros E. inversion E; subst recs' next' out. clear E.
    set (kept := filter (fun r => p <? fst r) recs).
    assert (Hk : forall x, In x kept -> In x recs /\ p < fst x).
    { intros x Hx. apply filter_In in Hx as [H1 H2]. split; [exact H1|lia]. }
    split.
    { destruct (isnil kept && (next <=? p + 1)) eqn:C; lia. }
    split; [intros x Hx; left; now apply Hk|].
    split.
    { unfold sq_inv. cbn [fst snd]. intros Hinv x Hx. destruct (Hk x Hx) as [H1 H2].
      specialize (Hinv x H1). destruct (isnil kept && (next <=? p + 1)) eqn:C; lia. }
    split.
    { unfold sq_inv. cbn [fst snd]. intros q0 p0 Eo Hinv. inversion Eo; subst q0 p0. split; [|intros x Hx; now apply Hk].
      destruct kept as [|x kept'] eqn:Ek; cbn [isnil andb].
      - destruct (N.leb_spec next (p + 1)); lia.
      - destruct (Hk x (or_introl eq_refl)) as [H1 H2]. specialize (Hinv x H1). lia. }
    intros last El. discriminate El.
  - intros E. apply (Hid _ E); intros; discriminate.
Qed.

Lemma q_step_none o v' out : q_step None o = (Some v', out) -> v' = ([], 0).
Proof. destruct o; cbn [q_step]; intros H; inversion H; reflexivity. Qed.

(* (a) (b) (c) for ANY call, seen from any queue q that exists before and after it *)
Theorem s_step_positions m o q recs next recs' next' :
  s_get m q = Some (recs, next) -> s_get (fst (s_step m o)) q = Some (recs', next') ->
  next <= next' /\
  (forall x, In x recs' -> In x recs \/ next <= fst x) /\
  (sq_inv (recs, next) -> sq_inv (recs', next')).
Proof.
  intros Hg Hg'. destruct (addressed q o) eqn:Ea.
  - apply addressed_true in Ea. destruct (s_step_q_step m o q Ea) as (A & _).
    rewrite Hg, Hg' in A. destruct (q_step (Some (recs, next)) o) as [v' out] eqn:E.
    cbn [fst] in A. subst v'. destruct (q_step_facts _ _ _ _ _ _ E) as (F1 & F2 & F3 & _).
    repeat split; assumption.
  - apply addressed_false in Ea. rewrite (s_step_other _ _ _ Ea), Hg in Hg'.
    inversion Hg'; subst. split; [lia|]. split; [intros x Hx; now left|trivial].
Qed.

Theorem s_step_inv m o : s_inv m -> s_inv (fst (s_step m o)).
Proof.
  intros Hi q v' Hg'. destruct (addressed q o) eqn:Ea.
  - apply addressed_true in Ea. destruct (s_step_q_step m o q Ea) as (A & _).
    rewrite Hg' in A. destruct (s_get m q) as [[recs next]|] eqn:Hg.
    + destruct v' as [recs' next'].
      destruct (s_step_positions m o q _ _ _ _ Hg Hg') as (_ & _ & F3).
      apply F3. exact (Hi _ _ Hg).
    + destruct (q_step None o) as [v1 out] eqn:E. cbn [fst] in A. subst v1.
      apply q_step_none in E. subst v'. intros x [].
  - apply addressed_false in Ea. rewrite (s_step_other _ _ _ Ea) in Hg'. exact (Hi _ _ Hg').
Qed.

Theorem s_run_inv : forall h m, s_inv m -> s_inv (fst (s_run m h)).
Proof.
  induction h as [|o h IH]; intros m Hi; [exact Hi|].
  rewrite s_run_cons. cbn [fst]. apply IH. now apply s_step_inv.
Qed.

(* the abstraction of a state satisfying SpecRefine's invariant satisfies s_inv *)
Lemma abs_s_inv qs : qs_inv qs -> s_inv (abs_qs qs).
Proof.
  intros Hi q v Hg. rewrite abs_get in Hg. destruct (qs_get qs q) as [mqv|] eqn:E; [|discriminate].
  inversion Hg; subst v. intros x Hx. unfold abs_q in *. cbn [fst snd] in *.
  apply (records_pos_lt_next mqv x (qs_inv_get _ _ _ Hi E) Hx).
Qed.

(* (d) a successful truncate at p: the queue continues strictly after p *)
Theorem s_truncate_next m q p m' e :
  s_inv m -> s_step m (STruncate q p) = (m', STruncated e) ->
  exists recs' next', s_get m' q = Some (recs', next') /\ p + 1 <= next' /\
                      forall x, In x recs' -> p < fst x.
Proof.
  intros Hi Hs. destruct (s_step_q_step m (STruncate q p) q eq_refl) as (A & B).
  rewrite Hs in A, B. cbn [fst snd] in A, B.
  destruct (s_get m q) as [[recs next]|] eqn:Hg.
  - match type of A with _ = fst ?t => remember t as r eqn:E end.
    symmetry in E. destruct r as [v' out]. cbn [fst snd] in A, B. destruct v' as [[recs' next']|]; [|cbn [q_step] in E; discriminate E].
    destruct (q_step_facts _ _ _ _ _ _ E) as (_ & _ & _ & F4 & _).
    exists recs', next'. split; [exact A|]. apply (F4 q p eq_refl). exact (Hi _ _ Hg).
  - cbn [q_step snd] in B. discriminate B.
Qed.

(* (e) a successful append: the returned position is fresh, next is just after it, and the new
   records are the payloads numbered consecutively up to it *)
Theorem s_append_last m q pos pl m' last :
  s_step m (SAppend q pos pl) = (m', SAppended (Some last)) ->
  exists recs next recs' next',
    s_get m q = Some (recs, next) /\ s_get m' q = Some (recs', next') /\
    next <= last /\ last + 1 = next' /\
    (forall x, In x recs' -> In x recs \/ next <= fst x <= last).
Proof.
  intros Hs. destruct (s_step_q_step m (SAppend q pos pl) q eq_refl) as (A & B).
  rewrite Hs in A, B. cbn [fst snd] in A, B.
  destruct (s_get m q) as [[recs next]|] eqn:Hg; [|cbn [q_step snd] in B; discriminate B].
  match type of A with _ = fst ?t => remember t as r eqn:E end.
  symmetry in E. destruct r as [v' out]. cbn [fst snd] in A, B. destruct v' as [[recs' next']|].
  - subst out. destruct (q_step_facts _ _ _ _ _ _ E) as (_ & F2 & _ & _ & F5).
    destruct (F5 last eq_refl) as (L1 & L2).
    exists recs, next, recs', next'. repeat split; try assumption.
    intros x Hx. destruct (F2 x Hx) as [H|H]; [now left|].
    clear F2 F5 Hs A. cbn [q_step] in E.
    assert (Hnew : forall p, (Some (recs ++ s_number p pl, p + lenN pl),
                              SAppended (Some (p + lenN pl - 1)))
                             = (Some (recs', next'), SAppended (Some last)) ->
                             In x recs \/ next <= fst x <= last).
    { intros p E'. inversion E'; subst recs'. apply in_app_or in Hx as [Hx|Hx]; [now left|right].
      apply s_number_pos in Hx. lia. }
    assert (Hold : forall o0, (Some (recs, next), o0) = (Some (recs', next'), SAppended (Some last))
                              -> False).
    { intros o0 E'. inversion E'. lia. }
    destruct pos as [p|].
    + destruct (p + 1 =? next); [destruct (Hold _ E)|].
      destruct (p <? next); [destruct (Hold _ E)|].
      destruct pl as [|a pl]; [destruct (Hold _ E)|]. exact (Hnew _ E).
    + destruct pl as [|a pl]; [destruct (Hold _ E)|]. exact (Hnew _ E).
  - subst out. destruct pos as [p|]; cbn [q_step] in E.
    + destruct (p + 1 =? next); [discriminate E|]. destruct (p <? next); [discriminate E|].
      destruct pl; discriminate E.
    + destruct pl; discriminate E.
Qed.

(* ====================================================================== *)
(* 4. positions along a history of the specification                      *)
(* ====================================================================== *)

Fixpoint filter_map {A B} (f : A -> option B) (l : list A) : list B :=
  match l with
  | [] => []
  | x :: r => match f x with Some y => y :: filter_map f r | None => filter_map f r end
  end.

(* lo <= x1 < x2 < ... < xn < hi   (strictly increasing, within [lo, hi) ) *)
Fixpoint incr_between (lo hi : N) (l : list N) : Prop :=
  match l with
  | [] => lo <= hi
  | x :: r => lo <= x /\ incr_between (x + 1) hi r
  end.

Lemma incr_between_weaken lo lo' hi l : incr_between lo hi l -> lo' <= lo -> incr_between lo' hi l.
Proof. destruct l; cbn [incr_between]; intros H Hl; [lia|]. destruct H. split; [lia|assumption]. Qed.

Lemma incr_between_le : forall l lo hi, incr_between lo hi l -> lo <= hi.
Proof.
  induction l as [|x l IH]; intros lo hi H; cbn [incr_between] in H; [exact H|].
  destruct H as [H1 H2]. apply IH in H2. lia.
Qed.

Lemma incr_between_bounds : forall l lo hi x, incr_between lo hi l -> In x l -> lo <= x < hi.
Proof.
  induction l as [|y l IH]; intros lo hi x H Hin; [destruct Hin|].
  cbn [incr_between] in H. destruct H as [H1 H2]. destruct Hin as [<-|Hin].
  - apply incr_between_le in H2. lia.
  - specialize (IH _ _ _ H2 Hin). lia.
Qed.

(* it is the usual notion: every element is smaller than all later ones *)
Lemma incr_between_sorted : forall l lo hi, incr_between lo hi l -> StronglySorted N.lt l.
Proof.
  induction l as [|y l IH]; intros lo hi H; [constructor|].
  cbn [incr_between] in H. destruct H as [H1 H2]. constructor; [eapply IH; exact H2|].
  apply Forall_forall. intros x Hx. pose proof (incr_between_bounds _ _ _ _ H2 Hx). lia.
Qed.

(* a successful delete of q *)
Definition s_deleted (q : bytes) (o : sop) (out : sout) : bool :=
  match o, out with SDelete q', SOk => bytes_eqb q' q | _, _ => false end.

(* the position returned by a successful, effective append to q *)
Definition s_last_of (q : bytes) (x : sop * sout) : option N :=
  match x with
  | (SAppend q' _ _, SAppended (Some l)) => if bytes_eqb q' q then Some l else None
  | _ => None
  end.

(* no call of the history deleted q *)
Definition never_deleted (q : bytes) (h : list sop) (outs : list sout) : Prop :=
  forallb (fun x => negb (s_deleted q (fst x) (snd x))) (combine h outs) = true.

(* the positions returned by the appends to q, in order *)
Definition lasts (q : bytes) (h : list sop) (outs : list sout) : list N :=
  filter_map (s_last_of q) (combine h outs).

(* next position of q, 0 when q does not exist (a fresh queue starts at 0) *)
Definition next_or0 (v : option squeue) : N := match v with Some (_, next) => next | None => 0 end.

Lemma q_step_next v o v' out :
  q_step v o = (v', out) ->
  (forall q', o = SDelete q' -> out <> SOk) ->
  (v <> None -> v' <> None) /\
  next_or0 v <= next_or0 v' /\
  (forall l, out = SAppended (Some l) -> next_or0 v <= l /\ next_or0 v' = l + 1).
Proof.
  intros E Hnd. destruct v as [[recs next]|].
  - destruct v' as [[recs' next']|].
    + destruct (q_step_facts _ _ _ _ _ _ E) as (F1 & _ & _ & _ & F5).
      cbn [next_or0]. split; [intros _; discriminate|]. split; [exact F1|]. intros l El.
      destruct (F5 l El). split; lia.
    + exfalso. destruct o as [q|q|q pos pl|q p|]; cbn [q_step] in E; try discriminate E.
      * inversion E. eapply Hnd; eauto.
      * destruct pos as [p|].
        -- destruct (p + 1 =? next); [discriminate E|]. destruct (p <? next); [discriminate E|].
           destruct pl; discriminate E.
        -- destruct pl; discriminate E.
  - split; [intros H; now destruct H|]. cbn [next_or0]. split; [lia|]. intros l El. subst out.
    destruct o; cbn [q_step] in E; discriminate E.
Qed.

(* one step, seen from q, when it is not a successful delete of q *)
Lemma s_step_next m o q :
  s_deleted q o (snd (s_step m o)) = false ->
  (s_get m q <> None -> s_get (fst (s_step m o)) q <> None) /\
  next_or0 (s_get m q) <= next_or0 (s_get (fst (s_step m o)) q) /\
  (forall l, s_last_of q (o, snd (s_step m o)) = Some l ->
             next_or0 (s_get m q) <= l /\ next_or0 (s_get (fst (s_step m o)) q) = l + 1).
Proof.
  intros Hd. destruct (addressed q o) eqn:Ea.
  - apply addressed_true in Ea. destruct (s_step_q_step m o q Ea) as (A & B).
    rewrite A. rewrite B in Hd. rewrite B.
    match type of A with _ = fst ?t => remember t as r eqn:E end.
    symmetry in E. destruct r as [v' out]. cbn [fst snd] in *.
    assert (Hnd : forall q', o = SDelete q' -> out <> SOk).
    { intros q' -> ->. cbn [sop_queue] in Ea. inversion Ea; subst q'.
      cbn [s_deleted] in Hd. rewrite bytes_eqb_refl in Hd. discriminate Hd. }
    destruct (q_step_next _ _ _ _ E Hnd) as (N1 & N2 & N3).
    split; [exact N1|]. split; [exact N2|]. intros l Hl. apply N3.
    destruct o as [| |q' pos pl| |]; try discriminate Hl. cbn [s_last_of] in Hl.
    destruct out as [|[l0|]| | | |]; try discriminate Hl.
    destruct (bytes_eqb q' q); [|discriminate Hl]. now inversion Hl.
  - apply addressed_false in Ea. rewrite (s_step_other _ _ _ Ea).
    split; [trivial|]. split; [lia|]. intros l Hl. exfalso.
    destruct o as [| |q' pos pl| |]; try discriminate Hl. cbn [s_last_of] in Hl.
    destruct (snd (s_step m (SAppend q' pos pl))) as [|[l0|]| | | |]; try discriminate Hl.
    destruct (bytes_eqb q' q) eqn:Eq; [|discriminate Hl]. apply bytes_eqb_eq in Eq. subst q'.
    apply Ea. reflexivity.
Qed.

Lemma never_deleted_cons q o h out outs :
  never_deleted q (o :: h) (out :: outs) <-> s_deleted q o out = false /\ never_deleted q h outs.
Proof.
  unfold never_deleted. cbn [combine forallb fst snd]. rewrite andb_true_iff, negb_true_iff. tauto.
Qed.

Lemma lasts_cons q o h out outs :
  lasts q (o :: h) (out :: outs) =
  match s_last_of q (o, out) with Some l => l :: lasts q h outs | None => lasts q h outs end.
Proof. reflexivity. Qed.

(* C04 for the specification: along a history that does not delete q, the next position of q never
   decreases, and the positions returned by the appends to q are strictly increasing, all at or
   above the next position at the start and below the next position at the end. *)
Theorem s_run_next_monotone : forall h m q,
  never_deleted q h (snd (s_run m h)) ->
  (s_get m q <> None -> s_get (fst (s_run m h)) q <> None) /\
  incr_between (next_or0 (s_get m q)) (next_or0 (s_get (fst (s_run m h)) q))
               (lasts q h (snd (s_run m h))).
Proof.
  induction h as [|o h IH]; intros m q Hnd.
  - cbn [s_run fst snd lasts combine filter_map incr_between]. split; [trivial|lia].
  - rewrite s_run_cons in *. cbn [fst snd] in *. apply never_deleted_cons in Hnd as [Hd Hnd].
    destruct (s_step_next m o q Hd) as (S1 & S2 & S3). destruct (IH _ q Hnd) as (I1 & I2).
    split; [intros H; apply I1, S1, H|]. rewrite lasts_cons.
    destruct (s_last_of q (o, snd (s_step m o))) as [l|] eqn:El.
    + destruct (S3 l eq_refl) as (L1 & L2). cbn [incr_between]. split; [exact L1|].
      rewrite <- L2. exact I2.
    + eapply incr_between_weaken; [exact I2|exact S2].
Qed.

(* the same, spelled out for a queue that exists at the start *)
Corollary s_run_next_monotone_some h m q recs next :
  s_get m q = Some (recs, next) ->
  never_deleted q h (snd (s_run m h)) ->
  exists recs' next',
    s_get (fst (s_run m h)) q = Some (recs', next') /\ next <= next' /\
    StronglySorted N.lt (lasts q h (snd (s_run m h))) /\
    (forall l, In l (lasts q h (snd (s_run m h))) -> next <= l < next').
Proof.
  intros Hg Hnd. destruct (s_run_next_monotone h m q Hnd) as (H1 & H2).
  rewrite Hg in H1, H2. cbn [next_or0] in H2.
  destruct (s_get (fst (s_run m h)) q) as [[recs' next']|]; [|exfalso; apply H1; [discriminate|reflexivity]].
  exists recs', next'. cbn [next_or0] in H2. split; [reflexivity|].
  split; [eapply incr_between_le; exact H2|]. split; [eapply incr_between_sorted; exact H2|].
  intros l Hl. eapply incr_between_bounds; eauto.
Qed.

(* after a successful truncate at p, every later append of the incarnation returns a position > p *)
Corollary s_run_after_truncate m q p m1 e h :
  s_inv m -> s_step m (STruncate q p) = (m1, STruncated e) ->
  never_deleted q h (snd (s_run m1 h)) ->
  incr_between (p + 1) (next_or0 (s_get (fst (s_run m1 h)) q)) (lasts q h (snd (s_run m1 h))).
Proof.
  intros Hi Hs Hnd. destruct (s_truncate_next _ _ _ _ _ Hi Hs) as (recs' & next' & Hg & Hp & _).
  destruct (s_run_next_monotone h m1 q Hnd) as (_ & H2). rewrite Hg in H2. cbn [next_or0] in H2.
  eapply incr_between_weaken; [exact H2|exact Hp].
Qed.

(* a history can be cut anywhere: the theorems above apply to any segment between two deletions *)
Lemma s_run_app : forall h1 h2 m,
  s_run m (h1 ++ h2) =
  (fst (s_run (fst (s_run m h1)) h2), snd (s_run m h1) ++ snd (s_run (fst (s_run m h1)) h2)).
Proof.
  induction h1 as [|o h1 IH]; intros h2 m.
  - cbn [app s_run fst snd]. now destruct (s_run m h2).
  - cbn [app]. rewrite !s_run_cons, IH. reflexivity.
Qed.

(* ====================================================================== *)
(* 5. positions transferred to the model of the log                       *)
(* ====================================================================== *)

(* next position of q in a state of the log, 0 when q does not exist *)
Definition log_next (st : state) (q : bytes) : N :=
  match qs_get (s_qs st) q with Some m => next_position m | None => 0 end.

Lemma log_next_abs st q : next_or0 (s_get (abs_qs (s_qs st)) q) = log_next st q.
Proof. unfold log_next. rewrite abs_get. destruct (qs_get (s_qs st) q); reflexivity. Qed.

(* a successful delete_queue(q) *)
Definition l_deleted (q : bytes) (ot : op * bool) (out : outcome) : bool :=
  match fst ot, out with ODelete q' _, OutDelete _ => bytes_eqb q' q | _, _ => false end.

(* the last position reported by a successful, effective append_records(q, ..) *)
Definition l_last_of (q : bytes) (x : (op * bool) * outcome) : option N :=
  match x with
  | ((OAppend q' _ _, _), OutAppend (Some l) _) => if bytes_eqb q' q then Some l else None
  | _ => None
  end.

Definition log_never_deleted (q : bytes) (h : list (op * bool)) (outs : list outcome) : Prop :=
  forallb (fun x => negb (l_deleted q (fst x) (snd x))) (combine h outs) = true.

Definition log_lasts (q : bytes) (h : list (op * bool)) (outs : list outcome) : list N :=
  filter_map (l_last_of q) (combine h outs).

Lemma l_last_of_logical q o t out so :
  out_logical out = Some so -> l_last_of q ((o, t), out) = s_last_of q (sop_of o, so).
Proof.
  intros H. destruct out; cbn [out_logical] in H; inversion H; subst so;
    destruct o; cbn [l_last_of s_last_of sop_of]; try reflexivity;
    match goal with |- context [match ?l with Some _ => _ | None => _ end] => destruct l end;
    reflexivity.
Qed.

Section LogPositions.
Variable P : params.

(* delete_queue answers OutDelete, OutMissing or an I/O error, nothing else *)
Lemma delete_outcome st q hint :
  match snd (delete_queue P st q hint) with
  | OutDelete _ | OutMissing | OutIo _ => True
  | _ => False
  end.
Proof.
  unfold delete_queue. destruct (qs_get (s_qs st) q); [|exact I].
  destruct (write_entry P st _) as [st1 [n|e]]; [|exact I].
  destruct (run_gc_if_necessary P _ hint) as [st3 [k|e]]; exact I.
Qed.

Lemma l_deleted_logical q st o t st' out so :
  step P st o t = (st', out) -> out_logical out = Some so ->
  l_deleted q (o, t) out = s_deleted q (sop_of o) so.
Proof.
  intros Hs H. destruct o as [q'|q' hint|q' pos pl|q' p hint|fs];
    cbn [l_deleted fst sop_of s_deleted]; try reflexivity.
  cbn [step] in Hs. pose proof (delete_outcome st q' hint) as Ho. rewrite Hs in Ho. cbn [snd] in Ho.
  destruct out; try destruct Ho; cbn [out_logical] in H; inversion H; reflexivity.
Qed.

Lemma run_cons st o t h :
  run P st ((o, t) :: h) =
  (fst (run P (fst (step P st o t)) h), snd (step P st o t) :: snd (run P (fst (step P st o t)) h)).
Proof.
  cbn [run]. destruct (step P st o t) as [st1 out]. cbn [fst snd].
  destruct (run P st1 h) as [st2 outs]. reflexivity.
Qed.

(* the observations made on the log are those made on the specification *)
Lemma run_observations q : forall h st souts,
  map out_logical (snd (run P st h)) = map Some souts ->
  log_lasts q h (snd (run P st h)) = lasts q (map (fun ot => sop_of (fst ot)) h) souts /\
  (log_never_deleted q h (snd (run P st h)) <->
   never_deleted q (map (fun ot => sop_of (fst ot)) h) souts).
Proof.
  induction h as [|[o t] h IH]; intros st souts H.
  - cbn. split; [reflexivity|tauto].
  - rewrite run_cons in *. cbn [snd map fst] in *.
    destruct souts as [|so souts]; [discriminate H|]. cbn [map] in H. inversion H as [[H1 H2]].
    destruct (IH _ _ H2) as (I1 & I2).
    destruct (step P st o t) as [st1 out] eqn:Es. cbn [fst snd] in *.
    split.
    + unfold log_lasts, lasts in *. cbn [combine filter_map].
      rewrite (l_last_of_logical q o t out so H1), I1. reflexivity.
    + unfold log_never_deleted, never_deleted in *. cbn [combine forallb fst snd].
      rewrite (l_deleted_logical q _ _ _ _ _ _ Es H1). rewrite !andb_true_iff, I2. tauto.
Qed.

(* C04 for the log: along a history without I/O failure that does not delete q, the next position
   of q never decreases, q stays there if it was there, and the last positions reported by the
   appends to q are strictly increasing, all at or above the next position of q at the start and
   below its next position at the end. *)
Theorem log_positions_fresh h st st' outs q :
  qs_inv (s_qs st) -> run P st h = (st', outs) ->
  forallb (fun o => negb (is_io o)) outs = true ->
  log_never_deleted q h outs ->
  (qs_get (s_qs st) q <> None -> qs_get (s_qs st') q <> None) /\
  incr_between (log_next st q) (log_next st' q) (log_lasts q h outs).
Proof.
  intros Hi R Hio Hnd. destruct (no_io_logical _ Hio) as (souts & L).
  pose proof (run_refines P h st Hi) as A. rewrite R in A. destruct A as (_ & A). specialize (A _ L).
  pose proof (run_observations q h st souts) as O. rewrite R in O. cbn [snd] in O.
  destruct (O L) as (O1 & O2). apply O2 in Hnd.
  pose proof (s_run_next_monotone (map (fun ot => sop_of (fst ot)) h) (abs_qs (s_qs st)) q) as M.
  rewrite A in M. cbn [fst snd] in M. destruct (M Hnd) as (M1 & M2).
  rewrite !log_next_abs, <- O1 in M2. split; [|exact M2].
  intros Hq. rewrite !abs_get in M1.
  destruct (qs_get (s_qs st) q); [|now destruct Hq].
  destruct (qs_get (s_qs st') q); [discriminate|]. exfalso. apply M1; [discriminate|reflexivity].
Qed.

(* readable consequences *)
Corollary log_lasts_increasing h st st' outs q :
  qs_inv (s_qs st) -> run P st h = (st', outs) ->
  forallb (fun o => negb (is_io o)) outs = true ->
  log_never_deleted q h outs ->
  log_next st q <= log_next st' q /\
  StronglySorted N.lt (log_lasts q h outs) /\
  (forall l, In l (log_lasts q h outs) -> log_next st q <= l < log_next st' q).
Proof.
  intros Hi R Hio Hnd. destruct (log_positions_fresh h st st' outs q Hi R Hio Hnd) as (_ & H).
  split; [eapply incr_between_le; exact H|]. split; [eapply incr_between_sorted; exact H|].
  intros l Hl. eapply incr_between_bounds; eauto.
Qed.

(* one append: the reported last position is at or above the previous next position of q, the
   next position becomes last + 1, and last_position reports it *)
Theorem log_append_fresh st q pos pl tick st' l n :
  qs_inv (s_qs st) -> step P st (OAppend q pos pl) tick = (st', OutAppend (Some l) n) ->
  qs_get (s_qs st) q <> None /\
  log_next st q <= l /\ log_next st' q = l + 1 /\
  log_last_position st' q = Some (Some l).
Proof.
  intros Hi Hs. pose proof (step_refines P st (OAppend q pos pl) tick Hi) as A. rewrite Hs in A.
  destruct A as (_ & A). specialize (A _ eq_refl). cbn [sop_of] in A.
  destruct (s_append_last _ _ _ _ _ _ A) as (recs & next & recs' & next' & G & G' & L1 & L2 & _).
  rewrite <- !log_next_abs, G, G'. cbn [next_or0].
  split. { rewrite abs_get in G. destruct (qs_get (s_qs st) q); discriminate. }
  split; [exact L1|]. split; [lia|].
  rewrite log_last_position_refines. unfold s_last_position. rewrite G'.
  destruct (N.eqb_spec next' 0) as [E|E]; [lia|]. do 2 f_equal. lia.
Qed.

(* one truncate at p: the queue continues strictly after p and retains only positions > p *)
Theorem log_truncate_next st q p hint tick st' e n :
  qs_inv (s_qs st) -> step P st (OTruncate q p hint) tick = (st', OutTruncate e n) ->
  qs_get (s_qs st') q <> None /\ p + 1 <= log_next st' q /\
  (forall recs, log_range st' q Unb Unb = Some recs -> forall x, In x recs -> p < fst x).
Proof.
  intros Hi Hs. pose proof (step_refines P st (OTruncate q p hint) tick Hi) as A. rewrite Hs in A.
  destruct A as (Hi' & A). specialize (A _ eq_refl). cbn [sop_of] in A.
  destruct (s_truncate_next _ _ _ _ _ (abs_s_inv _ Hi) A) as (recs' & next' & G & Hp & Hr).
  rewrite <- log_next_abs, G. cbn [next_or0].
  split. { rewrite abs_get in G. destruct (qs_get (s_qs st') q); discriminate. }
  split; [exact Hp|]. intros recs Hrange x Hx.
  rewrite (log_range_refines _ _ _ _ Hi') in Hrange. unfold s_range in Hrange. rewrite G in Hrange.
  inversion Hrange; subst recs. apply filter_In in Hx as [Hx _]. now apply Hr.
Qed.

(* any call that is not an I/O failure, seen from any queue q present before and after it:
   next does not decrease, and a retained record is an old record or carries a fresh position *)
Theorem log_step_positions st o tick st' out q recs next recs' next' :
  qs_inv (s_qs st) -> step P st o tick = (st', out) -> is_io out = false ->
  s_get (abs_qs (s_qs st)) q = Some (recs, next) ->
  s_get (abs_qs (s_qs st')) q = Some (recs', next') ->
  next <= next' /\
  (forall x, In x recs' -> In x recs \/ next <= fst x) /\
  (forall x, In x recs' -> fst x < next').
Proof.
  intros Hi Hs Hio G G'. pose proof (step_refines P st o tick Hi) as A. rewrite Hs in A.
  destruct A as (Hi' & A).
  destruct (out_logical out) as [so|] eqn:E; [|destruct out; discriminate].
  specialize (A so eq_refl).
  assert (G2 : s_get (fst (s_step (abs_qs (s_qs st)) (sop_of o))) q = Some (recs', next'))
    by (rewrite A; exact G').
  destruct (s_step_positions _ _ _ _ _ _ _ G G2) as (F1 & F2 & _).
  split; [exact F1|]. split; [exact F2|].
  intros x Hx. exact (abs_s_inv _ Hi' _ _ G' x Hx).
Qed.

(* after a successful truncate at p, every later append of the incarnation reports a position > p *)
Corollary log_after_truncate st q p hint tick st1 e n h st' outs :
  qs_inv (s_qs st) -> step P st (OTruncate q p hint) tick = (st1, OutTruncate e n) ->
  run P st1 h = (st', outs) ->
  forallb (fun o => negb (is_io o)) outs = true ->
  log_never_deleted q h outs ->
  forall l, In l (log_lasts q h outs) -> p < l.
Proof.
  intros Hi Hs R Hio Hnd l Hl.
  destruct (log_truncate_next _ _ _ _ _ _ _ _ Hi Hs) as (_ & Hp & _).
  pose proof (step_refines P st (OTruncate q p hint) tick Hi) as A. rewrite Hs in A. destruct A as (Hi1 & _).
  destruct (log_lasts_increasing h st1 st' outs q Hi1 R Hio Hnd) as (_ & _ & B).
  specialize (B l Hl). lia.
Qed.
End LogPositions.

(* ====================================================================== *)
(* 6. non-vacuity and axioms                                              *)
(* ====================================================================== *)

(* a concrete log (block size 32, two blocks per file), two queues, interleaved calls *)
Definition PK : params := mkParams 32 2 (fun _ _ => 0) 24 false false false.
Definition stK : state :=
  mkSt (mkWr (ctx_init [(filename 0, FFile (zerosN 64))] None) [0] 0 0 []) [] (PAlways false).
Definition qa : bytes := ["a"%byte].
Definition qb : bytes := ["b"%byte].
Definition hK : list (op * bool) :=
  [(OCreate qa, false); (OCreate qb, false); (OAppend qa None [zerosN 3; zerosN 2], false);
   (OAppend qb (Some 5) [zerosN 1], false); (OTruncate qa 0 [], false);
   (OAppend qa None [zerosN 1], false); (ODelete qb [], false);
   (OAppend qa (Some 7) [zerosN 1], false)].

Example QueueIso_nonvacuous :
  let '(st1, outs1) := run PK stK hK in
  let '(st2, outs2) := run PK stK (filter (on_queue qa) hK) in
  outs1 = [OutCreate 19; OutCreate 26; OutAppend (Some 1) 62; OutAppend (Some 5) 39;
           OutTruncate 1 26; OutAppend (Some 2) 39; OutDelete 26; OutAppend (Some 7) 39] /\
  outs2 = [OutCreate 19; OutAppend (Some 1) 62; OutTruncate 1 26; OutAppend (Some 2) 39;
           OutAppend (Some 7) 39] /\
  keep_outs (on_queue qa) hK outs1 = outs2 /\
  log_range st1 qa Unb Unb = log_range st2 qa Unb Unb /\
  log_range st1 qa Unb Unb = Some [(1, zerosN 2); (2, zerosN 1); (7, zerosN 1)] /\
  log_never_deleted qa hK outs1 /\ log_lasts qa hK outs1 = [1; 2; 7] /\ log_next st1 qa = 8.
Proof. vm_compute. repeat split; reflexivity. Qed.

(* the theorem applied to it: its premises are satisfiable *)
Example QueueIso_applied :
  log_last_record (fst (run PK stK hK)) qa =
  log_last_record (fst (run PK stK (filter (on_queue qa) hK))) qa.
Proof.
  destruct (run PK stK hK) as [st1 outs1] eqn:R1.
  destruct (run PK stK (filter (on_queue qa) hK)) as [st2 outs2] eqn:R2.
  assert (N1 : forallb (fun o => negb (is_io o)) outs1 = true).
  { replace outs1 with (snd (run PK stK hK)) by now rewrite R1. vm_compute. reflexivity. }
  assert (N2 : forallb (fun o => negb (is_io o)) outs2 = true).
  { replace outs2 with (snd (run PK stK (filter (on_queue qa) hK))) by now rewrite R2.
    vm_compute. reflexivity. }
  exact (proj2 (proj2 (proj2 (proj2
    (log_projection_no_io PK hK stK stK qa st1 outs1 st2 outs2
                          qs_inv_nil qs_inv_nil eq_refl R1 R2 N1 N2))))).
Qed.

Print Assumptions s_step_other.
Print Assumptions s_step_local.
Print Assumptions s_run_projection.
Print Assumptions log_projection.
Print Assumptions log_projection_no_io.
Print Assumptions log_step_other.
Print Assumptions s_step_positions.
Print Assumptions s_step_inv.
Print Assumptions s_run_inv.
Print Assumptions abs_s_inv.
Print Assumptions s_truncate_next.
Print Assumptions s_append_last.
Print Assumptions s_run_next_monotone.
Print Assumptions s_run_next_monotone_some.
Print Assumptions s_run_after_truncate.
Print Assumptions log_positions_fresh.
Print Assumptions log_lasts_increasing.
Print Assumptions log_append_fresh.
Print Assumptions log_truncate_next.
Print Assumptions log_step_positions.
Print Assumptions log_after_truncate.
Print Assumptions QueueIso_nonvacuous.
Print Assumptions QueueIso_applied.
