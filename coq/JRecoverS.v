(* JRecoverS.v — TASK T14, stage 2: the stream of a crash image as a prefix with pre_cont.
   The image stream is  T ++ zeros (c0 - |T|) ++ takeN j (encs_of c0 xs) ++ zeros z  (T the
   clean encoding of es_all, xs the payloads of the call in flight, j bytes of their encoding
   present).  It is  PRE ++ zeros  where PRE = clean encoding of es_all ++ xs_d (xs_d the
   completely present entries of xs) possibly followed by the junk left by the torn entry. *)
From Coq Require Import Lia ZArith ZifyN ZifyNat ZifyBool List Sorted.
From MRL Require Import Bytes BytesProofs Params Frame Driver StreamProofs DamageProofs TornProofs
  ResyncProofs OpenTerm OpenReplay TornFile JunkStream.

Arguments N.add : simpl never.
Arguments N.sub : simpl never.
Arguments N.mul : simpl never.
Arguments N.eqb : simpl never.
Arguments N.ltb : simpl never.
Arguments N.leb : simpl never.
Arguments N.div : simpl never.
Arguments N.modulo : simpl never.
Arguments N.min : simpl never.
Arguments N.max : simpl never.

Section RecoverS.
Variable P : params.
Hypothesis HBS_lo : 7 < BS P.
Hypothesis HBS_hi : BS P <= 65542.
Hypothesis Hcrc : forall t p, crcf P t p < 2 ^ 32.
Hypothesis Hnc : no_zero_collision P.

Local Notation B := (BS P).
Local Notation ffp := (first_frame_pos P).
Local Notation encof := (enc_of P).
Local Notation encsof := (encs_of P).
Local Notation starts := (starts P).
Local Notation H3 f := (f P HBS_lo HBS_hi Hcrc) (only parsing).
Local Notation H2 f := (f P HBS_lo HBS_hi) (only parsing).
Local Notation pre_cont := (pre_cont P).

Lemma ceil_blockS a : exists m, a <= m * B /\ m * B < a + B.
Proof.
  exists ((a + B - 1) / B).
  pose proof (N.div_mod (a + B - 1) B ltac:(lia)). pose proof (N.mod_lt (a + B - 1) B ltac:(lia)).
  split; lia.
Qed.

Theorem crash_stream_pre (T : bytes) c0 es_all xs j z (S_all : bytes) :
  encs_rel P 0 es_all T -> lenN T <= c0 -> c0 <= ffp (lenN T) -> j <= lenN (encsof c0 xs) ->
  S_all = T ++ zerosN (c0 - lenN T) ++ takeN j (encsof c0 xs) ++ zerosN z ->
  stream_ok P S_all ->
  c0 + lenN (encsof c0 xs) + B <= lenN S_all ->     (* the call fits, with a spare block *)
  exists xs_d xs_r PRE adm cmax rm zz,
    xs = xs_d ++ xs_r /\
    pre_cont PRE (es_all ++ xs_d) (starts 0 (es_all ++ xs_d)) adm cmax rm /\
    S_all = PRE ++ zerosN zz /\ lenN PRE + rm <= lenN S_all /\ (cmax <= 1)%nat /\ rm <= 7 /\
    (forall kb, kb * B <= c0 \/ lenN S_all <= kb * B -> adm kb) /\
    lenN T <= lenN PRE /\ c0 <= ffp (lenN PRE) /\
    lenN PRE <= c0 + lenN (encsof c0 xs) + B /\
    lenN (encsof 0 (es_all ++ xs_d)) <= lenN PRE /\
    lenN PRE <= lenN (encsof 0 (es_all ++ xs)) + B /\
    (xs_r <> [] -> j < lenN (encsof c0 xs)).
Proof.
  intros HT Hlo Hhi Hj HS Hok Hfit.
  assert (HSb : S_all = (T ++ zerosN (c0 - lenN T) ++ takeN j (encsof c0 xs)) ++ zerosN z)
    by (rewrite HS, <- !app_assoc; reflexivity).
  pose proof (H3 encs_rel_encs_of _ _ _ HT) as ET.
  assert (Etot : xs <> [] -> lenN (encsof 0 (es_all ++ xs)) = c0 + lenN (encsof c0 xs)).
  { intros Hne. rewrite (H3 encs_of_app), ET, N.add_0_l.
    rewrite (encs_of_shift P HBS_lo HBS_hi Hcrc (lenN T) c0 xs Hlo Hhi Hne).
    rewrite !lenN_app, lenN_zerosN. lia. }
  assert (Hnil : pre_cont [] [] [] (fun _ => True) 0 0) by apply (pre_cont_nil P HBS_lo HBS_hi Hcrc).
  assert (Hclean : forall es, pre_cont (encsof 0 es) es (starts 0 es) (fun _ => True) 0 0).
  { intros es.
    pose proof (pre_cont_clean P HBS_lo HBS_hi Hcrc [] [] [] (fun _ => True) 0%nat 0 es (encsof 0 es) 0
                  Hnil (H3 encs_of_rel es 0) ltac:(lia)) as H.
    exact H. }
  destruct (torn_normal P HBS_lo HBS_hi Hcrc T c0 es_all xs j HT Hlo Hhi Hj)
    as [(Hend & z0 & Hbody & Hne & Hnil')
       | (xs1 & x & xs2 & j' & Hxs & Hj' & Hbody & Hcj & Hle & Hlt & Hdrop & Hlen & HTt & Htc & Hct & Hne1)].
  - (* nothing is torn *)
    set (t := encsof 0 (es_all ++ xs)) in *.
    assert (HS' : S_all = t ++ zerosN (z0 + z)).
    { rewrite HSb, Hbody, <- app_assoc, (FileStream.zerosN_app z0 z). reflexivity. }
    assert (Hlt_le : lenN T <= lenN t /\ lenN t <= c0 + lenN (encsof c0 xs)).
    { destruct xs as [|x0 X0].
      - specialize (Hnil' eq_refl). unfold t. rewrite app_nil_r, ET.
        cbn [ResyncProofs.encs_of]. rewrite (@lenN_nil byte). lia.
      - destruct (Hne ltac:(discriminate)) as [_ Hl]. fold t in Hl.
        rewrite HS in Hfit. lia. }
    exists xs, [], t, (fun _ => True), 0%nat, 0, (z0 + z).
    split; [now rewrite app_nil_r|]. split; [apply Hclean|]. split; [exact HS'|].
    split; [rewrite HS', lenN_app; lia|]. split; [lia|]. split; [lia|].
    split; [intros kb _; exact I|]. split; [lia|].
    split; [pose proof (ffp_mono P HBS_lo HBS_hi (lenN T) (lenN t) ltac:(lia)); lia|].
    split; [lia|]. split; [fold t; lia|]. split; [fold t; lia|]. intros H; now destruct H.
  - cbv zeta in *.
    set (t := encsof 0 (es_all ++ xs1)) in *.
    set (e := encof (lenN t) x) in *.
    set (ex := encof (c0 + lenN (encsof c0 xs1)) x) in *.
    set (a := lenN t) in *.
    assert (HS' : S_all = t ++ takeN j' e ++ zerosN z).
    { rewrite HSb, Hbody, <- app_assoc. reflexivity. }
    assert (HlS : lenN S_all = a + j' + z).
    { rewrite HS', !lenN_app, lenN_takeN, lenN_zerosN. fold a. lia. }
    assert (Hxslen : lenN (encsof c0 xs) =
              lenN (encsof c0 xs1) + lenN ex + lenN (encsof (c0 + lenN (encsof c0 xs1) + lenN ex) xs2)).
    { rewrite Hxs, (H3 encs_of_app), lenN_app. cbn [ResyncProofs.encs_of]. rewrite lenN_app.
      fold ex. lia. }
    assert (Hfit_e : a + lenN e + B <= lenN S_all) by lia.
    pose proof (ffp_mono P HBS_lo HBS_hi (lenN T) a HTt) as Hmono.
    destruct (all_zero (dropN j' e)) eqn:Hz.
    + (* the missing bytes are zeros: the entry is completely there *)
      assert (He : takeN j' e ++ zerosN (lenN e - j') = e)
        by (apply (TornProofs.all_zero_drop_iff e j'); [lia|exact Hz]).
      assert (HS'' : S_all = (t ++ e) ++ zerosN (z - (lenN e - j'))).
      { rewrite HS'. rewrite (TornProofs.zerosN_split z (lenN e - j')) by lia.
        rewrite <- app_assoc, (app_assoc (takeN j' e)), He. reflexivity. }
      assert (Ete : t ++ e = encsof 0 (es_all ++ xs1 ++ [x])).
      { rewrite app_assoc, (H3 encs_of_app). fold t. cbn [ResyncProofs.encs_of].
        rewrite app_nil_r, N.add_0_l. reflexivity. }
      exists (xs1 ++ [x]), xs2, (t ++ e), (fun _ => True), 0%nat, 0, (z - (lenN e - j')).
      split; [rewrite Hxs, <- app_assoc; reflexivity|].
      split; [rewrite Ete; apply Hclean|]. split; [exact HS''|].
      rewrite lenN_app. fold a.
      split; [lia|]. split; [lia|]. split; [lia|]. split; [intros kb _; exact I|].
      split; [lia|].
      split; [pose proof (ffp_mono P HBS_lo HBS_hi a (a + lenN e) ltac:(lia)); lia|].
      assert (Hxne : xs <> []) by (rewrite Hxs; destruct xs1; discriminate).
      specialize (Etot Hxne).
      split; [lia|]. split; [rewrite <- Ete, lenN_app; fold a; lia|].
      split; [lia|]. intros _. lia.
    + (* junk *)
      destruct (H3 enc_of_rel a x) as [k Hk]. fold e in Hk.
      destruct (junk_of_torn P HBS_lo HBS_hi Hcrc a x e k j' Hnc Hk Hj' Hz)
        as (r & W & Hjunk & Hspec & Hup & Hlow).
      destruct (ceil_blockS (a + j')) as (mb & Hmb1 & Hmb2).
      assert (Hr1 : r <= mb * B) by (apply Hup; exact Hmb1).
      destruct Hok as [ms Hms].
      assert (Hmbs : mb * B + B <= lenN S_all).
      { rewrite Hms in *. assert (mb * B < ms * B) by lia.
        apply (H2 TornProofs.mulB_lt_inv) in H. nia. }
      assert (Hroom : r + 7 <= lenN S_all) by lia.
      assert (HS'' : S_all = (t ++ W) ++ zerosN (a + j' + z - r)).
      { rewrite HS', <- app_assoc. f_equal. apply Hspec. lia. }
      pose proof Hjunk as (Har & HlW & _).
      assert (HlPRE : lenN (t ++ W) = r) by (rewrite lenN_app; fold a; lia).
      pose proof (pre_cont_junk P HBS_lo HBS_hi Hcrc t (es_all ++ xs1) (starts 0 (es_all ++ xs1))
                    (fun _ => True) 0%nat 0 r W (Hclean (es_all ++ xs1)) Hjunk ltac:(lia)) as Hpc.
      exists xs1, (x :: xs2), (t ++ W), (fun kb => True /\ (kb * B <= ffp a \/ r <= kb * B)), 1%nat, 7,
             (a + j' + z - r).
      split; [exact Hxs|]. split; [exact Hpc|]. split; [exact HS''|].
      rewrite HlPRE.
      split; [lia|]. split; [lia|]. split; [lia|].
      split.
      { intros kb [Hk1|Hk1]; (split; [exact I|]); [left; lia | right; lia]. }
      split; [lia|].
      split; [pose proof (ffp_mono P HBS_lo HBS_hi a r Har); lia|].
      assert (Hxne : xs <> []) by (rewrite Hxs; destruct xs1; discriminate).
      specialize (Etot Hxne).
      split; [lia|]. split; [fold t; fold a; lia|].
      split; [lia|]. intros _. lia.
Qed.

End RecoverS.

Print Assumptions crash_stream_pre.
