(* RecordProofs.v — WAL entry codec round trip (Record.v) and entry-level batch atomicity
   (Log.apply_entry).  Support for properties C07 / C08 / C12 / C18. *)
From Coq Require Import Lia ZArith ZifyN ZifyNat ZifyBool.
From MRL Require Import Bytes BytesProofs Params Record Mem Log SpecRefine.

Arguments N.add : simpl never.
Arguments N.sub : simpl never.
Arguments N.mul : simpl never.
Arguments N.eqb : simpl never.
Arguments N.ltb : simpl never.
Arguments N.leb : simpl never.
Arguments N.div : simpl never.
Arguments N.modulo : simpl never.
Arguments N.pow : simpl never.

(* ====================================================================== *)
(* 0. small facts                                                         *)
(* ====================================================================== *)

Lemma pow256_1 : 256 ^ 1 = 256.            Proof. reflexivity. Qed.
Lemma pow256_2 : 256 ^ 2 = 2 ^ 16.         Proof. reflexivity. Qed.
Lemma pow256_4 : 256 ^ 4 = 2 ^ 32.         Proof. reflexivity. Qed.
Lemma pow256_8 : 256 ^ 8 = 2 ^ 64.         Proof. reflexivity. Qed.

Lemma le_dec_enc_n k n w : N.of_nat k = w -> n < 256 ^ w -> le_dec (le_enc k n) = n.
Proof. intros <- H. now apply le_dec_enc_small. Qed.

Lemma le_enc_dec_n k bs : lenN bs = N.of_nat k -> le_enc k (le_dec bs) = bs.
Proof.
  intros H. rewrite lenN_length in H. replace k with (length bs) by lia. apply le_enc_dec.
Qed.

Lemma lenN_sliceN {A} a b (x : list A) : a <= b -> b <= lenN x -> lenN (sliceN a b x) = b - a.
Proof. intros Hab Hb. unfold sliceN. rewrite lenN_takeN, lenN_dropN. lia. Qed.

Lemma takeN_then_sliceN {A} b (x : list A) : takeN b x = sliceN 0 b x.
Proof. unfold sliceN. rewrite dropN_0. f_equal. lia. Qed.

(* a buffer is its prefix followed by the rest *)
Lemma split_at {A} n (x : list A) : x = takeN n x ++ dropN n x.
Proof. symmetry. apply takeN_dropN. Qed.

Lemma dropN_split {A} a b (x : list A) : a <= b -> dropN a x = sliceN a b x ++ dropN b x.
Proof. intros H. symmetry. now apply sliceN_then_dropN. Qed.

Lemma sliceN_app_first {A} (a c : list A) n : n = lenN a -> takeN n (a ++ c) = a.
Proof. intros ->. apply takeN_app_exact. Qed.

Lemma dropN_app_first {A} (a c : list A) n : n = lenN a -> dropN n (a ++ c) = c.
Proof. intros ->. apply dropN_app_exact. Qed.

Lemma sliceN_app_mid' {A} (a b c : list A) lo hi :
  lo = lenN a -> hi = lenN a + lenN b -> sliceN lo hi (a ++ b ++ c) = b.
Proof. intros -> ->. apply sliceN_app_mid. Qed.

(* ====================================================================== *)
(* 1. well-formedness: what the Rust types guarantee                      *)
(* ====================================================================== *)

Definition wf_rec (r : N * bytes) : Prop := fst r < 2 ^ 64 /\ lenN (snd r) < 2 ^ 32.

Definition entry_pos (e : entry) : N :=
  match e with EAppend _ p _ | ETruncate _ p | EPosition _ p | EDelete _ p => p end.

Definition wf_entry (e : entry) : Prop :=
  utf8_valid (entry_queue e) = true /\ lenN (entry_queue e) < 2 ^ 16 /\ entry_pos e < 2 ^ 64
  /\ match e with EAppend _ _ recs => Forall wf_rec recs | _ => True end.

(* ====================================================================== *)
(* 2. MultiRecord                                                         *)
(* ====================================================================== *)

Lemma multi_ser_cons p payload r :
  multi_ser ((p, payload) :: r) = le_enc 8 p ++ le_enc 4 (lenN payload) ++ payload ++ multi_ser r.
Proof. reflexivity. Qed.

Definition recs_bytes (recs : list (N * bytes)) : N :=
  fold_right (fun r acc => 12 + lenN (snd r) + acc) 0 recs.

Lemma recs_bytes_cons r t : recs_bytes (r :: t) = 12 + lenN (snd r) + recs_bytes t.
Proof. reflexivity. Qed.

Lemma lenN_multi_ser recs : lenN (multi_ser recs) = recs_bytes recs.
Proof.
  induction recs as [|[p x] r IH]; [reflexivity|].
  rewrite multi_ser_cons, recs_bytes_cons, !lenN_app, !length_le_enc, IH. cbn [snd]. lia.
Qed.

Lemma payload_bytes_cons r t : payload_bytes (r :: t) = lenN (snd r) + payload_bytes t.
Proof. reflexivity. Qed.

Lemma recs_bytes_payload recs : recs_bytes recs = 12 * lenN recs + payload_bytes recs.
Proof.
  induction recs as [|r t IH]; [reflexivity|].
  rewrite recs_bytes_cons, lenN_cons, payload_bytes_cons, IH. lia.
Qed.

Lemma recs_bytes_ge recs : 12 * lenN recs <= recs_bytes recs.
Proof. rewrite recs_bytes_payload. lia. Qed.

(* one step of the parser on a non-empty buffer *)
Lemma multi_parse_step fuel buf :
  buf <> [] ->
  multi_parse (S fuel) buf =
  if lenN buf <? 12 then None
  else if lenN (dropN 12 buf) <? le_dec (sliceN 8 12 buf) then None
  else match multi_parse fuel (dropN (le_dec (sliceN 8 12 buf)) (dropN 12 buf)) with
       | Some r => Some ((le_dec (takeN 8 buf), takeN (le_dec (sliceN 8 12 buf)) (dropN 12 buf)) :: r)
       | None => None
       end.
Proof. destruct buf as [|b t]; [congruence|]. intros _. reflexivity. Qed.

Lemma multi_parse_nil fuel : multi_parse fuel [] = Some [].
Proof. destruct fuel; reflexivity. Qed.

Lemma multi_parse_0 buf : buf <> [] -> multi_parse 0 buf = None.
Proof. destruct buf; [congruence|reflexivity]. Qed.

Lemma multi_ser_cons_nonnil r t : multi_ser (r :: t) <> [].
Proof. destruct r as [p x]. rewrite multi_ser_cons. cbn [le_enc app]. discriminate. Qed.

(* the four fields of a serialized record *)
Lemma multi_ser_fields p x r :
  let buf := multi_ser ((p, x) :: r) in
  takeN 8 buf = le_enc 8 p /\ sliceN 8 12 buf = le_enc 4 (lenN x) /\ dropN 12 buf = x ++ multi_ser r.
Proof.
  intros buf. unfold buf. rewrite multi_ser_cons. split; [|split].
  - apply sliceN_app_first. now rewrite length_le_enc.
  - apply sliceN_app_mid'; rewrite !length_le_enc; reflexivity.
  - rewrite app_assoc. apply dropN_app_first. rewrite lenN_app, !length_le_enc. reflexivity.
Qed.

Theorem multi_roundtrip_fuel : forall recs fuel,
  Forall wf_rec recs -> (length recs <= fuel)%nat ->
  multi_parse fuel (multi_ser recs) = Some recs.
Proof.
  induction recs as [|[p x] r IH]; intros fuel Hwf Hf.
  - apply multi_parse_nil.
  - destruct fuel as [|fuel]; [cbn [length] in Hf; lia|].
    inversion Hwf as [|? ? [Hp Hx] Hr]; subst. cbn [fst snd] in Hp, Hx.
    rewrite multi_parse_step by apply multi_ser_cons_nonnil.
    destruct (multi_ser_fields p x r) as (E1 & E2 & E3). rewrite E1, E2, E3.
    rewrite lenN_multi_ser, recs_bytes_cons. cbn [snd].
    destruct (N.ltb_spec (12 + lenN x + recs_bytes r) 12) as [Hc|_]; [lia|].
    rewrite (le_dec_enc_n 4 (lenN x) 4) by (try reflexivity; rewrite pow256_4; exact Hx).
    rewrite (le_dec_enc_n 8 p 8) by (try reflexivity; rewrite pow256_8; exact Hp).
    rewrite lenN_app.
    destruct (N.ltb_spec (lenN x + lenN (multi_ser r)) (lenN x)) as [Hc|_]; [lia|].
    rewrite dropN_app_exact, takeN_app_exact.
    rewrite IH; [reflexivity|exact Hr|cbn [length] in Hf; lia].
Qed.

Lemma multi_fuel_enough recs : (length recs <= multi_fuel (multi_ser recs))%nat.
Proof.
  unfold multi_fuel. rewrite lenN_multi_ser.
  pose proof (recs_bytes_ge recs) as H. rewrite lenN_length in H.
  assert (N.of_nat (length recs) <= recs_bytes recs / 12).
  { apply N.div_le_lower_bound; lia. }
  lia.
Qed.

Theorem multi_roundtrip recs :
  Forall wf_rec recs -> multi_parse (multi_fuel (multi_ser recs)) (multi_ser recs) = Some recs.
Proof. intros H. apply multi_roundtrip_fuel; [exact H|apply multi_fuel_enough]. Qed.

Theorem multi_parse_sound : forall fuel buf recs,
  multi_parse fuel buf = Some recs -> buf = multi_ser recs /\ Forall wf_rec recs.
Proof.
  induction fuel as [|fuel IH]; intros buf recs H.
  - destruct buf as [|b t]; [|discriminate]. inversion H; subst. split; [reflexivity|constructor].
  - destruct buf as [|b t] eqn:Eb; [inversion H; subst; split; [reflexivity|constructor]|].
    rewrite <- Eb in *. assert (Hne : buf <> []) by (rewrite Eb; discriminate). clear Eb b t.
    rewrite multi_parse_step in H by exact Hne.
    destruct (N.ltb_spec (lenN buf) 12) as [|H12]; [discriminate|].
    set (len := le_dec (sliceN 8 12 buf)) in *.
    destruct (N.ltb_spec (lenN (dropN 12 buf)) len) as [|Hlen]; [discriminate|].
    destruct (multi_parse fuel (dropN len (dropN 12 buf))) as [r|] eqn:Er; [|discriminate].
    inversion H; subst recs. clear H.
    destruct (IH _ _ Er) as (Erest & Hwf).
    assert (L8 : lenN (takeN 8 buf) = 8) by (rewrite lenN_takeN; lia).
    assert (L4 : lenN (sliceN 8 12 buf) = 4) by (rewrite lenN_sliceN; lia).
    split.
    + rewrite multi_ser_cons.
      rewrite (le_enc_dec_n 8) by exact L8.
      rewrite lenN_takeN. replace (N.min len (lenN (dropN 12 buf))) with len by lia.
      fold len. unfold len at 1. rewrite (le_enc_dec_n 4) by exact L4.
      rewrite <- Erest, takeN_dropN.
      rewrite <- (dropN_split 8 12) by lia.
      rewrite <- (dropN_0 buf) at 1. rewrite (dropN_split 0 8) by lia.
      now rewrite <- takeN_then_sliceN.
    + constructor; [|exact Hwf]. split; cbn [fst snd].
      * pose proof (le_dec_bound (takeN 8 buf)) as Hb. rewrite L8, pow256_8 in Hb. exact Hb.
      * rewrite lenN_takeN. pose proof (le_dec_bound (sliceN 8 12 buf)) as Hb.
        rewrite L4, pow256_4 in Hb. fold len in Hb. lia.
Qed.

(* ====================================================================== *)
(* 3. MultiPlexedRecord (one WAL entry)                                   *)
(* ====================================================================== *)

Lemma ser_raw_eq tag pos q pl :
  ser_raw tag pos q pl = le_enc 1 tag ++ le_enc 8 pos ++ le_enc 2 (lenN q) ++ q ++ pl.
Proof. reflexivity. Qed.

Lemma lenN_ser_raw tag pos q pl : lenN (ser_raw tag pos q pl) = 11 + lenN q + lenN pl.
Proof. rewrite ser_raw_eq, !lenN_app, !length_le_enc. lia. Qed.

Lemma ser_raw_app tag pos q pl : ser_raw tag pos q pl = ser_raw tag pos q [] ++ pl.
Proof. rewrite !ser_raw_eq, app_nil_r, <- !app_assoc. reflexivity. Qed.

Lemma ser_raw_fields tag pos q pl :
  let buf := ser_raw tag pos q pl in
  takeN 1 buf = le_enc 1 tag /\ sliceN 1 9 buf = le_enc 8 pos /\
  sliceN 9 11 buf = le_enc 2 (lenN q) /\ dropN 11 buf = q ++ pl.
Proof.
  intros buf. unfold buf. rewrite ser_raw_eq. split; [|split; [|split]].
  - apply sliceN_app_first. now rewrite length_le_enc.
  - apply sliceN_app_mid'; rewrite !length_le_enc; reflexivity.
  - rewrite app_assoc. apply sliceN_app_mid'; rewrite lenN_app, !length_le_enc; reflexivity.
  - rewrite app_assoc, app_assoc. apply dropN_app_first.
    rewrite !lenN_app, !length_le_enc. reflexivity.
Qed.

(* the dispatch on the record type, once the header has been decoded *)
Definition deser_tag (tag pos : N) (q payload : bytes) : option entry :=
  match tag with
  | 4 => match multi_parse (multi_fuel payload) payload with
         | Some recs => Some (EAppend q pos recs)
         | None => None
         end
  | 1 => Some (ETruncate q pos)
  | 2 => Some (EPosition q pos)
  | _ => Some (EDelete q pos)
  end.

Lemma entry_deser_eq buf :
  entry_deser buf =
  if lenN buf <? 11 then None
  else if negb ((1 <=? le_dec (takeN 1 buf)) && (le_dec (takeN 1 buf) <=? 4)) then None
  else if lenN (dropN 11 buf) <? le_dec (sliceN 9 11 buf) then None
  else if negb (utf8_valid (takeN (le_dec (sliceN 9 11 buf)) (dropN 11 buf))) then None
  else deser_tag (le_dec (takeN 1 buf)) (le_dec (sliceN 1 9 buf))
                 (takeN (le_dec (sliceN 9 11 buf)) (dropN 11 buf))
                 (dropN (le_dec (sliceN 9 11 buf)) (dropN 11 buf)).
Proof. reflexivity. Qed.

Lemma ser_raw_deser tag pos q pl :
  1 <= tag <= 4 -> pos < 2 ^ 64 -> lenN q < 2 ^ 16 -> utf8_valid q = true ->
  entry_deser (ser_raw tag pos q pl) = deser_tag tag pos q pl.
Proof.
  intros Ht Hp Hq Hu. rewrite entry_deser_eq.
  destruct (ser_raw_fields tag pos q pl) as (E1 & E2 & E3 & E4). rewrite E1, E2, E3, E4.
  rewrite lenN_ser_raw.
  rewrite (le_dec_enc_n 1 tag 1) by (try reflexivity; rewrite pow256_1; lia).
  rewrite (le_dec_enc_n 8 pos 8) by (try reflexivity; rewrite pow256_8; exact Hp).
  rewrite (le_dec_enc_n 2 (lenN q) 2) by (try reflexivity; rewrite pow256_2; exact Hq).
  destruct (N.ltb_spec (11 + lenN q + lenN pl) 11) as [Hc|_]; [lia|].
  destruct (N.leb_spec 1 tag) as [_|Hc]; [|lia].
  destruct (N.leb_spec tag 4) as [_|Hc]; [|lia].
  cbn [andb negb]. rewrite lenN_app.
  destruct (N.ltb_spec (lenN q + lenN pl) (lenN q)) as [Hc|_]; [lia|].
  rewrite takeN_app_exact, dropN_app_exact, Hu. reflexivity.
Qed.

Theorem entry_roundtrip e : wf_entry e -> entry_deser (entry_ser e) = Some e.
Proof.
  intros (Hu & Hq & Hp & Hr).
  destruct e as [q pos recs|q pos|q pos|q pos]; cbn [entry_queue entry_pos entry_ser] in *;
    rewrite ser_raw_deser by (try assumption; lia); cbn [deser_tag]; try reflexivity.
  now rewrite multi_roundtrip.
Qed.

Corollary entry_ser_inj e1 e2 : wf_entry e1 -> wf_entry e2 -> entry_ser e1 = entry_ser e2 -> e1 = e2.
Proof.
  intros H1 H2 E. apply entry_roundtrip in H1. apply entry_roundtrip in H2.
  rewrite E in H1. congruence.
Qed.

Definition entry_payload_bytes (e : entry) : N :=
  match e with EAppend _ _ recs => recs_bytes recs | _ => 0 end.

Lemma lenN_entry_ser e :
  lenN (entry_ser e) = 11 + lenN (entry_queue e) + entry_payload_bytes e.
Proof.
  destruct e as [q pos recs|q pos|q pos|q pos]; cbn [entry_ser entry_queue entry_payload_bytes];
    rewrite lenN_ser_raw; [now rewrite lenN_multi_ser|reflexivity..].
Qed.

(* any buffer that passes the length checks is a raw serialization of its decoded fields *)
Lemma buf_is_ser_raw buf :
  11 <= lenN buf -> le_dec (sliceN 9 11 buf) <= lenN (dropN 11 buf) ->
  buf = ser_raw (le_dec (takeN 1 buf)) (le_dec (sliceN 1 9 buf))
                (takeN (le_dec (sliceN 9 11 buf)) (dropN 11 buf))
                (dropN (le_dec (sliceN 9 11 buf)) (dropN 11 buf)).
Proof.
  intros H11 Hq. rewrite ser_raw_eq.
  rewrite (le_enc_dec_n 1) by (rewrite lenN_takeN; lia).
  rewrite (le_enc_dec_n 8) by (rewrite lenN_sliceN; lia).
  rewrite lenN_takeN.
  replace (N.min (le_dec (sliceN 9 11 buf)) (lenN (dropN 11 buf))) with (le_dec (sliceN 9 11 buf)) by lia.
  rewrite (le_enc_dec_n 2) by (rewrite lenN_sliceN; lia).
  rewrite takeN_dropN.
  rewrite <- (dropN_split 9 11) by lia. rewrite <- (dropN_split 1 9) by lia.
  apply split_at.
Qed.

Definition entry_has_payload (e : entry) : bool :=
  match e with EAppend _ _ _ => true | _ => false end.

(* NOTE.  The statement "entry_deser buf = Some e -> buf = entry_ser e" is FALSE for the model:
   for the record types Truncate / Touch / DeleteQueue the decoder ignores whatever follows the
   queue name (see entry_deser_ignores_trailing_bytes below).  What holds: the buffer is the
   serialization followed by ignored bytes, and there are none for AppendRecords. *)
Theorem entry_deser_sound buf e :
  entry_deser buf = Some e ->
  exists extra, buf = entry_ser e ++ extra /\
                (entry_has_payload e = true -> extra = []) /\
                wf_entry e.
Proof.
  rewrite entry_deser_eq. intros H.
  destruct (N.ltb_spec (lenN buf) 11) as [|H11]; [discriminate|].
  set (tag := le_dec (takeN 1 buf)) in *.
  destruct (N.leb_spec 1 tag) as [Ht1|]; [|discriminate].
  destruct (N.leb_spec tag 4) as [Ht4|]; [|discriminate].
  cbn [andb negb] in H.
  set (qlen := le_dec (sliceN 9 11 buf)) in *.
  destruct (N.ltb_spec (lenN (dropN 11 buf)) qlen) as [|Hql]; [discriminate|].
  set (q := takeN qlen (dropN 11 buf)) in *.
  destruct (utf8_valid q) eqn:Hu; [|discriminate]. cbn [negb] in H.
  set (pos := le_dec (sliceN 1 9 buf)) in *.
  set (pl := dropN qlen (dropN 11 buf)) in *.
  pose proof (buf_is_ser_raw buf H11 Hql) as Hbuf.
  fold tag qlen pos in Hbuf. fold q pl in Hbuf.
  assert (Hpos : pos < 2 ^ 64).
  { pose proof (le_dec_bound (sliceN 1 9 buf)) as Hb.
    rewrite lenN_sliceN in Hb by lia. change (9 - 1) with 8 in Hb. now rewrite pow256_8 in Hb. }
  assert (Hq : lenN q < 2 ^ 16).
  { pose proof (le_dec_bound (sliceN 9 11 buf)) as Hb.
    rewrite lenN_sliceN in Hb by lia. change (11 - 9) with 2 in Hb. rewrite pow256_2 in Hb.
    unfold q. rewrite lenN_takeN. fold qlen in Hb. lia. }
  assert (Hcases : tag = 1 \/ tag = 2 \/ tag = 3 \/ tag = 4) by lia.
  clearbody tag pos q pl.
  destruct Hcases as [ -> | [ -> | [ -> | -> ] ] ]; cbn [deser_tag] in H.
  - inversion H; subst e. exists pl. cbn [entry_ser entry_has_payload].
    split; [now rewrite <- ser_raw_app|]. split; [discriminate|].
    unfold wf_entry. cbn [entry_queue entry_pos]. auto.
  - inversion H; subst e. exists pl. cbn [entry_ser entry_has_payload].
    split; [now rewrite <- ser_raw_app|]. split; [discriminate|].
    unfold wf_entry. cbn [entry_queue entry_pos]. auto.
  - inversion H; subst e. exists pl. cbn [entry_ser entry_has_payload].
    split; [now rewrite <- ser_raw_app|]. split; [discriminate|].
    unfold wf_entry. cbn [entry_queue entry_pos]. auto.
  - destruct (multi_parse (multi_fuel pl) pl) as [recs|] eqn:Em; [|discriminate].
    inversion H; subst e. apply multi_parse_sound in Em. destruct Em as (Epl & Hwf).
    exists []. cbn [entry_ser]. rewrite app_nil_r, <- Epl.
    split; [exact Hbuf|]. split; [reflexivity|].
    unfold wf_entry. cbn [entry_queue entry_pos]. auto.
Qed.

Corollary entry_deser_sound_append buf q pos recs :
  entry_deser buf = Some (EAppend q pos recs) ->
  buf = entry_ser (EAppend q pos recs) /\ wf_entry (EAppend q pos recs).
Proof.
  intros H. destruct (entry_deser_sound _ _ H) as (extra & E & Hx & Hwf).
  rewrite (Hx eq_refl), app_nil_r in E. now split.
Qed.

(* with no trailing bytes the original statement holds for every record type *)
Corollary entry_deser_sound_exact buf e :
  entry_deser buf = Some e -> lenN buf = lenN (entry_ser e) ->
  buf = entry_ser e /\ wf_entry e.
Proof.
  intros H Hl. destruct (entry_deser_sound _ _ H) as (extra & E & _ & Hwf).
  split; [|exact Hwf]. rewrite E, lenN_app in Hl.
  assert (Hx : extra = []) by (apply lenN_0_nil; lia).
  now rewrite Hx, app_nil_r in E.
Qed.

Corollary entry_deser_wf buf e : entry_deser buf = Some e -> wf_entry e.
Proof. intros H. destruct (entry_deser_sound _ _ H) as (? & _ & _ & Hwf). exact Hwf. Qed.

(* the decoder is insensitive to bytes after the queue name of a payload-less record *)
Theorem entry_deser_trailing e extra :
  wf_entry e -> entry_has_payload e = false -> entry_deser (entry_ser e ++ extra) = Some e.
Proof.
  intros (Hu & Hq & Hp & _) Hnp.
  destruct e as [q pos recs|q pos|q pos|q pos]; [discriminate| | |];
    cbn [entry_queue entry_pos entry_ser] in *; rewrite <- ser_raw_app;
    rewrite ser_raw_deser by (try assumption; lia); reflexivity.
Qed.

(* the counterexample to "entry_deser buf = Some e -> buf = entry_ser e" *)
Example entry_deser_ignores_trailing_bytes :
  let e := ETruncate [] 0 in
  let buf := entry_ser e ++ [x00] in
  entry_deser buf = Some e /\ buf <> entry_ser e.
Proof. split; [vm_compute; reflexivity|vm_compute; discriminate]. Qed.

(* ====================================================================== *)
(* 4. replaying one entry: batch atomicity, locality                      *)
(* ====================================================================== *)

Lemma qs_get_put_same qs n q : qs_get (qs_put qs n q) n = Some q.
Proof.
  induction qs as [|[n0 q0] r IH]; cbn [qs_put qs_get].
  - now rewrite bytes_eqb_refl.
  - destruct (bytes_eqb n0 n) eqn:E; cbn [qs_get]; rewrite E; [reflexivity|exact IH].
Qed.

Lemma qs_get_put_other qs n q n' : n <> n' -> qs_get (qs_put qs n q) n' = qs_get qs n'.
Proof.
  intros Hne. induction qs as [|[n0 q0] r IH]; cbn [qs_put qs_get].
  - apply bytes_eqb_neq in Hne. now rewrite Hne.
  - destruct (bytes_eqb n0 n) eqn:E; cbn [qs_get].
    + apply bytes_eqb_eq in E. subst n0. apply bytes_eqb_neq in Hne. now rewrite Hne.
    + destruct (bytes_eqb n0 n'); [reflexivity|exact IH].
Qed.

Lemma qs_get_remove_other qs n n' : n <> n' -> qs_get (qs_remove qs n) n' = qs_get qs n'.
Proof.
  intros Hne. induction qs as [|[n0 q0] r IH]; cbn [qs_remove qs_get]; [reflexivity|].
  destruct (bytes_eqb n0 n) eqn:E; cbn [qs_get].
  - apply bytes_eqb_eq in E. subst n0. apply bytes_eqb_neq in Hne. now rewrite Hne.
  - destruct (bytes_eqb n0 n'); [reflexivity|exact IH].
Qed.

Lemma qs_get_remove_same qs n : qs_get (qs_remove qs n) n = None.
Proof.
  induction qs as [|[n0 q0] r IH]; cbn [qs_remove qs_get]; [reflexivity|].
  destruct (bytes_eqb n0 n) eqn:E; cbn [qs_get]; [exact IH|]. now rewrite E.
Qed.

Lemma qs_get_ack_other qs n next n' :
  n <> n' -> qs_get (ack_position qs n next) n' = qs_get qs n'.
Proof.
  intros Hne. unfold ack_position. destruct (qs_get qs n) as [m|].
  - destruct (negb (mq_is_empty m) || negb (next_position m =? next)); [|reflexivity].
    now apply qs_get_put_other.
  - now apply qs_get_put_other.
Qed.

Lemma qs_contains_get qs n :
  qs_contains qs n = match qs_get qs n with Some _ => true | None => false end.
Proof. reflexivity. Qed.

(* the records held for queue q ([] when the queue does not exist) *)
Definition recs_of_queue (qs : queues) (q : bytes) : list (N * bytes) :=
  match qs_get qs q with Some m => records_of (q_buf m) (q_metas m) | None => [] end.

(* C12: replaying an AppendRecords entry appends ALL of its records, in order, after what the
   queue already held — or fails as a whole (apply_entry returns None: no state at all). *)
Theorem apply_append_all_or_nothing qs file q pos recs qs' :
  qs_inv qs -> apply_entry qs file (EAppend q pos recs) = Some qs' ->
  exists m', qs_get qs' q = Some m' /\
    records_of (q_buf m') (q_metas m') =
    match qs_get qs q with Some m => records_of (q_buf m) (q_metas m) | None => [] end ++ recs.
Proof.
  intros Hi H. cbn [apply_entry] in H. rewrite qs_contains_get in H.
  destruct (qs_get qs q) as [m|] eqn:E.
  - rewrite E in H. destruct (append_all m file recs) as [m'|] eqn:Ea; [|discriminate].
    inversion H; subst qs'. exists m'. split; [apply qs_get_put_same|].
    eapply append_all_inv; [|exact Ea]. eapply qs_inv_get; eauto.
  - unfold ack_position in H. rewrite E in H. rewrite qs_get_put_same in H.
    destruct (append_all (mq_with_next pos) file recs) as [m'|] eqn:Ea; [|discriminate].
    inversion H; subst qs'. exists m'. split; [apply qs_get_put_same|].
    destruct (append_all_inv _ _ _ _ (mq_inv_with_next pos) Ea) as (_ & Hr).
    exact Hr.
Qed.

Corollary apply_append_all_or_nothing' qs file q pos recs qs' :
  qs_inv qs -> apply_entry qs file (EAppend q pos recs) = Some qs' ->
  recs_of_queue qs' q = recs_of_queue qs q ++ recs.
Proof.
  intros Hi H. destruct (apply_append_all_or_nothing _ _ _ _ _ _ Hi H) as (m' & E & Hr).
  unfold recs_of_queue. now rewrite E.
Qed.

(* C18 support: an entry only touches its own queue *)
Theorem apply_other_queue_untouched qs file e qs' q' :
  entry_queue e <> q' -> apply_entry qs file e = Some qs' -> qs_get qs' q' = qs_get qs q'.
Proof.
  intros Hne H. destruct e as [q pos recs|q p|q p|q p]; cbn [entry_queue apply_entry] in *.
  - set (qs1 := if qs_contains qs q then qs else ack_position qs q pos) in *.
    assert (E1 : qs_get qs1 q' = qs_get qs q').
    { unfold qs1. destruct (qs_contains qs q); [reflexivity|now apply qs_get_ack_other]. }
    destruct (qs_get qs1 q) as [m|]; [|discriminate].
    destruct (append_all m file recs) as [m'|]; [|discriminate].
    inversion H; subst qs'. rewrite qs_get_put_other by exact Hne. exact E1.
  - destruct (qs_get qs q) as [m|]; inversion H; subst qs'; [|reflexivity].
    now apply qs_get_put_other.
  - inversion H; subst qs'. now apply qs_get_ack_other.
  - inversion H; subst qs'. now apply qs_get_remove_other.
Qed.

(* ====================================================================== *)
(* 5. number_from: what append_records serializes is well-formed          *)
(* ====================================================================== *)

Lemma number_from_wf : forall payloads p,
  p + lenN payloads <= 2 ^ 64 -> Forall (fun x => lenN x < 2 ^ 32) payloads ->
  Forall wf_rec (number_from p payloads).
Proof.
  induction payloads as [|x r IH]; intros p Hp Hl; cbn [number_from]; [constructor|].
  rewrite lenN_cons in Hp. inversion Hl as [|? ? Hx Hr]; subst.
  constructor.
  - split; cbn [fst snd]; [lia|exact Hx].
  - apply IH; [lia|exact Hr].
Qed.

Lemma number_from_fst : forall l p,
  map fst (number_from p l) = map (fun i => p + N.of_nat i) (seq 0 (length l)).
Proof.
  induction l as [|x r IH]; intros p; cbn [number_from map length seq]; [reflexivity|].
  f_equal; [cbn [fst]; lia|]. rewrite IH, <- seq_shift, map_map. apply map_ext. intros i. lia.
Qed.

Lemma number_from_snd : forall l p, map snd (number_from p l) = l.
Proof.
  induction l as [|x r IH]; intros p; cbn [number_from map]; [reflexivity|]. now rewrite IH.
Qed.

Lemma number_from_nth : forall l p i d,
  (i < length l)%nat -> nth i (number_from p l) d = (p + N.of_nat i, nth i l (snd d)).
Proof.
  induction l as [|x r IH]; intros p i d Hi; cbn [length] in Hi; [lia|].
  cbn [number_from]. destruct i as [|i]; cbn [nth].
  - f_equal. lia.
  - rewrite IH by lia. f_equal. lia.
Qed.

Lemma length_number_from : forall l p, length (number_from p l) = length l.
Proof. induction l as [|x r IH]; intros p; cbn [number_from length]; [reflexivity|]. now rewrite IH. Qed.

(* the entry written by append_records is well-formed under the Rust type bounds *)
Corollary wf_entry_append q p payloads :
  utf8_valid q = true -> lenN q < 2 ^ 16 -> p + lenN payloads <= 2 ^ 64 -> p < 2 ^ 64 ->
  Forall (fun x => lenN x < 2 ^ 32) payloads ->
  wf_entry (EAppend q p (number_from p payloads)).
Proof.
  intros Hu Hq Hp Hp' Hl. unfold wf_entry. cbn [entry_queue entry_pos].
  repeat split; try assumption. now apply number_from_wf.
Qed.

(* what is written by append_records is decoded back to exactly the same batch *)
Corollary append_entry_roundtrip q p payloads :
  utf8_valid q = true -> lenN q < 2 ^ 16 -> p + lenN payloads <= 2 ^ 64 -> p < 2 ^ 64 ->
  Forall (fun x => lenN x < 2 ^ 32) payloads ->
  entry_deser (entry_ser (EAppend q p (number_from p payloads))) =
  Some (EAppend q p (number_from p payloads)).
Proof. intros. apply entry_roundtrip. now apply wf_entry_append. Qed.

Print Assumptions multi_roundtrip.
Print Assumptions multi_roundtrip_fuel.
Print Assumptions multi_parse_sound.
Print Assumptions entry_roundtrip.
Print Assumptions entry_deser_sound.
Print Assumptions entry_deser_sound_append.
Print Assumptions entry_deser_sound_exact.
Print Assumptions entry_deser_trailing.
Print Assumptions entry_ser_inj.
Print Assumptions lenN_entry_ser.
Print Assumptions apply_append_all_or_nothing.
Print Assumptions apply_other_queue_untouched.
Print Assumptions number_from_wf.
Print Assumptions number_from_fst.
