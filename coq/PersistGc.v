(* PersistGc.v — the garbage collector in recovery and in a crash.
   Part 1 (rgc_ok): the recovery-time GC of `open` never fails when the writer made by the replay
     tracks the files lo .. lo+n of the directory, all of them present, with its current file
     ANYWHERE among them (after a crash the reader may stop before the last file, so FileStream.winv
     does not hold) and the position entries fit below 2^64 files.
   Part 2 (gc_partial): a crash in the middle of the unlinks of a garbage collection leaves the
     directory of a state that satisfies the restart invariant (the GC of a smaller "referenced"
     predicate stops exactly there). *)
From Coq Require Import Lia ZArith ZifyN ZifyNat ZifyBool List Sorted.
From MRL Require Import Bytes BytesProofs Params Names NamesProofs Frame Record Mem Spec Rolling Log
  Driver SpecRefine RecordProofs StreamProofs PolicyProofs GcProofs GhostLog ReplaySpec
  HandleProofs FileStream ResyncProofs PersistProofs WriterProofs RestartInv RestartWrite RestartGc
  RestartStep OpenReplay TornFile CrashTrace PersistTrace.

Arguments N.add : simpl never.
Arguments N.sub : simpl never.
Arguments N.mul : simpl never.
Arguments N.eqb : simpl never.
Arguments N.ltb : simpl never.
Arguments N.leb : simpl never.
Arguments N.div : simpl never.
Arguments N.modulo : simpl never.
Arguments N.min : simpl never.
Arguments N.max : simpl never.

Lemma tracker_next_iota n : forall lo f,
  lo <= f -> f < lo + N.of_nat n -> tracker_next (iota lo (S n)) f = Some (f + 1).
Proof.
  induction n as [|n IH]; intros lo f H1 H2; [lia|].
  cbn [iota tracker_next]. destruct (N.ltb_spec f lo) as [Hlt|_]; [lia|].
  destruct (N.eq_dec f lo) as [->|Hne].
  - destruct (N.ltb_spec lo (lo + 1)) as [_|H]; [reflexivity|lia].
  - specialize (IH (lo + 1) f ltac:(lia) ltac:(lia)). cbn [iota] in IH. exact IH.
Qed.

Section RecGc.
Variable P : params.
Hypothesis HBS_lo : 7 < BS P.
Hypothesis HBS_hi : BS P <= 65542.
Hypothesis HNB : 1 <= NB P.
Hypothesis Hcrc : forall t p, crcf P t p < 2 ^ 32.
Hypothesis HGC : L_GC P = false.

Local Notation B := (BS P).
Local Notation FB := (FILE_BYTES P).
Local Notation enc_of := (enc_of P).
Local Notation encs_of := (encs_of P).
Local Notation cursor_after := (cursor_after P).
Local Notation sr := (map entry_ser).
Local Notation HW f := (f P HBS_lo HBS_hi HNB Hcrc) (only parsing).
Local Notation HG f := (f P HBS_lo HBS_hi HNB Hcrc HGC) (only parsing).
Local Notation HN f := (f P HBS_lo HBS_hi HNB) (only parsing).
Local Notation H3 f := (f P HBS_lo HBS_hi Hcrc) (only parsing).
Local Notation MAXB := (FB * (U64_MAX + 1)).

Lemma HB0g : 0 < B. Proof. lia. Qed.
Lemma HB7g : HEADER_LEN <= B. Proof. unfold HEADER_LEN. lia. Qed.
Lemma FBposg : 0 < FB. Proof. pose proof (FB_ge_B P HB0g HNB). lia. Qed.

(* ====================================================================== *)
(* Part 1. the recovery-time GC                                            *)
(* ====================================================================== *)

(* the writer tracks the files lo .. lo+n, all present; its file is one of them *)
Definition rinv (lo : N) (n : nat) (w : rwriter) : Prop :=
  w_files w = iota lo (S n) /\ lo <= w_file w /\ w_file w <= lo + N.of_nat n /\
  lo + N.of_nat n <= U64_MAX /\ c_plan (w_ctx w) = None /\ wf w /\ w_off w <= FB /\
  (forall f, lo <= f <= lo + N.of_nat n ->
     exists b, fs_get (vfs w) (filename f) = Some (FFile b)) /\
  (forall f, lo + N.of_nat n < f -> f <= U64_MAX -> fs_get (vfs w) (filename f) = None).

Definition rinvx (lo : N) (w : rwriter) : Prop := exists n, rinv lo n w.

Definition wabs (w : rwriter) : N := w_file w * FB + w_off w.

Lemma rinv_wr_ok lo n w : rinv lo n w -> w_file w = lo + N.of_nat n -> wr_ok w.
Proof.
  intros (Hf & _) Hl. split.
  - rewrite Hf. apply contiguous_iota. exists lo, n. reflexivity.
  - rewrite Hf, (HN iota_last), Hl. reflexivity.
Qed.

(* rolling into a file that exists already (only possible after a crash) *)
Lemma wr_write_roll_existing lo n w d :
  rinv lo n w -> d <> [] -> FB < w_off w + lenN d -> w_file w < lo + N.of_nat n ->
  exists w', wr_write P w d = (w', Ok tt) /\
    w_files w' = w_files w /\ w_file w' = w_file w + 1 /\ w_off w' = lenN d /\
    c_plan (w_ctx w') = None /\ vfs w' = fs_write (vfs w) (w_file w + 1) 0 d /\ wf w'.
Proof.
  intros (Hf & Hlo & Hhi & Hu & Hpl & Hwf & Hoff & Hex & Hfresh) Hd Hroll Hlt.
  unfold wr_write. destruct d as [|x d'] eqn:Ed; [congruence|].
  rewrite <- Ed in *. clear Ed x d'.
  destruct (N.ltb_spec FB (w_off w + lenN d)) as [_|H]; [|lia].
  fold (synced w).
  pose proof (synced_pending w) as P1. pose proof (synced_key w) as Q1.
  pose proof (synced_fs w) as V1.
  destruct (synced w) as [c1 fl1 n1 off1 p1]. cbn [w_pending w_ctx] in P1, V1. subst p1.
  symmetry in Q1. apply wkey_fields in Q1. cbn [w_files w_file w_off w_ctx] in Q1.
  destruct Q1 as (E1 & E2 & E3 & Hm). subst fl1 n1 off1. cbn [w_files w_file w_off w_ctx w_pending].
  rewrite Hf, (tracker_next_iota n lo (w_file w) Hlo Hlt).
  destruct (Hex (w_file w + 1) ltac:(lia)) as (b & Hb).
  assert (Hcok : cok (vfs w) c1).
  { split; [exact V1|]. apply cmeta_plan in Hm. congruence. }
  destruct (open_file_none (vfs w) c1 (w_file w + 1) b Hcok Hb) as (c2 & -> & (Hc2 & Hp2)).
  set (w2 := mkWr c2 (iota lo (S n)) (w_file w + 1) 0 []).
  destruct (bw_write_all_wrote P w2 d Hd (wf_nil w2 eq_refl)) as (Hk & Hv & Hw').
  apply wkey_fields in Hk. destruct Hk as (K1 & K2 & K3 & K4).
  eexists. split; [reflexivity|].
  split; [rewrite K1; reflexivity|]. split; [exact K2|].
  split; [rewrite K3; unfold w2; cbn [w_off]; lia|].
  split; [apply cmeta_plan in K4; rewrite K4; exact Hp2|].
  split; [|exact Hw'].
  rewrite Hv. unfold w2. rewrite vfs_mk. cbn [w_file w_off]. now rewrite Hc2.
Qed.

(* the files present are still present after a pwrite into one of them *)
Lemma fs_write_keeps fs f off d f' :
  (exists b, fs_get fs (filename f') = Some (FFile b)) ->
  exists b, fs_get (fs_write fs f off d) (filename f') = Some (FFile b).
Proof.
  intros (b & Hb). destruct (bytes_eqb (filename f) (filename f')) eqn:E.
  - apply bytes_eqb_eq in E. rewrite <- E. eexists. apply fs_get_write_same.
  - apply bytes_eqb_neq in E. exists b. rewrite fs_get_write_other by exact E. exact Hb.
Qed.

Lemma rinv_write lo n w d :
  rinv lo n w -> d <> [] -> lenN d <= wr_rem P w ->
  (w_off w = FB -> w_file w + 1 <= U64_MAX) ->
  exists w' n', wr_write P w d = (w', Ok tt) /\ rinv lo n' w' /\
    wabs w' = wabs w + lenN d.
Proof.
  intros Hr Hd Hlen Hub.
  pose proof Hr as (Hf & Hlo & Hhi & Hu & Hpl & Hwf & Hoff & Hex & Hfresh).
  unfold wr_rem in Hlen.
  destruct (N.le_gt_cases (w_off w + lenN d) FB) as [Hfit|Hroll].
  - destruct (wr_write_fit P HB0g HNB w d Hd Hwf Hfit) as (w' & Hw & K1 & K2 & K3 & K4 & K5 & K6).
    exists w', n. split; [exact Hw|]. split.
    + split; [congruence|]. rewrite K2, K3. split; [exact Hlo|]. split; [exact Hhi|].
      split; [exact Hu|]. split; [congruence|]. split; [exact K6|]. split; [exact Hfit|].
      rewrite K5. split.
      * intros f Hfr. apply fs_write_keeps. now apply Hex.
      * intros f H1 H2. rewrite fs_get_write_other by (apply filename_neq; lia). now apply Hfresh.
    + unfold wabs. rewrite K2, K3. lia.
  - assert (Hend : w_off w = FB) by (apply (fit_or_end P HB0g HNB _ (lenN d)); assumption).
    assert (HlenFB : lenN d <= FB).
    { pose proof (FB_ge_B P HB0g HNB). pose proof (N.mod_lt (w_off w) B ltac:(lia)). lia. }
    specialize (Hub Hend).
    destruct (N.lt_ge_cases (w_file w) (lo + N.of_nat n)) as [Hlt|Hge].
    + destruct (wr_write_roll_existing lo n w d Hr Hd Hroll Hlt)
        as (w' & Hw & K1 & K2 & K3 & K4 & K5 & K6).
      exists w', n. split; [exact Hw|]. split.
      * split; [congruence|]. rewrite K2, K3. split; [lia|]. split; [lia|].
        split; [exact Hu|]. split; [exact K4|]. split; [exact K6|]. split; [exact HlenFB|].
        rewrite K5. split.
        -- intros f Hfr. apply fs_write_keeps. now apply Hex.
        -- intros f H1 H2. rewrite fs_get_write_other by (apply filename_neq; lia). now apply Hfresh.
      * unfold wabs. rewrite K2, K3, Hend. lia.
    + assert (Hl : w_file w = lo + N.of_nat n) by lia.
      destruct (wr_write_roll P HB0g HNB w d Hd (rinv_wr_ok lo n w Hr Hl) Hroll
                  (Hfresh (w_file w + 1) ltac:(lia) Hub))
        as (w' & Hw & K1 & K2 & K3 & K4 & K5 & K6).
      exists w', (S n). split; [exact Hw|]. split.
      * split.
        { rewrite K1, Hf, Hl. rewrite (TornFile.iota_snoc (S n) lo). do 2 f_equal. lia. }
        rewrite K2, K3. split; [lia|]. split; [lia|]. split; [lia|].
        split; [congruence|]. split; [exact K6|]. split; [exact HlenFB|].
        rewrite K5. split.
        -- intros f Hfr. apply fs_write_keeps.
           destruct (N.eq_dec f (w_file w + 1)) as [->|Hne].
           ++ eexists. apply PolicyProofs.fs_get_put_same.
           ++ rewrite GcProofs.fs_get_put_other by (apply filename_neq; lia). apply Hex. lia.
        -- intros f H1 H2. rewrite fs_get_write_other by (apply filename_neq; lia).
           rewrite GcProofs.fs_get_put_other by (apply filename_neq; lia). apply Hfresh; lia.
      * unfold wabs. rewrite K2, K3, Hend. lia.
Qed.

(* the simulation by the in-memory writer positioned at the absolute byte position *)
Definition rsim (lo : N) (w : rwriter) (v : vecw) : Prop :=
  rinvx lo w /\ vw_cursor v = wabs w.

Definition Gm (v : vecw) : Prop := vw_cursor v <= MAXB.

Lemma rsim_rem lo w v : rsim lo w v -> wr_rem P w = vw_rem P v.
Proof.
  intros (_ & Hc). unfold wr_rem, vw_rem, wabs in *. now rewrite Hc, (pos_mod P HB0g HNB).
Qed.

Lemma Gm_back v d : Gm (fst (vw_write v d)) -> Gm v.
Proof. unfold Gm, vw_write. cbn [fst vw_cursor]. lia. Qed.

Lemma rsim_write lo w v d : rsim lo w v -> lenN d <= vw_rem P v -> Gm (fst (vw_write v d)) ->
  snd (wr_write P w d) = snd (vw_write v d) /\ rsim lo (fst (wr_write P w d)) (fst (vw_write v d)).
Proof.
  intros Hs Hlen HG. pose proof (rsim_rem lo w v Hs) as Hrem.
  destruct Hs as ((n & Hr) & Hc).
  unfold vw_write. cbn [fst snd vw_cursor vw_buf].
  destruct d as [|x d'] eqn:Ed.
  - cbn [wr_write fst snd]. split; [reflexivity|]. split; [now exists n|].
    cbn [vw_cursor]. rewrite (@lenN_nil byte). lia.
  - rewrite <- Ed in *. assert (Hd : d <> []) by (rewrite Ed; discriminate). clear Ed x d'.
    pose proof (lenN_pos d Hd) as Hpos.
    rewrite <- Hrem in Hlen.
    unfold Gm in HG. cbn [vw_write fst vw_cursor] in HG.
    destruct (rinv_write lo n w d Hr Hd Hlen) as (w' & n' & Hw & Hr' & Hab).
    + intros Hend. rewrite Hc in HG. unfold wabs in HG. rewrite Hend in HG.
      pose proof FBposg.
      assert (Hlt : FB * (w_file w + 1) < FB * (U64_MAX + 1)) by lia.
      apply N.mul_lt_mono_pos_l in Hlt; lia.
    + rewrite Hw. cbn [fst snd]. split; [reflexivity|]. split; [now exists n'|].
      cbn [vw_cursor]. lia.
Qed.

Lemma rsim_write_entry lo st e st1 r :
  rinvx lo (s_wr st) ->
  wabs (s_wr st) + lenN (enc_of (wabs (s_wr st)) (entry_ser e)) <= MAXB ->
  write_entry P st e = (st1, r) ->
  (exists k, r = Ok k) /\ s_qs st1 = s_qs st /\ s_pol st1 = s_pol st /\
  rinvx lo (s_wr st1) /\
  wabs (s_wr st1) = wabs (s_wr st) + lenN (enc_of (wabs (s_wr st)) (entry_ser e)).
Proof.
  intros Hr HM Hw. unfold write_entry in Hw.
  destruct (write_record P rwriter (wr_write P) (wr_rem P) (s_wr st) (entry_ser e)) as [w1 r1] eqn:Ew.
  inversion Hw; subst st1 r. clear Hw.
  set (v := mkVecW (wabs (s_wr st)) []).
  pose proof (write_record_sim P HB7g rwriter vecw (wr_write P) (wr_rem P) vw_write (vw_rem P)
                (rsim lo) Gm (rsim_rem lo) Gm_back (rsim_write lo) (vw_pad_full P HB0g HNB)
                (s_wr st) v (entry_ser e)) as Hsim.
  rewrite (H3 write_record_enc_of) in Hsim. cbn [fst snd vw_cursor vw_buf v] in Hsim.
  destruct Hsim as [Er Hs].
  - split; [exact Hr|reflexivity].
  - unfold Gm. cbn [vw_cursor]. exact HM.
  - rewrite Ew in Er, Hs. cbn [fst snd] in Er, Hs. destruct Hs as [Hr1 Hc1]. cbn [vw_cursor] in Hc1.
    split; [eexists; exact Er|]. split; [reflexivity|]. split; [reflexivity|].
    cbn [set_wr s_wr]. split; [exact Hr1|]. symmetry. exact Hc1.
Qed.

Lemma rsim_record_positions lo names : forall st acc st1 r,
  rinvx lo (s_wr st) ->
  cursor_after (wabs (s_wr st)) (sr (map snd (rp_log P st names))) <= MAXB ->
  record_positions P st names acc = (st1, r) ->
  (exists k, r = Ok k) /\ s_qs st1 = s_qs st /\ s_pol st1 = s_pol st /\ rinvx lo (s_wr st1).
Proof.
  induction names as [|nm names IH]; intros st acc st1 r Hr HM Hrp;
    cbn [record_positions rp_log] in *.
  - inversion Hrp; subst. split; [eexists; reflexivity|]. auto.
  - destruct (qs_get (s_qs st) nm) as [q|] eqn:Eq; [|eapply IH; eassumption].
    destruct (write_entry P st (EPosition nm (next_position q))) as [st2 r2] eqn:Ew.
    set (e := EPosition nm (next_position q)) in *.
    assert (HM1 : wabs (s_wr st) + lenN (enc_of (wabs (s_wr st)) (entry_ser e)) <= MAXB).
    { destruct r2 as [k|err]; cbn [map snd] in HM; rewrite (H3 cursor_after_cons) in HM;
        unfold ResyncProofs.cursor_after in HM; lia. }
    destruct (rsim_write_entry lo st e st2 r2 Hr HM1 Ew) as ((k & ->) & Eqs & Epol & Hr2 & Hab).
    cbn [map snd] in HM. rewrite (H3 cursor_after_cons), <- Hab in HM.
    destruct (IH st2 (acc + k) st1 r Hr2 HM Hrp) as (Hk & Eqs' & Epol' & Hr').
    split; [exact Hk|]. split; [congruence|]. split; [congruence|exact Hr'].
Qed.

(* unlinking files that are all there never fails *)
Lemma gc_loop_present refd : forall files c,
  NoDup files ->
  (forall f, In f files -> f <= U64_MAX /\ exists b, fs_get (c_fs c) (filename f) = Some (FFile b)) ->
  exists c' files', gc_loop c files refd = (c', files', Ok tt).
Proof.
  induction files as [|f rest IH]; intros c Hnd Hall; [cbn; eauto|].
  destruct rest as [|g rest']; [cbn; eauto|].
  cbn [gc_loop]. destruct (refd f); [eauto|].
  destruct (Hall f (or_introl eq_refl)) as (Hfu & b & Hb). rewrite Hb.
  inversion Hnd as [|? ? Hnin Hnd']; subst.
  apply IH; [exact Hnd'|].
  intros f' Hin. destruct (Hall f' (or_intror Hin)) as (Hu' & b' & Hb'). split; [exact Hu'|].
  exists b'. cbn [ctx_ev ctx_fs c_fs].
  rewrite GcProofs.fs_get_remove_other; [exact Hb'|].
  apply filename_neq; try assumption. intros ->. contradiction.
Qed.

Lemma iota_NoDup n : forall lo, NoDup (iota lo n).
Proof.
  induction n as [|n IH]; intros lo; cbn [iota]; constructor; [|apply IH].
  rewrite iota_In. lia.
Qed.

Lemma run_gc_qs st hint : s_qs (fst (run_gc_if_necessary P st hint)) = s_qs st.
Proof.
  unfold run_gc_if_necessary. destruct (has_deletable st); [|reflexivity].
  destruct (record_empty_queues_position P st hint) as [st1 [k|e]] eqn:E;
    apply record_empty_step in E; destruct E as [_ E2]; [|exact E2].
  destruct (gc_loop _ _ _) as [[c files] [[]|e]]; exact E2.
Qed.

Theorem rgc_ok lo st hint :
  rinvx lo (s_wr st) -> w_pending (s_wr st) = [] ->
  cursor_after (wabs (s_wr st)) (sr (map snd (gc_log P st hint))) <= MAXB ->
  exists st1 k, run_gc_if_necessary P st hint = (st1, Ok k) /\ s_qs st1 = s_qs st /\
                s_pol st1 = s_pol st.
Proof.
  intros Hr Hp HM.
  pose proof (run_gc_qs st hint) as Hqs.
  unfold run_gc_if_necessary in *. unfold gc_log in HM.
  destruct (has_deletable st); [|exists st, 0; auto].
  unfold record_empty_queues_position in *.
  destruct (record_positions P st (pick_order hint (empty_names (s_qs st))) 0) as [st0 r0] eqn:Erp.
  destruct (rsim_record_positions lo _ st 0 st0 r0 Hr HM Erp) as ((k & ->) & Eqs & Epol & (n & Hr0)).
  rewrite HGC in *. cbn [andb] in *.
  set (st1 := persist st0 true) in *.
  destruct Hr0 as (Hf & Hlo & Hhi & Hu & Hpl & Hwf & Hoff & Hex & Hfresh).
  assert (Hf1 : w_files (s_wr st1) = iota lo (S n)).
  { unfold st1. cbn [persist set_wr s_wr].
    pose proof (wr_persist_key (s_wr st0) true) as Hk. symmetry in Hk.
    apply wkey_fields in Hk. destruct Hk as (K & _). congruence. }
  assert (Hfs1 : c_fs (w_ctx (s_wr st1)) = vfs (s_wr st0)).
  { unfold st1. cbn [persist set_wr s_wr]. rewrite <- (wr_persist_vfs (s_wr st0) true).
    symmetry. apply vfs_nil. apply wr_persist_drained. }
  destruct (gc_loop_present (referenced st1 (w_file (s_wr st))) (w_files (s_wr st1))
              (w_ctx (s_wr st1))) as (c' & files' & Egc).
  - rewrite Hf1. apply iota_NoDup.
  - intros f Hin. rewrite Hf1 in Hin. apply iota_In in Hin. split; [lia|].
    rewrite Hfs1. apply Hex. lia.
  - rewrite Egc in *. cbn [fst] in Hqs. eexists _, k. split; [reflexivity|]. split; [exact Hqs|].
    cbn [set_wr s_pol st1 persist]. exact Epol.
Qed.

(* ====================================================================== *)
(* Part 2. a crash in the middle of the unlinks                            *)
(* ====================================================================== *)

Lemma gc_loop_step2 c f g r refd :
  gc_loop c (f :: g :: r) refd =
  if refd f then (c, f :: g :: r, Ok tt)
  else match fs_get (c_fs c) (filename f) with
       | Some (FFile _) | Some FOther =>
           gc_loop (ctx_ev (ctx_fs c (fs_remove (c_fs c) (filename f))) (EvUnlink (filename f)))
                   (g :: r) refd
       | Some FDir => (c, g :: r, Err IoIsADirectory)
       | None => (c, g :: r, Err IoNotFound)
       end.
Proof. reflexivity. Qed.

Lemma gc_loop_cut refd : forall m lo files' c c' t,
  gc_loop c (iota lo m ++ files') refd = (c', files', Ok tt) ->
  Forall (fun f => refd f = false) (iota lo m) ->
  gc_tight refd (iota lo m ++ files') files' ->
  lo <= t -> t <= lo + N.of_nat m ->
  exists c_t,
    gc_loop c (iota lo m ++ files') (fun x => refd x || (t <=? x)) =
      (c_t, iota t (N.to_nat (lo + N.of_nat m - t)) ++ files', Ok tt) /\
    c_fs c_t = remove_files (c_fs c) (iota lo (N.to_nat (t - lo))) /\
    c_plan c_t = c_plan c.
Proof.
  induction m as [|m IH]; intros lo files' c c' t Hgc Hun Htight H1 H2.
  - assert (t = lo) by lia. subst t. replace (N.to_nat (lo + N.of_nat 0 - lo)) with 0%nat by lia.
    replace (N.to_nat (lo - lo)) with 0%nat by lia. cbn [iota app] in *.
    exists c. split; [|split; reflexivity].
    destruct files' as [|f [|g r]]; try reflexivity.
    cbn [gc_tight] in Htight. cbn [gc_loop]. rewrite Htight. reflexivity.
  - cbn [iota app] in Hgc, Htight |- *.
    inversion Hun as [|? ? Hlo Hun']; subst.
    destruct (N.eq_dec t lo) as [->|Hne].
    + replace (N.to_nat (lo + N.of_nat (S m) - lo)) with (S m) by lia.
      replace (N.to_nat (lo - lo)) with 0%nat by lia.
      exists c. split; [|split; reflexivity]. cbn [iota app].
      destruct (iota (lo + 1) m ++ files') as [|g r]; [reflexivity|].
      cbn [gc_loop]. destruct (N.leb_spec lo lo) as [_|H]; [|lia]. now rewrite orb_true_r.
    + destruct (iota (lo + 1) m ++ files') as [|g r] eqn:Erest.
      { exfalso. cbn [gc_loop] in Hgc. inversion Hgc; subst files'.
        destruct (iota (lo + 1) m); discriminate. }
      rewrite gc_loop_step2 in Hgc |- *. rewrite Hlo in *.
      destruct (N.leb_spec t lo) as [H|_]; [lia|]. cbn [orb].
      assert (Htight' : gc_tight refd (g :: r) files').
      { destruct files' as [|f [|f' r']]; [discriminate Htight|exact I|exact Htight]. }
      replace (N.to_nat (t - lo)) with (S (N.to_nat (t - (lo + 1)))) by lia.
      cbn [iota]. unfold remove_files. cbn [fold_left]. fold (remove_files).
      replace (lo + N.of_nat (S m) - t) with (lo + 1 + N.of_nat m - t) by lia.
      destruct (fs_get (c_fs c) (filename lo)) as [[b| |]|] eqn:Eg; try discriminate.
      * rewrite <- Erest in Hgc, Htight' |- *.
        destruct (IH (lo + 1) files' _ c' t Hgc Hun' Htight' ltac:(lia) ltac:(lia))
          as (c_t & E1 & E2 & E3).
        exists c_t. split; [exact E1|]. split; [exact E2|exact E3].
      * rewrite <- Erest in Hgc, Htight' |- *.
        destruct (IH (lo + 1) files' _ c' t Hgc Hun' Htight' ltac:(lia) ltac:(lia))
          as (c_t & E1 & E2 & E3).
        exists c_t. split; [exact E1|]. split; [exact E2|exact E3].
Qed.

Local Notation Inv := (Inv P).
Local Notation stream_bound := (stream_bound P).

Theorem gc_partial st2 G2 hint st3 k :
  Inv st2 G2 -> stream_bound G2 (map snd (gc_log P st2 hint)) ->
  has_deletable st2 = true ->
  run_gc_if_necessary P st2 hint = (st3, Ok k) ->
  let st1 := gc_st1 P st2 hint in
  let lo := wlo (s_wr st1) in
  forall m c files',
    gc_loop (w_ctx (s_wr st1)) (w_files (s_wr st1)) (referenced st1 (w_file (s_wr st2))) =
      (c, files', Ok tt) ->
    w_files (s_wr st1) = iota lo m ++ files' ->
    forall mu, (mu <= m)%nat ->
    exists fake Gf,
      Inv fake Gf /\
      c_fs (w_ctx (s_wr fake)) = remove_files (c_fs (w_ctx (s_wr st1))) (iota lo mu) /\
      w_pending (s_wr fake) = [] /\ s_qs fake = s_qs st2 /\
      w_file (s_wr fake) = w_file (s_wr st1) /\ w_off (s_wr fake) = w_off (s_wr st1) /\
      gh_base Gf = gh_base G2.
Proof.
  intros HI Hb Hd Hgc st1 lo m c files' Egc Efiles mu Hmu.
  subst st1 lo. unfold gc_st1, gc_st0, gc_names in *. unfold gc_log in Hb. rewrite Hd in Hb.
  set (names := pick_order hint (empty_names (s_qs st2))) in *.
  destruct (record_positions P st2 names 0) as [st0 r0] eqn:Erp. cbn [fst] in *.
  pose proof HI as (HP & HL).
  assert (Hne : names_empty (s_qs st2) names).
  { apply pick_order_names_empty. exact (LInv_nodup _ _ _ HL). }
  destruct (HW inv_record_positions names st2 G2 0 st0 r0 HI Hne Hb Erp)
    as ((k0 & ->) & Eqs0 & Epol0 & Elo0 & Hm0 & HI0 & Hcov).
  set (st1 := persist st0 true) in *.
  set (guard := w_file (s_wr st2)) in *.
  assert (HI1 : Inv st1 (gh_app G2 (rp_log P st2 names))) by (apply inv_persist; exact HI0).
  assert (Eqs1 : s_qs st1 = s_qs st2) by exact Eqs0.
  set (lo := wlo (s_wr st1)) in *.
  destruct (gc_loop_ok _ _ _ _ _ Egc) as (dropped & Ef & Hun & Htight & _).
  assert (Edr : dropped = iota lo m).
  { rewrite Efiles in Ef. apply app_inv_tail in Ef. now symmetry. }
  subst dropped. rewrite Efiles in Egc, Htight.
  destruct (gc_loop_cut _ m lo files' _ c (lo + N.of_nat mu) Egc Hun Htight ltac:(lia) ltac:(lia))
    as (c_t & Ecut & Efs & Epl).
  replace (N.to_nat (lo + N.of_nat mu - lo)) with mu in Efs by lia.
  rewrite <- Efiles in Ecut.
  set (refd_t := fun x => referenced st1 guard x || (lo + N.of_nat mu <=? x)) in *.
  destruct (HW inv_gc_drop st1 _ refd_t c_t
              (iota (lo + N.of_nat mu) (N.to_nat (lo + N.of_nat m - (lo + N.of_nat mu))) ++ files')
              guard HI1) as (mm & HI').
  - exact (synced_pending (s_wr st0)).
  - exact Ecut.
  - intros x Hx. unfold refd_t, referenced in Hx. apply orb_false_iff in Hx. destruct Hx as [Hx _].
    apply orb_false_iff in Hx. tauto.
  - unfold refd_t, referenced. now rewrite N.eqb_refl.
  - unfold lo, st1. cbn [persist set_wr s_wr]. rewrite wlo_persist, Elo0.
    destruct HP as (Hw & _). exact (HN winv_wlo_le _ Hw).
  - intros q mq Eq Hem. rewrite Eqs1 in Eq.
    assert (Hin : In q names).
    { unfold names. apply In_pick_order_conv. exact (In_empty_names_conv _ _ _ Eq Hem). }
    destruct (Hcov q mq Hin Eq) as (f & Hf & Hle).
    destruct (In_nth_error _ _ (in_or_app (gh_E G2) _ _ (or_intror Hf))) as (j & Ej).
    exists j, f, (EPosition q (next_position mq)). split; [exact Ej|]. split; [|exact Hle].
    cbn [creates]. apply bytes_eqb_refl.
  - eexists _, _. split; [exact HI'|]. cbn [set_wr s_wr s_qs w_ctx w_pending w_file w_off].
    split; [exact Efs|]. split; [exact (synced_pending (s_wr st0))|]. split; [exact Eqs1|].
    split; [reflexivity|]. split; [reflexivity|]. reflexivity.
Qed.

End RecGc.

Print Assumptions rgc_ok.
Print Assumptions gc_partial.
