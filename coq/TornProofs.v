(* TornProofs.v — properties C02 / C12 at the stream level: a torn write (a prefix of the bytes
   of the entry in flight, followed by the zero prefill) never surfaces as data, and leaves the
   log usable (reader stops at a position from which everything is zero; entries appended there
   are read back). In-memory writer vecw / block reader vecr of Driver.v, setting of
   StreamProofs.v. *)
From Coq Require Import Lia ZArith ZifyN ZifyNat ZifyBool.
From MRL Require Import Bytes BytesProofs Params Frame Driver StreamProofs.

Arguments N.add : simpl never.
Arguments N.sub : simpl never.
Arguments N.mul : simpl never.
Arguments N.eqb : simpl never.
Arguments N.ltb : simpl never.
Arguments N.leb : simpl never.
Arguments N.div : simpl never.
Arguments N.modulo : simpl never.
Arguments N.min : simpl never.

(* ---------- zero strings ---------- *)
Lemma all_zero_unique l : forall l',
  all_zero l = true -> all_zero l' = true -> lenN l = lenN l' -> l = l'.
Proof.
  induction l as [|x l IH]; intros [|y l'] H1 H2 Hl.
  - reflexivity.
  - rewrite lenN_cons, (@lenN_nil byte) in Hl. lia.
  - rewrite lenN_cons, (@lenN_nil byte) in Hl. lia.
  - cbn [all_zero] in H1, H2.
    apply andb_true_iff in H1 as [Hx H1]. apply andb_true_iff in H2 as [Hy H2].
    apply byte_eqb_eq in Hx. apply byte_eqb_eq in Hy. subst x y. f_equal.
    apply IH; [exact H1 | exact H2 |]. rewrite !lenN_cons in Hl. lia.
Qed.

Lemma all_zero_eq_zerosN l : all_zero l = true -> l = zerosN (lenN l).
Proof.
  intros H. apply all_zero_unique; [exact H | apply all_zero_zerosN |].
  now rewrite lenN_zerosN.
Qed.

Lemma zerosN_app x y : zerosN x ++ zerosN y = zerosN (x + y).
Proof.
  apply all_zero_unique.
  - rewrite all_zero_app, !all_zero_zerosN. reflexivity.
  - apply all_zero_zerosN.
  - rewrite lenN_app, !lenN_zerosN. reflexivity.
Qed.

Lemma zerosN_split x y : y <= x -> zerosN x = zerosN y ++ zerosN (x - y).
Proof. intros H. rewrite zerosN_app. f_equal. lia. Qed.

Lemma all_zero_app_true a b : all_zero a = true -> all_zero b = true -> all_zero (a ++ b) = true.
Proof. intros Ha Hb. now rewrite all_zero_app, Ha, Hb. Qed.

Lemma all_zero_app_inv a b : all_zero (a ++ b) = true -> all_zero a = true /\ all_zero b = true.
Proof. rewrite all_zero_app. intros H. now apply andb_true_iff in H. Qed.

Lemma zeros_merge l z n :
  all_zero l = true -> lenN l + z = n -> l ++ zerosN z = zerosN n.
Proof.
  intros Hl Hn. apply all_zero_unique.
  - apply all_zero_app_true; [exact Hl | apply all_zero_zerosN].
  - apply all_zero_zerosN.
  - rewrite lenN_app, !lenN_zerosN. exact Hn.
Qed.

Lemma le_dec_zero l : all_zero l = true -> le_dec l = 0.
Proof.
  induction l as [|x l IH]; intros H; [reflexivity|].
  cbn [all_zero] in H. apply andb_true_iff in H as [Hx H].
  apply byte_eqb_eq in Hx. subst x. cbn [le_dec]. rewrite (IH H). reflexivity.
Qed.

(* ---------- header facts ---------- *)
Lemma header_take_type crc len t q :
  7 <= q -> all_zero (takeN q (header_bytes crc len t)) = false.
Proof.
  intros Hq. rewrite takeN_all by (rewrite lenN_header; lia). apply header_not_zero.
Qed.

(* a header cut before its type byte and completed by zeros has type code 0 *)
Lemma torn_header_type crc len t q :
  q < 7 -> le_dec (dropN 6 (takeN q (header_bytes crc len t) ++ zerosN (7 - q))) = 0.
Proof.
  intros Hq. apply le_dec_zero.
  rewrite dropN_app_ge by (rewrite lenN_takeN, lenN_header; lia).
  apply all_zero_dropN, all_zero_zerosN.
Qed.

Lemma ft_of_code_0 : ft_of_code 0 = None.
Proof. reflexivity. Qed.

Section Torn.
Variable P : params.
Hypothesis HBS_lo : 7 < BS P.
Hypothesis HBS_hi : BS P <= 65542.
Hypothesis Hcrc : forall t p, crcf P t p < 2 ^ 32.

Local Notation B := (BS P).
Local Notation rframe := (read_frame P vecr (vr_next P) vr_block).
Local Notation gonext := (go_next P vecr (vr_next P) vr_block).
Local Notation rdat := (rd_at P).
Local Notation padof := (pad_of P).
Local Notation chunkof := (chunk_of P).
Local Notation atpos := (at_pos P).
Local Notation sok := (stream_ok P).
Local Notation encrel := (enc_rel P).
Local Notation encsrel := (encs_rel P).
Local Notation fbytes := (frame_bytes P).

(* ---------- block arithmetic ---------- *)
Lemma mulB_le m n : m <= n -> m * B <= n * B.
Proof. intros H. apply N.mul_le_mono_r. exact H. Qed.

Lemma mulB_le_inv m n : m * B <= n * B -> m <= n.
Proof. intros H. apply (N.mul_le_mono_pos_r m n B); [lia | exact H]. Qed.

Lemma mulB_lt_inv m n : m * B < n * B -> m < n.
Proof. intros H. apply (N.mul_lt_mono_pos_r B m n); [lia | exact H]. Qed.

(* a block boundary strictly below (n+1)B is at most nB *)
Lemma blocks_below m n x : m * B <= n * B + x -> x < B -> m * B <= n * B.
Proof.
  intros H Hx. apply mulB_le.
  destruct (N.le_gt_cases m n) as [Hle|Hgt]; [exact Hle|].
  assert (Hn : n + 1 <= m) by lia.
  pose proof (mulB_le _ _ Hn). lia.
Qed.

(* a block boundary strictly above nB is at least (n+1)B *)
Lemma blocks_above m n x : n * B + x <= m * B -> 0 < x -> (n + 1) * B <= m * B.
Proof. apply (blocks_room P HBS_lo HBS_hi). Qed.

Lemma kc_unique k c k' c' : k * B + c = k' * B + c' -> c < B -> c' < B -> k = k' /\ c = c'.
Proof.
  intros H Hc Hc'.
  assert (Hcc : c = c').
  { rewrite <- (mod_kc P HBS_lo HBS_hi k c Hc), <- (mod_kc P HBS_lo HBS_hi k' c' Hc'). now rewrite H. }
  split; [|exact Hcc]. subst c'.
  apply (N.mul_cancel_r k k' B); lia.
Qed.

(* geometry of the position where the frame written at cursor a starts *)
Lemma pad_geom a :
  exists k' c',
    a + lenN (padof a) = k' * B + c' /\ c' + 7 <= B /\
    max_writable P (B - a mod B) = B - c' - 7 /\
    (lenN (padof a) = 0 \/
     (c' = 0 /\ 0 < lenN (padof a) < 7 /\ exists k0, k' = k0 + 1 /\ a = k0 * B + (B - lenN (padof a)))).
Proof.
  pose proof (N.div_mod a B) as Hdm. pose proof (mod_lt_B P HBS_lo HBS_hi a) as Hm.
  rewrite lenN_pad_of, max_writable_eq.
  set (m := a mod B) in *. set (q := a / B) in *. clearbody m q.
  destruct (N.ltb_spec (B - m) 7) as [Hlt|Hge].
  - exists (q + 1), 0. destruct (N.leb_spec 7 (B - m)) as [Hle|_]; [lia|].
    repeat split; try lia. right. repeat split; try lia. exists q. split; lia.
  - exists q, m. destruct (N.leb_spec 7 (B - m)) as [_|Hgt]; [|lia].
    repeat split; lia.
Qed.

(* ---------- reading one frame-sized region ---------- *)
Lemma blk_slice (S : bytes) k c d pre X post :
  S = pre ++ X ++ post -> lenN pre = k * B + c -> c + lenN X = d -> d <= B ->
  sliceN c d (sliceN (k * B) ((k + 1) * B) S) = X.
Proof.
  intros HS Hpre HX Hd. rewrite sliceN_sliceN by lia. rewrite HS.
  apply sliceN_app_mid'; [exact Hpre | lia].
Qed.

Definition rd_of (S : bytes) (k : N) : vecr :=
  mkVecR (dropN ((k + 1) * B) S) (sliceN (k * B) ((k + 1) * B) S).

Lemma rd_at_eq S k c : rdat S k c = mkFR (rd_of S k) c false.
Proof. reflexivity. Qed.

(* header bytes H at (k, c) that are not all zero but whose type byte is 0 *)
Lemma read_frame_badtype S k c pre H post :
  S = pre ++ H ++ post -> lenN pre = k * B + c -> lenN H = 7 -> c + 7 <= B ->
  all_zero H = false -> le_dec (dropN 6 H) = 0 ->
  rframe (rdat S k c) = (mkFR (rd_of S k) c true, FCorrupt).
Proof.
  intros HS Hpre HH Hc Hnz Hty.
  assert (Hhdr : sliceN c (c + 7) (sliceN (k * B) ((k + 1) * B) S) = H).
  { apply (blk_slice S k c (c + 7) pre H post); try assumption; lia. }
  unfold read_frame, StreamProofs.rd_at, HEADER_LEN. cbn [fr_corrupt fr_cursor fr_rd orb vr_block].
  destruct (N.ltb_spec (B - c) 7) as [Hlt|_]; [lia|].
  cbn [fr_corrupt fr_cursor fr_rd orb vr_block].
  rewrite Hhdr, Hnz, Hty. reflexivity.
Qed.

(* a complete header followed by an arbitrary payload pl of the announced length *)
Lemma read_frame_payload S k c pre crc ty pl post :
  S = pre ++ header_bytes crc (lenN pl) ty ++ pl ++ post -> lenN pre = k * B + c ->
  c + 7 + lenN pl <= B -> crc < 2 ^ 32 ->
  rframe (rdat S k c) =
    (rdat S k (c + 7 + lenN pl),
     if crcf P (n2b (ft_code ty)) pl =? crc then FOk ty pl else FCorrupt).
Proof.
  intros HS Hpre Hfit Hcr.
  assert (Hhdr : sliceN c (c + 7) (sliceN (k * B) ((k + 1) * B) S) = header_bytes crc (lenN pl) ty).
  { apply (blk_slice S k c (c + 7) pre _ (pl ++ post)); try assumption; [rewrite lenN_header|]; lia. }
  assert (Hpay : sliceN (c + 7) (c + 7 + lenN pl) (sliceN (k * B) ((k + 1) * B) S) = pl).
  { apply (blk_slice S k (c + 7) (c + 7 + lenN pl) (pre ++ header_bytes crc (lenN pl) ty) pl post).
    - rewrite HS, <- app_assoc. reflexivity.
    - rewrite lenN_app, lenN_header. lia.
    - reflexivity.
    - lia. }
  unfold read_frame, StreamProofs.rd_at, HEADER_LEN. cbn [fr_corrupt fr_cursor fr_rd orb vr_block].
  destruct (N.ltb_spec (B - c) 7) as [Hlt|_]; [lia|].
  cbn [fr_corrupt fr_cursor fr_rd orb vr_block].
  rewrite Hhdr, header_not_zero, header_type, ft_of_code_code.
  rewrite header_len by (change (2 ^ 16) with 65536; lia).
  rewrite header_crc by exact Hcr.
  destruct (N.ltb_spec B (c + 7 + lenN pl)) as [Hlt|_]; [lia|].
  rewrite Hpay.
  destruct (crcf P (n2b (ft_code ty)) pl =? crc); reflexivity.
Qed.

(* after a bad header the reader resumes at the next block *)
Lemma read_frame_corruptflag S k c :
  (k + 2) * B <= lenN S ->
  rframe (mkFR (rd_of S k) c true) = rframe (rdat S (k + 1) 0).
Proof.
  intros Hlen. unfold read_frame, StreamProofs.rd_at, rd_of, HEADER_LEN.
  cbn [fr_corrupt fr_cursor fr_rd orb].
  destruct (N.ltb_spec (B - 0) 7) as [Hlt|_]; [lia|].
  unfold vr_next. cbn [vr_rest vr_block].
  rewrite lenN_dropN.
  destruct (N.ltb_spec (lenN S - (k + 1) * B) B) as [Hlt|_]; [lia|].
  rewrite dropN_dropN.
  replace ((k + 1) * B + B) with ((k + 1 + 1) * B) by lia.
  replace (takeN B (dropN ((k + 1) * B) S)) with (sliceN ((k + 1) * B) ((k + 1 + 1) * B) S)
    by (unfold sliceN; f_equal; lia).
  reflexivity.
Qed.

(* ---------- normalised positions ---------- *)
(* the reader is at absolute position r, with room for a header in the current block *)
Definition at_posn (S : bytes) (fr : freader vecr) (r : N) : Prop :=
  exists k c, r = k * B + c /\ c + 7 <= B /\ (k + 1) * B <= lenN S /\ fr = rdat S k c.

(* the next read_frame of fr behaves as that of a reader at position r *)
Definition reads_at (S : bytes) (fr : freader vecr) (r : N) : Prop :=
  exists fr0, at_posn S fr0 r /\ rframe fr = rframe fr0.

Lemma at_posn_at_pos S fr r : at_posn S fr r -> atpos S fr r.
Proof. intros (k & c & Hr & Hc & Hb & Hfr). exists k, c. repeat split; try assumption; lia. Qed.

Lemma at_posn_reads_at S fr r : at_posn S fr r -> reads_at S fr r.
Proof. intros H. exists fr. split; [exact H | reflexivity]. Qed.

Lemma block_exists S k c x : sok S -> k * B + c + x <= lenN S -> 0 < x -> (k + 1) * B <= lenN S.
Proof.
  intros [m Hm] H Hx. rewrite Hm in *. apply (blocks_above m k (c + x)); lia.
Qed.

(* the reader at a reads like a reader at the start of the frame written at cursor a *)
Lemma at_pos_pad S fr a k' c' :
  sok S -> atpos S fr a ->
  a + lenN (padof a) = k' * B + c' -> c' + 7 <= B -> (k' + 1) * B <= lenN S ->
  rframe fr = rframe (rdat S k' c').
Proof.
  intros Hok (k & c & Ha & Hc & Hblk & Hfr) Ha' Hc' Hblk'. subst fr.
  rewrite lenN_pad_of in Ha'.
  destruct (N.ltb_spec (B - c) 7) as [Hskip|Hno].
  - assert (Hnext : a + (if B - a mod B <? 7 then B - a mod B else 0) = (k + 1) * B + 0).
    { destruct (N.eq_dec c B) as [E|E].
      - assert (Hmod : a mod B = 0) by (rewrite Ha, E; apply (mod_kB P HBS_lo HBS_hi)).
        rewrite Hmod. destruct (N.ltb_spec (B - 0) 7) as [Hlt|_]; lia.
      - assert (Hmod : a mod B = c) by (rewrite Ha; apply (mod_kc P HBS_lo HBS_hi); lia).
        rewrite Hmod. destruct (N.ltb_spec (B - c) 7) as [_|Hge]; lia. }
    rewrite Hnext in Ha'.
    destruct (kc_unique _ _ _ _ Ha') as [Hk Hcc]; [lia | lia |]. subst k' c'.
    apply (read_frame_skip P HBS_lo HBS_hi Hcrc); [exact Hskip | lia].
  - assert (Hmod : a mod B = c) by (rewrite Ha; apply (mod_kc P HBS_lo HBS_hi); lia).
    rewrite Hmod in Ha'. destruct (N.ltb_spec (B - c) 7) as [Hlt|_]; [lia|].
    rewrite Ha, N.add_0_r in Ha'.
    destruct (kc_unique _ _ _ _ Ha') as [Hk Hcc]; [lia | lia |]. subst k' c'. reflexivity.
Qed.

(* a reader just after a frame ending at (k, c): normalise to r *)
Lemma reads_at_after S k c r :
  sok S -> c <= B ->
  (r = k * B + c /\ c + 7 <= B) \/ (r = (k + 1) * B /\ B < c + 7) ->
  r + 7 <= lenN S ->
  reads_at S (rdat S k c) r.
Proof.
  intros Hok Hc [[-> Hle] | [-> Hgt]] Hr.
  - apply at_posn_reads_at. exists k, c. repeat split; try lia.
    apply (block_exists S k c 7 Hok); lia.
  - exists (rdat S (k + 1) 0). split.
    + exists (k + 1), 0. repeat split; try lia.
      apply (block_exists S (k + 1) 0 7 Hok); lia.
    + apply (read_frame_skip P HBS_lo HBS_hi Hcrc); [lia|].
      replace ((k + 2) * B) with ((k + 1 + 1) * B) by lia.
      apply (block_exists S (k + 1) 0 7 Hok); lia.
Qed.

(* ---------- a torn frame ---------- *)
(* the CRC of a frame payload coincides with that of one of its proper zero-completed prefixes.
   Frame payloads have at most B - 7 bytes; the bound matters: without it no_zero_collision
   below would contradict Hcrc by pigeonhole (see NzcVacuous.v) *)
Definition crc_collision : Prop :=
  exists ty fp n, lenN fp + 7 <= B /\ n < lenN fp /\
    takeN n fp ++ zerosN (lenN fp - n) <> fp /\
    crcf P ty (takeN n fp ++ zerosN (lenN fp - n)) = crcf P ty fp.

Lemma pad_all_zero a : all_zero (padof a) = true.
Proof. unfold pad_of. destruct (B - a mod B <? 7); [apply all_zero_zerosN | reflexivity]. Qed.

Lemma torn_frame a ty fp j :
  lenN fp <= max_writable P (B - a mod B) ->
  j < lenN (padof a ++ fbytes ty fp) ->
  exists r W,
    a <= r /\ lenN W = r - a /\
    (forall z, r <= a + j + z ->
       takeN j (padof a ++ fbytes ty fp) ++ zerosN z = W ++ zerosN (a + j + z - r)) /\
    (forall m, a + j <= m * B -> r <= m * B) /\
    (forall m, m * B <= a + j -> m * B <= r) /\
    forall S pre post fr,
      sok S -> atpos S fr a -> S = pre ++ W ++ post -> lenN pre = a -> r + 7 <= lenN S ->
      reads_at S fr r
      \/ (exists fr', rframe fr = (fr', FCorrupt) /\ reads_at S fr' r /\ a + 7 <= r)
      \/ (exists fr' fp', rframe fr = (fr', FOk ty fp') /\ reads_at S fr' r /\ a + 7 + lenN fp <= r /\
            ((fp' = fp /\ all_zero (dropN j (padof a ++ fbytes ty fp)) = true)
             \/ (fp' <> fp /\ crc_collision))).
Proof.
  intros Hfp Hj.
  destruct (pad_geom a) as (k' & c' & Ha' & Hc' & Hmw & Hpadcase).
  rewrite Hmw in Hfp. clear Hmw.
  pose proof (pad_all_zero a) as Hpadz.
  set (pad := padof a) in *. set (lp := lenN pad) in *.
  unfold frame_bytes in *.
  set (tyb := n2b (ft_code ty)) in *.
  set (crc := crcf P tyb fp) in *.
  set (hb := header_bytes crc (lenN fp) ty) in *.
  assert (Hlhb : lenN hb = 7) by apply lenN_header.
  set (L := lenN fp) in *.
  assert (Hjlen : j < lp + (7 + L)).
  { rewrite !lenN_app, Hlhb in Hj. fold lp L in Hj. exact Hj. }
  destruct (all_zero (takeN j (pad ++ hb ++ fp))) eqn:Hz.
  - (* everything present is zero: invisible *)
    exists (a + lp), pad.
    split; [lia|]. split; [fold lp; lia|]. split.
    { intros z Hr.
      rewrite (zeros_merge _ z (j + z) Hz), (zeros_merge pad _ (j + z) Hpadz); [reflexivity| |].
      - fold lp. lia.
      - rewrite lenN_takeN, !lenN_app, Hlhb. fold lp L. lia. }
    split.
    { intros m Hm. destruct Hpadcase as [H0 | (Hc0 & Hlp & k0 & Hk' & Ha0)]; [lia|].
      rewrite Ha'. subst c' k'. rewrite N.add_0_r.
      apply (blocks_above m k0 (B - lp + j)); lia. }
    split.
    { intros m Hm. destruct (N.le_gt_cases j lp) as [Hle|Hgt]; [lia|].
      assert (Hq : j - lp < 7).
      { destruct (N.lt_ge_cases (j - lp) 7) as [Hlt|Hge]; [exact Hlt|]. exfalso.
        rewrite takeN_app_ge in Hz by (fold lp; lia). fold lp in Hz.
        apply all_zero_app_inv in Hz as [_ Hz].
        rewrite takeN_app_ge in Hz by lia.
        apply all_zero_app_inv in Hz as [Hz _].
        unfold hb in Hz. rewrite header_not_zero in Hz. discriminate. }
      rewrite Ha'. apply N.le_trans with (k' * B); [|lia].
      apply (blocks_below m k' (c' + (j - lp))); lia. }
    intros S pre post fr Hok Hat HS Hpre Hr. left.
    assert (Hblk : (k' + 1) * B <= lenN S) by (apply (block_exists S k' c' 7 Hok); lia).
    exists (rdat S k' c'). split.
    + exists k', c'. repeat split; try assumption.
    + apply (at_pos_pad S fr a k' c' Hok Hat Ha' Hc' Hblk).
  - (* some nonzero byte of the frame is present *)
    assert (Hjl : lp < j).
    { destruct (N.le_gt_cases j lp) as [Hle|Hgt]; [|exact Hgt]. exfalso.
      rewrite takeN_app_le in Hz by (fold lp; exact Hle).
      rewrite (all_zero_takeN j pad Hpadz) in Hz. discriminate. }
    set (q := j - lp).
    assert (Htk : takeN j (pad ++ hb ++ fp) = pad ++ takeN q (hb ++ fp)).
    { rewrite takeN_app_ge by (fold lp; lia). reflexivity. }
    assert (Hqnz : all_zero (takeN q (hb ++ fp)) = false).
    { rewrite Htk, all_zero_app, Hpadz in Hz. exact Hz. }
    destruct (N.lt_ge_cases q 7) as [Hq7|Hq7].
    + (* cut inside the header: the type byte reads 0 *)
      assert (Htq : takeN q (hb ++ fp) = takeN q hb) by (apply takeN_app_le; lia).
      rewrite Htq in Hqnz.
      exists ((k' + 1) * B), (pad ++ takeN q hb ++ zerosN (B - c' - q)).
      split; [lia|]. split.
      { rewrite !lenN_app, lenN_takeN, lenN_zerosN, Hlhb. fold lp. lia. }
      split.
      { intros z Hr. rewrite Htk, Htq, <- !app_assoc, zerosN_app.
        do 3 f_equal. lia. }
      split.
      { intros m Hm. apply (blocks_above m k' (c' + q)); lia. }
      split.
      { intros m Hm. lia. }
      intros S pre post fr Hok Hat HS Hpre Hr. right. left.
      assert (Hblk : (k' + 1) * B <= lenN S) by lia.
      assert (Hblk2 : (k' + 2) * B <= lenN S).
      { replace ((k' + 2) * B) with ((k' + 1 + 1) * B) by lia.
        apply (block_exists S (k' + 1) 0 7 Hok); lia. }
      set (H := takeN q hb ++ zerosN (7 - q)).
      assert (HS' : S = (pre ++ pad) ++ H ++ (zerosN (B - c' - 7) ++ post)).
      { rewrite HS. unfold H. rewrite (zerosN_split (B - c' - q) (7 - q)) by lia.
        replace (B - c' - q - (7 - q)) with (B - c' - 7) by lia.
        rewrite <- !app_assoc. reflexivity. }
      assert (Hrf : rframe (rdat S k' c') = (mkFR (rd_of S k') c' true, FCorrupt)).
      { apply (read_frame_badtype S k' c' (pre ++ pad) H _ HS').
        - rewrite lenN_app. fold lp. lia.
        - unfold H. rewrite lenN_app, lenN_takeN, lenN_zerosN, Hlhb. lia.
        - exact Hc'.
        - unfold H. rewrite all_zero_app, Hqnz. reflexivity.
        - unfold H, hb. apply torn_header_type. exact Hq7. }
      exists (mkFR (rd_of S k') c' true). split.
      { rewrite (at_pos_pad S fr a k' c' Hok Hat Ha' Hc' Hblk). exact Hrf. }
      split; [|lia].
      exists (rdat S (k' + 1) 0). split.
      * exists (k' + 1), 0. repeat split; lia.
      * apply read_frame_corruptflag. exact Hblk2.
    + (* the header is complete, the payload is cut *)
      set (n := q - 7).
      assert (Hn : n < L) by lia.
      assert (Htq : takeN q (hb ++ fp) = hb ++ takeN n fp).
      { rewrite takeN_app_ge by lia. rewrite Hlhb. reflexivity. }
      set (pl := takeN n fp ++ zerosN (L - n)).
      assert (Hlpl : lenN pl = L).
      { unfold pl. rewrite lenN_app, lenN_takeN, lenN_zerosN. fold L. lia. }
      assert (Hrex : exists r, (r = k' * B + (c' + 7 + L) /\ c' + 7 + L + 7 <= B)
                            \/ (r = (k' + 1) * B /\ B < c' + 7 + L + 7)).
      { destruct (N.le_gt_cases (c' + 7 + L + 7) B) as [Hle|Hgt].
        - exists (k' * B + (c' + 7 + L)). left. split; [reflexivity | exact Hle].
        - exists ((k' + 1) * B). right. split; [reflexivity | exact Hgt]. }
      destruct Hrex as [r Hrc].
      assert (Hr0 : a + lp + 7 + L <= r /\ r <= (k' + 1) * B) by lia.
      exists r, (pad ++ hb ++ pl ++ zerosN (r - (a + lp + 7 + L))).
      split; [lia|]. split.
      { rewrite !lenN_app, Hlpl, lenN_zerosN, Hlhb. fold lp. lia. }
      split.
      { intros z Hr. rewrite Htk, Htq. unfold pl. rewrite <- !app_assoc, !zerosN_app.
        do 4 f_equal. lia. }
      split.
      { intros m Hm. apply N.le_trans with ((k' + 1) * B); [lia|].
        apply (blocks_above m k' (c' + q)); lia. }
      split.
      { intros m Hm. lia. }
      intros S pre post fr Hok Hat HS Hpre Hr.
      assert (Hblk : (k' + 1) * B <= lenN S).
      { apply (block_exists S k' c' 7 Hok); lia. }
      assert (HS' : S = (pre ++ pad) ++ header_bytes crc (lenN pl) ty ++ pl ++
                        (zerosN (r - (a + lp + 7 + L)) ++ post)).
      { rewrite HS, Hlpl. fold hb. rewrite <- !app_assoc. reflexivity. }
      assert (Hrf : rframe (rdat S k' c') =
                (rdat S k' (c' + 7 + L), if crcf P tyb pl =? crc then FOk ty pl else FCorrupt)).
      { rewrite <- Hlpl at 1.
        apply (read_frame_payload S k' c' (pre ++ pad) crc ty pl _ HS').
        - rewrite lenN_app. fold lp. lia.
        - lia.
        - apply Hcrc. }
      assert (Hreads : reads_at S (rdat S k' (c' + 7 + L)) r).
      { apply reads_at_after; [exact Hok | lia | | exact Hr].
        destruct Hrc as [[-> Hle] | [-> Hgt]]; [left | right]; split; lia. }
      rewrite <- (at_pos_pad S fr a k' c' Hok Hat Ha' Hc' Hblk) in Hrf.
      destruct (N.eqb_spec (crcf P tyb pl) crc) as [Heq|Hne].
      * right. right. exists (rdat S k' (c' + 7 + L)), pl.
        split; [exact Hrf|]. split; [exact Hreads|]. split; [lia|].
        destruct (bytes_eqb pl fp) eqn:E.
        -- apply bytes_eqb_eq in E. left. split; [exact E|].
           rewrite dropN_app_ge by (fold lp; lia). fold lp. fold q.
           rewrite dropN_app_ge by lia. rewrite Hlhb. fold n.
           assert (E' : takeN n fp ++ zerosN (L - n) = takeN n fp ++ dropN n fp)
             by (rewrite takeN_dropN; exact E).
           apply app_inv_head in E'. rewrite <- E'. apply all_zero_zerosN.
        -- apply bytes_eqb_neq in E. right. split; [exact E|].
           exists tyb, fp, n. fold L. fold pl. fold crc.
           split; [lia|]. repeat split; assumption.
      * right. left. exists (rdat S k' (c' + 7 + L)).
        split; [exact Hrf|]. split; [exact Hreads | lia].
Qed.

(* ---------- a torn record ---------- *)
(* what the record reader does on the torn encoding, up to (excluding) its read at r *)
Definition walk_out (S : bytes) (a r : N) (f : bool) (p e : bytes) (j : N)
    (fr : freader vecr) (rbuf : bytes) (within : bool) : Prop :=
  exists n rr1,
    7 * N.of_nat n <= r - a /\ reads_at S (rr_fr rr1) r /\
    ( (* complete frames of the record are consumed silently *)
      (forall fuel', gonext (n + fuel') (mkRR fr rbuf within) = gonext fuel' rr1)
      \/ (* ... then the torn frame is reported corrupt *)
      (7 * N.of_nat n + 7 <= r - a /\
       forall fuel', gonext (n + Datatypes.S fuel') (mkRR fr rbuf within) = (rr1, RCorrupt))
      \/ (* ... then the last frame is accepted *)
      (7 * N.of_nat n + 7 <= r - a /\
       exists p', rr_buf rr1 = (if f then [] else rbuf) ++ p' /\
         (forall fuel', gonext (n + Datatypes.S fuel') (mkRR fr rbuf within) = (rr1, RRecord)) /\
         ((p' = p /\ all_zero (dropN j e) = true) \/ (p' <> p /\ crc_collision)))).

Lemma torn_walk a f p e k :
  encrel a f p e k -> forall j, j < lenN e ->
  exists r W,
    a <= r /\ lenN W = r - a /\
    (forall z, r <= a + j + z -> takeN j e ++ zerosN z = W ++ zerosN (a + j + z - r)) /\
    (forall m, a + j <= m * B -> r <= m * B) /\
    (forall m, m * B <= a + j -> m * B <= r) /\
    forall S pre post fr rbuf within,
      sok S -> atpos S fr a -> S = pre ++ W ++ post -> lenN pre = a -> r + 7 <= lenN S ->
      (f = true \/ within = true) ->
      walk_out S a r f p e j fr rbuf within.
Proof.
  induction 1 as [a f p Hd | a f p e k Hd Hr IH]; intros j Hj.
  - (* the torn frame is the last one of the record *)
    set (fp := takeN (chunkof a p) p) in *.
    assert (Hpfp : fp = p).
    { pose proof (takeN_dropN (chunkof a p) p) as Htd. rewrite Hd, app_nil_r in Htd. exact Htd. }
    destruct (torn_frame a (frame_type f true) fp j
                (chunk_le_maxw P HBS_lo HBS_hi Hcrc a p) Hj)
      as (r & W & Har & HlW & Hspec & Hup & Hlo & Hrd).
    exists r, W. split; [exact Har|]. split; [exact HlW|]. split; [exact Hspec|].
    split; [exact Hup|]. split; [exact Hlo|].
    intros S pre post fr rbuf within Hok Hat HS Hpre Hrlen Hfw.
    assert (Hw : (if f then true else within) = true)
      by (destruct f; [reflexivity | destruct Hfw as [Hf|Hw]; [discriminate|exact Hw]]).
    destruct (Hrd S pre post fr Hok Hat HS Hpre Hrlen)
      as [HA | [(fr' & Hrf & Hra & Hge) | (fr' & fp' & Hrf & Hra & Hge & Hcase)]].
    + exists 0%nat, (mkRR fr rbuf within). split; [lia|]. split; [exact HA|].
      left. intros fuel'. reflexivity.
    + exists 0%nat, (mkRR fr' rbuf false). split; [lia|]. split; [exact Hra|].
      right. left. split; [lia|]. intros fuel'.
      cbn [Nat.add go_next rr_fr rr_buf rr_within]. rewrite Hrf. reflexivity.
    + exists 0%nat, (mkRR fr' ((if f then [] else rbuf) ++ fp') false).
      split; [lia|]. split; [exact Hra|].
      right. right. split; [lia|]. exists fp'. split; [reflexivity|]. split.
      * intros fuel'. cbn [Nat.add go_next rr_fr rr_buf rr_within]. rewrite Hrf.
        rewrite is_first_frame_type, is_last_frame_type, Hw. reflexivity.
      * rewrite <- Hpfp. exact Hcase.
  - (* at least one more frame follows *)
    set (fp := takeN (chunkof a p) p) in *.
    set (fb := fbytes (frame_type f false) fp) in *.
    assert (Hlfp : lenN fp = chunkof a p) by apply (lenN_take_chunk P HBS_lo HBS_hi Hcrc).
    assert (Hl1 : lenN (padof a ++ fb) = lenN (padof a) + 7 + chunkof a p).
    { unfold fb. rewrite lenN_app, (lenN_frame_bytes P), Hlfp. lia. }
    destruct (N.lt_ge_cases j (lenN (padof a ++ fb))) as [Hcut|Hcut].
    + (* the cut is in this frame *)
      destruct (torn_frame a (frame_type f false) fp j
                  (chunk_le_maxw P HBS_lo HBS_hi Hcrc a p) Hcut)
        as (r & W & Har & HlW & Hspec & Hup & Hlo & Hrd).
      fold fb in Hspec, Hrd.
      exists r, W. split; [exact Har|]. split; [exact HlW|]. split.
      { intros z Hz. rewrite app_assoc, takeN_app_le by lia. apply Hspec. exact Hz. }
      split; [exact Hup|]. split; [exact Hlo|].
      intros S pre post fr rbuf within Hok Hat HS Hpre Hrlen Hfw.
      assert (Hw : (if f then true else within) = true)
        by (destruct f; [reflexivity | destruct Hfw as [Hf|Hw]; [discriminate|exact Hw]]).
      destruct (Hrd S pre post fr Hok Hat HS Hpre Hrlen)
        as [HA | [(fr' & Hrf & Hra & Hge) | (fr' & fp' & Hrf & Hra & Hge & Hcase)]].
      * exists 0%nat, (mkRR fr rbuf within). split; [lia|]. split; [exact HA|].
        left. intros fuel'. reflexivity.
      * exists 0%nat, (mkRR fr' rbuf false). split; [lia|]. split; [exact Hra|].
        right. left. split; [lia|]. intros fuel'.
        cbn [Nat.add go_next rr_fr rr_buf rr_within]. rewrite Hrf. reflexivity.
      * exists 1%nat, (mkRR fr' ((if f then [] else rbuf) ++ fp') true).
        split; [lia|]. split; [exact Hra|].
        left. intros fuel'. cbn [Nat.add go_next rr_fr rr_buf rr_within]. rewrite Hrf.
        rewrite is_first_frame_type, is_last_frame_type, Hw. reflexivity.
    + (* this frame is complete *)
      set (l1 := lenN (padof a ++ fb)) in *.
      assert (Hj1 : j - l1 < lenN e).
      { rewrite app_assoc, lenN_app in Hj. fold l1 in Hj. lia. }
      destruct (IH (j - l1) Hj1) as (r & W & Har & HlW & Hspec & Hup & Hlo & Hrd).
      set (a1 := a + lenN (padof a) + 7 + chunkof a p) in *.
      assert (Ha1 : a1 = a + l1) by lia.
      exists r, (padof a ++ fb ++ W).
      split; [lia|]. split.
      { rewrite app_assoc, lenN_app. fold l1. lia. }
      split.
      { intros z Hz. rewrite (app_assoc (padof a) fb e), takeN_app_ge by (fold l1; lia).
        fold l1. rewrite <- !app_assoc. do 2 f_equal.
        replace (a + j + z - r) with (a1 + (j - l1) + z - r) by lia.
        apply Hspec. lia. }
      split.
      { intros m Hm. apply Hup. lia. }
      split.
      { intros m Hm. apply Hlo. lia. }
      intros S pre post fr rbuf within Hok Hat HS Hpre Hrlen Hfw.
      assert (Hw : (if f then true else within) = true)
        by (destruct f; [reflexivity | destruct Hfw as [Hf|Hw]; [discriminate|exact Hw]]).
      rewrite <- !app_assoc in HS.
      destruct (read_frame_at P HBS_lo HBS_hi Hcrc S fr a pre _ _ (W ++ post) Hok Hat HS Hpre
                  (chunk_le_maxw P HBS_lo HBS_hi Hcrc a p)) as (fr' & Hrf & Hat').
      fold fp in Hrf, Hat'. rewrite Hlfp in Hat'. fold a1 in Hat'.
      destruct (Hrd S (pre ++ padof a ++ fb) post fr'
                  ((if f then [] else rbuf) ++ fp) true Hok Hat')
        as (n & rr1 & Hn & Hra & Hout).
      { rewrite HS, <- !app_assoc. reflexivity. }
      { rewrite lenN_app. fold l1. lia. }
      { exact Hrlen. }
      { right. reflexivity. }
      assert (Hstep : forall g, gonext (Datatypes.S n + g) (mkRR fr rbuf within) =
                                gonext (n + g) (mkRR fr' ((if f then [] else rbuf) ++ fp) true)).
      { intros g. cbn [Nat.add go_next rr_fr rr_buf rr_within]. rewrite Hrf.
        rewrite is_first_frame_type, is_last_frame_type, Hw. reflexivity. }
      exists (Datatypes.S n), rr1. split; [lia|]. split; [exact Hra|].
      destruct Hout as [Hsil | [[Hn7 Hcor] | (Hn7 & p' & Hbuf & Hrec & Hcase)]].
      * left. intros fuel'. rewrite Hstep. apply Hsil.
      * right. left. split; [lia|]. intros fuel'. rewrite Hstep. apply Hcor.
      * right. right. split; [lia|]. exists (fp ++ p'). split.
        { rewrite Hbuf. cbn match. rewrite <- app_assoc. reflexivity. }
        split.
        { intros fuel'. rewrite Hstep. apply Hrec. }
        destruct Hcase as [[Hp' Hz] | [Hp' Hcol]].
        -- left. split.
           ++ rewrite Hp'. apply takeN_dropN.
           ++ rewrite (app_assoc (padof a) fb e), dropN_app_ge by (fold l1; lia). exact Hz.
        -- right. split; [|exact Hcol]. intros E. apply Hp'.
           rewrite <- (takeN_dropN (chunkof a p) p) in E. fold fp in E.
           apply app_inv_head in E. exact E.
Qed.

(* ---------- the read loop, also returning the final reader ---------- *)
Fixpoint mem_read_fin (fuel gofuel : nat) (rr : rreader vecr) : list mem_read * rreader vecr :=
  match fuel with
  | O => ([MrFuel], rr)
  | Datatypes.S fuel' =>
      match gonext gofuel rr with
      | (rr', RRecord) =>
          let res := mem_read_fin fuel' gofuel rr' in (MrEntry (rr_buf rr') :: fst res, snd res)
      | (rr', RCorrupt) =>
          let res := mem_read_fin fuel' gofuel rr' in (MrCorrupt :: fst res, snd res)
      | (rr', REnd) => ([MrEnd], rr')
      | (rr', RIo _) => ([MrEnd], rr')
      | (rr', RFuel) => ([MrFuel], rr')
      end
  end.

Lemma mem_read_fin_fst fuel gofuel : forall rr,
  fst (mem_read_fin fuel gofuel rr) = mem_read_all P fuel gofuel rr.
Proof.
  induction fuel as [|fuel IH]; intros rr; [reflexivity|].
  cbn [mem_read_fin mem_read_all].
  destruct (gonext gofuel rr) as [rr' [| | | |]]; cbn [fst]; try reflexivity.
  - now rewrite IH.
  - now rewrite IH.
Qed.

Definition rr_start (S : bytes) : rreader vecr :=
  rr_open vecr (mkVecR (dropN B S) (takeN B S)).

Lemma rr_start_at S : B <= lenN S -> atpos S (rr_fr (rr_start S)) 0.
Proof.
  intros H. exists 0, 0. repeat split; try lia.
  unfold rr_start, rr_open, fr_open, StreamProofs.rd_at. cbn [rr_fr]. unfold sliceN.
  replace ((0 + 1) * B) with B by lia. replace (0 * B) with 0 by lia.
  rewrite dropN_0, N.sub_0_r. reflexivity.
Qed.

Lemma gonext_cong fuel fr fr0 b w :
  rframe fr = rframe fr0 ->
  gonext (Datatypes.S fuel) (mkRR fr b w) = gonext (Datatypes.S fuel) (mkRR fr0 b w).
Proof.
  intros H. cbn [go_next rr_fr rr_buf rr_within]. rewrite H. reflexivity.
Qed.

Lemma at_pos_unique S fr r1 r2 : atpos S fr r1 -> atpos S fr r2 -> r1 = r2.
Proof.
  intros (k1 & c1 & H1 & Hc1 & Hb1 & Hf1) (k2 & c2 & H2 & Hc2 & Hb2 & Hf2).
  rewrite Hf1 in Hf2. unfold StreamProofs.rd_at in Hf2. inversion Hf2 as [[Hrest Hblk Hc]].
  assert (Hl : lenN (dropN ((k1 + 1) * B) S) = lenN (dropN ((k2 + 1) * B) S)) by now rewrite Hrest.
  rewrite !lenN_dropN in Hl.
  assert (Hk : (k1 + 1) * B = (k2 + 1) * B) by lia.
  apply N.mul_cancel_r in Hk; [|lia]. subst. f_equal. f_equal. lia.
Qed.

(* the entries written before the torn one, for the loop that returns its final reader *)
Lemma read_all_entries_fin a es t :
  encsrel a es t ->
  forall S pre post rr gofuel fuel2,
    sok S -> atpos S (rr_fr rr) a -> S = pre ++ t ++ post -> lenN pre = a ->
    lenN t <= 7 * N.of_nat gofuel ->
    exists rr',
      atpos S (rr_fr rr') (a + lenN t) /\
      mem_read_fin (length es + fuel2) gofuel rr =
        (map MrEntry es ++ fst (mem_read_fin fuel2 gofuel rr'), snd (mem_read_fin fuel2 gofuel rr')).
Proof.
  induction 1 as [a | a p ps e k t He Hes IH];
    intros S pre post rr gofuel fuel2 Hok Hat HS Hpre Hgf.
  - exists rr. rewrite (@lenN_nil byte), N.add_0_r. split; [exact Hat|].
    cbn [length Nat.add map app]. now destruct (mem_read_fin fuel2 gofuel rr).
  - destruct rr as [fr rbuf within]. cbn [rr_fr] in Hat.
    rewrite <- app_assoc in HS. rewrite lenN_app in Hgf.
    pose proof (enc_rel_frames P HBS_lo HBS_hi Hcrc _ _ _ _ _ He) as [Hk _].
    destruct (go_next_record P HBS_lo HBS_hi Hcrc a true p e k He S pre (t ++ post) fr rbuf within
                gofuel Hok Hat HS Hpre) as (fr' & Hgo & Hat'); [left; reflexivity | lia |].
    destruct (IH S (pre ++ e) post (mkRR fr' ([] ++ p) false) gofuel fuel2) as (rr' & Hat'' & Hrd).
    + exact Hok.
    + exact Hat'.
    + rewrite HS, <- app_assoc. reflexivity.
    + rewrite lenN_app. lia.
    + lia.
    + exists rr'. split.
      * rewrite lenN_app. replace (a + (lenN e + lenN t)) with (a + lenN e + lenN t) by lia.
        exact Hat''.
      * cbn [length Nat.add mem_read_fin map app]. rewrite Hgo. cbn [rr_buf].
        rewrite Hrd. reflexivity.
Qed.

(* at a position from which everything is zero, the reader reports the end and stays there *)
Lemma go_next_end S pre z rr r g :
  S = pre ++ zerosN z -> lenN pre <= r -> reads_at S (rr_fr rr) r ->
  exists fr0, at_posn S fr0 r /\
    gonext (Datatypes.S g) rr = (mkRR fr0 (rr_buf rr) (rr_within rr), REnd).
Proof.
  intros HS Hpre (fr0 & Hat & Hrf). exists fr0. split; [exact Hat|].
  destruct Hat as (k & c & Hr & Hc & Hblk & Hfr0).
  cbn [go_next]. rewrite Hrf, Hfr0.
  rewrite (read_frame_zero P HBS_lo HBS_hi Hcrc); [reflexivity | lia |].
  rewrite sliceN_sliceN by lia. rewrite HS. apply slice_zero. lia.
Qed.

(* ---------- what is read from the resume position r on ---------- *)
Lemma read_tail S r es2 t2 pre z nb gofuel :
  encsrel r es2 t2 -> S = pre ++ t2 ++ zerosN z -> lenN pre = r ->
  lenN S = (nb + 1) * B -> r + lenN t2 <= nb * B -> lenN t2 <= 7 * N.of_nat gofuel ->
  forall rr1 g rr fuel,
    reads_at S (rr_fr rr1) r -> gonext gofuel rr = gonext g rr1 ->
    lenN t2 + 7 <= 7 * N.of_nat g -> (length es2 + 1 <= fuel)%nat ->
    exists rrf, mem_read_fin fuel gofuel rr = (map MrEntry es2 ++ [MrEnd], rrf) /\
                (es2 = [] -> at_posn S (rr_fr rrf) r).
Proof.
  intros Hes2 HS Hpre HlenS Hnb Hgf rr1 g rr fuel Hra Hgo Hg Hfuel.
  assert (Hok : sok S) by (exists (nb + 1); exact HlenS).
  destruct fuel as [|fuel]; [lia|].
  destruct g as [|g]; [lia|].
  cbn [mem_read_fin]. rewrite Hgo.
  inversion Hes2 as [a0 Ha0 Hnil Ht2 | a0 p2 ps e2 k2 t2' He2 Hps Ha0 Hcons Ht2];
    subst a0 es2 t2 r.
  - (* nothing appended: end of the log *)
    cbn [app] in HS.
    destruct (go_next_end S pre z rr1 (lenN pre) g HS (N.le_refl _) Hra) as (fr0 & Hat0 & Hend).
    rewrite Hend. eexists. split; [reflexivity|]. intros _. exact Hat0.
  - destruct Hra as (fr0 & Hat0 & Hrf).
    destruct rr1 as [fr1 rbuf1 within1]. cbn [rr_fr] in Hrf.
    rewrite (gonext_cong g fr1 fr0 rbuf1 within1 Hrf).
    rewrite <- !app_assoc in HS. rewrite lenN_app in *.
    pose proof (enc_rel_frames P HBS_lo HBS_hi Hcrc _ _ _ _ _ He2) as [Hk2 Hk2'].
    destruct (go_next_record P HBS_lo HBS_hi Hcrc (lenN pre) true p2 e2 k2 He2 S pre
                (t2' ++ zerosN z) fr0 rbuf1 within1 (Datatypes.S g) Hok
                (at_posn_at_pos S fr0 _ Hat0) HS eq_refl)
      as (fr' & Hgo' & Hat'); [left; reflexivity | lia |].
    rewrite Hgo'. cbn [rr_buf app].
    cbn [length] in Hfuel.
    replace fuel with (length ps + Datatypes.S (fuel - length ps - 1))%nat by lia.
    destruct (read_all_entries_fin (lenN pre + lenN e2) ps t2' Hps S (pre ++ e2) (zerosN z)
                (mkRR fr' p2 false) gofuel (Datatypes.S (fuel - length ps - 1)) Hok Hat')
      as (rr' & Hat'' & Hrd).
    { rewrite HS, <- app_assoc. reflexivity. }
    { rewrite lenN_app. reflexivity. }
    { lia. }
    rewrite Hrd.
    destruct (read_frame_end P HBS_lo HBS_hi Hcrc S (pre ++ e2 ++ t2') z nb (rr_fr rr'))
      as (fr'' & Hrf'').
    { rewrite HS, <- !app_assoc. reflexivity. }
    { exact HlenS. }
    { rewrite !lenN_app. lia. }
    { rewrite !lenN_app. replace (lenN pre + (lenN e2 + lenN t2')) with (lenN pre + lenN e2 + lenN t2') by lia.
      exact Hat''. }
    assert (Hgf1 : exists g1, gofuel = Datatypes.S g1) by (destruct gofuel; [lia | eauto]).
    destruct Hgf1 as [g1 ->].
    cbn [mem_read_fin go_next]. rewrite Hrf''. cbn [fst snd map].
    eexists. split; [|discriminate].
    reflexivity.
Qed.

(* the possible traces of the torn entry x itself *)
Definition corr_ok (x e : bytes) (j : N) (corr : list mem_read) : Prop :=
  corr = []
  \/ corr = [MrCorrupt]
  \/ (corr = [MrEntry x] /\ all_zero (dropN j e) = true)
  \/ (exists y, corr = [MrEntry y] /\ y <> x /\ crc_collision).

Lemma after_walk S a r x e j fr rbuf within gofuel (es2 : list bytes) (Q : rreader vecr -> Prop) c fuel :
  walk_out S a r true x e j fr rbuf within ->
  (forall rr1 g rr fuel,
     reads_at S (rr_fr rr1) r -> gonext gofuel rr = gonext g rr1 ->
     c + 7 <= 7 * N.of_nat g -> (length es2 + 1 <= fuel)%nat ->
     exists rrf, mem_read_fin fuel gofuel rr = (map MrEntry es2 ++ [MrEnd], rrf) /\ Q rrf) ->
  (r - a) + 7 + c <= 7 * N.of_nat gofuel -> (length es2 + 2 <= fuel)%nat ->
  exists corr rrf,
    mem_read_fin fuel gofuel (mkRR fr rbuf within) = (corr ++ map MrEntry es2 ++ [MrEnd], rrf) /\
    Q rrf /\ corr_ok x e j corr.
Proof.
  intros (n & rr1 & Hn & Hra & Hout) Htail Hgf Hfuel.
  destruct Hout as [Hsil | [[Hn7 Hcor] | (Hn7 & p' & Hbuf & Hrec & Hcase)]].
  - destruct (Htail rr1 (gofuel - n)%nat (mkRR fr rbuf within) fuel Hra) as (rrf & Hrd & HQ).
    + rewrite <- Hsil. f_equal. lia.
    + lia.
    + lia.
    + exists [], rrf. split; [exact Hrd|]. split; [exact HQ|]. left. reflexivity.
  - assert (Hg : gonext gofuel (mkRR fr rbuf within) = (rr1, RCorrupt)).
    { rewrite <- (Hcor (gofuel - n - 1)%nat). f_equal. lia. }
    destruct fuel as [|fuel]; [lia|].
    destruct (Htail rr1 gofuel rr1 fuel Hra eq_refl) as (rrf & Hrd & HQ); [lia | lia |].
    exists [MrCorrupt], rrf. split.
    + cbn [mem_read_fin]. rewrite Hg, Hrd. reflexivity.
    + split; [exact HQ|]. right. left. reflexivity.
  - assert (Hg : gonext gofuel (mkRR fr rbuf within) = (rr1, RRecord)).
    { rewrite <- (Hrec (gofuel - n - 1)%nat). f_equal. lia. }
    destruct fuel as [|fuel]; [lia|].
    destruct (Htail rr1 gofuel rr1 fuel Hra eq_refl) as (rrf & Hrd & HQ); [lia | lia |].
    exists [MrEntry p'], rrf. split.
    + cbn [mem_read_fin]. rewrite Hg, Hrd, Hbuf. reflexivity.
    + split; [exact HQ|]. right. right.
      destruct Hcase as [[-> Hz] | [Hne Hcol]].
      * left. split; [reflexivity | exact Hz].
      * right. exists p'. repeat split; assumption.
Qed.

(* ---------- master statement: the torn log, possibly with entries appended at r ---------- *)
Lemma torn_master es t x e k j :
  encsrel 0 es t -> encrel (lenN t) true x e k -> j < lenN e ->
  exists r W,
    lenN t <= r /\ lenN W = r - lenN t /\
    (forall z, r <= lenN t + j + z -> takeN j e ++ zerosN z = W ++ zerosN (lenN t + j + z - r)) /\
    (forall m, lenN t + j <= m * B -> r <= m * B) /\
    (forall m, m * B <= lenN t + j -> m * B <= r) /\
    forall es2 t2 S z nb fuel gofuel,
      encsrel r es2 t2 -> S = (t ++ W ++ t2) ++ zerosN z ->
      lenN S = (nb + 1) * B -> r + lenN t2 <= nb * B ->
      (length es + length es2 + 3 <= fuel)%nat -> lenN S <= 7 * N.of_nat gofuel ->
      exists corr rrf,
        mem_read_fin fuel gofuel (rr_start S) =
          (map MrEntry es ++ corr ++ map MrEntry es2 ++ [MrEnd], rrf) /\
        (es2 = [] -> at_posn S (rr_fr rrf) r) /\ corr_ok x e j corr.
Proof.
  intros Hes He Hj.
  destruct (torn_walk _ _ _ _ _ He j Hj) as (r & W & Har & HlW & Hspec & Hup & Hlo & Hrd).
  exists r, W. split; [exact Har|]. split; [exact HlW|]. split; [exact Hspec|].
  split; [exact Hup|]. split; [exact Hlo|].
  intros es2 t2 S z nb fuel gofuel Hes2 HS HlenS Hnb Hfuel Hgf.
  assert (Hok : sok S) by (exists (nb + 1); exact HlenS).
  assert (HlS : lenN S = r + lenN t2 + z).
  { rewrite HS, !lenN_app, lenN_zerosN. lia. }
  rewrite <- !app_assoc in HS.
  replace fuel with (length es + (fuel - length es))%nat by lia.
  destruct (read_all_entries_fin 0 es t Hes S [] (W ++ t2 ++ zerosN z) (rr_start S) gofuel
              (fuel - length es) Hok) as (rr' & Hat' & Hrd1).
  { apply rr_start_at. lia. }
  { exact HS. }
  { reflexivity. }
  { lia. }
  rewrite Hrd1. rewrite N.add_0_l in Hat'.
  destruct rr' as [fr rbuf within]. cbn [rr_fr] in Hat'.
  assert (Hwalk : walk_out S (lenN t) r true x e j fr rbuf within).
  { apply (Hrd S t (t2 ++ zerosN z) fr rbuf within Hok Hat' HS eq_refl); [lia|].
    left. reflexivity. }
  destruct (after_walk S (lenN t) r x e j fr rbuf within gofuel es2
              (fun rrf => es2 = [] -> at_posn S (rr_fr rrf) r) (lenN t2) (fuel - length es)
              Hwalk) as (corr & rrf & Hrd2 & HQ & Hcorr).
  { assert (HS2 : S = (t ++ W) ++ t2 ++ zerosN z) by (rewrite HS, <- app_assoc; reflexivity).
    assert (Hpre2 : lenN (t ++ W) = r) by (rewrite lenN_app; lia).
    assert (Hgf2 : lenN t2 <= 7 * N.of_nat gofuel) by lia.
    exact (read_tail S r es2 t2 (t ++ W) z nb gofuel Hes2 HS2 Hpre2 HlenS Hnb Hgf2). }
  { lia. }
  { lia. }
  exists corr, rrf. rewrite Hrd2. cbn [fst snd]. split; [reflexivity|]. split; assumption.
Qed.

(* ---------- the torn stream ---------- *)
Lemma torn_stream_shape (t e W : bytes) j r :
  j < lenN e -> lenN t <= r -> lenN W = r - lenN t ->
  (forall z, r <= lenN t + j + z -> takeN j e ++ zerosN z = W ++ zerosN (lenN t + j + z - r)) ->
  (forall m, lenN t + j <= m * B -> r <= m * B) ->
  exists z nb,
    mem_stream P (t ++ takeN j e) = (t ++ W ++ []) ++ zerosN z /\
    lenN (mem_stream P (t ++ takeN j e)) = (nb + 1) * B /\ r <= nb * B.
Proof.
  intros Hj Har HlW Hspec Hup.
  destruct (mem_stream_shape P HBS_lo HBS_hi Hcrc (t ++ takeN j e)) as (z & nb & Hshape & HlenS & Hnb).
  assert (HlD : lenN (t ++ takeN j e) = lenN t + j) by (rewrite lenN_app, lenN_takeN; lia).
  rewrite HlD in Hnb.
  assert (Hrnb : r <= nb * B) by (apply Hup; exact Hnb).
  assert (Hz : lenN t + j + z = (nb + 1) * B).
  { rewrite <- HlenS, Hshape, lenN_app, lenN_zerosN, HlD. reflexivity. }
  exists (lenN t + j + z - r), nb. split; [|split; [exact HlenS | exact Hrnb]].
  rewrite Hshape, app_nil_r, <- !app_assoc. f_equal. apply Hspec. lia.
Qed.

(* (1) + (2): what recovery reads from a torn log, and where it stops *)
Theorem torn_recovery es t x e k j fuel gofuel S :
  encsrel 0 es t -> encrel (lenN t) true x e k -> j < lenN e ->
  S = mem_stream P (t ++ takeN j e) ->
  (length es + 3 <= fuel)%nat -> lenN S <= 7 * N.of_nat gofuel ->
  exists corr rrf r,
    mem_read_fin fuel gofuel (rr_start S) = (map MrEntry es ++ corr ++ [MrEnd], rrf) /\
    corr_ok x e j corr /\
    atpos S (rr_fr rrf) r /\
    lenN t <= r /\
    all_zero (dropN r S) = true /\
    (forall m, m * B <= lenN t + j -> m * B <= r) /\
    (forall m, lenN t + j <= m * B -> r <= m * B) /\
    r + B <= lenN S.
Proof.
  intros Hes He Hj HS Hfuel Hgf.
  destruct (torn_master es t x e k j Hes He Hj) as (r & W & Har & HlW & Hspec & Hup & Hlo & HM).
  destruct (torn_stream_shape t e W j r Hj Har HlW Hspec Hup) as (z & nb & Hshape & HlenS & Hnb).
  rewrite <- HS in Hshape, HlenS.
  destruct (HM [] [] S z nb fuel gofuel (ES_nil P r) Hshape HlenS) as (corr & rrf & Hrd & Hat & Hcorr).
  { rewrite (@lenN_nil byte). lia. }
  { cbn [length]. lia. }
  { exact Hgf. }
  exists corr, rrf, r. split; [exact Hrd|]. split; [exact Hcorr|].
  split; [apply at_posn_at_pos, Hat; reflexivity|]. split; [exact Har|]. split.
  { rewrite Hshape, app_nil_r, dropN_app_exact' by (rewrite lenN_app; lia). apply all_zero_zerosN. }
  split; [exact Hlo|]. split; [exact Hup|]. lia.
Qed.

(* (1) in terms of mem_read_all *)
Theorem torn_read es t x e k j fuel gofuel S :
  encsrel 0 es t -> encrel (lenN t) true x e k -> j < lenN e ->
  S = mem_stream P (t ++ takeN j e) ->
  (length es + 3 <= fuel)%nat -> lenN S <= 7 * N.of_nat gofuel ->
  exists tail,
    mem_read_all P fuel gofuel (rr_start S) = map MrEntry es ++ tail /\
    (tail = [MrEnd]
     \/ tail = [MrCorrupt; MrEnd]
     \/ (tail = [MrEntry x; MrEnd] /\ all_zero (dropN j e) = true)
     \/ (exists y, tail = [MrEntry y; MrEnd] /\ y <> x /\ crc_collision)).
Proof.
  intros Hes He Hj HS Hfuel Hgf.
  destruct (torn_recovery es t x e k j fuel gofuel S Hes He Hj HS Hfuel Hgf)
    as (corr & rrf & r & Hrd & Hcorr & _).
  exists (corr ++ [MrEnd]). split.
  - rewrite <- mem_read_fin_fst, Hrd. reflexivity.
  - destruct Hcorr as [-> | [-> | [[-> Hz] | (y & -> & Hy & Hcol)]]].
    + left. reflexivity.
    + right. left. reflexivity.
    + right. right. left. split; [reflexivity | exact Hz].
    + right. right. right. exists y. repeat split; assumption.
Qed.

(* no frame payload (at most B - 7 bytes) has the CRC of one of its zero-completed proper
   prefixes; satisfiable together with Hcrc: NzcVacuous.nzc_bounded_sat *)
Definition no_zero_collision : Prop :=
  forall ty fp n, lenN fp + 7 <= B -> n < lenN fp ->
    crcf P ty (takeN n fp ++ zerosN (lenN fp - n)) = crcf P ty fp ->
    takeN n fp ++ zerosN (lenN fp - n) = fp.

Lemma no_collision : no_zero_collision -> ~ crc_collision.
Proof. intros H (ty & fp & n & Hb & Hn & Hne & Heq). apply Hne. apply (H ty fp n Hb Hn Heq). Qed.

Corollary torn_read_nocoll es t x e k j fuel gofuel S :
  no_zero_collision ->
  encsrel 0 es t -> encrel (lenN t) true x e k -> j < lenN e ->
  S = mem_stream P (t ++ takeN j e) ->
  (length es + 3 <= fuel)%nat -> lenN S <= 7 * N.of_nat gofuel ->
  exists tail,
    mem_read_all P fuel gofuel (rr_start S) = map MrEntry es ++ tail /\
    (tail = [MrEnd]
     \/ tail = [MrCorrupt; MrEnd]
     \/ (tail = [MrEntry x; MrEnd] /\ all_zero (dropN j e) = true)).
Proof.
  intros Hnc Hes He Hj HS Hfuel Hgf.
  destruct (torn_read es t x e k j fuel gofuel S Hes He Hj HS Hfuel Hgf) as (tail & Hrd & Hcase).
  exists tail. split; [exact Hrd|].
  destruct Hcase as [H | [H | [H | (y & _ & _ & Hcol)]]]; auto.
  exfalso. exact (no_collision Hnc Hcol).
Qed.

(* all_zero (dropN j e): the bytes on disk are those of the completely written entry *)
Lemma all_zero_drop_iff (e : bytes) j :
  j <= lenN e -> (all_zero (dropN j e) = true <-> takeN j e ++ zerosN (lenN e - j) = e).
Proof.
  intros Hj. split; intros H.
  - rewrite <- (takeN_dropN j e) at 3. f_equal.
    rewrite (all_zero_eq_zerosN _ H), lenN_dropN. reflexivity.
  - rewrite <- (takeN_dropN j e) in H at 3. apply app_inv_head in H. rewrite <- H.
    apply all_zero_zerosN.
Qed.

(* (2) the position where recovery stops *)
Theorem torn_resume es t x e k j fuel gofuel S :
  encsrel 0 es t -> encrel (lenN t) true x e k -> j < lenN e ->
  S = mem_stream P (t ++ takeN j e) ->
  (length es + 3 <= fuel)%nat -> lenN S <= 7 * N.of_nat gofuel ->
  exists r,
    atpos S (rr_fr (snd (mem_read_fin fuel gofuel (rr_start S)))) r /\
    lenN t <= r /\
    all_zero (dropN r S) = true /\
    (lenN (t ++ takeN j e) / B) * B <= r /\
    r <= ((lenN (t ++ takeN j e) + B - 1) / B) * B /\
    r + B <= lenN S.
Proof.
  intros Hes He Hj HS Hfuel Hgf.
  destruct (torn_recovery es t x e k j fuel gofuel S Hes He Hj HS Hfuel Hgf)
    as (corr & rrf & r & Hrd & _ & Hat & Har & Hz & Hlo & Hup & Hroom).
  exists r. rewrite Hrd. cbn [snd]. split; [exact Hat|]. split; [exact Har|]. split; [exact Hz|].
  assert (HlD : lenN (t ++ takeN j e) = lenN t + j) by (rewrite lenN_app, lenN_takeN; lia).
  rewrite HlD. split; [|split; [|exact Hroom]].
  - apply Hlo. rewrite N.mul_comm. apply N.mul_div_le. lia.
  - apply Hup.
    pose proof (N.div_mod (lenN t + j + B - 1) B) as Hdm.
    pose proof (mod_lt_B P HBS_lo HBS_hi (lenN t + j + B - 1)) as Hlt.
    set (q := (lenN t + j + B - 1) / B) in *. set (m := (lenN t + j + B - 1) mod B) in *.
    clearbody q m. lia.
Qed.

(* (3) appending at the resume position makes the log fully usable again *)
Theorem torn_then_append es t x e k j fuel gofuel S :
  encsrel 0 es t -> encrel (lenN t) true x e k -> j < lenN e ->
  S = mem_stream P (t ++ takeN j e) ->
  (length es + 3 <= fuel)%nat -> lenN S <= 7 * N.of_nat gofuel ->
  forall r, atpos S (rr_fr (snd (mem_read_fin fuel gofuel (rr_start S)))) r ->
  forall es2 t2 S' fuel' gofuel',
    encsrel r es2 t2 ->
    S' = mem_stream P (takeN r S ++ t2) ->
    (length es + length es2 + 3 <= fuel')%nat -> lenN S' <= 7 * N.of_nat gofuel' ->
    exists corr,
      mem_read_all P fuel' gofuel' (rr_start S') =
        map MrEntry es ++ corr ++ map MrEntry es2 ++ [MrEnd] /\
      corr_ok x e j corr.
Proof.
  intros Hes He Hj HS Hfuel Hgf r0 Hat0 es2 t2 S' fuel' gofuel' Hes2 HS' Hfuel' Hgf'.
  destruct (torn_master es t x e k j Hes He Hj) as (r & W & Har & HlW & Hspec & Hup & Hlo & HM).
  destruct (torn_stream_shape t e W j r Hj Har HlW Hspec Hup) as (z & nb & Hshape & HlenS & Hnb).
  rewrite <- HS in Hshape, HlenS.
  destruct (HM [] [] S z nb fuel gofuel (ES_nil P r) Hshape HlenS) as (corr1 & rrf & Hrd & Hat & _).
  { rewrite (@lenN_nil byte). lia. }
  { cbn [length]. lia. }
  { exact Hgf. }
  rewrite Hrd in Hat0. cbn [snd] in Hat0.
  assert (Hr : r0 = r).
  { apply (at_pos_unique S (rr_fr rrf)); [exact Hat0|]. apply at_posn_at_pos, Hat. reflexivity. }
  subst r0.
  assert (Htake : takeN r S = t ++ W).
  { rewrite Hshape, app_nil_r. apply takeN_app_exact'. rewrite lenN_app. lia. }
  rewrite Htake in HS'.
  destruct (mem_stream_shape P HBS_lo HBS_hi Hcrc ((t ++ W) ++ t2)) as (z2 & nb2 & Hshape2 & HlenS2 & Hnb2).
  rewrite <- HS' in Hshape2, HlenS2. rewrite <- (app_assoc t W t2) in Hshape2.
  destruct (HM es2 t2 S' z2 nb2 fuel' gofuel' Hes2 Hshape2 HlenS2) as (corr & rrf2 & Hrd2 & _ & Hcorr).
  { rewrite !lenN_app in Hnb2. lia. }
  { exact Hfuel'. }
  { exact Hgf'. }
  exists corr. split; [|exact Hcorr].
  rewrite <- mem_read_fin_fst, Hrd2. reflexivity.
Qed.

(* ---------- the same, phrased with the writer and the fuel of mem_roundtrip ---------- *)
Lemma roundtrip_fuel_ok es t (S : bytes) :
  encsrel 0 es t -> lenN t <= lenN S ->
  (length es + 3 <= N.to_nat (lenN S / HEADER_LEN + lenN S / B + 4))%nat /\
  lenN S <= 7 * N.of_nat (N.to_nat (lenN S / HEADER_LEN + lenN S / B + 4)).
Proof.
  intros Hes Hle. pose proof (encs_rel_len P HBS_lo HBS_hi Hcrc _ _ _ Hes) as Hcount.
  unfold HEADER_LEN. pose proof (N.div_mod (lenN S) 7) as Hdm.
  pose proof (N.mod_lt (lenN S) 7) as Hlt.
  set (r := lenN S mod 7) in *. clearbody r.
  set (q := lenN S / 7) in *. set (q' := lenN S / B). clearbody q q'. lia.
Qed.

(* the disk after a crash during the write of x that follows the writes of es: the first
   [written-so-far + j] bytes of what the writer would have produced *)
Theorem torn_read_written es x j :
  forall w w' S fuel,
    w = fst (mem_write_all P (mkVecW 0 []) es) ->
    w' = fst (write_record P vecw vw_write (vw_rem P) w x) ->
    lenN (vw_buf w) + j < lenN (vw_buf w') ->
    S = mem_stream P (takeN (lenN (vw_buf w) + j) (vw_buf w')) ->
    fuel = N.to_nat (lenN S / HEADER_LEN + lenN S / B + 4) ->
    exists tail,
      mem_read_all P fuel fuel (rr_start S) = map MrEntry es ++ tail /\
      (tail = [MrEnd]
       \/ tail = [MrCorrupt; MrEnd]
       \/ (tail = [MrEntry x; MrEnd] /\
           all_zero (dropN (lenN (vw_buf w) + j) (vw_buf w')) = true)
       \/ (exists y, tail = [MrEntry y; MrEnd] /\ y <> x /\ crc_collision)).
Proof.
  intros w w' S fuel Hw Hw' Hj HS Hfuel.
  destruct (mem_write_all_spec P HBS_lo HBS_hi Hcrc es (mkVecW 0 [])) as (ns & t & Hall & Hes & _ & _).
  rewrite Hall in Hw. cbn [fst vw_cursor vw_buf app] in Hw, Hes. rewrite N.add_0_l in Hw.
  destruct (write_record_vecw P HBS_lo HBS_hi Hcrc w x) as (e & k & He & Hwr).
  rewrite Hwr in Hw'. cbn [fst] in Hw'. subst w w'. cbn [vw_cursor vw_buf] in *.
  rewrite lenN_app in Hj.
  rewrite takeN_app_ge in HS by lia. replace (lenN t + j - lenN t) with j in HS by lia.
  rewrite dropN_app_ge by lia. replace (lenN t + j - lenN t) with j by lia.
  assert (HtS : lenN t <= lenN S).
  { destruct (mem_stream_shape P HBS_lo HBS_hi Hcrc (t ++ takeN j e)) as (z & nb & Hshape & _ & _).
    rewrite HS, Hshape, !lenN_app. lia. }
  destruct (roundtrip_fuel_ok es t S Hes HtS) as [Hf1 Hf2]. rewrite <- Hfuel in Hf1, Hf2.
  apply (torn_read es t x e k j fuel fuel S Hes He); try assumption. lia.
Qed.

(* END *)
End Torn.

Print Assumptions torn_recovery.
Print Assumptions torn_read.
Print Assumptions torn_read_nocoll.
Print Assumptions torn_resume.
Print Assumptions torn_then_append.
Print Assumptions torn_read_written.
Check torn_read.
Check torn_resume.
Check torn_then_append.
