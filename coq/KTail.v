(* KTail.v — TASK T14 follow-up: if the missing bytes of a torn encoding are all zero, at most
   BS - 7 bytes (the tail of the payload of its last frame) are missing. *)
From Coq Require Import Lia ZArith ZifyN ZifyNat ZifyBool List.
From MRL Require Import Bytes BytesProofs Params Frame Driver StreamProofs DamageProofs TornProofs ResyncProofs.

Arguments N.add : simpl never.
Arguments N.sub : simpl never.
Arguments N.mul : simpl never.
Arguments N.eqb : simpl never.
Arguments N.ltb : simpl never.
Arguments N.leb : simpl never.
Arguments N.div : simpl never.
Arguments N.modulo : simpl never.
Arguments N.min : simpl never.
Arguments N.max : simpl never.

Section Tail.
Variable P : params.
Hypothesis HBS_lo : 7 < BS P.
Hypothesis HBS_hi : BS P <= 65542.
Hypothesis Hcrc : forall t p, crcf P t p < 2 ^ 32.
Local Notation B := (BS P).
Local Notation H3 f := (f P HBS_lo HBS_hi Hcrc) (only parsing).
Local Notation H2 f := (f P HBS_lo HBS_hi) (only parsing).

(* every suffix of a frame that contains the type byte is not all zero *)
Lemma frame_suffix_nonzero t fp (rest : bytes) i :
  i < 7 -> all_zero (dropN i (frame_bytes P t fp ++ rest)) = false.
Proof.
  intros Hi. unfold frame_bytes, header_bytes.
  set (h6 := le_enc 4 (crcf P (n2b (ft_code t)) fp) ++ le_enc 2 (lenN fp)).
  assert (Hl : lenN h6 = 6) by (unfold h6; rewrite lenN_app, !length_le_enc; reflexivity).
  replace (((le_enc 4 (crcf P (n2b (ft_code t)) fp) ++ le_enc 2 (lenN fp) ++ [n2b (ft_code t)]) ++ fp) ++ rest)
    with (h6 ++ (n2b (ft_code t) :: fp ++ rest))
    by (unfold h6; rewrite <- !app_assoc; reflexivity).
  rewrite dropN_app_le by lia. rewrite all_zero_app.
  replace (all_zero (n2b (ft_code t) :: fp ++ rest)) with false; [apply andb_false_r|].
  destruct t; reflexivity.
Qed.

Lemma enc_rel_nonzero a f p e k : enc_rel P a f p e k -> all_zero e = false.
Proof.
  intros H. destruct H as [a f p Hd | a f p e k Hd Hr].
  - rewrite all_zero_app. rewrite <- (app_nil_r (frame_bytes P _ _)).
    pose proof (frame_suffix_nonzero (frame_type f true) (takeN (chunk_of P a p) p) [] 0 ltac:(lia)) as Hn.
    rewrite dropN_0 in Hn. rewrite Hn. apply andb_false_r.
  - rewrite all_zero_app.
    pose proof (frame_suffix_nonzero (frame_type f false) (takeN (chunk_of P a p) p) e 0 ltac:(lia)) as Hn.
    rewrite dropN_0 in Hn. rewrite Hn. apply andb_false_r.
Qed.

Theorem zero_tail_short a f p e k :
  enc_rel P a f p e k -> forall j, j <= lenN e -> all_zero (dropN j e) = true -> lenN e <= j + (B - 7).
Proof.
  induction 1 as [a f p Hd | a f p e k Hd Hr IH]; intros j Hj Hz.
  - set (fp := takeN (chunk_of P a p) p) in *.
    set (pad := pad_of P a) in *.
    assert (Hlfp : lenN fp <= B - 7).
    { unfold fp.
      pose proof (H3 StreamProofs.chunk_le_maxw a p) as Hc. unfold max_writable in Hc.
      destruct (N.leb_spec HEADER_LEN (B - a mod B)); unfold HEADER_LEN in *; lia. }
    rewrite lenN_app, (StreamProofs.lenN_frame_bytes P) in *.
    destruct (N.lt_ge_cases j (lenN pad + 7)) as [Hlt|Hge]; [exfalso|lia].
    destruct (N.le_gt_cases (lenN pad) j) as [Hle|Hgt].
    + rewrite dropN_app_ge in Hz by exact Hle. rewrite <- (app_nil_r (frame_bytes P _ fp)) in Hz.
      rewrite (frame_suffix_nonzero _ fp [] (j - lenN pad) ltac:(lia)) in Hz. discriminate.
    + rewrite dropN_app_le in Hz by lia. rewrite all_zero_app in Hz.
      apply andb_prop in Hz as [_ Hz2]. rewrite <- (app_nil_r (frame_bytes P _ fp)) in Hz2.
      pose proof (frame_suffix_nonzero (frame_type f true) fp [] 0 ltac:(lia)) as Hn.
      rewrite dropN_0 in Hn. rewrite Hn in Hz2. discriminate.
  - set (fp := takeN (chunk_of P a p) p) in *.
    set (pad := pad_of P a) in *.
    set (fb := frame_bytes P (frame_type f false) fp) in *.
    rewrite app_assoc in *. rewrite lenN_app in *.
    set (l1 := lenN (pad ++ fb)) in *.
    destruct (N.lt_ge_cases j l1) as [Hlt|Hge].
    + exfalso. rewrite dropN_app_le in Hz by lia. rewrite all_zero_app in Hz.
      apply andb_prop in Hz as [_ Hz2]. rewrite (enc_rel_nonzero _ _ _ _ _ Hr) in Hz2. discriminate.
    + rewrite dropN_app_ge in Hz by exact Hge. fold l1 in Hz.
      specialize (IH (j - l1) ltac:(lia) Hz). lia.
Qed.

End Tail.

Print Assumptions zero_tail_short.
