(* HeaderDamageEv.v — event-level machinery for HeaderDamage.v (task T15).
   (A) the record reader as a function of the sequence of frame-level results (asm), and the
       relation `thin` between the frames that were written and the frame-level results seen
       by a reader that lost its way inside a block: pure list reasoning, no stream involved;
   (B) the concrete reader (go_next / mem_read_all over vecr) follows asm along any frame trace. *)
From Coq Require Import Lia ZArith ZifyN ZifyNat ZifyBool.
From MRL Require Import Bytes BytesProofs Params Frame Driver StreamProofs DamageProofs.

Arguments N.add : simpl never.
Arguments N.sub : simpl never.
Arguments N.mul : simpl never.
Arguments N.eqb : simpl never.
Arguments N.ltb : simpl never.
Arguments N.leb : simpl never.
Arguments N.div : simpl never.
Arguments N.modulo : simpl never.
Arguments N.min : simpl never.

(* what one read_frame call can tell the record reader, apart from "end" *)
Inductive fev := EvOk (t : ftype) (p : bytes) | EvBad.

(* one go_next call on a list of frame events: remaining events, buffer, within, result *)
Fixpoint ago1 (evs : list fev) (buf : bytes) (w : bool) : list fev * bytes * bool * rresult :=
  match evs with
  | [] => ([], buf, w, REnd)
  | EvOk t p :: r =>
      let w1 := if is_first_frame t then true else w in
      let b0 := if is_first_frame t then [] else buf in
      if w1 then
        if is_last_frame t then (r, b0 ++ p, false, RRecord)
        else ago1 r (b0 ++ p) true
      else ago1 r b0 w1
  | EvBad :: r => (r, buf, false, RCorrupt)
  end.

(* the whole reading loop on a list of frame events *)
Fixpoint asm (evs : list fev) (buf : bytes) (w : bool) : list mem_read :=
  match evs with
  | [] => [MrEnd]
  | EvOk t p :: r =>
      let w1 := if is_first_frame t then true else w in
      let b0 := if is_first_frame t then [] else buf in
      if w1 then
        if is_last_frame t then MrEntry (b0 ++ p) :: asm r (b0 ++ p) false
        else asm r (b0 ++ p) true
      else asm r b0 w1
  | EvBad :: r => MrCorrupt :: asm r buf false
  end.

Lemma ago1_shape evs : forall buf w evs' b' w' r,
  ago1 evs buf w = (evs', b', w', r) ->
  (r = REnd \/ ((r = RRecord \/ r = RCorrupt) /\ (length evs' < length evs)%nat)).
Proof.
  induction evs as [|[t p|] evs IH]; intros buf w evs' b' w' r H; cbn [ago1] in H.
  - inversion H; subst. left; reflexivity.
  - destruct (if is_first_frame t then true else w).
    + destruct (is_last_frame t).
      * inversion H; subst. right. cbn [length]. split; [left; reflexivity|lia].
      * apply IH in H. cbn [length].
        destruct H as [H|[H1 H2]]; [left; exact H|right; split; [exact H1|lia]].
    + apply IH in H. cbn [length].
      destruct H as [H|[H1 H2]]; [left; exact H|right; split; [exact H1|lia]].
  - inversion H; subst. right. cbn [length]. split; [right; reflexivity|lia].
Qed.

Lemma asm_ago1 evs : forall buf w,
  asm evs buf w =
  match ago1 evs buf w with
  | (evs', b', w', RRecord) => MrEntry b' :: asm evs' b' w'
  | (evs', b', w', RCorrupt) => MrCorrupt :: asm evs' b' w'
  | _ => [MrEnd]
  end.
Proof.
  induction evs as [|[t p|] evs IH]; intros buf w; cbn [ago1 asm].
  - reflexivity.
  - destruct (if is_first_frame t then true else w).
    + destruct (is_last_frame t); [reflexivity|apply IH].
    + apply IH.
  - reflexivity.
Qed.

Lemma asm_no_fuel evs : forall buf w, ~ In MrFuel (asm evs buf w).
Proof.
  induction evs as [|[t p|] evs IH]; intros buf w; cbn [asm].
  - intros [H|[]]; discriminate.
  - destruct (if is_first_frame t then true else w).
    + destruct (is_last_frame t); [|apply IH].
      intros [H|H]; [discriminate|exact (IH _ _ H)].
    + apply IH.
  - intros [H|H]; [discriminate|exact (IH _ _ H)].
Qed.

Lemma asm_buf_false evs : forall b1 b2, asm evs b1 false = asm evs b2 false.
Proof.
  induction evs as [|[t p|] evs IH]; intros b1 b2; cbn [asm]; [reflexivity| |].
  - destruct (is_first_frame t); [reflexivity|]. apply IH.
  - f_equal. apply IH.
Qed.

Lemma asm_bads n : forall rest buf w,
  exists w', asm (repeat EvBad n ++ rest) buf w = repeat MrCorrupt n ++ asm rest buf w' /\
             (w = false -> w' = false).
Proof.
  induction n as [|n IH]; intros rest buf w.
  - exists w. split; [reflexivity|auto].
  - cbn [repeat app asm]. destruct (IH rest buf false) as (w' & E & Hw).
    exists w'. rewrite E. split; [reflexivity|]. intros _. apply Hw. reflexivity.
Qed.

Lemma asm_bads_false n rest buf :
  asm (repeat EvBad n ++ rest) buf false = repeat MrCorrupt n ++ asm rest buf false.
Proof.
  destruct (asm_bads n rest buf false) as (w' & E & Hw). rewrite (Hw eq_refl) in E. exact E.
Qed.

(* a trailing Corruption delivers nothing *)
Lemma asm_snoc_bad evs : forall buf w,
  delivered (asm (evs ++ [EvBad]) buf w) = delivered (asm evs buf w).
Proof.
  induction evs as [|[t p|] evs IH]; intros buf w; cbn [app asm].
  - reflexivity.
  - destruct (if is_first_frame t then true else w).
    + destruct (is_last_frame t); [|apply IH].
      change (MrEntry ?x :: ?l) with ([MrEntry x] ++ l). rewrite !delivered_app, IH. reflexivity.
    + apply IH.
  - change (MrCorrupt :: ?l) with ([MrCorrupt] ++ l). rewrite !delivered_app, IH. reflexivity.
Qed.

Section Pure.
Variable P : params.
Local Notation enc_any := (enc_any P).
Local Notation encs_any := (encs_any P).
Local Notation fs_good := (fs_good P).
Local Notation intact := (intact P).
Local Notation chunk_of := (chunk_of P).

Definition ev_of (x : fspec) : fev := EvOk (fs_ty x) (fs_pl x).

(* thin c xs evs c': xs are the frames written (in order); evs is what a reader reports that
   accepts some of them and loses the others, where frames are lost ONLY after a Corruption
   event and before the next accepted frame.  c / c' : "no Corruption since the last accepted
   frame" at the start / at the end. *)
Inductive thin : bool -> list fspec -> list fev -> bool -> Prop :=
| T_nil c : thin c [] [] c
| T_ok c x xs evs c' : thin true xs evs c' -> thin c (x :: xs) (ev_of x :: evs) c'
| T_skip x xs evs c' : thin false xs evs c' -> thin false (x :: xs) evs c'
| T_bad c xs evs c' : thin false xs evs c' -> thin c xs (EvBad :: evs) c'.

Lemma thin_nil_inv c evs c' : thin c [] evs c' -> exists n, evs = repeat EvBad n.
Proof.
  intros H. remember [] as xs eqn:E. induction H as [c | c x xs evs c' H IH | x xs evs c' H IH | c xs evs c' H IH].
  - exists 0%nat. reflexivity.
  - discriminate.
  - discriminate.
  - destruct (IH E) as [n ->]. exists (S n). reflexivity.
Qed.

Lemma thin_split c xs1 xs2 evs c' :
  thin c (xs1 ++ xs2) evs c' ->
  exists evs1 evs2 cm, evs = evs1 ++ evs2 /\ thin c xs1 evs1 cm /\ thin cm xs2 evs2 c'.
Proof.
  intros H. remember (xs1 ++ xs2) as xs eqn:E. revert xs1 E.
  induction H as [c | c x xs evs c' H IH | x xs evs c' H IH | c xs evs c' H IH]; intros xs1 E.
  - destruct xs1; [|discriminate]. cbn [app] in E. subst xs2.
    exists [], [], c. repeat split; constructor.
  - destruct xs1 as [|y xs1].
    + cbn [app] in E. subst xs2. exists [], (ev_of x :: evs), c.
      split; [reflexivity|]. split; [constructor|]. apply T_ok. exact H.
    + cbn [app] in E. inversion E; subst y xs.
      destruct (IH xs1 eq_refl) as (evs1 & evs2 & cm & -> & H1 & H2).
      exists (ev_of x :: evs1), evs2, cm. split; [reflexivity|]. split; [apply T_ok; exact H1|exact H2].
  - destruct xs1 as [|y xs1].
    + cbn [app] in E. subst xs2. exists [], evs, false.
      split; [reflexivity|]. split; [constructor|]. apply T_skip. exact H.
    + cbn [app] in E. inversion E; subst y xs.
      destruct (IH xs1 eq_refl) as (evs1 & evs2 & cm & -> & H1 & H2).
      exists evs1, evs2, cm. split; [reflexivity|]. split; [apply T_skip; exact H1|exact H2].
  - destruct (IH xs1 E) as (evs1 & evs2 & cm & -> & H1 & H2).
    exists (EvBad :: evs1), evs2, cm. split; [reflexivity|]. split; [apply T_bad; exact H1|exact H2].
Qed.

Lemma thin_app c xs1 evs1 cm : thin c xs1 evs1 cm ->
  forall xs2 evs2 c', thin cm xs2 evs2 c' -> thin c (xs1 ++ xs2) (evs1 ++ evs2) c'.
Proof.
  induction 1 as [c | c x xs evs c' H IH | x xs evs c' H IH | c xs evs c' H IH]; intros xs2 evs2 c2 H2.
  - exact H2.
  - cbn [app]. apply T_ok. apply IH. exact H2.
  - cbn [app]. apply T_skip. apply IH. exact H2.
  - cbn [app]. apply T_bad. apply IH. exact H2.
Qed.

Lemma thin_oks xs : forall c, exists c', thin c xs (map ev_of xs) c'.
Proof.
  induction xs as [|x xs IH]; intros c.
  - exists c. constructor.
  - destruct (IH true) as (c' & H). exists c'. cbn [map]. apply T_ok. exact H.
Qed.

Lemma thin_skips xs1 : forall xs2 evs c', thin false xs2 evs c' -> thin false (xs1 ++ xs2) evs c'.
Proof.
  induction xs1 as [|x xs1 IH]; intros xs2 evs c' H; [exact H|].
  cbn [app]. apply T_skip. apply IH. exact H.
Qed.

(* a reader that stops early has, as far as delivery is concerned, lost everything after *)
Lemma thin_stop c xs1 evs c' xs2 :
  thin c xs1 evs c' -> thin c (xs1 ++ xs2) (evs ++ [EvBad]) false.
Proof.
  intros H. apply (thin_app _ _ _ _ H). apply T_bad.
  rewrite <- (app_nil_r xs2). apply thin_skips. constructor.
Qed.

(* ---------- one entry ---------- *)
Lemma thin_entry c xs evs c' :
  thin c xs evs c' ->
  forall a f p e, enc_any a f p xs e -> forallb fs_good xs = true ->
  forall rest buf w, (c = false -> w = false) ->
  exists out buf',
    asm (evs ++ rest) buf w = out ++ asm rest buf' false /\
    (delivered out = [] \/
     (delivered out = [(if f then [] else buf) ++ p] /\ (f = true \/ w = true))).
Proof.
  induction 1 as [c | c x xs evs c' H IH | x xs evs c' H IH | c xs evs c' H IH];
    intros a f p e Henc Hall rest buf w Hcw.
  - inversion Henc.
  - cbn [forallb] in Hall. apply andb_true_iff in Hall as [Hgx Hall].
    cbn [app asm ev_of].
    inversion Henc as [a0 f0 p0 x0 Hd (Ht & Hc4 & Hl & Hg) | a0 f0 p0 x0 xs0 e0 Hd (Ht & Hc4 & Hl & Hg) Hr];
      subst.
    + (* last frame of the entry *)
      destruct (thin_nil_inv _ _ _ H) as [n ->].
      rewrite Ht, is_first_frame_type, is_last_frame_type, (Hg Hgx).
      pose proof (takeN_dropN (chunk_of a p) p) as Htd. rewrite Hd, app_nil_r in Htd. rewrite Htd.
      destruct (if f then true else w) eqn:Ew.
      * rewrite asm_bads_false.
        exists (MrEntry ((if f then [] else buf) ++ p) :: repeat MrCorrupt n), ((if f then [] else buf) ++ p).
        split; [reflexivity|]. right.
        split.
        -- change (MrEntry ?y :: ?l) with ([MrEntry y] ++ l).
           rewrite delivered_app, delivered_repeat. reflexivity.
        -- destruct f; [left; reflexivity|right; exact Ew].
      * rewrite asm_bads_false.
        exists (repeat MrCorrupt n), (if f then [] else buf).
        split; [reflexivity|]. left. apply delivered_repeat.
    + (* more frames follow *)
      rewrite Ht, is_first_frame_type, is_last_frame_type, (Hg Hgx).
      destruct (if f then true else w) eqn:Ew.
      * destruct (IH _ _ _ _ Hr Hall rest ((if f then [] else buf) ++ takeN (chunk_of a p) p) true)
          as (out & buf' & E & Hdel); [discriminate|].
        exists out, buf'. split; [exact E|].
        destruct Hdel as [Hd0 | [Hd1 _]]; [left; exact Hd0|right].
        split.
        -- rewrite Hd1. cbn match. rewrite <- app_assoc, takeN_dropN. reflexivity.
        -- destruct f; [left; reflexivity|right; exact Ew].
      * destruct (IH _ _ _ _ Hr Hall rest (if f then [] else buf) false)
          as (out & buf' & E & Hdel); [discriminate|].
        exists out, buf'. split; [exact E|].
        destruct Hdel as [Hd0 | [_ [Hf|Hf]]]; [left; exact Hd0|discriminate|discriminate].
  - cbn [forallb] in Hall. apply andb_true_iff in Hall as [Hgx Hall].
    rewrite (Hcw eq_refl).
    inversion Henc as [a0 f0 p0 x0 Hd Hff | a0 f0 p0 x0 xs0 e0 Hd Hff Hr]; subst.
    + destruct (thin_nil_inv _ _ _ H) as [n ->]. rewrite asm_bads_false.
      exists (repeat MrCorrupt n), buf. split; [reflexivity|]. left. apply delivered_repeat.
    + destruct (IH _ _ _ _ Hr Hall rest buf false) as (out & buf' & E & Hdel); [reflexivity|].
      exists out, buf'. split; [exact E|].
      destruct Hdel as [Hd0 | [_ [Hf|Hf]]]; [left; exact Hd0|discriminate|discriminate].
  - cbn [app asm].
    destruct (IH _ _ _ _ Henc Hall rest buf false) as (out & buf' & E & Hdel); [reflexivity|].
    exists (MrCorrupt :: out), buf'. rewrite E. split; [reflexivity|].
    change (MrCorrupt :: out) with ([MrCorrupt] ++ out). rewrite delivered_app. cbn [delivered flat_map app].
    destruct Hdel as [Hd0 | [Hd1 [Hf|Hf]]]; [left; exact Hd0| |discriminate].
    right. split; [exact Hd1|left; exact Hf].
Qed.

(* ---------- a list of entries ---------- *)
Lemma thin_entries a pxs t :
  encs_any a pxs t -> forallb intact pxs = true ->
  forall c evs c', thin c (flat_map snd pxs) evs c' ->
  forall rest buf, exists out buf',
    asm (evs ++ rest) buf false = out ++ asm rest buf' false /\
    sublist (delivered out) (map fst pxs).
Proof.
  induction 1 as [a | a p xs e pxs t He Hes IH]; intros Hall c evs c' Hth rest buf.
  - cbn [flat_map] in Hth. destruct (thin_nil_inv _ _ _ Hth) as [n ->].
    rewrite asm_bads_false. exists (repeat MrCorrupt n), buf. split; [reflexivity|].
    rewrite delivered_repeat. constructor.
  - cbn [flat_map snd] in Hth. cbn [forallb] in Hall. apply andb_true_iff in Hall as [Hx Hall].
    unfold DamageProofs.intact in Hx. cbn [snd] in Hx.
    destruct (thin_split _ _ _ _ _ Hth) as (evs1 & evs2 & cm & -> & H1 & H2).
    rewrite <- app_assoc.
    destruct (thin_entry _ _ _ _ H1 _ _ _ _ He Hx (evs2 ++ rest) buf false (fun _ => eq_refl))
      as (out1 & buf1 & E1 & Hdel1).
    destruct (IH Hall _ _ _ H2 rest buf1) as (out2 & buf2 & E2 & Hsub).
    exists (out1 ++ out2), buf2. rewrite E1, E2, <- app_assoc. split; [reflexivity|].
    rewrite delivered_app. cbn [map fst].
    destruct Hdel1 as [-> | [-> _]]; cbn [app].
    + apply SL_skip. exact Hsub.
    + apply SL_keep. exact Hsub.
Qed.

(* frames all accepted: the entries are delivered *)
Lemma asm_entry_good a f p xs e :
  enc_any a f p xs e -> forallb fs_good xs = true ->
  forall rest buf w, f = true \/ w = true ->
    asm (map ev_of xs ++ rest) buf w =
    MrEntry ((if f then [] else buf) ++ p) :: asm rest ((if f then [] else buf) ++ p) false.
Proof.
  induction 1 as [a f p x Hd (Ht & Hc4 & Hl & Hg) | a f p x xs e Hd (Ht & Hc4 & Hl & Hg) Hr IH];
    intros Hall rest buf w Hfw; cbn [forallb] in Hall; apply andb_true_iff in Hall as [Hgx Hall];
    assert (Hw : (if f then true else w) = true)
      by (destruct f; [reflexivity | destruct Hfw as [Hf|Hw]; [discriminate|exact Hw]]);
    cbn [map app asm ev_of]; rewrite Ht, is_first_frame_type, is_last_frame_type, Hw, (Hg Hgx).
  - pose proof (takeN_dropN (chunk_of a p) p) as Htd. rewrite Hd, app_nil_r in Htd.
    rewrite Htd. reflexivity.
  - rewrite (IH Hall rest _ true) by (right; reflexivity).
    cbn match. rewrite <- app_assoc, takeN_dropN. reflexivity.
Qed.

Lemma asm_entries_good a pxs t :
  encs_any a pxs t -> forallb intact pxs = true ->
  forall rest buf, exists buf',
    asm (map ev_of (flat_map snd pxs) ++ rest) buf false =
    map MrEntry (map fst pxs) ++ asm rest buf' false.
Proof.
  induction 1 as [a | a p xs e pxs t He Hes IH]; intros Hall rest buf.
  - exists buf. reflexivity.
  - cbn [forallb] in Hall. apply andb_true_iff in Hall as [Hx Hall].
    unfold DamageProofs.intact in Hx. cbn [snd] in Hx.
    cbn [flat_map snd map fst]. rewrite map_app, <- app_assoc.
    rewrite (asm_entry_good _ _ _ _ _ He Hx) by (left; reflexivity).
    destruct (IH Hall rest ([] ++ p)) as (buf' & E). exists buf'. rewrite E. reflexivity.
Qed.

Lemma delivered_entries l : delivered (map MrEntry l) = l.
Proof. induction l as [|x l IH]; [reflexivity|]. cbn [map]. change (MrEntry x :: ?r) with ([MrEntry x] ++ r). rewrite delivered_app, IH. reflexivity. Qed.

(* ---------- three segments: untouched entries, entries that may lose frames, untouched ---------- *)
Theorem asm_three a1 pxs1 t1 ab pxsb tb a3 pxs3 t3 ev2 c' :
  encs_any a1 pxs1 t1 -> forallb intact pxs1 = true ->
  encs_any ab pxsb tb -> forallb intact pxsb = true ->
  encs_any a3 pxs3 t3 -> forallb intact pxs3 = true ->
  thin true (flat_map snd pxsb) ev2 c' ->
  exists mid,
    delivered (asm (map ev_of (flat_map snd pxs1) ++ ev2 ++ map ev_of (flat_map snd pxs3)) [] false)
      = map fst pxs1 ++ mid ++ map fst pxs3 /\
    sublist mid (map fst pxsb).
Proof.
  intros H1 G1 Hb Gb H3 G3 Hth.
  destruct (asm_entries_good _ _ _ H1 G1 (ev2 ++ map ev_of (flat_map snd pxs3)) []) as (b1 & E1).
  destruct (thin_entries _ _ _ Hb Gb _ _ _ Hth (map ev_of (flat_map snd pxs3)) b1) as (out & b2 & E2 & Hsub).
  destruct (asm_entries_good _ _ _ H3 G3 [] b2) as (b3 & E3). rewrite app_nil_r in E3.
  exists (delivered out). split; [|exact Hsub].
  rewrite E1, E2, E3, !delivered_app, !delivered_entries. cbn [asm delivered flat_map app].
  rewrite app_nil_r. reflexivity.
Qed.

(* the reader stopped after the events ev2, having got through a prefix xsp of the frames *)
Theorem asm_two_stop a1 pxs1 t1 ab pxsb tb ev2 c' xsp xss :
  encs_any a1 pxs1 t1 -> forallb intact pxs1 = true ->
  encs_any ab pxsb tb -> forallb intact pxsb = true ->
  flat_map snd pxsb = xsp ++ xss -> thin true xsp ev2 c' ->
  exists mid,
    delivered (asm (map ev_of (flat_map snd pxs1) ++ ev2) [] false) = map fst pxs1 ++ mid /\
    sublist mid (map fst pxsb).
Proof.
  intros H1 G1 Hb Gb Hsp Hth.
  pose proof (thin_stop _ _ _ _ xss Hth) as Hth'. rewrite <- Hsp in Hth'.
  destruct (asm_entries_good _ _ _ H1 G1 ev2 []) as (b1 & E1).
  destruct (thin_entries _ _ _ Hb Gb _ _ _ Hth' [] b1) as (out & b2 & E2 & Hsub).
  rewrite app_nil_r in E2.
  exists (delivered out). split; [|exact Hsub].
  rewrite E1, delivered_app, delivered_entries. f_equal.
  rewrite <- asm_snoc_bad, E2, delivered_app. cbn [asm delivered flat_map app]. apply app_nil_r.
Qed.

End Pure.

(* ====================================================================================== *)
(* (B) the concrete reader follows asm along a frame trace *)
Section Trace.
Variable P : params.
Local Notation rframe := (read_frame P vecr (vr_next P) vr_block).
Local Notation gonext := (go_next P vecr (vr_next P) vr_block).

(* the successive read_frame results from reader state fr, up to the first FNotAvail *)
Inductive ftrace : freader vecr -> list fev -> Prop :=
| FT_end fr fr' : rframe fr = (fr', FNotAvail) -> ftrace fr []
| FT_ok fr fr' t p evs : rframe fr = (fr', FOk t p) -> ftrace fr' evs -> ftrace fr (EvOk t p :: evs)
| FT_bad fr fr' evs : rframe fr = (fr', FCorrupt) -> ftrace fr' evs -> ftrace fr (EvBad :: evs).

Lemma ftrace_cong fr1 fr2 evs : rframe fr1 = rframe fr2 -> ftrace fr2 evs -> ftrace fr1 evs.
Proof.
  intros E H. destruct H as [fr fr' H | fr fr' t p evs H Hn | fr fr' evs H Hn]; rewrite <- E in H.
  - exact (FT_end _ _ H).
  - exact (FT_ok _ _ _ _ _ H Hn).
  - exact (FT_bad _ _ _ H Hn).
Qed.

Lemma go_next_trace fr evs :
  ftrace fr evs ->
  forall buf w g evs' b' w' r,
    (length evs + 1 <= g)%nat -> ago1 evs buf w = (evs', b', w', r) ->
    exists fr', gonext g (mkRR fr buf w) = (mkRR fr' b' w', r) /\ (r <> REnd -> ftrace fr' evs').
Proof.
  induction 1 as [fr fr' H | fr fr' t p evs H Hn IH | fr fr' evs H Hn IH];
    intros buf w g evs' b' w' r Hg Hago; (destruct g as [|g]; [cbn [length] in Hg; lia|]);
    cbn [length] in Hg; cbn [ago1] in Hago; cbn [go_next rr_fr rr_buf rr_within]; rewrite H.
  - inversion Hago; subst. exists fr'. split; [reflexivity|congruence].
  - destruct (if is_first_frame t then true else w).
    + destruct (is_last_frame t).
      * inversion Hago; subst. exists fr'. split; [reflexivity|]. intros _. exact Hn.
      * apply IH; [lia|exact Hago].
    + apply IH; [lia|exact Hago].
  - inversion Hago; subst. exists fr'. split; [reflexivity|]. intros _. exact Hn.
Qed.

Lemma mem_read_all_trace fuel : forall fr evs buf w g,
  ftrace fr evs -> (length evs + 1 <= fuel)%nat -> (length evs + 1 <= g)%nat ->
  mem_read_all P fuel g (mkRR fr buf w) = asm evs buf w.
Proof.
  induction fuel as [|fuel IH]; intros fr evs buf w g Htr Hfuel Hg; [lia|].
  destruct (ago1 evs buf w) as [[[evs' b'] w'] r] eqn:Hago.
  destruct (go_next_trace _ _ Htr buf w g evs' b' w' r Hg Hago) as (fr' & Hgo & Hn).
  cbn [mem_read_all]. rewrite Hgo, asm_ago1, Hago.
  destruct (ago1_shape _ _ _ _ _ _ _ Hago) as [->|[[->| ->] Hlt]].
  - reflexivity.
  - cbn [rr_buf]. f_equal. apply IH; [apply Hn; discriminate|lia|lia].
  - f_equal. apply IH; [apply Hn; discriminate|lia|lia].
Qed.

End Trace.

Print Assumptions asm_three.
Print Assumptions asm_two_stop.
Print Assumptions mem_read_all_trace.
