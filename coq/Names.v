(* Names.v — WAL file names: file_number.rs `format!("wal-{:020}", n)` and
   directory.rs `filename_to_position`. Names are byte strings (UTF-8 of the OS name). *)
From MRL Require Import Bytes.

Definition digit (d : N) : byte := n2b (48 + d mod 10).

(* k decimal digits of n, most significant first *)
Fixpoint dec_digits (k : nat) (n : N) : bytes :=
  match k with
  | O => []
  | S k' => dec_digits k' (n / 10) ++ [digit n]
  end.

Definition wal_prefix : bytes := ["w"; "a"; "l"; "-"]%byte.

Definition filename (n : N) : bytes := wal_prefix ++ dec_digits 20 n.

Definition is_digit (b : byte) : bool := (48 <=? b2n b) && (b2n b <=? 57).

Fixpoint parse_dec (bs : bytes) (acc : N) : N :=
  match bs with [] => acc | b :: r => parse_dec r (acc * 10 + (b2n b - 48)) end.

Definition U64_MAX : N := 18446744073709551615.

Definition filename_to_position (s : bytes) : option N :=
  if negb (lenN s =? 24) then None
  else if negb (bytes_eqb (takeN 4 s) wal_prefix) then None
  else
    let ds := dropN 4 s in
    if negb (forallb is_digit ds) then None
    else
      let v := parse_dec ds 0 in
      if v <=? U64_MAX then Some v else None.
