(* GhostLog.v — the live queues are the replay of what was logged.
   A ghost-instrumented copy of the API threads a log of (file number at write start, entry);
   (1) the instrumentation does not change behaviour, (2) replaying the entries logged by a call
   over the queues before the call gives EXACTLY the queues after the call (under NoDup of the
   queue names, which is an invariant), (3) every logged entry is well-formed for the codec,
   (4) the file tags of the log never decrease. *)
From Coq Require Import Lia ZArith ZifyN ZifyNat ZifyBool Sorted.
From MRL Require Import Bytes BytesProofs Params Names Frame Record Mem Rolling Log Hist
                        NoopProofs SpecRefine RecordProofs GcProofs.

Arguments N.add : simpl never.
Arguments N.sub : simpl never.
Arguments N.mul : simpl never.
Arguments N.eqb : simpl never.
Arguments N.ltb : simpl never.
Arguments N.leb : simpl never.
Arguments N.div : simpl never.
Arguments N.modulo : simpl never.
Arguments N.pow : simpl never.

(* ====================================================================== *)
(* 1. the instrumented API                                                *)
(* ====================================================================== *)

Definition glog : Type := list (N * entry).
Definition gstate : Type := (state * glog)%type.

(* apply a log-free state transformer to an instrumented state *)
Definition glift (f : state -> state) (g : gstate) : gstate := (f (fst g), snd g).

Section WithParams.
Variable P : params.

Definition gwrite_entry (g : gstate) (e : entry) : gstate * res N :=
  let '(st, L) := g in
  let '(st', r) := write_entry P st e in ((st', L ++ [(w_file (s_wr st), e)]), r).

Fixpoint grecord_positions (g : gstate) (names : list bytes) (acc : N) : gstate * res N :=
  match names with
  | [] => (g, Ok acc)
  | n :: r =>
      match qs_get (s_qs (fst g)) n with
      | None => grecord_positions g r acc
      | Some q =>
          match gwrite_entry g (EPosition n (next_position q)) with
          | (g1, Err e) => (g1, Err e)
          | (g1, Ok k) => grecord_positions g1 r (acc + k)
          end
      end
  end.

Definition grecord_empty_queues_position (g : gstate) (hint : list bytes) : gstate * res N :=
  match grecord_positions g (pick_order hint (empty_names (s_qs (fst g)))) 0 with
  | (g1, Err e) => (g1, Err e)
  | (g1, Ok n) =>
      if L_GC P && (n =? 0) then (g1, Ok n) else (glift (fun st1 => persist st1 true) g1, Ok n)
  end.

Definition grun_gc_if_necessary (g : gstate) (hint : list bytes) : gstate * res N :=
  if has_deletable (fst g) then
    let guard := w_file (s_wr (fst g)) in
    match grecord_empty_queues_position g hint with
    | (g1, Err e) => (g1, Err e)
    | (g1, Ok n) =>
        let w := s_wr (fst g1) in
        match gc_loop (w_ctx w) (w_files w) (referenced (fst g1) guard) with
        | (c, files, Err e) =>
            (glift (fun st1 => set_wr st1 (mkWr c files (w_file w) (w_off w) (w_pending w))) g1,
             Err e)
        | (c, files, Ok _) =>
            (glift (fun st1 => set_wr st1 (mkWr c files (w_file w) (w_off w) (w_pending w))) g1,
             Ok n)
        end
    end
  else (g, Ok 0).

Definition gcreate_queue (g : gstate) (q : bytes) : gstate * outcome :=
  if qs_contains (s_qs (fst g)) q then (g, OutAlreadyExists)
  else match gwrite_entry g (EPosition q 0) with
       | (g1, Err e) => (g1, OutIo e)
       | (g1, Ok n) =>
           (glift (fun st1 => let st2 := persist st1 true in
                              set_qs st2 (qs_put (s_qs st2) q mq_default)) g1, OutCreate n)
       end.

Definition gdelete_queue (g : gstate) (q : bytes) (hint : list bytes) : gstate * outcome :=
  match qs_get (s_qs (fst g)) q with
  | None => (g, OutMissing)
  | Some mqv =>
      match gwrite_entry g (EDelete q (next_position mqv)) with
      | (g1, Err e) => (g1, OutIo e)
      | (g1, Ok n) =>
          let g2 := glift (fun st1 => set_qs st1 (qs_remove (s_qs st1) q)) g1 in
          match grun_gc_if_necessary g2 hint with
          | (g3, Err e) => (g3, OutIo e)
          | (g3, Ok k) => (glift (fun st3 => persist st3 true) g3, OutDelete (n + k))
          end
      end
  end.

Definition gappend_records (g : gstate) (q : bytes) (pos_opt : option N) (payloads : list bytes)
           (tick : bool) : gstate * outcome :=
  match qs_get (s_qs (fst g)) q with
  | None => (g, OutMissing)
  | Some mqv =>
      let next := next_position mqv in
      let early :=
        match pos_opt with
        | Some p => if p + 1 =? next then Some (OutAppend None 0)
                    else if p <? next then Some OutPast else None
        | None => None
        end in
      match early with
      | Some o => (g, o)
      | None =>
          let position := match pos_opt with Some p => p | None => next end in
          let file := w_file (s_wr (fst g)) in
          let recs := number_from position payloads in
          match recs with
          | [] => (g, OutAppend None 0)
          | _ =>
              match gwrite_entry g (EAppend q position recs) with
              | (g1, Err e) => (g1, OutIo e)
              | (g1, Ok n) =>
                  let g2 := glift (fun st1 => persist_on_policy st1 tick) g1 in
                  match append_all mqv file recs with
                  | Some mq' =>
                      (glift (fun st2 => set_qs st2 (qs_put (s_qs st2) q mq')) g2,
                       OutAppend (Some (last_pos_of position recs)) n)
                  | None => (g2, OutPast)
                  end
              end
          end
      end
  end.

Definition gtruncate (g : gstate) (q : bytes) (p : N) (hint : list bytes) (tick : bool)
  : gstate * outcome :=
  match qs_get (s_qs (fst g)) q with
  | None => (g, OutMissing)
  | Some mqv =>
      match gwrite_entry g (ETruncate q p) with
      | (g1, Err e) => (g1, OutIo e)
      | (g1, Ok n) =>
          let '(mq', evicted) := truncate_head mqv p in
          let g2 := glift (fun st1 => set_qs st1 (qs_put (s_qs st1) q mq')) g1 in
          match grun_gc_if_necessary g2 hint with
          | (g3, Err e) => (g3, OutIo e)
          | (g3, Ok k) =>
              (glift (fun st3 => persist_on_policy st3 tick) g3, OutTruncate evicted (n + k))
          end
      end
  end.

Definition gstep (g : gstate) (o : op) (tick : bool) : gstate * outcome :=
  match o with
  | OCreate q => gcreate_queue g q
  | ODelete q hint => gdelete_queue g q hint
  | OAppend q pos payloads => gappend_records g q pos payloads tick
  | OTruncate q p hint => gtruncate g q p hint tick
  | OPersist fsync => (glift (fun st => persist st fsync) g, OutPersist)
  end.

Fixpoint grun (g : gstate) (h : list (op * bool)) : gstate * list outcome :=
  match h with
  | [] => (g, [])
  | (o, tick) :: r =>
      let '(g1, out) := gstep g o tick in
      let '(g2, outs) := grun g1 r in (g2, out :: outs)
  end.

(* ---------------------------------------------------------------------- *)
(* what each call logs, as a function of the un-instrumented state         *)
(* ---------------------------------------------------------------------- *)

Fixpoint rp_log (st : state) (names : list bytes) : glog :=
  match names with
  | [] => []
  | n :: r =>
      match qs_get (s_qs st) n with
      | None => rp_log st r
      | Some q =>
          (w_file (s_wr st), EPosition n (next_position q)) ::
          match write_entry P st (EPosition n (next_position q)) with
          | (_, Err _) => []
          | (st1, Ok _) => rp_log st1 r
          end
      end
  end.

Definition gc_log (st : state) (hint : list bytes) : glog :=
  if has_deletable st then rp_log st (pick_order hint (empty_names (s_qs st))) else [].

Definition create_log (st : state) (q : bytes) : glog :=
  if qs_contains (s_qs st) q then [] else [(w_file (s_wr st), EPosition q 0)].

Definition delete_log (st : state) (q : bytes) (hint : list bytes) : glog :=
  match qs_get (s_qs st) q with
  | None => []
  | Some mqv =>
      (w_file (s_wr st), EDelete q (next_position mqv)) ::
      match write_entry P st (EDelete q (next_position mqv)) with
      | (_, Err _) => []
      | (st1, Ok _) => gc_log (set_qs st1 (qs_remove (s_qs st1) q)) hint
      end
  end.

Definition append_target (mqv : mq) (pos_opt : option N) : option N :=
  match pos_opt with
  | Some p => if p + 1 =? next_position mqv then None
              else if p <? next_position mqv then None else Some p
  | None => Some (next_position mqv)
  end.

Definition append_log (st : state) (q : bytes) (pos_opt : option N) (payloads : list bytes) : glog :=
  match qs_get (s_qs st) q with
  | None => []
  | Some mqv =>
      match append_target mqv pos_opt with
      | None => []
      | Some position =>
          match payloads with
          | [] => []
          | _ => [(w_file (s_wr st), EAppend q position (number_from position payloads))]
          end
      end
  end.

Definition truncate_log (st : state) (q : bytes) (p : N) (hint : list bytes) : glog :=
  match qs_get (s_qs st) q with
  | None => []
  | Some mqv =>
      (w_file (s_wr st), ETruncate q p) ::
      match write_entry P st (ETruncate q p) with
      | (_, Err _) => []
      | (st1, Ok _) =>
          gc_log (set_qs st1 (qs_put (s_qs st1) q (fst (truncate_head mqv p)))) hint
      end
  end.

Definition step_log (st : state) (o : op) : glog :=
  match o with
  | OCreate q => create_log st q
  | ODelete q hint => delete_log st q hint
  | OAppend q pos payloads => append_log st q pos payloads
  | OTruncate q p hint => truncate_log st q p hint
  | OPersist _ => []
  end.

Fixpoint run_log (st : state) (h : list (op * bool)) : glog :=
  match h with
  | [] => []
  | (o, tick) :: r => step_log st o ++ run_log (fst (step P st o tick)) r
  end.

(* ---------------------------------------------------------------------- *)
(* the instrumented call = (the call, the log extended by what it logs)    *)
(* ---------------------------------------------------------------------- *)

Lemma gwrite_entry_eq st L e :
  gwrite_entry (st, L) e =
  ((fst (write_entry P st e), L ++ [(w_file (s_wr st), e)]), snd (write_entry P st e)).
Proof. unfold gwrite_entry. destruct (write_entry P st e) as [st' r]. reflexivity. Qed.

Lemma grecord_positions_eq names : forall st L acc,
  grecord_positions (st, L) names acc =
  ((fst (record_positions P st names acc), L ++ rp_log st names),
   snd (record_positions P st names acc)).
Proof.
  induction names as [|n r IH]; intros st L acc;
    cbn [grecord_positions record_positions rp_log fst snd].
  - now rewrite app_nil_r.
  - destruct (qs_get (s_qs st) n) as [q|]; [|apply IH].
    rewrite gwrite_entry_eq.
    destruct (write_entry P st (EPosition n (next_position q))) as [st1 [k|e]]; cbn [fst snd].
    + rewrite IH, <- app_assoc. reflexivity.
    + reflexivity.
Qed.

Lemma grecord_empty_eq st L hint :
  grecord_empty_queues_position (st, L) hint =
  ((fst (record_empty_queues_position P st hint),
    L ++ rp_log st (pick_order hint (empty_names (s_qs st)))),
   snd (record_empty_queues_position P st hint)).
Proof.
  unfold grecord_empty_queues_position, record_empty_queues_position. cbn [fst].
  rewrite grecord_positions_eq.
  destruct (record_positions P st (pick_order hint (empty_names (s_qs st))) 0) as [st1 [n|e]];
    cbn [fst snd]; [|reflexivity].
  destruct (L_GC P && (n =? 0)); reflexivity.
Qed.

Lemma grun_gc_eq st L hint :
  grun_gc_if_necessary (st, L) hint =
  ((fst (run_gc_if_necessary P st hint), L ++ gc_log st hint),
   snd (run_gc_if_necessary P st hint)).
Proof.
  unfold grun_gc_if_necessary, run_gc_if_necessary, gc_log. cbn [fst].
  destruct (has_deletable st); [|now rewrite app_nil_r].
  rewrite grecord_empty_eq.
  destruct (record_empty_queues_position P st hint) as [st1 [n|e]]; cbn [fst snd]; [|reflexivity].
  destruct (gc_loop (w_ctx (s_wr st1)) (w_files (s_wr st1)) (referenced st1 (w_file (s_wr st))))
    as [[c files] [u|e]]; reflexivity.
Qed.

Lemma gcreate_eq st L q :
  gcreate_queue (st, L) q =
  ((fst (create_queue P st q), L ++ create_log st q), snd (create_queue P st q)).
Proof.
  unfold gcreate_queue, create_queue, create_log. cbn [fst].
  destruct (qs_contains (s_qs st) q); [now rewrite app_nil_r|].
  rewrite gwrite_entry_eq.
  destruct (write_entry P st (EPosition q 0)) as [st1 [n|e]]; reflexivity.
Qed.

Lemma gdelete_eq st L q hint :
  gdelete_queue (st, L) q hint =
  ((fst (delete_queue P st q hint), L ++ delete_log st q hint), snd (delete_queue P st q hint)).
Proof.
  unfold gdelete_queue, delete_queue, delete_log. cbn [fst].
  destruct (qs_get (s_qs st) q) as [mqv|]; [|now rewrite app_nil_r].
  rewrite gwrite_entry_eq.
  destruct (write_entry P st (EDelete q (next_position mqv))) as [st1 [n|e]]; cbn [fst snd];
    [|reflexivity].
  unfold glift at 1. cbn [fst snd]. rewrite grun_gc_eq, <- app_assoc. cbn [app].
  destruct (run_gc_if_necessary P (set_qs st1 (qs_remove (s_qs st1) q)) hint) as [st3 [k|e]];
    reflexivity.
Qed.

Lemma append_early_target mqv pos_opt :
  match pos_opt with
  | Some p => if p + 1 =? next_position mqv then Some (OutAppend None 0)
              else if p <? next_position mqv then Some OutPast else None
  | None => None
  end = None ->
  append_target mqv pos_opt =
  Some (match pos_opt with Some p => p | None => next_position mqv end).
Proof.
  unfold append_target. destruct pos_opt as [p|]; [|reflexivity].
  destruct (p + 1 =? next_position mqv); [discriminate|].
  destruct (p <? next_position mqv); [discriminate|reflexivity].
Qed.

Lemma append_early_target_none mqv pos_opt o :
  match pos_opt with
  | Some p => if p + 1 =? next_position mqv then Some (OutAppend None 0)
              else if p <? next_position mqv then Some OutPast else None
  | None => None
  end = Some o ->
  append_target mqv pos_opt = None.
Proof.
  unfold append_target. destruct pos_opt as [p|]; [|discriminate].
  destruct (p + 1 =? next_position mqv); [reflexivity|].
  destruct (p <? next_position mqv); [reflexivity|discriminate].
Qed.

Lemma gappend_eq st L q pos payloads tick :
  gappend_records (st, L) q pos payloads tick =
  ((fst (append_records P st q pos payloads tick), L ++ append_log st q pos payloads),
   snd (append_records P st q pos payloads tick)).
Proof.
  unfold gappend_records, append_records, append_log. cbn [fst].
  destruct (qs_get (s_qs st) q) as [mqv|]; [|now rewrite app_nil_r].
  destruct (match pos with
            | Some p => if p + 1 =? next_position mqv then Some (OutAppend None 0)
                        else if p <? next_position mqv then Some OutPast else None
            | None => None end) as [o|] eqn:Ee.
  - rewrite (append_early_target_none _ _ _ Ee). now rewrite app_nil_r.
  - rewrite (append_early_target _ _ Ee).
    set (position := match pos with Some p => p | None => next_position mqv end).
    destruct payloads as [|x r]; cbn [number_from]; [now rewrite app_nil_r|].
    rewrite gwrite_entry_eq.
    destruct (write_entry P st (EAppend q position ((position, x) :: number_from (position + 1) r)))
      as [st1 [n|e]]; cbn [fst snd]; [|reflexivity].
    destruct (append_all mqv (w_file (s_wr st)) ((position, x) :: number_from (position + 1) r));
      reflexivity.
Qed.

Lemma gtruncate_eq st L q p hint tick :
  gtruncate (st, L) q p hint tick =
  ((fst (truncate P st q p hint tick), L ++ truncate_log st q p hint),
   snd (truncate P st q p hint tick)).
Proof.
  unfold gtruncate, truncate, truncate_log. cbn [fst].
  destruct (qs_get (s_qs st) q) as [mqv|]; [|now rewrite app_nil_r].
  rewrite gwrite_entry_eq.
  destruct (write_entry P st (ETruncate q p)) as [st1 [n|e]]; cbn [fst snd]; [|reflexivity].
  destruct (truncate_head mqv p) as [mq' evicted]. cbn [fst].
  unfold glift at 1. cbn [fst snd]. rewrite grun_gc_eq, <- app_assoc. cbn [app].
  destruct (run_gc_if_necessary P (set_qs st1 (qs_put (s_qs st1) q mq')) hint) as [st3 [k|e]];
    reflexivity.
Qed.

Theorem gstep_eq st L o tick :
  gstep (st, L) o tick = ((fst (step P st o tick), L ++ step_log st o), snd (step P st o tick)).
Proof.
  destruct o as [q|q hint|q pos payloads|q p hint|a]; cbn [gstep step step_log].
  - apply gcreate_eq.
  - apply gdelete_eq.
  - apply gappend_eq.
  - apply gtruncate_eq.
  - unfold glift. cbn [fst snd]. now rewrite app_nil_r.
Qed.

Theorem grun_eq h : forall st L,
  grun (st, L) h = ((fst (run P st h), L ++ run_log st h), snd (run P st h)).
Proof.
  induction h as [|[o tick] r IH]; intros st L; cbn [grun run run_log].
  - now rewrite app_nil_r.
  - rewrite gstep_eq. destruct (step P st o tick) as [st1 out]. cbn [fst snd].
    rewrite IH, <- app_assoc. destruct (run P st1 r) as [st2 outs]. reflexivity.
Qed.

(* (1) the instrumentation does not change behaviour, and only extends the log *)
Theorem gstep_erase st L o tick :
  fst (fst (gstep (st, L) o tick)) = fst (step P st o tick) /\
  snd (gstep (st, L) o tick) = snd (step P st o tick).
Proof. rewrite gstep_eq. split; reflexivity. Qed.

Theorem gstep_log_extends st L o tick :
  exists es, snd (fst (gstep (st, L) o tick)) = L ++ es.
Proof. rewrite gstep_eq. eexists; reflexivity. Qed.

Theorem grun_erase st L h :
  fst (fst (grun (st, L) h)) = fst (run P st h) /\ snd (grun (st, L) h) = snd (run P st h).
Proof. rewrite grun_eq. split; reflexivity. Qed.

Theorem grun_log_extends st L h :
  exists es, snd (fst (grun (st, L) h)) = L ++ es.
Proof. rewrite grun_eq. eexists; reflexivity. Qed.

End WithParams.

(* ====================================================================== *)
(* 2. replay of the log                                                   *)
(* ====================================================================== *)

Fixpoint replay_entries (qs : queues) (es : glog) : option queues :=
  match es with
  | [] => Some qs
  | (f, e) :: r =>
      match apply_entry qs f e with
      | Some qs' => replay_entries qs' r
      | None => None
      end
  end.

(* the same thing as a fold with option bind *)
Definition obind {A B} (o : option A) (f : A -> option B) : option B :=
  match o with Some a => f a | None => None end.

Lemma replay_entries_fold es : forall qs,
  replay_entries qs es =
  fold_left (fun acc '(f, e) => obind acc (fun qs => apply_entry qs f e)) es (Some qs).
Proof.
  induction es as [|[f e] r IH]; intros qs; cbn [replay_entries fold_left]; [reflexivity|].
  unfold obind at 2. destruct (apply_entry qs f e) as [qs'|]; [apply IH|].
  clear. induction r as [|[f' e'] r IH]; cbn [fold_left obind]; [reflexivity|exact IH].
Qed.

Lemma replay_app a : forall qs b,
  replay_entries qs (a ++ b) = obind (replay_entries qs a) (fun qs' => replay_entries qs' b).
Proof.
  induction a as [|[f e] r IH]; intros qs b; cbn [app replay_entries obind]; [reflexivity|].
  destruct (apply_entry qs f e) as [qs'|]; [apply IH|reflexivity].
Qed.

(* ---------- the invariant: queue names are pairwise distinct ---------- *)
Definition nodup_names (qs : queues) : Prop := NoDup (map fst qs).

Lemma qs_get_In_eq qs n q : qs_get qs n = Some q -> In (n, q) qs.
Proof.
  induction qs as [|[n0 q0] r IH]; cbn [qs_get]; [discriminate|].
  destruct (bytes_eqb n0 n) eqn:E.
  - apply bytes_eqb_eq in E. intros H; inversion H; subst. now left.
  - intros H. right. now apply IH.
Qed.

Lemma qs_get_nodup qs n q : nodup_names qs -> In (n, q) qs -> qs_get qs n = Some q.
Proof.
  unfold nodup_names. induction qs as [|[n0 q0] r IH]; cbn [map fst qs_get In]; [contradiction|].
  intros Hnd [H|H].
  - inversion H; subst. now rewrite bytes_eqb_refl.
  - inversion Hnd as [|? ? Hni Hnd']; subst.
    destruct (bytes_eqb n0 n) eqn:E.
    + apply bytes_eqb_eq in E. subst n0. exfalso. apply Hni.
      change n with (fst (n, q)). now apply in_map.
    + now apply IH.
Qed.

Lemma In_keys_qs_put qs n q k : In k (map fst (qs_put qs n q)) <-> k = n \/ In k (map fst qs).
Proof.
  induction qs as [|[n0 q0] r IH]; cbn [qs_put map fst In].
  - intuition congruence.
  - destruct (bytes_eqb n0 n) eqn:E; cbn [map fst In].
    + apply bytes_eqb_eq in E. subst n0. intuition congruence.
    + rewrite IH. intuition congruence.
Qed.

Lemma In_qs_remove qs n x : In x (qs_remove qs n) -> In x qs.
Proof.
  induction qs as [|[n0 q0] r IH]; cbn [qs_remove]; [exact (fun H => H)|].
  destruct (bytes_eqb n0 n); cbn [In]; intuition.
Qed.

Lemma nodup_put qs n q : nodup_names qs -> nodup_names (qs_put qs n q).
Proof.
  unfold nodup_names. induction qs as [|[n0 q0] r IH]; cbn [qs_put map fst]; intros Hnd.
  - constructor; [exact (fun H => H)|constructor].
  - inversion Hnd as [|? ? Hni Hnd']; subst.
    destruct (bytes_eqb n0 n) eqn:E; cbn [map fst].
    + constructor; assumption.
    + constructor; [|now apply IH]. rewrite In_keys_qs_put. intros [H|H]; [|contradiction].
      subst n0. now rewrite bytes_eqb_refl in E.
Qed.

Lemma nodup_remove qs n : nodup_names qs -> nodup_names (qs_remove qs n).
Proof.
  unfold nodup_names. induction qs as [|[n0 q0] r IH]; cbn [qs_remove map fst]; intros Hnd;
    [constructor|].
  inversion Hnd as [|? ? Hni Hnd']; subst.
  destruct (bytes_eqb n0 n); cbn [map fst]; [now apply IH|].
  constructor; [|now apply IH]. intros H. apply Hni.
  apply in_map_iff in H. destruct H as [[k m] [Hk Hin]]. cbn [fst] in Hk. subst k.
  apply In_qs_remove in Hin. change n0 with (fst (n0, m)). now apply in_map.
Qed.

Lemma nodup_ack qs n next : nodup_names qs -> nodup_names (ack_position qs n next).
Proof.
  intros H. unfold ack_position. destruct (qs_get qs n) as [q|]; [|now apply nodup_put].
  destruct (negb (mq_is_empty q) || negb (next_position q =? next)); [now apply nodup_put|exact H].
Qed.

Lemma nodup_nil : nodup_names [].
Proof. constructor. Qed.

Theorem apply_entry_nodup qs f e qs' :
  nodup_names qs -> apply_entry qs f e = Some qs' -> nodup_names qs'.
Proof.
  intros Hnd. destruct e as [q pos recs|q p|q p|q p]; cbn [apply_entry].
  - set (qs1 := if qs_contains qs q then qs else ack_position qs q pos).
    assert (H1 : nodup_names qs1)
      by (unfold qs1; destruct (qs_contains qs q); [exact Hnd|now apply nodup_ack]).
    destruct (qs_get qs1 q) as [m|]; [|discriminate].
    destruct (append_all m f recs) as [m'|]; [|discriminate].
    intros H; inversion H; subst. now apply nodup_put.
  - destruct (qs_get qs q) as [m|]; intros H; inversion H; subst; [now apply nodup_put|exact Hnd].
  - intros H; inversion H; subst. now apply nodup_ack.
  - intros H; inversion H; subst. now apply nodup_remove.
Qed.

Theorem replay_nodup es : forall qs qs',
  nodup_names qs -> replay_entries qs es = Some qs' -> nodup_names qs'.
Proof.
  induction es as [|[f e] r IH]; intros qs qs' Hnd; cbn [replay_entries].
  - intros H; inversion H; subst. exact Hnd.
  - destruct (apply_entry qs f e) as [qs1|] eqn:E; [|discriminate].
    apply IH. eapply apply_entry_nodup; eassumption.
Qed.

(* what open rebuilds has the invariant *)
Corollary replay_from_nil_nodup es qs' : replay_entries [] es = Some qs' -> nodup_names qs'.
Proof. apply replay_nodup, nodup_nil. Qed.

(* ---------- the GC's position entries are replayed as the identity ---------- *)
Lemma name_mem_In n l : name_mem n l = true -> In n l.
Proof.
  induction l as [|x r IH]; cbn [name_mem]; [discriminate|].
  destruct (bytes_eqb x n) eqn:E; cbn [orb].
  - apply bytes_eqb_eq in E. intros _. now left.
  - intros H. right. now apply IH.
Qed.

Lemma In_name_remove n l x : In x (name_remove n l) -> In x l.
Proof.
  induction l as [|y r IH]; cbn [name_remove]; [exact (fun H => H)|].
  destruct (bytes_eqb y n); cbn [In]; intuition.
Qed.

Lemma In_pick_order hint : forall remaining x,
  In x (pick_order hint remaining) -> In x remaining.
Proof.
  induction hint as [|h r IH]; intros remaining x; cbn [pick_order]; [exact (fun H => H)|].
  destruct (name_mem h remaining) eqn:E.
  - cbn [In]. intros [H|H].
    + subst x. now apply name_mem_In.
    + apply IH in H. eapply In_name_remove; eassumption.
  - apply IH.
Qed.

Lemma In_empty_names qs n : In n (empty_names qs) -> exists q, In (n, q) qs /\ mq_is_empty q = true.
Proof.
  unfold empty_names. intros H. apply in_map_iff in H. destruct H as [[k q] [Hk Hin]].
  cbn [fst] in Hk. subst k. apply filter_In in Hin. destruct Hin as [Hin He]. now exists q.
Qed.

(* every listed name denotes an empty queue *)
Definition names_empty (qs : queues) (names : list bytes) : Prop :=
  forall n q, In n names -> qs_get qs n = Some q -> mq_is_empty q = true.

Lemma pick_order_names_empty qs hint :
  nodup_names qs -> names_empty qs (pick_order hint (empty_names qs)).
Proof.
  intros Hnd n q Hin Hg. apply In_pick_order in Hin. apply In_empty_names in Hin.
  destruct Hin as [q' [Hin He]]. rewrite (qs_get_nodup _ _ _ Hnd Hin) in Hg.
  inversion Hg; subst. exact He.
Qed.

Lemma ack_position_empty_id qs n q :
  qs_get qs n = Some q -> mq_is_empty q = true -> ack_position qs n (next_position q) = qs.
Proof.
  intros Hg He. unfold ack_position. rewrite Hg, He, N.eqb_refl. reflexivity.
Qed.

Section WithParams.
Variable P : params.

Lemma rp_log_replay names : forall st,
  names_empty (s_qs st) names -> replay_entries (s_qs st) (rp_log P st names) = Some (s_qs st).
Proof.
  induction names as [|n r IH]; intros st Hne; cbn [rp_log]; [reflexivity|].
  assert (Hr : names_empty (s_qs st) r)
    by (intros n' q' Hin; apply Hne; now right).
  destruct (qs_get (s_qs st) n) as [q|] eqn:Hg; [|now apply IH].
  cbn [replay_entries apply_entry].
  rewrite (ack_position_empty_id _ _ _ Hg) by (eapply Hne; [now left|exact Hg]).
  destruct (write_entry P st (EPosition n (next_position q))) as [st1 [k|e]] eqn:E;
    [|reflexivity].
  apply GcProofs.write_entry_qs in E. rewrite <- E. apply IH. now rewrite E.
Qed.

Lemma gc_log_replay st hint :
  nodup_names (s_qs st) -> replay_entries (s_qs st) (gc_log P st hint) = Some (s_qs st).
Proof.
  intros Hnd. unfold gc_log. destruct (has_deletable st); [|reflexivity].
  apply rp_log_replay. now apply pick_order_names_empty.
Qed.

(* ---------- each call ---------- *)
Lemma append_target_ge mqv pos position :
  append_target mqv pos = Some position -> next_position mqv <= position.
Proof.
  unfold append_target. destruct pos as [p|].
  - destruct (N.eqb_spec (p + 1) (next_position mqv)) as [_|Hne]; [discriminate|].
    destruct (N.ltb_spec p (next_position mqv)) as [_|Hge]; [discriminate|].
    intros H; inversion H; subst. exact Hge.
  - intros H; inversion H; subst. lia.
Qed.

Lemma append_log_target st q pos payloads :
  append_log st q pos payloads =
  match qs_get (s_qs st) q with
  | None => []
  | Some mqv =>
      match append_target mqv pos with
      | None => []
      | Some position =>
          match payloads with
          | [] => []
          | _ => [(w_file (s_wr st), EAppend q position (number_from position payloads))]
          end
      end
  end.
Proof. reflexivity. Qed.

Definition no_io (out : outcome) : Prop := forall e, out <> OutIo e.

Lemma create_replay st q :
  no_io (snd (create_queue P st q)) ->
  replay_entries (s_qs st) (create_log st q) = Some (s_qs (fst (create_queue P st q))).
Proof.
  unfold create_queue, create_log. rewrite qs_contains_get.
  destruct (qs_get (s_qs st) q) as [m|] eqn:Hg; [reflexivity|].
  destruct (write_entry P st (EPosition q 0)) as [st1 [n|e]] eqn:E; cbn [fst snd].
  - intros _. apply GcProofs.write_entry_qs in E.
    cbn [replay_entries apply_entry set_qs s_qs persist set_wr]. unfold ack_position.
    rewrite Hg, E. reflexivity.
  - intros H. now contradiction (H e).
Qed.

Lemma delete_replay st q hint :
  nodup_names (s_qs st) -> no_io (snd (delete_queue P st q hint)) ->
  replay_entries (s_qs st) (delete_log P st q hint) = Some (s_qs (fst (delete_queue P st q hint))).
Proof.
  intros Hnd. unfold delete_queue, delete_log.
  destruct (qs_get (s_qs st) q) as [m|] eqn:Hg; [|reflexivity].
  destruct (write_entry P st (EDelete q (next_position m))) as [st1 [n|e]] eqn:E; cbn [fst snd].
  - apply GcProofs.write_entry_qs in E.
    set (st2 := set_qs st1 (qs_remove (s_qs st1) q)).
    assert (E2 : s_qs st2 = qs_remove (s_qs st) q) by (unfold st2; cbn [set_qs s_qs]; now rewrite E).
    pose proof (SpecRefine.run_gc_qs P st2 hint) as Hgc.
    pose proof (gc_log_replay st2 hint) as Hrp. rewrite E2 in Hrp.
    destruct (run_gc_if_necessary P st2 hint) as [st3 [k|e]]; cbn [fst snd] in *.
    + intros _. cbn [replay_entries apply_entry]. rewrite Hrp by now apply nodup_remove.
      rewrite persist_qs, Hgc, E2. reflexivity.
    + intros H. now contradiction (H e).
  - intros H. now contradiction (H e).
Qed.

Lemma append_replay st q pos payloads tick :
  no_io (snd (append_records P st q pos payloads tick)) ->
  replay_entries (s_qs st) (append_log st q pos payloads) =
  Some (s_qs (fst (append_records P st q pos payloads tick))).
Proof.
  unfold append_records, append_log.
  destruct (qs_get (s_qs st) q) as [m|] eqn:Hg; [|reflexivity].
  destruct (match pos with
            | Some p => if p + 1 =? next_position m then Some (OutAppend None 0)
                        else if p <? next_position m then Some OutPast else None
            | None => None end) as [o|] eqn:Ee.
  - rewrite (append_early_target_none _ _ _ Ee). reflexivity.
  - rewrite (append_early_target _ _ Ee).
    pose proof (append_target_ge _ _ _ (append_early_target _ _ Ee)) as Hge.
    set (position := match pos with Some p => p | None => next_position m end) in *.
    destruct payloads as [|x r]; [reflexivity|].
    destruct (append_all_some (x :: r) m (w_file (s_wr st)) position Hge) as (m' & Em).
    cbn [number_from] in *. rewrite Em.
    destruct (write_entry P st (EAppend q position ((position, x) :: number_from (position + 1) r)))
      as [st1 [n|e]] eqn:E; cbn [fst snd].
    + intros _. apply GcProofs.write_entry_qs in E.
      cbn [replay_entries apply_entry]. rewrite qs_contains_get, Hg, Hg, Em.
      cbn [set_qs s_qs]. rewrite persist_on_policy_qs, E. reflexivity.
    + intros H. now contradiction (H e).
Qed.

Lemma truncate_replay st q p hint tick :
  nodup_names (s_qs st) -> no_io (snd (truncate P st q p hint tick)) ->
  replay_entries (s_qs st) (truncate_log P st q p hint) =
  Some (s_qs (fst (truncate P st q p hint tick))).
Proof.
  intros Hnd. unfold truncate, truncate_log.
  destruct (qs_get (s_qs st) q) as [m|] eqn:Hg; [|reflexivity].
  destruct (write_entry P st (ETruncate q p)) as [st1 [n|e]] eqn:E; cbn [fst snd].
  - apply GcProofs.write_entry_qs in E.
    destruct (truncate_head m p) as [m' ev] eqn:Et. cbn [fst].
    set (st2 := set_qs st1 (qs_put (s_qs st1) q m')).
    assert (E2 : s_qs st2 = qs_put (s_qs st) q m') by (unfold st2; cbn [set_qs s_qs]; now rewrite E).
    pose proof (SpecRefine.run_gc_qs P st2 hint) as Hgc.
    pose proof (gc_log_replay st2 hint) as Hrp. rewrite E2 in Hrp.
    destruct (run_gc_if_necessary P st2 hint) as [st3 [k|e]]; cbn [fst snd] in *.
    + intros _. cbn [replay_entries apply_entry]. rewrite Hg, Et. cbn [fst].
      rewrite Hrp by now apply nodup_put.
      rewrite persist_on_policy_qs, Hgc, E2. reflexivity.
    + intros H. now contradiction (H e).
  - intros H. now contradiction (H e).
Qed.

Theorem step_replay st o tick :
  nodup_names (s_qs st) -> no_io (snd (step P st o tick)) ->
  replay_entries (s_qs st) (step_log P st o) = Some (s_qs (fst (step P st o tick))).
Proof.
  intros Hnd. destruct o as [q|q hint|q pos payloads|q p hint|a]; cbn [step step_log].
  - apply create_replay.
  - now apply delete_replay.
  - apply append_replay.
  - now apply truncate_replay.
  - reflexivity.
Qed.

(* (2) the live queues are the replay of what the call logged *)
Theorem live_is_replay : forall st L o tick st' L' out,
  nodup_names (s_qs st) ->
  gstep P (st, L) o tick = ((st', L'), out) -> (forall e, out <> OutIo e) ->
  exists es, L' = L ++ es /\ replay_entries (s_qs st) es = Some (s_qs st').
Proof.
  intros st L o tick st' L' out Hnd H Hio. rewrite gstep_eq in H. inversion H; subst.
  exists (step_log P st o). split; [reflexivity|]. now apply step_replay.
Qed.

(* calls that never run the GC (create, append, persist) need no invariant at all *)
Theorem live_is_replay_no_gc : forall st L o tick st' L' out,
  match o with ODelete _ _ | OTruncate _ _ _ => False | _ => True end ->
  gstep P (st, L) o tick = ((st', L'), out) -> (forall e, out <> OutIo e) ->
  exists es, L' = L ++ es /\ replay_entries (s_qs st) es = Some (s_qs st').
Proof.
  intros st L o tick st' L' out Ho H Hio. rewrite gstep_eq in H. inversion H; subst.
  exists (step_log P st o). split; [reflexivity|].
  destruct o as [q|q hint|q pos payloads|q p hint|a]; cbn [step step_log] in *;
    try contradiction.
  - now apply create_replay.
  - now apply append_replay.
  - reflexivity.
Qed.

End WithParams.

(* ---------- the invariant is kept by every call, whatever its outcome ---------- *)
Section Invariant.
Variable P : params.

Lemma step_qs_cases st o tick :
  let qs' := s_qs (fst (step P st o tick)) in
  qs' = s_qs st \/ (exists q m, qs' = qs_put (s_qs st) q m) \/ (exists q, qs' = qs_remove (s_qs st) q).
Proof.
  cbv zeta. destruct o as [q|q hint|q pos payloads|q p hint|a]; cbn [step].
  - unfold create_queue. destruct (qs_contains (s_qs st) q); [now left|].
    destruct (write_entry P st (EPosition q 0)) as [st1 [n|e]] eqn:E;
      apply GcProofs.write_entry_qs in E; cbn [fst].
    + right; left. exists q, mq_default. cbn [set_qs s_qs persist set_wr]. now rewrite E.
    + now left.
  - unfold delete_queue. destruct (qs_get (s_qs st) q) as [m|]; [|now left].
    destruct (write_entry P st _) as [st1 [n|e]] eqn:E;
      apply GcProofs.write_entry_qs in E; cbn [fst]; [|now left].
    pose proof (SpecRefine.run_gc_qs P (set_qs st1 (qs_remove (s_qs st1) q)) hint) as Hgc.
    destruct (run_gc_if_necessary P _ hint) as [st3 [k|e]]; cbn [fst] in *;
      right; right; exists q; rewrite ?persist_qs, Hgc; cbn [set_qs s_qs]; now rewrite E.
  - unfold append_records. destruct (qs_get (s_qs st) q) as [m|]; [|now left].
    destruct (match pos with Some p => _ | None => None end) as [early|]; [now left|].
    destruct (number_from _ payloads) as [|r0 rs]; [now left|].
    destruct (write_entry P st _) as [st1 [n|e]] eqn:E;
      apply GcProofs.write_entry_qs in E; cbn [fst]; [|now left].
    destruct (append_all m _ _) as [m'|]; cbn [fst].
    + right; left. exists q, m'. cbn [set_qs s_qs]. now rewrite persist_on_policy_qs, E.
    + left. now rewrite persist_on_policy_qs.
  - unfold truncate. destruct (qs_get (s_qs st) q) as [m|]; [|now left].
    destruct (write_entry P st _) as [st1 [n|e]] eqn:E;
      apply GcProofs.write_entry_qs in E; cbn [fst]; [|now left].
    destruct (truncate_head m p) as [m' ev].
    pose proof (SpecRefine.run_gc_qs P (set_qs st1 (qs_put (s_qs st1) q m')) hint) as Hgc.
    destruct (run_gc_if_necessary P _ hint) as [st3 [k|e]]; cbn [fst] in *;
      right; left; exists q, m'; rewrite ?persist_on_policy_qs, Hgc; cbn [set_qs s_qs];
      now rewrite E.
  - now left.
Qed.

Theorem step_nodup st o tick :
  nodup_names (s_qs st) -> nodup_names (s_qs (fst (step P st o tick))).
Proof.
  intros Hnd. destruct (step_qs_cases st o tick) as [H|[(q & m & H)|(q & H)]]; rewrite H.
  - exact Hnd.
  - now apply nodup_put.
  - now apply nodup_remove.
Qed.

Theorem run_nodup h : forall st,
  nodup_names (s_qs st) -> nodup_names (s_qs (fst (run P st h))).
Proof.
  induction h as [|[o tick] r IH]; intros st Hnd; cbn [run]; [exact Hnd|].
  pose proof (step_nodup st o tick Hnd) as H1.
  destruct (step P st o tick) as [st1 out]. cbn [fst] in H1.
  specialize (IH st1 H1). destruct (run P st1 r) as [st2 outs]. exact IH.
Qed.

(* histories *)
Theorem run_replay h : forall st,
  nodup_names (s_qs st) -> Forall no_io (snd (run P st h)) ->
  replay_entries (s_qs st) (run_log P st h) = Some (s_qs (fst (run P st h))).
Proof.
  induction h as [|[o tick] r IH]; intros st Hnd; cbn [run run_log]; [reflexivity|].
  pose proof (step_nodup st o tick Hnd) as H1.
  pose proof (step_replay P st o tick Hnd) as H2.
  destruct (step P st o tick) as [st1 out]. cbn [fst snd] in *.
  specialize (IH st1 H1). destruct (run P st1 r) as [st2 outs]. cbn [fst snd] in *.
  intros Hf. inversion Hf as [|? ? Ho Hr]; subst.
  rewrite replay_app, (H2 Ho). cbn [obind]. now apply IH.
Qed.

Corollary history_is_replay : forall st h st' L' outs,
  nodup_names (s_qs st) ->
  grun P (st, []) h = ((st', L'), outs) -> (forall out e, In out outs -> out <> OutIo e) ->
  replay_entries (s_qs st) L' = Some (s_qs st').
Proof.
  intros st h st' L' outs Hnd H Hio. rewrite grun_eq in H. inversion H; subst. cbn [app].
  apply run_replay; [exact Hnd|]. apply Forall_forall. intros out Hin e. now apply Hio.
Qed.

(* with a non-empty starting log: the new part of the log is what is replayed *)
Corollary history_is_replay_from : forall st L h st' L' outs,
  nodup_names (s_qs st) ->
  grun P (st, L) h = ((st', L'), outs) -> (forall out e, In out outs -> out <> OutIo e) ->
  exists es, L' = L ++ es /\ replay_entries (s_qs st) es = Some (s_qs st').
Proof.
  intros st L h st' L' outs Hnd H Hio. rewrite grun_eq in H. inversion H; subst.
  eexists; split; [reflexivity|].
  apply run_replay; [exact Hnd|]. apply Forall_forall. intros out Hin e. now apply Hio.
Qed.

(* a log that starts from no queues at all: the live state is the replay of the whole log *)
Corollary history_from_empty_is_replay : forall w pol h st' L' outs,
  grun P (mkSt w [] pol, []) h = ((st', L'), outs) ->
  (forall out e, In out outs -> out <> OutIo e) ->
  replay_entries [] L' = Some (s_qs st').
Proof.
  intros w pol h st' L' outs H Hio.
  apply (history_is_replay (mkSt w [] pol) h st' L' outs nodup_nil H Hio).
Qed.

End Invariant.

(* ====================================================================== *)
(* 3. every logged entry is well-formed for the codec                     *)
(* ====================================================================== *)

Definition name_ok (n : bytes) : Prop := utf8_valid n = true /\ lenN n < 2 ^ 16.

(* the state: names are Rust Strings shorter than 2^16 bytes, next positions fit in a u64 *)
Definition qs_wf (qs : queues) : Prop :=
  forall n q, In (n, q) qs -> name_ok n /\ next_position q < 2 ^ 64.

(* the call's arguments *)
Definition op_wf (qs : queues) (o : op) : Prop :=
  match o with
  | OCreate q => name_ok q
  | ODelete _ _ => True
  | OAppend q pos payloads =>
      Forall (fun x => lenN x < 2 ^ 32) payloads /\
      match pos with
      | Some p => p + lenN payloads <= 2 ^ 64
      | None => forall m, qs_get qs q = Some m -> next_position m + lenN payloads <= 2 ^ 64
      end
  | OTruncate _ p _ => p + 1 < 2 ^ 64
  | OPersist _ => True
  end.

Definition log_wf (es : glog) : Prop := Forall (fun fe => wf_entry (snd fe)) es.

Lemma wf_entry_simple (mk : bytes -> N -> entry) n p :
  (mk = ETruncate \/ mk = EPosition \/ mk = EDelete) ->
  name_ok n -> p < 2 ^ 64 -> wf_entry (mk n p).
Proof.
  intros Hmk [Hu Hl] Hp. unfold wf_entry.
  destruct Hmk as [->|[->| ->]]; cbn [entry_queue entry_pos]; repeat split; assumption.
Qed.

Lemma In_qs_put qs n q x : In x (qs_put qs n q) -> x = (n, q) \/ In x qs.
Proof.
  induction qs as [|[n0 q0] r IH]; cbn [qs_put In].
  - intuition.
  - destruct (bytes_eqb n0 n) eqn:E; cbn [In].
    + apply bytes_eqb_eq in E. subst n0. intuition.
    + intuition.
Qed.

Lemma qs_wf_put qs n q : qs_wf qs -> name_ok n -> next_position q < 2 ^ 64 -> qs_wf (qs_put qs n q).
Proof.
  intros Hw Hn Hq n' q' Hin. apply In_qs_put in Hin. destruct Hin as [H|H].
  - inversion H; subst. split; assumption.
  - now apply Hw.
Qed.

Lemma qs_wf_remove qs n : qs_wf qs -> qs_wf (qs_remove qs n).
Proof. intros Hw n' q' Hin. apply In_qs_remove in Hin. now apply Hw. Qed.

Lemma qs_wf_get qs n q : qs_wf qs -> qs_get qs n = Some q -> name_ok n /\ next_position q < 2 ^ 64.
Proof. intros Hw Hg. apply Hw. now apply qs_get_In_eq. Qed.

Lemma last_opt_map {A B} (f : A -> B) l : last_opt (map f l) = option_map f (last_opt l).
Proof.
  induction l as [|x r IH]; [reflexivity|]. cbn [map]. destruct r as [|y r']; [reflexivity|].
  cbn [map] in *. cbn [last_opt] in *. exact IH.
Qed.

Lemma last_opt_dropN {A} (l : list A) : forall k,
  dropN k l = [] \/ last_opt (dropN k l) = last_opt l.
Proof.
  induction l as [|x r IH]; intros k; cbn [dropN]; [now left|].
  destruct (k =? 0); [now right|].
  destruct r as [|y r']; [now left|].
  destruct (IH (N.pred k)) as [H|H]; [now left|right].
  rewrite H. reflexivity.
Qed.

Lemma truncate_head_next m p :
  next_position (fst (truncate_head m p)) = next_position m \/
  next_position (fst (truncate_head m p)) = p + 1.
Proof.
  unfold truncate_head. destruct (p <? q_start m); [now left|].
  destruct (next_position m <=? p + 1); [now right|]. cbn [fst].
  set (kept := dropN (idx_ge (p + 1) (q_metas m)) (q_metas m)).
  set (off := match kept with m0 :: _ => m_off m0 | [] => 0 end).
  unfold next_position. cbn [q_metas q_start]. rewrite last_opt_map.
  destruct (last_opt_dropN (q_metas m) (idx_ge (p + 1) (q_metas m))) as [H|H]; fold kept in H.
  - rewrite H. now right.
  - rewrite H. destruct (last_opt (q_metas m)) as [ml|]; cbn [option_map rebase m_pos];
      [now left|now right].
Qed.

Section Wf.
Variable P : params.

Lemma rp_log_wf names : forall st, qs_wf (s_qs st) -> log_wf (rp_log P st names).
Proof.
  induction names as [|n r IH]; intros st Hw; cbn [rp_log]; [constructor|].
  destruct (qs_get (s_qs st) n) as [q|] eqn:Hg; [|now apply IH].
  destruct (qs_wf_get _ _ _ Hw Hg) as [Hn Hq].
  constructor; [cbn [snd]; apply wf_entry_simple; auto|].
  destruct (write_entry P st (EPosition n (next_position q))) as [st1 [k|e]] eqn:E; [|constructor].
  apply GcProofs.write_entry_qs in E. apply IH. now rewrite E.
Qed.

Lemma gc_log_wf st hint : qs_wf (s_qs st) -> log_wf (gc_log P st hint).
Proof.
  intros Hw. unfold gc_log. destruct (has_deletable st); [now apply rp_log_wf|constructor].
Qed.

Theorem step_log_wf st o :
  qs_wf (s_qs st) -> op_wf (s_qs st) o -> log_wf (step_log P st o).
Proof.
  intros Hw Ho. destruct o as [q|q hint|q pos payloads|q p hint|a]; cbn [step_log op_wf] in *.
  - unfold create_log. destruct (qs_contains (s_qs st) q); [constructor|].
    constructor; [|constructor]. cbn [snd]. apply wf_entry_simple; auto.
    change (0 < 2 ^ 64). reflexivity.
  - unfold delete_log. destruct (qs_get (s_qs st) q) as [m|] eqn:Hg; [|constructor].
    destruct (qs_wf_get _ _ _ Hw Hg) as [Hn Hq].
    constructor; [cbn [snd]; apply wf_entry_simple; auto|].
    destruct (write_entry P st (EDelete q (next_position m))) as [st1 [k|e]] eqn:E; [|constructor].
    apply GcProofs.write_entry_qs in E. apply gc_log_wf. cbn [set_qs s_qs]. rewrite E.
    now apply qs_wf_remove.
  - rewrite append_log_target. destruct (qs_get (s_qs st) q) as [m|] eqn:Hg; [|constructor].
    destruct (qs_wf_get _ _ _ Hw Hg) as [[Hu Hl] Hq].
    destruct (append_target m pos) as [position|] eqn:Et; [|constructor].
    destruct payloads as [|x r] eqn:Ep; [constructor|]. rewrite <- Ep in *.
    assert (Hlen : 1 <= lenN payloads) by (rewrite Ep, lenN_cons; lia).
    destruct Ho as [Hpl Hpos].
    assert (Hb : position + lenN payloads <= 2 ^ 64).
    { unfold append_target in Et. destruct pos as [p0|].
      - destruct (p0 + 1 =? next_position m); [discriminate|].
        destruct (p0 <? next_position m); [discriminate|]. inversion Et; subst. exact Hpos.
      - inversion Et; subst. now apply Hpos. }
    constructor; [|constructor]. cbn [snd]. apply wf_entry_append; try assumption. lia.
  - unfold truncate_log. destruct (qs_get (s_qs st) q) as [m|] eqn:Hg; [|constructor].
    destruct (qs_wf_get _ _ _ Hw Hg) as [Hn Hq].
    constructor; [cbn [snd]; apply wf_entry_simple; auto; lia|].
    destruct (write_entry P st (ETruncate q p)) as [st1 [k|e]] eqn:E; [|constructor].
    apply GcProofs.write_entry_qs in E. apply gc_log_wf. cbn [set_qs s_qs]. rewrite E.
    apply qs_wf_put; [exact Hw|exact Hn|].
    destruct (truncate_head_next m p) as [H|H]; rewrite H; lia.
  - constructor.
Qed.

(* (3) *)
Theorem gstep_entries_wf : forall st L o tick st' L' out,
  qs_wf (s_qs st) -> op_wf (s_qs st) o ->
  gstep P (st, L) o tick = ((st', L'), out) ->
  exists es, L' = L ++ es /\ Forall (fun fe => wf_entry (snd fe)) es.
Proof.
  intros st L o tick st' L' out Hw Ho H. rewrite gstep_eq in H. inversion H; subst.
  eexists; split; [reflexivity|]. now apply step_log_wf.
Qed.

(* so each logged entry is decoded back to itself *)
Corollary gstep_entries_roundtrip : forall st L o tick st' L' out,
  qs_wf (s_qs st) -> op_wf (s_qs st) o ->
  gstep P (st, L) o tick = ((st', L'), out) ->
  exists es, L' = L ++ es /\
             Forall (fun fe => entry_deser (entry_ser (snd fe)) = Some (snd fe)) es.
Proof.
  intros st L o tick st' L' out Hw Ho H.
  destruct (gstep_entries_wf _ _ _ _ _ _ _ Hw Ho H) as (es & -> & Hf).
  exists es. split; [reflexivity|]. eapply Forall_impl; [|exact Hf].
  intros fe. apply entry_roundtrip.
Qed.

End Wf.

(* ====================================================================== *)
(* 4. the file tags of the log never decrease                             *)
(* ====================================================================== *)

(* lo <= f1 <= f2 <= ... <= fn <= hi *)
Fixpoint tags_mono (lo : N) (es : glog) (hi : N) : Prop :=
  match es with
  | [] => lo <= hi
  | (f, _) :: r => lo <= f /\ tags_mono f r hi
  end.

Lemma tags_mono_le es : forall lo hi, tags_mono lo es hi -> lo <= hi.
Proof.
  induction es as [|[f e] r IH]; intros lo hi; cbn [tags_mono]; [exact (fun H => H)|].
  intros [H1 H2]. apply IH in H2. lia.
Qed.

Lemma tags_mono_lo es lo lo' hi : lo' <= lo -> tags_mono lo es hi -> tags_mono lo' es hi.
Proof.
  destruct es as [|[f e] r]; cbn [tags_mono]; [lia|]. intros H [H1 H2]. split; [lia|exact H2].
Qed.

Lemma tags_mono_hi es : forall lo hi hi', hi <= hi' -> tags_mono lo es hi -> tags_mono lo es hi'.
Proof.
  induction es as [|[f e] r IH]; intros lo hi hi' H; cbn [tags_mono]; [lia|].
  intros [H1 H2]. split; [exact H1|]. eapply IH; eassumption.
Qed.

Lemma tags_mono_app a : forall lo mid b hi,
  tags_mono lo a mid -> tags_mono mid b hi -> tags_mono lo (a ++ b) hi.
Proof.
  induction a as [|[f e] r IH]; intros lo mid b hi; cbn [tags_mono app].
  - intros H. now apply tags_mono_lo.
  - intros [H1 H2] Hb. split; [exact H1|]. eapply IH; eassumption.
Qed.

Lemma tags_mono_cons lo e es hi : tags_mono lo es hi -> tags_mono lo ((lo, e) :: es) hi.
Proof. intros H. cbn [tags_mono]. split; [lia|exact H]. Qed.

(* consecutive entries *)
Lemma tags_mono_consecutive a : forall lo hi f1 e1 f2 e2 b,
  tags_mono lo (a ++ (f1, e1) :: (f2, e2) :: b) hi -> f1 <= f2.
Proof.
  induction a as [|[f e] r IH]; intros lo hi f1 e1 f2 e2 b; cbn [app tags_mono].
  - intros [_ [H _]]. exact H.
  - intros [_ H]. eapply IH; exact H.
Qed.

Lemma tags_mono_bounds es : forall lo hi,
  tags_mono lo es hi -> Forall (fun f => lo <= f <= hi) (map fst es).
Proof.
  induction es as [|[f e] r IH]; intros lo hi; cbn [tags_mono map fst]; [constructor|].
  intros [H1 H2]. pose proof (tags_mono_le _ _ _ H2) as H3. constructor; [lia|].
  eapply Forall_impl; [|apply IH; exact H2]. cbn beta. intros x; lia.
Qed.

Lemma tags_mono_sorted es : forall lo hi,
  tags_mono lo es hi -> StronglySorted N.le (map fst es).
Proof.
  induction es as [|[f e] r IH]; intros lo hi; cbn [tags_mono map fst]; [constructor|].
  intros [H1 H2]. constructor; [eapply IH; exact H2|].
  eapply Forall_impl; [|apply tags_mono_bounds; exact H2]. cbn beta. intros x; lia.
Qed.

Section Tags.
Variable P : params.

Notation fileof st := (w_file (s_wr st)).

Lemma rp_log_tags names : forall st acc,
  wr_ok (s_wr st) ->
  tags_mono (fileof st) (rp_log P st names) (fileof (fst (record_positions P st names acc))) /\
  wr_ok (s_wr (fst (record_positions P st names acc))).
Proof.
  induction names as [|n r IH]; intros st acc Hok; cbn [rp_log record_positions].
  - cbn [fst tags_mono]. split; [lia|exact Hok].
  - destruct (qs_get (s_qs st) n) as [q|]; [|now apply IH].
    destruct (write_entry P st (EPosition n (next_position q))) as [st1 [k|e]] eqn:E;
      apply write_entry_step in E; destruct (E Hok) as [Hok1 Hle].
    + destruct (IH st1 (acc + k) Hok1) as [H1 H2]. split; [|exact H2].
      apply tags_mono_cons. eapply tags_mono_lo; eassumption.
    + cbn [fst tags_mono]. split; [lia|exact Hok1].
Qed.

Lemma gc_log_tags st hint :
  wr_ok (s_wr st) ->
  tags_mono (fileof st) (gc_log P st hint) (fileof (fst (run_gc_if_necessary P st hint))) /\
  wr_ok (s_wr (fst (run_gc_if_necessary P st hint))).
Proof.
  intros Hok.
  assert (Hok' : wr_ok (s_wr (fst (run_gc_if_necessary P st hint)))).
  { destruct (run_gc_if_necessary P st hint) as [st' r] eqn:G.
    now destruct (run_gc_step P _ _ _ _ G Hok). }
  split; [|exact Hok']. clear Hok'.
  unfold gc_log, run_gc_if_necessary. destruct (has_deletable st); [|cbn [fst tags_mono]; lia].
  unfold record_empty_queues_position.
  destruct (rp_log_tags (pick_order hint (empty_names (s_qs st))) st 0 Hok) as [H1 Hok1].
  destruct (record_positions P st (pick_order hint (empty_names (s_qs st))) 0) as [st1 [n|e]];
    cbn [fst] in *; [|exact H1].
  destruct (L_GC P && (n =? 0)).
  - destruct (gc_loop _ _ _) as [[c files] [u|e]]; cbn [fst set_wr s_wr w_file]; exact H1.
  - destruct (gc_loop _ _ _) as [[c files] [u|e]]; cbn [fst set_wr s_wr w_file];
      (eapply tags_mono_hi; [|exact H1]);
      now destruct (persist_step st1 true Hok1).
Qed.

Theorem step_log_tags st o tick :
  wr_ok (s_wr st) ->
  tags_mono (fileof st) (step_log P st o) (fileof (fst (step P st o tick))).
Proof.
  intros Hok. pose proof (step_file_mono P st o tick Hok) as Hmono.
  destruct o as [q|q hint|q pos payloads|q p hint|a]; cbn [step step_log] in *.
  - unfold create_log. destruct (qs_contains (s_qs st) q); [exact Hmono|].
    apply tags_mono_cons. exact Hmono.
  - unfold delete_log, delete_queue in *. destruct (qs_get (s_qs st) q) as [m|]; [|exact Hmono].
    apply tags_mono_cons.
    destruct (write_entry P st (EDelete q (next_position m))) as [st1 [k|e]] eqn:E;
      [|exact Hmono].
    apply write_entry_step in E. destruct (E Hok) as [Hok1 Hle].
    set (st2 := set_qs st1 (qs_remove (s_qs st1) q)) in *.
    destruct (gc_log_tags st2 hint Hok1) as [H1 Hok3].
    destruct (run_gc_if_necessary P st2 hint) as [st3 [k2|e]]; cbn [fst] in *.
    + eapply tags_mono_lo; [exact Hle|]. eapply tags_mono_hi; [|exact H1].
      now destruct (persist_step st3 true Hok3).
    + eapply tags_mono_lo; [exact Hle|exact H1].
  - rewrite append_log_target. destruct (qs_get (s_qs st) q) as [m|]; [|exact Hmono].
    destruct (append_target m pos) as [position|]; [|exact Hmono].
    destruct payloads as [|x r]; [exact Hmono|]. apply tags_mono_cons. exact Hmono.
  - unfold truncate_log, truncate in *. destruct (qs_get (s_qs st) q) as [m|]; [|exact Hmono].
    apply tags_mono_cons.
    destruct (write_entry P st (ETruncate q p)) as [st1 [k|e]] eqn:E; [|exact Hmono].
    apply write_entry_step in E. destruct (E Hok) as [Hok1 Hle].
    destruct (truncate_head m p) as [m' ev]. cbn [fst] in *.
    set (st2 := set_qs st1 (qs_put (s_qs st1) q m')) in *.
    destruct (gc_log_tags st2 hint Hok1) as [H1 Hok3].
    destruct (run_gc_if_necessary P st2 hint) as [st3 [k2|e]]; cbn [fst] in *.
    + eapply tags_mono_lo; [exact Hle|]. eapply tags_mono_hi; [|exact H1].
      now destruct (persist_on_policy_step st3 tick Hok3).
    + eapply tags_mono_lo; [exact Hle|exact H1].
  - exact Hmono.
Qed.

Theorem run_log_tags h : forall st,
  wr_ok (s_wr st) ->
  tags_mono (fileof st) (run_log P st h) (fileof (fst (run P st h))) /\
  wr_ok (s_wr (fst (run P st h))).
Proof.
  induction h as [|[o tick] r IH]; intros st Hok; cbn [run run_log].
  - cbn [fst tags_mono]. split; [lia|exact Hok].
  - pose proof (step_log_tags st o tick Hok) as H1.
    pose proof (step_wr_ok P st o tick Hok) as Hok1.
    destruct (step P st o tick) as [st1 out]. cbn [fst] in *.
    destruct (IH st1 Hok1) as [H2 Hok2].
    destruct (run P st1 r) as [st2 outs]. cbn [fst] in *.
    split; [|exact Hok2]. eapply tags_mono_app; eassumption.
Qed.

(* (4) each logged entry is tagged with a file number between the writer's file before and
   after the call, and the tags never decrease *)
Theorem gstep_tags_mono : forall st L o tick st' L' out,
  wr_ok (s_wr st) -> gstep P (st, L) o tick = ((st', L'), out) ->
  exists es, L' = L ++ es /\ tags_mono (fileof st) es (fileof st').
Proof.
  intros st L o tick st' L' out Hok H. rewrite gstep_eq in H. inversion H; subst.
  eexists; split; [reflexivity|]. now apply step_log_tags.
Qed.

Theorem grun_tags_mono : forall st L h st' L' outs,
  wr_ok (s_wr st) -> grun P (st, L) h = ((st', L'), outs) ->
  exists es, L' = L ++ es /\ tags_mono (fileof st) es (fileof st').
Proof.
  intros st L h st' L' outs Hok H. rewrite grun_eq in H. inversion H; subst.
  eexists; split; [reflexivity|]. now apply run_log_tags.
Qed.

Corollary grun_tags_sorted : forall st h st' L' outs,
  wr_ok (s_wr st) -> grun P (st, []) h = ((st', L'), outs) ->
  StronglySorted N.le (map fst L') /\
  Forall (fun f => fileof st <= f <= fileof st') (map fst L').
Proof.
  intros st h st' L' outs Hok H.
  destruct (grun_tags_mono _ _ _ _ _ _ Hok H) as (es & -> & Ht). cbn [app].
  split; [eapply tags_mono_sorted; exact Ht|apply tags_mono_bounds; exact Ht].
Qed.

Corollary grun_tags_consecutive : forall st h st' outs a f1 e1 f2 e2 b,
  wr_ok (s_wr st) -> grun P (st, []) h = ((st', a ++ (f1, e1) :: (f2, e2) :: b), outs) ->
  f1 <= f2.
Proof.
  intros st h st' outs a f1 e1 f2 e2 b Hok H.
  destruct (grun_tags_mono _ _ _ _ _ _ Hok H) as (es & He & Ht). cbn [app] in He. subst es.
  eapply tags_mono_consecutive; exact Ht.
Qed.

End Tags.

(* ====================================================================== *)
(* 5. the well-formedness hypothesis on the state is itself an invariant   *)
(*    (when batches stay strictly below 2^64), hence whole histories       *)
(* ====================================================================== *)

Definition op_wf_strict (qs : queues) (o : op) : Prop :=
  match o with
  | OCreate q => name_ok q
  | ODelete _ _ => True
  | OAppend q pos payloads =>
      Forall (fun x => lenN x < 2 ^ 32) payloads /\
      match pos with
      | Some p => p + lenN payloads < 2 ^ 64
      | None => forall m, qs_get qs q = Some m -> next_position m + lenN payloads < 2 ^ 64
      end
  | OTruncate _ p _ => p + 1 < 2 ^ 64
  | OPersist _ => True
  end.

Lemma op_wf_strict_wf qs o : op_wf_strict qs o -> op_wf qs o.
Proof.
  destruct o as [q|q hint|q pos payloads|q p hint|a]; cbn [op_wf_strict op_wf]; auto.
  intros [H1 H2]. split; [exact H1|]. destruct pos as [p|]; [lia|].
  intros m Hm. specialize (H2 m Hm). lia.
Qed.

Lemma append_all_next : forall r m f p m',
  next_position m <= p -> append_all m f (number_from p r) = Some m' ->
  next_position m' = match r with [] => next_position m | _ => p + lenN r end.
Proof.
  induction r as [|x r IH]; intros m f p m' Hle; cbn [number_from append_all].
  - intros H; inversion H; subst. reflexivity.
  - destruct (append_record_next m f p x Hle) as (m1 & E1 & Hn). rewrite E1. intros H.
    apply IH in H; [|lia]. rewrite H. destruct r as [|y r'].
    + rewrite lenN_cons, lenN_nil. lia.
    + rewrite (lenN_cons x). lia.
Qed.

Section WfInv.
Variable P : params.

Theorem step_qs_wf st o tick :
  qs_wf (s_qs st) -> op_wf_strict (s_qs st) o -> qs_wf (s_qs (fst (step P st o tick))).
Proof.
  intros Hw Ho. destruct o as [q|q hint|q pos payloads|q p hint|a]; cbn [step op_wf_strict] in *.
  - unfold create_queue. destruct (qs_contains (s_qs st) q); [exact Hw|].
    destruct (write_entry P st (EPosition q 0)) as [st1 [n|e]] eqn:E;
      apply GcProofs.write_entry_qs in E; cbn [fst].
    + cbn [set_qs s_qs persist set_wr]. rewrite E. apply qs_wf_put; [exact Hw|exact Ho|].
      change (0 < 2 ^ 64). reflexivity.
    + now rewrite E.
  - unfold delete_queue. destruct (qs_get (s_qs st) q) as [m|]; [|exact Hw].
    destruct (write_entry P st _) as [st1 [n|e]] eqn:E;
      apply GcProofs.write_entry_qs in E; cbn [fst]; [|now rewrite E].
    pose proof (SpecRefine.run_gc_qs P (set_qs st1 (qs_remove (s_qs st1) q)) hint) as Hgc.
    destruct (run_gc_if_necessary P _ hint) as [st3 [k|e]]; cbn [fst] in *;
      rewrite ?persist_qs, Hgc; cbn [set_qs s_qs]; rewrite E; now apply qs_wf_remove.
  - unfold append_records. destruct (qs_get (s_qs st) q) as [m|] eqn:Hg; [|exact Hw].
    destruct (qs_wf_get _ _ _ Hw Hg) as [Hn Hq].
    destruct (match pos with
              | Some p => if p + 1 =? next_position m then Some (OutAppend None 0)
                          else if p <? next_position m then Some OutPast else None
              | None => None end) as [o|] eqn:Ee; [exact Hw|].
    pose proof (append_target_ge _ _ _ (append_early_target _ _ Ee)) as Hge.
    set (position := match pos with Some p => p | None => next_position m end) in *.
    destruct Ho as [_ Hpos].
    assert (Hb : position + lenN payloads < 2 ^ 64).
    { unfold position. destruct pos as [p0|]; [exact Hpos|now apply Hpos]. }
    destruct payloads as [|x r]; [exact Hw|].
    destruct (append_all_some (x :: r) m (w_file (s_wr st)) position Hge) as (m' & Em).
    pose proof (append_all_next _ _ _ _ _ Hge Em) as Hnext. cbn beta iota in Hnext.
    cbn [number_from] in *. rewrite Em.
    destruct (write_entry P st _) as [st1 [n|e]] eqn:E;
      apply GcProofs.write_entry_qs in E; cbn [fst]; [|now rewrite E].
    cbn [set_qs s_qs]. rewrite persist_on_policy_qs, E.
    apply qs_wf_put; [exact Hw|exact Hn|]. rewrite Hnext. exact Hb.
  - unfold truncate. destruct (qs_get (s_qs st) q) as [m|] eqn:Hg; [|exact Hw].
    destruct (qs_wf_get _ _ _ Hw Hg) as [Hn Hq].
    destruct (write_entry P st _) as [st1 [n|e]] eqn:E;
      apply GcProofs.write_entry_qs in E; cbn [fst]; [|now rewrite E].
    pose proof (truncate_head_next m p) as Hth.
    destruct (truncate_head m p) as [m' ev]. cbn [fst] in Hth.
    pose proof (SpecRefine.run_gc_qs P (set_qs st1 (qs_put (s_qs st1) q m')) hint) as Hgc.
    destruct (run_gc_if_necessary P _ hint) as [st3 [k|e]]; cbn [fst] in *;
      rewrite ?persist_on_policy_qs, Hgc; cbn [set_qs s_qs]; rewrite E;
      (apply qs_wf_put; [exact Hw|exact Hn|]); destruct Hth as [H|H]; rewrite H; lia.
  - exact Hw.
Qed.

(* the arguments of every call of a history are within the Rust type bounds *)
Fixpoint hist_wf (st : state) (h : list (op * bool)) : Prop :=
  match h with
  | [] => True
  | (o, tick) :: r => op_wf_strict (s_qs st) o /\ hist_wf (fst (step P st o tick)) r
  end.

Theorem run_log_wf h : forall st,
  qs_wf (s_qs st) -> hist_wf st h ->
  log_wf (run_log P st h) /\ qs_wf (s_qs (fst (run P st h))).
Proof.
  induction h as [|[o tick] r IH]; intros st Hw; cbn [hist_wf run run_log].
  - intros _. split; [constructor|exact Hw].
  - intros [Ho Hr].
    pose proof (step_log_wf P st o Hw (op_wf_strict_wf _ _ Ho)) as H1.
    pose proof (step_qs_wf st o tick Hw Ho) as Hw1.
    destruct (step P st o tick) as [st1 out]. cbn [fst] in *.
    destruct (IH st1 Hw1 Hr) as [H2 Hw2].
    destruct (run P st1 r) as [st2 outs]. cbn [fst] in *.
    split; [|exact Hw2]. apply Forall_app. split; assumption.
Qed.

Corollary grun_entries_wf : forall st L h st' L' outs,
  qs_wf (s_qs st) -> hist_wf st h ->
  grun P (st, L) h = ((st', L'), outs) ->
  exists es, L' = L ++ es /\ Forall (fun fe => wf_entry (snd fe)) es.
Proof.
  intros st L h st' L' outs Hw Hh H. rewrite grun_eq in H. inversion H; subst.
  eexists; split; [reflexivity|]. now apply run_log_wf.
Qed.

End WfInv.

(* ====================================================================== *)
(* 6. the two corners, on concrete data                                   *)
(* ====================================================================== *)

Definition PG : params := mkParams 64 2 (fun _ _ => 0) 24 false false false.
Definition fsG : fsT := [(filename 0, FFile (zerosN 128)); (filename 1, FFile (zerosN 128))].

(* (a) live_is_replay needs distinct queue names: with a duplicated key the GC records the
   position of the FIRST "a" (not empty) because the SECOND "a" is listed as empty; replaying
   that EPosition resets the first "a", the live state does not. *)
Definition st_dup : state :=
  mkSt (mkWr (ctx_init fsG None) [0; 1] 1 0 [])
       [(["a"%byte], mkMq ["x"%byte] 0 [mkMeta 0 (Some 1) 0]); (["a"%byte], mq_default);
        (["b"%byte], mq_default)] PNothing.

Example dup_names_break_replay :
  let '((st', L'), out) := gstep PG (st_dup, []) (ODelete ["b"%byte] []) false in
  out = OutDelete 38 /\
  L' = [(1, EDelete ["b"%byte] 0); (1, EPosition ["a"%byte] 1)] /\
  s_qs st' = [(["a"%byte], mkMq ["x"%byte] 0 [mkMeta 0 (Some 1) 0]); (["a"%byte], mq_default)] /\
  replay_entries (s_qs st_dup) L' =
    Some [(["a"%byte], mkMq [] 1 []); (["a"%byte], mq_default)].
Proof. vm_compute. repeat split. Qed.

(* (b) truncate at u64::MAX: the emptied queue has next position 2^64, the GC logs it, and the
   codec wraps it to 0 — hence `p + 1 < 2^64` in op_wf *)
Definition st_max : state :=
  mkSt (mkWr (ctx_init fsG None) [0; 1] 1 0 []) [(["a"%byte], mq_default)] PNothing.

Example truncate_max_not_wf :
  let '((st', L'), out) := gstep PG (st_max, []) (OTruncate ["a"%byte] (2 ^ 64 - 1) []) false in
  L' = [(1, ETruncate ["a"%byte] (2 ^ 64 - 1)); (1, EPosition ["a"%byte] (2 ^ 64))] /\
  entry_deser (entry_ser (EPosition ["a"%byte] (2 ^ 64))) = Some (EPosition ["a"%byte] 0).
Proof. vm_compute. repeat split. Qed.

Print Assumptions gstep_erase.
Print Assumptions grun_erase.
Print Assumptions gstep_log_extends.
Print Assumptions live_is_replay.
Print Assumptions live_is_replay_no_gc.
Print Assumptions history_is_replay.
Print Assumptions history_from_empty_is_replay.
Print Assumptions step_nodup.
Print Assumptions replay_from_nil_nodup.
Print Assumptions gstep_entries_wf.
Print Assumptions grun_entries_wf.
Print Assumptions gstep_tags_mono.
Print Assumptions grun_tags_sorted.
Print Assumptions grun_tags_consecutive.
Print Assumptions dup_names_break_replay.
Print Assumptions truncate_max_not_wf.
