(* PersistSurvive.v — property C03, process-crash model, end to end: from a persist point (a state
   satisfying the restart invariant with nothing buffered), after ANY further history under ANY
   persist policy, EVERY process-crash image of the directory is recovered by `open` to the
   abstract state after SOME prefix of the history (never older than the persist point, never an
   inconsistent mixture); and once a call has left nothing buffered, no later crash can undo it
   or anything before it. *)
From Coq Require Import Lia ZArith ZifyN ZifyNat ZifyBool List Sorted.
From MRL Require Import Bytes BytesProofs Params Names NamesProofs Frame Record Mem Spec Rolling Log
  Driver Hist SpecRefine RecordProofs StreamProofs PolicyProofs GcProofs GhostLog ReplaySpec
  HandleProofs FileStream ResyncProofs TornProofs PersistProofs WriterProofs EffectsProofs
  RestartInv RestartWrite RestartGc RestartStep OpenReplay RestartFinal TornFile CrashTrace
  PersistTrace PersistGc PersistLogic PersistRecover.

Arguments N.add : simpl never.
Arguments N.sub : simpl never.
Arguments N.mul : simpl never.
Arguments N.eqb : simpl never.
Arguments N.ltb : simpl never.
Arguments N.leb : simpl never.
Arguments N.div : simpl never.
Arguments N.modulo : simpl never.
Arguments N.min : simpl never.
Arguments N.max : simpl never.

Lemma app_self_nil {A} (a l : list A) : l = a ++ l -> a = [].
Proof.
  intros H. apply (f_equal (@length A)) in H. rewrite app_length in H.
  destruct a; [reflexivity|cbn [length] in H; lia].
Qed.

Lemma cpre_nil_inv pe : cpre pe [] -> pe = [].
Proof. intros H. inversion H. reflexivity. Qed.

Section Main.
Variable P : params.
Hypothesis HBS_lo : 7 < BS P.
Hypothesis HBS_hi : BS P <= 65542.
Hypothesis HNB : 1 <= NB P.
Hypothesis Hcrc : forall t p, crcf P t p < 2 ^ 32.
Hypothesis HGC : L_GC P = false.
Hypothesis HIO : L_IO P = false.
Hypothesis HSHORT : L_SHORT P = false.
Hypothesis Hnc : no_zero_collision P.

Local Notation B := (BS P).
Local Notation FB := (FILE_BYTES P).
Local Notation encs_of := (encs_of P).
Local Notation cursor_after := (cursor_after P).
Local Notation sr := (map entry_ser).
Local Notation HW f := (f P HBS_lo HBS_hi HNB Hcrc) (only parsing).
Local Notation HG f := (f P HBS_lo HBS_hi HNB Hcrc HGC) (only parsing).
Local Notation HN f := (f P HBS_lo HBS_hi HNB) (only parsing).
Local Notation H3 f := (f P HBS_lo HBS_hi Hcrc) (only parsing).
Local Notation HA f := (f P HBS_lo HBS_hi HNB Hcrc HGC HIO HSHORT Hnc) (only parsing).
Local Notation Inv := (Inv P).
Local Notation stream_bound := (stream_bound P).
Local Notation absq st := (abs_qs (s_qs st)).
Local Notation MAXB := (FB * (U64_MAX + 1)).
Local Notation stN st h m := (fst (run P st (firstn m h))).
Local Notation wabs := (wabs P).

(* ---------- the bound needed by the recovery-time garbage collector ----------
   from any position up to one block after the writer's position at any call boundary of the
   history, the position entries of the empty queues of the state after any prefix of the history
   fit below 2^64 files *)
Definition CB (st : state) (h : list (op * bool)) : Prop :=
  forall m1 m2 a extra, (m1 <= length h)%nat -> (m2 <= length h)%nat ->
    a <= wabs (s_wr (stN st h m1)) + B ->
    pos_extra (absq (stN st h m2)) extra -> cursor_after a (sr extra) <= MAXB.

Lemma CB_at st h m1 : CB st h -> (m1 <= length h)%nat ->
  crash_bound_at P st h (wabs (s_wr (stN st h m1))).
Proof. intros H Hm a extra m Hm' Ha Hx. exact (H m1 m a extra Hm Hm' Ha Hx). Qed.

Lemma CB_prefix st a b : CB st (a ++ b) -> CB st a.
Proof.
  intros H m1 m2 x extra H1 H2 Ha Hx.
  apply (H m1 m2 x extra); rewrite ?app_length; try lia; rewrite (HN stN_app_le) by lia; assumption.
Qed.

Lemma CB_suffix st a b : CB st (a ++ b) -> CB (fst (run P st a)) b.
Proof.
  intros H m1 m2 x extra H1 H2 Ha Hx.
  apply (H (length a + m1)%nat (length a + m2)%nat x extra); rewrite ?app_length; try lia;
    rewrite (HN stN_app_ge); assumption.
Qed.

(* the trace invariant relative to the anchor st_g *)
Definition ATI (st_g : state) (M : N) (w' : rwriter) (D : bytes) : Prop :=
  let w := s_wr st_g in
  tinv P (c_ev (w_ctx w)) (c_fs (w_ctx w)) (w_file w) (w_off w) M
       (takeN (wpos P w) (wstream w)) (wlo w) (wpos P w) w' D.

(* the events of a call, then the events of the rest of the history *)
Lemma ev_split st o t h evs :
  c_ev (w_ctx (s_wr (fst (run P st ((o, t) :: h))))) = rev evs ++ c_ev (w_ctx (s_wr st)) ->
  let st' := fst (step P st o t) in
  exists evs1 evs2, evs = evs1 ++ evs2 /\
    c_ev (w_ctx (s_wr st')) = rev evs1 ++ c_ev (w_ctx (s_wr st)) /\
    c_ev (w_ctx (s_wr (fst (run P st' h)))) = rev evs2 ++ c_ev (w_ctx (s_wr st')).
Proof.
  intros H st'. rewrite run_cons_fst in H. fold st' in H.
  destruct (step_cext P st o t) as (e1 & H1 & _). fold st' in H1.
  destruct (run_cext P h st') as (e2 & H2' & _).
  exists (rev e1), (rev e2). rewrite !rev_involutive. split; [|split; assumption].
  rewrite H2', H1, app_assoc in H. apply app_inv_tail in H.
  apply rev_inj. rewrite rev_app_distr, !rev_involutive. now symmetry.
Qed.

Lemma anchor_ATI st_g G_g h :
  Inv st_g G_g -> w_pending (s_wr st_g) = [] ->
  stream_bound G_g (map snd (run_log P st_g h)) ->
  ATI st_g (wpos P (s_wr st_g) + lenN (encs_of (wpos P (s_wr st_g)) (sr (map snd (run_log P st_g h)))))
      (s_wr st_g) [].
Proof. intros (HP & _) Hp Hb. exact (HW anchor_tinv (s_wr st_g) G_g _ HP Hp Hb). Qed.

(* ====================================================================== *)
(* the crash images of a history, segment by segment                       *)
(* ====================================================================== *)
Lemma seg_main : forall h h_pre st_g G_g st_i G_i D_i M,
  Inv st_g G_g -> w_pending (s_wr st_g) = [] ->
  fst (run P st_g h_pre) = st_i ->
  hist_wf P st_g (h_pre ++ h) ->
  stream_bound G_g (map snd (run_log P st_g (h_pre ++ h))) ->
  Inv st_i G_i -> stream_bound G_i (map snd (run_log P st_i h)) ->
  M = wpos P (s_wr st_g) +
      lenN (encs_of (wpos P (s_wr st_g)) (sr (map snd (run_log P st_g (h_pre ++ h))))) ->
  ATI st_g M (s_wr st_i) D_i ->
  D_i = encs_of (wpos P (s_wr st_g)) (sr (map snd (run_log P st_g h_pre))) ->
  (forall m, (m <= length h_pre)%nat -> wlo (s_wr (stN st_g h_pre m)) = wlo (s_wr st_g)) ->
  CB st_g (h_pre ++ h) ->
  forall evs, c_ev (w_ctx (s_wr (fst (run P st_i h)))) = rev evs ++ c_ev (w_ctx (s_wr st_i)) ->
  (* the directory is the replay of the events *)
  c_fs (w_ctx (s_wr (fst (run P st_i h)))) = fold_left apply_event evs (c_fs (w_ctx (s_wr st_i))) /\
  (* every crash image is recovered *)
  forall pt, cpre pt evs -> forall pol hint,
  exists m st_r, (m <= length (h_pre ++ h))%nat /\
    open P (fold_left apply_event pt (c_fs (w_ctx (s_wr st_i)))) None pol hint = OpenOk st_r /\
    forall q, s_get (absq st_r) q = s_get (absq (stN st_g (h_pre ++ h) m)) q.
Proof.
  induction h as [|[o t] h IH];
    intros h_pre st_g G_g st_i G_i D_i M HIg Hpg Hrun Hwf Hbg HIi Hbi EM Ht ED Hwlo Hcb
           evs Hev.
  - (* no further call: the crash is at st_i (its buffered bytes are lost) *)
    cbn [run fst] in Hev. apply app_self_nil in Hev.
    assert (evs = []) by (apply rev_inj; exact Hev). subst evs.
    split; [reflexivity|]. intros pt Hc pol hint.
    apply cpre_nil_inv in Hc. subst pt. cbn [fold_left]. rewrite app_nil_r in *.
    destruct (tinv_facts _ _ _ _ _ _ _ _ _ _ _ Ht) as (_ & _ & (E & Dos & HevE & HfsE & _)).
    rewrite HfsE.
    assert (Hwlo' : forall m, (m < length h_pre)%nat -> wlo (s_wr (stN st_g h_pre m)) = wlo (s_wr st_g))
      by (intros m Hm; apply Hwlo; lia).
    assert (Hcb' : crash_bound_at P st_g h_pre (wabs (s_wr st_i))).
    { rewrite <- Hrun. rewrite <- (firstn_all h_pre) at 2. apply CB_at; [exact Hcb|lia]. }
    exact (HA tinv_recover st_g G_g h_pre st_i D_i M E pol hint HIg Hpg Hrun Hwf Hbg Ht ED
             Hwlo' Hcb' E HevE (cpre_refl E)).
  - (* one more call *)
    pose proof Hwf as Hwf0. apply hist_wf_app in Hwf0. destruct Hwf0 as (Hwf_pre & Hwf_i).
    rewrite Hrun in Hwf_i. cbn [hist_wf] in Hwf_i. destruct Hwf_i as (Hop & Hwf_h).
    cbn [run_log] in Hbi. rewrite map_app in Hbi.
    assert (Hb1 : stream_bound G_i (map snd (step_log P st_i o))).
    { eapply (HW stream_bound_prefix); eassumption. }
    pose proof (HG step_no_io st_i G_i o t HIi Hop Hb1) as Hno.
    destruct (ev_split st_i o t h evs Hev) as (evs1 & evs2 & Eevs & Hev1 & Hev2).
    destruct (step P st_i o t) as [st' out] eqn:Es. cbn [fst snd] in *.
    destruct (HG inv_step st_i G_i o t st' out HIi Hop Hb1 Es Hno) as (G' & HI' & Eb' & Ed' & El').
    assert (Hb2 : stream_bound G' (map snd (run_log P st' h))).
    { unfold RestartWrite.stream_bound in *. rewrite Eb'.
      unfold gh_ALL in *. rewrite Ed', El'.
      replace ((gh_dropped G_i ++ map snd (gh_log G_i ++ step_log P st_i o)) ++ map snd (run_log P st' h))
        with ((gh_dropped G_i ++ map snd (gh_log G_i)) ++
              map snd (step_log P st_i o) ++ map snd (run_log P st' h)); [exact Hbi|].
      rewrite map_app, !app_assoc. reflexivity. }
    assert (Er' : fst (run P st_g (h_pre ++ [(o, t)])) = st').
    { rewrite (run_app_fst P), Hrun, run_cons_fst, Es. reflexivity. }
    assert (Eapp : (h_pre ++ [(o, t)]) ++ h = h_pre ++ (o, t) :: h)
      by (rewrite <- app_assoc; reflexivity).
    set (cur0 := wpos P (s_wr st_g)) in *.
    set (D' := D_i ++ encs_of (cur0 + lenN D_i) (sr (map snd (step_log P st_i o)))).
    assert (Elog1 : run_log P st_g (h_pre ++ [(o, t)]) = run_log P st_g h_pre ++ step_log P st_i o).
    { rewrite (run_log_app P), Hrun. cbn [run_log]. now rewrite app_nil_r. }
    assert (ED' : D' = encs_of cur0 (sr (map snd (run_log P st_g (h_pre ++ [(o, t)]))))).
    { unfold D'. rewrite Elog1, !map_app, (H3 encs_of_app), <- ED. reflexivity. }
    assert (HM : cur0 + lenN D_i +
                 lenN (encs_of (cur0 + lenN D_i) (sr (map snd (step_log P st_i o)))) <= M).
    { rewrite EM, <- Eapp, (run_log_app P), Er', !map_app, (H3 encs_of_app), <- ED', lenN_app.
      unfold D'. rewrite lenN_app. lia. }
    destruct (tinv_facts _ _ _ _ _ _ _ _ _ _ _ Ht) as (_ & _ & (E_i & Dos_i & HevEi & HfsEi & _)).
    (* the history up to and including this call *)
    assert (Hwf1 : hist_wf P st_g (h_pre ++ [(o, t)])).
    { rewrite <- Eapp in Hwf. apply hist_wf_app in Hwf. apply Hwf. }
    assert (Hbg1 : stream_bound G_g (map snd (run_log P st_g (h_pre ++ [(o, t)])))).
    { rewrite <- Eapp in Hbg. exact (stream_bound_app P HBS_lo HBS_hi HNB Hcrc _ _ _ _ Hbg). }
    assert (Hcb1 : CB st_g (h_pre ++ [(o, t)])).
    { rewrite <- Eapp in Hcb. exact (CB_prefix _ _ _ Hcb). }
    assert (Hlen1 : length (h_pre ++ [(o, t)]) = S (length h_pre))
      by (rewrite app_length; cbn [length]; lia).
    assert (Hst1 : stN st_g (h_pre ++ [(o, t)]) (S (length h_pre)) = st').
    { rewrite <- Hlen1, firstn_all. exact Er'. }
    assert (Hwlo1 : forall m, (m < length (h_pre ++ [(o, t)]))%nat ->
              wlo (s_wr (stN st_g (h_pre ++ [(o, t)]) m)) = wlo (s_wr st_g)).
    { intros m Hm. rewrite (HN stN_app_le) by lia. apply Hwlo. lia. }
    assert (Hcb1' : crash_bound_at P st_g (h_pre ++ [(o, t)]) (wabs (s_wr st'))).
    { rewrite <- Hst1. apply CB_at; [exact Hcb1|lia]. }
    (* the conclusion, from a recovery to a prefix of the history up to this call *)
    assert (Hlift : forall pol hint img,
              (exists m st_r, (m <= length (h_pre ++ [(o, t)]))%nat /\
                 open P img None pol hint = OpenOk st_r /\
                 forall q, s_get (absq st_r) q = s_get (absq (stN st_g (h_pre ++ [(o, t)]) m)) q) ->
              exists m st_r, (m <= length (h_pre ++ (o, t) :: h))%nat /\
                 open P img None pol hint = OpenOk st_r /\
                 forall q, s_get (absq st_r) q = s_get (absq (stN st_g (h_pre ++ (o, t) :: h) m)) q).
    { intros pol hint img (m & st_r & Hm & Ho & Hq). exists m, st_r.
      split; [rewrite <- Eapp, app_length; lia|]. split; [exact Ho|].
      intros q. rewrite <- Eapp, (HN stN_app_le) by exact Hm. apply Hq. }
    (* continuation: the segment goes on *)
    assert (ContN : ATI st_g M (s_wr st') D' ->
              c_fs (w_ctx (s_wr st')) = fold_left apply_event evs1 (c_fs (w_ctx (s_wr st_i))) ->
              c_fs (w_ctx (s_wr (fst (run P st' h)))) = fold_left apply_event evs2 (c_fs (w_ctx (s_wr st'))) /\
              forall pt2, cpre pt2 evs2 -> forall pol hint,
              exists m st_r, (m <= length (h_pre ++ (o, t) :: h))%nat /\
                open P (fold_left apply_event (evs1 ++ pt2) (c_fs (w_ctx (s_wr st_i)))) None pol hint
                  = OpenOk st_r /\
                forall q, s_get (absq st_r) q = s_get (absq (stN st_g (h_pre ++ (o, t) :: h) m)) q).
    { intros Ht' Hfs'.
      specialize (IH (h_pre ++ [(o, t)]) st_g G_g st' G' D' M HIg Hpg Er').
      rewrite Eapp in IH.
      assert (Hwlo2 : forall m, (m <= length (h_pre ++ [(o, t)]))%nat ->
                wlo (s_wr (stN st_g (h_pre ++ [(o, t)]) m)) = wlo (s_wr st_g)).
      { intros m Hm. destruct (Nat.eq_dec m (S (length h_pre))) as [->|Hne].
        - rewrite Hst1. now destruct (tinv_facts _ _ _ _ _ _ _ _ _ _ _ Ht') as (_ & Hlo' & _).
        - apply Hwlo1. lia. }
      destruct (IH Hwf Hbg HI' Hb2 EM Ht' ED' Hwlo2 Hcb evs2 Hev2) as [IH1 IH2].
      split; [exact IH1|]. intros pt2 Hc2 pol hint. rewrite fold_left_app, <- Hfs'.
      exact (IH2 pt2 Hc2 pol hint). }
    (* continuation: a new segment starts at st' *)
    assert (ContA : w_pending (s_wr st') = [] ->
              c_fs (w_ctx (s_wr st')) = fold_left apply_event evs1 (c_fs (w_ctx (s_wr st_i))) ->
              c_fs (w_ctx (s_wr (fst (run P st' h)))) = fold_left apply_event evs2 (c_fs (w_ctx (s_wr st'))) /\
              forall pt2, cpre pt2 evs2 -> forall pol hint,
              exists m st_r, (m <= length (h_pre ++ (o, t) :: h))%nat /\
                open P (fold_left apply_event (evs1 ++ pt2) (c_fs (w_ctx (s_wr st_i)))) None pol hint
                  = OpenOk st_r /\
                forall q, s_get (absq st_r) q = s_get (absq (stN st_g (h_pre ++ (o, t) :: h) m)) q).
    { intros Hp' Hfs'.
      assert (Hwlo2 : forall m, (m <= length (@nil (op * bool)))%nat ->
                wlo (s_wr (stN st' (@nil (op * bool)) m)) = wlo (s_wr st')).
      { intros m Hm. destruct m; [reflexivity|cbn [length] in Hm; lia]. }
      assert (Hcb2 : CB st' ([] ++ h)).
      { cbn [app]. rewrite <- Er'. apply CB_suffix. rewrite Eapp. exact Hcb. }
      destruct (IH [] st' G' st' G' [] _ HI' Hp' eq_refl Hwf_h Hb2 HI' Hb2 eq_refl
                  (anchor_ATI st' G' h HI' Hp' Hb2) eq_refl Hwlo2 Hcb2 evs2 Hev2) as [IH1 IH2].
      split; [exact IH1|]. intros pt2 Hc2 pol hint. rewrite fold_left_app, <- Hfs'.
      destruct (IH2 pt2 Hc2 pol hint) as (m & st_r & Hm & Ho & Hq).
      cbn [app] in *. exists (S (length h_pre) + m)%nat, st_r.
        split; [rewrite <- Eapp, app_length, Hlen1; lia|]. split; [exact Ho|].
        intros q. rewrite Hq, <- Eapp, <- Hlen1, (HN stN_app_ge), Er'. reflexivity. }
    assert (Hfin0 : forall (Hfs' : c_fs (w_ctx (s_wr st')) =
                                  fold_left apply_event evs1 (c_fs (w_ctx (s_wr st_i)))),
              c_fs (w_ctx (s_wr (fst (run P st' h)))) = fold_left apply_event evs2 (c_fs (w_ctx (s_wr st'))) ->
              c_fs (w_ctx (s_wr (fst (run P st_i ((o, t) :: h))))) =
              fold_left apply_event evs (c_fs (w_ctx (s_wr st_i)))).
    { intros Hfs' H. rewrite run_cons_fst, Es. cbn [fst]. rewrite H, Hfs', Eevs, fold_left_app.
      reflexivity. }
    destruct (HW gstep_trace _ _ _ _ _ _ _ _ st_i D_i o t st' out Ht HM Es Hno) as [HN|[HPk|HGk]].
    + (* ---------- (N): the call only wrote / buffered data ---------- *)
      fold D' in HN.
      destruct (tinv_facts _ _ _ _ _ _ _ _ _ _ _ HN) as (_ & _ & (E' & Dos' & HevE' & HfsE' & _)).
      assert (EE : E' = E_i ++ evs1).
      { rewrite HevE', HevEi, app_assoc in Hev1. apply app_inv_tail in Hev1.
        apply rev_inj. rewrite rev_app_distr. exact Hev1. }
      assert (Hfs' : c_fs (w_ctx (s_wr st')) = fold_left apply_event evs1 (c_fs (w_ctx (s_wr st_i)))).
      { rewrite HfsE', EE, fold_left_app, <- HfsEi. reflexivity. }
      destruct (ContN HN Hfs') as [C1 C2].
      split; [exact (Hfin0 Hfs' C1)|]. intros pt Hc pol hint. rewrite Eevs in Hc.
      destruct (cpre_app_inv _ _ _ Hc) as [Hc1|(pt2 & -> & Hc2)]; [|now apply C2].
      apply Hlift. rewrite HfsEi, <- fold_left_app.
      apply (HA tinv_recover st_g G_g (h_pre ++ [(o, t)]) st' D' M (E_i ++ pt) pol hint
               HIg Hpg Er' Hwf1 Hbg1 HN ED' Hwlo1 Hcb1' E' HevE').
      rewrite EE. now apply cpre_app_r.
    + (* ---------- (P): the call ended with a flush group ---------- *)
      fold D' in HPk.
      destruct HPk as (wevs & a & HevP & HfsP & HtrP & HpP & HloP).
      assert (EE : wevs ++ flush_group (w_file (s_wr st')) a = E_i ++ evs1).
      { rewrite HevP, HevEi, app_assoc in Hev1. apply app_inv_tail in Hev1.
        apply rev_inj. rewrite (rev_app_distr E_i). exact Hev1. }
      assert (Hfs' : c_fs (w_ctx (s_wr st')) = fold_left apply_event evs1 (c_fs (w_ctx (s_wr st_i)))).
      { rewrite HfsP, EE, fold_left_app, <- HfsEi. reflexivity. }
      destruct (ContA HpP Hfs') as [C1 C2].
      split; [exact (Hfin0 Hfs' C1)|]. intros pt Hc pol hint. rewrite Eevs in Hc.
      destruct (cpre_app_inv _ _ _ Hc) as [Hc1|(pt2 & -> & Hc2)]; [|now apply C2].
      apply Hlift. rewrite HfsEi, <- fold_left_app.
      pose proof HI' as (((_ & _ & _ & _ & Hu' & _) & _) & _).
      apply (HA torn_recover st_g G_g (h_pre ++ [(o, t)]) D' (w_file (s_wr st')) (w_off (s_wr st'))
               wevs (flush_group (w_file (s_wr st')) a) (E_i ++ pt) pol hint
               HIg Hpg Hwf1 Hbg1 ED' HtrP (flush_group_noop _ _) Hu').
      * rewrite EE. now apply cpre_app_r.
      * exact Hwlo1.
      * intros _ _ _ _ _. rewrite Er'. exact HloP.
      * exact Hcb1'.
    + (* ---------- (G): the garbage collector unlinked files ---------- *)
      fold D' in HGk.
      destruct HGk as (st2 & st3 & k & e & D2 & Hmid & Hown & Hdel & Hgc & Efin & ED2 & Ht2 & Elog & ED'g).
      assert (HM2 : cur0 + lenN D2 +
                    lenN (encs_of (cur0 + lenN D2) (sr (map snd (gc_log P st2 (gc_hint o))))) <= M).
      { rewrite Elog in HM. cbn [map snd ResyncProofs.encs_of] in HM. rewrite lenN_app in HM.
        fold cur0 in ED2. rewrite ED2, lenN_app, !N.add_assoc. lia. }
      destruct (HG gc_trace _ _ _ _ _ _ _ _ st2 D2 (gc_hint o) st3 k Ht2 HM2 Hdel Hgc)
        as (wevs & mg & c & files' & Hev1g & Hfs1g & Htrg & Hp1g & Egc & Efiles & Est3 & Hevc & Hfsc &
            Hmg & Epol1 & Eqs1 & Hlo1g & Hwi1).
      cbn zeta in *. rewrite <- ED'g in Htrg.
      set (st1 := gc_st1 P st2 (gc_hint o)) in *. set (f1 := w_file (s_wr st1)) in *.
      (* the end of the call: at most one more flush group *)
      assert (Hp3 : w_pending (s_wr st3) = []) by (rewrite Est3; cbn [set_wr s_wr w_pending]; exact Hp1g).
      assert (Hf3 : w_file (s_wr st3) = f1) by (rewrite Est3; reflexivity).
      assert (Hfin : exists tailf, (tailf = [] \/ exists a, tailf = flush_group f1 a) /\
                c_ev (w_ctx (s_wr st')) = rev tailf ++ c_ev (w_ctx (s_wr st3)) /\
                c_fs (w_ctx (s_wr st')) = c_fs (w_ctx (s_wr st3)) /\ w_pending (s_wr st') = [] /\
                w_file (s_wr st') = w_file (s_wr st3) /\ w_off (s_wr st') = w_off (s_wr st3)).
      { assert (Hper : forall a, exists tailf, (tailf = [] \/ exists a, tailf = flush_group f1 a) /\
                  c_ev (w_ctx (s_wr (persist st3 a))) = rev tailf ++ c_ev (w_ctx (s_wr st3)) /\
                  c_fs (w_ctx (s_wr (persist st3 a))) = c_fs (w_ctx (s_wr st3)) /\
                  w_pending (s_wr (persist st3 a)) = [] /\
                  w_file (s_wr (persist st3 a)) = w_file (s_wr st3) /\
                  w_off (s_wr (persist st3 a)) = w_off (s_wr st3)).
        { intros a. destruct (persist_ev_nil (s_wr st3) a Hp3) as (K1 & K2 & _ & K4 & K5 & K6).
          exists (flush_group (w_file (s_wr st3)) a). cbn [persist set_wr s_wr].
          split; [right; exists a; now rewrite Hf3|]. auto. }
        assert (Hnone : exists tailf, (tailf = [] \/ exists a, tailf = flush_group f1 a) /\
                  c_ev (w_ctx (s_wr st3)) = rev tailf ++ c_ev (w_ctx (s_wr st3)) /\
                  c_fs (w_ctx (s_wr st3)) = c_fs (w_ctx (s_wr st3)) /\ w_pending (s_wr st3) = [] /\
                  w_file (s_wr st3) = w_file (s_wr st3) /\ w_off (s_wr st3) = w_off (s_wr st3)).
        { exists []. split; [now left|]. auto. }
        rewrite Efin. destruct o; cbn [fin_state]; try apply Hper.
        all: unfold persist_on_policy; destruct (s_pol st3) as [|a|a];
          [exact Hnone|destruct t; [apply Hper|exact Hnone]|apply Hper]. }
      destruct Hfin as (tailf & Htailf0 & Hevf & Hfsf & Hpf & Hff & Hof).
      assert (Htailf : Forall noop_ev tailf).
      { destruct Htailf0 as [->|(a & ->)]; [constructor|apply flush_group_noop]. }
      assert (Hfs3 : c_fs (w_ctx (s_wr st3)) = remove_files (c_fs (w_ctx (s_wr st1))) (iota (wlo (s_wr st_g)) mg)).
      { rewrite Est3. cbn [set_wr s_wr w_ctx]. exact Hfsc. }
      assert (Hev3 : c_ev (w_ctx (s_wr st3)) = rev (unlinks (wlo (s_wr st_g)) mg) ++ c_ev (w_ctx (s_wr st1))).
      { rewrite Est3. cbn [set_wr s_wr w_ctx]. exact Hevc. }
      assert (EE : wevs ++ flush_group f1 true ++ unlinks (wlo (s_wr st_g)) mg ++ tailf = E_i ++ evs1).
      { rewrite Hevf, Hev3, Hev1g, HevEi in Hev1. rewrite !app_assoc in Hev1. apply app_inv_tail in Hev1.
        apply rev_inj. rewrite (rev_app_distr E_i), !rev_app_distr.
        rewrite <- Hev1, rev_app_distr, !app_assoc. reflexivity. }
      assert (Hfold1 : forall fs, fold_left apply_event (flush_group f1 true ++ unlinks (wlo (s_wr st_g)) mg ++ tailf) fs
                         = remove_files fs (iota (wlo (s_wr st_g)) mg)).
      { intros fs. rewrite !fold_left_app, fold_flush_group, (proj1 (noop_fold _ Htailf)).
        unfold unlinks. apply fold_unlinks. }
      assert (Hfs' : c_fs (w_ctx (s_wr st')) = fold_left apply_event evs1 (c_fs (w_ctx (s_wr st_i)))).
      { rewrite HfsEi, <- fold_left_app, <- EE, fold_left_app, Hfold1, <- Hfs1g, Hfsf. exact Hfs3. }
      destruct (ContA Hpf Hfs') as [C1 C2].
      split; [exact (Hfin0 Hfs' C1)|]. intros pt Hc pol hint. rewrite Eevs in Hc.
      destruct (cpre_app_inv _ _ _ Hc) as [Hc1|(pt2 & -> & Hc2)]; [|now apply C2].
      apply Hlift. rewrite HfsEi, <- fold_left_app.
      assert (Hc1' : cpre (E_i ++ pt) (wevs ++ flush_group f1 true ++ unlinks (wlo (s_wr st_g)) mg ++ tailf)).
      { rewrite EE. now apply cpre_app_r. }
      pose proof Hwi1 as (_ & _ & _ & _ & Hu1 & _).
      destruct (cpre_app_inv _ _ _ Hc1') as [Hcw|(ptu & Eptu & Hcu)].
      * (* before the unlinks *)
        apply (HA torn_recover st_g G_g (h_pre ++ [(o, t)]) D' f1 (w_off (s_wr st1))
                 wevs [] (E_i ++ pt) pol hint HIg Hpg Hwf1 Hbg1 ED' Htrg (Forall_nil _) Hu1).
        -- rewrite app_nil_r. exact Hcw.
        -- exact Hwlo1.
        -- intros pre o0 t0 Hsp Hm0. exfalso. apply app_inj_tail in Hsp. destruct Hsp as [<- Ho0].
           injection Ho0 as <- <-. rewrite Hrun, Hmid in Hm0. discriminate.
        -- replace (f1 * FB + w_off (s_wr st1)) with (wabs (s_wr st')); [exact Hcb1'|].
           unfold PersistGc.wabs. rewrite Hff, Hof, Est3. reflexivity.
      * (* among or after the unlinks *)
        assert (Hcu2 : exists a', cpre ptu (flush_group f1 true ++ unlinks (wlo (s_wr st_g)) mg ++
                                            flush_group f1 a')).
        { destruct Htailf0 as [->|(a & ->)]; [|now exists a].
          exists false. rewrite app_nil_r in Hcu. rewrite app_assoc. now apply cpre_app_l. }
        destruct Hcu2 as (a' & Hcu2).
        destruct (HN tail_prefix _ _ _ _ _ _ Hcu2) as (mu & Hmu & Hfoldu & _).
        rewrite Eptu, fold_left_app, Hfoldu, <- Hfs1g, <- Hlo1g.
        assert (Eabs : forall q, s_get (absq st') q = s_get (absq st2) q).
        { intros q. pose proof (step_mid_qs P st_i o t st2 Hmid) as Hs. rewrite Es in Hs.
          cbn [fst snd] in Hs. now rewrite (Hs Hno). }
        rewrite <- Hlo1g in Efiles.
        destruct (unlink_recover P HBS_lo HBS_hi HNB Hcrc HGC HIO st_i G_i o st2 e st3 k mg c files' mu (wabs (s_wr st1)) pol hint
                    HIi Hop Hb1 Hmid Hown Hdel Hgc Egc Efiles Hmu) as (st_r & Ho & Hq).
        -- intros a extra Ha Hx. apply (Hcb1' a extra (S (length h_pre))); [lia| |].
           ++ replace (wabs (s_wr st')) with (wabs (s_wr st1)); [exact Ha|].
              unfold PersistGc.wabs. rewrite Hff, Hof, Est3. reflexivity.
           ++ rewrite Hst1. apply (pos_extra_ext (absq st2)); [exact Eabs|exact Hx].
        -- reflexivity.
        -- exists (S (length h_pre)), st_r. split; [lia|]. split; [exact Ho|].
           intros q. rewrite Hst1, Hq, Eabs. reflexivity.
Qed.

(* ====================================================================== *)
(* the theorems                                                            *)
(* ====================================================================== *)

(* the invariant along a history (RestartStep.inv_run without the hypothesis on the outcomes:
   under the invariant and the bound no call reports an I/O error) *)
Lemma run_inv h : forall st G,
  Inv st G -> hist_wf P st h -> stream_bound G (map snd (run_log P st h)) ->
  exists G', Inv (fst (run P st h)) G' /\ gh_base G' = gh_base G /\
             gh_dropped G' = gh_dropped G /\ gh_log G' = gh_log G ++ run_log P st h.
Proof.
  induction h as [|[o t] h IH]; intros st G HI Hwf Hb.
  - exists G. cbn [run fst run_log]. rewrite app_nil_r. auto.
  - cbn [run_log hist_wf] in *. destruct Hwf as (Hop & Hwf). rewrite map_app in Hb.
    assert (Hb1 : stream_bound G (map snd (step_log P st o))).
    { eapply (HW stream_bound_prefix); eassumption. }
    pose proof (HG step_no_io st G o t HI Hop Hb1) as Hno.
    rewrite run_cons_fst.
    destruct (step P st o t) as [st1 out] eqn:Es. cbn [fst snd] in *.
    destruct (HG inv_step st G o t st1 out HI Hop Hb1 Es Hno) as (G1 & HI1 & Eb1 & Ed1 & El1).
    assert (Hb2 : stream_bound G1 (map snd (run_log P st1 h))).
    { unfold RestartWrite.stream_bound in *. rewrite Eb1.
      unfold gh_ALL in *. rewrite Ed1, El1.
      replace ((gh_dropped G ++ map snd (gh_log G ++ step_log P st o)) ++ map snd (run_log P st1 h))
        with ((gh_dropped G ++ map snd (gh_log G)) ++
              map snd (step_log P st o) ++ map snd (run_log P st1 h)); [exact Hb|].
      rewrite map_app, !app_assoc. reflexivity. }
    destruct (IH st1 G1 HI1 Hwf Hb2) as (G2 & HI2 & Eb2 & Ed2 & El2).
    exists G2. split; [exact HI2|]. split; [congruence|]. split; [congruence|].
    rewrite El2, El1. now rewrite <- app_assoc.
Qed.

(* the events a history adds, in chronological order *)
Lemma run_events st h :
  exists evs, c_ev (w_ctx (s_wr (fst (run P st h)))) = rev evs ++ c_ev (w_ctx (s_wr st)).
Proof.
  destruct (run_cext P h st) as (e & He & _). exists (rev e). now rewrite rev_involutive.
Qed.

Section Setting.
(* a persist point: the restart invariant holds and nothing is buffered *)
Variables (st0 : state) (G0 : ghost).
Hypothesis HI0 : Inv st0 G0.
Hypothesis Hp0 : w_pending (s_wr st0) = [].
(* any further history, under any policy *)
Variable h : list (op * bool).
Hypothesis Hwf : hist_wf P st0 h.
Hypothesis Hb : stream_bound G0 (map snd (run_log P st0 h)).
Hypothesis Hcb : CB st0 h.
(* the events it adds *)
Variable evs : list event.
Hypothesis Hevs : c_ev (w_ctx (s_wr (fst (run P st0 h)))) = rev evs ++ c_ev (w_ctx (s_wr st0)).

Local Notation fs0 := (c_fs (w_ctx (s_wr st0))).

Lemma setting_main :
  c_fs (w_ctx (s_wr (fst (run P st0 h)))) = fold_left apply_event evs fs0 /\
  forall pt, cpre pt evs -> forall pol hint,
  exists m st_r, (m <= length h)%nat /\
    open P (fold_left apply_event pt fs0) None pol hint = OpenOk st_r /\
    forall q, s_get (absq st_r) q = s_get (absq (stN st0 h m)) q.
Proof.
  apply (seg_main h [] st0 G0 st0 G0 [] _ HI0 Hp0 eq_refl Hwf Hb HI0 Hb eq_refl
           (anchor_ATI st0 G0 h HI0 Hp0 Hb) eq_refl).
  - intros m Hm. destruct m; [reflexivity|cbn [length] in Hm; lia].
  - exact Hcb.
  - exact Hevs.
Qed.

(* the directory the OS holds at the end is the replay of the events *)
Theorem C03_directory_is_replay :
  c_fs (w_ctx (s_wr (fst (run P st0 h)))) = fold_left apply_event evs fs0.
Proof. exact (proj1 setting_main). Qed.

(* (3) EVERY process-crash image (cut before any event, or after any number of bytes of a write)
   is recovered by open, under any policy and hint, to the abstract state after SOME prefix of
   the history: at least as recent as the persist point, never an inconsistent mixture *)
Theorem C03_process_crash : forall cut k pol hint,
  exists m st_r, (m <= length h)%nat /\
    open P (fold_left apply_event (crash_events evs cut k) fs0) None pol hint = OpenOk st_r /\
    forall q, s_get (absq st_r) q = s_get (absq (fst (run P st0 (firstn m h)))) q.
Proof.
  intros cut k pol hint. apply (proj2 setting_main). apply crash_events_cpre.
Qed.

End Setting.

(* ---------- (4) once persisted, never undone ---------- *)
Lemma crash_events_app_ge a b cut k :
  lenN a <= cut -> crash_events (a ++ b) cut k = a ++ crash_events b (cut - lenN a) k.
Proof.
  intros H. unfold crash_events. rewrite takeN_app_ge, dropN_app_ge by exact H.
  now rewrite <- app_assoc.
Qed.

Theorem C03_persisted_survives st0 G0 h evs i evs_i :
  Inv st0 G0 -> w_pending (s_wr st0) = [] ->
  hist_wf P st0 h -> stream_bound G0 (map snd (run_log P st0 h)) -> CB st0 h ->
  c_ev (w_ctx (s_wr (fst (run P st0 h)))) = rev evs ++ c_ev (w_ctx (s_wr st0)) ->
  (* call number i is itself a persist point: it leaves nothing buffered *)
  (i <= length h)%nat ->
  let st_i := fst (run P st0 (firstn i h)) in
  w_pending (s_wr st_i) = [] ->
  (* the events up to the end of call i *)
  c_ev (w_ctx (s_wr st_i)) = rev evs_i ++ c_ev (w_ctx (s_wr st0)) ->
  (* the crash happens after call i returned *)
  forall cut k pol hint, lenN evs_i <= cut ->
  exists m st_r, (i <= m)%nat /\ (m <= length h)%nat /\
    open P (fold_left apply_event (crash_events evs cut k) (c_fs (w_ctx (s_wr st0)))) None pol hint
      = OpenOk st_r /\
    forall q, s_get (absq st_r) q = s_get (absq (fst (run P st0 (firstn m h)))) q.
Proof.
  intros HI0 Hp0 Hwf Hb Hcb Hevs Hi st_i Hpi Hevi cut k pol hint Hcut.
  pose proof (firstn_skipn i h) as Eh.
  set (h1 := firstn i h) in *. set (h2 := skipn i h) in *.
  assert (Hl1 : length h1 = i) by (unfold h1; rewrite firstn_length; lia).
  rewrite <- Eh in Hwf, Hb, Hcb, Hevs.
  apply hist_wf_app in Hwf. destruct Hwf as (Hwf1 & Hwf2). fold st_i in Hwf2.
  pose proof (stream_bound_app P HBS_lo HBS_hi HNB Hcrc _ _ _ _ Hb) as Hb1.
  destruct (run_inv h1 st0 G0 HI0 Hwf1 Hb1) as (G_i & HI_i & Eb & Ed & El). fold st_i in HI_i.
  assert (Hb2 : stream_bound G_i (map snd (run_log P st_i h2))).
  { unfold RestartWrite.stream_bound in *. rewrite Eb. unfold gh_ALL in *. rewrite Ed, El.
    rewrite (run_log_app P) in Hb. fold st_i in Hb.
    replace ((gh_dropped G0 ++ map snd (gh_log G0 ++ run_log P st0 h1)) ++ map snd (run_log P st_i h2))
      with ((gh_dropped G0 ++ map snd (gh_log G0)) ++ map snd (run_log P st0 h1 ++ run_log P st_i h2));
      [exact Hb|].
    rewrite !map_app, !app_assoc. reflexivity. }
  pose proof (CB_suffix _ _ _ Hcb) as Hcb2. fold st_i in Hcb2.
  rewrite (run_app_fst P) in Hevs. fold st_i in Hevs.
  destruct (run_events st_i h2) as (evs2 & Hev2).
  assert (Eevs : evs = evs_i ++ evs2).
  { rewrite Hev2, Hevi, app_assoc in Hevs. apply app_inv_tail in Hevs.
    apply rev_inj. rewrite rev_app_distr. now symmetry. }
  (* the directory at st_i is the replay of the events up to it *)
  pose proof (C03_directory_is_replay st0 G0 HI0 Hp0 h1 Hwf1 Hb1 (CB_prefix _ _ _ Hcb) evs_i Hevi) as Hfs_i.
  fold st_i in Hfs_i.
  destruct (C03_process_crash st_i G_i HI_i Hpi h2 Hwf2 Hb2 Hcb2 evs2 Hev2 (cut - lenN evs_i) k pol hint)
    as (m & st_r & Hm & Ho & Hq).
  exists (i + m)%nat, st_r. split; [lia|].
  split; [rewrite <- Eh, app_length, Hl1; lia|].
  split.
  - rewrite Eevs, crash_events_app_ge by exact Hcut. rewrite fold_left_app, <- Hfs_i. exact Ho.
  - intros q. rewrite Hq, <- Eh, <- Hl1, (HN stN_app_ge). reflexivity.
Qed.


End Main.

Print Assumptions seg_main.
Print Assumptions C03_directory_is_replay.
Print Assumptions C03_process_crash.
Print Assumptions C03_persisted_survives.
