(* BatchHeaderDamageEx.v — instances for BatchHeaderDamage.v, by computation with the real CRC-32.
   (Pos) params Pc (BS = 32, two blocks per file), the state st_ex and the dropped directory of
         DamageAtomic.Example (as in HeaderDamageFileEx.A): the two-record batch
         EAppend a 3 [v; t] occupies three frames in blocks 8, 9, 10 of the ghost stream.  ONE
         byte changed in block 9: the length field of the Middle frame of the batch (25 -> 24).
         All premises of C12_header_damage_never_deleted are discharged for this directory; by
         computation open recovers NOTHING of the batch (skipn 2) and everything else, although
         two of its three frames are intact; from the clean directory it recovers all of it
         (skipn 0).
   (Counter) the side condition batch_fresh of the position form is needed, at the level of the
         replay: a legal log, a sub-list of it (a DeleteQueue, the re-creation of the queue and
         the batch are lost together), and the replay of the sub-list holds, at the positions of
         the batch, the records of the EARLIER incarnation of the queue.
   (Neg) the same end to end (params Pd: BS = 64): ONE damaged byte, every premise of
         C12_header_damage except batch_fresh holds, open succeeds, and the recovered queue
         holds another payload at the batch's first position. *)
From Coq Require Import Lia ZArith ZifyN ZifyNat ZifyBool List.
From MRL Require Import Bytes BytesProofs Params Names Frame Record Mem Rolling Log Driver Hist
  StreamProofs DamageProofs TornProofs ResyncProofs RecordProofs PolicyProofs GhostLog GcProofs FileStream OpenReplay
  SpecRefine ReplaySpec RestartFinal DamageFile DamageAtomic HeaderDamageEv HeaderDamage HeaderDamageFile
  HeaderDamageFileEx BatchHeaderDamage.
From MRL Require VacBase VacDamage.
From MRL Require Import RestartInv.
Import ListNotations.
Import DamageAtomic.Example.

Arguments N.add : simpl never.
Arguments N.sub : simpl never.
Arguments N.mul : simpl never.

Local Notation K f := (f Pc Pc_BS_lo Pc_BS_hi Pc_crc) (only parsing).

(* what open recovers, as (queue, records, next position) *)
Definition view (P : params) (fs : fsT) : option (list (bytes * (list (N * bytes) * N))) :=
  match open P fs None PNothing [] with OpenOk st => Some (abs_qs (s_qs st)) | _ => None end.

(* ====================== (Pos) a two-record batch in the damaged block ====================== *)
Module Pos.
Import HeaderDamageFileEx.A.

Definition batch : list (N * bytes) := [(3, pay "v"%byte); (4, pay "t"%byte)].

(* the Middle frame of the batch starts at 288 = the start of block 9 = byte 32 of file 4; its
   length field (bytes 4..5 of the header) holds 25 *)
Example where_the_batch_is :
  nth_error E_all 7 = Some (EAppend qa 3 batch) /\
  nth_error (starts Pc 0 (map entry_ser E_all)) 7 = Some (272, 272) /\
  sliceN 288 295 S = sliceN 32 39 (fcontent fs_ex 4) /\
  le_dec (sliceN 292 294 S) = 25 /\ ft_of_code (le_dec (sliceN 294 295 S)) = Some Middle.
Proof. vm_compute. repeat split; reflexivity. Qed.

Definition D9 : bytes := Eval vm_compute in write_at S 292 ["024"%byte].
Definition fs9 : fsT :=
  Eval vm_compute in fs_put fs_ex (filename 4) (FFile (write_at (fcontent fs_ex 4) 36 ["024"%byte])).

Lemma reach_set o : reach Pc D9 9 o -> o = 0 \/ o = 31.
Proof.
  induction 1 as [|c c' res Hr IH Hc E]; [left; reflexivity|].
  destruct IH as [->| ->]; [vm_compute in E; inversion E; auto|vm_compute in Hc; congruence].
Qed.

Lemma path_ok : NoEmbeddedPath Pc D9 9 T.
Proof.
  apply (K NoEmbeddedPath_of_X D9 9 T xs lay).
  apply (K accepted_genuine_path); [vm_compute; congruence|].
  intros o Hr Ho fr' ty p E.
  destruct (reach_set o Hr) as [->| ->]; [vm_compute in E; inversion E|vm_compute in Ho; congruence].
Qed.

Lemma dir9 G : gh_base G = 0 -> gh_ALL G = E_all -> header_damaged_dir Pc st_ex G 9 D9 fs9.
Proof.
  intros Eb EA.
  assert (ET : gh_T Pc G = T) by (unfold gh_T, gh_ser; rewrite EA; vm_compute; reflexivity).
  unfold header_damaged_dir. cbn zeta. rewrite ET, Eb.
  split. { vm_compute. repeat (constructor; [split; reflexivity|]). constructor. }
  split; [vm_compute; reflexivity|]. split; [vm_compute; reflexivity|].
  split; [vm_compute; reflexivity|]. split; [vm_compute; congruence|].
  split; [vm_compute; congruence|]. split; [vm_compute; reflexivity|]. exact path_ok.
Qed.

(* all premises of C12_header_damage_never_deleted, for the batch *)
Lemma premises : exists G j fB,
  Inv Pc st_ex G /\ header_damaged_dir Pc st_ex G 9 D9 fs9 /\
  nth_error (gh_E G) j = Some (fB, EAppend qa 3 batch) /\
  (forall f p, ~ In (f, EDelete qa p) (gh_E G)).
Proof.
  destruct VacDamage.ghost_ex as (G & HI & Eb & Ed & El).
  assert (EA : gh_ALL G = E_all) by (unfold gh_ALL; rewrite Ed, El; vm_compute; reflexivity).
  pose proof HI as (_ & (_ & _ & _ & F & EF & Hcov)).
  rewrite EA in EF. vm_compute in EF. injection EF as <-.
  destruct (Hcov qa [(3%nat, (2, pay "u"%byte)); (7%nat, (3, pay "v"%byte)); (7%nat, (4, pay "t"%byte))]
              5 eq_refl) as (_ & Hf).
  inversion Hf as [|? ? _ Hf']; subst. inversion Hf' as [|? ? (j & f & e & H7 & Hj & _) _]; subst.
  cbn [fst] in H7.
  assert (He : nth_error (gh_ALL G) (gh_k G + j) = Some e).
  { rewrite gh_ALL_split, nth_error_app2 by (rewrite gh_before_length; lia).
    rewrite gh_before_length. replace (gh_k G + j - gh_k G)%nat with j by lia.
    rewrite (map_nth_error snd _ _ Hj). reflexivity. }
  rewrite <- H7, EA in He. vm_compute in He. injection He as <-.
  exists G, j, f. split; [exact HI|]. split; [exact (dir9 G Eb EA)|]. split; [exact Hj|].
  intros f' p Hin.
  assert (H : In (EDelete qa p) (gh_ALL G)).
  { rewrite gh_ALL_split. apply in_or_app. right. apply in_map_iff. exists (f', EDelete qa p). auto. }
  rewrite EA in H. vm_compute in H.
  repeat (destruct H as [H|H]; [discriminate H|]). destruct H.
Qed.

(* the theorem applies: whatever open recovers from fs9, what it holds of the batch is a suffix *)
Theorem C12_inst : forall pol hint st_r,
  open Pc fs9 None pol hint = OpenOk st_r ->
  forall m, qs_get (s_qs st_r) qa = Some m ->
    exists k, filter (in_span 3 5) (records_of (q_buf m) (q_metas m)) = skipn k batch.
Proof.
  destruct premises as (G & j & fB & HI & Hd & Hj & Hnd).
  intros pol hint st_r Ho m Eq.
  exact (C12_header_damage_never_deleted Pc Pc_BS_lo Pc_BS_hi Pc_NB Pc_crc eq_refl st_ex G 9 D9 fs9
           HI Hd pol hint st_r Ho j fB qa 3 batch Hj Hnd m Eq).
Qed.

(* and by computation: the batch is lost as a whole (two of its three frames are intact), the
   rest is recovered; from the clean directory all of it is recovered *)
Example what_open_recovers :
  view Pc fs9 = Some [(qa, ([(2, pay "u"%byte)], 3));
                      (qb, ([(0, pay "z"%byte); (1, pay "w"%byte)], 2))] /\
  view Pc fs_ex = Some [(qa, ([(2, pay "u"%byte); (3, pay "v"%byte); (4, pay "t"%byte)], 5));
                        (qb, ([(0, pay "z"%byte); (1, pay "w"%byte)], 2))] /\
  filter (in_span 3 5) [(2, pay "u"%byte)] = skipn 2 batch /\
  filter (in_span 3 5) [(2, pay "u"%byte); (3, pay "v"%byte); (4, pay "t"%byte)] = skipn 0 batch.
Proof. vm_compute. repeat split; reflexivity. Qed.
End Pos.

(* ====================== (Counter) the position form needs batch_fresh ====================== *)
Module Counter.
Definition px : bytes := ["x"%byte].
Definition py : bytes := ["y"%byte].
Definition pz : bytes := ["z"%byte].
(* a is created, filled, deleted, created again, and the batch [y; z] gets positions 0, 1 *)
Definition L : list entry :=
  [EPosition qa 0; EAppend qa 0 (number_from 0 [px]); EDelete qa 1;
   EPosition qa 0; EAppend qa 0 (number_from 0 [py; pz])].
(* the DeleteQueue, the re-creation and the batch are lost *)
Definition Es' : list entry := firstn 2 L.

Example legal_L : legal_log [] 0 L.
Proof. unfold L. repeat legal_step. apply ll_nil. Qed.

Example position_form_needs_fresh :
  DamageProofs.sublist Es' L /\
  (* no DeleteQueue of a AFTER the batch: the batch belongs to the current incarnation *)
  ~ In (EDelete qa 2) (skipn 5 L) /\
  (exists qD m, replay_entries [] (combine [0; 0] Es') = Some qD /\ qs_get qD qa = Some m /\
     records_of (q_buf m) (q_metas m) = [(0, px)] /\
     (* the suffix form holds ... *)
     records_of (q_buf m) (q_metas m) = skipn 0 (appended qa Es') /\
     (* ... the position form does not: position 0 of the batch holds another payload *)
     forall k, filter (in_span 0 2) (records_of (q_buf m) (q_metas m)) <> skipn k (number_from 0 [py; pz])).
Proof.
  split. { unfold Es', L. cbn [firstn]. do 2 apply SL_keep. do 3 apply SL_skip. apply SL_nil. }
  split. { intros []. }
  eexists _, _. split; [vm_compute; reflexivity|]. split; [vm_compute; reflexivity|].
  split; [vm_compute; reflexivity|]. split; [vm_compute; reflexivity|].
  intros [|[|[|k]]]; vm_compute; discriminate.
Qed.
End Counter.

(* ====================== (Neg) the same, end to end: ONE damaged byte ====================== *)
Module Neg.
Definition Pd : params := mkParams 64 2 Crc.crc32 0 false false false.
Lemma Pd_BS_lo : 7 < BS Pd. Proof. reflexivity. Qed.
Lemma Pd_BS_hi : BS Pd <= 65542. Proof. intros H; discriminate H. Qed.
Lemma Pd_NB : 1 <= NB Pd. Proof. intros H; discriminate H. Qed.
Lemma Pd_crc : forall t p, crcf Pd t p < 2 ^ 32.
Proof.
  intros t p. cbn [Pd crcf]. unfold Crc.crc32. change 4294967295 with (N.ones 32).
  rewrite N.land_ones. apply N.mod_lt. discriminate.
Qed.
Local Notation Kd f := (f Pd Pd_BS_lo Pd_BS_hi Pd_crc) (only parsing).

Definition std0 : state :=
  Eval vm_compute in match open Pd [] None PNothing [] with OpenOk s => s | _ => st_dummy end.
Lemma open_std0 : open Pd [] None PNothing [] = OpenOk std0.
Proof. vm_compute. reflexivity. Qed.

(* b keeps file 0 alive; a is created, filled, deleted, created again, and the two-record batch
   [y; w] gets positions 0, 1 *)
Definition batch : list (N * bytes) := [(0, pay "y"%byte); (1, pay "w"%byte)].
Definition calls : list (op * bool) :=
  [(OCreate qb, false); (OAppend qb None [pay "z"%byte], false);
   (OCreate qa, false); (OAppend qa None [pay "x"%byte], false); (ODelete qa [], false);
   (OCreate qa, false); (OAppend qa None [pay "y"%byte; pay "w"%byte], false)].
Definition std : state := Eval vm_compute in fst (run Pd std0 calls).
Definition Ed : list entry := Eval vm_compute in map snd (VacBase.calls_log Pd std0 calls).
Definition Td : bytes := Eval vm_compute in encs_of Pd 0 (map entry_ser Ed).
Definition Sd : bytes := Eval vm_compute in Td ++ zerosN (256 - lenN Td).
Definition fsd : fsT := Eval vm_compute in c_fs (drop_log std).

(* block 2 of the stream (= the first block of file 1) holds the DeleteQueue, the re-creation
   and the First frame of the batch *)
Example setting :
  Ed = [EPosition qb 0; EAppend qb 0 [(0, pay "z"%byte)];
        EPosition qa 0; EAppend qa 0 [(0, pay "x"%byte)];
        EDelete qa 1; EPosition qa 0; EAppend qa 0 batch] /\
  starts Pd 0 (map entry_ser Ed) =
    [(0, 0); (19, 19); (60, 64); (83, 83); (124, 128); (147, 147); (166, 166)] /\
  lenN Td = 236 /\ w_files (s_wr std) = [0; 1] /\ stream_of fsd [0; 1] = Sd.
Proof. vm_compute. repeat split; reflexivity. Qed.

Lemma hist_ok_d : hist_ok Pd std0 (VacBase.hcalls_of calls).
Proof.
  unfold calls. cbn [VacBase.hcalls_of map fst snd].
  RestartFinal.Example.call_tac. RestartFinal.Example.call_tac.
  RestartFinal.Example.call_tac. RestartFinal.Example.call_tac.
  RestartFinal.Example.call_tac. RestartFinal.Example.call_tac.
  RestartFinal.Example.call_tac.
  exact I.
Qed.

Lemma ghost_d : exists G,
  Inv Pd std G /\ gh_base G = 0 /\ gh_ALL G = Ed.
Proof.
  pose proof (inv_fresh Pd Pd_BS_lo Pd_BS_hi Pd_NB PNothing std0 open_std0) as HI0.
  destruct (VacBase.calls_inv_log Pd Pd_BS_lo Pd_BS_hi Pd_NB Pd_crc eq_refl calls std0 gh_fresh HI0 hist_ok_d)
    as (G & HI & Eb & Edr & El & _).
  exists G. replace std with (fst (run Pd std0 calls)) by (vm_compute; reflexivity).
  split; [exact HI|]. split; [exact Eb|].
  unfold gh_ALL. rewrite Edr, El. vm_compute. reflexivity.
Qed.

(* ONE byte of file 1 (offset 4 = byte 132 of the stream, in block 2): the low byte of the
   length field of the frame of EDelete a 1: 12 -> 13 *)
Definition Dd : bytes := Eval vm_compute in write_at Sd 132 ["013"%byte].
Definition fsdd : fsT :=
  Eval vm_compute in fs_put fsd (filename 1) (FFile (write_at (fcontent fsd 1) 4 ["013"%byte])).

Definition xsd : list fspec := Eval vm_compute in parse Pd 100 0 Td.
Lemma layd : layout Pd 0 xsd Td.
Proof. apply layout_b_sound. vm_compute. reflexivity. Qed.

Lemma reach_set o : reach Pd Dd 2 o -> o = 0 \/ o = 20 \/ o = 27.
Proof.
  induction 1 as [|c c' res Hr IH Hc E]; [left; reflexivity|].
  destruct IH as [->|[->| ->]]; vm_compute in E; inversion E; auto.
Qed.

Lemma path_ok : NoEmbeddedPath Pd Dd 2 Td.
Proof.
  apply (Kd NoEmbeddedPath_of_X Dd 2 Td xsd layd).
  apply (Kd accepted_genuine_path); [vm_compute; congruence|].
  intros o Hr Ho fr' ty p E.
  destruct (reach_set o Hr) as [->|[->| ->]]; vm_compute in E; inversion E.
Qed.

Lemma dird G : gh_base G = 0 -> gh_ALL G = Ed -> header_damaged_dir Pd std G 2 Dd fsdd.
Proof.
  intros Eb EA.
  assert (ET : gh_T Pd G = Td) by (unfold gh_T, gh_ser; rewrite EA; vm_compute; reflexivity).
  unfold header_damaged_dir. cbn zeta. rewrite ET, Eb.
  split. { vm_compute. repeat (constructor; [split; reflexivity|]). constructor. }
  split; [vm_compute; reflexivity|]. split; [vm_compute; reflexivity|].
  split; [vm_compute; reflexivity|]. split; [vm_compute; congruence|].
  split; [vm_compute; congruence|]. split; [vm_compute; reflexivity|]. exact path_ok.
Qed.

(* what open recovers from the damaged directory (and from the clean one) *)
Definition vd : list (bytes * (list (N * bytes) * N)) :=
  [(qb, ([(0, pay "z"%byte)], 1)); (qa, ([(0, pay "x"%byte)], 1))].
Example view_d :
  view Pd fsdd = Some vd /\
  view Pd fsd = Some [(qb, ([(0, pay "z"%byte)], 1)); (qa, (batch, 2))].
Proof. vm_compute. split; reflexivity. Qed.

(* every premise of C12_header_damage except batch_fresh — and the batch is the LAST entry of the
   log (nothing after it, in particular no DeleteQueue) — yet open succeeds and the recovered
   queue a holds, at position 0 of the batch, the payload x of the deleted incarnation, and
   nothing at position 1: not a suffix of the batch.  The sub-list form
   (C12_header_damage_suffix) holds: [(0, x)] = appended a [first four entries]. *)
Definition st_rd : state :=
  Eval vm_compute in match open Pd fsdd None PNothing [] with OpenOk s => s | _ => st_dummy end.
Lemma open_d : open Pd fsdd None PNothing [] = OpenOk st_rd.
Proof. vm_compute. reflexivity. Qed.
Definition m_d : mq :=
  Eval vm_compute in match qs_get (s_qs st_rd) qa with Some m => m | None => mq_default end.

Theorem position_form_needs_fresh_e2e : exists G j fB,
  Inv Pd std G /\ header_damaged_dir Pd std G 2 Dd fsdd /\
  nth_error (gh_E G) j = Some (fB, EAppend qa 0 batch) /\ length (gh_E G) = S j /\
  open Pd fsdd None PNothing [] = OpenOk st_rd /\ qs_get (s_qs st_rd) qa = Some m_d /\
  records_of (q_buf m_d) (q_metas m_d) = [(0, pay "x"%byte)] /\
  forall k, filter (in_span 0 (0 + lenN batch)) (records_of (q_buf m_d) (q_metas m_d)) <> skipn k batch.
Proof.
  destruct ghost_d as (G & HI & Eb & EA).
  pose proof HI as (_ & (_ & _ & _ & F & EF & Hcov)).
  rewrite EA in EF. vm_compute in EF. injection EF as <-.
  destruct (Hcov qa [(6%nat, (0, pay "y"%byte)); (6%nat, (1, pay "w"%byte))] 2 eq_refl) as (_ & Hf).
  inversion Hf as [|? ? (j & f & e & H6 & Hj & _) _]; subst. cbn [fst] in H6.
  assert (He : nth_error (gh_ALL G) (gh_k G + j) = Some e).
  { rewrite gh_ALL_split, nth_error_app2 by (rewrite gh_before_length; lia).
    rewrite gh_before_length. replace (gh_k G + j - gh_k G)%nat with j by lia.
    rewrite (map_nth_error snd _ _ Hj). reflexivity. }
  assert (Hlen : length (gh_ALL G) = 7%nat) by (rewrite EA; reflexivity).
  rewrite gh_ALL_split, app_length, gh_before_length, map_length in Hlen.
  rewrite <- H6, EA in He. vm_compute in He. injection He as <-.
  exists G, j, f. split; [exact HI|]. split; [exact (dird G Eb EA)|]. split; [exact Hj|].
  split; [lia|]. split; [exact open_d|]. split; [vm_compute; reflexivity|].
  split; [vm_compute; reflexivity|].
  intros [|[|[|k]]]; vm_compute; discriminate.
Qed.
End Neg.

Print Assumptions Pos.premises.
Print Assumptions Pos.C12_inst.
Print Assumptions Pos.what_open_recovers.
Print Assumptions Counter.position_form_needs_fresh.
Print Assumptions Neg.position_form_needs_fresh_e2e.
