(* OpenTerm.v — property C10: `open` terminates on any directory content.
   The fuel of the model (open_fuel) is sufficient; fuel monotonicity. *)
From Coq Require Import Lia ZArith ZifyN ZifyNat ZifyBool.
From MRL Require Import Bytes BytesProofs Params Names NamesProofs Frame Record Mem Rolling Log.

Arguments N.add : simpl never.
Arguments N.sub : simpl never.
Arguments N.mul : simpl never.
Arguments N.eqb : simpl never.
Arguments N.ltb : simpl never.
Arguments N.leb : simpl never.
Arguments N.div : simpl never.
Arguments N.modulo : simpl never.
Arguments N.min : simpl never.
Arguments N.max : simpl never.

(* ================================================================== *)
(* 1. Fuel monotonicity (generic in the block reader)                  *)
(* ================================================================== *)
Section Mono.
Variable P : params.

Section Generic.
Variable R : Type.
Variable rnext : R -> R * res bool.
Variable rblock : R -> bytes.

Lemma go_next_S f rr :
  go_next P R rnext rblock (S f) rr =
  match read_frame P R rnext rblock (rr_fr rr) with
  | (fr', FOk t payload) =>
      let within := if is_first_frame t then true else rr_within rr in
      let buf := if is_first_frame t then [] else rr_buf rr in
      if within then
        let buf' := buf ++ payload in
        if is_last_frame t then (mkRR fr' buf' false, RRecord)
        else go_next P R rnext rblock f (mkRR fr' buf' true)
      else go_next P R rnext rblock f (mkRR fr' buf within)
  | (fr', FCorrupt) => (mkRR fr' (rr_buf rr) false, RCorrupt)
  | (fr', FIo e) => (mkRR fr' (rr_buf rr) false, RIo e)
  | (fr', FNotAvail) => (mkRR fr' (rr_buf rr) (rr_within rr), REnd)
  end.
Proof. reflexivity. Qed.

Lemma go_next_mono : forall f1 f2 rr rr' r,
  go_next P R rnext rblock f1 rr = (rr', r) -> r <> RFuel -> (f1 <= f2)%nat ->
  go_next P R rnext rblock f2 rr = (rr', r).
Proof.
  induction f1 as [|f1 IH]; intros f2 rr rr' r H Hr Hle.
  - cbn [go_next] in H. inversion H; subst. congruence.
  - destruct f2 as [|f2]; [lia|].
    rewrite go_next_S in H |- *.
    destruct (read_frame P R rnext rblock (rr_fr rr)) as [fr' [t pl|e| |]]; try exact H.
    cbv zeta in H |- *.
    destruct (if is_first_frame t then true else rr_within rr).
    + destruct (is_last_frame t); [exact H|]. apply IH; [exact H|exact Hr|lia].
    + apply IH; [exact H|exact Hr|lia].
Qed.
End Generic.

Lemma replay_loop_S f g rr qs :
  replay_loop P (S f) g rr qs =
  let file := rd_file (fr_rd (rr_fr rr)) in
  match go_next P rreaderS (rd_next P) rd_block g rr with
  | (rr', RRecord) =>
      match entry_deser (rr_buf rr') with
      | None => replay_loop P f g rr' qs
      | Some e =>
          match apply_entry qs file e with
          | Some qs' => replay_loop P f g rr' qs'
          | None => (rr', RpCorruption)
          end
      end
  | (rr', REnd) => (rr', RpDone qs)
  | (rr', RCorrupt) => replay_loop P f g rr' qs
  | (rr', RIo e) => if L_IO P then replay_loop P f g rr' qs else (rr', RpIo e)
  | (rr', RFuel) => (rr', RpFuel)
  end.
Proof. reflexivity. Qed.

Lemma replay_loop_mono : forall f1 f2 g1 g2 rr qs rr' r,
  replay_loop P f1 g1 rr qs = (rr', r) -> r <> RpFuel -> (f1 <= f2)%nat -> (g1 <= g2)%nat ->
  replay_loop P f2 g2 rr qs = (rr', r).
Proof.
  induction f1 as [|f1 IH]; intros f2 g1 g2 rr qs rr' r H Hr Hf Hg.
  - cbn [replay_loop] in H. inversion H; subst. congruence.
  - destruct f2 as [|f2]; [lia|].
    rewrite replay_loop_S in H |- *. cbv zeta in H |- *.
    destruct (go_next P rreaderS (rd_next P) rd_block g1 rr) as [rr1 g] eqn:Hgo.
    assert (Hg1 : g <> RFuel).
    { intros ->. inversion H; subst. congruence. }
    rewrite (go_next_mono _ _ _ _ _ _ _ _ Hgo Hg1 Hg).
    destruct g as [| | |e|].
    + destruct (entry_deser (rr_buf rr1)) as [e|].
      * destruct (apply_entry qs (rd_file (fr_rd (rr_fr rr))) e) as [qs'|]; [|exact H].
        eapply IH; eauto; lia.
      * eapply IH; eauto; lia.
    + exact H.
    + eapply IH; eauto; lia.
    + destruct (L_IO P); [|exact H]. eapply IH; eauto; lia.
    + congruence.
Qed.

Theorem open_with_fuel_mono : forall f1 f2 fs plan pol hint r,
  open_with P f1 fs plan pol hint = r -> (forall c, r <> OpenFuel c) -> (f1 <= f2)%nat ->
  open_with P f2 fs plan pol hint = r.
Proof.
  intros f1 f2 fs plan pol hint r H Hr Hle. unfold open_with in *.
  destruct (rd_open P (ctx_init fs plan)) as [c [rd|e]]; [|exact H].
  destruct (replay_loop P f1 f1 (rr_open rreaderS rd) []) as [rr rp] eqn:Hrp.
  assert (Hnf : rp <> RpFuel).
  { intros ->. subst r. eapply Hr. reflexivity. }
  rewrite (replay_loop_mono _ _ _ _ _ _ _ _ Hrp Hnf Hle Hle). exact H.
Qed.
End Mono.

(* ================================================================== *)
(* 2. Small helpers                                                    *)
(* ================================================================== *)
Lemma dropN_takeN_c {A} c n (l : list A) : dropN c (takeN n l) = takeN (n - c) (dropN c l).
Proof.
  rewrite !dropN_skipn, !takeN_firstn.
  destruct (N.le_gt_cases c n) as [Hle|Hgt].
  - rewrite firstn_skipn_comm. f_equal. f_equal. lia.
  - replace (N.to_nat (n - c)) with 0%nat by lia. rewrite firstn_O.
    apply skipn_all2. rewrite firstn_length. lia.
Qed.

Lemma sliceN_sliceN_c {A} c d lo hi (l : list A) :
  lo + d <= hi -> sliceN c d (sliceN lo hi l) = sliceN (lo + c) (lo + d) l.
Proof.
  intros H. unfold sliceN. rewrite dropN_takeN_c, takeN_takeN, dropN_dropN.
  f_equal. lia.
Qed.

Lemma all_zero_takeN_c n l : all_zero l = true -> all_zero (takeN n l) = true.
Proof.
  intros H. rewrite <- (takeN_dropN n l), all_zero_app in H.
  now apply andb_true_iff in H as [H1 _].
Qed.

Lemma all_zero_dropN_c n l : all_zero l = true -> all_zero (dropN n l) = true.
Proof.
  intros H. rewrite <- (takeN_dropN n l), all_zero_app in H.
  now apply andb_true_iff in H as [_ H2].
Qed.

(* a window that starts at or beyond a zero tail is zero *)
Lemma slice_in_zero_tail z a b l :
  all_zero (dropN z l) = true -> z <= a -> all_zero (sliceN a b l) = true.
Proof.
  intros Hz Hle. unfold sliceN. apply all_zero_takeN_c.
  replace a with (z + (a - z)) by lia. rewrite <- dropN_dropN.
  now apply all_zero_dropN_c.
Qed.

(* ---------- the file system as an association list ---------- *)
Definition fcontent (fs : fsT) (n : N) : bytes :=
  match fs_get fs (filename n) with Some (FFile b) => b | _ => [] end.

Lemma file_content_fcontent c n : file_content c n = fcontent (c_fs c) n.
Proof. reflexivity. Qed.

Lemma fs_get_put fs a e b :
  fs_get (fs_put fs a e) b = if bytes_eqb a b then Some e else fs_get fs b.
Proof.
  induction fs as [|[n0 e0] r IH]; cbn [fs_put fs_get].
  - reflexivity.
  - destruct (bytes_eqb n0 a) eqn:E0; cbn [fs_get].
    + apply bytes_eqb_eq in E0. subst n0. destruct (bytes_eqb a b); reflexivity.
    + destruct (bytes_eqb n0 b) eqn:E1.
      * apply bytes_eqb_eq in E1. subst n0. rewrite bytes_eqb_sym, E0. reflexivity.
      * exact IH.
Qed.

Lemma fault_point_fs c s : c_fs (fst (fault_point c s)) = c_fs c.
Proof.
  unfold fault_point. destruct (c_plan c) as [p|]; [|destruct s; reflexivity].
  destruct (_ && _); destruct s; reflexivity.
Qed.

Lemma open_file_fs c n c' r : open_file c n = (c', r) -> c_fs c' = c_fs c.
Proof.
  unfold open_file. pose proof (fault_point_fs c SOpen) as Hf.
  destruct (fault_point c SOpen) as [c1 [e|]]; cbn [fst] in Hf.
  - intros H; inversion H; subst. exact Hf.
  - destruct (fs_get (c_fs c1) (filename n)) as [[b| |]|]; intros H; inversion H; subst; exact Hf.
Qed.

Section ReadBlock.
Variable P : params.

Lemma read_block_spec c n pos c' pos' r :
  read_block P c n pos = (c', pos', r) ->
  c_fs c' = c_fs c /\
  match r with
  | Ok (Some blk) => pos' = pos + BS P /\ blk = sliceN pos (pos + BS P) (fcontent (c_fs c) n)
  | _ => True
  end.
Proof.
  unfold read_block. pose proof (fault_point_fs c SRead) as Hf.
  destruct (fault_point c SRead) as [c1 [e|]]; cbn [fst] in Hf.
  - intros H; inversion H; subst. split; [exact Hf|destruct e; exact I].
  - rewrite file_content_fcontent, Hf.
    destruct (pos + BS P <=? lenN (fcontent (c_fs c) n)); intros H; inversion H; subst.
    + split; [exact Hf|]. split; reflexivity.
    + split; [exact Hf|exact I].
Qed.
End ReadBlock.

(* ================================================================== *)
(* 3. read_frame = optional skip to the next block + a read in place   *)
(* ================================================================== *)
Section ReadHere.
Variable P : params.
Variable R : Type.
Variable rnext : R -> R * res bool.
Variable rblock : R -> bytes.

Definition read_here (fr1 : freader R) : freader R * fresult :=
  let blk := rblock (fr_rd fr1) in
  let c := fr_cursor fr1 in
  let hdr := sliceN c (c + HEADER_LEN) blk in
  if all_zero hdr then (fr1, FNotAvail)
  else
    let checksum := le_dec (takeN 4 hdr) in
    let len := le_dec (sliceN 4 6 hdr) in
    match ft_of_code (le_dec (dropN 6 hdr)) with
    | None => (mkFR (fr_rd fr1) c true, FCorrupt)
    | Some t =>
        let c1 := c + HEADER_LEN in
        if BS P <? c1 + len then (mkFR (fr_rd fr1) c1 true, FCorrupt)
        else
          let payload := sliceN c1 (c1 + len) blk in
          let fr2 := mkFR (fr_rd fr1) (c1 + len) (fr_corrupt fr1) in
          if crcf P (n2b (ft_code t)) payload =? checksum
          then (fr2, FOk t payload)
          else (fr2, FCorrupt)
    end.

Definition need_skip (fr : freader R) : bool :=
  fr_corrupt fr || (BS P - fr_cursor fr <? HEADER_LEN).

Lemma read_frame_eq fr :
  read_frame P R rnext rblock fr =
  if need_skip fr then
    match rnext (fr_rd fr) with
    | (r', Err e) => (mkFR r' (fr_cursor fr) (fr_corrupt fr), FIo e)
    | (r', Ok false) => (mkFR r' (fr_cursor fr) (fr_corrupt fr), FNotAvail)
    | (r', Ok true) => read_here (mkFR r' 0 false)
    end
  else read_here fr.
Proof.
  unfold read_frame, read_here, need_skip.
  destruct (fr_corrupt fr || (BS P - fr_cursor fr <? HEADER_LEN)).
  - destruct (rnext (fr_rd fr)) as [r' [[|]|e]]; reflexivity.
  - reflexivity.
Qed.

(* what a read in place does to the reader *)
Lemma read_here_spec fr1 fr' r :
  read_here fr1 = (fr', r) ->
  fr_rd fr' = fr_rd fr1 /\
  match r with
  | FNotAvail => fr' = fr1
  | FIo _ => False
  | _ => all_zero (sliceN (fr_cursor fr1) (fr_cursor fr1 + 7) (rblock (fr_rd fr1))) = false /\
         (fr_corrupt fr' = true \/
          (fr_cursor fr1 + 7 <= fr_cursor fr' /\ fr_corrupt fr' = fr_corrupt fr1))
  end.
Proof.
  unfold read_here, HEADER_LEN.
  destruct (all_zero (sliceN (fr_cursor fr1) (fr_cursor fr1 + 7) (rblock (fr_rd fr1)))) eqn:Ez.
  - intros H; inversion H; subst. split; reflexivity.
  - destruct (ft_of_code _) as [t|].
    + destruct (BS P <? _).
      * intros H; inversion H; subst. cbn. split; [reflexivity|]. split; [reflexivity|left; reflexivity].
      * destruct (_ =? _); intros H; inversion H; subst; cbn;
          (split; [reflexivity|]; split; [reflexivity|right; split; [lia|reflexivity]]).
    + intros H; inversion H; subst. cbn. split; [reflexivity|]. split; [reflexivity|left; reflexivity].
Qed.
End ReadHere.
Arguments read_here P {R} rblock fr1.
Arguments need_skip P {R} fr.

(* ================================================================== *)
(* 4. The potential                                                    *)
(* ================================================================== *)
Section SumW.
Variable w : N -> N.

Definition sumw (l : list N) : N := fold_right (fun n acc => w n + 6 + acc) 0 l.

Lemma sumw_filter_le (p q : N -> bool) l :
  (forall x, p x = true -> q x = true) -> sumw (filter p l) <= sumw (filter q l).
Proof.
  intros Hpq. induction l as [|x l IH]; cbn [filter]; [lia|].
  destruct (p x) eqn:Ep.
  - rewrite (Hpq x Ep). cbn [sumw fold_right]. fold (sumw (filter p l)) (sumw (filter q l)). lia.
  - destruct (q x); cbn [sumw fold_right]; fold (sumw (filter q l)); lia.
Qed.

Lemma sumw_after files cur n :
  cur < n -> In n files ->
  w n + 6 + sumw (files_after files n) <= sumw (files_after files cur).
Proof.
  intros Hlt. unfold files_after.
  assert (Hmono : forall l, sumw (filter (fun x => n <? x) l) <= sumw (filter (fun x => cur <? x) l)).
  { intros l. apply sumw_filter_le. intros x Hx. lia. }
  induction files as [|x l IH]; intros Hin; [destruct Hin|].
  cbn [filter].
  destruct (N.eq_dec x n) as [->|Hne].
  - replace (n <? n) with false by lia. replace (cur <? n) with true by lia.
    cbn [sumw fold_right]. fold (sumw (filter (fun x => cur <? x) l)).
    specialize (Hmono l). lia.
  - destruct Hin as [He|Hin]; [congruence|]. specialize (IH Hin).
    destruct (n <? x) eqn:E1.
    + replace (cur <? x) with true by lia. cbn [sumw fold_right].
      fold (sumw (filter (fun x => n <? x) l)) (sumw (filter (fun x => cur <? x) l)). lia.
    + destruct (cur <? x); cbn [sumw fold_right];
        fold (sumw (filter (fun x => cur <? x) l)); lia.
Qed.

Lemma sumw_after_head first rest : sumw (files_after (first :: rest) first) <= sumw rest.
Proof.
  unfold files_after. cbn [filter]. replace (first <? first) with false by lia.
  induction rest as [|x l IH]; cbn [filter]; [lia|].
  destruct (first <? x); cbn [sumw fold_right];
    fold (sumw l) (sumw (filter (fun x => first <? x) l)); lia.
Qed.

End SumW.

Section Measure.
Variable P : params.
Hypothesis HBS : 7 < BS P.
Variable fs : fsT.            (* the directory during replay (replay only reads) *)
Variable w : N -> N.          (* file n holds only zeros from offset w n on *)
Hypothesis Hz : forall n, all_zero (dropN (w n) (fcontent fs n)) = true.

Definition rdinv (rd : rreaderS) : Prop :=
  c_fs (rd_ctx rd) = fs /\ BS P <= rd_pos rd /\
  rd_block rd = sliceN (rd_pos rd - BS P) (rd_pos rd) (fcontent fs (rd_file rd)).

(* br: what is left of the current block, in bytes *)
Definition Psi (rd : rreaderS) (br : N) : N :=
  (w (rd_file rd) + 6 + br) - rd_pos rd + sumw w (files_after (rd_files rd) (rd_file rd)).

Lemma next_file_loop_spec : forall cands c rd rd',
  c_fs c = fs ->
  next_file_loop P c cands rd = (rd', Ok true) ->
  c_fs (rd_ctx rd') = fs /\ rd_files rd' = rd_files rd /\ In (rd_file rd') cands /\
  rd_pos rd' = BS P /\ rd_block rd' = sliceN 0 (BS P) (fcontent fs (rd_file rd')).
Proof.
  induction cands as [|n rest IH]; intros c rd rd' Hc H; cbn [next_file_loop] in H.
  - inversion H.
  - destruct (open_file c n) as [c1 [u|e]] eqn:Ho; [|inversion H].
    apply open_file_fs in Ho.
    destruct (read_block P c1 n 0) as [[c2 pos'] [[blk|]|e]] eqn:Hr; [| |inversion H].
    + apply read_block_spec in Hr. destruct Hr as [Hfs [Hp Hb]].
      inversion H; subst rd'. cbn [rd_ctx rd_files rd_file rd_pos rd_block].
      rewrite Hp, Hb, Ho, Hc, N.add_0_l.
      repeat split; try reflexivity. { congruence. } { now left. }
    + apply read_block_spec in Hr. destruct Hr as [Hfs _].
      destruct (IH c2 rd rd') as (H1 & H2 & H3 & H4); [congruence|exact H|].
      repeat split; try assumption. { now right. } { apply H4. } { apply H4. }
Qed.

Lemma rd_next_measure rd rd' :
  rdinv rd -> rd_next P rd = (rd', Ok true) ->
  rdinv rd' /\ Psi rd' (BS P) <= Psi rd 0.
Proof.
  intros (Hfs & Hpos & Hblk) H. unfold rd_next in H.
  destruct (read_block P (rd_ctx rd) (rd_file rd) (rd_pos rd)) as [[c1 pos'] [[blk|]|e]] eqn:Hr;
    [| |inversion H]; apply read_block_spec in Hr; destruct Hr as [Hc1 Hr].
  - destruct Hr as [Hp Hb]. inversion H; subst rd'. unfold rdinv, Psi; cbn [rd_ctx rd_files rd_file rd_pos rd_block].
    rewrite Hp, Hb, Hfs. split.
    + split; [congruence|]. split; [lia|]. f_equal. lia.
    + lia.
  - apply next_file_loop_spec in H; [|congruence]. cbn [rd_ctx rd_files rd_file rd_pos rd_block] in H.
    destruct H as (H1 & H2 & H3 & H4 & H5).
    unfold files_after in H3. apply filter_In in H3. destruct H3 as [Hin Hlt].
    unfold rdinv, Psi. rewrite H1, H2, H4, H5. split.
    + split; [reflexivity|]. split; [lia|]. f_equal. lia.
    + pose proof (sumw_after w (rd_files rd) (rd_file rd) (rd_file rd') ltac:(lia) Hin). lia.
Qed.

Definition blockrem (fr : freader rreaderS) : N :=
  if fr_corrupt fr then 0 else BS P - fr_cursor fr.

Definition Phi (fr : freader rreaderS) : N := Psi (fr_rd fr) (blockrem fr).
Definition frinv (fr : freader rreaderS) : Prop := rdinv (fr_rd fr).

Lemma read_here_measure fr1 fr' r :
  frinv fr1 -> fr_corrupt fr1 = false -> fr_cursor fr1 + 7 <= BS P ->
  read_here P rd_block fr1 = (fr', r) ->
  match r with FOk _ _ | FCorrupt => frinv fr' /\ Phi fr' + 7 <= Phi fr1 | _ => True end.
Proof.
  intros (Hfs & Hpos & Hblk) Hnc Hc H. apply read_here_spec in H. destruct H as [Hrd H].
  assert (Hgoal : all_zero (sliceN (fr_cursor fr1) (fr_cursor fr1 + 7) (rd_block (fr_rd fr1))) = false /\
         (fr_corrupt fr' = true \/
          (fr_cursor fr1 + 7 <= fr_cursor fr' /\ fr_corrupt fr' = fr_corrupt fr1)) ->
         frinv fr' /\ Phi fr' + 7 <= Phi fr1).
  { clear H. intros [Hnz Hadv]. split.
    - unfold frinv. rewrite Hrd. repeat split; assumption.
    - rewrite Hblk, sliceN_sliceN_c in Hnz by lia.
      assert (Hlt : rd_pos (fr_rd fr1) - BS P + fr_cursor fr1 < w (rd_file (fr_rd fr1))).
      { destruct (N.lt_ge_cases (rd_pos (fr_rd fr1) - BS P + fr_cursor fr1) (w (rd_file (fr_rd fr1))))
          as [Hl|Hg]; [exact Hl|].
        rewrite (slice_in_zero_tail _ _ _ _ (Hz _) Hg) in Hnz. discriminate. }
      unfold Phi, Psi, blockrem. rewrite Hrd, Hnc.
      destruct Hadv as [Hcor|[Hcur Hcor]]; rewrite Hcor; [|rewrite Hnc]; lia. }
  destruct r; try exact I; apply Hgoal; exact H.
Qed.

Lemma read_frame_measure fr fr' r :
  frinv fr -> read_frame P rreaderS (rd_next P) rd_block fr = (fr', r) ->
  match r with FOk _ _ | FCorrupt => frinv fr' /\ Phi fr' + 7 <= Phi fr | _ => True end.
Proof.
  intros Hinv H. rewrite read_frame_eq in H. unfold need_skip, HEADER_LEN in H.
  destruct (fr_corrupt fr || (BS P - fr_cursor fr <? 7)) eqn:Esk.
  - destruct (rd_next P (fr_rd fr)) as [r' [[|]|e]] eqn:Hn.
    + destruct (rd_next_measure _ _ Hinv Hn) as [Hinv' Hle].
      pose proof (read_here_measure (mkFR r' 0 false) fr' r Hinv' eq_refl ltac:(cbn; lia) H) as Hm.
      assert (Hle2 : Phi (mkFR r' 0 false) <= Phi fr).
      { unfold Phi, blockrem; cbn [fr_rd fr_corrupt fr_cursor]. rewrite N.sub_0_r.
        unfold Psi in *. lia. }
      destruct r; try exact I; (split; [apply Hm|destruct Hm; lia]).
    + inversion H; subst. exact I.
    + inversion H; subst. exact I.
  - apply orb_false_iff in Esk. destruct Esk as [Hnc Hcur].
    apply (read_here_measure fr fr' r Hinv Hnc); [lia|exact H].
Qed.

Definition rrinv (rr : rreader_t) : Prop := frinv (rr_fr rr).
Definition PhiR (rr : rreader_t) : N := Phi (rr_fr rr).

Lemma go_next_measure : forall fuel rr rr' r,
  rrinv rr -> PhiR rr < 7 * N.of_nat fuel ->
  go_next P rreaderS (rd_next P) rd_block fuel rr = (rr', r) ->
  r <> RFuel /\
  (r = RRecord \/ r = RCorrupt -> rrinv rr' /\ PhiR rr' + 7 <= PhiR rr).
Proof.
  induction fuel as [|f IH]; intros rr rr' r Hinv Hphi H; [lia|].
  rewrite go_next_S in H.
  destruct (read_frame P rreaderS (rd_next P) rd_block (rr_fr rr)) as [fr' fres] eqn:Hrf.
  pose proof (read_frame_measure _ _ _ Hinv Hrf) as Hm.
  destruct fres as [t pl|e| |].
  - destruct Hm as [Hinv' Hdec]. cbv zeta in H.
    assert (Hrec : forall rr1, rr_fr rr1 = fr' ->
              go_next P rreaderS (rd_next P) rd_block f rr1 = (rr', r) ->
              r <> RFuel /\ (r = RRecord \/ r = RCorrupt -> rrinv rr' /\ PhiR rr' + 7 <= PhiR rr)).
    { intros rr1 Hfr Hgo.
      destruct (IH rr1 rr' r) as [Hr1 Hr2].
      - unfold rrinv. rewrite Hfr. exact Hinv'.
      - unfold PhiR in *. rewrite Hfr. lia.
      - exact Hgo.
      - split; [exact Hr1|]. intros Hr. destruct (Hr2 Hr) as [Hi Hd]. split; [exact Hi|].
        unfold PhiR in *. rewrite Hfr in Hd. lia. }
    destruct (if is_first_frame t then true else rr_within rr).
    + destruct (is_last_frame t).
      * inversion H; subst. split; [discriminate|]. intros _. split; [exact Hinv'|exact Hdec].
      * eapply Hrec; [|exact H]. reflexivity.
    + eapply Hrec; [|exact H]. reflexivity.
  - inversion H; subst. split; [discriminate|]. intros [Hr|Hr]; discriminate.
  - destruct Hm as [Hinv' Hdec]. inversion H; subst. split; [discriminate|].
    intros _. split; [exact Hinv'|exact Hdec].
  - inversion H; subst. split; [discriminate|]. intros [Hr|Hr]; discriminate.
Qed.

Lemma replay_loop_measure : L_IO P = false -> forall f g rr qs rr' r,
  rrinv rr -> PhiR rr < 7 * N.of_nat f -> PhiR rr < 7 * N.of_nat g ->
  replay_loop P f g rr qs = (rr', r) -> r <> RpFuel.
Proof.
  intros HIO. induction f as [|f IH]; intros g rr qs rr' r Hinv Hf Hg H; [lia|].
  rewrite replay_loop_S in H. cbv zeta in H.
  destruct (go_next P rreaderS (rd_next P) rd_block g rr) as [rr1 gres] eqn:Hgo.
  destruct (go_next_measure _ _ _ _ Hinv Hg Hgo) as [Hnf Hdec].
  assert (Hrec : forall qs1, gres = RRecord \/ gres = RCorrupt ->
            replay_loop P f g rr1 qs1 = (rr', r) -> r <> RpFuel).
  { intros qs1 Hres Hrl. destruct (Hdec Hres) as [Hi Hd].
    eapply (IH g rr1 qs1); [exact Hi| | |exact Hrl]; lia. }
  destruct gres as [| | |e|].
  - destruct (entry_deser (rr_buf rr1)) as [e|].
    + destruct (apply_entry qs (rd_file (fr_rd (rr_fr rr))) e) as [qs'|].
      * eapply Hrec; [now left|exact H].
      * inversion H; subst. discriminate.
    + eapply Hrec; [now left|exact H].
  - inversion H; subst. discriminate.
  - eapply Hrec; [now right|exact H].
  - rewrite HIO in H. inversion H; subst. discriminate.
  - congruence.
Qed.
End Measure.

(* ================================================================== *)
(* 5. The listing: sorted, without duplicates, bounded by fs_bytes     *)
(* ================================================================== *)
From Coq Require Import Sorting.Sorted.

Lemma insert_sorted_In n l x : In x (insert_sorted n l) <-> x = n \/ In x l.
Proof.
  induction l as [|y r IH]; cbn [insert_sorted].
  - cbn. intuition.
  - destruct (N.ltb_spec n y) as [Hlt|Hge].
    + cbn [In]. intuition.
    + destruct (N.eqb_spec n y) as [->|Hne].
      * cbn [In]. intuition.
      * cbn [In]. rewrite IH. intuition.
Qed.

Lemma insert_sorted_sorted n l :
  StronglySorted N.lt l -> StronglySorted N.lt (insert_sorted n l).
Proof.
  induction l as [|y r IH]; intros Hs; cbn [insert_sorted].
  - constructor; constructor.
  - apply StronglySorted_inv in Hs. destruct Hs as [Hr Hall].
    destruct (N.ltb_spec n y) as [Hlt|Hge].
    + constructor; [constructor; assumption|].
      constructor; [exact Hlt|]. eapply Forall_impl; [|exact Hall]. cbn. intros a Ha. lia.
    + destruct (N.eqb_spec n y) as [->|Hne].
      * constructor; assumption.
      * constructor; [apply IH; exact Hr|].
        apply Forall_forall. intros a Ha. apply insert_sorted_In in Ha.
        destruct Ha as [->|Ha]; [lia|]. rewrite Forall_forall in Hall. now apply Hall.
Qed.

Lemma sorted_NoDup l : StronglySorted N.lt l -> NoDup l.
Proof.
  induction l as [|y r IH]; intros Hs; [constructor|].
  apply StronglySorted_inv in Hs. destruct Hs as [Hr Hall].
  constructor; [|apply IH; exact Hr].
  intros Hin. rewrite Forall_forall in Hall. specialize (Hall _ Hin). lia.
Qed.

Lemma lenN_insert_sorted n l : lenN (insert_sorted n l) <= 1 + lenN l.
Proof.
  induction l as [|y r IH]; cbn [insert_sorted].
  - rewrite lenN_cons. lia.
  - destruct (n <? y); [rewrite !lenN_cons; lia|].
    destruct (n =? y); [lia|]. rewrite !lenN_cons. lia.
Qed.

Lemma list_wal_numbers_cons name e r :
  list_wal_numbers ((name, e) :: r) =
  match e with
  | FFile _ => match filename_to_position name with
               | Some n => insert_sorted n (list_wal_numbers r)
               | None => list_wal_numbers r
               end
  | _ => list_wal_numbers r
  end.
Proof. reflexivity. Qed.

Lemma listed_sorted fs : StronglySorted N.lt (list_wal_numbers fs).
Proof.
  induction fs as [|[name e] r IH]; [constructor|].
  rewrite list_wal_numbers_cons. destruct e; try exact IH.
  destruct (filename_to_position name); [|exact IH]. now apply insert_sorted_sorted.
Qed.

Lemma listed_bound fs x : In x (list_wal_numbers fs) -> x <= U64_MAX.
Proof.
  induction fs as [|[name e] r IH]; [intros []|].
  rewrite list_wal_numbers_cons. destruct e; try exact IH.
  destruct (filename_to_position name) as [n|] eqn:En; [|exact IH].
  intros Hin. apply insert_sorted_In in Hin. destruct Hin as [->|Hin]; [|now apply IH].
  apply parse_exact in En. apply En.
Qed.

Lemma listed_len fs : lenN (list_wal_numbers fs) <= lenN fs.
Proof.
  induction fs as [|[name e] r IH]; [cbn; lia|].
  rewrite list_wal_numbers_cons, lenN_cons. destruct e; try lia.
  destruct (filename_to_position name) as [n|]; [|lia].
  pose proof (lenN_insert_sorted n (list_wal_numbers r)). lia.
Qed.

Definition sumlen (fs : fsT) (l : list N) : N :=
  fold_right (fun n acc => lenN (fcontent fs n) + acc) 0 l.

Lemma fs_bytes_cons name e r :
  fs_bytes ((name, e) :: r) = match e with FFile b => lenN b + fs_bytes r | _ => fs_bytes r end.
Proof. reflexivity. Qed.

Lemma fcontent_cons name e r n :
  fcontent ((name, e) :: r) n =
  if bytes_eqb name (filename n) then match e with FFile b => b | _ => [] end else fcontent r n.
Proof. unfold fcontent. cbn [fs_get]. destruct (bytes_eqb name (filename n)); reflexivity. Qed.

Lemma sumlen_cons_nohit name e r l :
  (forall x, In x l -> filename x <> name) -> sumlen ((name, e) :: r) l = sumlen r l.
Proof.
  induction l as [|x l IH]; intros Hno; [reflexivity|].
  cbn [sumlen fold_right]. fold (sumlen ((name, e) :: r) l) (sumlen r l).
  rewrite IH by (intros y Hy; apply Hno; now right).
  rewrite fcontent_cons.
  destruct (bytes_eqb name (filename x)) eqn:E; [|reflexivity].
  apply bytes_eqb_eq in E. exfalso. apply (Hno x); [now left|congruence].
Qed.

Lemma sumlen_cons_le name e r l :
  NoDup l -> (forall x, In x l -> x <= U64_MAX) ->
  sumlen ((name, e) :: r) l <= match e with FFile b => lenN b | _ => 0 end + sumlen r l.
Proof.
  induction l as [|x l IH]; intros Hnd Hb; [cbn; lia|].
  inversion Hnd as [|? ? Hnin Hnd']; subst.
  cbn [sumlen fold_right]. fold (sumlen ((name, e) :: r) l) (sumlen r l).
  rewrite fcontent_cons.
  destruct (bytes_eqb name (filename x)) eqn:E.
  - apply bytes_eqb_eq in E.
    rewrite sumlen_cons_nohit.
    + destruct e; rewrite ?lenN_nil; lia.
    + intros y Hy Hf. apply Hnin.
      assert (y = x); [|congruence].
      apply filename_inj; [apply Hb; now right|apply Hb; now left|congruence].
  - specialize (IH Hnd' (fun y Hy => Hb y (or_intror Hy))). lia.
Qed.

Lemma sumlen_le_fs_bytes : forall fs l,
  NoDup l -> (forall x, In x l -> x <= U64_MAX) -> sumlen fs l <= fs_bytes fs.
Proof.
  induction fs as [|[name e] r IH]; intros l Hnd Hb.
  - induction l as [|x l IHl]; [cbn; lia|].
    cbn [sumlen fold_right]. fold (sumlen [] l).
    inversion Hnd; subst. specialize (IHl H2 (fun y Hy => Hb y (or_intror Hy))).
    unfold fcontent at 1. cbn [fs_get]. rewrite lenN_nil. cbn [fs_bytes fold_right] in *. lia.
  - pose proof (sumlen_cons_le name e r l Hnd Hb) as H1.
    specialize (IH l Hnd Hb). rewrite fs_bytes_cons. destruct e; lia.
Qed.

Lemma sumw_split fs l :
  sumw (fun n => lenN (fcontent fs n)) l = sumlen fs l + 6 * lenN l.
Proof.
  induction l as [|x l IH]; [reflexivity|].
  cbn [sumw sumlen fold_right].
  fold (sumw (fun n => lenN (fcontent fs n)) l) (sumlen fs l).
  rewrite IH, lenN_cons. lia.
Qed.

Lemma sumw_listed fs :
  sumw (fun n => lenN (fcontent fs n)) (list_wal_numbers fs) <= fs_bytes fs + 6 * lenN fs.
Proof.
  rewrite sumw_split.
  pose proof (sumlen_le_fs_bytes fs (list_wal_numbers fs)
                (sorted_NoDup _ (listed_sorted fs)) (listed_bound fs)).
  pose proof (listed_len fs). lia.
Qed.

(* ================================================================== *)
(* 6. rd_open establishes the invariant and bounds the potential       *)
(* ================================================================== *)
Section Open.
Variable P : params.
Hypothesis HBS : 7 < BS P.

Definition zinv (W : N -> N) (fs : fsT) : Prop :=
  forall n, all_zero (dropN (W n) (fcontent fs n)) = true.

Lemma zinv_init fs : zinv (fun n => lenN (fcontent fs n)) fs.
Proof. intros n. rewrite dropN_all by lia. reflexivity. Qed.

Lemma all_zero_drop_app_zeros W b k :
  all_zero (dropN W b) = true -> all_zero (dropN W (b ++ zerosN k)) = true.
Proof.
  intros H. destruct (N.le_gt_cases W (lenN b)) as [Hle|Hgt].
  - rewrite dropN_app_le by assumption. rewrite all_zero_app, H, all_zero_zerosN. reflexivity.
  - rewrite dropN_app_ge by lia. apply all_zero_dropN_c, all_zero_zerosN.
Qed.

Lemma zinv_put W fs name b :
  zinv W fs -> (forall n, filename n = name -> all_zero (dropN (W n) b) = true) ->
  zinv W (fs_put fs name (FFile b)).
Proof.
  intros Hz Hb n. unfold fcontent. rewrite fs_get_put.
  destruct (bytes_eqb name (filename n)) eqn:E.
  - apply bytes_eqb_eq in E. now apply Hb.
  - apply Hz.
Qed.

Lemma create_file_zinv W c n c' r :
  create_file P c n = (c', r) -> zinv W (c_fs c) -> zinv W (c_fs c').
Proof.
  unfold create_file. destruct (fs_get (c_fs c) (filename n)).
  - intros H; inversion H; subst. trivial.
  - intros H Hz; inversion H; subst. cbn [c_fs ctx_ev ctx_fs].
    apply zinv_put; [apply zinv_put; [exact Hz|]|].
    + intros m _. destruct (W m); reflexivity.
    + intros m _. apply all_zero_dropN_c, all_zero_zerosN.
Qed.

Lemma ensure_last_full_zinv W c files c' r :
  ensure_last_full P c files = (c', r) -> zinv W (c_fs c) -> zinv W (c_fs c').
Proof.
  unfold ensure_last_full. destruct (last_opt files) as [n|]; [|intros H; inversion H; subst; trivial].
  destruct (N.ltb_spec (lenN (file_content c n)) (FILE_BYTES P)) as [Hlt|Hge];
    [|intros H; inversion H; subst; trivial].
  destruct (open_file c n) as [c1 [u|e]] eqn:Ho; apply open_file_fs in Ho;
    intros H Hz; inversion H; subst; [|rewrite Ho; exact Hz].
  cbn [c_fs ctx_ev ctx_fs]. rewrite Ho. apply zinv_put; [exact Hz|].
  intros m Hm. rewrite file_content_fcontent. unfold set_len.
  destruct (N.leb_spec (FILE_BYTES P) (lenN (fcontent (c_fs c) n))) as [Hle|_].
  - rewrite file_content_fcontent in Hlt. lia.
  - apply all_zero_drop_app_zeros.
    replace (fcontent (c_fs c) n) with (fcontent (c_fs c) m); [apply Hz|].
    unfold fcontent. rewrite Hm. reflexivity.
Qed.

Definition rd_open_tail (c2 : ioctx) (files : list N) : ioctx * res rreaderS :=
  match (if L_SHORT P then (c2, Ok tt) else ensure_last_full P c2 files) with
  | (c2', Err e) => (c2', Err e)
  | (c2, Ok _) =>
    let first := match files with f :: _ => f | [] => 0 end in
    match open_file c2 first with
    | (c3, Err e) => (c3, Err e)
    | (c3, Ok _) =>
        match read_block P c3 first 0 with
        | (c4, _, Err e) => (c4, Err e)
        | (c4, _, Ok None) => (c4, Err IoUnexpectedEof)
        | (c4, pos', Ok (Some blk)) => (c4, Ok (mkRd c4 files first 0 pos' blk))
        end
    end
  end.

Lemma rd_open_eq c0 :
  rd_open P c0 =
  match fault_point (ctx_ev c0 EvReadDir) SReadDir with
  | (c1, Some e) => (c1, Err e)
  | (c1, None) =>
      match list_wal_numbers (c_fs c1) with
      | [] => match create_file P c1 0 with
              | (c', Ok _) => rd_open_tail c' [0]
              | (c', Err e) => (c', Err e)
              end
      | listed => rd_open_tail c1 listed
      end
  end.
Proof.
  unfold rd_open, rd_open_tail.
  destruct (fault_point (ctx_ev c0 EvReadDir) SReadDir) as [c1 [e|]]; [reflexivity|].
  destruct (list_wal_numbers (c_fs c1)) as [|x l]; [|reflexivity].
  destruct (create_file P c1 0) as [c' [u|e]]; reflexivity.
Qed.

Lemma rd_open_tail_spec W B c2 files c rd :
  zinv W (c_fs c2) -> sumw W files <= B -> files <> [] ->
  rd_open_tail c2 files = (c, Ok rd) ->
  zinv W (c_fs (rd_ctx rd)) /\ rdinv P (c_fs (rd_ctx rd)) rd /\ Psi W rd (BS P) <= B.
Proof.
  intros Hz HB Hne. unfold rd_open_tail.
  destruct (if L_SHORT P then (c2, Ok tt) else ensure_last_full P c2 files) as [c2' [u|e]] eqn:He;
    [|intros H; inversion H].
  assert (Hz' : zinv W (c_fs c2')).
  { destruct (L_SHORT P); [inversion He; subst; exact Hz|].
    eapply ensure_last_full_zinv; eassumption. }
  destruct files as [|first rest]; [congruence|].
  destruct (open_file c2' first) as [c3 [u'|e]] eqn:Ho; [|intros H; inversion H].
  apply open_file_fs in Ho.
  destruct (read_block P c3 first 0) as [[c4 pos'] [[blk|]|e]] eqn:Hr;
    intros H; inversion H; subst.
  apply read_block_spec in Hr. destruct Hr as [Hfs [Hp Hb]].
  cbn [rd_ctx]. rewrite N.add_0_l in *. subst pos' blk.
  assert (Hfs4 : c_fs c = c_fs c2') by congruence.
  split; [rewrite Hfs4; exact Hz'|]. split.
  - unfold rdinv. cbn [rd_ctx rd_pos rd_block rd_file]. split; [reflexivity|]. split; [lia|].
    rewrite N.sub_diag. congruence.
  - unfold Psi. cbn [rd_files rd_file rd_pos].
    pose proof (sumw_after_head W first rest) as H1.
    cbn [sumw fold_right] in HB. fold (sumw W rest) in HB. lia.
Qed.

Lemma rd_open_spec fs0 plan c rd :
  rd_open P (ctx_init fs0 plan) = (c, Ok rd) ->
  let W := fun n => lenN (fcontent fs0 n) in
  zinv W (c_fs (rd_ctx rd)) /\ rdinv P (c_fs (rd_ctx rd)) rd /\
  Psi W rd (BS P) <= fs_bytes fs0 + 6 * lenN fs0 + 6.
Proof.
  intros H W. rewrite rd_open_eq in H.
  pose proof (fault_point_fs (ctx_ev (ctx_init fs0 plan) EvReadDir) SReadDir) as Hf.
  destruct (fault_point (ctx_ev (ctx_init fs0 plan) EvReadDir) SReadDir) as [c1 [e|]];
    [inversion H|]. cbn [fst c_fs ctx_ev ctx_init] in Hf.
  assert (Hz1 : zinv W (c_fs c1)) by (rewrite Hf; apply zinv_init).
  destruct (list_wal_numbers (c_fs c1)) as [|x l] eqn:El.
  - destruct (create_file P c1 0) as [c' [u|e]] eqn:Hc; [|inversion H].
    pose proof (fun B Hz HB Hne => rd_open_tail_spec W B _ _ _ _ Hz HB Hne H) as Hs.
    eapply Hs; [eapply create_file_zinv; eassumption| |discriminate].
    cbn [sumw fold_right]. unfold W.
    assert (Hn : fcontent fs0 0 = []).
    { unfold create_file in Hc. rewrite Hf in Hc. unfold fcontent.
      destruct (fs_get fs0 (filename 0)); [inversion Hc|reflexivity]. }
    rewrite Hn, lenN_nil. lia.
  - pose proof (fun B Hz HB Hne => rd_open_tail_spec W B _ _ _ _ Hz HB Hne H) as Hs.
    eapply Hs; [exact Hz1| |discriminate].
    rewrite <- El, Hf. pose proof (sumw_listed fs0). unfold W. lia.
Qed.

Theorem open_with_enough_fuel fuel fs plan pol hint c :
  L_IO P = false ->
  fs_bytes fs + 6 * lenN fs + 6 < 7 * N.of_nat fuel ->
  open_with P fuel fs plan pol hint <> OpenFuel c.
Proof.
  intros HIO Hfuel. unfold open_with.
  destruct (rd_open P (ctx_init fs plan)) as [c0 [rd|e]] eqn:Ho; [|discriminate].
  apply rd_open_spec in Ho. cbv zeta in Ho. destruct Ho as (Hz & Hinv & Hpsi).
  destruct (replay_loop P fuel fuel (rr_open rreaderS rd) []) as [rr rp] eqn:Hrp.
  assert (Hnf : rp <> RpFuel).
  { eapply (replay_loop_measure P HBS _ _ Hz HIO fuel fuel (rr_open rreaderS rd) [] rr rp);
      [exact Hinv| | |exact Hrp];
      unfold PhiR, Phi, blockrem; cbn [rr_open rr_fr fr_open fr_rd fr_corrupt fr_cursor];
      rewrite N.sub_0_r; lia. }
  destruct rp; try discriminate; [|congruence].
  destruct (run_gc_if_necessary P _ hint) as [st1 [n|e]]; discriminate.
Qed.

Lemma open_fuel_enough fs :
  fs_bytes fs + 6 * lenN fs + 6 < 7 * N.of_nat (open_fuel P fs).
Proof.
  unfold open_fuel, HEADER_LEN. rewrite N2Nat.id.
  pose proof (N.div_mod (fs_bytes fs) 7 ltac:(lia)) as Hd.
  pose proof (N.mod_lt (fs_bytes fs) 7 ltac:(lia)) as Hm.
  nia.
Qed.

(* C10: the fuel of the model is never exhausted *)
Theorem open_never_out_of_fuel fs plan pol hint c :
  L_IO P = false -> open P fs plan pol hint <> OpenFuel c.
Proof.
  intros HIO. unfold open. apply open_with_enough_fuel; [exact HIO|apply open_fuel_enough].
Qed.
End Open.

Check open_never_out_of_fuel.
Check open_with_enough_fuel.
Check open_with_fuel_mono.
Print Assumptions open_never_out_of_fuel.
Print Assumptions open_with_enough_fuel.
Print Assumptions open_with_fuel_mono.
