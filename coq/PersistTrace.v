(* PersistTrace.v — the I/O trace of one API call under ANY persist policy, starting from a state
   whose BufWriter may hold pending bytes (generalises CrashTrace.step_trace_rel, which assumes
   PAlways and an empty buffer).  Relative to an "anchor" (ev0, fs0, f0, off0: events, directory
   and OS position at a state where nothing was buffered; CrashTrace.tinv) a call either
     (N) only buffers / writes data: the trace invariant tinv holds again, for the bytes D
         accepted so far extended by the bytes of the call (no flush group, no unlink), or
     (P) ends with a flush group: events = data writes ++ flush_group, nothing pending, or
     (G) runs the garbage collector with at least one deletable file (delete / truncate):
         the intermediate states are exposed (gc_trace).
   Also: the initial tinv at an anchor (anchor_tinv). *)
From Coq Require Import Lia ZArith ZifyN ZifyNat ZifyBool List Sorted.
From MRL Require Import Bytes BytesProofs Params Names NamesProofs Frame Record Mem Spec Rolling Log
  Driver SpecRefine RecordProofs StreamProofs PolicyProofs GcProofs GhostLog ReplaySpec
  HandleProofs FileStream ResyncProofs PersistProofs WriterProofs RestartInv RestartWrite RestartGc
  RestartStep OpenReplay CrashTrace.

Arguments N.add : simpl never.
Arguments N.sub : simpl never.
Arguments N.mul : simpl never.
Arguments N.eqb : simpl never.
Arguments N.ltb : simpl never.
Arguments N.leb : simpl never.
Arguments N.div : simpl never.
Arguments N.modulo : simpl never.
Arguments N.min : simpl never.
Arguments N.max : simpl never.

Section PTrace.
Variable P : params.
Hypothesis HBS_lo : 7 < BS P.
Hypothesis HBS_hi : BS P <= 65542.
Hypothesis HNB : 1 <= NB P.
Hypothesis Hcrc : forall t p, crcf P t p < 2 ^ 32.
Hypothesis HGC : L_GC P = false.

Local Notation B := (BS P).
Local Notation FB := (FILE_BYTES P).
Local Notation ffp := (first_frame_pos P).
Local Notation enc_of := (enc_of P).
Local Notation encs_of := (encs_of P).
Local Notation sr := (map entry_ser).
Local Notation HW f := (f P HBS_lo HBS_hi HNB Hcrc) (only parsing).
Local Notation HG f := (f P HBS_lo HBS_hi HNB Hcrc HGC) (only parsing).
Local Notation H3 f := (f P HBS_lo HBS_hi Hcrc) (only parsing).

(* ---------- the intermediate state of delete / truncate: own entry written, queues updated,
   the garbage collector not yet run ---------- *)
Definition mid_state (st : state) (o : op) : option state :=
  match o with
  | ODelete q _ =>
      match qs_get (s_qs st) q with
      | None => None
      | Some mqv =>
          let st1 := fst (write_entry P st (EDelete q (next_position mqv))) in
          Some (set_qs st1 (qs_remove (s_qs st1) q))
      end
  | OTruncate q p _ =>
      match qs_get (s_qs st) q with
      | None => None
      | Some mqv =>
          let st1 := fst (write_entry P st (ETruncate q p)) in
          Some (set_qs st1 (qs_put (s_qs st1) q (fst (truncate_head mqv p))))
      end
  | _ => None
  end.

Definition own_entry (st : state) (o : op) : option entry :=
  match o with
  | ODelete q _ =>
      match qs_get (s_qs st) q with
      | None => None | Some mqv => Some (EDelete q (next_position mqv)) end
  | OTruncate q p _ =>
      match qs_get (s_qs st) q with None => None | Some _ => Some (ETruncate q p) end
  | _ => None
  end.

Definition gc_hint (o : op) : list bytes :=
  match o with ODelete _ h => h | OTruncate _ _ h => h | _ => [] end.

Definition fin_state (o : op) (tick : bool) (st3 : state) : state :=
  match o with ODelete _ _ => persist st3 true | _ => persist_on_policy st3 tick end.

Section Ext.
Variable ev0 : list event.
Variable fs0 : fsT.
Variables f0 off0 M : N.
Variable buf0 : bytes.
Variables lo0 cur0 : N.
Local Notation TI := (tinv P ev0 fs0 f0 off0 M buf0 lo0 cur0).

(* (P): the call ended with a flush group *)
Definition kP (st' : state) (D' : bytes) : Prop :=
  exists wevs a,
    c_ev (w_ctx (s_wr st')) = rev (wevs ++ flush_group (w_file (s_wr st')) a) ++ ev0 /\
    c_fs (w_ctx (s_wr st')) =
      fold_left apply_event (wevs ++ flush_group (w_file (s_wr st')) a) fs0 /\
    wtrace P f0 off0 wevs D' (w_file (s_wr st')) (w_off (s_wr st')) /\
    w_pending (s_wr st') = [] /\ wlo (s_wr st') = lo0.

Lemma kP_persist st D a : TI (s_wr st) D -> kP (persist st a) D.
Proof.
  intros Ht. destruct (tinv_facts _ _ _ _ _ _ _ _ _ _ _ Ht) as ((_ & Hwf & Hoff & _) & Hlo & HtW).
  destruct (HW trW_persist ev0 fs0 f0 off0 (s_wr st) D a HtW Hwf Hoff)
    as (evs & Hev & Hfs & Htr & _ & K2 & K3 & K4).
  exists evs, a. cbn [persist set_wr s_wr]. rewrite K2, K3.
  split; [exact Hev|]. split; [exact Hfs|]. split; [exact Htr|]. split; [exact K4|].
  now rewrite wlo_persist.
Qed.

Lemma fin_pol st D tick :
  TI (s_wr st) D ->
  TI (s_wr (persist_on_policy st tick)) D \/ kP (persist_on_policy st tick) D.
Proof.
  intros Ht. unfold persist_on_policy. destruct (s_pol st) as [|a|a].
  - now left.
  - destruct tick; [right; now apply kP_persist|now left].
  - right. now apply kP_persist.
Qed.

(* (G): the garbage collector found something to delete *)
Definition kG (st : state) (o : op) (tick : bool) (st' : state) (D D' : bytes) : Prop :=
  exists st2 st3 k e D2,
    mid_state st o = Some st2 /\ own_entry st o = Some e /\
    has_deletable st2 = true /\
    run_gc_if_necessary P st2 (gc_hint o) = (st3, Ok k) /\
    st' = fin_state o tick st3 /\
    D2 = D ++ enc_of (cur0 + lenN D) (entry_ser e) /\
    TI (s_wr st2) D2 /\
    step_log P st o = (w_file (s_wr st), e) :: gc_log P st2 (gc_hint o) /\
    D' = D2 ++ encs_of (cur0 + lenN D2) (sr (map snd (gc_log P st2 (gc_hint o)))).

(* after the garbage collector (which did nothing, or is analysed separately) *)
Lemma after_gc st o tick st2 D2 e st3 k D0 :
  mid_state st o = Some st2 -> own_entry st o = Some e ->
  D2 = D0 ++ enc_of (cur0 + lenN D0) (entry_ser e) ->
  step_log P st o = (w_file (s_wr st), e) :: gc_log P st2 (gc_hint o) ->
  TI (s_wr st2) D2 ->
  run_gc_if_necessary P st2 (gc_hint o) = (st3, Ok k) ->
  (match o with ODelete _ _ | OTruncate _ _ _ => True | _ => False end) ->
  let D' := D2 ++ encs_of (cur0 + lenN D2) (sr (map snd (gc_log P st2 (gc_hint o)))) in
  let st' := fin_state o tick st3 in
  TI (s_wr st') D' \/ kP st' D' \/ kG st o tick st' D0 D'.
Proof.
  intros Hmid Hown ED2 Hlog Ht Hgc Ho D' st'.
  destruct (has_deletable st2) eqn:Ehd.
  - right. right. exists st2, st3, k, e, D2. repeat (split; [assumption || reflexivity|]).
    reflexivity.
  - assert (E3 : st3 = st2).
    { unfold run_gc_if_necessary in Hgc. rewrite Ehd in Hgc. now inversion Hgc. }
    assert (ED : D' = D2).
    { unfold D', gc_log. rewrite Ehd. cbn [map ResyncProofs.encs_of]. apply app_nil_r. }
    rewrite ED. unfold st'. rewrite E3.
    destruct o; try destruct Ho; cbn [fin_state].
    + right. left. now apply kP_persist.
    + destruct (fin_pol st2 D2 tick Ht) as [H|H]; [now left|right; now left].
Qed.

Theorem gstep_trace st D o tick st' out :
  TI (s_wr st) D ->
  cur0 + lenN D + lenN (encs_of (cur0 + lenN D) (sr (map snd (step_log P st o)))) <= M ->
  step P st o tick = (st', out) -> no_io out ->
  let D' := D ++ encs_of (cur0 + lenN D) (sr (map snd (step_log P st o))) in
  TI (s_wr st') D' \/ kP st' D' \/ kG st o tick st' D D'.
Proof.
  intros Ht HM Hstep Hno. cbn zeta.
  assert (Hnoop : step_log P st o = [] -> st' = st ->
            TI (s_wr st') (D ++ encs_of (cur0 + lenN D) (sr (map snd (step_log P st o))))).
  { intros E ->. rewrite E. cbn [map ResyncProofs.encs_of]. now rewrite app_nil_r. }
  destruct o as [q|q hint|q pos payloads|q p hint|fsync]; cbn [step step_log] in *.
  - (* ---------- create ---------- *)
    unfold create_queue in Hstep. unfold create_log in *.
    destruct (qs_contains (s_qs st) q).
    { inversion Hstep; subst. left. now apply Hnoop. }
    destruct (write_entry P st (EPosition q 0)) as [st1 r1] eqn:Ew.
    cbn [map snd ResyncProofs.encs_of] in HM |- *. rewrite app_nil_r in HM |- *.
    destruct (HW tinv_write_entry _ _ _ _ _ _ _ _ st D _ st1 r1 Ht HM Ew) as (-> & _ & _ & Ht1).
    inversion Hstep; subst st' out. right. left.
    destruct (kP_persist st1 _ true Ht1) as (wevs & a & H1 & H2 & H4 & H5 & H6).
    exists wevs, a. cbn [set_qs s_wr persist set_wr] in *. auto.
  - (* ---------- delete ---------- *)
    unfold delete_queue in Hstep. unfold delete_log in *.
    destruct (qs_get (s_qs st) q) as [mqv|] eqn:Eq;
      [|inversion Hstep; subst; left; now apply Hnoop].
    destruct (write_entry P st (EDelete q (next_position mqv))) as [st1 r1] eqn:Ew.
    set (e1 := EDelete q (next_position mqv)) in *.
    assert (HM1 : cur0 + lenN D + lenN (enc_of (cur0 + lenN D) (entry_ser e1)) <= M).
    { destruct r1; cbn [map snd ResyncProofs.encs_of] in HM; rewrite lenN_app in HM; lia. }
    destruct (HW tinv_write_entry _ _ _ _ _ _ _ _ st D _ st1 r1 Ht HM1 Ew) as (-> & _ & Epol1 & Ht1).
    set (st2 := set_qs st1 (qs_remove (s_qs st1) q)) in *.
    destruct (run_gc_if_necessary P st2 hint) as [st3 [k|err]] eqn:Eg;
      [|inversion Hstep; subst; exfalso; eapply Hno; reflexivity].
    inversion Hstep; subst st' out.
    assert (Hmid : mid_state st (ODelete q hint) = Some st2).
    { cbn [mid_state]. rewrite Eq. fold e1. now rewrite Ew. }
    assert (Hown : own_entry st (ODelete q hint) = Some e1) by (cbn [own_entry]; now rewrite Eq).
    pose proof (after_gc st (ODelete q hint) tick st2 _ e1 st3 k D Hmid Hown eq_refl) as Hag.
    cbn [gc_hint fin_state step_log] in Hag. unfold delete_log in Hag. rewrite Eq in Hag.
    fold e1 in Hag. rewrite Ew in Hag. fold st2 in Hag.
    specialize (Hag eq_refl Ht1 Eg I).
    cbn [map snd ResyncProofs.encs_of]. rewrite app_assoc.
    replace (cur0 + lenN D + lenN (enc_of (cur0 + lenN D) (entry_ser e1)))
      with (cur0 + lenN (D ++ enc_of (cur0 + lenN D) (entry_ser e1)))
      by (rewrite lenN_app; lia).
    destruct Hag as [H|[H|H]]; [now left|right; now left|right; right].
    destruct H as (s2 & s3 & k' & e' & D2 & A1 & A2 & A3 & A4 & A5 & A6 & A7 & A8 & A9).
    exists s2, s3, k', e', D2. repeat (split; [assumption|]). exact A9.
  - (* ---------- append ---------- *)
    unfold append_records in Hstep. unfold append_log in *.
    destruct (qs_get (s_qs st) q) as [mqv|];
      [|inversion Hstep; subst; left; now apply Hnoop].
    destruct (match pos with
              | Some p => if p + 1 =? next_position mqv then Some (OutAppend None 0)
                          else if p <? next_position mqv then Some OutPast else None
              | None => None end) as [o|] eqn:Ee.
    { rewrite (append_early_target_none _ _ _ Ee) in *. inversion Hstep; subst; left; now apply Hnoop. }
    rewrite (append_early_target _ _ Ee) in *.
    set (position := match pos with Some p => p | None => next_position mqv end) in *.
    destruct payloads as [|x r]; cbn [number_from] in *;
      [inversion Hstep; subst; left; now apply Hnoop|].
    set (e1 := EAppend q position ((position, x) :: number_from (position + 1) r)) in *.
    destruct (write_entry P st e1) as [st1 r1] eqn:Ew.
    cbn [map snd ResyncProofs.encs_of] in HM |- *. rewrite app_nil_r in HM |- *.
    destruct (HW tinv_write_entry _ _ _ _ _ _ _ _ st D _ st1 r1 Ht HM Ew) as (-> & _ & Epol1 & Ht1).
    destruct (fin_pol st1 _ tick Ht1) as [H|H].
    + left. destruct (append_all mqv (w_file (s_wr st)) ((position, x) :: number_from (position + 1) r));
        inversion Hstep; subst st' out; cbn [set_qs s_wr]; exact H.
    + right. left. destruct H as (wevs & a & H1 & H2 & H4 & H5 & H6).
      destruct (append_all mqv (w_file (s_wr st)) ((position, x) :: number_from (position + 1) r));
        inversion Hstep; subst st' out; exists wevs, a; cbn [set_qs s_wr]; auto.
  - (* ---------- truncate ---------- *)
    unfold truncate in Hstep. unfold truncate_log in *.
    destruct (qs_get (s_qs st) q) as [mqv|] eqn:Eq;
      [|inversion Hstep; subst; left; now apply Hnoop].
    destruct (write_entry P st (ETruncate q p)) as [st1 r1] eqn:Ew.
    set (e1 := ETruncate q p) in *.
    assert (HM1 : cur0 + lenN D + lenN (enc_of (cur0 + lenN D) (entry_ser e1)) <= M).
    { destruct r1; cbn [map snd ResyncProofs.encs_of] in HM; rewrite lenN_app in HM; lia. }
    destruct (HW tinv_write_entry _ _ _ _ _ _ _ _ st D _ st1 r1 Ht HM1 Ew) as (-> & _ & Epol1 & Ht1).
    destruct (truncate_head mqv p) as [mq' evicted] eqn:Eth. cbn [fst] in *.
    set (st2 := set_qs st1 (qs_put (s_qs st1) q mq')) in *.
    destruct (run_gc_if_necessary P st2 hint) as [st3 [k|err]] eqn:Eg;
      [|inversion Hstep; subst; exfalso; eapply Hno; reflexivity].
    inversion Hstep; subst st' out.
    assert (Hmid : mid_state st (OTruncate q p hint) = Some st2).
    { cbn [mid_state]. rewrite Eq. fold e1. now rewrite Ew, Eth. }
    assert (Hown : own_entry st (OTruncate q p hint) = Some e1) by (cbn [own_entry]; now rewrite Eq).
    pose proof (after_gc st (OTruncate q p hint) tick st2 _ e1 st3 k D Hmid Hown eq_refl) as Hag.
    cbn [gc_hint fin_state step_log] in Hag. unfold truncate_log in Hag. rewrite Eq in Hag.
    fold e1 in Hag. rewrite Ew, Eth in Hag. cbn [fst] in Hag. fold st2 in Hag.
    specialize (Hag eq_refl Ht1 Eg I).
    cbn [map snd ResyncProofs.encs_of]. rewrite app_assoc.
    replace (cur0 + lenN D + lenN (enc_of (cur0 + lenN D) (entry_ser e1)))
      with (cur0 + lenN (D ++ enc_of (cur0 + lenN D) (entry_ser e1)))
      by (rewrite lenN_app; lia).
    destruct Hag as [H|[H|H]]; [now left|right; now left|right; right].
    destruct H as (s2 & s3 & k' & e' & D2 & A1 & A2 & A3 & A4 & A5 & A6 & A7 & A8 & A9).
    exists s2, s3, k', e', D2. repeat (split; [assumption|]). exact A9.
  - (* ---------- persist ---------- *)
    inversion Hstep; subst st' out. right. left. cbn [map ResyncProofs.encs_of].
    rewrite app_nil_r. now apply kP_persist.
Qed.

(* ---------- the garbage collector, with its intermediate states exposed ---------- *)
Definition gc_names (st2 : state) (hint : list bytes) : list bytes :=
  pick_order hint (empty_names (s_qs st2)).
(* after the position entries *)
Definition gc_st0 (st2 : state) (hint : list bytes) : state :=
  fst (record_positions P st2 (gc_names st2 hint) 0).
(* after the persist that precedes the unlinks *)
Definition gc_st1 (st2 : state) (hint : list bytes) : state := persist (gc_st0 st2 hint) true.

Lemma gc_trace st2 D2 hint st3 k :
  TI (s_wr st2) D2 ->
  cur0 + lenN D2 + lenN (encs_of (cur0 + lenN D2) (sr (map snd (gc_log P st2 hint)))) <= M ->
  has_deletable st2 = true ->
  run_gc_if_necessary P st2 hint = (st3, Ok k) ->
  let st1 := gc_st1 st2 hint in
  let f1 := w_file (s_wr st1) in
  let D' := D2 ++ encs_of (cur0 + lenN D2) (sr (map snd (gc_log P st2 hint))) in
  exists wevs m c files',
    c_ev (w_ctx (s_wr st1)) = rev (wevs ++ flush_group f1 true) ++ ev0 /\
    c_fs (w_ctx (s_wr st1)) = fold_left apply_event wevs fs0 /\
    wtrace P f0 off0 wevs D' f1 (w_off (s_wr st1)) /\
    w_pending (s_wr st1) = [] /\
    gc_loop (w_ctx (s_wr st1)) (w_files (s_wr st1)) (referenced st1 (w_file (s_wr st2))) =
      (c, files', Ok tt) /\
    w_files (s_wr st1) = iota lo0 m ++ files' /\
    st3 = set_wr st1 (mkWr c files' (w_file (s_wr st1)) (w_off (s_wr st1)) (w_pending (s_wr st1))) /\
    c_ev c = rev (unlinks lo0 m) ++ c_ev (w_ctx (s_wr st1)) /\
    c_fs c = remove_files (c_fs (w_ctx (s_wr st1))) (iota lo0 m) /\
    lo0 + N.of_nat m <= f1 /\ s_pol st1 = s_pol st2 /\ s_qs st1 = s_qs st2 /\
    wlo (s_wr st1) = lo0 /\ winv P (s_wr st1).
Proof.
  intros Ht HM Ehd Hg st1 f1 D'. subst st1 f1 D'.
  unfold gc_st1, gc_st0, gc_names.
  unfold run_gc_if_necessary in Hg. unfold gc_log in *. rewrite Ehd in *.
  unfold record_empty_queues_position in Hg.
  destruct (record_positions P st2 (pick_order hint (empty_names (s_qs st2))) 0) as [st1 r1] eqn:Er.
  cbn [fst].
  destruct (HW tinv_record_positions _ _ _ _ _ _ _ _ _ st2 D2 0 st1 r1 Ht HM Er)
    as ((k0 & ->) & Eqs & Epol & Ht1).
  rewrite HGC in Hg. cbn [andb] in Hg.
  set (D' := D2 ++ encs_of (cur0 + lenN D2) _) in *.
  destruct (tinv_facts _ _ _ _ _ _ _ _ _ _ _ Ht1) as (Hi1 & Hlo1 & HtW1).
  pose proof Hi1 as (Hok1 & Hwf1 & Hoff1 & _).
  destruct (HW trW_persist ev0 fs0 f0 off0 (s_wr st1) D' true HtW1 Hwf1 Hoff1)
    as (evs & Hev & Hfs & Htr & K1 & K2 & K3 & K4).
  cbn [persist set_wr s_wr] in Hg |- *.
  remember (wr_persist (s_wr st1) true) as wp eqn:Ewp.
  destruct (gc_loop (w_ctx wp) (w_files wp) _) as [[c files] rg] eqn:Egc.
  destruct rg as [[]|e]; inversion Hg; subst st3 k; clear Hg.
  destruct (gc_loop_ok _ _ _ _ _ Egc) as (dropped & Efiles & Hun & _ & Hevg & Hfsg & _).
  rewrite K1, (wr_ok_iota P HBS_lo HBS_hi HNB _ Hok1), Hlo1 in Efiles.
  pose proof (iota_app_inv _ _ _ _ Efiles) as Edr.
  set (m := length dropped) in *.
  assert (Hiw : winv P wp).
  { rewrite Ewp. apply (winv_transfer P (s_wr st1)); [apply wr_persist_key|apply wr_persist_vfs| |exact Hi1].
    apply wf_nil. apply wr_persist_drained. }
  exists evs, m, c, files. cbn [s_pol s_qs]. rewrite K2, K3.
  split; [exact Hev|].
  split; [rewrite Hfs, fold_left_app; apply fold_flush_group|].
  split; [exact Htr|]. split; [exact K4|].
  split; [reflexivity|].
  split; [rewrite K1, (wr_ok_iota P HBS_lo HBS_hi HNB _ Hok1), Hlo1, Efiles, <- Edr; reflexivity|].
  split; [reflexivity|].
  split.
  { rewrite Hevg. unfold unlink_events, unlinks. rewrite <- Edr. reflexivity. }
  split; [rewrite Hfsg, <- Edr; reflexivity|].
  split.
  { destruct (N.le_gt_cases (lo0 + N.of_nat m) (w_file (s_wr st1))) as [Hle|Hgt]; [exact Hle|].
    exfalso. assert (Hin : In (w_file (s_wr st1)) dropped).
    { rewrite Edr. apply iota_In. fold m.
      pose proof (winv_wlo_le P HBS_lo HBS_hi HNB _ Hi1). lia. }
    rewrite Forall_forall in Hun. specialize (Hun _ Hin). unfold referenced in Hun.
    cbn [persist set_wr s_wr] in Hun. rewrite <- Ewp, K2, N.eqb_refl, orb_true_r in Hun.
    discriminate. }
  split; [exact Epol|]. split; [exact Eqs|].
  split; [|exact Hiw].
  rewrite Ewp. rewrite wlo_persist. exact Hlo1.
Qed.

End Ext.
(* ====================================================================== *)
(* the anchor: a state with nothing buffered                              *)
(* ====================================================================== *)
Local Notation call_cursor_w w G := ((wlo w - gh_base G) * FB + wpos P w).

Lemma anchor_tinv w G Xe :
  PInv P w G -> w_pending w = [] -> stream_bound P G Xe ->
  let M := wpos P w + lenN (encs_of (wpos P w) (sr Xe)) in
  tinv P (c_ev (w_ctx w)) (c_fs (w_ctx w)) (w_file w) (w_off w) M
       (takeN (wpos P w) (wstream w)) (wlo w) (wpos P w) w [].
Proof.
  intros HP Hp0 Hbound M.
  destruct (HW pinv_setup w G HP) as (Hlb & Ebuf & HS & Hposn & Hn & Hn1). cbn zeta in *.
  pose proof HP as (Hw & _ & _ & Hbase & Hc1 & Hc2 & _). cbn zeta in Hc1, Hc2.
  set (dl := wlo w - gh_base G) in *.
  set (T := gh_T P G) in *. set (a0 := lenN T) in *.
  set (c := dl * FB + wpos P w) in *.
  set (buf := takeN (wpos P w) (wstream w)) in *.
  set (X := sr Xe) in *.
  assert (EX : encs_of (wpos P w) X = encs_of c X).
  { unfold c. symmetry. apply (HW encs_of_shift). apply (mulFB_mod P HBS_lo HBS_hi HNB). }
  pose proof Hw as (Hok & Hwf' & Hoff & Hplan & Hu & Hfull & Hfresh).
  assert (HM : FB * wlo w + M <= FB * (U64_MAX + 1)).
  { unfold M. rewrite EX. destruct X as [|x X'] eqn:EXX.
    - cbn [ResyncProofs.encs_of]. rewrite (@lenN_nil byte).
      assert (FB * (wlo w + lenN (w_files w)) <= FB * (U64_MAX + 1)) by (apply N.mul_le_mono_l; lia).
      lia.
    - rewrite <- EXX in *.
      assert (Hne : X <> []) by (rewrite EXX; discriminate).
      unfold stream_bound in Hbound. rewrite map_app in Hbound. fold X in Hbound.
      rewrite (H3 cursor_after_app) in Hbound. fold (gh_ser G) in Hbound.
      rewrite (cursor_after_0 P HBS_lo HBS_hi HNB) in Hbound. fold (gh_T P G) in Hbound. fold T in Hbound.
      fold a0 in Hbound. unfold ResyncProofs.cursor_after in Hbound.
      rewrite <- (HW encs_of_between a0 c X Hc1 Hc2 Hne), lenN_app, lenN_zerosN in Hbound.
      replace (wlo w) with (gh_base G + dl) by lia. unfold c in *. nia. }
  assert (Hcur : exists b, fs_get (c_fs (w_ctx w)) (filename (w_file w)) = Some (FFile b)).
  { rewrite <- (vfs_nil w Hp0). destruct (wr_ok_files w Hok) as (pre & Hpre & _).
    destruct (Hfull (w_file w)) as (b & Hb & _); [rewrite Hpre; apply in_or_app; right; now left|].
    now exists b. }
  unfold tinv, tsim. rewrite (@lenN_nil byte), N.add_0_r, app_nil_r.
  split.
  { split; [exact Hw|]. split; [reflexivity|]. split; [exact Hlb|]. split; [exact HS|exact HM]. }
  split; [reflexivity|]. exists []. split; [now rewrite app_nil_r|].
  exists [], []. cbn [rev app fold_left].
  split; [reflexivity|]. split; [reflexivity|]. split; [exact Hcur|].
  split; [|now rewrite Hp0].
  replace (os_pos w) with (w_off w); [constructor|].
  unfold os_pos. rewrite Hp0, (@lenN_nil byte). lia.
Qed.

(* the shape of every crash prefix of the data writes (followed by flush / sync events only) of a
   trace that starts at an anchor: no file is unlinked *)
Theorem anchor_shape_plain w G NEW f1 off1 wevs tail pe :
  PInv P w G -> w_pending w = [] ->
  wtrace P (w_file w) (w_off w) wevs NEW f1 off1 -> Forall noop_ev tail -> f1 <= U64_MAX ->
  cpre pe (wevs ++ tail) ->
  let fs0 := c_fs (w_ctx w) in
  let lo := wlo w in
  let T := gh_T P G in
  let c0 := call_cursor_w w G in
  let img := fold_left apply_event pe fs0 in
  let j := lenN (ev_data pe) in
  exists (hi : N) (short : bool) (z : N),
    lo <= hi /\ w_file w <= hi /\ hi <= f1 /\ hi <= U64_MAX /\
    nodup_keys img /\ dir_of img (nfiles lo hi) /\ list_wal_numbers img = nfiles lo hi /\
    (forall n, lo <= n <= hi ->
       exists b, fs_get img (filename n) = Some (FFile b) /\
                 lenN b = if short && (n =? hi) then 0 else FB) /\
    (short = true -> w_file w < hi) /\
    ev_data pe = takeN j NEW /\ j <= lenN NEW /\
    stream_of (zext P img hi) (nfiles lo hi) =
      dropN ((lo - gh_base G) * FB) (T ++ zerosN (c0 - lenN T) ++ takeN j NEW ++ zerosN z) /\
    c0 + j + z = (hi + 1 - gh_base G) * FB /\
    (forall n, hi < n -> n <= U64_MAX -> fs_get img (filename n) = None) /\
    (cpre pe wevs \/ (j = lenN NEW /\ hi = f1 /\ short = false)).
Proof.
  intros HP Hp0 Htr Htail Hu' Hc fs0 lo T c0 img j. subst fs0 lo T c0 img j.
  destruct (HW pinv_setup w G HP) as (Hlb & Ebuf & HS & Hposn & Hn & Hn1). cbn zeta in *.
  pose proof HP as (Hw & (_ & Hdir) & Hnd & Hbase & Hc1 & Hc2 & _). cbn zeta in Hc1, Hc2.
  pose proof Hw as (Hok & Hwf' & Hoff & Hplan & Hu & Hfull & Hfresh).
  rewrite (vfs_nil w Hp0) in Hfull, Hfresh.
  set (fs0 := c_fs (w_ctx w)) in *. set (lo := wlo w) in *. set (f0 := w_file w) in *.
  assert (Hlo : lo <= f0) by lia.
  assert (Efiles : w_files w = nfiles lo f0).
  { rewrite (wr_ok_iota P HBS_lo HBS_hi HNB w Hok). fold lo. unfold nfiles. f_equal.
    rewrite lenN_length in Hn. lia. }
  assert (Hfull0 : forall n, lo <= n <= f0 -> full_file P fs0 n).
  { intros n Hn'. apply Hfull. rewrite Efiles. apply (nfiles_In P HBS_lo HBS_hi HNB); lia. }
  assert (Hgood : good P fs0 f0 U64_MAX).
  { split; [apply Hfull0; lia|]. intros n H1 H2. now apply Hfresh. }
  assert (Hdir0 : dir_of fs0 (nfiles lo f0)).
  { rewrite <- Efiles. apply Hdir. exact Hu. }
  assert (ES0 : stream_of fs0 (nfiles lo f0) = wstream w).
  { unfold wstream. now rewrite (vfs_nil w Hp0), Efiles. }
  assert (Epos : (f0 - lo) * FB + w_off w = wpos P w).
  { unfold wpos. f_equal. f_equal. lia. }
  destruct (noop_fold _ Htail) as [Ftail Dtail].
  destruct (cpre_data_take _ _ Hc) as (Hdata & Hj).
  rewrite ev_data_app, Dtail, app_nil_r, (wtrace_data P _ _ _ _ _ _ Htr) in Hdata, Hj.
  assert (Himg : exists fc short,
            img_ok P fs0 f0 (w_off w) (fold_left apply_event pe fs0) (ev_data pe) fc short /\
            fc <= f1 /\ (cpre pe wevs \/ (lenN (ev_data pe) = lenN NEW /\ fc = f1 /\ short = false))).
  { destruct (cpre_app_inv _ _ _ Hc) as [Hc1'|(pt & -> & Hc2')].
    - destruct (HW wtrace_img_pre _ _ _ _ _ _ Htr pe fs0 U64_MAX Hc1' Hgood Hu' (N.le_refl _))
        as (fc & short & Hfc & Hok'). exists fc, short. auto.
    - destruct (noop_fold _ (noop_cpre _ _ Htail Hc2')) as [F1 F2].
      exists f1, false. rewrite fold_left_app, F1, ev_data_app, F2, app_nil_r.
      rewrite (wtrace_data P _ _ _ _ _ _ Htr).
      split; [exact (HW wtrace_img_full _ _ _ _ _ _ Htr fs0 U64_MAX Hgood Hu' (N.le_refl _))|].
      split; [lia|right; auto]. }
  destruct Himg as (fc & short & Hok' & Hfc & Hlast).
  pose proof (HW img_ok_len _ _ _ _ _ _ _ Hok' (Hfull0 f0 ltac:(lia)) Hoff ltac:(lia)) as Hlen.
  pose proof Hok' as (Hle' & Hoth' & _ & Hshort' & _).
  destruct (HW assemble fs0 lo f0 (w_off w) _ (ev_data pe) fc short 0%nat Hlo ltac:(lia) Hfull0 Hdir0
              Hok' ltac:(lia)) as (Hdir' & Hlen' & Hstr').
  cbn [iota] in Hdir', Hlen', Hstr'. unfold remove_files in Hdir', Hlen', Hstr'.
  cbn [fold_left] in Hdir', Hlen', Hstr'.
  replace (lo + N.of_nat 0) with lo in Hdir', Hlen', Hstr' by lia.
  set (img := fold_left apply_event pe fs0) in *.
  set (j := lenN (ev_data pe)) in *.
  exists fc, short, (lenN (w_files w) * FB + (fc - f0) * FB - wpos P w - j).
  assert (Hndi : nodup_keys img) by (apply fold_nodup; exact Hnd).
  split; [lia|]. split; [exact Hle'|]. split; [exact Hfc|]. split; [lia|].
  split; [exact Hndi|].
  split; [exact Hdir'|].
  split; [apply (dir_listing P HBS_lo HBS_hi HNB); [exact Hndi|exact Hdir'|lia|lia]|].
  split; [exact Hlen'|].
  split; [exact Hshort'|].
  split; [exact Hdata|]. split; [exact Hj|].
  assert (Hbound' : wpos P w + j <= lenN (w_files w) * FB + (fc - f0) * FB).
  { rewrite <- Epos. replace (lenN (w_files w)) with (f0 - lo + 1) by lia. lia. }
  split.
  { rewrite Hstr', ES0, Epos, HS. rewrite <- Hdata. unfold j in *.
    rewrite (HW stream_to_ghost (takeN (wpos P w) (wstream w)) (gh_T P G) (ev_data pe)
               ((lo - gh_base G) * FB + wpos P w) (lo - gh_base G) (wpos P w)
               (lenN (w_files w) * FB) ((fc - f0) * FB) (N.of_nat 0 * FB));
      try assumption; try reflexivity.
    f_equal. lia. }
  split.
  { replace (fc + 1 - gh_base G) with ((lo - gh_base G) + lenN (w_files w) + (fc - f0)) by lia.
    lia. }
  split; [|exact Hlast].
  intros n Hgt Hle2. unfold img. rewrite Hoth'.
  - apply Hfresh; lia.
  - intros n' Hn'. apply filename_neq; lia.
Qed.

End PTrace.

Print Assumptions gstep_trace.
Print Assumptions gc_trace.
Print Assumptions anchor_tinv.
Print Assumptions anchor_shape_plain.
