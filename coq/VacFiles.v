(* VacFiles.v — vacuity audit, part 5: the file-level damage theorems (the "kept / ghost
   stream" setting of DamageFile): C09_open_one_damaged, and C08_open_damaged_replays_only_written
   = C09_open_damaged = C12_open_damaged (one lemma, DamageFile.open_damaged).
   Instance: BS = 16, NB = 2 (files of 32 bytes), the real CRC-32; six entries written from
   stream position 0 (file 0); file 0 was deleted (base = 0, lo = 1): the kept files 1..6 hold
   the stream from byte 32 on, with one frame of the THIRD entry damaged so that its CRC fails
   (the damaged bytes come from C09_damage_exists, so the directory is built from them). *)
From Coq Require Import Lia ZArith ZifyN ZifyNat ZifyBool List.
From MRL Require Import Bytes BytesProofs Params Names Frame Record Mem Spec Rolling Log Driver Hist
  RecordProofs StreamProofs TornProofs DamageProofs ResyncProofs GcProofs FileStream GhostLog
  OpenReplay DamageFile Crc VacBase VacStream.
From MRL Require PropC08 PropC09 PropC12.
Import ListNotations.

Arguments N.add : simpl never.
Arguments N.sub : simpl never.
Arguments N.mul : simpl never.
Arguments N.eqb : simpl never.
Arguments N.ltb : simpl never.
Arguments N.leb : simpl never.
Arguments N.div : simpl never.
Arguments N.modulo : simpl never.

(* ---------- a directory of six full files 1..6 with given contents ---------- *)
Section Six.
Variables b1 b2 b3 b4 b5 b6 : bytes.
Definition fs6 : fsT :=
  [(filename 1, FFile b1); (filename 2, FFile b2); (filename 3, FFile b3);
   (filename 4, FFile b4); (filename 5, FFile b5); (filename 6, FFile b6)].

Lemma fs6_listing : list_wal_numbers fs6 = iota 1 6.
Proof. vm_compute. reflexivity. Qed.

Lemma fs6_stream : stream_of fs6 (iota 1 6) = b1 ++ b2 ++ b3 ++ b4 ++ b5 ++ b6 ++ [].
Proof. vm_compute. reflexivity. Qed.

Lemma fs6_get f : In f (iota 1 6) ->
  exists b, fs_get fs6 (filename f) = Some (FFile b) /\ In b [b1; b2; b3; b4; b5; b6].
Proof.
  intros H. cbn in H.
  destruct H as [<-|[<-|[<-|[<-|[<-|[<-|[]]]]]]];
    eexists; (split; [vm_compute; reflexivity|]); cbn; tauto.
Qed.
End Six.

(* cutting a stream into n chunks of F bytes *)
Fixpoint chunks (n : nat) (F : N) (S : bytes) : list bytes :=
  match n with O => [] | Datatypes.S n' => takeN F S :: chunks n' F (dropN F S) end.

Lemma chunks_ok n F : forall S, lenN S = N.of_nat n * F ->
  concat (chunks n F S) = S /\ Forall (fun c => lenN c = F) (chunks n F S).
Proof.
  induction n as [|n IH]; intros S HS; cbn [chunks concat].
  - split; [|constructor]. symmetry. apply lenN_0_nil. lia.
  - destruct (IH (dropN F S)) as (Hc & Hl); [rewrite lenN_dropN; lia|].
    rewrite Hc. split; [apply takeN_dropN|]. constructor; [|exact Hl]. rewrite lenN_takeN. lia.
Qed.

Definition fs_of_stream (S : bytes) : fsT :=
  match chunks 6 32 S with
  | [c1; c2; c3; c4; c5; c6] => fs6 c1 c2 c3 c4 c5 c6
  | _ => []
  end.

Lemma fs_of_stream_ok S : lenN S = 192 ->
  list_wal_numbers (fs_of_stream S) = iota 1 6 /\
  stream_of (fs_of_stream S) (iota 1 6) = S /\
  forall f, In f (iota 1 6) ->
    exists b, fs_get (fs_of_stream S) (filename f) = Some (FFile b) /\ lenN b = 32.
Proof.
  intros HS. destruct (chunks_ok 6 32 S) as (Hc & Hl); [rewrite HS; reflexivity|].
  unfold fs_of_stream. cbn [chunks] in *.
  split; [apply fs6_listing|]. split.
  - rewrite fs6_stream. cbn [concat] in Hc. exact Hc.
  - intros f Hf. match goal with |- context [fs6 ?c1 ?c2 ?c3 ?c4 ?c5 ?c6] =>
      destruct (fs6_get c1 c2 c3 c4 c5 c6 f Hf) as (b & Hg & Hin) end. exists b. split; [exact Hg|].
    rewrite Forall_forall in Hl. apply Hl. exact Hin.
Qed.

(* ---------- the entries ---------- *)
Definition E1 : list entry := [EPosition qa 0; EAppend qa 0 [(0, ["x"; "y"]%byte)]].
Definition X : entry := EPosition qb 3.
Definition E2 : list entry := [EAppend qa 1 [(1, ["z"]%byte)]; ETruncate qa 0; EPosition qb 7].

Lemma wf_all : Forall wf_entry (E1 ++ X :: E2).
Proof.
  unfold E1, X, E2, wf_entry. cbn [app entry_queue entry_pos].
  repeat (constructor; [split; [vm_compute; reflexivity|]; split; [vm_compute; reflexivity|];
                        split; [vm_compute; reflexivity|];
                        first [exact I | repeat (constructor; [split; vm_compute; reflexivity|]); constructor]|]).
  constructor.
Qed.

Definition t1f : bytes := Eval vm_compute in encs_of Ps 0 (map entry_ser E1).
Definition exf : bytes := Eval vm_compute in enc_of Ps (lenN t1f) (entry_ser X).
Definition t2f : bytes := Eval vm_compute in encs_of Ps (lenN t1f + lenN exf) (map entry_ser E2).

Example files_shape :
  lenN t1f = 79 /\ lenN exf = 27 /\ lenN t2f = 112 /\
  map snd (starts Ps 0 (map entry_ser (E1 ++ X :: E2))) = [0; 32; 80; 112; 160; 192].
Proof. vm_compute. repeat split; reflexivity. Qed.

Lemma t1f_rel : encs_rel Ps 0 (map entry_ser E1) t1f.
Proof.
  replace t1f with (encs_of Ps 0 (map entry_ser E1)) by (vm_compute; reflexivity).
  apply (encs_of_rel Ps Ps_BS_lo Ps_BS_hi Ps_crc).
Qed.
Lemma exf_rel : exists k, enc_rel Ps (lenN t1f) true (entry_ser X) exf k.
Proof.
  replace exf with (enc_of Ps (lenN t1f) (entry_ser X)) by (vm_compute; reflexivity).
  apply (enc_of_rel Ps Ps_BS_lo Ps_BS_hi Ps_crc).
Qed.
Lemma t2f_rel : encs_rel Ps (lenN t1f + lenN exf) (map entry_ser E2) t2f.
Proof.
  replace t2f with (encs_of Ps (lenN t1f + lenN exf) (map entry_ser E2)) by (vm_compute; reflexivity).
  apply (encs_of_rel Ps Ps_BS_lo Ps_BS_hi Ps_crc).
Qed.

(* ---------- C09_open_one_damaged: all premises ---------- *)
Lemma C09_open_one_damaged_premises_satisfiable :
  exists (fs : fsT) (ed : bytes) (k : nat),
    (forall f, In f (iota 1 6) ->
       exists b, fs_get fs (filename f) = Some (FFile b) /\ lenN b = FILE_BYTES Ps) /\
    L_IO Ps = false /\ 0 <= 1 /\
    list_wal_numbers fs = iota 1 6 /\
    Forall wf_entry (E1 ++ X :: E2) /\
    encs_rel Ps 0 (map entry_ser E1) t1f /\
    enc_dmg Ps (lenN t1f) true (entry_ser X) exf ed k /\
    encs_rel Ps (lenN t1f + lenN exf) (map entry_ser E2) t2f /\
    stream_of fs (iota 1 6) = dropN ((1 - 0) * FILE_BYTES Ps) ((t1f ++ ed ++ t2f) ++ zerosN 6) /\
    lenN ((t1f ++ ed ++ t2f) ++ zerosN 6) = (1 + N.of_nat 5 - 0 + 1) * FILE_BYTES Ps /\
    (1 - 0) * FILE_BYTES Ps <= first_frame_pos Ps (lenN t1f).
Proof.
  destruct exf_rel as [k Hk].
  destruct (PropC09.C09_damage_exists Ps Ps_BS_lo Ps_BS_hi Ps_crc _ _ _ _ _ Hk) as (ed & Hd).
  pose proof (enc_dmg_len Ps Ps_BS_lo Ps_BS_hi Ps_crc _ _ _ _ _ _ Hd) as Hlen.
  set (Sall := (t1f ++ ed ++ t2f) ++ zerosN 6).
  assert (HL : lenN Sall = 224).
  { unfold Sall. rewrite !lenN_app, Hlen, lenN_zerosN. vm_compute. reflexivity. }
  set (S := dropN 32 Sall).
  assert (HS : lenN S = 192) by (unfold S; rewrite lenN_dropN, HL; reflexivity).
  destruct (fs_of_stream_ok S HS) as (Hls & Hst & Hget).
  exists (fs_of_stream S), ed, k.
  split; [exact Hget|]. split; [reflexivity|]. split; [lia|]. split; [exact Hls|].
  split; [exact wf_all|]. split; [exact t1f_rel|]. split; [exact Hd|]. split; [exact t2f_rel|].
  split; [exact Hst|]. split; [exact HL|]. vm_compute. intros H; discriminate H.
Qed.

Example C09_open_one_damaged_inst :
  exists fs w0 tags E1s,
    match replay_entries [] (combine tags (E1s ++ E2)) with
    | Some qs => open Ps fs None PNothing [] = open_finish Ps w0 qs PNothing []
    | None => exists c, open Ps fs None PNothing [] = OpenCorruption c
    end.
Proof.
  destruct C09_open_one_damaged_premises_satisfiable
    as (fs & ed & k & H1 & H2 & H3 & H4 & H5 & H6 & H7 & H8 & H9 & H10 & H11).
  destruct (PropC09.C09_open_one_damaged Ps Ps_BS_lo Ps_BS_hi Ps_NB Ps_crc fs 1 5%nat H1 0 E1 X E2 t1f
              exf ed k t2f 6 PNothing [] H2 H3 H4 H5 H6 H7 H8 H9 H10 H11)
    as (w0 & tags & E1p & E1s & _ & _ & _ & _ & _ & Hres).
  exists fs, w0, tags, E1s. exact Hres.
Qed.

(* ---------- open_damaged (C08 / C09 / C12): all premises, with real damage ---------- *)
Lemma open_damaged_premises_satisfiable :
  exists (fs : fsT) (pxs : list (bytes * list fspec)) (T' : bytes),
    (forall f, In f (iota 1 6) ->
       exists b, fs_get fs (filename f) = Some (FFile b) /\ lenN b = FILE_BYTES Ps) /\
    L_IO Ps = false /\ 0 <= 1 /\
    list_wal_numbers fs = iota 1 6 /\
    Forall wf_entry (E1 ++ X :: E2) /\
    map fst pxs = map entry_ser (E1 ++ X :: E2) /\
    encs_any Ps 0 pxs T' /\
    stream_of fs (iota 1 6) = dropN ((1 - 0) * FILE_BYTES Ps) (T' ++ zerosN 6) /\
    lenN (T' ++ zerosN 6) = (1 + N.of_nat 5 - 0 + 1) * FILE_BYTES Ps /\
    map (intact Ps) pxs = [true; true; false; true; true; true].
Proof.
  destruct C09_open_one_damaged_premises_satisfiable
    as (fs & ed & k & H1 & H2 & H3 & H4 & H5 & H6 & H7 & H8 & H9 & H10 & H11).
  pose proof (enc_dmg_len Ps Ps_BS_lo Ps_BS_hi Ps_crc _ _ _ _ _ _ H7) as Hlen.
  destruct (encs_rel_any Ps Ps_BS_lo Ps_BS_hi Ps_crc 0 _ t1f H6) as (pxs1 & Ha1 & Hm1 & Hi1).
  destruct (enc_dmg_any Ps Ps_BS_lo Ps_BS_hi Ps_crc _ _ _ _ _ _ H7) as (xs & Hx & Hbad & _).
  rewrite <- Hlen in H8.
  destruct (encs_rel_any Ps Ps_BS_lo Ps_BS_hi Ps_crc _ _ t2f H8) as (pxs2 & Ha2 & Hm2 & Hi2).
  exists fs, (pxs1 ++ (entry_ser X, xs) :: pxs2), (t1f ++ ed ++ t2f).
  split; [exact H1|]. split; [exact H2|]. split; [exact H3|]. split; [exact H4|]. split; [exact H5|].
  split; [rewrite !map_app; cbn [map fst]; now rewrite Hm1, Hm2|].
  split.
  { apply (encs_any_app Ps Ps_BS_lo Ps_BS_hi Ps_crc 0 pxs1 t1f Ha1).
    econstructor; [exact Hx|]. rewrite N.add_0_l. exact Ha2. }
  split; [exact H9|]. split; [exact H10|].
  assert (L1 : length pxs1 = 2%nat) by (rewrite <- (map_length fst), Hm1; reflexivity).
  assert (L2 : length pxs2 = 3%nat) by (rewrite <- (map_length fst), Hm2; reflexivity).
  destruct pxs1 as [|a1 [|a2 [|]]]; try discriminate L1.
  destruct pxs2 as [|c1 [|c2 [|c3 [|]]]]; try discriminate L2.
  cbn [forallb] in Hi1, Hi2. apply andb_true_iff in Hi1 as [I1 I2]. apply andb_true_iff in I2 as [I2 _].
  apply andb_true_iff in Hi2 as [J1 J2]. apply andb_true_iff in J2 as [J2 J3].
  apply andb_true_iff in J3 as [J3 _].
  cbn [app map]. rewrite I1, I2, J1, J2, J3. unfold intact at 1. cbn [snd]. rewrite Hbad. reflexivity.
Qed.

Example C09_open_damaged_inst :
  exists fs w0 tags E_ok,
    match replay_entries [] (combine tags E_ok) with
    | Some qs => open Ps fs None PNothing [] = open_finish Ps w0 qs PNothing []
    | None => exists c, open Ps fs None PNothing [] = OpenCorruption c
    end.
Proof.
  destruct open_damaged_premises_satisfiable
    as (fs & pxs & T' & H1 & H2 & H3 & H4 & H5 & H6 & H7 & H8 & H9 & _).
  destruct (PropC09.C09_open_damaged Ps Ps_BS_lo Ps_BS_hi Ps_NB Ps_crc fs 1 5%nat H1 0 (E1 ++ X :: E2)
              pxs T' 6 PNothing [] H2 H3 H4 H5 H6 H7 H8 H9)
    as (w0 & tags & Ep & Es & p1 & p2 & _ & _ & _ & _ & _ & _ & _ & _ & Hres).
  exists fs, w0, tags, (ok_entries Ps p2 Es). exact Hres.
Qed.

Example C08_open_damaged_replays_only_written_inst :
  exists fs w0 tags E_ok,
    match replay_entries [] (combine tags E_ok) with
    | Some qs => open Ps fs None (PAlways true) [qa] = open_finish Ps w0 qs (PAlways true) [qa]
    | None => exists c, open Ps fs None (PAlways true) [qa] = OpenCorruption c
    end.
Proof.
  destruct open_damaged_premises_satisfiable
    as (fs & pxs & T' & H1 & H2 & H3 & H4 & H5 & H6 & H7 & H8 & H9 & _).
  destruct (PropC08.C08_open_damaged_replays_only_written Ps Ps_BS_lo Ps_BS_hi Ps_NB Ps_crc fs 1 5%nat H1
              0 (E1 ++ X :: E2) pxs T' 6 (PAlways true) [qa] H2 H3 H4 H5 H6 H7 H8 H9)
    as (w0 & tags & Ep & Es & p1 & p2 & _ & _ & _ & _ & _ & _ & _ & _ & Hres).
  exists fs, w0, tags, (ok_entries Ps p2 Es). exact Hres.
Qed.

Example C12_open_damaged_inst :
  exists fs w0 tags E_ok,
    match replay_entries [] (combine tags E_ok) with
    | Some qs => open Ps fs None (PDelay false) [] = open_finish Ps w0 qs (PDelay false) []
    | None => exists c, open Ps fs None (PDelay false) [] = OpenCorruption c
    end.
Proof.
  destruct open_damaged_premises_satisfiable
    as (fs & pxs & T' & H1 & H2 & H3 & H4 & H5 & H6 & H7 & H8 & H9 & _).
  destruct (PropC12.C12_open_damaged Ps Ps_BS_lo Ps_BS_hi Ps_NB Ps_crc fs 1 5%nat H1
              0 (E1 ++ X :: E2) pxs T' 6 (PDelay false) [] H2 H3 H4 H5 H6 H7 H8 H9)
    as (w0 & tags & Ep & Es & p1 & p2 & _ & _ & _ & _ & _ & _ & _ & _ & Hres).
  exists fs, w0, tags, (ok_entries Ps p2 Es). exact Hres.
Qed.

(* ====================================================================== *)
(* open_torn (C02_open_torn = C12_open_torn): every premise except no_zero_collision          *)
(* ====================================================================== *)
(* base 0, lo 1 (file 0 deleted); E_all = E1 ++ [X] written from 0 (106 bytes); the call in
   flight logs the three entries of E2 from c0 = 106, cut after j = 50 of their 112 bytes (inside
   the third frame of the first entry); the last file (4) is SHORT: 28 bytes instead of 32 *)
Import TornFile.
Definition T_t : bytes := Eval vm_compute in encs_of Ps 0 (map entry_ser (E1 ++ [X])).
Definition S_t : bytes :=
  Eval vm_compute in T_t ++ zerosN (106 - lenN T_t) ++
                     takeN 50 (encs_of Ps 106 (map entry_ser E2)) ++ zerosN 4.
Definition fs_t : fsT :=
  Eval vm_compute in
    [(filename 1, FFile (sliceN 32 64 S_t)); (filename 2, FFile (sliceN 64 96 S_t));
     (filename 3, FFile (sliceN 96 128 S_t)); (filename 4, FFile (sliceN 128 156 S_t))].

Lemma wf_E1X : Forall wf_entry (E1 ++ [X]).
Proof.
  pose proof wf_all as H. apply Forall_app in H as [H1 H2]. apply Forall_app. split; [exact H1|].
  inversion H2; subst. constructor; [assumption|constructor].
Qed.
Lemma wf_E2 : Forall wf_entry E2.
Proof. pose proof wf_all as H. apply Forall_app in H as [_ H2]. now inversion H2. Qed.

Lemma open_torn_other_premises_satisfiable :
  list_wal_numbers fs_t = iota 1 4 /\
  (forall f, In f (iota 1 4) ->
     exists b, fs_get fs_t (filename f) = Some (FFile b) /\
               lenN b <= FILE_BYTES Ps /\ (f <> 1 + N.of_nat 3 -> lenN b = FILE_BYTES Ps)) /\
  0 <= 1 /\ L_IO Ps = false /\ L_SHORT Ps = false /\
  Forall wf_entry (E1 ++ [X]) /\ Forall wf_entry E2 /\
  encs_rel Ps 0 (map entry_ser (E1 ++ [X])) T_t /\
  lenN T_t <= 106 /\ 106 <= first_frame_pos Ps (lenN T_t) /\ (1 - 0) * FILE_BYTES Ps <= 106 /\
  50 <= lenN (encs_of Ps 106 (map entry_ser E2)) /\
  stream_of (fs_ext Ps fs_t 1 3) (iota 1 4) =
    dropN ((1 - 0) * FILE_BYTES Ps)
          (T_t ++ zerosN (106 - lenN T_t) ++ takeN 50 (encs_of Ps 106 (map entry_ser E2)) ++ zerosN 4) /\
  lenN (T_t ++ zerosN (106 - lenN T_t) ++ takeN 50 (encs_of Ps 106 (map entry_ser E2)) ++ zerosN 4) =
    (1 + N.of_nat 3 - 0 + 1) * FILE_BYTES Ps.
Proof.
  split; [vm_compute; reflexivity|]. split.
  { intros f Hf. cbn in Hf.
    destruct Hf as [<-|[<-|[<-|[<-|[]]]]]; eexists;
      (split; [vm_compute; reflexivity|]);
      (split; [vm_compute; intros H; discriminate H|]); intros Hne;
      first [vm_compute; reflexivity | exfalso; apply Hne; reflexivity]. }
  split; [lia|]. split; [reflexivity|]. split; [reflexivity|].
  split; [exact wf_E1X|]. split; [exact wf_E2|]. split.
  { replace T_t with (encs_of Ps 0 (map entry_ser (E1 ++ [X]))) by (vm_compute; reflexivity).
    apply (encs_of_rel Ps Ps_BS_lo Ps_BS_hi Ps_crc). }
  split; [vm_compute; intros H; discriminate H|]. split; [vm_compute; intros H; discriminate H|].
  split; [vm_compute; intros H; discriminate H|]. split; [vm_compute; intros H; discriminate H|].
  split; vm_compute; reflexivity.
Qed.

(* what open does on this directory, by computation (the theorem itself cannot be applied:
   no_zero_collision Ps is false): it succeeds and replays E1[1] and X; the torn first entry of
   E2 (cut in its third frame) is not delivered *)
Example open_torn_computed :
  match open Ps fs_t None PNothing [] with
  | OpenOk st => map (fun '(q, m) => (q, next_position m)) (s_qs st) = [(qa, 1); (qb, 3)] /\
                 w_file (s_wr st) = 4 /\ w_off (s_wr st) = 30
  | _ => False
  end.
Proof. vm_compute. repeat split; reflexivity. Qed.

(* ====================================================================== *)
(* PropC07: the rolling files                                              *)
(* ====================================================================== *)
(* C07_roundtrip_files / C07_restart_continues_stream: a fresh directory and a total size below
   2^64 files *)
Definition st0s : state :=
  Eval vm_compute in match open Ps [] None PNothing [] with OpenOk s => s
                     | _ => mkSt (mkWr (ctx_init [] None) [] 0 0 []) [] PNothing end.
Lemma open_st0s : open Ps [] None PNothing [] = OpenOk st0s.
Proof. vm_compute. reflexivity. Qed.
Definition es_f : list bytes := map entry_ser (E1 ++ X :: E2).
Lemma maxlen_ok : vw_cursor (fst (mem_write_all Ps (mkVecW 0 []) es_f)) <= MAXLEN Ps.
Proof. vm_compute. intros H; discriminate H. Qed.

Example C07_roundtrip_files_inst :
  exists w', file_write_all Ps (s_wr st0s) es_f =
             (w', Ok (snd (mem_write_all Ps (mkVecW 0 []) es_f))).
Proof.
  destruct (PropC07.C07_roundtrip_files Ps Ps_BS_lo Ps_BS_hi Ps_NB Ps_crc PNothing st0s es_f open_st0s
              maxlen_ok) as (w' & H & _). exists w'. exact H.
Qed.

Example C07_restart_continues_stream_inst :
  exists w' c rd, file_write_all Ps (s_wr st0s) es_f =
                    (w', Ok (snd (mem_write_all Ps (mkVecW 0 []) es_f))) /\
                  rd_open Ps (ctx_init (PolicyProofs.vfs w') None) = (c, Ok rd).
Proof.
  destruct (PropC07.C07_restart_continues_stream Ps Ps_BS_lo Ps_BS_hi Ps_NB Ps_crc PNothing st0s es_f
              open_st0s maxlen_ok) as (w' & c & rd & H1 & H2 & _).
  exists w', c, rd. split; [exact H1|exact H2].
Qed.

(* C07_reader_is_stream_reader: rd_rel holds between the reader `rd_open` returns on a directory
   of full files and the in-memory reader at block 0 of their concatenation *)
Definition fs_c : fsT := Eval vm_compute in fs_of_stream (dropN 32 ((t1f ++ exf ++ t2f) ++ zerosN 6)).

Lemma fs_c_full : forall n, In n (iota 1 6) ->
  exists b, fs_get fs_c (filename n) = Some (FFile b) /\ lenN b = FILE_BYTES Ps.
Proof.
  intros f Hf. cbn in Hf.
  destruct Hf as [<-|[<-|[<-|[<-|[<-|[<-|[]]]]]]]; eexists; (split; vm_compute; reflexivity).
Qed.

Example C07_reader_is_stream_reader_inst :
  exists r v, rd_rel Ps fs_c (iota 1 6) r v /\
    snd (rd_next Ps r) = snd (vr_next Ps v) /\
    rd_rel Ps fs_c (iota 1 6) (fst (rd_next Ps r)) (fst (vr_next Ps v)).
Proof.
  assert (HB : 0 < BS Ps) by reflexivity.
  destruct (rd_open_sim Ps HB Ps_NB fs_c (iota 1 6) (iota_sorted _ _) fs_c_full (ctx_init fs_c None))
    as (c & rd & _ & Hrel); [split; reflexivity | vm_compute; reflexivity | discriminate |].
  exists rd, (vec_at Ps fs_c (iota 1 6) 0). split; [exact Hrel|].
  exact (PropC07.C07_reader_is_stream_reader Ps HB Ps_NB fs_c (iota 1 6) (iota_sorted _ _) fs_c_full
           rd _ Hrel).
Qed.
